(* C06 lemmas, part 2: the cache invariant IC_valid, its preservation, the bookkeeping lemmas
   (a cacheable slot returned by ordinary_try_get / ordinary_set describes the receiver or its direct prototype),
   and the step simulation between the cached and the uncached run. *)
From Coq Require Import NArith Bool List Lia.
From Gen Require Import SlotFlags.
From C06 Require Import Model_C06 Proofs_C06.
Import ListNotations.
Local Open Scope N_scope.

(* ------------------------------------------------------------------------------------------- slot patterns *)
(* gws_attrs / proto_in / own_pat / proto_pat are defined in Model_C06.v *)
Lemma own_pat_facts a :
  has_flag (gws_attrs 0 a) sf_PROTOTYPE = false /\ sf_has_get (gws_attrs 0 a) = a_g a /\ sf_has_set (gws_attrs 0 a) = a_s a /\
  sf_is_accessor_descriptor (gws_attrs 0 a) = a_is_accessor a /\ sf_is_cacheable (gws_attrs 0 a) = true /\
  sf_has_get (bits_of a) = a_g a /\ sf_has_set (bits_of a) = a_s a /\ has_flag (bits_of a) sf_WRITABLE = a_w a.
Proof. all_dattrs a; vm_compute; repeat split; reflexivity. Qed.
Lemma proto_pat_facts a :
  has_flag (gws_attrs proto_in a) sf_PROTOTYPE = true /\ sf_has_get (gws_attrs proto_in a) = a_g a /\
  sf_has_set (gws_attrs proto_in a) = a_s a /\
  sf_is_accessor_descriptor (gws_attrs proto_in a) = a_is_accessor a /\ sf_is_cacheable (gws_attrs proto_in a) = true.
Proof. all_dattrs a; vm_compute; repeat split; reflexivity. Qed.
Lemma acc_flags a : a_is_accessor a = a_g a || a_s a.
Proof. all_dattrs a; vm_compute; reflexivity. Qed.
Lemma data_attrs_canon a : a_is_accessor a = false ->
  {| a_w := has_flag (bits_of a) sf_WRITABLE; a_e := a_e a; a_c := a_c a; a_g := false; a_s := false |} = a.
Proof. all_dattrs a; vm_compute; intro H; first [reflexivity | discriminate H]. Qed.
(* the slot bits computed along `o.k = v` on an own writable data property come back to the own pattern *)
Lemma own_pat_roundtrip a :
  let s1 := N.land (gws_attrs 0 a) (N.lxor sf_NOT_CACHEABLE 255) in
  let s2 := gws_attrs s1 a in
  N.lor (N.lor (N.land s2 sf_INLINE_CACHE_BITS) (bits_of a)) sf_FOUND = gws_attrs 0 a.
Proof. all_dattrs a; vm_compute; reflexivity. Qed.
Lemma bits_not_found a : sf_is_cacheable (N.lor (N.land (N.land (N.land 0 (N.lxor (N.lor sf_PROTOTYPE sf_NOT_CACHEABLE) 255)) (N.lxor sf_NOT_CACHEABLE 255)) sf_INLINE_CACHE_BITS) (bits_of a)) = false.
Proof. all_dattrs a; vm_compute; reflexivity. Qed.

(* ------------------------------------------------------------------------------------------- the invariant *)
(* [sl] says where the uncached lookup of k finds the property for an object of shape s *now*: in the object itself, or
   in its direct prototype object (whose current shape is the one to remember) *)
Definition slot_describes (kd : skind) (h : heap) (k : key) (s : shape) (sl : slot) : Prop :=
  (exists i a, lookup_shape h s k = Some (i, a) /\ sl = own_pat i a /\ (kd = SSet -> a_is_accessor a = false -> a_w a = true))
  \/
  (exists p px i a, lookup_shape h s k = None /\ shape_proto h s = Some p /\ get_obj h p = Some px /\
     lookup_shape h (o_shape px) k = Some (i, a) /\ sl = proto_pat i a /\ (kd = SSet -> a_is_accessor a = true)).

(* what is known about a stored entry at any later time: facts about *shapes* only, which no heap step can change
   (shared shapes are immutable, a unique shape only ever gets keys appended in place); whether the receiver's prototype
   object still has the remembered shape, and whether a unique receiver shape has got the key meanwhile, is checked on the hit *)
Definition entry_ok (kd : skind) (h : heap) (k : key) (e : entry) : Prop :=
  if has_flag (s_attrs (e_slot e)) sf_PROTOTYPE then
    match e_pshape e with
    | None => True
    | Some ps => exists i a, lookup_shape h ps k = Some (i, a) /\ e_slot e = proto_pat i a /\
                   (kd = SSet -> a_is_accessor a = true) /\
                   (is_unique_shape (e_shape e) = false -> lookup_shape h (e_shape e) k = None)
    end
  else exists i a, lookup_shape h (e_shape e) k = Some (i, a) /\ e_slot e = own_pat i a /\
         (kd = SSet -> a_is_accessor a = false -> a_w a = true).
Definition IC_valid (st : state) : Prop :=
  forall kd n k c, In ((kd, n, k), c) (st_sites st) -> forall e, In e (c_entries c) -> entry_ok kd (st_heap st) k e.

Lemma IC_valid_init : IC_valid init.
Proof. intros kd n k c H. inversion H. Qed.

(* heaps only grow in what a shape identity promises: a key found in a shape stays found there, at the same slot *)
Definition umono (h h' : heap) : Prop :=
  forall u us, nthN (h_ushapes h) u = Some us ->
    exists us', nthN (h_ushapes h') u = Some us' /\
      forall k x, lookup_tab (u_tab us) k = Some x -> lookup_tab (u_tab us') k = Some x.
Lemma umono_refl h : umono h h.
Proof. intros u us H. eauto. Qed.
Lemma umono_trans h1 h2 h3 : umono h1 h2 -> umono h2 h3 -> umono h1 h3.
Proof.
  intros A B u us H. destruct (A u us H) as [us2 [H2 L2]]. destruct (B u us2 H2) as [us3 [H3 L3]].
  exists us3. split; auto.
Qed.
Lemma umono_eq h h' : h_ushapes h' = h_ushapes h -> umono h h'.
Proof. intros E u us H. rewrite E. eauto. Qed.

Lemma lookup_stable h h' s k x : umono h h' -> lookup_shape h s k = Some x -> lookup_shape h' s k = Some x.
Proof.
  intros M. destruct s as [p|u]; [auto|]. unfold lookup_shape, shape_tab.
  destruct (nthN (h_ushapes h) u) as [us|] eqn:E; [|discriminate].
  destruct (M u us E) as [us' [-> L]]. auto.
Qed.
Lemma lookup_shared_const h h' p k : lookup_shape h (ShShared p) k = lookup_shape h' (ShShared p) k.
Proof. reflexivity. Qed.

Lemma entry_ok_mono kd h h' k e : umono h h' -> entry_ok kd h k e -> entry_ok kd h' k e.
Proof.
  intros M. unfold entry_ok. destruct (has_flag (s_attrs (e_slot e)) sf_PROTOTYPE).
  - destruct (e_pshape e) as [ps|]; auto. intros (i & a & L & Hs & Hk & Hn).
    exists i, a. repeat split; auto. eapply lookup_stable; eauto.
    intro Hu. destruct (e_shape e) as [p|u]; [|discriminate]. rewrite <- (Hn Hu). reflexivity.
  - intros (i & a & L & Hs & Hk). exists i, a. repeat split; auto. eapply lookup_stable; eauto.
Qed.

(* old entries survive every heap step *)
Lemma IC_valid_heap_step st h' : IC_valid st -> umono (st_heap st) h' ->
  IC_valid {| st_heap := h'; st_sites := st_sites st |}.
Proof.
  intros Hv M kd n k c Hin e He. simpl in *. eapply entry_ok_mono; eauto.
Qed.

(* a freshly described slot gives a valid entry; a current valid entry describes the receiver *)
Lemma fresh_entry_ok kd h k s sl : slot_describes kd h k s sl ->
  entry_ok kd h k {| e_shape := s; e_pshape := pshape_of h s sl; e_slot := sl |}.
Proof.
  intros [(i & a & L & -> & Hk) | (p & px & i & a & L0 & P0 & Hpx & L1 & -> & Hk)]; unfold entry_ok, pshape_of; simpl.
  - destruct (own_pat_facts a) as [-> _]. exists i, a. auto.
  - destruct (proto_pat_facts a) as [-> _]. rewrite P0, Hpx. exists i, a. auto.
Qed.
Lemma current_entry_describes kd h k e : entry_ok kd h k e -> entry_is_current h k e (e_shape e) = true ->
  slot_describes kd h k (e_shape e) (e_slot e).
Proof.
  unfold entry_ok, entry_is_current. destruct (has_flag (s_attrs (e_slot e)) sf_PROTOTYPE); simpl.
  - destruct (is_unique_shape (e_shape e) && is_some (lookup_shape h (e_shape e) k)) eqn:Eu; [discriminate|].
    destruct (e_pshape e) as [ps|]; [|discriminate]. intros (i & a & L & Hs & Hk & Hn).
    destruct (shape_proto h (e_shape e)) as [p|] eqn:P0; [|discriminate].
    destruct (get_obj h p) as [px|] eqn:Hpx; [|discriminate]. intro Heq. apply shape_eqb_eq in Heq. subst ps.
    right. exists p, px, i, a. repeat split; auto.
    destruct (is_unique_shape (e_shape e)) eqn:Eq; [|auto].
    simpl in Eu. destruct (lookup_shape h (e_shape e) k); [discriminate | reflexivity].
  - intros (i & a & L & Hs & Hk) _. left. exists i, a. auto.
Qed.

(* ------------------------------------------------------------------------------------------- site tables *)
Lemma skind_eqb_eq a b : skind_eqb a b = true -> a = b.
Proof. destruct a, b; simpl; auto; discriminate. Qed.
Lemma siteid_eqb_eq a b : siteid_eqb a b = true -> a = b.
Proof.
  destruct a as [[ka na] xa], b as [[kb nb] xb]. simpl. intro H.
  apply andb_true_iff in H as [H H3]. apply andb_true_iff in H as [H1 H2].
  apply skind_eqb_eq in H1. apply N.eqb_eq in H2. apply N.eqb_eq in H3. now subst.
Qed.
Lemma site_get_in ss id : site_get ss id = cache_new \/ In (id, site_get ss id) ss.
Proof.
  induction ss as [|[id' c] r IH]; simpl; auto.
  destruct (siteid_eqb id' id) eqn:E.
  - apply siteid_eqb_eq in E. subst. right; left; reflexivity.
  - destruct IH; auto.
Qed.
Lemma site_put_in ss id c id' c' : In (id', c') (site_put ss id c) -> (id' = id /\ c' = c) \/ In (id', c') ss.
Proof.
  induction ss as [|[id0 c0] r IH]; simpl.
  - intros [H|[]]. inversion H. auto.
  - destruct (siteid_eqb id0 id) eqn:E; simpl.
    + intros [H|H]; [inversion H; subst; apply siteid_eqb_eq in E; subst; auto | auto].
    + intros [H|H]; auto. destruct (IH H); auto.
Qed.

Lemma find_entry_in : forall es s i j e, find_entry es s i = Some (j, e) -> In e es /\ e_shape e = s.
Proof.
  induction es as [|e' r IH]; simpl; intros s i j e H; [discriminate|].
  destruct (shape_eqb (e_shape e') s) eqn:E.
  - inversion H; subst. apply shape_eqb_eq in E. auto.
  - destruct (IH _ _ _ _ H). auto.
Qed.
Lemma in_removelast {A} (l : list A) x : In x (removelast l) -> In x l.
Proof.
  induction l as [|a [|b r] IH]; simpl; auto. intros [H|H]; auto. right. apply IH. exact H.
Qed.
Lemma swap_remove_in {A} (l : list A) i x : In x (swap_remove l i) -> In x l.
Proof.
  unfold swap_remove. destruct (rev l) as [|lst t] eqn:E; auto.
  assert (Hl : In lst l) by (apply in_rev; rewrite E; left; reflexivity).
  intro H. apply in_app_or in H as [H|H].
  - rewrite <- (firstn_skipn i l). apply in_or_app. auto.
  - destruct (Nat.eqb (S i) (length l)); [inversion H|]. destruct H as [<-|H]; auto.
    apply in_removelast in H. rewrite <- (firstn_skipn (S i) l). apply in_or_app. auto.
Qed.
Lemma filter_keep_in {A} (l : list A) keep x : In x (filter_keep l keep) -> In x l.
Proof.
  revert keep. induction l; destruct keep; simpl; auto.
  destruct b; simpl; intros H; [destruct H; eauto | eauto].
Qed.

(* entries of the cache of [id]: all valid *)
Lemma cache_entries_ok st kd n k : IC_valid st ->
  forall e, In e (c_entries (site_get (st_sites st) (kd, n, k))) -> entry_ok kd (st_heap st) k e.
Proof.
  intros Hv e He. destruct (site_get_in (st_sites st) (kd, n, k)) as [H|H].
  - rewrite H in He. inversion He.
  - eapply Hv; eauto.
Qed.

(* storing one more valid entry (or going megamorphic, or being refused) keeps the invariant *)
Lemma IC_valid_put st kd n k c' :
  IC_valid st ->
  (forall e, In e (c_entries c') -> entry_ok kd (st_heap st) k e) ->
  IC_valid {| st_heap := st_heap st; st_sites := site_put (st_sites st) (kd, n, k) c' |}.
Proof.
  intros Hv Hc kd' n' k' c Hin e He. simpl in *.
  apply site_put_in in Hin as [[Hid ->]|Hin].
  - inversion Hid; subst. auto.
  - eapply Hv; eauto.
Qed.

Lemma ic_set_entries rc kd c h k s sl c' ev bad : ic_set rc kd c h k s sl = (c', ev, bad) ->
  forall e, In e (c_entries c') -> In e (c_entries c) \/
    (e = {| e_shape := s; e_pshape := pshape_of h s sl; e_slot := sl |} /\ bad = negb (describes_b kd h k s sl)).
Proof.
  unfold ic_set. destruct (c_mega c).
  - intro H; inversion H; subst; auto.
  - destruct (negb (recheck_ok rc h k s sl)); [intro H; inversion H; subst; auto|].
    destruct (N.ltb (lenN (c_entries c)) sf_PIC_CAPACITY); intro H; inversion H; subst; simpl.
    + intros e He. apply in_app_or in He as [He|[He|[]]]; auto.
    + intros e [].
Qed.

(* InlineCache::get: a hit is a current entry of the cache for exactly this shape; otherwise the cache only loses an entry *)
Lemma ic_get_spec c h k s hit c1 ev : ic_get c h k s = (hit, c1, ev) ->
  (forall e, In e (c_entries c1) -> In e (c_entries c)) /\
  (forall sl, hit = Some sl -> c1 = c /\ exists e, In e (c_entries c) /\ e_shape e = s /\ e_slot e = sl /\ entry_is_current h k e s = true).
Proof.
  unfold ic_get. destruct (c_mega c).
  - intro H; inversion H; subst. split; auto. intros sl E; discriminate.
  - destruct (find_entry (c_entries c) s 0) as [[i e]|] eqn:F.
    + destruct (find_entry_in _ _ _ _ _ F) as [Hin Hs].
      destruct (entry_is_current h k e s) eqn:Ec; intro H; inversion H; subst; simpl.
      * split; auto. intros sl E. inversion E; subst. split; auto. exists e. auto.
      * split; [intros e0 He; eapply swap_remove_in; eauto | intros sl E; discriminate].
    + intro H; inversion H; subst. split; auto. intros sl E; discriminate.
Qed.

(* ------------------------------------------------------------------------------------------- bookkeeping of [[Get]] *)
Lemma gws_eq h x k sl : get_with_slot h x k sl =
  match lookup_shape h (o_shape x) k with
  | Some (i, a) => d <- get_storage (o_store x) (i, a) ;;
                   Some (Some d, {| s_index := i; s_attrs := gws_attrs (s_attrs sl) a |})
  | None => Some (None, sl)
  end.
Proof. unfold get_with_slot. destruct (lookup_shape h (o_shape x) k) as [[i a]|]; reflexivity. Qed.

Lemma f_nc_lor a b : f_nc (N.lor a b) = f_nc a || f_nc b.
Proof. unfold f_nc. apply N.lor_spec. Qed.
Lemma f_nc_gws b a : f_nc b = true -> f_nc (gws_attrs b a) = true.
Proof.
  intro H. unfold gws_attrs. rewrite !f_nc_lor. unfold f_nc in *. rewrite N.land_spec, H.
  replace (N.testbit sf_INLINE_CACHE_BITS 7) with true by (vm_compute; reflexivity). reflexivity.
Qed.
Lemma f_nc_trick a : f_nc a = true -> f_nc (N.lor (sf_set_not_cacheable_if_already_prototype a) sf_PROTOTYPE) = true.
Proof.
  intro H. rewrite f_nc_lor, shift_trick_lemma. destruct (has_flag a sf_PROTOTYPE); [rewrite f_nc_lor|]; rewrite H; reflexivity.
Qed.
Lemma f_nc_trick_proto a : f_proto a = true -> f_nc (N.lor (sf_set_not_cacheable_if_already_prototype a) sf_PROTOTYPE) = true.
Proof.
  intro H. rewrite f_nc_lor, shift_trick_lemma, hf_proto, H, f_nc_lor.
  replace (f_nc sf_NOT_CACHEABLE) with true by (vm_compute; reflexivity). now rewrite orb_true_r.
Qed.
Lemma not_cacheable_nc a : f_nc a = true -> sf_is_cacheable a = false.
Proof. intro H. rewrite is_cacheable_spec, H. reflexivity. Qed.

Lemma otg_nc : forall fuel h o k sl tr r sl',
  f_nc (s_attrs sl) = true -> ordinary_try_get fuel h o k sl = Some (tr, r, sl') -> f_nc (s_attrs sl') = true.
Proof.
  induction fuel as [|fuel IH]; intros h o k sl tr r sl' Hnc H; simpl in H; [discriminate|].
  destruct (get_obj h o) as [x|]; [|discriminate].
  rewrite gws_eq in H. destruct (lookup_shape h (o_shape x) k) as [[i a]|].
  - destruct (get_storage (o_store x) (i, a)) as [d|]; [|discriminate].
    assert (E : f_nc (gws_attrs (s_attrs sl) a) = true) by now apply f_nc_gws.
    destruct (d_kind d) as [[v|] w|[[| |f]|] s|]; inversion H; subst; exact E.
  - destruct (shape_proto h (o_shape x)) as [p|].
    + eapply IH; [|exact H]. simpl. now apply f_nc_trick.
    + inversion H; subst. exact Hnc.
Qed.

Lemma otg_cacheable : forall fuel h o k x tr r sl kd,
  get_obj h o = Some x ->
  ordinary_try_get fuel h o k slot_new = Some (tr, r, sl) ->
  sf_is_cacheable (s_attrs sl) = true -> kd <> SSet ->
  slot_describes kd h k (o_shape x) sl.
Proof.
  intros fuel h o k x tr r sl kd Hx H Hc Hkd.
  destruct fuel as [|fuel]; simpl in H; [discriminate|].
  rewrite Hx, gws_eq in H. destruct (lookup_shape h (o_shape x) k) as [[i a]|] eqn:L0.
  - destruct (get_storage (o_store x) (i, a)) as [d|]; [|discriminate].
    assert (E : sl = own_pat i a) by (destruct (d_kind d) as [[v|] w|[[| |f]|] s|]; inversion H; subst; reflexivity).
    subst sl. left. exists i, a. repeat split; auto; try (intro; contradiction).
  - destruct (shape_proto h (o_shape x)) as [p|] eqn:P0.
    + change (slot_or {| s_index := s_index slot_new; s_attrs := sf_set_not_cacheable_if_already_prototype (s_attrs slot_new) |} sf_PROTOTYPE)
        with {| s_index := 0; s_attrs := proto_in |} in H.
      destruct fuel as [|fuel]; simpl in H; [discriminate|].
      destruct (get_obj h p) as [px|] eqn:Op; [|discriminate].
      rewrite gws_eq in H. destruct (lookup_shape h (o_shape px) k) as [[i a]|] eqn:L1.
      * destruct (get_storage (o_store px) (i, a)) as [d|]; [|discriminate].
        assert (E : sl = proto_pat i a) by (destruct (d_kind d) as [[v|] w|[[| |f]|] s|]; inversion H; subst; reflexivity).
        subst sl. right. exists p, px, i, a. repeat split; auto; try (intro; contradiction).
      * exfalso. destruct (shape_proto h (o_shape px)) as [q|].
        -- apply otg_nc in H; [rewrite (not_cacheable_nc _ H) in Hc; discriminate|].
           vm_compute. reflexivity.
        -- inversion H; subst. vm_compute in Hc. discriminate.
    + exfalso. inversion H; subst. vm_compute in Hc. discriminate.
Qed.

(* ------------------------------------------------------------------------------------------- simulation: get sites *)
Definition hit_get_result (sl : slot) (result : val) : list out * val :=
  if sf_has_get (s_attrs sl) && is_object result
  then match result with VFun f => call_getter f | _ => ([], result) end
  else ([], result).

(* "the accessor slot read through the cache is regular": what hit_irregular = None gives for get sites *)
Definition get_regular (h : heap) (x : obj) (sl : slot) : Prop :=
  sf_is_accessor_descriptor (s_attrs sl) = true ->
  sf_has_get (s_attrs sl) = true /\
  forall stg n, hit_store h x sl = Some stg -> nthN stg (s_index sl) <> Some (VNum n).

Definition read_desc (d : pdesc) : list out * option val :=
  match d_kind d with
  | KData (Some v) _ => ([], Some v)
  | KAcc (Some (VFun f)) _ => let (tr, v) := call_getter f in (tr, Some v)
  | _ => ([], Some VUndef)
  end.
Lemma otg_found_eq d (s : slot) :
  match d_kind d with
  | KData (Some v) _ => Some ([], Some v, s)
  | KAcc (Some (VFun f)) _ => let (tr, v) := call_getter f in Some (tr, Some v, s)
  | _ => Some ([], Some VUndef, s)
  end = Some (fst (read_desc d), snd (read_desc d), s).
Proof. unfold read_desc. destruct (d_kind d) as [[v|] w|[[| |f]|] s0|]; reflexivity. Qed.

Lemma get_storage_data st i a : a_is_accessor a = false ->
  get_storage st (i, a) = (v <- nthN st i ;;
    Some {| d_kind := KData (Some v) (Some (has_flag (bits_of a) sf_WRITABLE)); d_enum := Some (a_e a); d_conf := Some (a_c a) |}).
Proof. intro H. unfold get_storage. rewrite H. reflexivity. Qed.
Lemma get_storage_acc st i a : a_is_accessor a = true ->
  get_storage st (i, a) =
    (g <- (if a_g a then v <- nthN st i ;; Some (Some v) else Some None) ;;
     s <- (if a_s a then v <- nthN st (i + 1) ;; Some (Some v) else Some None) ;;
     Some {| d_kind := KAcc g s; d_enum := Some (a_e a); d_conf := Some (a_c a) |}).
Proof.
  intro H. unfold get_storage. rewrite H.
  destruct (own_pat_facts a) as (_ & _ & _ & _ & _ & -> & -> & _). reflexivity.
Qed.

Lemma read_found st i a d sl :
  get_storage st (i, a) = Some d ->
  sf_has_get (s_attrs sl) = a_g a ->
  (a_is_accessor a = true -> a_g a = true /\ forall n, nthN st i <> Some (VNum n)) ->
  exists r, nthN st i = Some r /\ read_desc d = (fst (hit_get_result sl r), Some (snd (hit_get_result sl r))).
Proof.
  intros Hd Hg Hreg. unfold hit_get_result, read_desc. rewrite Hg.
  destruct (a_is_accessor a) eqn:Ea.
  - destruct (Hreg eq_refl) as [Hgt Hnum]. rewrite get_storage_acc in Hd by assumption. rewrite Hgt in *.
    destruct (nthN st i) as [r|] eqn:Er; [|discriminate]. exists r. split; [reflexivity|].
    destruct (if a_s a then v <- nthN st (i + 1);; Some (Some v) else Some None) as [s|]; [|discriminate].
    inversion Hd; subst; simpl.
    destruct r as [|n|f]; simpl; try reflexivity. exfalso. eapply Hnum; eauto.
  - rewrite get_storage_data in Hd by assumption. destruct (nthN st i) as [r|] eqn:Er; [|discriminate].
    exists r. split; [reflexivity|]. inversion Hd; subst; simpl.
    rewrite acc_flags in Ea. apply orb_false_iff in Ea as [-> _]. reflexivity.
Qed.

Lemma hit_store_own h x i a : hit_store h x (own_pat i a) = Some (o_store x).
Proof. unfold hit_store. simpl. destruct (own_pat_facts a) as [-> _]. reflexivity. Qed.
Lemma hit_store_proto h x i a p px : shape_proto h (o_shape x) = Some p -> get_obj h p = Some px ->
  hit_store h x (proto_pat i a) = Some (o_store px).
Proof. intros Hp Hx. unfold hit_store. simpl. destruct (proto_pat_facts a) as [-> _]. rewrite Hp, Hx. reflexivity. Qed.

Lemma get_hit_own h k o x i a tr r slu fuel :
  get_obj h o = Some x -> lookup_shape h (o_shape x) k = Some (i, a) -> get_regular h x (own_pat i a) ->
  ordinary_try_get (S fuel) h o k slot_new = Some (tr, r, slu) ->
  exists res, nthN (o_store x) i = Some res /\
    tr = fst (hit_get_result (own_pat i a) res) /\ r = Some (snd (hit_get_result (own_pat i a) res)).
Proof.
  intros Hx L0 Hreg H. simpl in H. rewrite Hx, gws_eq, L0 in H.
  destruct (get_storage (o_store x) (i, a)) as [d|] eqn:Hd; [|discriminate].
  rewrite otg_found_eq in H. inversion H; subst; clear H.
  destruct (own_pat_facts a) as (Fp & Fg & Fs & Fa & _).
  destruct (read_found (o_store x) i a d (own_pat i a) Hd Fg) as [res [Hn Heq]].
  - intro Ea. unfold get_regular in Hreg. simpl in Hreg. rewrite Fa, Fg in Hreg.
    destruct (Hreg Ea) as [Hg Hn]. split; auto. intro n. apply (Hn (o_store x)). apply hit_store_own.
  - exists res. rewrite Heq. auto.
Qed.

Lemma get_hit_proto h k o x p px i a tr r slu fuel :
  get_obj h o = Some x -> lookup_shape h (o_shape x) k = None -> shape_proto h (o_shape x) = Some p ->
  get_obj h p = Some px -> lookup_shape h (o_shape px) k = Some (i, a) -> get_regular h x (proto_pat i a) ->
  ordinary_try_get (S (S fuel)) h o k slot_new = Some (tr, r, slu) ->
  exists res, nthN (o_store px) i = Some res /\
    tr = fst (hit_get_result (proto_pat i a) res) /\ r = Some (snd (hit_get_result (proto_pat i a) res)).
Proof.
  intros Hx L0 P0 Hpx L1 Hreg H.
  change (ordinary_try_get (S (S fuel)) h o k slot_new) with
    (x <- get_obj h o ;;
     '(d, sl1) <- get_with_slot h x k slot_new ;;
     match d with
     | None => match shape_proto h (o_shape x) with
               | Some p => ordinary_try_get (S fuel) h p k
                   (slot_or {| s_index := s_index sl1; s_attrs := sf_set_not_cacheable_if_already_prototype (s_attrs sl1) |} sf_PROTOTYPE)
               | None => Some ([], None, sl1)
               end
     | Some d => match d_kind d with
                 | KData (Some v) _ => Some ([], Some v, sl1)
                 | KAcc (Some (VFun f)) _ => let (tr, v) := call_getter f in Some (tr, Some v, sl1)
                 | _ => Some ([], Some VUndef, sl1)
                 end
     end) in H.
  rewrite Hx, gws_eq, L0, P0 in H. simpl in H. rewrite Hpx, gws_eq, L1 in H.
  destruct (get_storage (o_store px) (i, a)) as [d|] eqn:Hd; [|discriminate].
  rewrite otg_found_eq in H. inversion H; subst; clear H.
  destruct (proto_pat_facts a) as (Fp & Fg & Fs & Fa & _).
  destruct (read_found (o_store px) i a d (proto_pat i a) Hd Fg) as [res [Hn Heq]].
  - intro Ea. unfold get_regular in Hreg. simpl in Hreg. rewrite Fa, Fg in Hreg.
    destruct (Hreg Ea) as [Hg Hn]. split; auto. intro n. apply (Hn (o_store px)). eapply hit_store_proto; eauto.
  - exists res. rewrite Heq. auto.
Qed.

Lemma chain_fuel_SS h : exists f, chain_fuel h = S (S f).
Proof. unfold chain_fuel. simpl. eauto. Qed.

(* a hit on an entry that describes the receiver reads what the uncached lookup reads *)
Lemma get_hit_sim : forall kd h k o x sl tr r slu,
  kd <> SSet -> get_obj h o = Some x -> slot_describes kd h k (o_shape x) sl -> get_regular h x sl ->
  ordinary_try_get (chain_fuel h) h o k slot_new = Some (tr, r, slu) ->
  exists stg res, hit_store h x sl = Some stg /\ nthN stg (s_index sl) = Some res /\
    tr = fst (hit_get_result sl res) /\ r = Some (snd (hit_get_result sl res)).
Proof.
  intros kd h k o x sl tr r slu Hkd Hx Hok Hreg H.
  destruct (chain_fuel_SS h) as [f Hf]. rewrite Hf in H.
  destruct Hok as [(i & a & L0 & -> & _) | (p & px & i & a & L0 & P0 & Hpx & L1 & -> & _)].
  - destruct (get_hit_own h k o x i a tr r slu (S f) Hx L0 Hreg H) as [res [Hn [Ht Hr]]].
    exists (o_store x), res. repeat split; auto. apply hit_store_own.
  - destruct (get_hit_proto h k o x p px i a tr r slu f Hx L0 P0 Hpx L1 Hreg H) as [res [Hn [Ht Hr]]].
    exists (o_store px), res. repeat split; auto. eapply hit_store_proto; eauto.
Qed.

Lemma filter_visible_app a b : filter visible (a ++ b) = filter visible a ++ filter visible b.
Proof. apply filter_app. Qed.

