(* Extraction of the executable C06 model (ExtrOcamlBasic only; N/positive/nat stay inductive).
   Output goes to ocaml/C06/_build/ (git-ignored). *)
From Coq Require Import NArith List Extraction ExtrOcamlBasic.
From C06 Require Import Model_C06.
Extraction Language OCaml.

Extraction "../ocaml/C06/_build/c06_model.ml" run xrun init first_irregular first_bad_store first_this_data observable N.add N.of_nat.
