(* C06 property theorems: statements only, each closed by `exact`, pinned by `Check`, with its assumptions
   printed.  The sf_* constants/functions are regenerated from slot.rs on every run. *)
From Coq Require Import NArith Bool List.
From Gen Require Import SlotFlags.
From C06 Require Import Model_C06 Proofs_C06 ProofsB_C06 ProofsC_C06.
Import ListNotations.
Local Open Scope N_scope.

(* Slot::set_not_cacheable_if_already_prototype: the branch-free `(bits & PROTOTYPE) << 2` equals the branch it replaces,
   for every bit pattern *)
Theorem shift_trick_correct : forall a,
  sf_set_not_cacheable_if_already_prototype a =
  if has_flag a sf_PROTOTYPE then N.lor a sf_NOT_CACHEABLE else a.
Proof. exact shift_trick_lemma. Qed.
Check shift_trick_correct : forall a,
  sf_set_not_cacheable_if_already_prototype a =
  if has_flag a sf_PROTOTYPE then N.lor a sf_NOT_CACHEABLE else a.
Print Assumptions shift_trick_correct.

(* the faithful model refutes unconditional transparency: one witness per known class (each is a replay) *)
Theorem known_witness :
  (first_known init w_proto_layout 0 = Some (6, KProtoLayout) /\ refuted w_proto_layout) /\
  (first_known init w_proto_panic 0 = Some (6, KProtoLayout) /\ refuted w_proto_panic) /\
  (first_known init w_unique_attr 0 = Some (3, KUniqueAttr) /\ refuted w_unique_attr) /\
  (first_known init w_unique_shadow 0 = Some (3, KUniqueShadow) /\ refuted w_unique_shadow) /\
  (first_known init w_setter_missing 0 = Some (5, KSetterMissing) /\ refuted w_setter_missing).
Proof. exact known_witness_lemma. Qed.
Check known_witness :
  (first_known init w_proto_layout 0 = Some (6, KProtoLayout) /\ refuted w_proto_layout) /\
  (first_known init w_proto_panic 0 = Some (6, KProtoLayout) /\ refuted w_proto_panic) /\
  (first_known init w_unique_attr 0 = Some (3, KUniqueAttr) /\ refuted w_unique_attr) /\
  (first_known init w_unique_shadow 0 = Some (3, KUniqueShadow) /\ refuted w_unique_shadow) /\
  (first_known init w_setter_missing 0 = Some (5, KSetterMissing) /\ refuted w_setter_missing).
Print Assumptions known_witness.

(* `delete proto.a` after caching `o.b`: the cached run panics (index out of bounds), the uncached one does not *)
Theorem proto_panic_witness : In None (run_cached w_proto_panic) /\ ~ In None (run_uncached w_proto_panic).
Proof. exact proto_panic_lemma. Qed.
Check proto_panic_witness : In None (run_cached w_proto_panic) /\ ~ In None (run_uncached w_proto_panic).
Print Assumptions proto_panic_witness.

(* a heap step can only invalidate entries flagged PROTOTYPE or keyed by a unique shape *)
Theorem disturbed_only_proto_or_unique : forall h h' ss c,
  disturbed h h' ss = Some c ->
  exists id ca s sl, In (id, ca) ss /\ In (s, sl) (c_entries ca) /\
    (has_flag (s_attrs sl) sf_PROTOTYPE = true \/ exists u, s = ShUnique u).
Proof. exact disturbed_only_proto_or_unique_lemma. Qed.
Check disturbed_only_proto_or_unique : forall h h' ss c,
  disturbed h h' ss = Some c ->
  exists id ca s sl, In (id, ca) ss /\ In (s, sl) (c_entries ca) /\
    (has_flag (s_attrs sl) sf_PROTOTYPE = true \/ exists u, s = ShUnique u).
Print Assumptions disturbed_only_proto_or_unique.

(* the cache invariant: every entry of every site describes, for the *current* heap, where the uncached lookup
   finds the property for an object of the entry's shape (own slot, or slot of the shape's prototype object) *)
Theorem ic_valid_init : IC_valid init.
Proof. exact IC_valid_init. Qed.
Check ic_valid_init : IC_valid init.
Print Assumptions ic_valid_init.

(* it is preserved by every operation (define, delete, reconfigure, freeze, setPrototypeOf, preventExtensions, alloc,
   cached get / set / global-name get incl. storing an entry and going megamorphic, eviction of weak entries)
   that is not a known-class step *)
Theorem ic_valid_preserved : forall o st outs st',
  IC_valid st -> known_step st o = None -> step false st o <> None -> step true st o = Some (outs, st') -> IC_valid st'.
Proof. exact IC_valid_step_lemma. Qed.
Check ic_valid_preserved : forall o st outs st',
  IC_valid st -> known_step st o = None -> step false st o <> None -> step true st o = Some (outs, st') -> IC_valid st'.
Print Assumptions ic_valid_preserved.

(* transparency for every history outside the known class, relative to an uncached engine that does not panic on it *)
Theorem ic_transparent_except_known : forall ops,
  ~ KnownClass ops -> ~ In None (run_uncached ops) ->
  observable (run_cached ops) = observable (run_uncached ops).
Proof. exact ic_transparent_except_known_lemma. Qed.
Check ic_transparent_except_known : forall ops,
  ~ KnownClass ops -> ~ In None (run_uncached ops) ->
  observable (run_cached ops) = observable (run_uncached ops).
Print Assumptions ic_transparent_except_known.

(* the hypotheses are satisfiable by a history that exercises own, prototype and global hits, a cached strict set,
   a receiver layout change and a megamorphic site *)
Example clean_history : ~ KnownClass w_clean /\ ~ In None (run_uncached w_clean) /\ hits (run_cached w_clean) = 7%nat.
Proof. exact clean_history_lemma. Qed.
