(* C06 property theorems: statements only, each closed by `exact`, pinned by `Check`, with its assumptions
   printed.  The sf_* constants/functions are regenerated from slot.rs on every run.  Model_C06.v follows the code after
   the fixes 9cca1b6 / 8ab7f21 / 8316c55; Old_C06.v keeps the transitions before them (the `_old` theorems). *)
From Coq Require Import NArith Bool List.
From Gen Require Import SlotFlags.
From C06 Require Old_C06.
From C06 Require Import Model_C06 Proofs_C06 ProofsB_C06 ProofsC_C06.
Import ListNotations.
Local Open Scope N_scope.

(* Slot::set_not_cacheable_if_already_prototype: the branch-free `(bits & PROTOTYPE) << 2` equals the branch it replaces,
   for every bit pattern *)
Theorem shift_trick_correct : forall a,
  sf_set_not_cacheable_if_already_prototype a =
  if has_flag a sf_PROTOTYPE then N.lor a sf_NOT_CACHEABLE else a.
Proof. exact shift_trick_lemma. Qed.
Check shift_trick_correct : forall a,
  sf_set_not_cacheable_if_already_prototype a =
  if has_flag a sf_PROTOTYPE then N.lor a sf_NOT_CACHEABLE else a.
Print Assumptions shift_trick_correct.

(* the cache invariant: every entry of every site records facts about shape identities that no heap step can change: the own
   slot of the key in the entry's shape, or (PROTOTYPE-flagged) the slot of the key in the remembered prototype shape and,
   for a shared receiver shape, the absence of the key in it *)
Theorem ic_valid_init : IC_valid init.
Proof. exact IC_valid_init. Qed.
Check ic_valid_init : IC_valid init.
Print Assumptions ic_valid_init.

(* it is preserved by every operation: define, delete, reconfigure, freeze, setPrototypeOf, preventExtensions, alloc, cached
   get / set / global-name get incl. dropping a stale entry, storing an entry and going megamorphic, eviction of weak entries *)
Theorem ic_valid_preserved : forall o st outs st',
  IC_valid st -> hit_irregular st o = false -> step false st o <> None -> step true st o = Some (outs, st') -> IC_valid st'.
Proof. exact IC_valid_step_lemma. Qed.
Check ic_valid_preserved : forall o st outs st',
  IC_valid st -> hit_irregular st o = false -> step false st o <> None -> step true st o = Some (outs, st') -> IC_valid st'.
Print Assumptions ic_valid_preserved.

(* a key found in a shape identity stays found there at the same slot, whatever [[Set]] does to the heap *)
Theorem set_keeps_shape_lookups : forall fuel h o k v r sl tr h' ok sl' s k' x,
  ordinary_set fuel h o k v r sl = Some (tr, h', ok, sl') ->
  lookup_shape h s k' = Some x -> lookup_shape h' s k' = Some x.
Proof. exact set_keeps_shape_lookups_lemma. Qed.
Check set_keeps_shape_lookups : forall fuel h o k v r sl tr h' ok sl' s k' x,
  ordinary_set fuel h o k v r sl = Some (tr, h', ok, sl') ->
  lookup_shape h s k' = Some x -> lookup_shape h' s k' = Some x.
Print Assumptions set_keeps_shape_lookups.

(* transparency of the repaired caches, for every history: no mutation class is excepted any more.  Two side conditions:
   the uncached engine does not panic on the history, and no hit reads an accessor slot that lacks its GET/SET flag or holds a
   non-callable getter ([Irregular]: such slots are made only by builtins' direct PropertyMap::insert, never by an operation
   of a history run as JavaScript; the check evaluates first_irregular on every history it generates) *)
Theorem ic_transparent : forall ops,
  ~ Irregular ops -> ~ In None (run_uncached ops) ->
  observable (run_cached ops) = observable (run_uncached ops).
Proof. exact ic_transparent_lemma. Qed.
Check ic_transparent : forall ops,
  ~ Irregular ops -> ~ In None (run_uncached ops) ->
  observable (run_cached ops) = observable (run_uncached ops).
Print Assumptions ic_transparent.

(* the five histories that refuted transparency before the fixes are transparent now (and the cached run does not panic) *)
Theorem fixed_witness :
  transparent_on w_proto_layout /\ transparent_on w_proto_panic /\ transparent_on w_unique_attr /\
  transparent_on w_unique_shadow /\ transparent_on w_setter_missing.
Proof. exact fixed_witness_lemma. Qed.
Check fixed_witness :
  transparent_on w_proto_layout /\ transparent_on w_proto_panic /\ transparent_on w_unique_attr /\
  transparent_on w_unique_shadow /\ transparent_on w_setter_missing.
Print Assumptions fixed_witness.

(* the old transitions (before the fixes) refute transparency: one witness per class of the former findings *)
Theorem known_witness_old :
  (Old_C06.first_known Old_C06.init Old_C06.w_proto_layout 0 = Some (6, Old_C06.KProtoLayout) /\ Old_C06.refuted Old_C06.w_proto_layout) /\
  (Old_C06.first_known Old_C06.init Old_C06.w_proto_panic 0 = Some (6, Old_C06.KProtoLayout) /\ Old_C06.refuted Old_C06.w_proto_panic) /\
  (Old_C06.first_known Old_C06.init Old_C06.w_unique_attr 0 = Some (3, Old_C06.KUniqueAttr) /\ Old_C06.refuted Old_C06.w_unique_attr) /\
  (Old_C06.first_known Old_C06.init Old_C06.w_unique_shadow 0 = Some (3, Old_C06.KUniqueShadow) /\ Old_C06.refuted Old_C06.w_unique_shadow) /\
  (Old_C06.first_known Old_C06.init Old_C06.w_setter_missing 0 = Some (5, Old_C06.KSetterMissing) /\ Old_C06.refuted Old_C06.w_setter_missing).
Proof. exact Old_C06.known_witness_lemma. Qed.
Check known_witness_old :
  (Old_C06.first_known Old_C06.init Old_C06.w_proto_layout 0 = Some (6, Old_C06.KProtoLayout) /\ Old_C06.refuted Old_C06.w_proto_layout) /\
  (Old_C06.first_known Old_C06.init Old_C06.w_proto_panic 0 = Some (6, Old_C06.KProtoLayout) /\ Old_C06.refuted Old_C06.w_proto_panic) /\
  (Old_C06.first_known Old_C06.init Old_C06.w_unique_attr 0 = Some (3, Old_C06.KUniqueAttr) /\ Old_C06.refuted Old_C06.w_unique_attr) /\
  (Old_C06.first_known Old_C06.init Old_C06.w_unique_shadow 0 = Some (3, Old_C06.KUniqueShadow) /\ Old_C06.refuted Old_C06.w_unique_shadow) /\
  (Old_C06.first_known Old_C06.init Old_C06.w_setter_missing 0 = Some (5, Old_C06.KSetterMissing) /\ Old_C06.refuted Old_C06.w_setter_missing).
Print Assumptions known_witness_old.

Theorem proto_panic_witness_old :
  In None (Old_C06.run_cached_old Old_C06.w_proto_panic) /\ ~ In None (Old_C06.run_uncached_old Old_C06.w_proto_panic).
Proof. exact Old_C06.proto_panic_lemma. Qed.
Check proto_panic_witness_old :
  In None (Old_C06.run_cached_old Old_C06.w_proto_panic) /\ ~ In None (Old_C06.run_uncached_old Old_C06.w_proto_panic).
Print Assumptions proto_panic_witness_old.

(* the hypotheses of ic_transparent are satisfiable by a history that exercises own, prototype and global hits, cached strict
   sets, stale prototype entries being dropped, a receiver layout change and a megamorphic site *)
Example clean_history : ~ Irregular w_clean /\ ~ In None (run_uncached w_clean) /\ hits (run_cached w_clean) = 8%nat.
Proof. exact clean_history_lemma. Qed.
