(* C06 property theorems: statements only, each closed by `exact`, pinned by `Check`, with its assumptions
   printed.  The sf_* constants/functions are regenerated from slot.rs on every run.  Model_C06.v follows the code after the
   fixes 9cca1b6 / 8ab7f21 / 8316c55 / 26b9acc; accessor functions have bodies (heap operations), InlineCache::set has three
   re-check modes: RNone (before 26b9acc), RIndex (26b9acc = the engine now), RFull (proposed).  Old_C06.v keeps the transitions
   before the first three fixes (the `_old` theorems). *)
From Coq Require Import NArith Bool List.
From Gen Require Import SlotFlags.
From C06 Require Old_C06.
From C06 Require Import Model_C06 Proofs_C06 ProofsB_C06 ProofsC_C06 Deep_C06 Super_C06.
Import ListNotations.
Local Open Scope N_scope.

(* Slot::set_not_cacheable_if_already_prototype: the branch-free `(bits & PROTOTYPE) << 2` equals the branch it replaces,
   for every bit pattern *)
Theorem shift_trick_correct : forall a,
  sf_set_not_cacheable_if_already_prototype a =
  if has_flag a sf_PROTOTYPE then N.lor a sf_NOT_CACHEABLE else a.
Proof. exact shift_trick_lemma. Qed.
Check shift_trick_correct : forall a,
  sf_set_not_cacheable_if_already_prototype a =
  if has_flag a sf_PROTOTYPE then N.lor a sf_NOT_CACHEABLE else a.
Print Assumptions shift_trick_correct.

(* the cache invariant: every entry of every site records facts about shape identities that no heap step can change *)
Theorem ic_valid_init : IC_valid init.
Proof. exact IC_valid_init. Qed.
Check ic_valid_init : IC_valid init.
Print Assumptions ic_valid_init.

(* it is preserved by every operation, in every re-check mode and with arbitrary accessor bodies, provided the step does not
   store an entry that fails to describe the receiver (the ghost marker OBadStore) *)
Theorem ic_valid_preserved : forall rc ft o st outs st',
  IC_valid st -> hit_irregular st o = false -> step rc false ft st o <> None ->
  step rc true ft st o = Some (outs, st') -> existsb is_bad outs = false -> IC_valid st'.
Proof. exact IC_valid_step_lemma. Qed.
Check ic_valid_preserved : forall rc ft o st outs st',
  IC_valid st -> hit_irregular st o = false -> step rc false ft st o <> None ->
  step rc true ft st o = Some (outs, st') -> existsb is_bad outs = false -> IC_valid st'.
Print Assumptions ic_valid_preserved.

(* a key found in a shape identity stays found there at the same slot, whatever [[Set]] does to the heap *)
Theorem set_keeps_shape_lookups : forall fuel h o k v r sl tr h' ok sl' s k' x,
  ordinary_set fuel h o k v r sl = Some (tr, h', ok, sl') ->
  lookup_shape h s k' = Some x -> lookup_shape h' s k' = Some x.
Proof. exact set_keeps_shape_lookups_lemma. Qed.
Check set_keeps_shape_lookups : forall fuel h o k v r sl tr h' ok sl' s k' x,
  ordinary_set fuel h o k v r sl = Some (tr, h', ok, sl') ->
  lookup_shape h s k' = Some x -> lookup_shape h' s k' = Some x.
Print Assumptions set_keeps_shape_lookups.

(* transparency for every re-check mode, every table of accessor bodies and every history in which no step stores a
   non-describing entry (BadStore, decidable) -- plus the two side conditions of the earlier rounds *)
Theorem ic_transparent_modes : forall rc ft ops,
  ~ Irregular rc ft ops -> ~ BadStore rc ft ops -> ~ In None (run rc false ft init ops) ->
  observable (run rc true ft init ops) = observable (run rc false ft init ops).
Proof. exact ic_transparent_modes_lemma. Qed.
Check ic_transparent_modes : forall rc ft ops,
  ~ Irregular rc ft ops -> ~ BadStore rc ft ops -> ~ In None (run rc false ft init ops) ->
  observable (run rc true ft init ops) = observable (run rc false ft init ops).
Print Assumptions ic_transparent_modes.

(* the engine as it is now (index-only re-check): transparent except when an accessor body changes the served property so
   that the stored entry no longer describes the receiver *)
Theorem ic_transparent_except_known : forall ft ops,
  ~ Irregular RIndex ft ops -> ~ BadStore RIndex ft ops -> ~ In None (run_uncached ft ops) ->
  observable (run_cached ft ops) = observable (run_uncached ft ops).
Proof. exact (ic_transparent_modes_lemma RIndex). Qed.
Check ic_transparent_except_known : forall ft ops,
  ~ Irregular RIndex ft ops -> ~ BadStore RIndex ft ops -> ~ In None (run_uncached ft ops) ->
  observable (run_cached ft ops) = observable (run_uncached ft ops).
Print Assumptions ic_transparent_except_known.

(* with the full re-check (index and attributes, receiver without own property for PROTOTYPE slots) no exception is left *)
Theorem ic_transparent_full_recheck : forall ft ops,
  ~ Irregular RFull ft ops -> ~ In None (run RFull false ft init ops) ->
  observable (run RFull true ft init ops) = observable (run RFull false ft init ops).
Proof. exact ic_transparent_full_recheck_lemma. Qed.
Check ic_transparent_full_recheck : forall ft ops,
  ~ Irregular RFull ft ops -> ~ In None (run RFull false ft init ops) ->
  observable (run RFull true ft init ops) = observable (run RFull false ft init ops).
Print Assumptions ic_transparent_full_recheck.

(* before 26b9acc: a getter that deletes its own property (C02's program); the cached run panics on the third read *)
Theorem ic_store_after_user_code_old_refuted :
  refuted_mode RNone ft_delete w_delete /\ In None (run RNone true ft_delete init w_delete) /\
  BadStore RNone ft_delete w_delete /\ transparent_mode RIndex ft_delete w_delete.
Proof. exact ic_store_after_user_code_old_refuted_lemma. Qed.
Check ic_store_after_user_code_old_refuted :
  refuted_mode RNone ft_delete w_delete /\ In None (run RNone true ft_delete init w_delete) /\
  BadStore RNone ft_delete w_delete /\ transparent_mode RIndex ft_delete w_delete.
Print Assumptions ic_store_after_user_code_old_refuted.

(* 26b9acc is still refuted: lazy memoisation on the receiver, getter turning itself into a data property holding a function,
   setter turning itself into a data property (cached run panics) *)
Theorem ic_store_index_recheck_refuted :
  (refuted_mode RIndex ft_memo w_memo /\ BadStore RIndex ft_memo w_memo) /\
  (refuted_mode RIndex ft_selfdata w_selfdata /\ BadStore RIndex ft_selfdata w_selfdata) /\
  (refuted_mode RIndex ft_setdata w_setdata /\ BadStore RIndex ft_setdata w_setdata /\
   In None (run RIndex true ft_setdata init w_setdata) /\ ~ In None (run RIndex false ft_setdata init w_setdata)).
Proof. exact ic_store_index_recheck_refuted_lemma. Qed.
Check ic_store_index_recheck_refuted :
  (refuted_mode RIndex ft_memo w_memo /\ BadStore RIndex ft_memo w_memo) /\
  (refuted_mode RIndex ft_selfdata w_selfdata /\ BadStore RIndex ft_selfdata w_selfdata) /\
  (refuted_mode RIndex ft_setdata w_setdata /\ BadStore RIndex ft_setdata w_setdata /\
   In None (run RIndex true ft_setdata init w_setdata) /\ ~ In None (run RIndex false ft_setdata init w_setdata)).
Print Assumptions ic_store_index_recheck_refuted.

Theorem ic_store_full_recheck_witness :
  transparent_mode RFull ft_delete w_delete /\ transparent_mode RFull ft_memo w_memo /\
  transparent_mode RFull ft_selfdata w_selfdata /\ transparent_mode RFull ft_setdata w_setdata.
Proof. exact ic_store_full_recheck_witness_lemma. Qed.
Check ic_store_full_recheck_witness :
  transparent_mode RFull ft_delete w_delete /\ transparent_mode RFull ft_memo w_memo /\
  transparent_mode RFull ft_selfdata w_selfdata /\ transparent_mode RFull ft_setdata w_setdata.
Print Assumptions ic_store_full_recheck_witness.

(* `super.k = v` (SetPropertyByNameWithThis): the engine without fixes.d/C06-super-set-receiver.patch writes a cached data slot of
   the super object (or of its prototype) whatever the receiver is; the step that does so is marked (first_this_data) *)
Theorem super_set_receiver_refuted :
  (xrefuted false w_super /\ first_this_data (xrun false RFull true [] init w_super) 0 = Some 5) /\
  (xrefuted false w_super_proto /\ first_this_data (xrun false RFull true [] init w_super_proto) 0 = Some 4).
Proof. exact super_set_receiver_refuted_lemma. Qed.
Check super_set_receiver_refuted :
  (xrefuted false w_super /\ first_this_data (xrun false RFull true [] init w_super) 0 = Some 5) /\
  (xrefuted false w_super_proto /\ first_this_data (xrun false RFull true [] init w_super_proto) 0 = Some 4).
Print Assumptions super_set_receiver_refuted.

(* with the repair the same histories are transparent and no data write is taken for a foreign receiver *)
Theorem super_set_receiver_fixed : xtransparent true w_super /\ xtransparent true w_super_proto.
Proof. exact super_set_receiver_fixed_lemma. Qed.
Check super_set_receiver_fixed : xtransparent true w_super /\ xtransparent true w_super_proto.
Print Assumptions super_set_receiver_fixed.

(* receiver = keyed object: both variants of the WithThis path are the plain set site covered by ic_transparent_* *)
Theorem cached_set_this_plain : forall sr rc ic ft st n k o v,
  cached_set_this sr rc ic ft st (SSet, n, k) o o v = cached_set rc ic ft st (SSet, n, k) o v.
Proof. exact cached_set_this_plain_lemma. Qed.
Check cached_set_this_plain : forall sr rc ic ft st n k o v,
  cached_set_this sr rc ic ft st (SSet, n, k) o o v = cached_set rc ic ft st (SSet, n, k) o v.
Print Assumptions cached_set_this_plain.

(* the five histories that refuted transparency before the first three fixes are transparent now *)
Theorem fixed_witness :
  transparent_on w_proto_layout /\ transparent_on w_proto_panic /\ transparent_on w_unique_attr /\
  transparent_on w_unique_shadow /\ transparent_on w_setter_missing.
Proof. exact fixed_witness_lemma. Qed.
Check fixed_witness :
  transparent_on w_proto_layout /\ transparent_on w_proto_panic /\ transparent_on w_unique_attr /\
  transparent_on w_unique_shadow /\ transparent_on w_setter_missing.
Print Assumptions fixed_witness.

(* the old transitions (before the fixes) refute transparency: one witness per class of the former findings *)
Theorem known_witness_old :
  (Old_C06.first_known Old_C06.init Old_C06.w_proto_layout 0 = Some (6, Old_C06.KProtoLayout) /\ Old_C06.refuted Old_C06.w_proto_layout) /\
  (Old_C06.first_known Old_C06.init Old_C06.w_proto_panic 0 = Some (6, Old_C06.KProtoLayout) /\ Old_C06.refuted Old_C06.w_proto_panic) /\
  (Old_C06.first_known Old_C06.init Old_C06.w_unique_attr 0 = Some (3, Old_C06.KUniqueAttr) /\ Old_C06.refuted Old_C06.w_unique_attr) /\
  (Old_C06.first_known Old_C06.init Old_C06.w_unique_shadow 0 = Some (3, Old_C06.KUniqueShadow) /\ Old_C06.refuted Old_C06.w_unique_shadow) /\
  (Old_C06.first_known Old_C06.init Old_C06.w_setter_missing 0 = Some (5, Old_C06.KSetterMissing) /\ Old_C06.refuted Old_C06.w_setter_missing).
Proof. exact Old_C06.known_witness_lemma. Qed.
Check known_witness_old :
  (Old_C06.first_known Old_C06.init Old_C06.w_proto_layout 0 = Some (6, Old_C06.KProtoLayout) /\ Old_C06.refuted Old_C06.w_proto_layout) /\
  (Old_C06.first_known Old_C06.init Old_C06.w_proto_panic 0 = Some (6, Old_C06.KProtoLayout) /\ Old_C06.refuted Old_C06.w_proto_panic) /\
  (Old_C06.first_known Old_C06.init Old_C06.w_unique_attr 0 = Some (3, Old_C06.KUniqueAttr) /\ Old_C06.refuted Old_C06.w_unique_attr) /\
  (Old_C06.first_known Old_C06.init Old_C06.w_unique_shadow 0 = Some (3, Old_C06.KUniqueShadow) /\ Old_C06.refuted Old_C06.w_unique_shadow) /\
  (Old_C06.first_known Old_C06.init Old_C06.w_setter_missing 0 = Some (5, Old_C06.KSetterMissing) /\ Old_C06.refuted Old_C06.w_setter_missing).
Print Assumptions known_witness_old.

Theorem proto_panic_witness_old :
  In None (Old_C06.run_cached_old Old_C06.w_proto_panic) /\ ~ In None (Old_C06.run_uncached_old Old_C06.w_proto_panic).
Proof. exact Old_C06.proto_panic_lemma. Qed.
Check proto_panic_witness_old :
  In None (Old_C06.run_cached_old Old_C06.w_proto_panic) /\ ~ In None (Old_C06.run_uncached_old Old_C06.w_proto_panic).
Print Assumptions proto_panic_witness_old.

(* the hypotheses of ic_transparent_except_known are satisfiable by a history with accessor bodies, own / prototype / global hits,
   cached strict sets, stale prototype entries being dropped and a receiver layout change *)
Example clean_history :
  ~ Irregular RIndex ft_clean w_clean /\ ~ BadStore RIndex ft_clean w_clean /\ ~ In None (run_uncached ft_clean w_clean) /\
  hits (run_cached ft_clean w_clean) = 9%nat.
Proof. exact clean_history_lemma. Qed.
