(* C06, deepening round: accessor functions with bodies (heap operations run between the slow path's lookup and the cache
   store), the re-check modes of InlineCache::set, refutation witnesses for the store without re-check (before 26b9acc) and for
   the index-only re-check (26b9acc), and the proof that the full re-check never stores a non-describing entry. *)
From Coq Require Import NArith Bool List Lia.
From Gen Require Import SlotFlags.
From C06 Require Import Model_C06 Proofs_C06 ProofsB_C06 ProofsC_C06.
Import ListNotations.
Local Open Scope N_scope.

(* ------------------------------------------------------------------------------------------- witnesses *)
Definition acc12 : pdesc := da (VFun 1) (VFun 2) true true.
(* C02's program: Object.defineProperty(P.prototype,'a',{get(){ delete P.prototype.a; return 1 },configurable:true}); rd(o) x3 *)
Definition ft_delete : ftab := [[]; [OpDelete 2 0]].
Definition w_delete : list op :=
  [OpAlloc false None; OpDefine 2 0 acc12; OpAlloc false (Some 2); OpGet 0 0 3; OpGet 0 0 3; OpGet 0 0 3].
(* lazy memoisation: a prototype getter defines the value on the receiver *)
Definition ft_memo : ftab := [[]; [OpDefine 3 0 (dd (VNum 42) true true true)]].
Definition w_memo : list op :=
  [OpAlloc false None; OpDefine 2 0 acc12; OpAlloc false (Some 2); OpGet 0 0 3; OpGet 0 0 3; OpGet 0 0 3].
(* a getter turns its own property into a data property holding a function: the cached slot still says "accessor" *)
Definition ft_selfdata : ftab := [[]; [OpDefine 2 0 (dd (VFun 3) true true true)]].
Definition w_selfdata : list op :=
  [OpAlloc false None; OpDefine 2 0 acc12; OpGet 0 0 2; OpGet 0 0 2; OpGet 0 0 2].
(* a setter turns its own (only) property into a data property: the cached accessor slot reads storage[index + 1] *)
Definition ft_setdata : ftab := [[]; []; [OpDefine 2 0 (dd (VNum 5) true true true)]].
Definition w_setdata : list op :=
  [OpAlloc false None; OpDefine 2 0 acc12; OpSet 0 0 2 (VNum 1); OpSet 0 0 2 (VNum 2); OpSet 0 0 2 (VNum 3)].

Definition refuted_mode (rc : recheck) (ft : ftab) (ops : list op) : Prop :=
  observable (run rc true ft init ops) <> observable (run rc false ft init ops).
Definition transparent_mode (rc : recheck) (ft : ftab) (ops : list op) : Prop :=
  observable (run rc true ft init ops) = observable (run rc false ft init ops) /\ ~ In None (run rc true ft init ops).

(* before 26b9acc: the store without re-check; the cached run panics on the third read *)
Lemma ic_store_after_user_code_old_refuted_lemma :
  refuted_mode RNone ft_delete w_delete /\ In None (run RNone true ft_delete init w_delete) /\
  BadStore RNone ft_delete w_delete /\ transparent_mode RIndex ft_delete w_delete.
Proof.
  split; [|split; [|split; [|split]]].
  - unfold refuted_mode. vm_compute. intro H. discriminate H.
  - vm_compute. repeat (first [left; reflexivity | right]).
  - unfold BadStore. vm_compute. discriminate.
  - vm_compute. reflexivity.
  - vm_compute. intuition discriminate.
Qed.

(* 26b9acc (index-only re-check) is still refuted: three witnesses, the last one panics *)
Lemma ic_store_index_recheck_refuted_lemma :
  (refuted_mode RIndex ft_memo w_memo /\ BadStore RIndex ft_memo w_memo) /\
  (refuted_mode RIndex ft_selfdata w_selfdata /\ BadStore RIndex ft_selfdata w_selfdata) /\
  (refuted_mode RIndex ft_setdata w_setdata /\ BadStore RIndex ft_setdata w_setdata /\
   In None (run RIndex true ft_setdata init w_setdata) /\ ~ In None (run RIndex false ft_setdata init w_setdata)).
Proof.
  repeat split; try (unfold refuted_mode; vm_compute; intro H; discriminate H);
    try (unfold BadStore; vm_compute; discriminate).
  - vm_compute. repeat (first [left; reflexivity | right]).
  - vm_compute. intuition discriminate.
Qed.

(* with the full re-check the four histories are transparent *)
Lemma ic_store_full_recheck_witness_lemma :
  transparent_mode RFull ft_delete w_delete /\ transparent_mode RFull ft_memo w_memo /\
  transparent_mode RFull ft_selfdata w_selfdata /\ transparent_mode RFull ft_setdata w_setdata.
Proof. repeat split; try (vm_compute; reflexivity); vm_compute; intuition discriminate. Qed.

(* ------------------------------------------------------------------------------------------- the full re-check *)
Lemma mask_own a : N.land (gws_attrs 0 a) (N.lxor sf_INLINE_CACHE_BITS 255) = bits_of a.
Proof. all_dattrs a; vm_compute; reflexivity. Qed.
Lemma mask_proto a : N.land (gws_attrs proto_in a) (N.lxor sf_INLINE_CACHE_BITS 255) = bits_of a.
Proof. all_dattrs a; vm_compute; reflexivity. Qed.
Lemma slot_eqb_refl s : slot_eqb s s = true.
Proof. unfold slot_eqb. now rewrite !N.eqb_refl. Qed.

Definition pattern_of (kd : skind) (sl : slot) : Prop :=
  (exists i a, sl = own_pat i a /\ (kd = SSet -> a_is_accessor a = false -> a_w a = true)) \/
  (exists i a, sl = proto_pat i a /\ (kd = SSet -> a_is_accessor a = true)).
Lemma describes_pattern kd h k s sl : slot_describes kd h k s sl -> pattern_of kd sl.
Proof.
  intros [(i & a & _ & E & C) | (p & px & i & a & _ & _ & _ & _ & E & C)]; [left | right]; exists i, a; auto.
Qed.

Lemma full_recheck_describes kd h k s sl :
  pattern_of kd sl -> recheck_ok RFull h k s sl = true -> describes_b kd h k s sl = true.
Proof.
  intros [(i & a & -> & C) | (i & a & -> & C)]; unfold recheck_ok, describes_b; simpl.
  - destruct (own_pat_facts a) as [-> _].
    destruct (lookup_shape h s k) as [[i' a']|]; [|discriminate].
    intro H. apply andb_true_iff in H as [Hi Ha]. apply N.eqb_eq in Hi. subst i'.
    unfold attrs_match in Ha. simpl in Ha. rewrite mask_own in Ha. apply N.eqb_eq in Ha. apply bits_of_inj in Ha. subst a'.
    rewrite slot_eqb_refl. simpl. destruct kd; simpl; auto.
    destruct (a_is_accessor a) eqn:E; simpl; auto.
  - destruct (proto_pat_facts a) as [-> _].
    destruct (lookup_shape h s k); [discriminate|].
    destruct (proto_lookup h s k) as [[i' a']|]; [|discriminate].
    intro H. apply andb_true_iff in H as [Hi Ha]. apply N.eqb_eq in Hi. subst i'.
    unfold attrs_match in Ha. simpl in Ha. rewrite mask_proto in Ha. apply N.eqb_eq in Ha. apply bits_of_inj in Ha. subst a'.
    rewrite slot_eqb_refl. simpl. destruct kd; simpl; auto.
Qed.

Lemma ic_set_full_ok kd c h k s sl c' ev bad :
  pattern_of kd sl -> ic_set RFull kd c h k s sl = (c', ev, bad) -> bad = false.
Proof.
  intros P. unfold ic_set. destruct (c_mega c); [intro H; inversion H; reflexivity|].
  destruct (recheck_ok RFull h k s sl) eqn:R; simpl; [|intro H; inversion H; reflexivity].
  destruct (N.ltb (lenN (c_entries c)) sf_PIC_CAPACITY); intro H; inversion H; subst; auto.
  rewrite (full_recheck_describes kd h k s sl P R). reflexivity.
Qed.

(* the traces of the lookups consist of calls only *)
Lemma otg_no_bad : forall fuel h o k sl tr r sl', ordinary_try_get fuel h o k sl = Some (tr, r, sl') -> existsb is_bad tr = false.
Proof.
  induction fuel as [|fuel IH]; intros h o k sl tr r sl' H; simpl in H; [discriminate|].
  destruct (get_obj h o) as [x|]; [|discriminate].
  destruct (get_with_slot h x k sl) as [[d sl1]|]; [|discriminate].
  destruct d as [d|].
  - destruct (d_kind d) as [[v|] w|[[| |f]|] s|]; inversion H; subst; reflexivity.
  - destruct (shape_proto h (o_shape x)); [eauto | inversion H; subst; reflexivity].
Qed.
Lemma sdc_no_bad h o r k v ho od sl tr h' ok sl' : set_data_case h o r k v ho od sl = Some (tr, h', ok, sl') -> tr = [].
Proof.
  intro H. unfold set_data_case in H. cbv zeta in H. break_hyp H; inversion H; subst; reflexivity.
Qed.
Lemma os_no_bad : forall fuel h o k v r sl tr h' ok sl', ordinary_set fuel h o k v r sl = Some (tr, h', ok, sl') -> existsb is_bad tr = false.
Proof.
  induction fuel as [|fuel IH]; intros h o k v r sl tr h' ok sl' H; [discriminate|].
  cbn -[get_obj get_with_slot set_data_case shape_proto] in H.
  destruct (get_obj h o) as [x|]; [|discriminate].
  destruct (get_with_slot h x k sl) as [[own sl1]|]; [|discriminate].
  destruct own as [od|].
  - destruct (is_data od); [apply sdc_no_bad in H; subst; reflexivity|].
    destruct (d_set od) as [[| |f]|]; inversion H; subst; reflexivity.
  - destruct (shape_proto h (o_shape x)); [eauto | apply sdc_no_bad in H; subst; reflexivity].
Qed.

Lemma existsb_bad_app a b : existsb is_bad (a ++ b) = existsb is_bad a || existsb is_bad b.
Proof. apply existsb_app. Qed.

Local Transparent ordinary_try_get ordinary_set chain_fuel hit_store.
Lemma os_pattern : forall h o k v x tr h' sl,
  get_obj h o = Some x ->
  ordinary_set (chain_fuel h) h o k v o slot_new = Some (tr, h', true, sl) ->
  sf_is_cacheable (s_attrs sl) = true ->
  pattern_of SSet sl.
Proof.
  intros h o k v x tr h' sl Hx H Hc.
  destruct (chain_fuel_SS h) as [f Hf]. rewrite Hf in H.
  destruct (lookup_shape h (o_shape x) k) as [[i a]|] eqn:L0.
  - destruct (a_is_accessor a) eqn:Ea.
    + rewrite (os_own_acc _ _ _ _ _ _ _ _ Hx L0 Ea) in H.
      destruct (get_storage (o_store x) (i, a)) as [d|]; [|discriminate].
      unfold set_acc_result in H. destruct (d_set d) as [[| |fn]|]; inversion H; subst.
      left. exists i, a. repeat split; auto. intros _ Hd. rewrite Ea in Hd. discriminate.
    + destruct (a_w a) eqn:Ew.
      * rewrite (os_own_data _ _ _ _ _ _ _ _ Hx L0 Ea Ew) in H.
        destruct (nthN (o_store x) i); [|discriminate].
        destruct (set_nth (o_store x) i v) as [stg|]; [|discriminate].
        inversion H; subst. left. exists i, a. repeat split; auto.
      * exfalso. exact (os_own_data_nw _ _ _ _ _ _ _ _ _ _ _ Hx L0 Ea Ew H).
  - destruct (shape_proto h (o_shape x)) as [p|] eqn:P0.
    2:{ rewrite (os_add_not_cacheable _ _ _ _ _ _ _ _ _ Hx L0 P0 H) in Hc. discriminate. }
    assert (Hrecv : shape_proto h (o_shape x) <> None) by (rewrite P0; discriminate).
    destruct (get_obj h p) as [px|] eqn:Hpx.
    2:{ cbn -[get_obj get_with_slot set_data_case shape_proto] in H. rewrite Hx, gws_eq, L0, P0 in H.
        cbn -[get_obj get_with_slot set_data_case shape_proto] in H. rewrite Hpx in H. discriminate. }
    assert (Hne : N.eqb p o = false).
    { apply N.eqb_neq. intro E. subst p. rewrite Hx in Hpx. inversion Hpx; subst. clear Hpx.
      (* o would be its own prototype: the walk comes back to o with NOT_CACHEABLE set *)
      cbn -[get_obj get_with_slot set_data_case shape_proto] in H. rewrite Hx, gws_eq, L0, P0 in H.
      cbn -[get_obj get_with_slot set_data_case shape_proto] in H. rewrite Hx, gws_eq, L0, P0 in H.
      apply (os_nc _ _ _ _ _ _ _ _ _ _ _ Hx L0 Hrecv) in H; [rewrite (not_cacheable_nc _ H) in Hc; discriminate|].
      vm_compute. reflexivity. }
    destruct (lookup_shape h (o_shape px) k) as [[i a]|] eqn:L1.
    + destruct (a_is_accessor a) eqn:Ea.
      * (* the one cacheable case below the receiver: an accessor on the direct prototype *)
        rewrite (os_proto_acc _ _ _ _ _ _ _ _ _ _ Hx L0 P0 Hpx L1 Ea) in H.
        destruct (get_storage (o_store px) (i, a)) as [d|]; [|discriminate].
        unfold set_acc_result in H. destruct (d_set d) as [[| |fn]|]; inversion H; subst.
        right. exists i, a. repeat split; auto.
      * exfalso.
        cbn -[get_obj get_with_slot set_data_case shape_proto] in H. rewrite Hx, gws_eq, L0, P0 in H.
        cbn -[get_obj get_with_slot set_data_case shape_proto] in H. rewrite Hpx, gws_eq, L1 in H.
        rewrite get_storage_data in H by assumption. destruct (nthN (o_store px) i); [|discriminate].
        cbn -[get_obj get_with_slot set_data_case shape_proto] in H.
        apply sdc_nc in H; [|assumption]. rewrite (not_cacheable_nc _ H) in Hc. discriminate.
    + exfalso.
      cbn -[get_obj get_with_slot set_data_case shape_proto] in H. rewrite Hx, gws_eq, L0, P0 in H.
      cbn -[get_obj get_with_slot set_data_case shape_proto] in H. rewrite Hpx, gws_eq, L1 in H.
      destruct (shape_proto h (o_shape px)) as [q|] eqn:P1.
      * apply (os_nc _ _ _ _ _ _ _ _ _ _ _ Hx L0 Hrecv) in H; [rewrite (not_cacheable_nc _ H) in Hc; discriminate|].
        vm_compute. reflexivity.
      * apply sdc_nc in H; [|assumption]. rewrite (not_cacheable_nc _ H) in Hc. discriminate.
Qed.

Local Opaque ordinary_try_get ordinary_set chain_fuel apply_calls ic_get ic_set.

Lemma cached_get_full ic ft glob st kd n k o outs st' :
  kd <> SSet -> cached_get RFull ic ft glob st (kd, n, k) o = Some (outs, st') -> existsb is_bad outs = false.
Proof.
  intros Hkd H. unfold cached_get in H.
  destruct (get_obj (st_heap st) o) as [x|] eqn:Hx; [|inversion H; subst; reflexivity].
  destruct (if ic then ic_get (site_get (st_sites st) (kd, n, k)) (st_heap st) k (o_shape x)
            else (None, site_get (st_sites st) (kd, n, k), [])) as [[hit c] ev].
  destruct hit as [sl|].
  - destruct (hit_store (st_heap st) x sl); [|discriminate]. simpl in H.
    destruct (nthN l (s_index sl)) as [res|]; [|discriminate]. simpl in H.
    destruct (sf_has_get (s_attrs sl) && is_object res); [destruct res|];
      simpl in H; (destruct (apply_calls ft (st_heap st) _); [|discriminate]); inversion H; subst; reflexivity.
  - destruct (ordinary_try_get (chain_fuel (st_heap st)) (st_heap st) o k slot_new) as [[[tr r] sl]|] eqn:G; [|discriminate].
    simpl in H. destruct (apply_calls ft (st_heap st) tr) as [h1|]; [|discriminate]. simpl in H.
    destruct (get_obj h1 o) as [x1|]; [|discriminate]. simpl in H.
    pose proof (otg_no_bad _ _ _ _ _ _ _ _ G) as Htr.
    assert (Hb : forall c' ev' bad,
      (if ic && sf_is_cacheable (s_attrs sl) then ic_set RFull kd c h1 k (o_shape x1) sl else (c, [], false)) = (c', ev', bad) ->
      bad = false).
    { intros c' ev' bad. destruct (ic && sf_is_cacheable (s_attrs sl)) eqn:E.
      - apply andb_true_iff in E as [_ Ec]. apply ic_set_full_ok.
        eapply describes_pattern. eapply otg_cacheable; eauto.
      - intro E2. inversion E2. reflexivity. }
    destruct (if ic && sf_is_cacheable (s_attrs sl) then ic_set RFull kd c h1 k (o_shape x1) sl else (c, [], false))
      as [[c' ev'] bad] eqn:Es.
    rewrite (Hb _ _ _ eq_refl) in H.
    destruct r as [v|]; [|destruct glob]; inversion H; subst; rewrite existsb_bad_app, Htr; reflexivity.
Qed.

Lemma cached_set_full ic ft st n k o v outs st' :
  cached_set RFull ic ft st (SSet, n, k) o v = Some (outs, st') -> existsb is_bad outs = false.
Proof.
  intros H. unfold cached_set in H.
  destruct (get_obj (st_heap st) o) as [x|] eqn:Hx; [|inversion H; subst; reflexivity].
  destruct (if ic then ic_get (site_get (st_sites st) (SSet, n, k)) (st_heap st) k (o_shape x)
            else (None, site_get (st_sites st) (SSet, n, k), [])) as [[hit c] ev].
  destruct hit as [sl|].
  - cbv zeta in H. destruct (sf_is_accessor_descriptor (s_attrs sl)).
    + destruct (hit_store (st_heap st) x sl); [|discriminate]. simpl in H.
      destruct (nthN l (s_index sl + 1)) as [res|]; [|discriminate]. simpl in H.
      destruct (sf_has_set (s_attrs sl) && is_object res); [|inversion H; subst; reflexivity].
      destruct res; (destruct (apply_calls ft (st_heap st) _); [|discriminate]); inversion H; subst; reflexivity.
    + destruct (has_flag (s_attrs sl) sf_PROTOTYPE).
      * destruct (shape_proto (st_heap st) (o_shape x)) as [p|]; [|discriminate]. simpl in H.
        destruct (get_obj (st_heap st) p) as [px|]; [|discriminate]. simpl in H.
        destruct (set_nth (o_store px) (s_index sl) v); [|discriminate]. inversion H; subst; reflexivity.
      * destruct (set_nth (o_store x) (s_index sl) v); [|discriminate]. inversion H; subst; reflexivity.
  - destruct (ordinary_set (chain_fuel (st_heap st)) (st_heap st) o k v o slot_new) as [[[[tr h'] ok] sl]|] eqn:G; [|discriminate].
    simpl in H. destruct (apply_calls ft h' tr) as [h1|] eqn:A; [|discriminate]. simpl in H.
    destruct (get_obj h1 o) as [x1|]; [|discriminate]. simpl in H.
    pose proof (os_no_bad _ _ _ _ _ _ _ _ _ _ _ G) as Htr.
    assert (Hb : forall c' ev' bad,
      (if ic && ok && sf_is_cacheable (s_attrs sl) then ic_set RFull SSet c h1 k (o_shape x1) sl else (c, [], false)) = (c', ev', bad) ->
      bad = false).
    { intros c' ev' bad. destruct (ic && ok && sf_is_cacheable (s_attrs sl)) eqn:E.
      - apply andb_true_iff in E as [E Ec]. apply andb_true_iff in E as [_ Eok]. subst ok. apply ic_set_full_ok.
        exact (os_pattern _ _ _ _ _ _ _ _ Hx G Ec).
      - intro E2. inversion E2. reflexivity. }
    destruct (if ic && ok && sf_is_cacheable (s_attrs sl) then ic_set RFull SSet c h1 k (o_shape x1) sl else (c, [], false))
      as [[c' ev'] bad] eqn:Es.
    rewrite (Hb _ _ _ eq_refl) in H.
    inversion H; subst; rewrite existsb_bad_app, Htr; destruct ok; reflexivity.
Qed.

Lemma step_full_no_bad ic ft st o outs st' : step RFull ic ft st o = Some (outs, st') -> existsb is_bad outs = false.
Proof.
  intro H. destruct o; unfold step in H.
  - unfold new_ushape in H. break_all; inv_somes; reflexivity.
  - unfold heap_op in H. break_all; inv_somes; reflexivity.
  - unfold heap_op in H. break_all; inv_somes; reflexivity.
  - unfold heap_op in H. break_all; inv_somes; reflexivity.
  - unfold heap_op in H. break_all; inv_somes; reflexivity.
  - unfold heap_op in H. break_all; inv_somes; reflexivity.
  - eapply cached_get_full; [|exact H]. discriminate.
  - eapply cached_set_full; exact H.
  - eapply cached_get_full; [|exact H]. discriminate.
  - break_all; inv_somes; reflexivity.
  - inversion H; subst; reflexivity.
Qed.

Lemma run_full_no_bad : forall ic ft ops st j, first_bad_store (run RFull ic ft st ops) j = None.
Proof.
  induction ops as [|o r IH]; intros st j; [reflexivity|]. cbn [run].
  destruct (step RFull ic ft st o) as [[outs st']|] eqn:E; [|reflexivity].
  cbn [first_bad_store]. change (fun o0 : out => match o0 with OBadStore => true | _ => false end) with is_bad.
  rewrite (step_full_no_bad _ _ _ _ _ _ E). apply IH.
Qed.

(* with the full re-check: transparency for every function table and every history *)
Lemma ic_transparent_full_recheck_lemma : forall ft ops,
  ~ Irregular RFull ft ops -> ~ In None (run RFull false ft init ops) ->
  observable (run RFull true ft init ops) = observable (run RFull false ft init ops).
Proof.
  intros ft ops Hi Hn. apply ic_transparent_modes_lemma; auto.
  unfold BadStore. rewrite run_full_no_bad. intro H; apply H; reflexivity.
Qed.

(* ------------------------------------------------------------------------------------------- a history with hits and bodies *)
Definition ft_clean : ftab := [[]; [OpDefine 5 3 (dd (VNum 9) true true true)]; [OpDelete 5 3]; []; []].
Definition w_clean : list op :=
  [OpAlloc false None; OpDefine 2 0 (dd (VNum 1) true true true); OpDefine 2 1 (da (VFun 1) (VFun 2) true true);
   OpAlloc false (Some 2); OpAlloc false (Some 2); OpAlloc false None; OpDefine 4 2 (dd (VNum 5) true true true);
   OpGet 0 0 3; OpGet 0 0 3; OpGet 0 0 4; OpGet 0 0 4; OpGet 0 0 2; OpGet 0 0 2;
   OpGet 0 1 3; OpGet 0 1 3; OpSet 0 1 3 (VNum 7); OpSet 0 1 3 (VNum 8);
   OpSet 0 2 4 (VNum 6); OpSet 0 2 4 (VNum 9); OpGet 1 2 4; OpGet 1 2 4;
   OpDelete 4 2; OpGet 1 2 4; OpDefine 4 3 (dd (VNum 3) true true true); OpGet 0 0 4;
   OpDefine 2 0 (da (VFun 3) (VFun 4) true true); OpGet 0 0 3; OpGet 0 0 3; OpDelete 2 1; OpSet 0 1 3 (VNum 1);
   OpDefine 1 0 (dd (VNum 4) true true true); OpGetGlobal 0 0; OpGetGlobal 0 0;
   OpDefine 1 0 {| d_kind := KData None (Some false); d_enum := None; d_conf := None |}; OpSet 1 0 1 (VNum 5); OpGetGlobal 0 0;
   OpDump 2; OpDump 4; OpDump 5].
Definition hits (r : list (option (list out))) : nat :=
  length (filter (fun x => match x with
                           | Some l => existsb (fun o => match o with OIC (EvHit :: _) => true | _ => false end) l
                           | None => false end) r).
Lemma clean_history_lemma :
  ~ Irregular RIndex ft_clean w_clean /\ ~ BadStore RIndex ft_clean w_clean /\ ~ In None (run_uncached ft_clean w_clean) /\
  hits (run_cached ft_clean w_clean) = 9%nat.
Proof.
  split; [|split; [|split]].
  - unfold Irregular. vm_compute. intro H. apply H. reflexivity.
  - unfold BadStore. vm_compute. intro H. apply H. reflexivity.
  - vm_compute. intuition discriminate.
  - vm_compute. reflexivity.
Qed.
