(* C06 lemmas.  Part 1: flag arithmetic over the regenerated constants, witnesses of the known classes,
   the cache entries that can never be disturbed.  Part 2 (below): invariant + simulation. *)
From Coq Require Import NArith Bool List Lia.
From Gen Require Import SlotFlags.
From C06 Require Import Model_C06.
Import ListNotations.
Local Open Scope N_scope.

(* ------------------------------------------------------------------------------------------- single-bit flags *)
Lemma land_pow2 a n : N.land a (2 ^ n) = if N.testbit a n then 2 ^ n else 0.
Proof.
  apply N.bits_inj. intro m. rewrite N.land_spec.
  destruct (N.testbit a n) eqn:E.
  - rewrite N.pow2_bits_eqb. destruct (N.eqb_spec n m) as [->|]; [rewrite E|]; simpl; auto using andb_false_r.
  - rewrite N.pow2_bits_eqb, N.bits_0. destruct (N.eqb_spec n m) as [->|]; [rewrite E|]; simpl; auto using andb_false_r.
Qed.

Lemma has_flag_pow2 a n : has_flag a (2 ^ n) = N.testbit a n.
Proof.
  unfold has_flag. rewrite land_pow2. destruct (N.testbit a n).
  - apply N.eqb_refl.
  - apply N.eqb_neq. intro H. symmetry in H. apply N.pow_nonzero in H; [auto | discriminate].
Qed.

Lemma flags_are_bits :
  sf_WRITABLE = 2 ^ 0 /\ sf_ENUMERABLE = 2 ^ 1 /\ sf_CONFIGURABLE = 2 ^ 2 /\ sf_GET = 2 ^ 3 /\ sf_SET = 2 ^ 4 /\
  sf_PROTOTYPE = 2 ^ 5 /\ sf_FOUND = 2 ^ 6 /\ sf_NOT_CACHEABLE = 2 ^ 7 /\
  sf_INLINE_CACHE_BITS = N.lor (2 ^ 5) (N.lor (2 ^ 6) (2 ^ 7)).
Proof. repeat split; vm_compute; reflexivity. Qed.

Definition f_proto a := N.testbit a 5.
Definition f_found a := N.testbit a 6.
Definition f_nc a := N.testbit a 7.

Lemma hf_proto a : has_flag a sf_PROTOTYPE = f_proto a.
Proof. change sf_PROTOTYPE with (2 ^ 5). apply has_flag_pow2. Qed.
Lemma hf_found a : has_flag a sf_FOUND = f_found a.
Proof. change sf_FOUND with (2 ^ 6). apply has_flag_pow2. Qed.
Lemma hf_nc a : has_flag a sf_NOT_CACHEABLE = f_nc a.
Proof. change sf_NOT_CACHEABLE with (2 ^ 7). apply has_flag_pow2. Qed.

(* the `(bits & PROTOTYPE) << 2` trick of Slot::set_not_cacheable_if_already_prototype, for every N *)
Lemma shift_trick_lemma : forall a,
  sf_set_not_cacheable_if_already_prototype a =
  if has_flag a sf_PROTOTYPE then N.lor a sf_NOT_CACHEABLE else a.
Proof.
  intro a. unfold sf_set_not_cacheable_if_already_prototype. rewrite hf_proto. unfold f_proto.
  change sf_PROTOTYPE with (2 ^ 5). rewrite land_pow2.
  destruct (N.testbit a 5).
  - reflexivity.
  - change (N.shiftl 0 2) with 0. change (0 mod 2 ^ 8) with 0. apply N.lor_0_r.
Qed.

Lemma is_cacheable_spec a : sf_is_cacheable a = negb (f_nc a) && f_found a.
Proof.
  unfold sf_is_cacheable. change (N.eqb (N.land a sf_NOT_CACHEABLE) sf_NOT_CACHEABLE) with (has_flag a sf_NOT_CACHEABLE).
  change (N.eqb (N.land a sf_FOUND) sf_FOUND) with (has_flag a sf_FOUND). now rewrite hf_nc, hf_found.
Qed.

(* ------------------------------------------------------------------------------------------- descriptor bits: 32 cases *)
Ltac all_dattrs a := destruct a as [[] [] [] [] []].

Lemma bits_of_lt32 a : bits_of a < 32.
Proof. all_dattrs a; vm_compute; reflexivity. Qed.

Lemma bits_of_inj a b : bits_of a = bits_of b -> a = b.
Proof. all_dattrs a; all_dattrs b; vm_compute; intro H; first [reflexivity | discriminate H]. Qed.

Lemma bits_no_cache_bits a : N.land (bits_of a) sf_INLINE_CACHE_BITS = 0.
Proof. all_dattrs a; vm_compute; reflexivity. Qed.

Lemma dattrs_eqb_eq a b : dattrs_eqb a b = true -> a = b.
Proof. unfold dattrs_eqb. intro H. apply N.eqb_eq in H. now apply bits_of_inj. Qed.
Lemma dattrs_eqb_refl a : dattrs_eqb a a = true.
Proof. unfold dattrs_eqb. apply N.eqb_refl. Qed.

(* ------------------------------------------------------------------------------------------- equality of shapes *)
Lemma trans_eqb_eq a b : trans_eqb a b = true -> a = b.
Proof.
  destruct a, b; simpl; try discriminate.
  - intro H. apply andb_true_iff in H as [H1 H2]. apply N.eqb_eq in H1. apply dattrs_eqb_eq in H2. now subst.
  - intro H. apply andb_true_iff in H as [H1 H2]. apply N.eqb_eq in H1. apply dattrs_eqb_eq in H2. now subst.
  - destruct p, p0; simpl; try discriminate; auto. intro H. apply N.eqb_eq in H. now subst.
Qed.
Lemma path_eqb_eq : forall a b, path_eqb a b = true -> a = b.
Proof.
  induction a; destruct b; simpl; try discriminate; auto.
  intro H. apply andb_true_iff in H as [H1 H2]. apply trans_eqb_eq in H1. apply IHa in H2. now subst.
Qed.
Lemma shape_eqb_eq a b : shape_eqb a b = true -> a = b.
Proof.
  destruct a, b; simpl; try discriminate.
  - intro H. apply path_eqb_eq in H. now subst.
  - intro H. apply N.eqb_eq in H. now subst.
Qed.

(* ------------------------------------------------------------------------------------------- witnesses *)
Definition dd (v : val) (w e c : bool) : pdesc := {| d_kind := KData (Some v) (Some w); d_enum := Some e; d_conf := Some c |}.
Definition da (g s : val) (e c : bool) : pdesc := {| d_kind := KAcc (Some g) (Some s); d_enum := Some e; d_conf := Some c |}.

(* DESIGN.md section 5 #11: `delete p.y; p.z = 7` then `o.y` reads 7 *)
Definition w_proto_layout : list op :=
  [OpAlloc false None; OpDefine 2 0 (dd (VNum 1) true true true); OpDefine 2 1 (dd (VNum 2) true true true);
   OpAlloc false (Some 2); OpGet 0 1 3; OpGet 0 1 3; OpDelete 2 1; OpDefine 2 2 (dd (VNum 7) true true true); OpGet 0 1 3].
(* ... and `delete proto.a` after caching `o.b` indexes out of bounds *)
Definition w_proto_panic : list op :=
  [OpAlloc false None; OpDefine 2 0 (dd (VNum 1) true true true); OpDefine 2 1 (dd (VNum 2) true true true);
   OpAlloc false (Some 2); OpGet 0 1 3; OpGet 0 1 3; OpDelete 2 0; OpGet 0 1 3].
(* #12: cached `globalThis.y = v` still writes after writable:false *)
Definition w_unique_attr : list op :=
  [OpDefine 1 0 (dd (VNum 1) true true true); OpSet 0 0 1 (VNum 2); OpSet 0 0 1 (VNum 3);
   OpDefine 1 0 {| d_kind := KData None (Some false); d_enum := None; d_conf := None |}; OpSet 0 0 1 (VNum 4); OpGetGlobal 0 0].
(* an own global shadows a cached Object.prototype property in place *)
Definition w_unique_shadow : list op :=
  [OpDefine 0 0 (dd (VNum 1) true true true); OpGetGlobal 0 0; OpGetGlobal 0 0; OpDefine 1 0 (dd (VNum 2) true true true); OpGetGlobal 0 0].
(* strict set through a cached accessor slot whose setter became undefined *)
Definition w_setter_missing : list op :=
  [OpAlloc false None; OpDefine 2 0 (da (VFun 1) (VFun 2) true true); OpSet 0 0 2 (VNum 1); OpSet 0 0 2 (VNum 2);
   OpDefine 2 0 {| d_kind := KAcc None (Some VUndef); d_enum := None; d_conf := None |}; OpSet 0 0 2 (VNum 3)].

Definition refuted (ops : list op) : Prop := observable (run_cached ops) <> observable (run_uncached ops).

Lemma known_witness_lemma :
  (first_known init w_proto_layout 0 = Some (6, KProtoLayout) /\ refuted w_proto_layout) /\
  (first_known init w_proto_panic 0 = Some (6, KProtoLayout) /\ refuted w_proto_panic) /\
  (first_known init w_unique_attr 0 = Some (3, KUniqueAttr) /\ refuted w_unique_attr) /\
  (first_known init w_unique_shadow 0 = Some (3, KUniqueShadow) /\ refuted w_unique_shadow) /\
  (first_known init w_setter_missing 0 = Some (5, KSetterMissing) /\ refuted w_setter_missing).
Proof.
  repeat split; try (vm_compute; reflexivity); unfold refuted; vm_compute; intro H; discriminate H.
Qed.

(* the out-of-bounds case: the cached run panics, the uncached one does not *)
Lemma proto_panic_lemma : In None (run_cached w_proto_panic) /\ ~ In None (run_uncached w_proto_panic).
Proof.
  split.
  - vm_compute. repeat (first [left; reflexivity | right]).
  - vm_compute. intuition discriminate.
Qed.

(* ------------------------------------------------------------------------------------------- what can be disturbed *)
(* an entry keyed by a shared shape and not flagged PROTOTYPE rests on nothing a heap step can change *)
Lemma shared_own_entry_stable : forall h h' k p sl,
  has_flag (s_attrs sl) sf_PROTOTYPE = false ->
  entry_deps h k (ShShared p, sl) = entry_deps h' k (ShShared p, sl).
Proof. intros h h' k p sl H. unfold entry_deps. rewrite H. reflexivity. Qed.

Lemma tslot_eqb_refl a : tslot_eqb a a = true.
Proof. unfold tslot_eqb. now rewrite N.eqb_refl, dattrs_eqb_refl. Qed.
Lemma opt_eqb_refl {A} (f : A -> A -> bool) (x : option A) : (forall a, f a a = true) -> opt_eqb f x x = true.
Proof. intro H. destruct x; simpl; auto. Qed.
Lemma deps_eqb_refl d : deps_eqb d d = true.
Proof.
  destruct d as [[l p] q]. unfold deps_eqb.
  rewrite (opt_eqb_refl tslot_eqb l tslot_eqb_refl), (opt_eqb_refl N.eqb p N.eqb_refl).
  rewrite (opt_eqb_refl (opt_eqb tslot_eqb) q); auto.
  intro a. apply opt_eqb_refl. apply tslot_eqb_refl.
Qed.

Lemma classify_shared_own : forall h h' k p sl,
  has_flag (s_attrs sl) sf_PROTOTYPE = false -> classify_entry h h' k (ShShared p, sl) = None.
Proof.
  intros. unfold classify_entry. rewrite (shared_own_entry_stable h h' k p sl H). now rewrite deps_eqb_refl.
Qed.

Lemma first_some_exists {A B} (f : A -> option B) l y : first_some f l = Some y -> exists x, In x l /\ f x = Some y.
Proof.
  induction l; simpl; try discriminate. destruct (f a) eqn:E.
  - intro H. inversion H; subst. exists a; auto.
  - intro H. destruct (IHl H) as [x [? ?]]. exists x; auto.
Qed.

(* a disturbance always concerns a PROTOTYPE-flagged entry or an entry keyed by a unique shape *)
Lemma disturbed_only_proto_or_unique_lemma : forall h h' ss c,
  disturbed h h' ss = Some c ->
  exists id ca s sl, In (id, ca) ss /\ In (s, sl) (c_entries ca) /\
    (has_flag (s_attrs sl) sf_PROTOTYPE = true \/ exists u, s = ShUnique u).
Proof.
  intros h h' ss c H. unfold disturbed in H.
  apply first_some_exists in H as [[[[kd n] k] ca] [Hin H]].
  apply first_some_exists in H as [[s sl] [Hin2 H]].
  exists (kd, n, k), ca, s, sl. repeat split; auto.
  destruct (has_flag (s_attrs sl) sf_PROTOTYPE) eqn:E; auto.
  right. destruct s as [p|u]; [|eauto].
  rewrite (classify_shared_own h h' k p sl E) in H. discriminate.
Qed.
