(* C06 lemmas.  Part 1: flag arithmetic over the regenerated constants, equality of shapes, and the histories that
   refuted transparency before the fixes (Old_C06.v), now transparent.  Parts 2/3: ProofsB_C06.v, ProofsC_C06.v. *)
From Coq Require Import NArith Bool List Lia.
From Gen Require Import SlotFlags.
From C06 Require Import Model_C06.
Import ListNotations.
Local Open Scope N_scope.

(* ------------------------------------------------------------------------------------------- single-bit flags *)
Lemma land_pow2 a n : N.land a (2 ^ n) = if N.testbit a n then 2 ^ n else 0.
Proof.
  apply N.bits_inj. intro m. rewrite N.land_spec.
  destruct (N.testbit a n) eqn:E.
  - rewrite N.pow2_bits_eqb. destruct (N.eqb_spec n m) as [->|]; [rewrite E|]; simpl; auto using andb_false_r.
  - rewrite N.pow2_bits_eqb, N.bits_0. destruct (N.eqb_spec n m) as [->|]; [rewrite E|]; simpl; auto using andb_false_r.
Qed.

Lemma has_flag_pow2 a n : has_flag a (2 ^ n) = N.testbit a n.
Proof.
  unfold has_flag. rewrite land_pow2. destruct (N.testbit a n).
  - apply N.eqb_refl.
  - apply N.eqb_neq. intro H. symmetry in H. apply N.pow_nonzero in H; [auto | discriminate].
Qed.

Lemma flags_are_bits :
  sf_WRITABLE = 2 ^ 0 /\ sf_ENUMERABLE = 2 ^ 1 /\ sf_CONFIGURABLE = 2 ^ 2 /\ sf_GET = 2 ^ 3 /\ sf_SET = 2 ^ 4 /\
  sf_PROTOTYPE = 2 ^ 5 /\ sf_FOUND = 2 ^ 6 /\ sf_NOT_CACHEABLE = 2 ^ 7 /\
  sf_INLINE_CACHE_BITS = N.lor (2 ^ 5) (N.lor (2 ^ 6) (2 ^ 7)).
Proof. repeat split; vm_compute; reflexivity. Qed.

Definition f_proto a := N.testbit a 5.
Definition f_found a := N.testbit a 6.
Definition f_nc a := N.testbit a 7.

Lemma hf_proto a : has_flag a sf_PROTOTYPE = f_proto a.
Proof. change sf_PROTOTYPE with (2 ^ 5). apply has_flag_pow2. Qed.
Lemma hf_found a : has_flag a sf_FOUND = f_found a.
Proof. change sf_FOUND with (2 ^ 6). apply has_flag_pow2. Qed.
Lemma hf_nc a : has_flag a sf_NOT_CACHEABLE = f_nc a.
Proof. change sf_NOT_CACHEABLE with (2 ^ 7). apply has_flag_pow2. Qed.

(* the `(bits & PROTOTYPE) << 2` trick of Slot::set_not_cacheable_if_already_prototype, for every N *)
Lemma shift_trick_lemma : forall a,
  sf_set_not_cacheable_if_already_prototype a =
  if has_flag a sf_PROTOTYPE then N.lor a sf_NOT_CACHEABLE else a.
Proof.
  intro a. unfold sf_set_not_cacheable_if_already_prototype. rewrite hf_proto. unfold f_proto.
  change sf_PROTOTYPE with (2 ^ 5). rewrite land_pow2.
  destruct (N.testbit a 5).
  - reflexivity.
  - change (N.shiftl 0 2) with 0. change (0 mod 2 ^ 8) with 0. apply N.lor_0_r.
Qed.

Lemma is_cacheable_spec a : sf_is_cacheable a = negb (f_nc a) && f_found a.
Proof.
  unfold sf_is_cacheable. change (N.eqb (N.land a sf_NOT_CACHEABLE) sf_NOT_CACHEABLE) with (has_flag a sf_NOT_CACHEABLE).
  change (N.eqb (N.land a sf_FOUND) sf_FOUND) with (has_flag a sf_FOUND). now rewrite hf_nc, hf_found.
Qed.

(* ------------------------------------------------------------------------------------------- descriptor bits: 32 cases *)
Ltac all_dattrs a := destruct a as [[] [] [] [] []].

Lemma bits_of_lt32 a : bits_of a < 32.
Proof. all_dattrs a; vm_compute; reflexivity. Qed.

Lemma bits_of_inj a b : bits_of a = bits_of b -> a = b.
Proof. all_dattrs a; all_dattrs b; vm_compute; intro H; first [reflexivity | discriminate H]. Qed.

Lemma bits_no_cache_bits a : N.land (bits_of a) sf_INLINE_CACHE_BITS = 0.
Proof. all_dattrs a; vm_compute; reflexivity. Qed.

Lemma dattrs_eqb_eq a b : dattrs_eqb a b = true -> a = b.
Proof. unfold dattrs_eqb. intro H. apply N.eqb_eq in H. now apply bits_of_inj. Qed.
Lemma dattrs_eqb_refl a : dattrs_eqb a a = true.
Proof. unfold dattrs_eqb. apply N.eqb_refl. Qed.

(* ------------------------------------------------------------------------------------------- equality of shapes *)
Lemma trans_eqb_eq a b : trans_eqb a b = true -> a = b.
Proof.
  destruct a, b; simpl; try discriminate.
  - intro H. apply andb_true_iff in H as [H1 H2]. apply N.eqb_eq in H1. apply dattrs_eqb_eq in H2. now subst.
  - intro H. apply andb_true_iff in H as [H1 H2]. apply N.eqb_eq in H1. apply dattrs_eqb_eq in H2. now subst.
  - destruct p, p0; simpl; try discriminate; auto. intro H. apply N.eqb_eq in H. now subst.
Qed.
Lemma path_eqb_eq : forall a b, path_eqb a b = true -> a = b.
Proof.
  induction a; destruct b; simpl; try discriminate; auto.
  intro H. apply andb_true_iff in H as [H1 H2]. apply trans_eqb_eq in H1. apply IHa in H2. now subst.
Qed.
Lemma shape_eqb_eq a b : shape_eqb a b = true -> a = b.
Proof.
  destruct a, b; simpl; try discriminate.
  - intro H. apply path_eqb_eq in H. now subst.
  - intro H. apply N.eqb_eq in H. now subst.
Qed.

(* ------------------------------------------------------------------------------------------- the former witnesses *)
Definition dd (v : val) (w e c : bool) : pdesc := {| d_kind := KData (Some v) (Some w); d_enum := Some e; d_conf := Some c |}.
Definition da (g s : val) (e c : bool) : pdesc := {| d_kind := KAcc (Some g) (Some s); d_enum := Some e; d_conf := Some c |}.

(* the same histories as Old_C06.w_* (DESIGN.md section 5 #11, #12 and the two classes found by this check) *)
Definition w_proto_layout : list op :=
  [OpAlloc false None; OpDefine 2 0 (dd (VNum 1) true true true); OpDefine 2 1 (dd (VNum 2) true true true);
   OpAlloc false (Some 2); OpGet 0 1 3; OpGet 0 1 3; OpDelete 2 1; OpDefine 2 2 (dd (VNum 7) true true true); OpGet 0 1 3].
Definition w_proto_panic : list op :=
  [OpAlloc false None; OpDefine 2 0 (dd (VNum 1) true true true); OpDefine 2 1 (dd (VNum 2) true true true);
   OpAlloc false (Some 2); OpGet 0 1 3; OpGet 0 1 3; OpDelete 2 0; OpGet 0 1 3].
Definition w_unique_attr : list op :=
  [OpDefine 1 0 (dd (VNum 1) true true true); OpSet 0 0 1 (VNum 2); OpSet 0 0 1 (VNum 3);
   OpDefine 1 0 {| d_kind := KData None (Some false); d_enum := None; d_conf := None |}; OpSet 0 0 1 (VNum 4); OpGetGlobal 0 0].
Definition w_unique_shadow : list op :=
  [OpDefine 0 0 (dd (VNum 1) true true true); OpGetGlobal 0 0; OpGetGlobal 0 0; OpDefine 1 0 (dd (VNum 2) true true true); OpGetGlobal 0 0].
Definition w_setter_missing : list op :=
  [OpAlloc false None; OpDefine 2 0 (da (VFun 1) (VFun 2) true true); OpSet 0 0 2 (VNum 1); OpSet 0 0 2 (VNum 2);
   OpDefine 2 0 {| d_kind := KAcc None (Some VUndef); d_enum := None; d_conf := None |}; OpSet 0 0 2 (VNum 3)].

Definition transparent_on (ops : list op) : Prop :=
  observable (run_cached [] ops) = observable (run_uncached [] ops) /\ ~ In None (run_cached [] ops).

Lemma fixed_witness_lemma :
  transparent_on w_proto_layout /\ transparent_on w_proto_panic /\ transparent_on w_unique_attr /\
  transparent_on w_unique_shadow /\ transparent_on w_setter_missing.
Proof. repeat split; try (vm_compute; reflexivity); vm_compute; intuition discriminate. Qed.
