(* C12 property theorems: statements only, each closed by `exact`, pinned by `Check`, with its
   assumptions printed.  The functions m_* / tag_* / is_* are regenerated from nan_boxed.rs. *)
From Coq Require Import NArith ZArith Bool List Lia.
From Common Require Import Bits.
From C12 Require Import Variant Model_C12 Proofs_C12 Decode_C12.
From Gen Require Import NanBits.
Local Open Scope N_scope.

(* all 2^32 int32s survive, classified as integer and nothing else *)
Theorem i32_roundtrip : forall i, in_i32 i ->
  let w := m_integer32 i in
  w < two64 /\ m_as_variant w = VInteger32 i /\ observe w = observe_enum (VInteger32 i).
Proof. exact i32_roundtrip_lemma. Qed.
Check i32_roundtrip : forall i, in_i32 i ->
  let w := m_integer32 i in
  w < two64 /\ m_as_variant w = VInteger32 i /\ observe w = observe_enum (VInteger32 i).
Print Assumptions i32_roundtrip.

(* every one of the 2^64 double bit patterns reads back as a number: itself, or the canonical NaN
   exactly when it is a NaN pattern; never as another type *)
Theorem f64_roundtrip : forall b, b < two64 ->
  let w := m_float64 b in
  w < two64 /\ m_as_variant w = VFloat64 (if f64_is_nan b then CANON_NAN else b) /\
  observe w = observe_enum (VFloat64 (if f64_is_nan b then CANON_NAN else b)).
Proof. exact f64_roundtrip_lemma. Qed.
Check f64_roundtrip : forall b, b < two64 ->
  let w := m_float64 b in
  w < two64 /\ m_as_variant w = VFloat64 (if f64_is_nan b then CANON_NAN else b) /\
  observe w = observe_enum (VFloat64 (if f64_is_nan b then CANON_NAN else b)).
Print Assumptions f64_roundtrip.

Theorem const_roundtrip :
  (forall b, m_as_variant (m_boolean b) = VBoolean b /\ observe (m_boolean b) = observe_enum (VBoolean b) /\ m_boolean b < two64) /\
  (m_as_variant m_null = VNull /\ observe m_null = observe_enum VNull /\ m_null < two64) /\
  (m_as_variant m_undefined = VUndefined /\ observe m_undefined = observe_enum VUndefined /\ m_undefined < two64).
Proof. exact const_roundtrip_lemma. Qed.
Check const_roundtrip :
  (forall b, m_as_variant (m_boolean b) = VBoolean b /\ observe (m_boolean b) = observe_enum (VBoolean b) /\ m_boolean b < two64) /\
  (m_as_variant m_null = VNull /\ observe m_null = observe_enum VNull /\ m_null < two64) /\
  (m_as_variant m_undefined = VUndefined /\ observe m_undefined = observe_enum VUndefined /\ m_undefined < two64).
Print Assumptions const_roundtrip.

(* heap references: every non-null address below 2^48 survives with its kind *)
Theorem pointer_roundtrip : forall p, 0 < p < two48 ->
  (exists w, m_object p = Some w /\ w < two64 /\ m_as_variant w = VObject p /\ observe w = observe_enum (VObject p)) /\
  (exists w, m_string p = Some w /\ w < two64 /\ m_as_variant w = VString p /\ observe w = observe_enum (VString p)) /\
  (exists w, m_symbol p = Some w /\ w < two64 /\ m_as_variant w = VSymbol p /\ observe w = observe_enum (VSymbol p)) /\
  (exists w, m_bigint p = Some w /\ w < two64 /\ m_as_variant w = VBigInt p /\ observe w = observe_enum (VBigInt p)).
Proof. exact pointer_roundtrip_lemma. Qed.
Check pointer_roundtrip : forall p, 0 < p < two48 ->
  (exists w, m_object p = Some w /\ w < two64 /\ m_as_variant w = VObject p /\ observe w = observe_enum (VObject p)) /\
  (exists w, m_string p = Some w /\ w < two64 /\ m_as_variant w = VString p /\ observe w = observe_enum (VString p)) /\
  (exists w, m_symbol p = Some w /\ w < two64 /\ m_as_variant w = VSymbol p /\ observe w = observe_enum (VSymbol p)) /\
  (exists w, m_bigint p = Some w /\ w < two64 /\ m_as_variant w = VBigInt p /\ observe w = observe_enum (VBigInt p)).
Print Assumptions pointer_roundtrip.

(* an address that does not fit is refused (the Rust code panics), never silently truncated *)
Theorem pointer_too_wide_refused : forall p M, two48 <= p -> tag_pointer p M = None.
Proof. exact tag_pointer_wide. Qed.
Check pointer_too_wide_refused : forall p M, two48 <= p -> tag_pointer p M = None.
Print Assumptions pointer_too_wide_refused.

(* the NaN-boxed representation refines the enum representation: boxing then reading back any
   well-formed value gives the value (NaN canonicalised), under every predicate and accessor *)
Theorem nan_boxed_refines_enum : forall v, wf v ->
  exists w, box v = Some w /\ w < two64 /\ m_as_variant w = canon v /\ observe w = observe_enum (canon v).
Proof. exact refines_lemma. Qed.
Check nan_boxed_refines_enum : forall v, wf v ->
  exists w, box v = Some w /\ w < two64 /\ m_as_variant w = canon v /\ observe w = observe_enum (canon v).
Print Assumptions nan_boxed_refines_enum.

(* unambiguous: no 64-bit word satisfies two kind tests, and one that satisfies none is a NaN
   pattern and reads back as a number *)
Theorem kinds_at_most_one : forall w, w < two64 -> (kinds_holding w <= 1)%nat.
Proof. exact kinds_at_most_one_lemma. Qed.
Check kinds_at_most_one : forall w, w < two64 -> (kinds_holding w <= 1)%nat.
Print Assumptions kinds_at_most_one.

Theorem unclassified_is_nan : forall w, w < two64 -> kinds_holding w = 0%nat ->
  m_as_variant w = VFloat64 w /\ f64_is_nan w = true /\ m_get_type w = TNumber.
Proof. exact unclassified_is_nan_lemma. Qed.
Check unclassified_is_nan : forall w, w < two64 -> kinds_holding w = 0%nat ->
  m_as_variant w = VFloat64 w /\ f64_is_nan w = true /\ m_get_type w = TNumber.
Print Assumptions unclassified_is_nan.

Theorem box_injective : forall v1 v2 w, wf v1 -> wf v2 -> box v1 = Some w -> box v2 = Some w -> canon v1 = canon v2.
Proof. exact box_injective_lemma. Qed.
Check box_injective : forall v1 v2 w, wf v1 -> wf v2 -> box v1 = Some w -> box v2 = Some w -> canon v1 = canon v2.
Print Assumptions box_injective.

(* decode side, for EVERY word (reachable from a constructor or not): the kind predicates, get_type, the
   exact-value tests and as_variant classify consistently -- the variant read back has exactly the kind whose
   predicate holds, so no word is an object under one accessor and a number under another *)
Theorem decode_consistent : forall w,
  kobs_word w = kobs_variant (m_as_variant w) /\
  m_get_type w = type_of_variant (m_as_variant w) /\
  (m_is_float64 w = true -> m_as_variant w = VFloat64 w) /\
  (m_is_undefined w = true -> m_as_variant w = VUndefined) /\
  (m_is_null w = true -> m_as_variant w = VNull) /\
  (forall b, m_as_bool w = Some b -> m_as_variant w = VBoolean b).
Proof. exact decode_consistent_lemma. Qed.
Check decode_consistent : forall w,
  kobs_word w = kobs_variant (m_as_variant w) /\
  m_get_type w = type_of_variant (m_as_variant w) /\
  (m_is_float64 w = true -> m_as_variant w = VFloat64 w) /\
  (m_is_undefined w = true -> m_as_variant w = VUndefined) /\
  (m_is_null w = true -> m_as_variant w = VNull) /\
  (forall b, m_as_bool w = Some b -> m_as_variant w = VBoolean b).
Print Assumptions decode_consistent.

(* non-vacuity: the hypotheses are met by concrete values of every kind *)
Example wf_examples :
  wf (VInteger32 (-2147483648)) /\ wf (VInteger32 2147483647) /\ wf (VFloat64 18444492273895866369) /\
  wf (VObject 140737488355320) /\ wf (VString 8) /\
  box (VInteger32 (-1)) = Some 9221401716312768511 /\ f64_is_nan 18444492273895866369 = true /\
  m_as_variant 9221401716312768511 = VInteger32 (-1).
Proof. unfold wf, in_i32, two64, two48. repeat split; try lia; vm_compute; reflexivity. Qed.
