(* The abstract value type: this *is* the enum representation (`EnumBasedValue` / `JsVariant`),
   with heap references as addresses and doubles as their 64-bit patterns. *)
From Coq Require Import NArith ZArith.
Inductive variant :=
| VUndefined | VNull | VBoolean (b : bool) | VInteger32 (i : Z) | VFloat64 (bits : N)
| VBigInt (p : N) | VObject (p : N) | VSymbol (p : N) | VString (p : N).
Inductive jstype := TUndefined | TNull | TBoolean | TNumber | TString | TSymbol | TBigInt | TObject.
