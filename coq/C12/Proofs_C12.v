(* C12 proofs.  All statements are about the definitions in Gen/NanBits.v, which the translator
   regenerates from nan_boxed.rs on every run: a changed mask or tag re-runs every proof below.
   Technique: every kind test reads only bits 48..63 (lemma kind_test_hi), so facts about all 2^64
   words reduce to a vm_compute sweep over 2^16 values of the high part (all_below_0), lifted by
   the hi/lo split lemmas of Common/Bits.v; payloads are arithmetic. *)
From Coq Require Import NArith ZArith Bool List Lia.
From Common Require Import Bits.
From C12 Require Import Variant Model_C12.
From Gen Require Import NanBits.
Import ListNotations.
Local Open Scope N_scope.

Ltac Zify.zify_post_hook ::= Z.div_mod_to_equations.

Definition p48 : N := 281474976710656.
Lemma p48_pow : p48 = 2 ^ 48. Proof. reflexivity. Qed.

Definition hiof (c : N) : N := N.shiftr c 48.
Definition mk : N := hiof MASK_KIND.
Definition mn : N := hiof MASK_NAN.

(* the masks have clear low 48 bits: facts about the regenerated constants *)
Definition masks_high_only : bool :=
  forallb (fun c => N.eqb (c mod p48) 0)
    [MASK_KIND; MASK_NAN; MASK_INT32; MASK_BOOLEAN; MASK_OTHER; MASK_OBJECT; MASK_STRING; MASK_SYMBOL; MASK_BIGINT;
     N.lor MASK_NAN TAG_INF; N.lor MASK_NAN TAG_NAN].
Lemma masks_high_only_ok : masks_high_only = true. Proof. vm_compute. reflexivity. Qed.

Lemma high_only c : N.eqb (c mod p48) 0 = true -> c = hiof c * 2 ^ 48.
Proof.
  intros H. apply N.eqb_eq in H. unfold hiof. rewrite N.shiftr_div_pow2. rewrite <- p48_pow.
  pose proof (N.div_mod c p48). unfold p48 in *. lia.
Qed.

Lemma mask_in_list c : In c [MASK_KIND; MASK_NAN; MASK_INT32; MASK_BOOLEAN; MASK_OTHER; MASK_OBJECT; MASK_STRING;
     MASK_SYMBOL; MASK_BIGINT; N.lor MASK_NAN TAG_INF; N.lor MASK_NAN TAG_NAN] -> c = hiof c * 2 ^ 48.
Proof.
  intros Hin. apply high_only. pose proof masks_high_only_ok as H. unfold masks_high_only in H.
  rewrite forallb_forall in H. apply H. exact Hin.
Qed.

Lemma mul_p48_eqb a b : N.eqb (a * 2 ^ 48) (b * 2 ^ 48) = N.eqb a b.
Proof.
  destruct (N.eqb_spec a b) as [->|Hne]; [apply N.eqb_refl|].
  apply N.eqb_neq. intro H. apply Hne. apply N.mul_cancel_r in H; [exact H|].
  apply N.pow_nonzero. lia.
Qed.

(* a test  (w & M) == C  with M, C high-only reads only the high part of w *)
Lemma kind_test_hi hi lo M C : lo < 2 ^ 48 -> M = hiof M * 2 ^ 48 -> C = hiof C * 2 ^ 48 ->
  N.eqb (N.land (hi * 2 ^ 48 + lo) M) C = N.eqb (N.land hi (hiof M)) (hiof C).
Proof.
  intros Hlo HM HC. rewrite HM at 1. rewrite HC at 1.
  rewrite (land_hi_mask 48 hi lo (hiof M) Hlo). apply mul_p48_eqb.
Qed.

Ltac kind_tests Hlo :=
  repeat match goal with
  | |- context [N.eqb (N.land (?hi * 2 ^ 48 + ?lo) ?M) ?C] =>
      rewrite (kind_test_hi hi lo M C Hlo) by (apply mask_in_list; simpl; tauto)
  end.

(* ---- the observation of a word as a function of its high part, when no test reads the low part *)

Definition kinds_hi (hi : N) : list bool :=
  let k := N.land hi mk in
  [ negb (N.eqb (N.land hi mn) mn) || N.eqb k (hiof (N.lor MASK_NAN TAG_INF)) || N.eqb k (hiof (N.lor MASK_NAN TAG_NAN));
    N.eqb k (hiof MASK_INT32); N.eqb k (hiof MASK_BOOLEAN); N.eqb k (hiof MASK_OTHER);
    N.eqb k (hiof MASK_OBJECT); N.eqb k (hiof MASK_STRING); N.eqb k (hiof MASK_SYMBOL); N.eqb k (hiof MASK_BIGINT) ].

Lemma kinds_word hi lo : lo < 2 ^ 48 ->
  [m_is_float64 (hi * 2 ^ 48 + lo); m_is_integer32 (hi * 2 ^ 48 + lo); m_is_bool (hi * 2 ^ 48 + lo);
   m_is_null_or_undefined (hi * 2 ^ 48 + lo); m_is_object (hi * 2 ^ 48 + lo); m_is_string (hi * 2 ^ 48 + lo);
   m_is_symbol (hi * 2 ^ 48 + lo); m_is_bigint (hi * 2 ^ 48 + lo)] = kinds_hi hi.
Proof.
  intros Hlo.
  unfold m_is_float64, m_is_integer32, m_is_bool, m_is_null_or_undefined, m_is_object, m_is_string, m_is_symbol,
    m_is_bigint, is_float, is_integer32, is_bool, is_object, is_string, is_symbol, is_bigint, kinds_hi.
  kind_tests Hlo. reflexivity.
Qed.

Definition count_true (l : list bool) : nat := length (filter (fun b : bool => b) l).

Definition amo_f (hi : N) : bool := Nat.leb (count_true (kinds_hi hi)) 1.
Lemma sweep_at_most_one_ok : all_below 16 0 amo_f = true. Proof. vm_compute. reflexivity. Qed.
Lemma amo_spec hi : hi < 2 ^ 16 -> amo_f hi = true.
Proof. intros H. exact (all_below_0 16 amo_f sweep_at_most_one_ok hi H). Qed.

Lemma word_split w : w < two64 -> exists hi lo, w = hi * 2 ^ 48 + lo /\ lo < 2 ^ 48 /\ hi < 2 ^ 16.
Proof.
  intros Hw. destruct (split_word 48 w) as (hi & lo & Hs & Hlo & Hhi).
  exists hi, lo. split; [exact Hs|]. split; [exact Hlo|].
  subst hi. apply (hi_bound 48 16). exact Hw.
Qed.

Lemma kinds_at_most_one_lemma w : w < two64 -> (kinds_holding w <= 1)%nat.
Proof.
  intros Hw. destruct (word_split w Hw) as (hi & lo & -> & Hlo & Hhi).
  unfold kinds_holding. rewrite (kinds_word hi lo Hlo).
  pose proof (amo_spec hi Hhi) as H. unfold amo_f in H.
  apply Nat.leb_le in H. exact H.
Qed.

(* ---- NaN-ness of a bit pattern from its high part *)

Definition exp_hi (hi : N) : N := N.land (hi / 16) 2047.
Definition nan_hl (hi : N) (lo_zero : bool) : bool :=
  N.eqb (exp_hi hi) 2047 && negb (N.eqb (hi mod 16) 0 && lo_zero).

Lemma f64_is_nan_hl hi lo : lo < 2 ^ 48 -> hi < 2 ^ 16 ->
  f64_is_nan (hi * 2 ^ 48 + lo) = nan_hl hi (N.eqb lo 0).
Proof.
  intros Hlo Hhi. unfold f64_is_nan, nan_hl, f64_exp, f64_man, exp_hi.
  change 4503599627370495 with (N.ones 52). rewrite N.land_ones, N.shiftr_div_pow2.
  change (2 ^ 52) with 4503599627370496. change (2 ^ 48) with 281474976710656 in *. change (2 ^ 16) with 65536 in *.
  assert (E1 : (hi * 281474976710656 + lo) / 4503599627370496 = hi / 16) by lia.
  assert (E2 : (hi * 281474976710656 + lo) mod 4503599627370496 = (hi mod 16) * 281474976710656 + lo).
  { rewrite N.mod_eq by lia. rewrite E1.
    pose proof (N.div_mod hi 16) as Hd. assert (H16 : 16 <> 0) by lia. specialize (Hd H16).
    remember (hi / 16) as q. remember (hi mod 16) as r. lia. }
  rewrite E1, E2. f_equal. f_equal.
  destruct (N.eqb_spec (hi mod 16) 0) as [Hz|Hz]; destruct (N.eqb_spec lo 0) as [Hl|Hl]; simpl;
    apply N.eqb_eq || apply N.eqb_neq; lia.
Qed.

(* a tagged (non-float) high part is always the high part of a NaN pattern, and a float high part
   that is not a NaN-with-nonzero-low is classified float *)
Definition tagged_hi (hi : N) : bool := existsb (fun b : bool => b) (tl (kinds_hi hi)).
Definition float_f (hi : N) : bool :=
    let l := kinds_hi hi in
    let untagged_float := hd false l && negb (existsb (fun b : bool => b) (tl l)) in
    (* non-NaN patterns (either lo) are float and nothing else *)
    implb (negb (nan_hl hi true)) untagged_float &&
    implb (negb (nan_hl hi false)) untagged_float &&
    (* words satisfying no kind test are NaN patterns whatever the low part *)
    implb (Nat.eqb (count_true l) 0) (nan_hl hi true).
Lemma sweep_float_ok : all_below 16 0 float_f = true. Proof. vm_compute. reflexivity. Qed.
Lemma float_spec hi : hi < 2 ^ 16 -> float_f hi = true.
Proof. intros H. exact (all_below_0 16 float_f sweep_float_ok hi H). Qed.

Lemma nan_hl_mono hi z : nan_hl hi true = true -> nan_hl hi z = true.
Proof. unfold nan_hl. destruct (N.eqb (exp_hi hi) 2047), (N.eqb (hi mod 16) 0), z; simpl; auto. Qed.

Lemma float_word_kinds b : b < two64 -> f64_is_nan b = false ->
  exists hi lo, b = hi * 2 ^ 48 + lo /\ lo < 2 ^ 48 /\ hd false (kinds_hi hi) = true /\ tagged_hi hi = false.
Proof.
  intros Hb Hn. destruct (word_split b Hb) as (hi & lo & -> & Hlo & Hhi).
  exists hi, lo. split; [reflexivity|]. split; [exact Hlo|].
  rewrite (f64_is_nan_hl hi lo Hlo Hhi) in Hn.
  pose proof (float_spec hi Hhi) as H. unfold float_f in H. cbv zeta in H. fold (tagged_hi hi) in H.
  apply andb_prop in H. destruct H as [H _]. apply andb_prop in H. destruct H as [H1 H2].
  destruct (N.eqb lo 0).
  - rewrite Hn in H1. simpl in H1. apply andb_prop in H1. destruct H1 as [Ha Hb']. split; [exact Ha|].
    destruct (tagged_hi hi); [discriminate|reflexivity].
  - rewrite Hn in H2. simpl in H2. apply andb_prop in H2. destruct H2 as [Ha Hb']. split; [exact Ha|].
    destruct (tagged_hi hi); [discriminate|reflexivity].
Qed.

(* the as_variant / get_type / accessor cascade of a word all of whose tagged tests fail *)
Lemma untagged_word_observation hi lo : lo < 2 ^ 48 ->
  hd false (kinds_hi hi) = true -> tagged_hi hi = false ->
  let w := hi * 2 ^ 48 + lo in
  m_as_variant w = VFloat64 w /\ observe w = observe_enum (VFloat64 w).
Proof.
  intros Hlo Hf Ht w.
  pose proof (kinds_word hi lo Hlo) as K. fold w in K.
  unfold tagged_hi in Ht. remember (kinds_hi hi) as l eqn:El.
  destruct l as [|f [|i [|bo [|ot [|ob [|st [|sy [|bi [|]]]]]]]]]; try discriminate K.
  injection K as Kf Ki Kb Kot Kob Kst Ksy Kbi.
  simpl in Hf, Ht. subst f.
  destruct i; [discriminate|]. destruct bo; [discriminate|]. destruct ot; [discriminate|].
  destruct ob; [discriminate|]. destruct st; [discriminate|]. destruct sy; [discriminate|].
  destruct bi; [discriminate|]. clear Ht.
  unfold m_is_integer32, is_integer32 in Ki. unfold m_is_bool, is_bool in Kb.
  unfold m_is_null_or_undefined in Kot. unfold m_is_object, is_object in Kob.
  unfold m_is_string, is_string in Kst. unfold m_is_symbol, is_symbol in Ksy. unfold m_is_bigint, is_bigint in Kbi.
  assert (Hnu : m_is_undefined w = false).
  { unfold m_is_undefined. apply N.eqb_neq. intro E. apply N.eqb_neq in Kot. apply Kot. rewrite E. vm_compute. reflexivity. }
  assert (Hnn : m_is_null w = false).
  { unfold m_is_null. apply N.eqb_neq. intro E. apply N.eqb_neq in Kot. apply Kot. rewrite E. vm_compute. reflexivity. }
  assert (Hab : m_as_bool w = None).
  { unfold m_as_bool. cbv zeta.
    destruct (N.eqb_spec w VALUE_FALSE) as [E|_].
    { exfalso. apply N.eqb_neq in Kb. apply Kb. rewrite E. vm_compute. reflexivity. }
    destruct (N.eqb_spec w VALUE_TRUE) as [E|_]; [|reflexivity].
    exfalso. apply N.eqb_neq in Kb. apply Kb. rewrite E. vm_compute. reflexivity. }
  split.
  - unfold m_as_variant. cbv zeta. rewrite Kob, Kst, Ksy, Kbi, Ki, Kb, Kot. reflexivity.
  - unfold observe, observe_enum.
    unfold m_as_integer32, m_as_float64, m_get_type. cbv zeta.
    unfold m_is_integer32, is_integer32, m_is_bool, is_bool, m_is_null_or_undefined, m_is_object, is_object,
      m_is_string, is_string, m_is_symbol, is_symbol, m_is_bigint, is_bigint.
    rewrite Hnu, Hnn, Hab, Kob, Kst, Ksy, Kbi, Ki, Kb, Kot, Kf. reflexivity.
Qed.

(* ---- doubles *)

Lemma canon_nan_obs : m_as_variant CANON_NAN = VFloat64 CANON_NAN /\ observe CANON_NAN = observe_enum (VFloat64 CANON_NAN).
Proof. split; vm_compute; reflexivity. Qed.

Lemma f64_roundtrip_lemma b : b < two64 ->
  let w := m_float64 b in
  w < two64 /\ m_as_variant w = VFloat64 (if f64_is_nan b then CANON_NAN else b) /\
  observe w = observe_enum (VFloat64 (if f64_is_nan b then CANON_NAN else b)).
Proof.
  intros Hb w. unfold w, m_float64, tag_f64. fold CANON_NAN.
  destruct (f64_is_nan b) eqn:Hn.
  - split; [vm_compute; reflexivity|]. exact canon_nan_obs.
  - split; [exact Hb|].
    destruct (float_word_kinds b Hb Hn) as (hi & lo & -> & Hlo & Hf & Ht).
    exact (untagged_word_observation hi lo Hlo Hf Ht).
Qed.

(* ---- int32 *)

Lemma int_word i : in_i32 i ->
  m_integer32 i = hiof MASK_INT32 * 2 ^ 48 + Z.to_N (i mod 4294967296)%Z /\
  (Z.to_N (i mod 4294967296)%Z < 2 ^ 48).
Proof.
  intros Hi. unfold in_i32 in Hi. unfold m_integer32, tag_i32.
  assert (HM : MASK_INT32_VALUE = N.ones 32) by (vm_compute; reflexivity).
  rewrite HM, N.land_ones.
  assert (E : u64_of_i32 i mod 2 ^ 32 = Z.to_N (i mod 4294967296)%Z).
  { unfold u64_of_i32. change (2 ^ 32) with (Z.to_N 4294967296).
    rewrite <- Z2N.inj_mod by (try apply Z.mod_pos_bound; lia). f_equal.
    rewrite (Z.mod_eq i 18446744073709551616) by lia.
    replace (i - 18446744073709551616 * (i / 18446744073709551616))%Z
      with (i + (- (4294967296 * (i / 18446744073709551616))) * 4294967296)%Z by lia.
    apply Z_mod_plus_full. }
  rewrite E.
  assert (Hlo : Z.to_N (i mod 4294967296)%Z < 2 ^ 48) by (change (2 ^ 48) with 281474976710656; lia).
  split; [|exact Hlo].
  rewrite (mask_in_list MASK_INT32) at 1 by (simpl; tauto).
  rewrite N.lor_comm. apply lor_hi_lo. exact Hlo.
Qed.

Definition int_hi_ok : bool :=
  let hi := hiof MASK_INT32 in
  let l := kinds_hi hi in
  Nat.eqb (count_true l) 1 && nth 1 l false.
Lemma int_hi_ok_true : int_hi_ok = true. Proof. vm_compute. reflexivity. Qed.

Lemma i32_roundtrip_lemma i : in_i32 i ->
  let w := m_integer32 i in
  w < two64 /\ m_as_variant w = VInteger32 i /\ observe w = observe_enum (VInteger32 i).
Proof.
  intros Hi w. destruct (int_word i Hi) as [Ew Hlo]. fold w in Ew.
  set (lo := Z.to_N (i mod 4294967296)%Z) in *.
  pose proof (kinds_word (hiof MASK_INT32) lo Hlo) as K. rewrite <- Ew in K.
  assert (Kc : kinds_hi (hiof MASK_INT32) = [false; true; false; false; false; false; false; false]) by (vm_compute; reflexivity).
  rewrite Kc in K. injection K as Kf Ki Kb Kot Kob Kst Ksy Kbi.
  assert (Hun : untag_i32 w = i).
  { unfold untag_i32, i32_of_u64. rewrite Ew. unfold two32.
    assert (Hh : hiof MASK_INT32 * 2 ^ 48 = (hiof MASK_INT32 * 65536) * 4294967296) by (change (2 ^ 48) with 281474976710656; lia).
    rewrite Hh. rewrite N.add_comm, N.mod_add by lia.
    unfold in_i32 in Hi. subst lo.
    assert (Hm : (Z.to_N (i mod 4294967296)%Z mod 4294967296) = Z.to_N (i mod 4294967296)%Z) by (apply N.mod_small; lia).
    rewrite Hm. rewrite Z2N.id by lia.
    destruct (Z.ltb_spec (i mod 4294967296) 2147483648); lia. }
  assert (Hw : w < two64).
  { rewrite Ew. unfold two64. assert (hiof MASK_INT32 < 65536) by (vm_compute; reflexivity).
    change (2 ^ 48) with 281474976710656 in *. lia. }
  unfold m_is_integer32, is_integer32 in Ki. unfold m_is_bool, is_bool in Kb.
  unfold m_is_null_or_undefined in Kot. unfold m_is_object, is_object in Kob.
  unfold m_is_string, is_string in Kst. unfold m_is_symbol, is_symbol in Ksy. unfold m_is_bigint, is_bigint in Kbi.
  assert (Hnu : m_is_undefined w = false).
  { unfold m_is_undefined. apply N.eqb_neq. intro E. apply N.eqb_neq in Kot. apply Kot. rewrite E. vm_compute. reflexivity. }
  assert (Hnn : m_is_null w = false).
  { unfold m_is_null. apply N.eqb_neq. intro E. apply N.eqb_neq in Kot. apply Kot. rewrite E. vm_compute. reflexivity. }
  assert (Hab : m_as_bool w = None).
  { unfold m_as_bool. cbv zeta.
    destruct (N.eqb_spec w VALUE_FALSE) as [E|_].
    { exfalso. apply N.eqb_neq in Kb. apply Kb. rewrite E. vm_compute. reflexivity. }
    destruct (N.eqb_spec w VALUE_TRUE) as [E|_]; [|reflexivity].
    exfalso. apply N.eqb_neq in Kb. apply Kb. rewrite E. vm_compute. reflexivity. }
  split; [exact Hw|]. split.
  - unfold m_as_variant. cbv zeta. rewrite Kob, Kst, Ksy, Kbi, Ki, Hun. reflexivity.
  - unfold observe, observe_enum. unfold m_as_integer32, m_as_float64, m_get_type. cbv zeta.
    unfold m_is_integer32, is_integer32, m_is_bool, is_bool, m_is_null_or_undefined, m_is_object, is_object,
      m_is_string, is_string, m_is_symbol, is_symbol, m_is_bigint, is_bigint.
    rewrite Hnu, Hnn, Hab, Kob, Kst, Ksy, Kbi, Ki, Kb, Kot, Kf, Hun. reflexivity.
Qed.

(* ---- booleans, null, undefined: closed terms *)

Lemma const_roundtrip_lemma :
  (forall b, m_as_variant (m_boolean b) = VBoolean b /\ observe (m_boolean b) = observe_enum (VBoolean b) /\ m_boolean b < two64) /\
  (m_as_variant m_null = VNull /\ observe m_null = observe_enum VNull /\ m_null < two64) /\
  (m_as_variant m_undefined = VUndefined /\ observe m_undefined = observe_enum VUndefined /\ m_undefined < two64).
Proof.
  split; [intros [|]; vm_compute; auto|]. split; vm_compute; auto.
Qed.

(* ---- heap references *)

Lemma tag_pointer_ok p M : p < two48 -> M = hiof M * 2 ^ 48 ->
  tag_pointer p M = Some (hiof M * 2 ^ 48 + p).
Proof.
  intros Hp HM. unfold tag_pointer. cbv zeta.
  assert (HV : MASK_POINTER_VALUE = N.ones 48) by (vm_compute; reflexivity).
  rewrite HV, N.land_ones, N.mod_small by exact Hp.
  rewrite N.eqb_refl. cbn [negb]. f_equal. rewrite HM at 1. rewrite N.lor_comm. apply lor_hi_lo. exact Hp.
Qed.

Lemma tag_pointer_wide p M : two48 <= p -> tag_pointer p M = None.
Proof.
  intros Hp. unfold tag_pointer. cbv zeta.
  assert (HV : MASK_POINTER_VALUE = N.ones 48) by (vm_compute; reflexivity).
  rewrite HV, N.land_ones.
  destruct (N.eqb_spec (p mod 2 ^ 48) p) as [E|_]; [|reflexivity].
  exfalso. pose proof (N.mod_lt p (2 ^ 48)) as L. change (2 ^ 48) with 281474976710656 in *. unfold two48 in Hp. lia.
Qed.

Lemma untag_pointer_word hi p : p < two48 -> untag_pointer (hi * 2 ^ 48 + p) = p.
Proof.
  intros Hp. unfold untag_pointer.
  assert (HV : MASK_POINTER_VALUE = N.ones 48) by (vm_compute; reflexivity).
  rewrite HV. rewrite (land_lo_mask 48 hi p (N.ones 48) Hp) by (vm_compute; reflexivity).
  rewrite N.land_ones. apply N.mod_small. exact Hp.
Qed.

Section Pointer.
  Variable M : N.
  Variable idx : nat.                      (* position of the kind in kinds_hi *)
  Variable mkv : N -> variant.
  Hypothesis M_in : In M [MASK_OBJECT; MASK_STRING; MASK_SYMBOL; MASK_BIGINT].
  Hypothesis kinds_M : kinds_hi (hiof M) = map (Nat.eqb idx) [0; 1; 2; 3; 4; 5; 6; 7]%nat.
  Hypothesis idx_ge4 : (4 <= idx <= 7)%nat.
  Hypothesis variant_M : forall w,
    [m_is_object w; m_is_string w; m_is_symbol w; m_is_bigint w] = map (Nat.eqb idx) [4; 5; 6; 7]%nat ->
    m_as_variant w = mkv (untag_pointer w) /\
    (m_is_integer32 w = false -> m_is_bool w = false -> m_is_null_or_undefined w = false -> m_is_float64 w = false ->
     observe w = observe_enum (mkv (untag_pointer w))).

  Lemma pointer_roundtrip_generic p : 0 < p < two48 ->
    exists w, tag_pointer p M = Some w /\ w < two64 /\ m_as_variant w = mkv p /\ observe w = observe_enum (mkv p).
  Proof.
    intros [_ Hp].
    assert (HM : M = hiof M * 2 ^ 48).
    { apply mask_in_list. simpl in M_in. simpl. tauto. }
    exists (hiof M * 2 ^ 48 + p). split; [apply tag_pointer_ok; assumption|].
    assert (Hhi : hiof M < 65536).
    { simpl in M_in. destruct M_in as [<-|[<-|[<-|[<-|[]]]]]; vm_compute; reflexivity. }
    split. { unfold two64, two48 in *. change (2 ^ 48) with 281474976710656. lia. }
    pose proof (kinds_word (hiof M) p Hp) as K. rewrite kinds_M in K.
    set (w := hiof M * 2 ^ 48 + p) in *.
    injection K as Kf Ki Kb Kot Kob Kst Ksy Kbi.
    assert (Hu : untag_pointer w = p) by (apply untag_pointer_word; exact Hp).
    destruct (variant_M w) as [V O].
    { rewrite Kob, Kst, Ksy, Kbi. reflexivity. }
    rewrite Hu in V, O. split; [exact V|].
    apply O.
    - rewrite Ki. destruct idx as [|[|[|[|[|[|[|[|]]]]]]]]; try reflexivity; lia.
    - rewrite Kb. destruct idx as [|[|[|[|[|[|[|[|]]]]]]]]; try reflexivity; lia.
    - rewrite Kot. destruct idx as [|[|[|[|[|[|[|[|]]]]]]]]; try reflexivity; lia.
    - rewrite Kf. destruct idx as [|[|[|[|[|[|[|[|]]]]]]]]; try reflexivity; lia.
  Qed.
End Pointer.

(* shared tail: with the four pointer tests known and the other kind tests false, the cascade and
   every accessor are determined *)
Lemma pointer_variant_M (idx : nat) (mkv : N -> variant) (ty : jstype) :
  (idx = 4%nat /\ mkv = VObject) \/ (idx = 5%nat /\ mkv = VString) \/
  (idx = 6%nat /\ mkv = VSymbol) \/ (idx = 7%nat /\ mkv = VBigInt) ->
  forall w,
    [m_is_object w; m_is_string w; m_is_symbol w; m_is_bigint w] = map (Nat.eqb idx) [4; 5; 6; 7]%nat ->
    m_as_variant w = mkv (untag_pointer w) /\
    (m_is_integer32 w = false -> m_is_bool w = false -> m_is_null_or_undefined w = false -> m_is_float64 w = false ->
     observe w = observe_enum (mkv (untag_pointer w))).
Proof.
  intros Hc w K. injection K as Kob Kst Ksy Kbi.
  assert (Hgen : forall (Ki : m_is_integer32 w = false) (Kb : m_is_bool w = false)
                        (Kot : m_is_null_or_undefined w = false),
            m_is_undefined w = false /\ m_is_null w = false /\ m_as_bool w = None).
  { intros Ki Kb Kot. unfold m_is_null_or_undefined in Kot. unfold m_is_bool, is_bool in Kb.
    split; [|split].
    - unfold m_is_undefined. apply N.eqb_neq. intro E. apply N.eqb_neq in Kot. apply Kot. rewrite E. vm_compute. reflexivity.
    - unfold m_is_null. apply N.eqb_neq. intro E. apply N.eqb_neq in Kot. apply Kot. rewrite E. vm_compute. reflexivity.
    - unfold m_as_bool. cbv zeta.
      destruct (N.eqb_spec w VALUE_FALSE) as [E|_].
      { exfalso. apply N.eqb_neq in Kb. apply Kb. rewrite E. vm_compute. reflexivity. }
      destruct (N.eqb_spec w VALUE_TRUE) as [E|_]; [|reflexivity].
      exfalso. apply N.eqb_neq in Kb. apply Kb. rewrite E. vm_compute. reflexivity. }
  unfold m_is_object, is_object in Kob. unfold m_is_string, is_string in Kst.
  unfold m_is_symbol, is_symbol in Ksy. unfold m_is_bigint, is_bigint in Kbi.
  destruct Hc as [[-> ->]|[[-> ->]|[[-> ->]|[-> ->]]]]; simpl in Kob, Kst, Ksy, Kbi.
  all: split; [unfold m_as_variant; cbv zeta; rewrite ?Kob, ?Kst, ?Ksy, ?Kbi; reflexivity|].
  all: intros Ki Kb Kot Kf; destruct (Hgen Ki Kb Kot) as (Hnu & Hnn & Hab);
       unfold observe, observe_enum; unfold m_as_integer32, m_as_float64, m_get_type; cbv zeta;
       rewrite Hnu, Hnn, Hab, Ki, Kb, Kot, Kf;
       unfold m_is_integer32, is_integer32, m_is_bool, is_bool, m_is_null_or_undefined in Ki, Kb, Kot;
       unfold m_is_object, is_object, m_is_string, is_string, m_is_symbol, is_symbol, m_is_bigint, is_bigint;
       rewrite ?Kob, ?Kst, ?Ksy, ?Kbi, ?Kb, ?Kot; reflexivity.
Qed.

Lemma pointer_roundtrip_lemma p : 0 < p < two48 ->
  (exists w, m_object p = Some w /\ w < two64 /\ m_as_variant w = VObject p /\ observe w = observe_enum (VObject p)) /\
  (exists w, m_string p = Some w /\ w < two64 /\ m_as_variant w = VString p /\ observe w = observe_enum (VString p)) /\
  (exists w, m_symbol p = Some w /\ w < two64 /\ m_as_variant w = VSymbol p /\ observe w = observe_enum (VSymbol p)) /\
  (exists w, m_bigint p = Some w /\ w < two64 /\ m_as_variant w = VBigInt p /\ observe w = observe_enum (VBigInt p)).
Proof.
  intros Hp. unfold m_object, m_string, m_symbol, m_bigint.
  split; [|split; [|split]].
  - apply (pointer_roundtrip_generic MASK_OBJECT 4 VObject); [simpl; tauto|vm_compute; reflexivity|lia| |exact Hp].
    apply (pointer_variant_M 4 VObject TObject). tauto.
  - apply (pointer_roundtrip_generic MASK_STRING 5 VString); [simpl; tauto|vm_compute; reflexivity|lia| |exact Hp].
    apply (pointer_variant_M 5 VString TString). tauto.
  - apply (pointer_roundtrip_generic MASK_SYMBOL 6 VSymbol); [simpl; tauto|vm_compute; reflexivity|lia| |exact Hp].
    apply (pointer_variant_M 6 VSymbol TSymbol). tauto.
  - apply (pointer_roundtrip_generic MASK_BIGINT 7 VBigInt); [simpl; tauto|vm_compute; reflexivity|lia| |exact Hp].
    apply (pointer_variant_M 7 VBigInt TBigInt). tauto.
Qed.

(* ---- the refinement statement *)

Lemma refines_lemma v : wf v ->
  exists w, box v = Some w /\ w < two64 /\ m_as_variant w = canon v /\ observe w = observe_enum (canon v).
Proof.
  destruct const_roundtrip_lemma as (Hb & (Hn1 & Hn2 & Hn3) & (Hu1 & Hu2 & Hu3)).
  destruct v as [| |b|i|b|p|p|p|p]; cbn [box canon wf]; intros Hwf.
  - exists m_undefined. auto.
  - exists m_null. auto.
  - exists (m_boolean b). destruct (Hb b) as (A & B & C). auto.
  - exists (m_integer32 i). destruct (i32_roundtrip_lemma i Hwf) as (A & B & C). auto.
  - exists (m_float64 b). destruct (f64_roundtrip_lemma b Hwf) as (A & B & C). auto.
  - destruct (pointer_roundtrip_lemma p Hwf) as (_ & _ & _ & H). exact H.
  - destruct (pointer_roundtrip_lemma p Hwf) as (H & _). exact H.
  - destruct (pointer_roundtrip_lemma p Hwf) as (_ & _ & H & _). exact H.
  - destruct (pointer_roundtrip_lemma p Hwf) as (_ & H & _). exact H.
Qed.

(* a word that satisfies no kind test reads back as the number NaN *)
Lemma unclassified_is_nan_lemma w : w < two64 -> kinds_holding w = 0%nat ->
  m_as_variant w = VFloat64 w /\ f64_is_nan w = true /\ m_get_type w = TNumber.
Proof.
  intros Hw Hk. destruct (word_split w Hw) as (hi & lo & -> & Hlo & Hhi).
  unfold kinds_holding in Hk. pose proof (kinds_word hi lo Hlo) as K. rewrite K in Hk.
  pose proof (float_spec hi Hhi) as H. unfold float_f in H. cbv zeta in H. fold (tagged_hi hi) in H.
  apply andb_prop in H. destruct H as [_ H3].
  fold (count_true (kinds_hi hi)) in Hk. rewrite Hk in H3. simpl in H3.
  assert (Hnan : f64_is_nan (hi * 2 ^ 48 + lo) = true).
  { rewrite (f64_is_nan_hl hi lo Hlo Hhi). apply nan_hl_mono. exact H3. }
  set (w := hi * 2 ^ 48 + lo) in *.
  remember (kinds_hi hi) as l eqn:El.
  destruct l as [|f [|i [|bo [|ot [|ob [|st [|sy [|bi [|]]]]]]]]]; try discriminate K.
  injection K as Kf Ki Kb Kot Kob Kst Ksy Kbi.
  unfold count_true in Hk. simpl in Hk.
  destruct f; [discriminate|]. destruct i; [discriminate|]. destruct bo; [discriminate|].
  destruct ot; [discriminate|]. destruct ob; [discriminate|]. destruct st; [discriminate|].
  destruct sy; [discriminate|]. destruct bi; [discriminate|].
  unfold m_is_integer32, is_integer32 in Ki. unfold m_is_bool, is_bool in Kb.
  unfold m_is_null_or_undefined in Kot. unfold m_is_object, is_object in Kob.
  unfold m_is_string, is_string in Kst. unfold m_is_symbol, is_symbol in Ksy. unfold m_is_bigint, is_bigint in Kbi.
  split; [|split; [exact Hnan|]].
  - unfold m_as_variant. cbv zeta. rewrite Kob, Kst, Ksy, Kbi, Ki, Kb, Kot. reflexivity.
  - unfold m_get_type. cbv zeta. rewrite Kob, Kst, Ksy, Kbi, Kb, Kot. reflexivity.
Qed.

(* distinct abstract values get distinct words (modulo NaN canonicalisation): unambiguous *)
Lemma box_injective_lemma v1 v2 w : wf v1 -> wf v2 -> box v1 = Some w -> box v2 = Some w -> canon v1 = canon v2.
Proof.
  intros W1 W2 B1 B2.
  destruct (refines_lemma v1 W1) as (w1 & E1 & _ & A1 & _).
  destruct (refines_lemma v2 W2) as (w2 & E2 & _ & A2 & _).
  rewrite B1 in E1. rewrite B2 in E2. injection E1 as <-. injection E2 as <-.
  rewrite <- A1, <- A2. reflexivity.
Qed.
