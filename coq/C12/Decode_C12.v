(* C12, decode side: on EVERY 64-bit word (boxed by a constructor or not) the kind predicates, get_type and
   as_variant of the generated code classify consistently: the variant read back has exactly the kind whose
   predicate holds, and get_type is the type of that variant.  Every test reads the word only through
   `land w MASK_KIND`, so the proof is a case split on that one value. *)
From Coq Require Import NArith ZArith Bool List Lia.
From Common Require Import Bits.
From C12 Require Import Variant Model_C12.
From Gen Require Import NanBits.
Local Open Scope N_scope.

Definition type_of_variant (v : variant) : jstype :=
  match v with
  | VUndefined => TUndefined | VNull => TNull | VBoolean _ => TBoolean
  | VInteger32 _ | VFloat64 _ => TNumber | VBigInt _ => TBigInt | VObject _ => TObject
  | VSymbol _ => TSymbol | VString _ => TString
  end.

Definition kind_of_variant (v : variant) : nat :=
  match v with
  | VUndefined => 0 | VNull => 1 | VBoolean _ => 2 | VInteger32 _ => 3 | VFloat64 _ => 4
  | VBigInt _ => 5 | VObject _ => 6 | VSymbol _ => 7 | VString _ => 8
  end%nat.

(* the kind-level observation of a word, computed from the predicates only *)
Record kobs := { k_nullish : bool; k_bool : bool; k_int : bool; k_bigint : bool; k_object : bool;
                 k_symbol : bool; k_string : bool }.
Definition kobs_word (w : N) : kobs :=
  {| k_nullish := m_is_null_or_undefined w; k_bool := m_is_bool w; k_int := m_is_integer32 w;
     k_bigint := m_is_bigint w; k_object := m_is_object w; k_symbol := m_is_symbol w; k_string := m_is_string w |}.
Definition kobs_variant (v : variant) : kobs :=
  let k := kind_of_variant v in
  {| k_nullish := Nat.leb k 1; k_bool := Nat.eqb k 2; k_int := Nat.eqb k 3; k_bigint := Nat.eqb k 5;
     k_object := Nat.eqb k 6; k_symbol := Nat.eqb k 7; k_string := Nat.eqb k 8 |}.

Lemma nan_in_kind w : N.land w MASK_NAN = N.land (N.land w MASK_KIND) MASK_NAN.
Proof. rewrite <- N.land_assoc. f_equal. Qed.

Lemma decode_consistent_lemma : forall w,
  kobs_word w = kobs_variant (m_as_variant w) /\
  m_get_type w = type_of_variant (m_as_variant w) /\
  (m_is_float64 w = true -> m_as_variant w = VFloat64 w) /\
  (m_is_undefined w = true -> m_as_variant w = VUndefined) /\
  (m_is_null w = true -> m_as_variant w = VNull) /\
  (forall b, m_as_bool w = Some b -> m_as_variant w = VBoolean b).
Proof.
  intros w.
  assert (Hu : m_is_undefined w = true -> w = VALUE_UNDEFINED) by (unfold m_is_undefined; apply N.eqb_eq).
  assert (Hn : m_is_null w = true -> w = VALUE_NULL) by (unfold m_is_null; apply N.eqb_eq).
  assert (Hb : forall b, m_as_bool w = Some b -> w = (if b then VALUE_TRUE else VALUE_FALSE)).
  { intros b. unfold m_as_bool. destruct (N.eqb_spec w VALUE_FALSE) as [->|_]; [intros [= <-]; reflexivity|].
    destruct (N.eqb_spec w VALUE_TRUE) as [->|_]; [intros [= <-]; reflexivity|discriminate]. }
  split; [|split; [|split; [|split; [|split]]]].
  - unfold kobs_word, kobs_variant, m_as_variant, m_is_null_or_undefined, m_is_bool, m_is_integer32, m_is_bigint,
      m_is_object, m_is_symbol, m_is_string, is_bool, is_integer32, is_bigint, is_object, is_symbol, is_string.
    cbv zeta. set (k := N.land w MASK_KIND). clearbody k.
    destruct (N.eqb_spec k MASK_OBJECT) as [->|E1]; [reflexivity|].
    destruct (N.eqb_spec k MASK_STRING) as [->|E2]; [reflexivity|].
    destruct (N.eqb_spec k MASK_SYMBOL) as [->|E3]; [reflexivity|].
    destruct (N.eqb_spec k MASK_BIGINT) as [->|E4]; [reflexivity|].
    destruct (N.eqb_spec k MASK_INT32) as [->|E5]; [reflexivity|].
    destruct (N.eqb_spec k MASK_BOOLEAN) as [->|E6]; [reflexivity|].
    destruct (N.eqb_spec k MASK_OTHER) as [->|E7].
    + destruct (N.eqb w VALUE_NULL); reflexivity.
    + reflexivity.
  - unfold m_get_type, m_as_variant. cbv zeta. set (k := N.land w MASK_KIND). clearbody k.
    destruct (N.eqb_spec k MASK_OBJECT) as [->|E1]; [reflexivity|].
    destruct (N.eqb_spec k MASK_STRING) as [->|E2]; [reflexivity|].
    destruct (N.eqb_spec k MASK_SYMBOL) as [->|E3]; [reflexivity|].
    destruct (N.eqb_spec k MASK_BIGINT) as [->|E4]; [reflexivity|].
    destruct (N.eqb_spec k MASK_BOOLEAN) as [->|E6]; [reflexivity|].
    destruct (N.eqb_spec k MASK_INT32) as [->|E5]; [reflexivity|].
    destruct (N.eqb_spec k MASK_OTHER) as [->|E7].
    + destruct (N.eqb w VALUE_NULL); reflexivity.
    + reflexivity.
  - unfold m_is_float64, is_float, m_as_variant. rewrite (nan_in_kind w). cbv zeta. set (k := N.land w MASK_KIND). clearbody k.
    intros Hf.
    destruct (N.eqb_spec k MASK_OBJECT) as [->|E1]; [vm_compute in Hf; discriminate|].
    destruct (N.eqb_spec k MASK_STRING) as [->|E2]; [vm_compute in Hf; discriminate|].
    destruct (N.eqb_spec k MASK_SYMBOL) as [->|E3]; [vm_compute in Hf; discriminate|].
    destruct (N.eqb_spec k MASK_BIGINT) as [->|E4]; [vm_compute in Hf; discriminate|].
    destruct (N.eqb_spec k MASK_INT32) as [->|E5]; [vm_compute in Hf; discriminate|].
    destruct (N.eqb_spec k MASK_BOOLEAN) as [->|E6]; [vm_compute in Hf; discriminate|].
    destruct (N.eqb_spec k MASK_OTHER) as [->|E7]; [vm_compute in Hf; discriminate|].
    reflexivity.
  - intros H. rewrite (Hu H). vm_compute. reflexivity.
  - intros H. rewrite (Hn H). vm_compute. reflexivity.
  - intros b H. rewrite (Hb b H). destruct b; vm_compute; reflexivity.
Qed.

(* non-vacuity / sanity: an unreachable junk word (boolean kind, payload 6) still decodes consistently,
   while the exact-value accessor refuses it *)
Example junk_bool_word :
  let w := N.lor MASK_BOOLEAN 6 in
  m_as_variant w = VBoolean false /\ m_is_bool w = true /\ m_as_bool w = None.
Proof. vm_compute. repeat split. Qed.
