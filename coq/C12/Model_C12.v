(* C12 model: the abstract (enum) value, its boxing through the *generated* NaN-box functions, and
   the observation tuple (every type predicate and accessor of the generated code). Definitions only. *)
From Coq Require Import NArith ZArith Bool List.
From Common Require Import Bits.
From C12 Require Import Variant.
From Gen Require Import NanBits.
Import ListNotations.
Local Open Scope N_scope.

Definition CANON_NAN : N := 9221120237041090560.   (* f64::NAN.to_bits() = 0x7FF8_0000_0000_0000 *)

(* what the enum representation stores, canonicalising only NaN (the NaN-box constructor does) *)
Definition canon (v : variant) : variant :=
  match v with
  | VFloat64 b => VFloat64 (if f64_is_nan b then CANON_NAN else b)
  | _ => v
  end.

(* well-formed abstract values: the ranges of the Rust types *)
Definition wf (v : variant) : Prop :=
  match v with
  | VInteger32 i => in_i32 i
  | VFloat64 b => b < two64
  | VBigInt p | VObject p | VSymbol p | VString p => 0 < p < two48
  | _ => True
  end.

(* JsValue::new through the generated constructors *)
Definition box (v : variant) : option N :=
  match v with
  | VUndefined => Some m_undefined
  | VNull => Some m_null
  | VBoolean b => Some (m_boolean b)
  | VInteger32 i => Some (m_integer32 i)
  | VFloat64 b => Some (m_float64 b)
  | VBigInt p => m_bigint p
  | VObject p => m_object p
  | VSymbol p => m_symbol p
  | VString p => m_string p
  end.

(* every generated predicate / accessor, as one observation *)
Record obs := {
  o_undefined : bool; o_null : bool; o_null_or_undefined : bool; o_bool : bool; o_int : bool;
  o_float : bool; o_bigint : bool; o_object : bool; o_symbol : bool; o_string : bool;
  o_as_bool : option bool; o_as_int : option Z; o_as_float : option N; o_type : jstype }.

Definition observe (w : N) : obs :=
  {| o_undefined := m_is_undefined w; o_null := m_is_null w; o_null_or_undefined := m_is_null_or_undefined w;
     o_bool := m_is_bool w; o_int := m_is_integer32 w; o_float := m_is_float64 w; o_bigint := m_is_bigint w;
     o_object := m_is_object w; o_symbol := m_is_symbol w; o_string := m_is_string w;
     o_as_bool := m_as_bool w; o_as_int := m_as_integer32 w; o_as_float := m_as_float64 w;
     o_type := m_get_type w |}.

(* the same observation on the enum representation *)
Definition observe_enum (v : variant) : obs :=
  let is f := match v with VUndefined => f 0%nat | VNull => f 1%nat | VBoolean _ => f 2%nat | VInteger32 _ => f 3%nat
                         | VFloat64 _ => f 4%nat | VBigInt _ => f 5%nat | VObject _ => f 6%nat | VSymbol _ => f 7%nat
                         | VString _ => f 8%nat end in
  {| o_undefined := is (Nat.eqb 0); o_null := is (Nat.eqb 1);
     o_null_or_undefined := is (fun k => Nat.leb k 1); o_bool := is (Nat.eqb 2); o_int := is (Nat.eqb 3);
     o_float := is (Nat.eqb 4); o_bigint := is (Nat.eqb 5); o_object := is (Nat.eqb 6); o_symbol := is (Nat.eqb 7);
     o_string := is (Nat.eqb 8);
     o_as_bool := match v with VBoolean b => Some b | _ => None end;
     o_as_int := match v with VInteger32 i => Some i | _ => None end;
     o_as_float := match v with VFloat64 b => Some b | _ => None end;
     o_type := match v with VUndefined => TUndefined | VNull => TNull | VBoolean _ => TBoolean
                       | VInteger32 _ | VFloat64 _ => TNumber | VBigInt _ => TBigInt | VObject _ => TObject
                       | VSymbol _ => TSymbol | VString _ => TString end |}.

(* how many of the eight kind predicates hold of an arbitrary word *)
Definition kinds_holding (w : N) : nat :=
  length (filter (fun b : bool => b)
    [m_is_float64 w; m_is_integer32 w; m_is_bool w; m_is_null_or_undefined w;
     m_is_object w; m_is_string w; m_is_symbol w; m_is_bigint w]).
