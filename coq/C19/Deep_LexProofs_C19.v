(* C19 deepening, part 2: lexing a layout of printable tokens gives the tokens back. *)
From Coq Require Import List String Ascii NArith Bool Arith Lia DecimalString DecimalN DecimalPos Decimal.
From C19 Require Import Model_C19 Deep_Lex_C19.
Import ListNotations.

(* ------------------------------------------------------------------ lists of characters *)

Lemma prefix_refl s r : prefix s (s ++ r) = true.
Proof. induction s; cbn; auto. rewrite Ascii.eqb_refl. auto. Qed.

Lemma prefix_same_len e s r : List.length e = List.length s -> prefix e (s ++ r) = prefix e s.
Proof.
  revert s; induction e as [|a e IH]; intros [|b s] H; cbn in *; try lia; auto.
  rewrite IH by lia. reflexivity.
Qed.

(* an entry longer than s that is a prefix of s ++ R extends s by the first character of R *)
Lemma prefix_longer e s r : List.length s < List.length e -> prefix e (s ++ r) = true ->
  exists c r', r = c :: r' /\ prefix (s ++ [c]) e = true.
Proof.
  revert e; induction s as [|b s IH]; intros e Hl Hp.
  - destruct e as [|a e]; [cbn in Hl; lia|]. destruct r as [|c r']; [discriminate|].
    cbn in Hp. apply andb_true_iff in Hp as [H1 _]. apply Ascii.eqb_eq in H1; subst. exists c, r'. split; auto. cbn. rewrite Ascii.eqb_refl. reflexivity.
  - destruct e as [|a e]; [cbn in Hl; lia|]. cbn in Hp. apply andb_true_iff in Hp as [H1 H2].
    apply Ascii.eqb_eq in H1; subst.
    destruct (IH e ltac:(cbn in Hl; lia) H2) as (c & r' & -> & Hc). exists c, r'. split; auto. cbn. rewrite Ascii.eqb_refl, Hc. reflexivity.
Qed.

Lemma skipn_app_len {A} (s r : list A) : skipn (List.length s) (s ++ r) = r.
Proof. induction s; cbn; auto. Qed.

Lemma span_all f w r : forallb f w = true -> (match r with c :: _ => f c = false | [] => True end) -> span f (w ++ r) = (w, r).
Proof.
  induction w as [|a w IH]; intros Hw Hr; cbn in *.
  - destruct r as [|c r']; auto. cbn. rewrite Hr. reflexivity.
  - apply andb_true_iff in Hw as [Ha Hw]. rewrite Ha, (IH Hw Hr). reflexivity.
Qed.

Lemma skip_ws_app w r : all_ws w = true -> skip_ws (w ++ r) = skip_ws r.
Proof. induction w as [|a w IH]; cbn; auto. intros H. apply andb_true_iff in H as [Ha Hw]. rewrite Ha. auto. Qed.

Lemma skip_ws_nonws c r : is_ws c = false -> skip_ws (c :: r) = c :: r.
Proof. intros H. cbn. rewrite H. reflexivity. Qed.

Lemma skip_ws_all w : all_ws w = true -> skip_ws w = [].
Proof. induction w as [|a w IH]; cbn; auto. intros H. apply andb_true_iff in H as [Ha Hw]. rewrite Ha. auto. Qed.

Lemma is_ws_cases c : is_ws c = true ->
  c = " "%char \/ c = ascii_of_nat 9 \/ c = ascii_of_nat 10 \/ c = ascii_of_nat 13.
Proof.
  unfold is_ws. intros H. rewrite <- (ascii_nat_embedding c).
  repeat (apply orb_true_iff in H as [H|H]); apply Nat.eqb_eq in H; rewrite H; auto.
Qed.

(* ------------------------------------------------------------------ punctuators: maximal munch *)

Lemma find_ext {A} (f g : A -> bool) l : (forall x, List.In x l -> f x = g x) -> find f l = find g l.
Proof. induction l as [|a l IH]; intros H; cbn; auto. rewrite (H a (or_introl eq_refl)). destruct (g a); auto. apply IH. intros; apply H; right; auto. Qed.

Lemma find_none {A} (f : A -> bool) l : (forall x, List.In x l -> f x = false) -> find f l = None.
Proof. induction l as [|a l IH]; intros H; cbn; auto. rewrite (H a (or_introl eq_refl)). apply IH. intros; apply H; right; auto. Qed.

Lemma find_len_gt s r j : List.length s < j ->
  (match r with c :: _ => extends s c = false | [] => True end) -> find_len j (s ++ r) = None.
Proof.
  intros Hj Hx. unfold find_len. apply find_none. intros e He.
  unfold entries_of_len in He. apply filter_In in He as [Hin Hl]. cbn beta in Hl. apply Nat.eqb_eq in Hl.
  destruct (prefix (fst e) (s ++ r)) eqn:Hp; auto.
  assert (Hlt : List.length s < List.length (fst e)) by (unfold text in *; lia).
  destruct (prefix_longer (fst e) s r Hlt Hp) as (c & r' & -> & Hc).
  unfold extends in Hx. assert (existsb (fun e0 => prefix (s ++ [c]) (fst e0)) table = true).
  { apply existsb_exists. exists e. auto. }
  congruence.
Qed.

Lemma find_len_eq s r : find_len (List.length s) (s ++ r) = find (fun e => prefix (fst e) s) (entries_of_len (List.length s)).
Proof.
  unfold find_len. apply find_ext. intros e He. unfold entries_of_len in He. apply filter_In in He as [_ Hl].
  cbn beta in Hl. apply Nat.eqb_eq in Hl. apply prefix_same_len; auto.
Qed.

(* closed facts about the table, by computation *)
Lemma table_self p : real_punct p = true ->
  find (fun e => prefix (fst e) (T (punct_text p))) (entries_of_len (List.length (T (punct_text p)))) = Some (T (punct_text p), Some p).
Proof. destruct p; try destruct o; intros H; try discriminate H; vm_compute; reflexivity. Qed.

Lemma punct_len p : real_punct p = true -> 1 <= List.length (T (punct_text p)) <= 4.
Proof. destruct p; try destruct o; intros H; try discriminate H; vm_compute; lia. Qed.

Lemma lex_punct_ok p r : real_punct p = true ->
  (match r with c :: _ => extends (T (punct_text p)) c = false | [] => True end) ->
  lex_punct (T (punct_text p) ++ r) = Some (p, r).
Proof.
  intros Hp Hx. pose proof (punct_len p Hp) as Hl. pose proof (table_self p Hp) as Hs.
  set (s := T (punct_text p)) in *. unfold lex_punct.
  assert (E : forall j, j = List.length s -> find_len j (s ++ r) = Some (s, Some p)).
  { intros j ->. rewrite find_len_eq. exact Hs. }
  assert (G : forall j, List.length s < j -> find_len j (s ++ r) = None) by (intros; apply find_len_gt; auto).
  destruct (List.length s) as [|[|[|[|[|k]]]]] eqn:Ek; try lia.
  - rewrite (G 4), (G 3), (G 2) by lia. rewrite (E 1) by reflexivity. cbv beta iota. rewrite skipn_app_len. reflexivity.
  - rewrite (G 4), (G 3) by lia. rewrite (E 2) by reflexivity. cbv beta iota. rewrite skipn_app_len. reflexivity.
  - rewrite (G 4) by lia. rewrite (E 3) by reflexivity. cbv beta iota. rewrite skipn_app_len. reflexivity.
  - rewrite (E 4) by reflexivity. cbv beta iota. rewrite skipn_app_len. reflexivity.
Qed.

(* the first character of a punctuator is not a word / number / string start *)
Lemma punct_first p : real_punct p = true -> exists c tl, T (punct_text p) = c :: tl /\
  is_id_start c = false /\ is_digit c = false /\ Ascii.eqb c quote = false /\ is_ws c = false /\
  (Ascii.eqb c "."%char = true -> p = PDot \/ exists c2 tl2, tl = c2 :: tl2 /\ is_digit c2 = false).
Proof.
  destruct p; try destruct o; intros H; try discriminate H; eexists; eexists; (split; [reflexivity|]);
    repeat split; try reflexivity; intros E; try discriminate E; auto.
  right. eexists; eexists; split; reflexivity.
Qed.

(* ------------------------------------------------------------------ strings *)

Lemma lex_string_escape s r : lex_string (escape s ++ quote :: r) = Some (s, r).
Proof.
  induction s as [|c s IH]; cbn [escape app lex_string].
  - reflexivity.
  - destruct (Ascii.eqb c quote) eqn:E1.
    { apply Ascii.eqb_eq in E1; subst. rewrite <- app_assoc. cbn [app lex_string]. cbn. rewrite IH. reflexivity. }
    destruct (Ascii.eqb c bslash) eqn:E2.
    { apply Ascii.eqb_eq in E2; subst. rewrite <- app_assoc. cbn [app lex_string]. cbn. rewrite IH. reflexivity. }
    destruct (Ascii.eqb c lf) eqn:E3.
    { apply Ascii.eqb_eq in E3; subst. rewrite <- app_assoc. cbn [app lex_string]. cbn. rewrite IH. reflexivity. }
    destruct (Ascii.eqb c cr) eqn:E4.
    { apply Ascii.eqb_eq in E4; subst. rewrite <- app_assoc. cbn [app lex_string]. cbn. rewrite IH. reflexivity. }
    rewrite <- app_assoc. change ([c] ++ escape s ++ quote :: r) with (c :: escape s ++ quote :: r).
    cbn [lex_string]. rewrite E1, E2, E3, E4. cbn [orb]. rewrite IH. reflexivity.
Qed.

(* ------------------------------------------------------------------ numbers *)

Lemma uint_digits (d : uint) : forallb is_digit (T (NilEmpty.string_of_uint d)) = true.
Proof. induction d; cbn; auto. Qed.

Lemma num_text_digits n : forallb is_digit (num_text n) = true /\ num_text n <> [].
Proof.
  unfold num_text, NilZero.string_of_uint. destruct (N.to_uint n) eqn:E; try (split; [apply (uint_digits (_ _))|cbn; discriminate]).
  split; [reflexivity|cbn; discriminate].
Qed.

Lemma num_roundtrip n : NilZero.uint_of_string (string_of_list_ascii (num_text n)) = Some (N.to_uint n).
Proof.
  unfold num_text, T. rewrite string_of_list_ascii_of_string. apply NilZero.usu.
  destruct n; cbn; [discriminate|apply Unsigned.to_uint_nonnil].
Qed.

(* ------------------------------------------------------------------ one token *)

Definition follow_ok (t : token) (r : text) : Prop := match r with c :: _ => glues t c = false | [] => True end.

Lemma keyword_word k : exists c tl, T (keyword_text k) = c :: tl /\ is_id_start c = true /\
  forallb is_id_part (T (keyword_text k)) = true /\ classify (keyword_text k) = TK k.
Proof. destruct k; eexists; eexists; repeat split; reflexivity. Qed.

Lemma lex_word w r t : (exists c tl, T w = c :: tl /\ is_id_start c = true) -> forallb is_id_part (T w) = true ->
  classify w = t -> (match r with c :: _ => is_id_part c = false | [] => True end) ->
  lex_one (T w ++ r) = Some (t, r).
Proof.
  intros (c & tl & E & Hc) Hall Hcl Hr. unfold lex_one.
  rewrite E. change ((c :: tl) ++ r) with (c :: (tl ++ r)). cbv beta iota. rewrite Hc. rewrite app_comm_cons, <- E.
  rewrite (span_all is_id_part (T w) r Hall Hr). unfold T. rewrite string_of_list_ascii_of_string. rewrite Hcl. reflexivity.
Qed.

Lemma lex_one_ok t r : printable t -> follow_ok t r -> lex_one (tok_text t ++ r) = Some (t, r).
Proof.
  intros Hp Hf. destruct t as [p|k|s|n|s|b| |s]; cbn [tok_text printable] in *.
  - (* punctuator *)
    destruct (punct_first p Hp) as (c & tl & E & H1 & H2 & H3 & _ & Hdot).
    assert (Hx : match r with c0 :: _ => extends (T (punct_text p)) c0 = false | [] => True end).
    { destruct r as [|c0 r']; auto. cbn [follow_ok glues] in Hf. apply orb_false_iff in Hf as [Hf _]. exact Hf. }
    pose proof (lex_punct_ok p r Hp Hx) as Hl.
    unfold lex_one. rewrite E in *. change ((c :: tl) ++ r) with (c :: (tl ++ r)) in *. cbv beta iota. rewrite H1, H2, H3.
    assert (Hd : Ascii.eqb c "."%char && match tl ++ r with d :: _ => is_digit d | [] => false end = false).
    { destruct (Ascii.eqb c "."%char) eqn:Ec; auto. cbn [andb].
      destruct (Hdot eq_refl) as [->|(c2 & tl2 & -> & Hc2)].
      - assert (tl = []) by (cbn in E; inversion E; reflexivity). subst tl. cbn [app].
        destruct r as [|c0 r']; auto. cbn [follow_ok glues] in Hf. apply orb_false_iff in Hf as [_ Hf]. exact Hf.
      - cbn [app]. exact Hc2. }
    rewrite Hd. rewrite Hl. reflexivity.
  - (* keyword *)
    destruct (keyword_word k) as (c & tl & E & Hc & Hall & Hcl).
    apply lex_word; eauto.
  - (* identifier *)
    destruct Hp as (Hs & Hall & Hcl).
    apply lex_word; auto. destruct (T s) as [|c tl]; [contradiction|eauto].
  - (* number *)
    destruct (num_text_digits n) as [Hd Hne].
    destruct (num_text n) as [|c tl] eqn:E; [congruence|].
    assert (Hc : is_digit c = true) by (cbn in Hd; apply andb_true_iff in Hd as [? _]; auto).
    assert (Hs : is_id_start c = false).
    { unfold is_digit in Hc. unfold is_id_start. apply andb_true_iff in Hc as [A B]. apply Nat.leb_le in A. apply Nat.leb_le in B.
      repeat (apply orb_false_iff; split); try (apply andb_false_iff); try (apply Nat.eqb_neq; lia);
        [left; apply Nat.leb_gt; lia|left; apply Nat.leb_gt; lia]. }
    unfold lex_one. change ((c :: tl) ++ r) with (c :: (tl ++ r)). cbv beta iota. rewrite Hs, Hc. rewrite app_comm_cons, <- E.
    assert (Hr : match r with c0 :: _ => is_digit c0 = false | [] => True end).
    { destruct r as [|c0 r']; auto. cbn [follow_ok glues] in Hf. apply orb_false_iff in Hf as [Hf _].
      unfold is_id_part in Hf. apply orb_false_iff in Hf as [_ Hf]. exact Hf. }
    rewrite (span_all is_digit (num_text n) r (proj1 (num_text_digits n)) Hr).
    rewrite num_roundtrip. cbn [option_map]. rewrite DecimalN.Unsigned.of_to.
    destruct r as [|c0 r']; auto. cbn [follow_ok glues] in Hf. rewrite Hf. reflexivity.
  - (* string *)
    unfold lex_one. change ((quote :: escape (T s) ++ [quote]) ++ r) with (quote :: ((escape (T s) ++ [quote]) ++ r)).
    cbv beta iota. change (is_id_start quote) with false. change (is_digit quote) with false.
    cbv iota. rewrite Ascii.eqb_refl. rewrite <- app_assoc. change ([quote] ++ r) with (quote :: r). rewrite lex_string_escape.
    unfold T. rewrite string_of_list_ascii_of_string. reflexivity.
  - (* booleans *)
    destruct b; apply lex_word; auto; try reflexivity; try (eexists; eexists; split; reflexivity).
  - apply lex_word; auto; try reflexivity. eexists; eexists; split; reflexivity.
  - contradiction.
Qed.

(* ------------------------------------------------------------------ white space never glues *)

Lemma extends_ws p c : real_punct p = true -> is_ws c = true -> extends (T (punct_text p)) c = false.
Proof.
  intros Hp Hc. destruct (is_ws_cases c Hc) as [Hq|[Hq|[Hq|Hq]]]; subst c;
    destruct p; try destruct o; try discriminate Hp; vm_compute; reflexivity.
Qed.

Lemma glues_ws t c : printable t -> is_ws c = true -> glues t c = false.
Proof.
  intros Hp Hc.
  assert (Hid : is_id_part c = false) by (destruct (is_ws_cases c Hc) as [Hq|[Hq|[Hq|Hq]]]; subst c; reflexivity).
  assert (Hdg : is_digit c = false) by (destruct (is_ws_cases c Hc) as [Hq|[Hq|[Hq|Hq]]]; subst c; reflexivity).
  assert (Hdot : Ascii.eqb c "."%char = false) by (destruct (is_ws_cases c Hc) as [Hq|[Hq|[Hq|Hq]]]; subst c; reflexivity).
  destruct t; cbn [glues printable] in *; auto.
  - rewrite (extends_ws p c Hp Hc). destruct p; auto.
  - rewrite Hid, Hdot. reflexivity.
  - contradiction.
Qed.

Lemma tok_text_first t : printable t -> exists c tl, tok_text t = c :: tl /\ is_ws c = false.
Proof.
  intros Hp. destruct t as [p|k|s|n|s|b| |s]; cbn [tok_text printable] in *.
  - destruct (punct_first p Hp) as (c & tl & E & _ & _ & _ & Hw & _). eauto.
  - destruct k; eexists; eexists; split; reflexivity.
  - destruct Hp as (Hs & _ & _). destruct (T s) as [|c tl]; [contradiction|]. exists c, tl. split; auto.
    unfold is_id_start in Hs. unfold is_ws.
    repeat (apply orb_true_iff in Hs as [Hs|Hs]); repeat (apply orb_false_iff; split); apply Nat.eqb_neq;
      try (apply andb_true_iff in Hs as [A B]; apply Nat.leb_le in A; apply Nat.leb_le in B; lia);
      try (apply Nat.eqb_eq in Hs; lia).
  - destruct (num_text_digits n) as [Hd Hne]. destruct (num_text n) as [|c tl]; [congruence|]. exists c, tl. split; auto.
    cbn in Hd. apply andb_true_iff in Hd as [Hc _]. unfold is_digit in Hc. apply andb_true_iff in Hc as [A B].
    apply Nat.leb_le in A. apply Nat.leb_le in B. unfold is_ws. repeat (apply orb_false_iff; split); apply Nat.eqb_neq; lia.
  - eexists; eexists; split; reflexivity.
  - destruct b; eexists; eexists; split; reflexivity.
  - eexists; eexists; split; reflexivity.
  - contradiction.
Qed.

(* ------------------------------------------------------------------ layouts *)

Lemma render_ws_first l trail : Forall printable (map snd l) -> all_ws trail = true ->
  forall t, (match l with (w, t') :: _ => all_ws w = true /\ (needs_sep t t' = false \/ w <> []) | [] => True end) ->
  printable t -> follow_ok t (render_ws l trail).
Proof.
  intros Hl Ht t Hh Hp. destruct l as [|[w t'] r]; cbn [render_ws].
  - destruct trail as [|c tr]; cbn; auto. cbn in Ht. apply andb_true_iff in Ht as [Hc _]. apply glues_ws; auto.
  - destruct Hh as [Hw Hs]. destruct w as [|c w'].
    + cbn [app]. inversion Hl as [|? ? Hp' _]; subst. cbn [snd] in Hp'.
      destruct (tok_text_first t' Hp') as (c & tl & E & _). rewrite E. cbn [app follow_ok].
      destruct Hs as [Hs|Hs]; [|congruence]. unfold needs_sep in Hs. rewrite E in Hs. exact Hs.
    + cbn [app follow_ok]. cbn in Hw. apply andb_true_iff in Hw as [Hc _]. apply glues_ws; auto.
Qed.

Theorem lex_n_layout : forall l prev trail fuel,
  Forall printable (map snd l) -> good_layout prev l = true -> all_ws trail = true -> List.length l < fuel ->
  lex_n fuel (render_ws l trail) = Some (map snd l).
Proof.
  induction l as [|[w t] r IH]; intros prev trail fuel Hp Hg Ht Hf.
  - destruct fuel; [lia|]. cbn [render_ws lex_n map]. rewrite (skip_ws_all trail Ht). reflexivity.
  - destruct fuel; [cbn in Hf; lia|]. inversion Hp as [|? ? Hpt Hpr]; subst. cbn [snd] in Hpt.
    cbn [good_layout] in Hg. apply andb_true_iff in Hg as [Hg Hgr]. apply andb_true_iff in Hg as [Hw _].
    cbn [render_ws lex_n map snd].
    rewrite (skip_ws_app w _ Hw).
    destruct (tok_text_first t Hpt) as (c & tl & E & Hc).
    assert (Hsk : skip_ws (tok_text t ++ render_ws r trail) = tok_text t ++ render_ws r trail).
    { rewrite E. cbn [app]. apply skip_ws_nonws; auto. }
    rewrite Hsk.
    assert (Hfo : follow_ok t (render_ws r trail)).
    { apply render_ws_first; auto. destruct r as [|[w' t'] r']; auto.
      cbn [good_layout] in Hgr. apply andb_true_iff in Hgr as [Hgr _]. apply andb_true_iff in Hgr as [Hw' Hs].
      split; auto. apply orb_true_iff in Hs as [Hs|Hs].
      - left. apply negb_true_iff in Hs. exact Hs.
      - right. destruct w'; [discriminate|congruence]. }
    rewrite E. change ((c :: tl) ++ render_ws r trail) with (c :: (tl ++ render_ws r trail)). cbv beta iota.
    rewrite app_comm_cons, <- E. rewrite (lex_one_ok t _ Hpt Hfo).
    rewrite (IH (Some t) trail fuel Hpr Hgr Ht ltac:(cbn in Hf; lia)). reflexivity.
Qed.

Lemma render_ws_length l trail : Forall printable (map snd l) -> List.length l <= List.length (render_ws l trail).
Proof.
  induction l as [|[w t] r IH]; intros Hp; cbn [render_ws List.length]; [lia|].
  inversion Hp as [|? ? Hpt Hpr]; subst. destruct (tok_text_first t Hpt) as (c & tl & E & _).
  rewrite !app_length, E. cbn [List.length]. specialize (IH Hpr). lia.
Qed.

(* any layout of printable tokens that puts white space wherever two neighbours would glue lexes back to the tokens *)
Theorem lex_layout_thm : forall l trail, Forall printable (map snd l) -> good_layout None l = true -> all_ws trail = true ->
  lex (render_ws l trail) = Some (map snd l).
Proof.
  intros l trail Hp Hg Ht. unfold lex. apply (lex_n_layout l None); auto.
  pose proof (render_ws_length l trail Hp). lia.
Qed.

Lemma layout_min_snd prev ts : map snd (layout_min prev ts) = ts.
Proof. revert prev; induction ts as [|t r IH]; intros prev; cbn; auto. rewrite IH. reflexivity. Qed.

Lemma layout_min_good prev ts : good_layout prev (layout_min prev ts) = true.
Proof.
  revert prev; induction ts as [|t r IH]; intros prev; cbn [layout_min good_layout]; auto.
  rewrite IH, andb_true_r. destruct prev as [p|]; auto.
  destruct (needs_sep p t); reflexivity.
Qed.

Theorem lex_render_thm : forall ts, Forall printable ts -> lex (render ts) = Some ts.
Proof.
  intros ts Hp. unfold render.
  rewrite <- (layout_min_snd None ts) at 2. apply lex_layout_thm; auto.
  - rewrite layout_min_snd. exact Hp.
  - apply layout_min_good.
Qed.

(* the adjacency cases the spacing rules are about *)
Lemma needs_sep_examples :
  needs_sep (TNum 1) (TP PDot) = true /\ needs_sep (TP (POp Sub)) (TP (POp Sub)) = true /\
  needs_sep (TP (POp Sub)) (TP PDec) = true /\ needs_sep (TP (POp Add)) (TP (POp Add)) = true /\
  needs_sep (TP (POp Div)) (TP (POp Div)) = true /\ needs_sep (TP (POp Div)) (TP (POp Mul)) = true /\
  needs_sep (TK KTypeof) (TId "x") = true /\ needs_sep (TK KIn) (TNum 1) = true /\ needs_sep (TId "a") (TK KIn) = true /\
  needs_sep (TP PDot) (TP PDot) = true /\ needs_sep (TP PQuestion) (TP PDot) = true /\ needs_sep (TP PDot) (TNum 5) = true /\
  needs_sep (TP (POp Lt)) (TP PNot) = false /\ needs_sep (TId "a") (TP (POp Add)) = false /\ needs_sep (TP PCloseParen) (TId "a") = false.
Proof. vm_compute. repeat split. Qed.
