(* C19 proofs, part 5: the explicit-fuel corollaries. *)
From Coq Require Import List String NArith Bool Arith Lia.
From C19 Require Import Model_C19 Proofs_Base Proofs_Expr Proofs_Stmt Proofs_Main Fuel_C19 Proofs_Shape Proofs_Shape2.
Import ListNotations.
Local Open Scope string_scope.

Lemma parse_print_ev_lemma : forall prog, parser_shaped prog ->
  exists n0, forall n, n0 <= n -> parse_script n (print_tokens prog) = Ok prog [].
Proof. exact parse_print_ev. Qed.

Lemma parse_total_lemma : forall ts, parse_script (fuel_for ts) ts <> Fuel.
Proof. exact parse_script_total. Qed.

Lemma parse_mono_lemma : forall n m ts, n <= m -> parse_script n ts <> Fuel -> parse_script m ts = parse_script n ts.
Proof. exact parse_script_mono. Qed.

Lemma parse_print_lemma : forall ast, parser_shaped ast -> parse_tokens (print_tokens ast) = Some ast.
Proof.
  intros ast W. destruct (parse_print_ev ast W) as [n0 H].
  set (ts := print_tokens ast) in *.
  pose proof (parse_script_total ts) as Hnf.
  assert (Hm : parse_script (max n0 (fuel_for ts)) ts = parse_script (fuel_for ts) ts).
  { apply parse_script_mono; auto. lia. }
  rewrite H in Hm by lia.
  unfold parse_tokens. fold ts. rewrite <- Hm. reflexivity.
Qed.

Lemma print_parse_idempotent_lemma : forall ts a, parse_tokens ts = Some a -> parser_shaped a ->
  parse_tokens (print_tokens a) = Some a /\
  (forall a', parse_tokens (print_tokens a) = Some a' -> print_tokens a' = print_tokens a).
Proof.
  intros ts a _ W. pose proof (parse_print_lemma a W) as H. split; auto.
  intros a' H'. rewrite H in H'. inversion H'; subst. reflexivity.
Qed.

(* `({}.x) = 1;` *)
Definition refuting_tokens : list token :=
  [TP POpenParen; TP POpenBlock; TP PCloseBlock; TP PDot; TId "x"; TP PCloseParen; TP PAssign; TNum 1; TP PSemicolon].
Definition refuting_ast : list stmt := [SExpr (EAssign AAssign (EMember (EObject []) "x") (ENum 1))].

Lemma parse_shaped_refuted_lemma : exists ts a,
  parse_tokens ts = Some a /\ shaped_coreb a = true /\ parser_shapedb a = false /\ parse_tokens (print_tokens a) = None.
Proof. exists refuting_tokens, refuting_ast. repeat split; vm_compute; reflexivity. Qed.

Lemma parse_shaped_core_lemma : forall ts a, parse_tokens ts = Some a -> shaped_core a.
Proof. exact parse_shaped_core_thm. Qed.
