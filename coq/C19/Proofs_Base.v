(* C19 proofs, part 1: the "eventually" predicate over fuel, token facts, the first token of a printed
   expression, the stop condition of every precedence level, irrelevance of allow_in above the relational level. *)
From Coq Require Import List String NArith Bool Arith Lia.
From C19 Require Import Model_C19.
Import ListNotations.

(* ------------------------------------------------------------------ eventually (for all large enough fuel) *)

Definition ev {A} (f : parsers -> res A) (v : res A) : Prop :=
  exists n0, forall n, n0 <= n -> f (parsers_n n) = v.

Lemma ev_const {A} (v : res A) : ev (fun _ => v) v.
Proof. exists 0; auto. Qed.

Lemma ev_ext {A} (f g : parsers -> res A) v : (forall r, f r = g r) -> ev g v -> ev f v.
Proof. intros E [n0 H]; exists n0; intros; rewrite E; auto. Qed.

Lemma ev_bind {A B} (f : parsers -> res A) (k : parsers -> A -> list token -> res B) a ts v :
  ev f (Ok a ts) -> ev (fun r => k r a ts) v -> ev (fun r => bind (f r) (k r)) v.
Proof.
  intros [n1 H1] [n2 H2]; exists (max n1 n2); intros n Hn.
  rewrite H1 by lia. cbn [bind]. apply H2; lia.
Qed.

(* one more unit of fuel: field X of (parsers_n (S n)) is body X_f of (parsers_n n) *)
Ltac ev_shift H :=
  let n0 := fresh "n0" in let n := fresh "n" in let Hn := fresh "Hn" in
  destruct H as [n0 H]; exists (S n0); intros n Hn; destruct n as [|n]; [lia|];
  cbn [parsers_n step p_expr p_assign p_comma_loop p_sc p_sc_loop p_bin p_bin_loop p_exp p_unary p_member
       p_member_loop p_call_loop p_args_loop p_elems p_props p_stmt p_items p_decls p_cases];
  apply H; lia.

Lemma ev_p_expr ain ts v : ev (fun r => expr_f r ain ts) v -> ev (fun r => p_expr r ain ts) v.
Proof. intros H; ev_shift H. Qed.
Lemma ev_p_assign ain ts v : ev (fun r => assign_f r ain ts) v -> ev (fun r => p_assign r ain ts) v.
Proof. intros H; ev_shift H. Qed.
Lemma ev_p_comma_loop ain e ts v : ev (fun r => comma_loop_f r ain e ts) v -> ev (fun r => p_comma_loop r ain e ts) v.
Proof. intros H; ev_shift H. Qed.
Lemma ev_p_sc ain pv ts v : ev (fun r => sc_f r ain pv ts) v -> ev (fun r => p_sc r ain pv ts) v.
Proof. intros H; ev_shift H. Qed.
Lemma ev_p_sc_loop ain pv e ts v : ev (fun r => sc_loop_f r ain pv e ts) v -> ev (fun r => p_sc_loop r ain pv e ts) v.
Proof. intros H; ev_shift H. Qed.
Lemma ev_p_bin l ain ts v : ev (fun r => bin_at_f r l ain ts) v -> ev (fun r => p_bin r l ain ts) v.
Proof. intros H; ev_shift H. Qed.
Lemma ev_p_bin_loop l ain e ts v : ev (fun r => bin_loop_f r l ain e ts) v -> ev (fun r => p_bin_loop r l ain e ts) v.
Proof. intros H; ev_shift H. Qed.
Lemma ev_p_exp ts v : ev (fun r => exp_f r ts) v -> ev (fun r => p_exp r ts) v.
Proof. intros H; ev_shift H. Qed.
Lemma ev_p_unary ts v : ev (fun r => unary_f r ts) v -> ev (fun r => p_unary r ts) v.
Proof. intros H; ev_shift H. Qed.
Lemma ev_p_member ts v : ev (fun r => member_f r ts) v -> ev (fun r => p_member r ts) v.
Proof. intros H; ev_shift H. Qed.
Lemma ev_p_member_loop e ts v : ev (fun r => member_loop_f r e ts) v -> ev (fun r => p_member_loop r e ts) v.
Proof. intros H; ev_shift H. Qed.
Lemma ev_p_call_loop e ts v : ev (fun r => call_loop_f r e ts) v -> ev (fun r => p_call_loop r e ts) v.
Proof. intros H; ev_shift H. Qed.
Lemma ev_p_args_loop b ts v : ev (fun r => args_loop_f r b ts) v -> ev (fun r => p_args_loop r b ts) v.
Proof. intros H; ev_shift H. Qed.
Lemma ev_p_elems b ts v : ev (fun r => elems_f r b ts) v -> ev (fun r => p_elems r b ts) v.
Proof. intros H; ev_shift H. Qed.
Lemma ev_p_props ts v : ev (fun r => props_f r ts) v -> ev (fun r => p_props r ts) v.
Proof. intros H; ev_shift H. Qed.
Lemma ev_p_stmt b ts v : ev (fun r => stmt_f r b ts) v -> ev (fun r => p_stmt r b ts) v.
Proof. intros H; ev_shift H. Qed.
Lemma ev_p_items b ts v : ev (fun r => items_f r b ts) v -> ev (fun r => p_items r b ts) v.
Proof. intros H; ev_shift H. Qed.
Lemma ev_p_decls b ts v : ev (fun r => decls_f r b ts) v -> ev (fun r => p_decls r b ts) v.
Proof. intros H; ev_shift H. Qed.
Lemma ev_p_cases b ts v : ev (fun r => cases_f r b ts) v -> ev (fun r => p_cases r b ts) v.
Proof. intros H; ev_shift H. Qed.

(* ------------------------------------------------------------------ operators and tokens *)

Lemma binop_beq_refl o : binop_beq o o = true.
Proof. unfold binop_beq; apply Nat.eqb_refl. Qed.

Lemma binop_beq_eq a b : binop_beq a b = true -> a = b.
Proof. destruct a, b; intros H; try reflexivity; vm_compute in H; discriminate. Qed.

Lemma tok_binop_tok o : tok_binop (binop_tok o) = Some o.
Proof. destruct o; reflexivity. Qed.

Lemma tok_unop_tok o : tok_unop (unop_tok o) = Some o.
Proof. destruct o; reflexivity. Qed.

Lemma loop_op_tok o ain :
  4 <= binop_lvl o <= 11 -> (o = In -> ain = true) ->
  loop_op (binop_lvl o) ain (binop_tok o) = Some o.
Proof.
  intros H Hin. unfold loop_op. rewrite tok_binop_tok.
  destruct o; cbn in *; try lia; try reflexivity.
  rewrite Hin; auto.
Qed.

Lemma loop_op_sound lvl ain t o : loop_op lvl ain t = Some o -> binop_lvl o = lvl /\ 4 <= lvl <= 11 /\ (o = In -> ain = true) /\ t = binop_tok o.
Proof.
  unfold loop_op. destruct (tok_binop t) as [o'|] eqn:E; [|discriminate].
  destruct (binop_lvl o' =? lvl) eqn:E1; cbn [andb]; [|discriminate].
  destruct (4 <=? lvl) eqn:E2; cbn [andb]; [|discriminate].
  destruct (lvl <=? 11) eqn:E3; cbn [andb]; [|discriminate].
  intros H.
  assert (o' = o /\ (o = In -> ain = true)) as [-> Hin].
  { destruct o'; cbn in H; try (inversion H; subst; split; [reflexivity|intros; discriminate]).
    destruct ain; [inversion H; subst; split; auto|discriminate]. }
  apply Nat.eqb_eq in E1. apply Nat.leb_le in E2. apply Nat.leb_le in E3.
  repeat split; auto; try lia.
  destruct t as [[]|[]| | | | | |]; cbn in E; try discriminate; try (inversion E; subst; reflexivity).
  destruct (is_punct_op o0) eqn:Ep; [|discriminate]. inversion E; subst. destruct o; cbn in *; try reflexivity; discriminate.
Qed.

(* ------------------------------------------------------------------ first token of a printed expression *)

Definition estart (t : token) : bool :=
  match t with
  | TK KThis | TK KFunction | TK KNew | TK KDelete | TK KVoid | TK KTypeof => true
  | TP POpenParen | TP POpenBracket | TP POpenBlock | TP PInc | TP PDec | TP PNot | TP PNeg
  | TP (POp Add) | TP (POp Sub) => true
  | TId _ | TNum _ | TStr _ | TBool _ | TNull => true
  | _ => false
  end.

Lemma pe_start e : exists t tl, pe e = t :: tl /\ estart t = true.
Proof.
  induction e; cbn [pe]; unfold print_params;
  try solve [eexists; eexists; split; [reflexivity|reflexivity]];
  try solve [destruct IHe as (t & tl & -> & H); eexists; eexists; split; [reflexivity|exact H]];
  try solve [destruct IHe1 as (t & tl & -> & H); eexists; eexists; split; [reflexivity|exact H]].
  - (* EUpdate *) destruct prefix.
    + destruct inc; eexists; eexists; split; reflexivity.
    + destruct IHe as (t & tl & -> & H). eexists; eexists; split; [reflexivity|exact H].
  - (* EUnary *) destruct o; eexists; eexists; split; reflexivity.
Qed.

(* ------------------------------------------------------------------ continuation tokens of a level *)

(* token t continues an expression being parsed at level L (it would be consumed by the loop / suffix check of
   level L or of a level above it); `=>` is special: after `)` or an identifier it turns what was parsed into
   arrow parameters at any level *)
Definition conts (L : nat) (ain : bool) (t : token) : bool :=
  match t with
  | TP PArrow => true
  | TP POpenParen => L <=? 15
  | TP PDot | TP POpenBracket => L <=? 16
  | TP PInc | TP PDec => L <=? 14
  | TP PQuestion => L <=? 2
  | TP PAssign | TP (PAssignOp _) => L <=? 1
  | _ =>
      match tok_binop t with
      | Some o => (L <=? binop_lvl o) && match o with In => ain | _ => true end
      | None => false
      end
  end.

Definition stops (L : nat) (ain : bool) (rest : list token) : bool :=
  match rest with [] => true | t :: _ => negb (conts L ain t) end.

Ltac leb_mono :=
  let H := fresh in intros H; apply Nat.leb_le in H; apply Nat.leb_le; lia.

Lemma conts_mono L L' ain t : L <= L' -> conts L' ain t = true -> conts L ain t = true.
Proof.
  intros HL. unfold conts.
  destruct t as [p|k|s|n|s|b| |s]; try (cbn; congruence).
  - destruct p; try leb_mono; try (cbn; congruence); cbn;
      repeat match goal with |- context [is_punct_op ?x] => destruct (is_punct_op x) end; cbn; try congruence;
      intros H; apply andb_true_iff in H as [H1 H2]; apply andb_true_iff; split; auto;
      apply Nat.leb_le in H1; apply Nat.leb_le; lia.
  - destruct k; cbn; try congruence;
      intros H; apply andb_true_iff in H as [H1 H2]; apply andb_true_iff; split; auto;
      apply Nat.leb_le in H1; apply Nat.leb_le; lia.
Qed.

Lemma stops_mono L L' ain rest : L <= L' -> stops L ain rest = true -> stops L' ain rest = true.
Proof.
  intros HL. destruct rest as [|t r]; cbn; auto.
  destruct (conts L' ain t) eqn:E; auto.
  rewrite (conts_mono L L' ain t HL E). auto.
Qed.

Lemma stops_ain L ain rest : 9 <= L -> stops L ain rest = stops L true rest.
Proof.
  intros HL. destruct rest as [|t r]; cbn; auto. f_equal.
  unfold conts. destruct t as [p|k|s|n|s|b| |s]; try reflexivity.
  - destruct p; try reflexivity; cbn;
      repeat match goal with |- context [is_punct_op ?x] => destruct (is_punct_op x) end; try reflexivity.
    match goal with |- context [match ?o with In => _ | _ => _ end] => destruct o end; try reflexivity.
    cbn. destruct (L <=? 8) eqn:E; [apply Nat.leb_le in E; lia|reflexivity].
  - destruct k; try reflexivity. cbn. destruct (L <=? 8) eqn:E; [apply Nat.leb_le in E; lia|reflexivity].
Qed.

(* ------------------------------------------------------------------ allow_in is irrelevant above level 8 *)

Lemma wf_ain chk e : forall a1 a2, 9 <= lvl e -> wf chk a1 e = wf chk a2 e.
Proof.
  induction e; intros a1 a2 Hl; try reflexivity; cbn [lvl] in Hl; try lia.
  (* EBin *)
  cbn [wf].
  destruct o; cbn [binop_lvl] in Hl; try lia;
    cbn [binop_lvl];
    repeat match goal with
    | |- context [?n <=? lvl ?x] => let E := fresh in destruct (n <=? lvl x) eqn:E
    end;
    cbn [andb]; rewrite ?andb_false_r; auto;
    repeat match goal with H : (_ <=? _) = true |- _ => apply Nat.leb_le in H end;
    rewrite (IHe1 a1 a2) by lia; rewrite (IHe2 a1 a2) by lia; reflexivity.
Qed.
