(* C19 proofs, part 4: the induction over the AST (by size) that assembles the per-constructor lemmas, and the
   resulting statement for whole programs with "large enough" fuel. *)
From Coq Require Import List String NArith Bool Arith Lia.
From C19 Require Import Model_C19 Proofs_Base Proofs_Expr Proofs_Stmt.
Import ListNotations.

Definition lsum {A} (f : A -> nat) : list A -> nat :=
  fix go (l : list A) : nat := match l with [] => 0 | x :: r => f x + go r end.

Lemma lsum_in {A} (f : A -> nat) x l : List.In x l -> f x <= lsum f l.
Proof. induction l as [|y l IH]; [contradiction|]. intros [->|H]; cbn [lsum]; [lia|]. specialize (IH H). fold (lsum f l). lia. Qed.

Fixpoint esize (e : expr) : nat :=
  match e with
  | EThis | EId _ | ENum _ | EStr _ | EBool _ | ENull => 1
  | EArray es => S (lsum (fun o => match o with Some x => esize x | None => 0 end) es)
  | EObject ps => S (lsum psize ps)
  | EParen x => S (esize x)
  | EFunc _ _ b => S (lsum ssize b)
  | EArrow _ b => S (lsum ssize b)
  | EMember x _ => S (esize x)
  | EIndex x i => S (esize x + esize i)
  | ECall f a => S (esize f + lsum esize a)
  | ENew f a => S (esize f + lsum esize a)
  | EUpdate _ _ x => S (esize x)
  | EUnary _ x => S (esize x)
  | EBin _ l r => S (esize l + esize r)
  | ECond c t f => S (esize c + esize t + esize f)
  | EAssign _ l r => S (esize l + esize r)
  end
with psize (p : prop) : nat :=
  match p with PShort _ => 1 | PKV _ v => S (esize v) | PComputed k v => S (esize k + esize v) end
with ssize (s : stmt) : nat :=
  let dsz := lsum (fun d : string * option expr => match snd d with Some e => esize e | None => 0 end) in
  let osz := fun o : option expr => match o with Some e => esize e | None => 0 end in
  match s with
  | SBlock b => S (lsum ssize b)
  | SVar ds | SLet ds | SConst ds => S (dsz ds)
  | SEmpty | SDebugger | SContinue _ | SBreak _ => 1
  | SExpr e | SThrow e => S (esize e)
  | SIf c t f => S (esize c + ssize t + match f with Some x => ssize x | None => 0 end)
  | SDoWhile b c => S (ssize b + esize c)
  | SWhile c b => S (esize c + ssize b)
  | SFor i c st b =>
      S (match i with FINone => 0 | FIExpr e => esize e | FIVar ds | FILet ds | FIConst ds => dsz ds end + osz c + osz st + ssize b)
  | SForIn h e b | SForOf h e b => S (match h with FHTarget t => esize t | _ => 0 end + esize e + ssize b)
  | SSwitch e cs => S (esize e + lsum (fun cb : option expr * list stmt => osz (fst cb) + lsum ssize (snd cb)) cs)
  | SReturn e => S (osz e)
  | SLabelled _ x => S (ssize x)
  | STry b c f => S (lsum ssize b + match c with Some (_, cb) => lsum ssize cb | None => 0 end + match f with Some fb => lsum ssize fb | None => 0 end)
  | SFunDecl _ _ b => S (lsum ssize b)
  end.

(* the two statements proved together *)
Definition PE (e : expr) : Prop := forall ain, wf true ain e = true -> Good e.
Definition PS (s : stmt) : Prop :=
  forall aret, wfs true aret s = true -> Fitem aret s /\ (is_decl s = false -> Fstmt aret s).

Lemma forall_in {A} (P : A -> Prop) l : (forall x, List.In x l -> P x) -> Forall P l.
Proof. intros H. apply Forall_forall. exact H. Qed.

Lemma wf_hi e ain : wf true ain e = true -> 9 <= lvl e -> wf true true e = true.
Proof. intros W H. rewrite (wf_ain true e true ain); auto. Qed.

Lemma items_from n b aret :
  (forall s, ssize s <= n -> PS s) -> lsum ssize b <= n -> wfis aret b = true -> Fitems aret b.
Proof.
  intros IH Hn W. apply items_ok; auto. apply forall_in. intros s Hin.
  assert (Hs : ssize s <= n) by (pose proof (lsum_in ssize s b Hin); lia).
  assert (Ws : wfs true aret s = true).
  { clear -W Hin. induction b as [|y l IHl]; [contradiction|].
    change (wfis aret (y :: l)) with (wfs true aret y && wfis aret l) in W. apply andb_true_iff in W as [W1 W2].
    destruct Hin as [->|H]; auto. }
  apply (IH s Hs aret Ws).
Qed.

Lemma args_from n args :
  (forall e, esize e <= n -> PE e) -> lsum esize args <= n -> wfargs args = true -> Forall F1 args.
Proof.
  intros IH Hn W. apply forall_in. intros x Hin.
  assert (Hs : esize x <= n) by (pose proof (lsum_in esize x args Hin); lia).
  unfold wfargs in W. rewrite forallb_forall in W. specialize (W x Hin). apply andb_true_iff in W as [L Wx].
  apply Nat.leb_le in L. apply (g_F1 x (IH x Hs true Wx)). exact L.
Qed.

Lemma decls_from n ain ds :
  (forall e, esize e <= n -> PE e) ->
  lsum (fun d : string * option expr => match snd d with Some e => esize e | None => 0 end) ds <= n ->
  wfdecls ain ds = true -> Fdecls ds.
Proof.
  intros IH Hn W. unfold Fdecls. induction ds as [|[x [e|]] l IHl]; constructor; cbn [snd].
  - cbn [lsum snd] in Hn. cbn [wfdecls] in W. apply andb_true_iff in W as [W _]. apply andb_true_iff in W as [L We].
    apply Nat.leb_le in L. apply (g_F1 e (IH e ltac:(lia) ain We)). exact L.
  - apply IHl. { cbn [lsum snd] in Hn. fold (lsum (fun d : string * option expr => match snd d with Some e => esize e | None => 0 end) l) in Hn. lia. }
    cbn [wfdecls] in W. apply andb_true_iff in W as [_ W]. exact W.
  - exact I.
  - apply IHl. { cbn [lsum snd] in Hn. fold (lsum (fun d : string * option expr => match snd d with Some e => esize e | None => 0 end) l) in Hn. lia. }
    cbn [wfdecls] in W. exact W.
Qed.

Lemma F0_from e ain : PE e -> wf true ain e = true -> F0 e.
Proof. intros H W. apply (g_F0 e (H ain W)). Qed.

Theorem main_ind : forall n, (forall e, esize e <= n -> PE e) /\ (forall s, ssize s <= n -> PS s).
Proof.
  induction n as [|n [IHe IHs]].
  { split; [intros e H; destruct e; cbn in H; lia | intros s H; destruct s; cbn in H; lia]. }
  split.
  - (* expressions *)
    intros e Hsz ain W. destruct e; cbn [esize] in Hsz.
    + apply Good_from_F17; auto. apply F17_this.
    + apply Good_id.
    + apply Good_from_F17; auto. apply F17_num.
    + apply Good_from_F17; auto. apply F17_str.
    + apply Good_from_F17; auto. apply F17_bool.
    + apply Good_from_F17; auto. apply F17_null.
    + (* EArray *)
      change (wf true ain (EArray es)) with (wf true true (EArray es)) in W.
      apply Good_from_F17; auto. rewrite wf_array in W. apply F17_array; auto.
      apply forall_in. intros [x|] Hin; cbn [F1o]; auto.
      pose proof (lsum_in (fun o => match o with Some x => esize x | None => 0 end) (Some x) es Hin) as Hle. cbn beta iota in Hle.
      assert (Wx : (1 <=? lvl x) && wf true true x = true).
      { clear -W Hin. induction es as [|[y|] l IHl]; [contradiction| |].
        - cbn [wfelems] in W. apply andb_true_iff in W as [W1 W2]. destruct Hin as [E|H]; [inversion E; subst; exact W1|auto].
        - cbn [wfelems] in W. destruct Hin as [E|H]; [discriminate|auto]. }
      apply andb_true_iff in Wx as [L Wx]. apply Nat.leb_le in L.
      apply (g_F1 x (IHe x ltac:(lia) true Wx)). exact L.
    + (* EObject *)
      change (wf true ain (EObject ps)) with (wf true true (EObject ps)) in W.
      apply Good_from_F17; auto. rewrite wf_object in W. apply F17_object; auto.
      apply forall_in. intros p Hin.
      pose proof (lsum_in psize p ps Hin) as Hle.
      assert (Wp : wfp true p = true).
      { clear -W Hin. induction ps as [|y l IHl]; [contradiction|].
        cbn [wfprops] in W. apply andb_true_iff in W as [W1 W2]. destruct Hin as [->|H]; auto. }
      destruct p as [s|k v|k v]; cbn [Fprop wfp psize] in *; auto.
      * apply andb_true_iff in Wp as [L Wv]. apply Nat.leb_le in L. apply (g_F1 v (IHe v ltac:(lia) true Wv)). exact L.
      * repeat (apply andb_true_iff in Wp as [Wp ?]). apply Nat.leb_le in Wp. apply Nat.leb_le in H0. split.
        -- apply (g_F1 k (IHe k ltac:(lia) true H1)). exact Wp.
        -- apply (g_F1 v (IHe v ltac:(lia) true H)). exact H0.
    + (* EParen *)
      assert (Wx : wf true true e = true) by exact W.
      apply Good_from_F17; auto. apply F17_paren; auto. apply (F0_from e true); auto. apply IHe; lia.
    + (* EFunc *)
      assert (W' : wf true true (EFunc name params body) = true) by exact W.
      apply Good_from_F17; auto. apply F17_func. rewrite wf_func in W. apply (items_from n); auto. lia.
    + (* EArrow *)
      rewrite wf_arrow in W. apply andb_true_iff in W as [Hnd Wb].
      assert (HF1 : F1 (EArrow params body)).
      { apply F1_arrow; auto. apply (items_from n); auto. lia. }
      apply Good_low; cbn [lvl]; try (intros; lia); auto. apply K0_of_F1; auto.
    + (* EMember *)
      assert (W' : wf true true (EMember e name) = true) by exact W.
      cbn [wf] in W. apply andb_true_iff in W as [L Wx]. apply Nat.leb_le in L.
      pose proof (IHe e ltac:(lia) true Wx) as Gx.
      destruct (Nat.le_gt_cases 16 (lvl e)) as [H16|H16].
      * apply Good_from_K16; auto. { cbn [lvl]. destruct (16 <=? lvl e) eqn:E; [lia|apply Nat.leb_gt in E; lia]. }
        apply K16_member. apply (g_K16 e Gx H16).
      * apply Good_from_K15; auto. { cbn [lvl]. destruct (16 <=? lvl e) eqn:E; [apply Nat.leb_le in E; lia|reflexivity]. }
        apply K15_member. apply (g_K15 e Gx). lia.
    + (* EIndex *)
      assert (W' : wf true true (EIndex e1 e2) = true) by exact W.
      cbn [wf] in W. apply andb_true_iff in W as [W Wi]. apply andb_true_iff in W as [L Wx]. apply Nat.leb_le in L.
      pose proof (IHe e1 ltac:(lia) true Wx) as Gx.
      pose proof (F0_from e2 true (IHe e2 ltac:(lia)) Wi) as Hi.
      destruct (Nat.le_gt_cases 16 (lvl e1)) as [H16|H16].
      * apply Good_from_K16; auto. { cbn [lvl]. destruct (16 <=? lvl e1) eqn:E; [lia|apply Nat.leb_gt in E; lia]. }
        apply K16_index; auto. apply (g_K16 e1 Gx H16).
      * apply Good_from_K15; auto. { cbn [lvl]. destruct (16 <=? lvl e1) eqn:E; [apply Nat.leb_le in E; lia|reflexivity]. }
        apply K15_index; auto. apply (g_K15 e1 Gx). lia.
    + (* ECall *)
      assert (W' : wf true true (ECall e args) = true) by exact W.
      change (wf true ain (ECall e args)) with (wf true true (ECall e args)) in W. rewrite wf_call in W.
      apply andb_true_iff in W as [W Wa]. apply andb_true_iff in W as [L Wf]. apply Nat.leb_le in L.
      pose proof (IHe e ltac:(lia) true Wf) as Gf.
      pose proof (args_from n args IHe ltac:(lia) Wa) as Ha.
      apply Good_from_K15; auto.
      destruct (Nat.le_gt_cases 16 (lvl e)) as [H16|H16].
      * apply K15_call_m; auto. apply g_F16; auto.
      * apply K15_call_c; auto. apply (g_K15 e Gf). lia.
    + (* ENew *)
      assert (W' : wf true true (ENew e args) = true) by exact W.
      change (wf true ain (ENew e args)) with (wf true true (ENew e args)) in W. rewrite wf_new in W.
      apply andb_true_iff in W as [W Wa]. apply andb_true_iff in W as [L Wf]. apply Nat.leb_le in L.
      pose proof (IHe e ltac:(lia) true Wf) as Gf.
      pose proof (args_from n args IHe ltac:(lia) Wa) as Ha.
      apply Good_from_K16; auto. apply K16_new; auto. apply g_F16; auto.
    + (* EUpdate *)
      assert (W' : wf true true (EUpdate prefix inc e) = true) by exact W.
      cbn [wf] in W. apply andb_true_iff in W as [Hs Wx].
      pose proof (IHe e ltac:(lia) true Wx) as Gx. pose proof (is_simple_lvl e Hs Wx) as Lx.
      apply Good_from_F14; cbn [lvl]; auto; try (intros; lia).
      destruct prefix.
      * apply F14_pre; auto. apply (g_F13 e Gx). lia.
      * apply F14_post; auto. apply (g_F15 e Gx). lia.
    + (* EUnary *)
      assert (W' : wf true true (EUnary o e) = true) by exact W.
      cbn [wf] in W. apply andb_true_iff in W as [L Wx]. apply Nat.leb_le in L.
      pose proof (IHe e ltac:(lia) true Wx) as Gx.
      assert (H13 : F13 (EUnary o e)) by (apply F13_unary; apply (g_F13 e Gx L)).
      apply Good_from_F12; cbn [lvl]; auto; try (intros; lia). apply F12_of_F13_unary; auto.
    + (* EBin *)
      pose proof (wf_bin _ _ _ _ _ W) as (Wl & Wr & Hc).
      pose proof (IHe e1 ltac:(lia) ain Wl) as Gl. pose proof (IHe e2 ltac:(lia) ain Wr) as Gr.
      destruct o; cbn [binop_lvl] in Hc;
        try (apply andb_true_iff in Hc as [Hc1 Hc2]; apply Nat.leb_le in Hc1; apply Nat.leb_le in Hc2;
             match goal with
             | |- Good (EBin ?o _ _) =>
                 apply (Good_from_Fbin _ (binop_lvl o)); cbn [lvl binop_lvl]; auto; try (intros; lia);
                 [ apply Fbin_of_Kbin; apply (Kbin_bin o); cbn [binop_lvl]; try lia;
                   [apply (g_Kbin _ Gl); lia | apply (g_Fbin _ Gr); lia]
                 | intros _; apply (Kbin_bin o); cbn [binop_lvl]; try lia;
                   [apply (g_Kbin _ Gl); lia | apply (g_Fbin _ Gr); lia] ]
             end).
      * (* Exp *)
        apply andb_true_iff in Hc as [Hc1 Hc2]. apply Nat.leb_le in Hc1. apply Nat.leb_le in Hc2.
        apply Good_from_F12; cbn [lvl binop_lvl]; auto; try (intros; lia).
        apply F12_exp; auto. { apply (wf_hi e1 ain); auto; lia. } { apply (g_F14 _ Gl); lia. } apply (g_F12 _ Gr); lia.
      * (* LAnd *)
        apply andb_true_iff in Hc as [Hc1 Hc2]. apply Nat.leb_le in Hc2.
        assert (Kl : K3 e1).
        { apply orb_true_iff in Hc1 as [H|H]; [apply Nat.leb_le in H; apply (g_K3 _ Gl); [lia|]|].
          - destruct e1; try reflexivity. destruct o; try reflexivity; cbn in H; lia.
          - apply is_bin_inv in H as (a & b & ->). apply (g_K3 _ Gl); [cbn; lia|reflexivity]. }
        assert (K : K3 (EBin LAnd e1 e2)) by (apply K3_and; auto; apply (g_Fbin _ Gr); lia).
        apply Good_from3; cbn [lvl binop_lvl]; auto; try (intros; lia). apply F3_of_K3; auto.
      * (* LOr *)
        apply andb_true_iff in Hc as [Hc1 Hc2].
        assert (Kl : K3 e1).
        { apply orb_true_iff in Hc1 as [H|H]; [apply Nat.leb_le in H; apply (g_K3 _ Gl); [lia|]|].
          - destruct e1; try reflexivity. destruct o; try reflexivity; cbn in H; lia.
          - apply is_bin_inv in H as (a & b & ->). apply (g_K3 _ Gl); [cbn; lia|reflexivity]. }
        assert (Fr : F3 e2).
        { apply (g_F3 _ Gr). apply orb_true_iff in Hc2 as [H|H]; [apply orb_true_iff in H as [H|H]|].
          - apply Nat.leb_le in H. lia.
          - apply is_bin_inv in H as (a & b & ->). cbn; lia.
          - apply is_bin_inv in H as (a & b & ->). cbn; lia. }
        apply Good_from3; cbn [lvl binop_lvl is_bin binop_beq binop_idx Nat.eqb]; auto; try (intros; lia); try discriminate.
        apply F3_or; auto.
      * (* Coal *)
        apply andb_true_iff in Hc as [Hc1 Hc2]. apply Nat.leb_le in Hc2.
        assert (Kl : K3 e1).
        { apply orb_true_iff in Hc1 as [H|H]; [apply Nat.leb_le in H; apply (g_K3 _ Gl); [lia|]|].
          - destruct e1; try reflexivity. destruct o; try reflexivity; cbn in H; lia.
          - apply is_bin_inv in H as (a & b & ->). apply (g_K3 _ Gl); [cbn; lia|reflexivity]. }
        assert (K : K3 (EBin Coal e1 e2)) by (apply K3_coal; auto; apply (g_Fbin _ Gr); lia).
        apply Good_from3; cbn [lvl binop_lvl]; auto; try (intros; lia). apply F3_of_K3; auto.
      * (* In *)
        apply andb_true_iff in Hc as [Hc Hc2]. apply andb_true_iff in Hc as [Hain Hc1].
        apply Nat.leb_le in Hc1. apply Nat.leb_le in Hc2.
        apply (Good_from_Fbin _ 8); cbn [lvl binop_lvl]; auto; try (intros; lia).
        -- apply Fbin_of_Kbin. apply (Kbin_bin In); cbn [binop_lvl]; try lia; [apply (g_Kbin _ Gl); lia | apply (g_Fbin _ Gr); lia].
        -- intros _. apply (Kbin_bin In); cbn [binop_lvl]; try lia; [apply (g_Kbin _ Gl); lia | apply (g_Fbin _ Gr); lia].
      * (* Comma *)
        apply Nat.leb_le in Hc.
        apply Good_low; cbn [lvl binop_lvl]; try (intros; lia).
        apply K0_comma. { apply (g_K0 _ Gl). } apply (g_F1 _ Gr). exact Hc.
    + (* ECond *)
      pose proof W as W0. cbn [wf] in W.
      apply andb_true_iff in W as [W W3]. apply andb_true_iff in W as [W L3]. apply andb_true_iff in W as [W W2].
      apply andb_true_iff in W as [W L2]. apply andb_true_iff in W as [L1 W1].
      apply Nat.leb_le in L1. apply Nat.leb_le in L2. apply Nat.leb_le in L3.
      pose proof (IHe e1 ltac:(lia) ain W1) as G1. pose proof (IHe e2 ltac:(lia) true W2) as G2.
      pose proof (IHe e3 ltac:(lia) ain W3) as G3.
      assert (HF : F2c (ECond e1 e2 e3)).
      { apply F2c_cond; [apply (g_F3 _ G1); lia|apply (g_F1 _ G2); lia|apply (g_F1 _ G3); lia]. }
      apply Good_low; cbn [lvl]; try (intros; lia); auto.
      * intros _. apply F1_of_F2c; auto.
      * apply K0_of_F1, F1_of_F2c; auto.
    + (* EAssign *)
      pose proof W as W0. cbn [wf] in W.
      apply andb_true_iff in W as [W Ho]. apply andb_true_iff in W as [W W2]. apply andb_true_iff in W as [W L2].
      apply andb_true_iff in W as [Hs W1]. apply Nat.leb_le in L2.
      pose proof (IHe e1 ltac:(lia) true W1) as G1. pose proof (IHe e2 ltac:(lia) ain W2) as G2.
      pose proof (is_simple_lvl e1 Hs W1) as L1.
      assert (HF : F1 (EAssign o e1 e2)).
      { apply F1_assign; [apply (g_F2 _ G1); lia|apply (g_F1 _ G2); lia]. }
      apply Good_low; cbn [lvl]; try (intros; lia); auto. apply K0_of_F1; auto.
  - (* statements *)
    intros s Hsz aret W.
    assert (nd : forall s', is_decl s' = false -> wfs true aret s' = true -> Fstmt aret s' -> Fitem aret s' /\ (is_decl s' = false -> Fstmt aret s')).
    { intros s' Hd Ws' HF. split; auto. apply Fitem_of_Fstmt; auto. }
    assert (sub : forall x, ssize x <= n -> wfs true aret x = true -> is_decl x = false -> Fstmt aret x).
    { intros x Hx Wx Hd. apply (IHs x Hx aret Wx). exact Hd. }
    destruct s; cbn [ssize] in Hsz.
    + (* SBlock *) apply nd; auto. apply Fstmt_block. rewrite wfs_block in W. apply (items_from n); auto. lia.
    + (* SVar *) apply nd; auto. apply Fstmt_var; auto. rewrite wfs_var in W. apply andb_true_iff in W as [_ W].
      apply (decls_from n true); auto. lia.
    + (* SLet *) split; [|discriminate]. apply Fitem_let; auto. rewrite wfs_let in W. apply andb_true_iff in W as [_ W].
      apply (decls_from n true); auto. lia.
    + (* SConst *) split; [|discriminate]. apply Fitem_const; auto. rewrite wfs_const in W.
      apply andb_true_iff in W as [W _]. apply andb_true_iff in W as [_ W]. apply (decls_from n true); auto. lia.
    + apply nd; auto. apply Fstmt_empty.
    + (* SExpr *) apply nd; auto. apply Fstmt_expr; auto.
      cbn [wfs] in W. apply andb_true_iff in W as [We _]. apply (F0_from e true); auto. apply IHe; lia.
    + (* SIf *)
      apply nd; auto. pose proof W as W0. cbn [wfs] in W.
      apply andb_true_iff in W as [W Wf]. apply andb_true_iff in W as [W Hdt]. apply andb_true_iff in W as [Wc Wt].
      apply negb_true_iff in Hdt.
      apply Fstmt_if; auto.
      * apply (F0_from c true); auto. apply IHe; lia.
      * apply sub; auto. lia.
      * destruct f as [x|]; auto. apply andb_true_iff in Wf as [Wf _]. apply andb_true_iff in Wf as [Wx Hdx].
        apply negb_true_iff in Hdx. apply sub; auto. lia.
    + (* SDoWhile *)
      apply nd; auto. cbn [wfs] in W. apply andb_true_iff in W as [W Wc]. apply andb_true_iff in W as [Wb Hd].
      apply negb_true_iff in Hd. apply Fstmt_dowhile; auto. { apply sub; auto; lia. } apply (F0_from c true); auto. apply IHe; lia.
    + (* SWhile *)
      apply nd; auto. cbn [wfs] in W. apply andb_true_iff in W as [W Hd]. apply andb_true_iff in W as [Wc Wb].
      apply negb_true_iff in Hd. apply Fstmt_while; auto. { apply (F0_from c true); auto. apply IHe; lia. } apply sub; auto; lia.
    + (* SFor *)
      apply nd; auto. pose proof W as W0. rewrite wfs_for in W.
      repeat (apply andb_true_iff in W as [W ?]). apply negb_true_iff in H.
      apply Fstmt_for; auto.
      * destruct i as [|e|ds|ds|ds]; auto.
        -- apply (F0_from e false); auto. apply IHe; lia.
        -- apply andb_true_iff in W as [_ W]. apply (decls_from n false); auto. lia.
        -- apply andb_true_iff in W as [_ W]. apply (decls_from n false); auto. lia.
        -- apply andb_true_iff in W as [W _]. apply andb_true_iff in W as [_ W]. apply (decls_from n false); auto. lia.
      * destruct c as [e|]; cbn [Fo0]; auto. split; auto. apply (F0_from e true); auto. apply IHe; lia.
      * destruct s as [e|]; cbn [Fo0]; auto. split; auto. apply (F0_from e true); auto. apply IHe; lia.
      * apply sub; auto; lia.
    + (* SForIn *)
      apply nd; auto. cbn [wfs] in W. repeat (apply andb_true_iff in W as [W ?]). apply negb_true_iff in H.
      apply Fstmt_forin; auto.
      * destruct h as [x|x|x|t]; auto. apply andb_true_iff in W as [Hs Wt]. repeat split; auto.
        apply (F0_from t true); auto. apply IHe; lia.
      * apply (F0_from e true); auto. apply IHe; lia.
      * apply sub; auto; lia.
    + (* SForOf *)
      apply nd; auto. cbn [wfs] in W. repeat (apply andb_true_iff in W as [W ?]). apply negb_true_iff in H.
      apply Nat.leb_le in H2.
      apply Fstmt_forof; auto.
      * destruct h as [x|x|x|t]; auto. apply andb_true_iff in W as [Hs Wt]. repeat split; auto.
        apply (F0_from t true); auto. apply IHe; lia.
      * apply (g_F1 e (IHe e ltac:(lia) true H1)). exact H2.
      * apply sub; auto; lia.
    + (* SSwitch *)
      apply nd; auto. pose proof W as W0. rewrite wfs_switch in W. apply andb_true_iff in W as [W Wcs]. apply andb_true_iff in W as [We _].
      apply Fstmt_switch; auto. { apply (F0_from e true); auto. apply IHe; lia. }
      apply forall_in. intros [c b] Hin. cbn [fst snd].
      pose proof (lsum_in (fun cb : option expr * list stmt => match fst cb with Some e => esize e | None => 0 end + lsum ssize (snd cb)) (c, b) cs Hin) as Hle.
      cbn [fst snd] in Hle.
      assert (Wcb : match c with Some x => wf true true x | None => true end && wfis aret b = true).
      { clear -Wcs Hin. induction cs as [|[c' b'] l IHl]; [contradiction|].
        cbn [wfcases] in Wcs. apply andb_true_iff in Wcs as [W1 W2]. destruct Hin as [E|H]; [inversion E; subst; exact W1|auto]. }
      apply andb_true_iff in Wcb as [Wc Wb]. split.
      * destruct c as [c|]; auto. apply (F0_from c true); auto. apply IHe; lia.
      * apply (items_from n); auto. lia.
    + apply nd; auto. apply Fstmt_continue.
    + apply nd; auto. apply Fstmt_break.
    + (* SReturn *)
      apply nd; auto. cbn [wfs] in W. apply andb_true_iff in W as [Har We]. subst aret.
      destruct e as [e|]; [|apply Fstmt_return_none].
      apply Fstmt_return_some; auto. apply (F0_from e true); auto. apply IHe; lia.
    + (* SLabelled *)
      apply nd; auto. cbn [wfs] in W. apply andb_true_iff in W as [Wx Hd]. apply negb_true_iff in Hd.
      apply Fstmt_labelled; auto. apply sub; auto; lia.
    + (* SThrow *)
      apply nd; auto. cbn [wfs] in W. apply Fstmt_throw; auto. apply (F0_from e true); auto. apply IHe; lia.
    + (* STry *)
      apply nd; auto. rewrite wfs_try in W. repeat (apply andb_true_iff in W as [W ?]).
      apply Fstmt_try.
      * apply (items_from n); auto. lia.
      * destruct c as [[p cb]|]; auto. apply (items_from n); auto. lia.
      * destruct f as [fb|]; auto. apply (items_from n); auto. destruct c as [[p cb]|]; lia.
      * destruct c as [[p cb]|]; auto. destruct f; auto. discriminate.
    + apply nd; auto. apply Fstmt_debugger.
    + (* SFunDecl *)
      split; [|discriminate]. apply Fitem_fundecl. rewrite wfs_fundecl in W. apply (items_from n); auto. lia.
Qed.

(* whole programs: with enough fuel the parser inverts the printer on parser-shaped programs *)
Theorem parse_print_ev prog : parser_shaped prog ->
  exists n0, forall n, n0 <= n -> parse_script n (print_tokens prog) = Ok prog [].
Proof.
  intros W. unfold parser_shaped, parser_shapedb in W. rewrite <- wfis_eq in W.
  assert (H : Fitems false prog).
  { apply (items_from (lsum ssize prog)); auto. intros s Hs. apply (proj2 (main_ind (lsum ssize prog))). exact Hs. }
  specialize (H [] eq_refl). rewrite app_nil_r in H. destruct H as [n0 H].
  exists n0. intros n Hn. unfold parse_script, print_tokens. rewrite (H n Hn). reflexivity.
Qed.
