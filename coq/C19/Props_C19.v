(* C19 property theorems: statements only, each closed by `exact`, pinned by `Check`, with its assumptions printed.
   Token level, for the fragment of Model_C19.v; lexing (text <-> tokens), ASI and layout are outside (correspondence). *)
From Coq Require Import List String NArith Bool Arith.
From C19 Require Import Model_C19 Proofs_Final Deep_Lex_C19 Deep_Text_C19.
Import ListNotations.
Local Open Scope string_scope.

(* printing a parser-shaped program and parsing the tokens gives the program back; unbounded in the size and nesting
   of the program (induction on the AST); the fuel parse_tokens uses (number of tokens + 1) is shown sufficient *)
Theorem parse_print : forall ast, parser_shaped ast -> parse_tokens (print_tokens ast) = Some ast.
Proof. exact parse_print_lemma. Qed.
Check parse_print : forall ast, parser_shaped ast -> parse_tokens (print_tokens ast) = Some ast.
Print Assumptions parse_print.

(* the same for every larger fuel: the verdict does not depend on the fuel once it is not out-of-fuel *)
Theorem parse_print_fuel : forall prog, parser_shaped prog ->
  exists n0, forall n, n0 <= n -> parse_script n (print_tokens prog) = Ok prog [].
Proof. exact parse_print_ev_lemma. Qed.
Check parse_print_fuel : forall prog, parser_shaped prog ->
  exists n0, forall n, n0 <= n -> parse_script n (print_tokens prog) = Ok prog [].
Print Assumptions parse_print_fuel.

(* the model parser is total: with one unit of fuel per token plus one it returns an AST or a syntax error for every
   token list, never out-of-fuel; and more fuel never changes a verdict *)
Theorem parse_total_model : forall ts, parse_script (fuel_for ts) ts <> Fuel.
Proof. exact parse_total_lemma. Qed.
Check parse_total_model : forall ts, parse_script (fuel_for ts) ts <> Fuel.
Print Assumptions parse_total_model.

Theorem parse_fuel_monotone : forall n m ts, n <= m -> parse_script n ts <> Fuel -> parse_script m ts = parse_script n ts.
Proof. exact parse_mono_lemma. Qed.
Check parse_fuel_monotone : forall n m ts, n <= m -> parse_script n ts <> Fuel -> parse_script m ts = parse_script n ts.
Print Assumptions parse_fuel_monotone.

(* everything the parser returns is core-shaped: parenthesised where the grammar requires it (levels, allow_in, targets,
   dangling else, ...) -- all of parser_shaped except the start condition of expression statements *)
Theorem parse_shaped_core : forall ts a, parse_tokens ts = Some a -> shaped_core a.
Proof. exact parse_shaped_core_lemma. Qed.
Check parse_shaped_core : forall ts a, parse_tokens ts = Some a -> shaped_core a.
Print Assumptions parse_shaped_core.

(* from the first printed form on, parse-then-print is the identity: if the parser accepted ts with AST a and a is
   parser-shaped, then the printed
   tokens p = print a parse to a again, and printing that parse gives p again *)
Theorem print_parse_idempotent : forall ts a, parse_tokens ts = Some a -> parser_shaped a ->
  parse_tokens (print_tokens a) = Some a /\
  (forall a', parse_tokens (print_tokens a) = Some a' -> print_tokens a' = print_tokens a).
Proof. exact print_parse_idempotent_lemma. Qed.
Check print_parse_idempotent : forall ts a, parse_tokens ts = Some a -> parser_shaped a ->
  parse_tokens (print_tokens a) = Some a /\
  (forall a', parse_tokens (print_tokens a) = Some a' -> print_tokens a' = print_tokens a).
Print Assumptions print_parse_idempotent.

(* ... and the start condition is necessary: the faithful model refutes `parse ts = Some a -> parser_shaped a`.
   The parser drops the parentheses around an assignment target, the printer does not put them back:
   `({}.x) = 1;` parses, prints as `{}.x = 1;`, which does not parse.  (On-tree finding C19-print-stmt-start.) *)
Theorem parse_shaped_refuted : exists ts a,
  parse_tokens ts = Some a /\ shaped_coreb a = true /\ parser_shapedb a = false /\ parse_tokens (print_tokens a) = None.
Proof. exact parse_shaped_refuted_lemma. Qed.
Check parse_shaped_refuted : exists ts a,
  parse_tokens ts = Some a /\ shaped_coreb a = true /\ parser_shapedb a = false /\ parse_tokens (print_tokens a) = None.
Print Assumptions parse_shaped_refuted.

(* ---------------------------------------------------------------- deepening round: from tokens to text *)

(* lexing the rendered text of printable tokens gives the tokens back: no two adjacent printed tokens glue together or
   split (maximal munch of punctuators, words against words / digits, `1 .x`, `.` before digits, `?` before `.`) *)
Theorem lex_render : forall ts, Forall printable ts -> lex (render ts) = Some ts.
Proof. exact lex_render_lemma. Qed.
Check lex_render : forall ts, Forall printable ts -> lex (render ts) = Some ts.
Print Assumptions lex_render.

(* the same for ANY layout: arbitrary white space (also none) between tokens, as long as there is some wherever
   `needs_sep` says two neighbours would glue; boa's printed text is checked to be such a layout on every run *)
Theorem lex_layout : forall l trail, Forall printable (map snd l) -> good_layout None l = true -> all_ws trail = true ->
  lex (render_ws l trail) = Some (map snd l).
Proof. exact lex_layout_lemma. Qed.
Check lex_layout : forall l trail, Forall printable (map snd l) -> good_layout None l = true -> all_ws trail = true ->
  lex (render_ws l trail) = Some (map snd l).
Print Assumptions lex_layout.

(* text level: print to tokens, render to characters, lex, parse: the AST comes back *)
Theorem parse_print_text : forall ast, parser_shaped ast -> printable_prog ast ->
  parse_text (render (print_tokens ast)) = Some ast.
Proof. exact parse_print_text_lemma. Qed.
Check parse_print_text : forall ast, parser_shaped ast -> printable_prog ast ->
  parse_text (render (print_tokens ast)) = Some ast.
Print Assumptions parse_print_text.

Theorem parse_print_layout : forall ast l trail, parser_shaped ast -> printable_prog ast ->
  map snd l = print_tokens ast -> good_layout None l = true -> all_ws trail = true ->
  parse_text (render_ws l trail) = Some ast.
Proof. exact parse_print_layout_lemma. Qed.
Check parse_print_layout : forall ast l trail, parser_shaped ast -> printable_prog ast ->
  map snd l = print_tokens ast -> good_layout None l = true -> all_ws trail = true ->
  parse_text (render_ws l trail) = Some ast.
Print Assumptions parse_print_layout.

(* the adjacency cases this is about *)
Theorem needs_sep_cases :
  needs_sep (TNum 1) (TP PDot) = true /\ needs_sep (TP (POp Sub)) (TP (POp Sub)) = true /\
  needs_sep (TP (POp Sub)) (TP PDec) = true /\ needs_sep (TP (POp Add)) (TP (POp Add)) = true /\
  needs_sep (TP (POp Div)) (TP (POp Div)) = true /\ needs_sep (TP (POp Div)) (TP (POp Mul)) = true /\
  needs_sep (TK KTypeof) (TId "x") = true /\ needs_sep (TK KIn) (TNum 1) = true /\ needs_sep (TId "a") (TK KIn) = true /\
  needs_sep (TP PDot) (TP PDot) = true /\ needs_sep (TP PQuestion) (TP PDot) = true /\ needs_sep (TP PDot) (TNum 5) = true /\
  needs_sep (TP (POp Lt)) (TP PNot) = false /\ needs_sep (TId "a") (TP (POp Add)) = false /\ needs_sep (TP PCloseParen) (TId "a") = false.
Proof. exact needs_sep_cases_lemma. Qed.
Check needs_sep_cases :
  needs_sep (TNum 1) (TP PDot) = true /\ needs_sep (TP (POp Sub)) (TP (POp Sub)) = true /\
  needs_sep (TP (POp Sub)) (TP PDec) = true /\ needs_sep (TP (POp Add)) (TP (POp Add)) = true /\
  needs_sep (TP (POp Div)) (TP (POp Div)) = true /\ needs_sep (TP (POp Div)) (TP (POp Mul)) = true /\
  needs_sep (TK KTypeof) (TId "x") = true /\ needs_sep (TK KIn) (TNum 1) = true /\ needs_sep (TId "a") (TK KIn) = true /\
  needs_sep (TP PDot) (TP PDot) = true /\ needs_sep (TP PQuestion) (TP PDot) = true /\ needs_sep (TP PDot) (TNum 5) = true /\
  needs_sep (TP (POp Lt)) (TP PNot) = false /\ needs_sep (TId "a") (TP (POp Add)) = false /\ needs_sep (TP PCloseParen) (TId "a") = false.
Print Assumptions needs_sep_cases.

Example printable_example :
  printable_prog [SExpr (EBin Sub (EId "a") (EUnary UMinus (EId "b"))); SExpr (EMember (ENum 1) "x")].
Proof. apply printable_progb_sound. reflexivity. Qed.
Example text_example :
  string_of_list_ascii (render (print_tokens [SExpr (EBin Sub (EId "a") (EUnary UMinus (EId "b"))); SExpr (EMember (ENum 1) "x")]))
  = "a- -b;1 .x;".
Proof. reflexivity. Qed.

(* the hypotheses are satisfiable and the statements are not vacuous *)
Example shaped_example :
  parser_shaped [SExpr (EBin Mul (EParen (EBin Add (EId "a") (EId "b"))) (EId "c")); SIf (EId "a") (SExpr (EId "b")) None].
Proof. reflexivity. Qed.
Example unshaped_example : parser_shapedb [SExpr (EBin Mul (EBin Add (EId "a") (EId "b")) (EId "c"))] = false.
Proof. reflexivity. Qed.
Example parse_example :
  parse_tokens [TId "a"; TP (POp Add); TId "b"; TP (POp Mul); TId "c"; TP PSemicolon] =
  Some [SExpr (EBin Add (EId "a") (EBin Mul (EId "b") (EId "c")))].
Proof. reflexivity. Qed.
