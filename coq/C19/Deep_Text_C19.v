(* C19 deepening, part 3: the text-level round trip = lexing theorem + token-level parse_print. *)
From Coq Require Import List String Ascii NArith Bool Arith Lia.
From C19 Require Import Model_C19 Proofs_Final Deep_Lex_C19 Deep_LexProofs_C19.
Import ListNotations.

(* boolean version of `printable`, for the extracted checker *)
Definition printableb (t : token) : bool :=
  match t with
  | TP p => real_punct p
  | TK _ | TNum _ | TStr _ | TBool _ | TNull => true
  | TId s =>
      match T s with c :: _ => is_id_start c | [] => false end && forallb is_id_part (T s) &&
      match classify s with TId s' => String.eqb s s' | _ => false end
  | TOther _ => false
  end.

Lemma printableb_sound t : printableb t = true -> printable t.
Proof.
  destruct t; cbn [printableb printable]; auto; try discriminate.
  intros H. apply andb_true_iff in H as [H H3]. apply andb_true_iff in H as [H1 H2].
  repeat split; auto.
  - destruct (T s); [discriminate|exact H1].
  - destruct (classify s); try discriminate. apply String.eqb_eq in H3. subst. reflexivity.
Qed.

Definition printable_prog (ast : list stmt) : Prop := Forall printable (print_tokens ast).
Definition printable_progb (ast : list stmt) : bool := forallb printableb (print_tokens ast).

Lemma printable_progb_sound ast : printable_progb ast = true -> printable_prog ast.
Proof.
  unfold printable_progb, printable_prog. intros H. apply Forall_forall. intros t Ht.
  rewrite forallb_forall in H. apply printableb_sound. auto.
Qed.

Lemma lex_render_lemma : forall ts, Forall printable ts -> lex (render ts) = Some ts.
Proof. exact lex_render_thm. Qed.

Lemma lex_layout_lemma : forall l trail, Forall printable (map snd l) -> good_layout None l = true -> all_ws trail = true ->
  lex (render_ws l trail) = Some (map snd l).
Proof. exact lex_layout_thm. Qed.

Lemma parse_print_text_lemma : forall ast, parser_shaped ast -> printable_prog ast ->
  parse_text (render (print_tokens ast)) = Some ast.
Proof.
  intros ast W P. unfold parse_text. rewrite (lex_render_thm _ P). apply parse_print_lemma. exact W.
Qed.

Lemma parse_print_layout_lemma : forall ast l trail, parser_shaped ast -> printable_prog ast ->
  map snd l = print_tokens ast -> good_layout None l = true -> all_ws trail = true ->
  parse_text (render_ws l trail) = Some ast.
Proof.
  intros ast l trail W P E G Ht. unfold parse_text.
  rewrite (lex_layout_thm l trail); [rewrite E; apply parse_print_lemma; exact W| |exact G|exact Ht].
  rewrite E. exact P.
Qed.

Lemma needs_sep_cases_lemma :
  needs_sep (TNum 1) (TP PDot) = true /\ needs_sep (TP (POp Sub)) (TP (POp Sub)) = true /\
  needs_sep (TP (POp Sub)) (TP PDec) = true /\ needs_sep (TP (POp Add)) (TP (POp Add)) = true /\
  needs_sep (TP (POp Div)) (TP (POp Div)) = true /\ needs_sep (TP (POp Div)) (TP (POp Mul)) = true /\
  needs_sep (TK KTypeof) (TId "x") = true /\ needs_sep (TK KIn) (TNum 1) = true /\ needs_sep (TId "a") (TK KIn) = true /\
  needs_sep (TP PDot) (TP PDot) = true /\ needs_sep (TP PQuestion) (TP PDot) = true /\ needs_sep (TP PDot) (TNum 5) = true /\
  needs_sep (TP (POp Lt)) (TP PNot) = false /\ needs_sep (TId "a") (TP (POp Add)) = false /\ needs_sep (TP PCloseParen) (TId "a") = false.
Proof. exact needs_sep_examples. Qed.
