(* C19 proofs, part 3: parsing the printed form of statements and statement lists. *)
From Coq Require Import List String NArith Bool Arith Lia.
From C19 Require Import Model_C19 Proofs_Base Proofs_Expr.
Import ListNotations.

(* ------------------------------------------------------------------ printers of the list-like parts, standalone *)

Definition pinit (i : option expr) : list token := match i with Some e => TP PAssign :: pe e | None => [] end.

Fixpoint pdecls (l : list (string * option expr)) : list token :=
  match l with
  | [] => []
  | [(x, i)] => TId x :: pinit i
  | (x, i) :: r => TId x :: pinit i ++ [TP PComma] ++ pdecls r
  end.

Fixpoint pcases (l : list (option expr * list stmt)) : list token :=
  match l with
  | [] => []
  | (Some c, b) :: r => [TK KCase] ++ pe c ++ [TP PColon] ++ pitems b ++ pcases r
  | (None, b) :: r => [TK KDefault; TP PColon] ++ pitems b ++ pcases r
  end.

Definition pblock (b : list stmt) : list token := [TP POpenBlock] ++ pitems b ++ [TP PCloseBlock].
Definition poe (o : option expr) : list token := match o with Some e => pe e | None => [] end.

Definition wfis (aret : bool) : list stmt -> bool :=
  fix go (l : list stmt) : bool := match l with [] => true | x :: r => wfs true aret x && go r end.

Lemma wfis_eq aret b : wfis aret b = wf_items true aret b.
Proof. induction b as [|x l IH]; [reflexivity|]. cbn [wf_items]. rewrite <- IH. reflexivity. Qed.

Definition wfdecls (ain : bool) : list (string * option expr) -> bool :=
  fix go (l : list (string * option expr)) : bool :=
    match l with
    | [] => true
    | (_, Some e) :: r => (1 <=? lvl e) && wf true ain e && go r
    | (_, None) :: r => go r
    end.

Definition wfcases (aret : bool) : list (option expr * list stmt) -> bool :=
  fix go (l : list (option expr * list stmt)) : bool :=
    match l with
    | [] => true
    | (c, b) :: r => match c with Some x => wf true true x | None => true end && wfis aret b && go r
    end.

Definition nonempty {A} (l : list A) : bool := match l with [] => false | _ => true end.

(* ---- ps1 / wfs by constructor *)
Lemma ps1_block b : ps1 (SBlock b) = pblock b. Proof. reflexivity. Qed.
Lemma ps1_var ds : ps1 (SVar ds) = [TK KVar] ++ pdecls ds ++ [TP PSemicolon]. Proof. reflexivity. Qed.
Lemma ps1_let ds : ps1 (SLet ds) = [TK KLet] ++ pdecls ds ++ [TP PSemicolon]. Proof. reflexivity. Qed.
Lemma ps1_const ds : ps1 (SConst ds) = [TK KConst] ++ pdecls ds ++ [TP PSemicolon]. Proof. reflexivity. Qed.
Lemma ps1_for i c st b : ps1 (SFor i c st b) =
  [TK KFor; TP POpenParen] ++
  match i with
  | FINone => [] | FIExpr e => pe e | FIVar ds => TK KVar :: pdecls ds | FILet ds => TK KLet :: pdecls ds
  | FIConst ds => TK KConst :: pdecls ds
  end ++ [TP PSemicolon] ++ poe c ++ [TP PSemicolon] ++ poe st ++ [TP PCloseParen] ++ ps1 b.
Proof. reflexivity. Qed.
Lemma ps1_switch e cs : ps1 (SSwitch e cs) =
  [TK KSwitch; TP POpenParen] ++ pe e ++ [TP PCloseParen; TP POpenBlock] ++ pcases cs ++ [TP PCloseBlock].
Proof. reflexivity. Qed.
Lemma ps1_try b c f : ps1 (STry b c f) =
  [TK KTry] ++ pblock b ++
  match c with
  | Some (p, cb) => [TK KCatch] ++ match p with Some x => [TP POpenParen; TId x; TP PCloseParen] | None => [] end ++ pblock cb
  | None => []
  end ++
  match f with Some fb => [TK KFinally] ++ pblock fb | None => [] end.
Proof. reflexivity. Qed.
Lemma ps1_fundecl n ps b : ps1 (SFunDecl n ps b) = [TK KFunction; TId n] ++ print_params ps ++ pblock b.
Proof. reflexivity. Qed.
Lemma ps1_return e : ps1 (SReturn e) = [TK KReturn] ++ poe e ++ [TP PSemicolon]. Proof. reflexivity. Qed.

Lemma wfs_block aret b : wfs true aret (SBlock b) = wfis aret b. Proof. reflexivity. Qed.
Lemma wfs_var aret ds : wfs true aret (SVar ds) = nonempty ds && wfdecls true ds. Proof. reflexivity. Qed.
Lemma wfs_let aret ds : wfs true aret (SLet ds) = nonempty ds && wfdecls true ds. Proof. reflexivity. Qed.
Lemma wfs_const aret ds : wfs true aret (SConst ds) = nonempty ds && wfdecls true ds && all_init ds. Proof. reflexivity. Qed.
Lemma wfs_for aret i c st b : wfs true aret (SFor i c st b) =
  match i with
  | FINone => true
  | FIExpr e => wf true false e
  | FIVar ds | FILet ds => nonempty ds && wfdecls false ds
  | FIConst ds => nonempty ds && wfdecls false ds && all_init ds
  end &&
  match c with Some e => wf true true e | None => true end &&
  match st with Some e => wf true true e | None => true end &&
  wfs true aret b && negb (is_decl b).
Proof. reflexivity. Qed.
Lemma wfs_switch aret e cs : wfs true aret (SSwitch e cs) = wf true true e && (count_default cs <=? 1) && wfcases aret cs.
Proof. reflexivity. Qed.
Lemma wfs_try aret b c f : wfs true aret (STry b c f) =
  wfis aret b &&
  match c with Some (_, cb) => wfis aret cb | None => true end &&
  match f with Some fb => wfis aret fb | None => true end &&
  match c, f with None, None => false | _, _ => true end.
Proof. reflexivity. Qed.
Lemma wfs_fundecl aret n ps b : wfs true aret (SFunDecl n ps b) = wfis true b. Proof. reflexivity. Qed.
Lemma wf_func ain n ps b : wf true ain (EFunc n ps b) = wfis true b. Proof. reflexivity. Qed.
Lemma wf_arrow ain ps b : wf true ain (EArrow ps b) = nodupb ps && wfis true b. Proof. reflexivity. Qed.

(* ------------------------------------------------------------------ claims *)

Definition noelse (rest : list token) : bool := match rest with TK KElse :: _ => false | _ => true end.

Definition nofin (rest : list token) : bool := match rest with TK KFinally :: _ => false | _ => true end.

(* what may follow a printed statement: no `else` after a statement ending in an else-less `if`, never `finally` *)
Definition sfol (s : stmt) (rest : list token) : Prop :=
  (open_if s = true -> noelse rest = true) /\ nofin rest = true.

Definition Fstmt (aret : bool) (s : stmt) : Prop :=
  forall rest, sfol s rest -> ev (fun r => stmt_f r aret (ps1 s ++ rest)) (Ok s rest).
Definition Fitem (aret : bool) (s : stmt) : Prop :=
  forall rest, sfol s rest -> ev (fun r => item_f r aret (ps1 s ++ rest)) (Ok s rest).

(* ------------------------------------------------------------------ first tokens of statements *)

Definition sfirst (t : token) : bool :=
  match t with TK KElse | TK KCase | TK KDefault | TK KFinally | TP PCloseBlock => false | _ => true end.
Definition nfirst (t : token) : bool :=
  match t with TK KFunction | TK KConst | TK KLet => false | _ => true end.

Lemma estart_sfirst t : estart t = true -> sfirst t = true /\ (t <> TK KFunction -> nfirst t = true).
Proof. destruct t as [[]|[]| | | | | |]; cbn; intros; split; try reflexivity; try discriminate; intros; congruence. Qed.

Lemma ps1_first aret s : wfs true aret s = true ->
  exists t tl, ps1 s = t :: tl /\ sfirst t = true /\ (is_decl s = false -> nfirst t = true).
Proof.
  intros W. destruct s; try (eexists; eexists; split; [reflexivity|split; [reflexivity|intros; try reflexivity; discriminate]]).
  (* SExpr *)
  cbn [wfs] in W. apply andb_true_iff in W as [_ W]. cbn [negb orb] in W.
  cbn [ps1]. destruct (pe_start e) as (t & tl & E & Ht). rewrite E in *. cbn [app] in *.
  exists t, (tl ++ [TP PSemicolon]). split; [reflexivity|].
  destruct (estart_sfirst t Ht) as [H1 H2]. split; auto. intros _. apply H2.
  intros ->. cbn in W. discriminate.
Qed.

(* ------------------------------------------------------------------ dispatch lemmas *)

Lemma stmt_f_expr r aret ts : stmt_start_ok ts = true ->
  stmt_f r aret ts = do (e, r1) <- expr_f r true ts; do (_, r2) <- expect_semi r1; Ok (SExpr e) r2.
Proof.
  intros H. unfold stmt_f.
  destruct ts as [|t ts']; [discriminate|].
  destruct t as [p|k|s|n|s|b| |s]; try reflexivity.
  - destruct p; try reflexivity; discriminate.
  - destruct k; try reflexivity; discriminate.
  - destruct ts' as [|[p| | | | | | |] ts'']; try reflexivity. destruct p; try reflexivity. discriminate.
Qed.

Lemma item_f_stmt r aret t ts : nfirst t = true -> item_f r aret (t :: ts) = stmt_f r aret (t :: ts).
Proof.
  intros H. unfold item_f. destruct t as [p|k|s|n|s|b| |s]; try reflexivity. destruct k; try reflexivity; discriminate.
Qed.

Lemma Fitem_of_Fstmt aret s : wfs true aret s = true -> is_decl s = false -> Fstmt aret s -> Fitem aret s.
Proof.
  intros W Hd HF rest Hr.
  destruct (ps1_first aret s W) as (t & tl & E & _ & Hn). specialize (Hn Hd).
  eapply ev_ext. { intros r. rewrite E. cbn [app]. rewrite item_f_stmt by exact Hn. rewrite app_comm_cons, <- E. reflexivity. }
  apply HF; auto.
Qed.

Ltac norm := repeat (first [rewrite <- app_assoc | progress cbn [app]]).

(* ------------------------------------------------------------------ declarations *)

Lemma decls_ok ain ds : ds <> [] -> Forall (fun d => match snd d with Some e => F1 e | None => True end) ds ->
  wfdecls ain ds = true ->
  forall rest, ev (fun r => decls_f r ain (pdecls ds ++ TP PSemicolon :: rest)) (Ok ds (TP PSemicolon :: rest)).
Proof.
  induction ds as [|[x i] l IH]; intros Hne HF W rest; [congruence|].
  inversion HF as [|? ? Hx Hl]; subst. cbn [snd] in Hx.
  destruct l as [|d2 l'].
  - (* last declarator *)
    destruct i as [e|]; cbn [pdecls pinit app].
    + cbn [wfdecls] in W. apply andb_true_iff in W as [W _]. apply andb_true_iff in W as [Le We].
      unfold decls_f.
      eapply ev_bind. { apply ev_p_assign. apply Hx; auto. }
      ev_now.
    + ev_now.
  - assert (IH' := IH ltac:(discriminate) Hl).
    destruct i as [e|].
    + cbn [wfdecls] in W. apply andb_true_iff in W as [W Wl]. apply andb_true_iff in W as [Le We].
      change (pdecls ((x, Some e) :: d2 :: l')) with (TId x :: pinit (Some e) ++ [TP PComma] ++ pdecls (d2 :: l')).
      cbn [pinit]. repeat rewrite <- app_assoc. cbn [app]. rewrite <- app_assoc. unfold decls_f.
      eapply ev_bind. { apply ev_p_assign. apply Hx; auto. }
      cbn beta iota.
      eapply ev_bind. { apply ev_p_decls. apply IH'; auto. }
      ev_now.
    + cbn [wfdecls] in W.
      change (pdecls ((x, None) :: d2 :: l')) with (TId x :: pinit None ++ [TP PComma] ++ pdecls (d2 :: l')).
      cbn [pinit app]. unfold decls_f.
      eapply ev_bind. { apply ev_p_decls. apply IH'; auto. }
      ev_now.
Qed.

(* ------------------------------------------------------------------ simple statements *)

Lemma Fstmt_empty aret : Fstmt aret SEmpty.
Proof. intros rest _. ev_now. Qed.

Lemma Fstmt_debugger aret : Fstmt aret SDebugger.
Proof. intros rest _. ev_now. Qed.

Lemma Fstmt_break aret l : Fstmt aret (SBreak l).
Proof. intros rest _. destruct l; ev_now. Qed.

Lemma Fstmt_continue aret l : Fstmt aret (SContinue l).
Proof. intros rest _. destruct l; ev_now. Qed.

Lemma Fstmt_block aret b : Fitems aret b -> Fstmt aret (SBlock b).
Proof.
  intros Hb rest _. rewrite ps1_block. unfold pblock. repeat rewrite <- app_assoc. cbn [app].
  unfold stmt_f. eapply ev_bind. { apply block_ok; auto. } ev_now.
Qed.

Lemma Fstmt_expr aret e : F0 e -> wfs true aret (SExpr e) = true -> Fstmt aret (SExpr e).
Proof.
  intros He W rest _. cbn [wfs] in W. apply andb_true_iff in W as [We Ws]. cbn [negb orb] in Ws.
  cbn [ps1]. rewrite <- app_assoc. cbn [app].
  assert (Hst : stmt_start_ok (pe e ++ TP PSemicolon :: rest) = true).
  { destruct (pe_start e) as (t & tl & E & Ht). rewrite E in *. cbn [app] in *.
    destruct t as [p|k|s|n|s|b| |s]; auto. destruct tl; auto. }
  eapply ev_ext. { intros r. rewrite stmt_f_expr by exact Hst. reflexivity. }
  eapply ev_bind. { apply He; auto. }
  ev_now.
Qed.

Lemma Fstmt_var aret ds : Forall (fun d => match snd d with Some e => F1 e | None => True end) ds ->
  wfs true aret (SVar ds) = true -> Fstmt aret (SVar ds).
Proof.
  intros HF W rest _. rewrite wfs_var in W. apply andb_true_iff in W as [Hne W].
  rewrite ps1_var. repeat rewrite <- app_assoc. cbn [app]. unfold stmt_f.
  eapply ev_bind. { apply decls_ok; auto. destruct ds; [discriminate|congruence]. }
  ev_now.
Qed.

Lemma Fstmt_throw aret e : F0 e -> wf true true e = true -> Fstmt aret (SThrow e).
Proof.
  intros He W rest _. cbn [ps1]. repeat rewrite <- app_assoc. cbn [app]. unfold stmt_f.
  eapply ev_bind. { apply ev_p_expr. apply He; auto. } ev_now.
Qed.

Lemma Fstmt_return_none : Fstmt true (SReturn None).
Proof. intros rest _. ev_now. Qed.

Lemma Fstmt_return_some e : F0 e -> wf true true e = true -> Fstmt true (SReturn (Some e)).
Proof.
  intros He W rest _. rewrite ps1_return. cbn [poe]. repeat rewrite <- app_assoc. cbn [app].
  destruct (pe_start e) as (t & tl & E & Ht). destruct (estart_not_close t Ht) as (_ & _ & Hb & _ & _ & Hsc & _).
  eapply ev_ext.
  { intros r. unfold stmt_f. rewrite E. cbn [app].
    instantiate (1 := fun r => do (e0, r1) <- p_expr r true (t :: tl ++ TP PSemicolon :: rest); do (_, r2) <- expect_semi r1; Ok (SReturn (Some e0)) r2).
    destruct t as [p|k|s|n|s|b| |s]; try reflexivity. destruct p; try reflexivity; congruence. }
  eapply ev_bind. { apply ev_p_expr. rewrite app_comm_cons, <- E. apply He; auto. }
  ev_now.
Qed.

(* ------------------------------------------------------------------ compound statements *)

Lemma first_follow aret s rest : wfs true aret s = true -> noelse (ps1 s ++ rest) = true /\ nofin (ps1 s ++ rest) = true.
Proof.
  intros W. destruct (ps1_first aret s W) as (t & tl & -> & Hs & _).
  destruct t as [p|k|s0|n|s0|b| |s0]; auto. destruct k; auto; discriminate.
Qed.

Lemma Fstmt_if aret c t f :
  F0 c -> Fstmt aret t -> match f with Some x => Fstmt aret x | None => True end ->
  wfs true aret (SIf c t f) = true -> Fstmt aret (SIf c t f).
Proof.
  intros Hc Ht Hf W rest [Hr Hfin]. cbn [wfs] in W.
  apply andb_true_iff in W as [W Wf]. apply andb_true_iff in W as [W Hdt]. apply andb_true_iff in W as [Wc Wt].
  cbn [ps1]. repeat rewrite <- app_assoc. cbn [app]. unfold stmt_f.
  eapply ev_bind. { apply ev_p_expr. apply Hc; auto. }
  cbn [expect_p punct_eqb bind].
  destruct f as [x|].
  - apply andb_true_iff in Wf as [Wf Hop]. apply andb_true_iff in Wf as [Wx Hdx].
    repeat rewrite <- app_assoc. cbn [app].
    eapply ev_bind. { apply ev_p_stmt. apply Ht. split; [|reflexivity]. intros Ho. rewrite Ho in Hop. discriminate. }
    cbn beta iota.
    eapply ev_bind. { apply ev_p_stmt. apply Hf. split; auto. }
    ev_now.
  - rewrite app_nil_l.
    eapply ev_bind. { apply ev_p_stmt. apply Ht. split; auto. }
    specialize (Hr eq_refl). destruct rest as [|[p|k|s|n|s|b| |s] r']; try ev_now. destruct k; try ev_now. discriminate.
Qed.

Lemma Fstmt_while aret c b : F0 c -> Fstmt aret b -> wf true true c = true -> Fstmt aret (SWhile c b).
Proof.
  intros Hc Hb Wc rest Hr. cbn [ps1]. repeat rewrite <- app_assoc. cbn [app]. unfold stmt_f.
  eapply ev_bind. { apply ev_p_expr. apply Hc; auto. }
  cbn [expect_p punct_eqb bind].
  eapply ev_bind. { apply ev_p_stmt. apply Hb. exact Hr. }
  ev_now.
Qed.

Lemma Fstmt_dowhile aret b c : Fstmt aret b -> F0 c -> wf true true c = true -> Fstmt aret (SDoWhile b c).
Proof.
  intros Hb Hc Wc rest _. cbn [ps1]. repeat rewrite <- app_assoc. cbn [app]. unfold stmt_f.
  eapply ev_bind. { apply ev_p_stmt. apply Hb. split; reflexivity. }
  cbn [expect_k keyword_beq keyword_idx Nat.eqb expect_p punct_eqb bind].
  eapply ev_bind. { apply ev_p_expr. apply Hc; auto. }
  ev_now.
Qed.

Lemma Fstmt_labelled aret l x : Fstmt aret x -> wfs true aret x = true -> is_decl x = false -> Fstmt aret (SLabelled l x).
Proof.
  intros Hx Wx Hd rest Hr. cbn [ps1 app].
  destruct (ps1_first aret x Wx) as (t & tl & E & _ & Hn). specialize (Hn Hd).
  eapply ev_ext.
  { intros r. unfold stmt_f. rewrite E. cbn [app].
    instantiate (1 := fun r => do (s, r1) <- p_stmt r aret (t :: tl ++ rest); Ok (SLabelled l s) r1).
    destruct t as [p|k|s|n|s|b| |s]; try reflexivity. destruct k; try reflexivity; discriminate. }
  eapply ev_bind. { apply ev_p_stmt. rewrite app_comm_cons, <- E. apply Hx. exact Hr. }
  ev_now.
Qed.

Lemma Fstmt_try aret b c f :
  Fitems aret b -> match c with Some (_, cb) => Fitems aret cb | None => True end ->
  match f with Some fb => Fitems aret fb | None => True end ->
  match c, f with None, None => False | _, _ => True end ->
  Fstmt aret (STry b c f).
Proof.
  intros Hb Hc Hf Hcf rest [_ Hfin]. rewrite ps1_try. unfold pblock. norm.
  unfold stmt_f, try_f.
  eapply ev_bind. { apply block_ok; auto. }
  assert (Hnf : forall r (st : stmt), 
     (do (f0, r2) <- match rest with TK KFinally :: r2 => do (fb, r3) <- block_f r aret r2; Ok (Some fb) r3 | _ => Ok None rest end;
      (fun f1 => Ok st r2) f0) = Ok st rest).
  { intros r st. destruct rest as [|[p|k|s|n|s|b0| |s] r']; try reflexivity. destruct k; try reflexivity. discriminate. }
  destruct c as [[[x|] cb]|]; norm.
  - eapply ev_bind. { eapply ev_bind. { apply block_ok; auto. } ev_now. }
    destruct f as [fb|]; norm.
    + eapply ev_bind. { eapply ev_bind. { apply block_ok; auto. } ev_now. } ev_now.
    + exists 0. intros n0 _. cbn beta.
      destruct rest as [|[p|k|s|n|s|b0| |s] r']; try reflexivity. destruct k; try reflexivity. discriminate.
  - eapply ev_bind. { eapply ev_bind. { apply block_ok; auto. } ev_now. }
    destruct f as [fb|]; norm.
    + eapply ev_bind. { eapply ev_bind. { apply block_ok; auto. } ev_now. } ev_now.
    + exists 0. intros n0 _. cbn beta.
      destruct rest as [|[p|k|s|n|s|b0| |s] r']; try reflexivity. destruct k; try reflexivity. discriminate.
  - destruct f as [fb|]; [|contradiction]. norm.
    cbn [bind].
    eapply ev_bind. { eapply ev_bind. { apply block_ok; auto. } ev_now. } ev_now.
Qed.

(* ------------------------------------------------------------------ for statements *)

Definition Fo0 (o : option expr) : Prop := match o with Some e => F0 e /\ wf true true e = true | None => True end.

Lemma for_rest_ok aret i c st b rest : Fo0 c -> Fo0 st -> Fstmt aret b -> sfol b rest ->
  ev (fun r => for_rest_f r aret i (TP PSemicolon :: poe c ++ TP PSemicolon :: poe st ++ TP PCloseParen :: ps1 b ++ rest))
     (Ok (SFor i c st b) rest).
Proof.
  intros Hc Hst Hb Hr. unfold for_rest_f. cbn [expect_p punct_eqb bind].
  eapply ev_bind.
  { instantiate (1 := poe st ++ TP PCloseParen :: ps1 b ++ rest). instantiate (1 := c).
    destruct c as [e|]; cbn [poe app]; [|ev_now].
    destruct Hc as [He We].
    destruct (pe_start e) as (t & tl & E & Ht). destruct (estart_not_close t Ht) as (_ & _ & _ & _ & _ & Hsc & _).
    eapply ev_ext.
    { intros r. rewrite E. cbn [app].
      instantiate (1 := fun r => do (e0, r1) <- p_expr r true (t :: tl ++ TP PSemicolon :: poe st ++ TP PCloseParen :: ps1 b ++ rest);
                                 do (_, r2) <- expect_p PSemicolon r1; Ok (Some e0) r2).
      destruct t as [p|k|s|n|s|b0| |s]; try reflexivity. destruct p; try reflexivity; congruence. }
    eapply ev_bind. { apply ev_p_expr. rewrite app_comm_cons, <- E. apply He; auto. }
    ev_now. }
  cbn beta.
  eapply ev_bind.
  { instantiate (1 := ps1 b ++ rest). instantiate (1 := st).
    destruct st as [e|]; cbn [poe app]; [|ev_now].
    destruct Hst as [He We].
    destruct (pe_start e) as (t & tl & E & Ht). destruct (estart_not_close t Ht) as (Hcp & _).
    eapply ev_ext.
    { intros r. rewrite E. cbn [app].
      instantiate (1 := fun r => do (e0, r2) <- p_expr r true (t :: tl ++ TP PCloseParen :: ps1 b ++ rest);
                                 do (_, r3) <- expect_p PCloseParen r2; Ok (Some e0) r3).
      destruct t as [p|k|s|n|s|b0| |s]; try reflexivity. destruct p; try reflexivity; congruence. }
    eapply ev_bind. { apply ev_p_expr. rewrite app_comm_cons, <- E. apply He; auto. }
    ev_now. }
  cbn beta.
  eapply ev_bind. { apply ev_p_stmt. apply Hb. exact Hr. }
  ev_now.
Qed.

Definition Fdecls (ds : list (string * option expr)) : Prop :=
  Forall (fun d => match snd d with Some e => F1 e | None => True end) ds.

Lemma Fstmt_for aret i c st b :
  match i with
  | FINone => True | FIExpr e => F0 e | FIVar ds | FILet ds | FIConst ds => Fdecls ds
  end -> Fo0 c -> Fo0 st -> Fstmt aret b ->
  wfs true aret (SFor i c st b) = true -> Fstmt aret (SFor i c st b).
Proof.
  intros Hi Hc Hst Hb W rest Hr. rewrite wfs_for in W.
  repeat (apply andb_true_iff in W as [W ?]).
  assert (Hr' : sfol b rest) by exact Hr.
  rewrite ps1_for. norm. unfold stmt_f.
  destruct i as [|e|ds|ds|ds]; norm.
  - unfold for_f. apply for_rest_ok; auto.
  - destruct (pe_start e) as (t & tl & E & Ht). destruct (estart_not_close t Ht) as (_ & _ & _ & _ & _ & Hsc & _).
    eapply ev_ext.
    { intros r. unfold for_f. rewrite E. cbn [app].
      instantiate (1 := fun r => do (e0, r1) <- expr_f r false (t :: tl ++ TP PSemicolon :: poe c ++ TP PSemicolon :: poe st ++ TP PCloseParen :: ps1 b ++ rest);
        if is_inof r1 then match as_simple e0 with Some tg => for_inof_f r aret (FHTarget tg) r1 | None => Err end
        else for_rest_f r aret (FIExpr e0) r1).
      destruct t as [p|k|s|n|s|b0| |s]; try reflexivity.
      - destruct p; try reflexivity; congruence.
      - destruct k; try reflexivity; discriminate Ht. }
    eapply ev_bind. { rewrite app_comm_cons, <- E. apply Hi; auto. }
    cbn [is_inof]. apply for_rest_ok; auto.
  - apply andb_true_iff in W as [Hne Wd]. unfold for_f.
    eapply ev_bind. { apply decls_ok; auto. destruct ds; [discriminate|congruence]. }
    cbn [is_inof]. apply for_rest_ok; auto.
  - apply andb_true_iff in W as [Hne Wd]. unfold for_f.
    eapply ev_bind. { apply decls_ok; auto. destruct ds; [discriminate|congruence]. }
    cbn [is_inof]. apply for_rest_ok; auto.
  - apply andb_true_iff in W as [W Hai]. apply andb_true_iff in W as [Hne Wd]. unfold for_f.
    eapply ev_bind. { apply decls_ok; auto. destruct ds; [discriminate|congruence]. }
    cbn [is_inof]. rewrite Hai. apply for_rest_ok; auto.
Qed.

Lemma wf_simple_ain t a : is_simple t = true -> wf true a t = wf true true t.
Proof. destruct t; cbn [is_simple]; try discriminate; reflexivity. Qed.

Lemma forinof_head_ok aret h (isin : bool) (K : parsers -> list token -> res stmt) R :
  match h with FHTarget t => F0 t /\ is_simple t = true /\ wf true true t = true | _ => True end ->
  let hw := match h with FHVar x => [TK KVar; TId x] | FHLet x => [TK KLet; TId x] | FHConst x => [TK KConst; TId x]
                       | FHTarget t => pe t end in
  let kw := if isin then TK KIn else TK KOf in
  forall v, ev (fun r => for_inof_f r aret h (kw :: R)) v ->
            ev (fun r => for_f r aret (hw ++ kw :: R)) v.
Proof.
  intros Hh hw kw v Hv. subst hw kw.
  destruct h as [x|x|x|t]; cbn [app].
  - unfold for_f, decls_f. destruct isin; cbn [bind is_inof]; exact Hv.
  - unfold for_f, decls_f. destruct isin; cbn [bind is_inof]; exact Hv.
  - unfold for_f, decls_f. destruct isin; cbn [bind is_inof]; exact Hv.
  - destruct Hh as (Ht & Hs & Wt).
    destruct (pe_start t) as (t0 & tl & E & Ht0). destruct (estart_not_close t0 Ht0) as (_ & _ & _ & _ & _ & Hsc & _).
    eapply ev_ext.
    { intros r. unfold for_f. rewrite E. cbn [app].
      instantiate (1 := fun r => do (e0, r1) <- expr_f r false (t0 :: tl ++ (if isin then TK KIn else TK KOf) :: R);
        if is_inof r1 then match as_simple e0 with Some tg => for_inof_f r aret (FHTarget tg) r1 | None => Err end
        else for_rest_f r aret (FIExpr e0) r1).
      destruct t0 as [p|k|s|n|s|b0| |s]; try reflexivity.
      - destruct p; try reflexivity; congruence.
      - destruct k; try reflexivity; discriminate Ht0. }
    eapply ev_bind.
    { rewrite app_comm_cons, <- E. apply Ht. { rewrite wf_simple_ain; auto. } destruct isin; reflexivity. }
    cbn beta. rewrite (as_simple_simple t Hs). destruct isin; cbn [is_inof]; exact Hv.
Qed.

Lemma Fstmt_forin aret h e b :
  match h with FHTarget t => F0 t /\ is_simple t = true /\ wf true true t = true | _ => True end ->
  F0 e -> wf true true e = true -> Fstmt aret b -> Fstmt aret (SForIn h e b).
Proof.
  intros Hh He We Hb rest Hr.
  cbn [ps1]. norm. unfold stmt_f.
  apply (forinof_head_ok aret h true (fun _ _ => Err) (pe e ++ TP PCloseParen :: ps1 b ++ rest) Hh).
  unfold for_inof_f.
  eapply ev_bind. { apply ev_p_expr. apply He; auto. }
  cbn [expect_p punct_eqb bind].
  eapply ev_bind. { apply ev_p_stmt. apply Hb. exact Hr. }
  ev_now.
Qed.

Lemma Fstmt_forof aret h e b :
  match h with FHTarget t => F0 t /\ is_simple t = true /\ wf true true t = true | _ => True end ->
  F1 e -> wf true true e = true -> Fstmt aret b -> Fstmt aret (SForOf h e b).
Proof.
  intros Hh He We Hb rest Hr.
  cbn [ps1]. norm. unfold stmt_f.
  apply (forinof_head_ok aret h false (fun _ _ => Err) (pe e ++ TP PCloseParen :: ps1 b ++ rest) Hh).
  unfold for_inof_f.
  eapply ev_bind. { apply ev_p_assign. apply He; auto. }
  cbn [expect_p punct_eqb bind].
  eapply ev_bind. { apply ev_p_stmt. apply Hb. exact Hr. }
  ev_now.
Qed.

(* ------------------------------------------------------------------ switch *)

Lemma iend_pcases cs rest : iend (pcases cs ++ TP PCloseBlock :: rest) = true.
Proof. destruct cs as [|[[c|] b] l]; reflexivity. Qed.

Lemma cases_ok aret cs : forall rest,
  Forall (fun cb => match fst cb with Some c => F0 c | None => True end /\ Fitems aret (snd cb)) cs ->
  wfcases aret cs = true ->
  ev (fun r => cases_f r aret (pcases cs ++ TP PCloseBlock :: rest)) (Ok cs rest).
Proof.
  induction cs as [|[c b] l IH]; intros rest HF W; [ev_now|].
  inversion HF as [|? ? [Hc Hb] Hl]; subst. cbn [fst snd] in *.
  cbn [wfcases] in W. apply andb_true_iff in W as [W Wl]. apply andb_true_iff in W as [Wc Wb].
  assert (Hi : ev (fun r => p_items r aret (pitems b ++ pcases l ++ TP PCloseBlock :: rest)) (Ok b (pcases l ++ TP PCloseBlock :: rest))).
  { apply ev_p_items. apply Hb. apply iend_pcases. }
  assert (Ht : ev (fun r => p_cases r aret (pcases l ++ TP PCloseBlock :: rest)) (Ok l rest)).
  { apply ev_p_cases. apply IH; auto. }
  destruct c as [c|]; cbn [pcases]; norm; unfold cases_f.
  - eapply ev_bind. { apply ev_p_expr. apply Hc; auto. }
    cbn [expect_p punct_eqb bind].
    eapply ev_bind; [exact Hi|]. eapply ev_bind; [exact Ht|]. ev_now.
  - eapply ev_bind; [exact Hi|]. eapply ev_bind; [exact Ht|]. ev_now.
Qed.

Lemma Fstmt_switch aret e cs :
  F0 e -> Forall (fun cb => match fst cb with Some c => F0 c | None => True end /\ Fitems aret (snd cb)) cs ->
  wfs true aret (SSwitch e cs) = true -> Fstmt aret (SSwitch e cs).
Proof.
  intros He Hcs W rest _. rewrite wfs_switch in W. apply andb_true_iff in W as [W Wcs]. apply andb_true_iff in W as [We Hcd].
  rewrite ps1_switch. norm. unfold stmt_f.
  eapply ev_bind. { apply ev_p_expr. apply He; auto. }
  cbn [expect_p punct_eqb bind].
  eapply ev_bind. { apply ev_p_cases. apply cases_ok; auto. }
  rewrite Hcd. ev_now.
Qed.

(* ------------------------------------------------------------------ declarations as statement list items *)

Lemma sfol_any s rest : sfol s rest -> True. Proof. auto. Qed.

Lemma Fitem_let aret ds : Fdecls ds -> wfs true aret (SLet ds) = true -> Fitem aret (SLet ds).
Proof.
  intros HF W rest _. rewrite wfs_let in W. apply andb_true_iff in W as [Hne W].
  rewrite ps1_let. norm.
  destruct ds as [|[x i] l]; [discriminate|].
  assert (E : exists tl, pdecls ((x, i) :: l) = TId x :: tl).
  { destruct l as [|d l']; [eexists; reflexivity|]. eexists. reflexivity. }
  destruct E as [tl E].
  eapply ev_ext.
  { intros r. unfold item_f. rewrite E. cbn [app]. rewrite app_comm_cons, <- E. reflexivity. }
  eapply ev_bind. { apply decls_ok; auto. discriminate. }
  ev_now.
Qed.

Lemma Fitem_const aret ds : Fdecls ds -> wfs true aret (SConst ds) = true -> Fitem aret (SConst ds).
Proof.
  intros HF W rest _. rewrite wfs_const in W. apply andb_true_iff in W as [W Hai]. apply andb_true_iff in W as [Hne W].
  rewrite ps1_const. norm. unfold item_f.
  eapply ev_bind. { apply decls_ok; auto. destruct ds; [discriminate|congruence]. }
  cbn [expect_semi bind]. rewrite Hai. ev_now.
Qed.

Lemma Fitem_fundecl aret n ps b : Fitems true b -> Fitem aret (SFunDecl n ps b).
Proof.
  intros Hb rest _. rewrite ps1_fundecl. unfold pblock. norm. unfold item_f.
  rewrite params_ok. cbn [bind].
  eapply ev_bind. { apply fbody_ok; auto. }
  ev_now.
Qed.

(* ------------------------------------------------------------------ statement lists *)

Lemma iend_follow rest : iend rest = true -> noelse rest = true /\ nofin rest = true.
Proof. destruct rest as [|[p|k|s|n|s|b| |s] r]; try discriminate; auto. destruct k; try discriminate; auto. Qed.

Lemma items_ok aret b : Forall (Fitem aret) b -> wfis aret b = true -> Fitems aret b.
Proof.
  induction b as [|s l IH]; intros HF W rest Hr.
  - cbn [pitems app]. unfold items_f.
    destruct rest as [|[p|k|s|n|s|b| |s] r]; try discriminate; try ev_now.
    + destruct p; try discriminate; ev_now.
    + destruct k; try discriminate; ev_now.
  - inversion HF as [|? ? Hs Hl]; subst.
    change (wfis aret (s :: l)) with (wfs true aret s && wfis aret l) in W. apply andb_true_iff in W as [Ws Wl].
    cbn [pitems]. rewrite <- app_assoc.
    destruct (ps1_first aret s Ws) as (t & tl & E & Hsf & _).
    eapply ev_ext.
    { intros r. unfold items_f. rewrite E. cbn [app].
      instantiate (1 := fun r => do (s0, r0) <- item_f r aret (t :: tl ++ pitems l ++ rest); do (l0, r1) <- p_items r aret r0; Ok (s0 :: l0) r1).
      destruct t as [p|k|s0|n|s0|b| |s0]; try reflexivity.
      - destruct p; try reflexivity; discriminate.
      - destruct k; try reflexivity; discriminate. }
    eapply ev_bind.
    { rewrite app_comm_cons, <- E. apply Hs.
      destruct l as [|s2 l'].
      - cbn [pitems app]. destruct (iend_follow rest Hr). split; auto.
      - change (wfis aret (s2 :: l')) with (wfs true aret s2 && wfis aret l') in Wl. apply andb_true_iff in Wl as [Ws2 _].
        cbn [pitems]. rewrite <- app_assoc. destruct (first_follow aret s2 (pitems l' ++ rest) Ws2). split; auto. }
    eapply ev_bind. { apply ev_p_items. apply IH; auto. }
    ev_now.
Qed.
