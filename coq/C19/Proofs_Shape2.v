(* C19 proofs, part 7: shape of parsed statements, the invariant over the fuel, and the theorem. *)
From Coq Require Import List String NArith Bool Arith Lia.
From C19 Require Import Model_C19 Proofs_Base Proofs_Shape.
Import ListNotations.

Section Shape2.
Variable rec : parsers.
Hypothesis O : out rec.

Ltac use_claims :=
  repeat match goal with
  | E : p_expr rec true _ = Ok _ _ |- _ => apply (o_expr rec O) in E
  | E : expr_f rec true _ = Ok _ _ |- _ => apply (expr_out rec O) in E
  | E : p_stmt rec _ _ = Ok _ _ |- _ => apply (o_stmt rec O) in E as (? & ? & ?)
  | E : block_f rec _ _ = Ok _ _ |- _ => apply (block_out rec O) in E
  | E : decls_f rec true _ = Ok _ _ |- _ => apply (decls_out rec O) in E as [? ?]
  | E : p_cases rec _ _ = Ok _ _ |- _ => apply (o_cases rec O) in E
  | E : fbody_f rec _ = Ok _ _ |- _ => apply (fbody_out rec O) in E
  | E : p_items rec _ _ = Ok _ _ |- _ => apply (o_items rec O) in E
  end.

Lemma stmt_out aret ts s r : stmt_f rec aret ts = Ok s r -> sout aret s r.
Proof.
  unfold stmt_f. intros H.
  assert (Hexpr : forall ts0, (do (e, r1) <- expr_f rec true ts0; do (_, r2) <- expect_semi r1; Ok (SExpr e) r2) = Ok s r ->
            sout aret s r).
  { intros ts0 Hq. inv Hq. use_claims. apply sout_plain; try reflexivity. cbn [wfs negb orb]. rewrite E. reflexivity. }
  destruct ts as [|t ts']; [exact (Hexpr _ H)|].
  destruct t; try exact (Hexpr _ H).
  - (* punctuators *)
    match goal with p : punct |- _ => destruct p end; try exact (Hexpr _ H).
    + (* block *) inv H. use_claims. apply sout_plain; try reflexivity. exact E.
    + (* empty *) inv H. apply sout_plain; reflexivity.
  - (* keywords *)
    match goal with k : keyword |- _ => destruct k end; try exact (Hexpr _ H).
    all: try (inv H; inv_all; use_claims).
    all: try (eapply (for_out rec O); eassumption).
    all: try (eapply (try_out rec O); eassumption).
    all: try exact (Hexpr _ H).
    all: try (match goal with |- sout _ (SVar ?a) _ =>
           apply sout_plain; try reflexivity; change (wfs false aret (SVar a)) with (nonemptyb a && wfdeclsF true a);
           tt; auto using nonempty_ne end).
    all: try (match goal with |- sout _ (SSwitch ?e ?cs) _ =>
           apply sout_plain; try reflexivity;
           change (wfs false aret (SSwitch e cs)) with (wf false true e && (count_default cs <=? 1) && wfcasesF aret cs);
           tt; auto end).
    all: unfold sout; cbn [wfs is_decl open_if];
         repeat match goal with Hd : is_decl _ = false |- _ => rewrite Hd end; cbn [negb]; rewrite ?andb_true_r.
    all: repeat match goal with Ho : open_if ?t = true -> noelse (TK KElse :: _) = true |- _ =>
           destruct (open_if t) eqn:?; [specialize (Ho eq_refl); discriminate Ho|clear Ho] end.
    all: repeat split; tt; auto; try reflexivity; try (intros; reflexivity); try discriminate.
  - (* identifier: label or expression statement *)
    destruct ts' as [|t2 ts'']; [exact (Hexpr _ H)|].
    destruct t2; try exact (Hexpr _ H).
    match goal with p : punct |- _ => destruct p end; try exact (Hexpr _ H).
    inv H; inv_all; use_claims.
    all: unfold sout; cbn [wfs is_decl open_if];
         repeat match goal with Hd : is_decl _ = false |- _ => rewrite Hd end; cbn [negb]; rewrite ?andb_true_r.
    all: repeat split; tt; auto.
Qed.

Lemma item_out aret ts s r : item_f rec aret ts = Ok s r ->
  wfs false aret s = true /\ (open_if s = true -> noelse r = true).
Proof.
  unfold item_f. intros H.
  assert (Hs : stmt_f rec aret ts = Ok s r -> wfs false aret s = true /\ (open_if s = true -> noelse r = true)).
  { intros Hq. apply stmt_out in Hq as (W & D & Oi). auto. }
  destruct ts as [|t ts']; [exact (Hs H)|].
  destruct t; try exact (Hs H).
  match goal with k : keyword |- _ => destruct k end; try exact (Hs H).
  all: inv H; inv_all; use_claims.
  all: try exact (Hs H).
  all: try (match goal with E : stmt_f rec _ _ = Ok _ _ |- _ => apply stmt_out in E as (W & D & Oi); auto end).
  all: split; [|cbn [open_if]; intros C; discriminate C].
  all: try (match goal with |- wfs false ?a (SFunDecl ?n ?ps ?b) = true =>
         change (wfs false a (SFunDecl n ps b)) with (wfisF true b); assumption end).
  all: try (match goal with |- wfs false ?a (SConst ?ds) = true =>
         change (wfs false a (SConst ds)) with (nonemptyb ds && wfdeclsF true ds && all_init ds); tt; auto using nonempty_ne end).
  all: try (match goal with |- wfs false ?a (SLet ?ds) = true =>
         change (wfs false a (SLet ds)) with (nonemptyb ds && wfdeclsF true ds); tt; auto using nonempty_ne end).
Qed.

Lemma items_out aret ts l r : items_f rec aret ts = Ok l r -> wfisF aret l = true.
Proof.
  unfold items_f. intros H.
  assert (Hi : forall ts0, (do (s, r0) <- item_f rec aret ts0; do (l0, r1) <- p_items rec aret r0; Ok (s :: l0) r1) = Ok l r ->
            wfisF aret l = true).
  { intros ts0 Hq. inv Hq. apply item_out in E as [W _]. apply (o_items rec O) in E0.
    change (wfisF aret (a :: a0)) with (wfs false aret a && wfisF aret a0). tt; auto. }
  destruct ts as [|t ts']; [inv H; reflexivity|].
  destruct t; try exact (Hi _ H).
  - match goal with p : punct |- _ => destruct p end; try exact (Hi _ H). inv H. reflexivity.
  - match goal with k : keyword |- _ => destruct k end; try exact (Hi _ H); inv H; reflexivity.
Qed.

Lemma step_out : out (step rec).
Proof.
  constructor; intros *; cbn [step p_expr p_assign p_comma_loop p_sc p_sc_loop p_bin p_bin_loop p_exp p_unary p_member
    p_member_loop p_call_loop p_args_loop p_elems p_props p_stmt p_items p_decls p_cases].
  - apply (expr_out rec O).
  - apply (assign_out rec O).
  - apply (comma_loop_out rec O).
  - apply (sc_out rec O).
  - apply (sc_loop_out rec O).
  - apply (bin_at_out rec O).
  - apply (bin_loop_out rec O).
  - apply (exp_out rec O).
  - apply (unary_out rec O).
  - apply (member_out rec O).
  - apply (member_loop_out rec O).
  - apply (call_loop_out rec O).
  - apply (args_loop_out rec O).
  - apply (elems_out rec O).
  - apply (props_out rec O).
  - apply stmt_out.
  - apply items_out.
  - apply (decls_out rec O).
  - apply (cases_out rec O).
Qed.

End Shape2.

Lemma out_n n : out (parsers_n n).
Proof. induction n; [apply out_nofuel|]. cbn [parsers_n]. apply step_out. exact IHn. Qed.

Theorem parse_shaped_core_thm : forall ts a, parse_tokens ts = Some a -> shaped_core a.
Proof.
  intros ts a H. unfold parse_tokens, parse_script in H.
  destruct (items_f (parsers_n (fuel_for ts)) false ts) as [l r| |] eqn:E; cbn [bind] in H; try discriminate.
  destruct r; try discriminate. inversion H; subst.
  apply (items_out _ (out_n _)) in E. unfold shaped_core, shaped_coreb. rewrite <- wfisF_eq. exact E.
Qed.
