(* C19 proofs, part 7: shape of parsed statements, the invariant over the fuel, and the theorem. *)
From Coq Require Import List String NArith Bool Arith Lia.
From C19 Require Import Model_C19 Proofs_Base Proofs_Shape.
Import ListNotations.

Section Shape2.
Variable rec : parsers.
Hypothesis O : out rec.

Ltac use_claims :=
  repeat match goal with
  | E : p_expr rec true _ = Ok _ _ |- _ => apply (o_expr rec O) in E
  | E : expr_f rec true _ = Ok _ _ |- _ => apply (expr_out rec O) in E
  | E : p_stmt rec _ _ = Ok _ _ |- _ => apply (o_stmt rec O) in E as (? & ? & ?)
  | E : block_f rec _ _ = Ok _ _ |- _ => apply (block_out rec O) in E
  | E : decls_f rec true _ = Ok _ _ |- _ => apply (decls_out rec O) in E as [? ?]
  | E : p_cases rec _ _ = Ok _ _ |- _ => apply (o_cases rec O) in E
  | E : fbody_f rec _ = Ok _ _ |- _ => apply (fbody_out rec O) in E
  | E : p_items rec _ _ = Ok _ _ |- _ => apply (o_items rec O) in E
  end.

Lemma stmt_out aret ts s r : stmt_f rec aret ts = Ok s r -> sout aret s r.
Proof.
  unfold stmt_f. intros H.
  assert (Hexpr : forall ts0, (do (e, r1) <- expr_f rec true ts0; do (_, r2) <- expect_semi r1; Ok (SExpr e) r2) = Ok s r ->
            sout aret s r).
  { intros ts0 Hq. inv Hq. use_claims. apply sout_plain; try reflexivity. cbn [wfs negb orb]. rewrite E. reflexivity. }
  destruct ts as [|t ts']; [exact (Hexpr _ H)|].
  destruct t; try exact (Hexpr _ H).
  - (* punctuators *)
    match goal with p : punct |- _ => destruct p end; try exact (Hexpr _ H).
    + (* block *) inv H. use_claims. apply sout_plain; try reflexivity. exact E.
    + (* empty *) inv H. apply sout_plain; reflexivity.
  - (* keywords *)
    match goal with k : keyword |- _ => destruct k end; try exact (Hexpr _ H).
    all: try (inv H; inv_all; use_claims).
    all: try (apply sout_plain; try reflexivity; cbn [wfs]; tt; auto; fail).
    all: try (eapply (for_out rec O); eassumption).
    all: try (eapply (try_out rec O); eassumption).
    all: try exact (Hexpr _ H).
    Show.
Abort.
End Shape2.
