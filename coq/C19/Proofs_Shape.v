(* C19 proofs, part 6: every AST the model parser returns is core-shaped (`shaped_core`: parenthesised where the
   grammar requires it, except for the start of expression statements). *)
From Coq Require Import List String NArith Bool Arith Lia.
From C19 Require Import Model_C19 Proofs_Base.
Import ListNotations.

Lemma bind_ok {A B} (x : res A) (k : A -> list token -> res B) b r :
  bind x k = Ok b r -> exists a r', x = Ok a r' /\ k a r' = Ok b r.
Proof. destruct x as [a r'| |]; cbn [bind]; try discriminate. eauto. Qed.

(* decompose a hypothesis `... = Ok _ _` along binds, matches and ifs *)
Ltac inv H :=
  repeat match type of H with
  | bind ?x ?k = Ok _ _ =>
      let a := fresh "a" in let r := fresh "r" in let E := fresh "E" in
      destruct x as [a r| |] eqn:E; cbn [bind] in H; try discriminate H
  | match ?s with _ => _ end = Ok _ _ => destruct s eqn:?; try discriminate H
  | (if ?c then _ else _) = Ok _ _ => destruct c eqn:?; try discriminate H
  | Ok _ _ = Ok _ _ => inversion H; subst; clear H
  | Err = Ok _ _ => discriminate H
  | Fuel = Ok _ _ => discriminate H
  end.

Ltac inv_all :=
  repeat match goal with
  | E : bind _ _ = Ok _ _ |- _ => inv E
  | E : match _ with _ => _ end = Ok _ _ |- _ => inv E
  | E : (if _ then _ else _) = Ok _ _ |- _ => inv E
  | E : Ok _ _ = Ok _ _ |- _ => inv E
  | E : Err = Ok _ _ |- _ => discriminate E
  end.

Ltac tt := repeat match goal with
  | H : (_ && _) = true |- _ => apply andb_true_iff in H as [? ?]
  | H : (_ <=? _) = true |- _ => apply Nat.leb_le in H
  | |- (_ && _) = true => apply andb_true_iff; split
  | |- (_ <=? _) = true => apply Nat.leb_le
  | |- _ /\ _ => split
  end.

(* ------------------------------------------------------------------ list predicates, convertible with the inner fixes *)

Definition wfisF (aret : bool) : list stmt -> bool :=
  fix go (l : list stmt) : bool := match l with [] => true | x :: r => wfs false aret x && go r end.
Definition wfargsF : list expr -> bool :=
  fix go (l : list expr) : bool := match l with [] => true | x :: r => (1 <=? lvl x) && wf false true x && go r end.
Definition wfelemsF : list (option expr) -> bool :=
  fix go (l : list (option expr)) : bool :=
    match l with [] => true | Some x :: r => (1 <=? lvl x) && wf false true x && go r | None :: r => go r end.
Definition wfpropsF : list prop -> bool :=
  fix go (l : list prop) : bool := match l with [] => true | p :: r => wfp false p && go r end.
Definition wfdeclsF (ain : bool) : list (string * option expr) -> bool :=
  fix go (l : list (string * option expr)) : bool :=
    match l with
    | [] => true
    | (_, Some e) :: r => (1 <=? lvl e) && wf false ain e && go r
    | (_, None) :: r => go r
    end.
Definition wfcasesF (aret : bool) : list (option expr * list stmt) -> bool :=
  fix go (l : list (option expr * list stmt)) : bool :=
    match l with
    | [] => true
    | (c, b) :: r => match c with Some x => wf false true x | None => true end && wfisF aret b && go r
    end.

Lemma wfisF_eq aret b : wfisF aret b = wf_items false aret b.
Proof. induction b as [|x l IH]; [reflexivity|]. cbn [wf_items]. rewrite <- IH. reflexivity. Qed.

Definition sc_stop (ts : list token) : bool :=
  match ts with TP (POp LAnd) :: _ | TP (POp LOr) :: _ | TP (POp Coal) :: _ => false | _ => true end.
Definition noelse (rest : list token) : bool := match rest with TK KElse :: _ => false | _ => true end.

(* the accumulator of the short-circuit loop under state pv *)
Definition acc_ok (ain : bool) (pv : prev) (e : expr) : Prop :=
  wf false ain e = true /\ 3 <= lvl e /\
  (is_bin LAnd e = true \/ is_bin LOr e = true -> pv = PrevLogical) /\
  (is_bin Coal e = true -> pv = PrevCoalesce).

Record out (p : parsers) : Prop := {
  o_expr : forall ain ts e r, p_expr p ain ts = Ok e r -> wf false ain e = true;
  o_assign : forall ain ts e r, p_assign p ain ts = Ok e r -> wf false ain e = true /\ 1 <= lvl e;
  o_comma_loop : forall ain acc ts e r, wf false ain acc = true -> p_comma_loop p ain acc ts = Ok e r -> wf false ain e = true;
  o_sc : forall ain pv ts e r, p_sc p ain pv ts = Ok (RE e) r ->
         wf false ain e = true /\ 3 <= lvl e /\ (pv = PrevLogical -> is_bin Coal e = false) /\ sc_stop r = true;
  o_sc_loop : forall ain pv acc ts e r, acc_ok ain pv acc -> (is_bin LOr acc = true -> sc_stop ts = true) ->
         p_sc_loop p ain pv acc ts = Ok (RE e) r ->
         wf false ain e = true /\ 3 <= lvl e /\ (pv = PrevLogical -> is_bin Coal e = false) /\ sc_stop r = true;
  o_bin : forall l ain ts e r, 4 <= l <= 12 -> p_bin p l ain ts = Ok (RE e) r -> wf false ain e = true /\ l <= lvl e;
  o_bin_loop : forall l ain acc ts e r, 4 <= l <= 11 -> wf false ain acc = true -> l <= lvl acc ->
         p_bin_loop p l ain acc ts = Ok (RE e) r -> wf false ain e = true /\ l <= lvl e;
  o_exp : forall ts e r, p_exp p ts = Ok (RE e) r -> wf false true e = true /\ 12 <= lvl e;
  o_unary : forall ts e r, p_unary p ts = Ok (RE e) r -> wf false true e = true /\ 13 <= lvl e;
  o_member : forall ts e r, p_member p ts = Ok (RE e) r -> wf false true e = true /\ 16 <= lvl e;
  o_member_loop : forall acc ts e r, wf false true acc = true -> 16 <= lvl acc ->
         p_member_loop p acc ts = Ok (RE e) r -> wf false true e = true /\ 16 <= lvl e;
  o_call_loop : forall acc ts e r, wf false true acc = true -> 15 <= lvl acc ->
         p_call_loop p acc ts = Ok (RE e) r -> wf false true e = true /\ 15 <= lvl e;
  o_args_loop : forall f ts l r, p_args_loop p f ts = Ok l r -> wfargsF l = true;
  o_elems : forall f ts l r, p_elems p f ts = Ok l r -> wfelemsF l = true;
  o_props : forall ts l r, p_props p ts = Ok l r -> wfpropsF l = true;
  o_stmt : forall aret ts s r, p_stmt p aret ts = Ok s r ->
         wfs false aret s = true /\ is_decl s = false /\ (open_if s = true -> noelse r = true);
  o_items : forall aret ts l r, p_items p aret ts = Ok l r -> wfisF aret l = true;
  o_decls : forall ain ts l r, p_decls p ain ts = Ok l r -> wfdeclsF ain l = true /\ l <> [];
  o_cases : forall aret ts l r, p_cases p aret ts = Ok l r -> wfcasesF aret l = true;
}.

Lemma out_nofuel : out no_fuel.
Proof. constructor; intros; cbn in *; try discriminate. Qed.

(* ------------------------------------------------------------------ small facts *)

Lemma as_simple_ok chk a e tg : as_simple e = Some tg -> wf chk a e = true -> is_simple tg = true /\ wf chk true tg = true.
Proof.
  revert a. induction e; intros a0 H W; cbn [as_simple] in H; try discriminate; try (inversion H; subst; split; [reflexivity|exact W]).
  apply (IHe true); auto.
Qed.

Lemma wf_ain_mono chk e : wf chk false e = true -> wf chk true e = true.
Proof.
  induction e; intros W; try exact W.
  - (* EBin *) cbn [wf] in *. apply andb_true_iff in W as [W Hc]. apply andb_true_iff in W as [W1 W2].
    rewrite (IHe1 W1), (IHe2 W2). cbn [andb]. destruct o; auto. cbn [andb] in Hc. discriminate.
  - (* ECond *) cbn [wf] in *. repeat (apply andb_true_iff in W as [W ?]).
    rewrite (IHe1 H3), (IHe3 H). rewrite W, H0, H1, H2. reflexivity.
  - (* EAssign *) cbn [wf] in *. repeat (apply andb_true_iff in W as [W ?]).
    rewrite (IHe2 H0). rewrite W, H, H1, H2. reflexivity.
Qed.

Lemma wf_any_ain chk e a : wf chk a e = true -> wf chk true e = true.
Proof. destruct a; auto. apply wf_ain_mono. Qed.

Lemma wf_hi_ain chk e a b : 9 <= lvl e -> wf chk a e = true -> wf chk b e = true.
Proof. intros H W. rewrite (wf_ain chk e b a); auto. Qed.

Section Shape.
Variable rec : parsers.
Hypothesis O : out rec.

Lemma fbody_out ts b r : fbody_f rec ts = Ok b r -> wfisF true b = true.
Proof. unfold fbody_f. intros H. inv H. eapply (o_items rec O); eauto. Qed.

Lemma block_out aret ts b r : block_f rec aret ts = Ok b r -> wfisF aret b = true.
Proof. unfold block_f. intros H. inv H. eapply (o_items rec O); eauto. Qed.

Lemma primary_out ts e r : primary_f rec ts = Ok (RE e) r -> wf false true e = true /\ lvl e = 17.
Proof.
  unfold primary_f. intros H. inv H; split; try reflexivity;
    try (match goal with E : fbody_f rec _ = Ok _ _ |- _ => apply fbody_out in E; exact E end).
  all: try (match goal with E : p_expr rec true _ = Ok _ _ |- _ => apply (o_expr rec O) in E; exact E end).
  all: try (match goal with E : p_elems rec _ _ = Ok _ _ |- _ => apply (o_elems rec O) in E; exact E end).
  all: try (match goal with E : p_props rec _ = Ok _ _ |- _ => apply (o_props rec O) in E; exact E end).
Qed.

Lemma args_open_out ts l r : args_open_f rec ts = Ok l r -> wfargsF l = true.
Proof. unfold args_open_f. intros H. inv H. eapply (o_args_loop rec O); eauto. Qed.

Lemma lvl_member16 x s : 16 <= lvl x -> lvl (EMember x s) = 16.
Proof. intros H. cbn [lvl]. destruct (16 <=? lvl x) eqn:E; [reflexivity|apply Nat.leb_gt in E; lia]. Qed.
Lemma lvl_index16 x i : 16 <= lvl x -> lvl (EIndex x i) = 16.
Proof. intros H. cbn [lvl]. destruct (16 <=? lvl x) eqn:E; [reflexivity|apply Nat.leb_gt in E; lia]. Qed.
Lemma lvl_member15 x s : 15 <= lvl (EMember x s).
Proof. cbn [lvl]. destruct (16 <=? lvl x); lia. Qed.
Lemma lvl_index15 x i : 15 <= lvl (EIndex x i).
Proof. cbn [lvl]. destruct (16 <=? lvl x); lia. Qed.

Lemma wf_member x s : 15 <= lvl x -> wf false true x = true -> wf false true (EMember x s) = true.
Proof. intros L W. cbn [wf]. tt; auto. Qed.
Lemma wf_index x i : 15 <= lvl x -> wf false true x = true -> wf false true i = true -> wf false true (EIndex x i) = true.
Proof. intros L W Wi. cbn [wf]. tt; auto. Qed.

Lemma member_loop_out acc ts e r : wf false true acc = true -> 16 <= lvl acc ->
  member_loop_f rec acc ts = Ok (RE e) r -> wf false true e = true /\ 16 <= lvl e.
Proof.
  unfold member_loop_f. intros W L H. inv H; try (split; assumption).
  all: match goal with
       | H : p_member_loop rec (EMember _ _) _ = Ok _ _ |- _ =>
           eapply (o_member_loop rec O); [| |exact H]; [apply wf_member; auto; lia | rewrite lvl_member16; auto]
       | H : p_member_loop rec (EIndex _ _) _ = Ok _ _, E : p_expr rec true _ = Ok _ _ |- _ =>
           eapply (o_member_loop rec O); [| |exact H];
           [apply wf_index; auto; try lia; eapply (o_expr rec O); eauto | rewrite lvl_index16; auto]
       end.
Qed.

Lemma member_out ts e r : member_f rec ts = Ok (RE e) r -> wf false true e = true /\ 16 <= lvl e.
Proof.
  unfold member_f. intros H.
  destruct ts as [|t ts']; [discriminate|].
  assert (Hnew : forall callee args r0, wf false true callee = true -> 16 <= lvl callee -> wfargsF args = true ->
            member_loop_f rec (ENew callee args) r0 = Ok (RE e) r -> wf false true e = true /\ 16 <= lvl e).
  { intros callee args r0 Wc Lc Wa Hl. eapply member_loop_out; [| |exact Hl].
    - change (wf false true (ENew callee args)) with ((16 <=? lvl callee) && wf false true callee && wfargsF args). tt; auto.
    - cbn [lvl]. lia. }
  assert (Hprim : forall ts0, (do (p, r1) <- primary_f rec ts0; match p with RP _ => Ok p r1 | RE e0 => member_loop_f rec e0 r1 end) = Ok (RE e) r ->
            wf false true e = true /\ 16 <= lvl e).
  { intros ts0 Hp. inv Hp. apply primary_out in E as [W L]. eapply member_loop_out; [| |eassumption]; auto. lia. }
  destruct t; try exact (Hprim _ H).
  match goal with k : keyword |- _ => destruct k end; try exact (Hprim _ H).
  (* new *)
  inv H;
    match goal with
    | E : p_member rec _ = Ok ?a _, E0 : into_expr ?a _ = Ok _ _ |- _ =>
        destruct a; cbn [into_expr] in E0; inv E0; apply (o_member rec O) in E as [Wc Lc]
    end;
    eapply Hnew; eauto; try reflexivity; eapply args_open_out; eauto.
Qed.

Lemma wf_call f args : 15 <= lvl f -> wf false true f = true -> wfargsF args = true -> wf false true (ECall f args) = true.
Proof.
  intros L W Wa. change (wf false true (ECall f args)) with ((15 <=? lvl f) && wf false true f && wfargsF args). tt; auto.
Qed.

Lemma call_loop_out acc ts e r : wf false true acc = true -> 15 <= lvl acc ->
  call_loop_f rec acc ts = Ok (RE e) r -> wf false true e = true /\ 15 <= lvl e.
Proof.
  unfold call_loop_f. intros W L H. inv H; try (split; assumption).
  all: match goal with
       | H : p_call_loop rec (ECall _ _) _ = Ok _ _, E : args_open_f rec _ = Ok _ _ |- _ =>
           eapply (o_call_loop rec O); [| |exact H]; [apply wf_call; auto; eapply args_open_out; eauto | cbn [lvl]; lia]
       | H : p_call_loop rec (EMember _ _) _ = Ok _ _ |- _ =>
           eapply (o_call_loop rec O); [| |exact H]; [apply wf_member; auto | apply lvl_member15]
       | H : p_call_loop rec (EIndex _ _) _ = Ok _ _, E : p_expr rec true _ = Ok _ _ |- _ =>
           eapply (o_call_loop rec O); [| |exact H];
           [apply wf_index; auto; eapply (o_expr rec O); eauto | apply lvl_index15]
       end.
Qed.

Lemma lhs_out ts e r : lhs_f rec ts = Ok (RE e) r -> wf false true e = true /\ 15 <= lvl e.
Proof.
  unfold lhs_f. intros H. inv H;
    match goal with E : member_f rec _ = Ok (RE _) _ |- _ => apply member_out in E as [W L] end;
    try (split; [assumption|lia]).
  all: eapply (o_call_loop rec O); [| |eassumption]; [apply wf_call; auto; try lia; eapply args_open_out; eauto | cbn [lvl]; lia].
Qed.

Lemma wf_update p i tg : is_simple tg = true -> wf false true tg = true -> wf false true (EUpdate p i tg) = true.
Proof. intros Hs W. cbn [wf]. tt; auto. Qed.

Lemma update_out ts e r : update_f rec ts = Ok (RE e) r -> wf false true e = true /\ 14 <= lvl e.
Proof.
  unfold update_f. intros H.
  assert (Hpre : forall x r0 inc r1, p_unary rec r0 = Ok x r1 -> forall e0 r2, into_expr x r1 = Ok e0 r2 ->
            forall tg, as_simple e0 = Some tg -> wf false true (EUpdate true inc tg) = true /\ 14 <= lvl (EUpdate true inc tg)).
  { intros x r0 inc r1 Hx e0 r2 Hi tg Hs. destruct x; cbn [into_expr] in Hi; inv Hi.
    apply (o_unary rec O) in Hx as [W L]. destruct (as_simple_ok _ _ _ _ Hs W). split; [apply wf_update; auto|cbn; lia]. }
  assert (Hpost : forall ts0, (do (l, r1) <- lhs_f rec ts0;
      match l with
      | RP _ => Ok l r1
      | RE e0 =>
          match r1 with
          | TP PInc :: r2 => match as_simple e0 with Some tg => Ok (RE (EUpdate false true tg)) r2 | None => Err end
          | TP PDec :: r2 => match as_simple e0 with Some tg => Ok (RE (EUpdate false false tg)) r2 | None => Err end
          | _ => Ok l r1
          end
      end) = Ok (RE e) r -> wf false true e = true /\ 14 <= lvl e).
  { intros ts0 Hp. inv Hp; match goal with E : lhs_f rec _ = Ok (RE _) _ |- _ => apply lhs_out in E as [W L] end;
      try (split; [assumption|lia]).
    all: match goal with Hs : as_simple _ = Some _ |- _ => destruct (as_simple_ok _ _ _ _ Hs W) end;
      split; [apply wf_update; auto|cbn; lia]. }
  destruct ts as [|t ts']; [exact (Hpost _ H)|].
  destruct t; try exact (Hpost _ H).
  match goal with p : punct |- _ => destruct p end; try exact (Hpost _ H).
  - inv H. eapply Hpre; eauto.
  - inv H. eapply Hpre; eauto.
Qed.

Lemma unary_out ts e r : unary_f rec ts = Ok (RE e) r -> wf false true e = true /\ 13 <= lvl e.
Proof.
  unfold unary_f. intros H. destruct ts as [|t ts']; [discriminate|].
  destruct (tok_unop t) eqn:Et.
  - inv H. destruct a; cbn [into_expr] in E0; inv E0.
    apply (o_unary rec O) in E as [W L]. split; [cbn [wf]; tt; auto|cbn; lia].
  - apply update_out in H as [W L]. split; auto. lia.
Qed.

Lemma exp_out ts e r : exp_f rec ts = Ok (RE e) r -> wf false true e = true /\ 12 <= lvl e.
Proof.
  unfold exp_f. intros H. destruct ts as [|t ts']; [discriminate|].
  destruct (tok_unop t) eqn:Et.
  - apply unary_out in H as [W L]. split; auto. lia.
  - inv H; match goal with E : update_f rec _ = Ok (RE _) _ |- _ => apply update_out in E as [W L] end;
      try (split; [assumption|lia]).
    match goal with E : p_exp rec _ = Ok ?a _, E0 : into_expr ?a _ = Ok _ _ |- _ =>
      destruct a; cbn [into_expr] in E0; inv E0; apply (o_exp rec O) in E as [W2 L2] end.
    split; [cbn [wf]; tt; auto|cbn; lia].
Qed.

Lemma bin_out k : forall ain ts e r, k <= 8 -> bin_f rec k ain ts = Ok (RE e) r -> wf false ain e = true /\ 12 - k <= lvl e.
Proof.
  induction k; intros ain ts e r Hk H; cbn [bin_f] in H.
  - apply exp_out in H as [W L]. split; [apply (wf_hi_ain false e true ain); auto; lia|lia].
  - inv H. apply IHk in E as [W L]; [|lia].
    eapply (o_bin_loop rec O); [| | |eassumption]; auto; lia.
Qed.

Lemma wf_binop o ain l r : 4 <= binop_lvl o <= 11 -> (o = In -> ain = true) ->
  wf false ain l = true -> wf false ain r = true -> binop_lvl o <= lvl l -> S (binop_lvl o) <= lvl r ->
  wf false ain (EBin o l r) = true.
Proof.
  intros HL Hin Wl Wr Ll Lr. cbn [wf]. rewrite Wl, Wr. cbn [andb].
  destruct o; cbn [binop_lvl] in *; try lia; tt; auto; try lia.
Qed.

Lemma bin_loop_out l ain acc ts e r : 4 <= l <= 11 -> wf false ain acc = true -> l <= lvl acc ->
  bin_loop_f rec l ain acc ts = Ok (RE e) r -> wf false ain e = true /\ l <= lvl e.
Proof.
  unfold bin_loop_f. intros HL W L H. destruct ts as [|t ts']; [inv H; auto|].
  destruct (loop_op l ain t) eqn:Eo; [|inv H; auto].
  apply loop_op_sound in Eo as (Hl & _ & Hin & _).
  inv H. destruct a; cbn [into_expr] in E0; inv E0.
  apply (o_bin rec O) in E as [W2 L2]; [|lia].
  eapply (o_bin_loop rec O); [| | |eassumption]; auto; try (apply wf_binop; auto; lia); try (cbn [lvl]; lia).
Qed.

Lemma bin_at_out l ain ts e r : 4 <= l <= 12 -> bin_at_f rec l ain ts = Ok (RE e) r -> wf false ain e = true /\ l <= lvl e.
Proof.
  unfold bin_at_f. intros HL H. apply bin_out in H as [W L]; [|lia]. split; auto. lia.
Qed.

Lemma lvl3_cases e : 3 <= lvl e -> 4 <= lvl e \/ is_bin LAnd e = true \/ is_bin LOr e = true \/ is_bin Coal e = true.
Proof.
  destruct e; cbn [lvl]; intros H; try lia; try (left; lia).
  - left. destruct (16 <=? lvl e); lia.
  - left. destruct (16 <=? lvl e1); lia.
  - destruct o; cbn in *; auto; try lia; left; lia.
Qed.

Lemma is_bin_excl e : (is_bin LAnd e = true -> is_bin LOr e = false /\ is_bin Coal e = false /\ lvl e = 3) /\
                      (is_bin LOr e = true -> is_bin LAnd e = false /\ is_bin Coal e = false /\ lvl e = 3) /\
                      (is_bin Coal e = true -> is_bin LAnd e = false /\ is_bin LOr e = false /\ lvl e = 3).
Proof. destruct e; cbn; repeat split; try discriminate; destruct o; cbn in *; try discriminate; auto. Qed.

Lemma wf_and ain l r : wf false ain l = true -> wf false ain r = true -> (4 <= lvl l \/ is_bin LAnd l = true) -> 4 <= lvl r ->
  wf false ain (EBin LAnd l r) = true.
Proof.
  intros Wl Wr Hl Lr. cbn [wf]. rewrite Wl, Wr. cbn [andb]. tt; auto.
  apply orb_true_iff. destruct Hl; [left; apply Nat.leb_le; auto|right; auto].
Qed.
Lemma wf_coal ain l r : wf false ain l = true -> wf false ain r = true -> (4 <= lvl l \/ is_bin Coal l = true) -> 4 <= lvl r ->
  wf false ain (EBin Coal l r) = true.
Proof.
  intros Wl Wr Hl Lr. cbn [wf]. rewrite Wl, Wr. cbn [andb]. tt; auto.
  apply orb_true_iff. destruct Hl; [left; apply Nat.leb_le; auto|right; auto].
Qed.
Lemma wf_or ain l r : wf false ain l = true -> wf false ain r = true -> (4 <= lvl l \/ is_bin LAnd l = true) ->
  (4 <= lvl r \/ is_bin LAnd r = true \/ is_bin LOr r = true) -> wf false ain (EBin LOr l r) = true.
Proof.
  intros Wl Wr Hl Hr. cbn [wf]. rewrite Wl, Wr. cbn [andb]. tt.
  - apply orb_true_iff. destruct Hl; [left; apply Nat.leb_le; auto|right; auto].
  - destruct Hr as [H|[H|H]]; rewrite ?H, ?orb_true_r; auto.
    apply Nat.leb_le in H. rewrite H. reflexivity.
Qed.

Lemma sc_loop_out ain pv acc ts e r : acc_ok ain pv acc -> (is_bin LOr acc = true -> sc_stop ts = true) ->
  sc_loop_f rec ain pv acc ts = Ok (RE e) r ->
  wf false ain e = true /\ 3 <= lvl e /\ (pv = PrevLogical -> is_bin Coal e = false) /\ sc_stop r = true.
Proof.
  intros (W & L & Hlog & Hco) Hor H. unfold sc_loop_f in H.
  destruct (is_bin_excl acc) as (XA & XO & XC).
  assert (Hdef : forall ts0, sc_stop ts0 = true -> Ok (RE acc) ts0 = Ok (RE e) r ->
     wf false ain e = true /\ 3 <= lvl e /\ (pv = PrevLogical -> is_bin Coal e = false) /\ sc_stop r = true).
  { intros ts0 Hs Hq. inversion Hq; subst. repeat split; auto. intros ->.
    destruct (is_bin Coal e) eqn:Ec; auto. specialize (Hco eq_refl). discriminate. }
  destruct ts as [|t ts']; [apply (Hdef []); auto|].
  destruct t; cbv beta iota in H; try (refine (Hdef _ _ H); reflexivity).
  match goal with p : punct |- _ => destruct p end; cbv beta iota in H; try (refine (Hdef _ _ H); reflexivity).
  match goal with o : binop |- _ => destruct o end; cbv beta iota in H; try (refine (Hdef _ _ H); reflexivity).
  - (* && *)
    assert (Hpv : pv <> PrevCoalesce) by (intros ->; discriminate H).
    assert (Hacc : 4 <= lvl acc \/ is_bin LAnd acc = true).
    { destruct (lvl3_cases acc L) as [?|[?|[Ho|Hc]]]; auto; exfalso;
        try (specialize (Hor Ho); discriminate Hor); try (specialize (Hco Hc); congruence). }
    assert (H' : (do (x, r1) <- p_bin rec 4 ain ts'; do (rhs, r1) <- into_expr x r1;
                  p_sc_loop rec ain PrevLogical (EBin LAnd acc rhs) r1) = Ok (RE e) r) by (destruct pv; auto; congruence).
    clear H. inv H'. destruct a; cbn [into_expr] in E0; inv E0.
    apply (o_bin rec O) in E as [W2 L2]; [|lia].
    eapply (o_sc_loop rec O) in H' as (W' & L' & Hc' & Hs').
    + repeat split; auto.
    + unfold acc_ok. split; [apply wf_and; auto|]. split; [cbn; lia|]. split; [reflexivity|intros C; discriminate C].
    + intros C; discriminate C.
  - (* || *)
    assert (Hpv : pv <> PrevCoalesce) by (intros ->; discriminate H).
    assert (Hacc : 4 <= lvl acc \/ is_bin LAnd acc = true).
    { destruct (lvl3_cases acc L) as [?|[?|[Ho|Hc]]]; auto; exfalso;
        try (specialize (Hor Ho); discriminate Hor); try (specialize (Hco Hc); congruence). }
    assert (H' : (do (x, r1) <- p_sc rec ain PrevLogical ts'; do (rhs, r1) <- into_expr x r1;
                  p_sc_loop rec ain PrevLogical (EBin LOr acc rhs) r1) = Ok (RE e) r) by (destruct pv; auto; congruence).
    clear H. inv H'. destruct a; cbn [into_expr] in E0; inv E0.
    match goal with E : p_sc rec ain PrevLogical _ = Ok (RE ?x) _ |- _ =>
      apply (o_sc rec O) in E as (W2 & L2 & Hnc & Hst); specialize (Hnc eq_refl);
      assert (Hr : 4 <= lvl x \/ is_bin LAnd x = true \/ is_bin LOr x = true) by
        (destruct (lvl3_cases x L2) as [?|[?|[?|Hc]]]; auto; congruence) end.
    eapply (o_sc_loop rec O) in H' as (W' & L' & Hc' & Hs').
    + repeat split; auto.
    + unfold acc_ok. split; [apply wf_or; auto|]. split; [cbn; lia|]. split; [reflexivity|intros C; discriminate C].
    + intros _. exact Hst.
  - (* ?? *)
    assert (Hpv : pv <> PrevLogical) by (intros ->; discriminate H).
    assert (Hacc : 4 <= lvl acc \/ is_bin Coal acc = true).
    { destruct (lvl3_cases acc L) as [?|[Ha|[Ho|?]]]; auto; exfalso;
        try (specialize (Hlog (or_introl Ha)); congruence); try (specialize (Hlog (or_intror Ho)); congruence). }
    assert (H' : (do (x, r1) <- p_bin rec 4 ain ts'; do (rhs, r1) <- into_expr x r1;
                  p_sc_loop rec ain PrevCoalesce (EBin Coal acc rhs) r1) = Ok (RE e) r) by (destruct pv; auto; congruence).
    clear H. inv H'. destruct a; cbn [into_expr] in E0; inv E0.
    apply (o_bin rec O) in E as [W2 L2]; [|lia].
    eapply (o_sc_loop rec O) in H' as (W' & L' & Hc' & Hs').
    + repeat split; auto. intros C. congruence.
    + unfold acc_ok. split; [apply wf_coal; auto|]. split; [cbn; lia|]. split; [intros [C|C]; discriminate C|reflexivity].
    + intros C; discriminate C.
Qed.

Lemma sc_out ain pv ts e r : sc_f rec ain pv ts = Ok (RE e) r ->
  wf false ain e = true /\ 3 <= lvl e /\ (pv = PrevLogical -> is_bin Coal e = false) /\ sc_stop r = true.
Proof.
  unfold sc_f. intros H. inv H. apply bin_out in E as [W L]; [|lia].
  eapply sc_loop_out; [| |eassumption].
  - repeat split; auto; try lia.
    + intros [C|C]; destruct (is_bin_excl e0) as (XA & XO & XC); [apply XA in C|apply XO in C]; lia.
    + intros C. destruct (is_bin_excl e0) as (XA & XO & XC). apply XC in C. lia.
  - intros C. destruct (is_bin_excl e0) as (XA & XO & XC). apply XO in C. lia.
Qed.

Lemma cond_out ain ts e r : cond_f rec ain ts = Ok (RE e) r -> wf false ain e = true /\ 2 <= lvl e.
Proof.
  unfold cond_f. intros H. inv H;
    match goal with E : sc_f rec _ _ _ = Ok (RE _) _ |- _ => apply sc_out in E as (W & L & _ & _) end;
    try (split; [assumption|lia]).
  match goal with E1 : p_assign rec true _ = Ok _ _, E2 : p_assign rec ain _ = Ok _ _ |- _ =>
    apply (o_assign rec O) in E1 as [W1 L1]; apply (o_assign rec O) in E2 as [W2 L2] end.
  split; [cbn [wf]; tt; auto|cbn; lia].
Qed.

Lemma concise_out ain ts b r : concise_f rec ain ts = Ok b r -> wfisF true b = true.
Proof.
  unfold concise_f. intros H.
  assert (He : forall ts0, (do (e, r0) <- p_assign rec ain ts0; Ok [SReturn (Some e)] r0) = Ok b r -> wfisF true b = true).
  { intros ts0 Hq. inv Hq. apply (o_assign rec O) in E as [W L]. cbn. rewrite (wf_any_ain false a ain W). reflexivity. }
  destruct ts as [|t ts']; [exact (He _ H)|].
  destruct t; try exact (He _ H).
  match goal with p : punct |- _ => destruct p end; try exact (He _ H).
  eapply fbody_out; eauto.
Qed.

Lemma assign_out ain ts e r : assign_f rec ain ts = Ok e r -> wf false ain e = true /\ 1 <= lvl e.
Proof.
  unfold assign_f. intros H.
  assert (Harrow : forall ps b, nodupb ps = true -> wfisF true b = true -> wf false ain (EArrow ps b) = true /\ 1 <= lvl (EArrow ps b)).
  { intros ps b Hn Hb. split; [|cbn; lia]. change (wf false ain (EArrow ps b)) with (nodupb ps && wfisF true b). tt; auto. }
  assert (Hmain : forall ts0, (do (l, r0) <- cond_f rec ain ts0;
      match l with
      | RP ps =>
          match r0 with
          | TP PArrow :: r1 => do (b, r2) <- concise_f rec ain r1; if nodupb ps then Ok (EArrow ps b) r2 else Err
          | _ => Err
          end
      | RE lhs =>
          match r0 with
          | TP PAssign :: r1 =>
              match as_simple lhs with
              | Some tg => do (rhs, r2) <- p_assign rec ain r1; Ok (EAssign AAssign tg rhs) r2
              | None => Err
              end
          | TP (PAssignOp o) :: r1 =>
              if is_assign_binop o then
                match as_simple lhs with
                | Some tg => do (rhs, r2) <- p_assign rec ain r1; Ok (EAssign (AOp o) tg rhs) r2
                | None => Err
                end
              else Err
          | _ => Ok lhs r0
          end
      end) = Ok e r -> wf false ain e = true /\ 1 <= lvl e).
  { intros ts0 Hq. inv Hq;
      try (match goal with E : cond_f rec _ _ = Ok (RE _) _ |- _ => apply cond_out in E as [W L] end);
      try (split; [assumption|lia]).
    all: try (match goal with E : concise_f rec _ _ = Ok _ _ |- _ => apply concise_out in E; apply Harrow; auto end).
    all: match goal with Hs : as_simple _ = Some _, E : p_assign rec _ _ = Ok _ _ |- _ =>
           destruct (as_simple_ok _ _ _ _ Hs W); apply (o_assign rec O) in E as [W2 L2];
           split; [cbn [wf]; tt; auto|cbn; lia] end. }
  destruct ts as [|t ts']; [exact (Hmain _ H)|].
  destruct t; try exact (Hmain _ H).
  destruct ts' as [|t2 ts'']; [exact (Hmain _ H)|].
  destruct t2; try exact (Hmain _ H).
  match goal with p : punct |- _ => destruct p end; try exact (Hmain _ H).
  inv H. apply concise_out in E. apply Harrow; auto.
Qed.

Lemma comma_loop_out ain acc ts e r : wf false ain acc = true ->
  comma_loop_f rec ain acc ts = Ok e r -> wf false ain e = true.
Proof.
  unfold comma_loop_f. intros W H. inv H; auto.
  all: match goal with E : p_assign rec _ _ = Ok _ _ |- _ => apply (o_assign rec O) in E as [W2 L2] end;
       eapply (o_comma_loop rec O); [|eassumption]; cbn [wf]; tt; auto.
Qed.

Lemma expr_out ain ts e r : expr_f rec ain ts = Ok e r -> wf false ain e = true.
Proof.
  unfold expr_f. intros H. inv H. apply assign_out in E as [W L]. eapply comma_loop_out; eauto.
Qed.

(* ------------------------------------------------------------------ lists *)

Lemma elems_out f ts l r : elems_f rec f ts = Ok l r -> wfelemsF l = true.
Proof.
  unfold elems_f. intros H. inv H; try reflexivity;
    repeat match goal with
    | E : p_elems rec _ _ = Ok _ _ |- _ => apply (o_elems rec O) in E
    | E : assign_f rec true _ = Ok _ _ |- _ => apply assign_out in E as [? ?]
    end; auto;
    try (change (wfelemsF (Some ?x :: ?l)) with ((1 <=? lvl x) && wf false true x && wfelemsF l); tt; auto).
  all: match goal with |- wfelemsF (Some ?x :: ?l) = true =>
         change (wfelemsF (Some x :: l)) with ((1 <=? lvl x) && wf false true x && wfelemsF l); tt; auto end.
Qed.

Lemma args_loop_out f ts l r : args_loop_f rec f ts = Ok l r -> wfargsF l = true.
Proof.
  unfold args_loop_f. intros H. inv H; try reflexivity;
    repeat match goal with
    | E : p_args_loop rec _ _ = Ok _ _ |- _ => apply (o_args_loop rec O) in E
    | E : assign_f rec true _ = Ok _ _ |- _ => apply assign_out in E as [? ?]
    | E : p_assign rec true _ = Ok _ _ |- _ => apply (o_assign rec O) in E as [? ?]
    end.
  all: match goal with |- wfargsF (?x :: ?l) = true =>
         change (wfargsF (x :: l)) with ((1 <=? lvl x) && wf false true x && wfargsF l); tt; auto end.
Qed.

Lemma props_out ts l r : props_f rec ts = Ok l r -> wfpropsF l = true.
Proof.
  unfold props_f. intros H. inv H; inv_all; try reflexivity;
    repeat match goal with
    | E : p_props rec _ = Ok _ _ |- _ => apply (o_props rec O) in E
    | E : p_assign rec true _ = Ok _ _ |- _ => apply (o_assign rec O) in E as [? ?]
    end.
  all: match goal with |- wfpropsF (?p :: ?l) = true =>
         change (wfpropsF (p :: l)) with (wfp false p && wfpropsF l); cbn [wfp wfpropsF]; tt; auto end.
Qed.

Lemma decls_out ain ts l r : decls_f rec ain ts = Ok l r -> wfdeclsF ain l = true /\ l <> [].
Proof.
  unfold decls_f. intros H. inv H;
    repeat match goal with
    | E : p_decls rec _ _ = Ok _ _ |- _ => apply (o_decls rec O) in E as [? ?]
    | E : p_assign rec _ _ = Ok _ _ |- _ => apply (o_assign rec O) in E as [? ?]
    end; (split; [|discriminate]).
  all: match goal with
       | |- wfdeclsF ?a ((?x, Some ?e) :: ?l) = true =>
           change (wfdeclsF a ((x, Some e) :: l)) with ((1 <=? lvl e) && wf false a e && wfdeclsF a l); tt; auto
       | |- wfdeclsF ?a ((?x, None) :: ?l) = true =>
           change (wfdeclsF a ((x, None) :: l)) with (wfdeclsF a l); auto
       end.
Qed.

(* ------------------------------------------------------------------ statements *)

Definition sout (aret : bool) (s : stmt) (r : list token) : Prop :=
  wfs false aret s = true /\ is_decl s = false /\ (open_if s = true -> noelse r = true).

Lemma sout_plain aret s r : wfs false aret s = true -> is_decl s = false -> open_if s = false -> sout aret s r.
Proof. intros W D Oi. repeat split; auto. rewrite Oi. discriminate. Qed.

Definition nonemptyb {A} (l : list A) : bool := match l with [] => false | _ => true end.
Lemma nonempty_ne {A} (l : list A) : l <> [] -> nonemptyb l = true.
Proof. destruct l; [congruence|reflexivity]. Qed.

Lemma for_rest_out aret i ts s r :
  (match i with
   | FINone => True
   | FIExpr e => wf false false e = true
   | FIVar ds | FILet ds => wfdeclsF false ds = true /\ ds <> []
   | FIConst ds => wfdeclsF false ds = true /\ ds <> [] /\ all_init ds = true
   end) ->
  for_rest_f rec aret i ts = Ok s r -> sout aret s r.
Proof.
  intros Hi H. unfold for_rest_f in H. inv H; inv_all.
  all: repeat match goal with
       | E : p_expr rec true _ = Ok _ _ |- _ => apply (o_expr rec O) in E
       | E : p_stmt rec _ _ = Ok _ _ |- _ => apply (o_stmt rec O) in E as (Wb & Db & Ob)
       end.
  all: split; [|split; [reflexivity|exact Ob]].
  all: change (wfs false aret (SFor ?i ?c ?st ?b)) with
       (match i with
        | FINone => true
        | FIExpr e => wf false false e
        | FIVar ds | FILet ds => nonemptyb ds && wfdeclsF false ds
        | FIConst ds => nonemptyb ds && wfdeclsF false ds && all_init ds
        end &&
        match c with Some e => wf false true e | None => true end &&
        match st with Some e => wf false true e | None => true end &&
        wfs false aret b && negb (is_decl b)).
  all: rewrite Wb, Db; cbn [negb]; rewrite ?andb_true_r.
  all: destruct i as [|e0|ds|ds|ds]; cbn beta iota; tt; auto; try (apply nonempty_ne; tauto); try tauto.
Qed.

Lemma for_inof_out aret h ts s r :
  (match h with FHTarget t => is_simple t = true /\ wf false true t = true | _ => True end) ->
  for_inof_f rec aret h ts = Ok s r -> sout aret s r.
Proof.
  intros Hh H. unfold for_inof_f in H. inv H; inv_all.
  all: repeat match goal with
       | E : p_expr rec true _ = Ok _ _ |- _ => apply (o_expr rec O) in E
       | E : p_assign rec true _ = Ok _ _ |- _ => apply (o_assign rec O) in E as [? ?]
       | E : p_stmt rec _ _ = Ok _ _ |- _ => apply (o_stmt rec O) in E as (Wb & Db & Ob)
       end.
  all: split; [|split; [reflexivity|exact Ob]].
  all: cbn [wfs]; rewrite Wb, Db; cbn [negb]; rewrite ?andb_true_r; destruct h; tt; auto; tauto.
Qed.

Lemma for_out aret ts s r : for_f rec aret ts = Ok s r -> sout aret s r.
Proof.
  unfold for_f. intros H.
  assert (Hexpr : forall ts0, (do (e, r1) <- expr_f rec false ts0;
      if is_inof r1 then match as_simple e with Some tg => for_inof_f rec aret (FHTarget tg) r1 | None => Err end
      else for_rest_f rec aret (FIExpr e) r1) = Ok s r -> sout aret s r).
  { intros ts0 Hq. inv Hq; apply expr_out in E.
    - match goal with Hs : as_simple _ = Some _ |- _ => destruct (as_simple_ok _ _ _ _ Hs E) end.
      eapply for_inof_out; [|eassumption]. split; auto.
    - eapply for_rest_out; [|eassumption]. exact E. }
  destruct ts as [|t ts']; [exact (Hexpr _ H)|].
  destruct t; try exact (Hexpr _ H).
  - match goal with p : punct |- _ => destruct p end; try exact (Hexpr _ H).
    eapply for_rest_out; [|exact H]. exact I.
  - match goal with k : keyword |- _ => destruct k end; try exact (Hexpr _ H).
    + (* var *) inv H; apply decls_out in E as [Wd Nd].
      * eapply for_inof_out; [|eassumption]. exact I.
      * eapply for_rest_out; [|eassumption]. split; auto.
    + (* let *) inv H; apply decls_out in E as [Wd Nd].
      * eapply for_inof_out; [|eassumption]. exact I.
      * eapply for_rest_out; [|eassumption]. split; auto.
    + (* const *) inv H; apply decls_out in E as [Wd Nd].
      * eapply for_inof_out; [|eassumption]. exact I.
      * eapply for_rest_out; [|eassumption]. repeat split; auto.
Qed.

Lemma cases_out aret ts l r : cases_f rec aret ts = Ok l r -> wfcasesF aret l = true.
Proof.
  unfold cases_f. intros H. inv H; try reflexivity;
    repeat match goal with
    | E : p_expr rec true _ = Ok _ _ |- _ => apply (o_expr rec O) in E
    | E : p_items rec _ _ = Ok _ _ |- _ => apply (o_items rec O) in E
    | E : p_cases rec _ _ = Ok _ _ |- _ => apply (o_cases rec O) in E
    end.
  all: match goal with |- wfcasesF ?a ((?c, ?b) :: ?l) = true =>
         change (wfcasesF a ((c, b) :: l)) with (match c with Some x => wf false true x | None => true end && wfisF a b && wfcasesF a l);
         tt; auto end.
Qed.

Lemma try_out aret ts s r : try_f rec aret ts = Ok s r -> sout aret s r.
Proof.
  unfold try_f. intros H. inv H; inv_all.
  all: repeat match goal with E : block_f rec _ _ = Ok _ _ |- _ => apply block_out in E end.
  all: apply sout_plain; try reflexivity.
  all: match goal with |- wfs false ?a (STry ?b ?c ?f) = true =>
         change (wfs false a (STry b c f)) with
           (wfisF a b && match c with Some (_, cb) => wfisF a cb | None => true end &&
            match f with Some fb => wfisF a fb | None => true end &&
            match c, f with None, None => false | _, _ => true end) end.
  all: cbn beta iota; tt; auto.
Qed.

End Shape.
