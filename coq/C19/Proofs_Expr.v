(* C19 proofs, part 2: parsing the printed form of an expression, level by level.  Every statement has the shape
   "for all large enough fuel, parser-level-L (pe e ++ rest) = ..." (predicate `ev`), either in final form (F..)
   under the stop condition of the level, or in continuation form (K..) for the levels that loop:
   if continuing the loop from the accumulated expression e eventually yields v, so does parsing (pe e ++ rest). *)
From Coq Require Import List String NArith Bool Arith Lia.
From C19 Require Import Model_C19 Proofs_Base.
Import ListNotations.

(* ------------------------------------------------------------------ first tokens by level *)

Definition fclass (t : token) : nat :=
  match t with
  | TK KThis | TK KFunction => 17
  | TP POpenParen | TP POpenBracket | TP POpenBlock => 17
  | TId _ | TNum _ | TStr _ | TBool _ | TNull => 17
  | TK KNew => 16
  | TP PInc | TP PDec => 14
  | TK KDelete | TK KVoid | TK KTypeof | TP PNot | TP PNeg | TP (POp Add) | TP (POp Sub) => 13
  | _ => 0
  end.

Definition ftok (e : expr) : token := hd TNull (pe e).

Lemma pe_ftok e : exists tl, pe e = ftok e :: tl.
Proof. unfold ftok. destruct (pe_start e) as (t & tl & -> & _). eauto. Qed.

Lemma ftok_app e rest : hd TNull (pe e ++ rest) = ftok e.
Proof. destruct (pe_ftok e) as [tl ->]. reflexivity. Qed.

Lemma is_simple_lvl x : is_simple x = true -> wf true true x = true -> 15 <= lvl x.
Proof.
  destruct x; cbn [is_simple wf lvl]; try discriminate; intros _ H.
  - lia.
  - apply andb_true_iff in H as [H _]. apply Nat.leb_le in H. destruct (16 <=? lvl x); lia.
  - apply andb_true_iff in H as [H _]. apply andb_true_iff in H as [H _]. apply Nat.leb_le in H. destruct (16 <=? lvl x1); lia.
Qed.

(* the first token tells the level class: 17 primary start, 16 `new`, 14 prefix update, 13 unary operator *)
Lemma ftok_class e : wf true true e = true ->
  (lvl e = 17 -> fclass (ftok e) = 17) /\ (15 <= lvl e -> 16 <= fclass (ftok e)) /\ (14 <= lvl e -> 14 <= fclass (ftok e)).
Proof.
  induction e; intros W; cbn [lvl]; unfold ftok; cbn [pe hd app print_params];
    try solve [repeat split; intros; cbn; lia].
  - (* EMember *) cbn [wf] in W. apply andb_true_iff in W as [Hl W]. apply Nat.leb_le in Hl.
    destruct (IHe W) as (_ & H15 & _). rewrite ftok_app.
    destruct (16 <=? lvl e); repeat split; intros; try lia; auto.
  - (* EIndex *) cbn [wf] in W. apply andb_true_iff in W as [W _]. apply andb_true_iff in W as [Hl W]. apply Nat.leb_le in Hl.
    destruct (IHe1 W) as (_ & H15 & _). rewrite ftok_app.
    destruct (16 <=? lvl e1); repeat split; intros; try lia; auto.
  - (* ECall *) cbn [wf] in W. apply andb_true_iff in W as [W _]. apply andb_true_iff in W as [Hl W]. apply Nat.leb_le in Hl.
    destruct (IHe W) as (_ & H15 & _). rewrite ftok_app. repeat split; intros; try lia; auto.
  - (* EUpdate *) cbn [wf] in W. apply andb_true_iff in W as [Hs W].
    destruct prefix.
    + destruct inc; cbn; repeat split; intros; lia.
    + rewrite ftok_app. pose proof (is_simple_lvl _ Hs W) as Hl. destruct (IHe W) as (_ & H15 & _).
      repeat split; intros; lia.
  - (* EBin *) destruct o; cbn [binop_lvl]; repeat split; intros; lia.
Qed.

Lemma fclass_unop t : 14 <= fclass t -> tok_unop t = None.
Proof. destruct t as [[]|[]| | | | | |]; cbn; intros; try reflexivity; try lia. destruct o; cbn in *; try reflexivity; lia. Qed.

Lemma fclass_incdec t : 16 <= fclass t -> t <> TP PInc /\ t <> TP PDec.
Proof. destruct t as [[]|[]| | | | | |]; cbn; intros; split; try discriminate; lia. Qed.

Lemma stops17 L ain rest : stops L ain rest = true -> stops 17 true rest = true.
Proof.
  intros H. destruct rest as [|t r]; auto. unfold stops in *.
  destruct t as [p|k|s|n|s|b| |s]; try reflexivity.
  - destruct p; try reflexivity.
    + discriminate H.
    + destruct o; reflexivity.
  - destruct k; reflexivity.
Qed.

Lemma stops17_arrow rest : stops 17 true rest = true -> match rest with TP PArrow :: _ => False | _ => True end.
Proof. destruct rest as [|[[]|[]| | | | | |] r]; cbn; auto; discriminate. Qed.

(* ------------------------------------------------------------------ level 17: primary, leaves and parentheses *)

Ltac ev_now := exists 0; intros; reflexivity.

Definition F17 (e : expr) : Prop :=
  forall rest, stops 17 true rest = true -> ev (fun r => primary_f r (pe e ++ rest)) (Ok (RE e) rest).

Lemma F17_this : F17 EThis.
Proof. intros rest _. ev_now. Qed.
Lemma F17_id s : F17 (EId s).
Proof. intros rest _. ev_now. Qed.
Lemma F17_num n : F17 (ENum n).
Proof. intros rest _. ev_now. Qed.
Lemma F17_str s : F17 (EStr s).
Proof. intros rest _. ev_now. Qed.
Lemma F17_bool b : F17 (EBool b).
Proof. intros rest _. ev_now. Qed.
Lemma F17_null : F17 ENull.
Proof. intros rest _. ev_now. Qed.

(* the level-0 claim, final form *)
Definition F0 (e : expr) : Prop :=
  forall ain rest, wf true ain e = true -> stops 0 ain rest = true ->
    ev (fun r => expr_f r ain (pe e ++ rest)) (Ok e rest).

Lemma estart_not_close t : estart t = true -> t <> TP PCloseParen /\ t <> TP PCloseBracket /\ t <> TP PCloseBlock /\ t <> TP PComma
  /\ t <> TP PSpread /\ t <> TP PSemicolon /\ t <> TP PArrow /\ t <> TP PColon.
Proof. destruct t as [[]|[]| | | | | |]; cbn; intros; repeat split; try discriminate. Qed.

Lemma F17_paren x : F0 x -> wf true true x = true -> F17 (EParen x).
Proof.
  intros Hx W rest Hs. cbn [pe]. cbn [app].
  destruct (pe_start x) as (t & tl & E & Ht).
  destruct (estart_not_close t Ht) as (Hc & _).
  assert (Hx' := Hx true (TP PCloseParen :: rest) W eq_refl).
  rewrite <- app_assoc. cbn [app].
  eapply ev_ext.
  { intros r. unfold primary_f. rewrite E. cbn [app].
    instantiate (1 := fun r => do (e, r1) <- p_expr r true (t :: tl ++ TP PCloseParen :: rest);
       match r1 with
       | TP PCloseParen :: r2 =>
           match r2 with
           | TP PArrow :: _ => match to_params e with Some ps => Ok (RP ps) r2 | None => Err end
           | _ => Ok (RE (EParen e)) r2
           end
       | TP PComma :: TP PCloseParen :: r2 =>
           match r2 with
           | TP PArrow :: _ => match to_params e with Some ps => Ok (RP ps) r2 | None => Err end
           | _ => Err
           end
       | _ => Err
       end).
    destruct t as [[]|[]| | | | | |]; try reflexivity; try discriminate Ht. }
  eapply ev_bind.
  { apply ev_p_expr. rewrite E in Hx'. exact Hx'. }
  apply stops17_arrow in Hs.
  destruct rest as [|[[]|[]| | | | | |] r']; try ev_now. contradiction.
Qed.

(* ------------------------------------------------------------------ dispatch lemmas: which arm a body takes *)

Lemma member_f_other r t ts : t <> TK KNew ->
  member_f r (t :: ts) = do (p, r1) <- primary_f r (t :: ts); match p with RP _ => Ok p r1 | RE e => member_loop_f r e r1 end.
Proof. intros H. unfold member_f. destruct t as [p|k|s|n|s|b| |s]; try reflexivity. destruct k; try reflexivity. congruence. Qed.

Lemma update_f_other r t ts : t <> TP PInc -> t <> TP PDec ->
  update_f r (t :: ts) =
  do (l, r1) <- lhs_f r (t :: ts);
  match l with
  | RP _ => Ok l r1
  | RE e =>
      match r1 with
      | TP PInc :: r2 => match as_simple e with Some tg => Ok (RE (EUpdate false true tg)) r2 | None => Err end
      | TP PDec :: r2 => match as_simple e with Some tg => Ok (RE (EUpdate false false tg)) r2 | None => Err end
      | _ => Ok l r1
      end
  end.
Proof. intros H1 H2. unfold update_f. destruct t as [p|k|s|n|s|b| |s]; try reflexivity. destruct p; try reflexivity; congruence. Qed.

Lemma unary_f_other r t ts : tok_unop t = None -> unary_f r (t :: ts) = update_f r (t :: ts).
Proof. intros H. unfold unary_f. rewrite H. reflexivity. Qed.

Lemma unary_f_op r t o ts : tok_unop t = Some o ->
  unary_f r (t :: ts) = do (x, r1) <- p_unary r ts; do (e, r1) <- into_expr x r1; Ok (RE (EUnary o e)) r1.
Proof. intros H. unfold unary_f. rewrite H. reflexivity. Qed.

Lemma exp_f_op r t o ts : tok_unop t = Some o -> exp_f r (t :: ts) = unary_f r (t :: ts).
Proof. intros H. unfold exp_f. rewrite H. reflexivity. Qed.

Lemma exp_f_other r t ts : tok_unop t = None ->
  exp_f r (t :: ts) =
  do (l, r1) <- update_f r (t :: ts);
  match l with
  | RP _ => Ok l r1
  | RE e =>
      match r1 with
      | TP (POp Exp) :: r2 => do (x, r3) <- p_exp r r2; do (rhs, r3) <- into_expr x r3; Ok (RE (EBin Exp e rhs)) r3
      | _ => Ok l r1
      end
  end.
Proof. intros H. unfold exp_f. rewrite H. reflexivity. Qed.

Lemma stops_hd L ain t r : stops L ain (t :: r) = true -> conts L ain t = false.
Proof. cbn. destruct (conts L ain t); auto; discriminate. Qed.

(* ------------------------------------------------------------------ the claims *)

Definition K16 (e : expr) : Prop :=
  forall rest v, stops 17 true rest = true ->
    ev (fun r => member_loop_f r e rest) v -> ev (fun r => member_f r (pe e ++ rest)) v.
Definition F16 (e : expr) : Prop :=
  forall rest, stops 16 true rest = true -> ev (fun r => member_f r (pe e ++ rest)) (Ok (RE e) rest).
Definition K15 (e : expr) : Prop :=
  forall rest v, stops 17 true rest = true ->
    ev (fun r => call_loop_f r e rest) v -> ev (fun r => lhs_f r (pe e ++ rest)) v.
Definition F15 (e : expr) : Prop :=
  forall rest, stops 15 true rest = true -> ev (fun r => lhs_f r (pe e ++ rest)) (Ok (RE e) rest).
Definition F14 (e : expr) : Prop :=
  forall rest, stops 14 true rest = true -> ev (fun r => update_f r (pe e ++ rest)) (Ok (RE e) rest).
Definition F13 (e : expr) : Prop :=
  forall rest, stops 13 true rest = true -> ev (fun r => unary_f r (pe e ++ rest)) (Ok (RE e) rest).
Definition F12 (e : expr) : Prop :=
  forall rest, stops 12 true rest = true -> ev (fun r => exp_f r (pe e ++ rest)) (Ok (RE e) rest).

(* the binary levels 4..11 (k = 12 - L levels below Exponentiation) *)
Definition Kbin (L : nat) (e : expr) : Prop :=
  forall ain rest v, wf true ain e = true -> stops (S L) ain rest = true ->
    ev (fun r => bin_loop_f r L ain e rest) v -> ev (fun r => bin_f r (12 - L) ain (pe e ++ rest)) v.
Definition Fbin (L : nat) (e : expr) : Prop :=
  forall ain rest, wf true ain e = true -> stops L ain rest = true ->
    ev (fun r => bin_f r (12 - L) ain (pe e ++ rest)) (Ok (RE e) rest).

(* ------------------------------------------------------------------ descending one level *)

Lemma stops_up L L' ain rest : L <= L' -> 9 <= L' -> stops L ain rest = true -> stops L' true rest = true.
Proof. intros HL H9 H. rewrite <- (stops_ain L' ain) by auto. exact (stops_mono L L' ain rest HL H). Qed.

Lemma member_loop_stop r e rest : stops 16 true rest = true -> member_loop_f r e rest = Ok (RE e) rest.
Proof.
  intros H. destruct rest as [|t ts]; [reflexivity|]. apply stops_hd in H.
  destruct t as [p|k|s|n|s|b| |s]; try reflexivity. destruct p; try reflexivity; discriminate H.
Qed.

Lemma call_loop_stop r e rest : stops 15 true rest = true -> call_loop_f r e rest = Ok (RE e) rest.
Proof.
  intros H. destruct rest as [|t ts]; [reflexivity|]. apply stops_hd in H.
  destruct t as [p|k|s|n|s|b| |s]; try reflexivity. destruct p; try reflexivity; discriminate H.
Qed.

Lemma K16_of_F17 e : lvl e = 17 -> wf true true e = true -> F17 e -> K16 e.
Proof.
  intros Hl W HF rest v Hs Hv.
  destruct (ftok_class e W) as (H17 & _). specialize (H17 Hl).
  destruct (pe_ftok e) as [tl E].
  assert (Hn : ftok e <> TK KNew) by (intros C; rewrite C in H17; cbn in H17; lia).
  eapply ev_ext.
  { intros r. rewrite E. cbn [app]. rewrite member_f_other by exact Hn. rewrite app_comm_cons, <- E. reflexivity. }
  eapply ev_bind. { apply HF; exact Hs. }
  exact Hv.
Qed.

Lemma F16_of_K16 e : K16 e -> F16 e.
Proof.
  intros HK rest Hs. apply HK. { eapply stops17; eauto. }
  eapply ev_ext. { intros r. apply member_loop_stop; exact Hs. } apply ev_const.
Qed.

Lemma F15_of_F16 e : F16 e -> F15 e.
Proof.
  intros HF rest Hs. unfold lhs_f.
  eapply ev_bind. { apply HF. eapply stops_mono; [|exact Hs]. lia. }
  destruct rest as [|t ts]; [ev_now|]. apply stops_hd in Hs.
  destruct t as [p|k|s|n|s|b| |s]; try ev_now. destruct p; try ev_now; discriminate Hs.
Qed.

Lemma F15_of_K15 e : K15 e -> F15 e.
Proof.
  intros HK rest Hs. apply HK. { eapply stops17; eauto. }
  eapply ev_ext. { intros r. apply call_loop_stop; exact Hs. } apply ev_const.
Qed.

Lemma F14_of_F15 e : 15 <= lvl e -> wf true true e = true -> F15 e -> F14 e.
Proof.
  intros Hl W HF rest Hs.
  destruct (ftok_class e W) as (_ & H15 & _). specialize (H15 Hl).
  destruct (fclass_incdec _ H15) as [Hi Hd].
  destruct (pe_ftok e) as [tl E].
  eapply ev_ext.
  { intros r. rewrite E. cbn [app]. rewrite update_f_other by assumption. rewrite app_comm_cons, <- E. reflexivity. }
  eapply ev_bind. { apply HF. eapply stops_mono; [|exact Hs]. lia. }
  destruct rest as [|t ts]; [ev_now|]. apply stops_hd in Hs.
  destruct t as [p|k|s|n|s|b| |s]; try ev_now. destruct p; try ev_now; discriminate Hs.
Qed.

Lemma F13_of_F14 e : 14 <= lvl e -> wf true true e = true -> F14 e -> F13 e.
Proof.
  intros Hl W HF rest Hs.
  destruct (ftok_class e W) as (_ & _ & H14). specialize (H14 Hl).
  destruct (pe_ftok e) as [tl E].
  eapply ev_ext.
  { intros r. rewrite E. cbn [app]. rewrite unary_f_other by (apply fclass_unop; exact H14). rewrite app_comm_cons, <- E. reflexivity. }
  apply HF. eapply stops_mono; [|exact Hs]. lia.
Qed.

Lemma F12_of_F14 e : 14 <= lvl e -> wf true true e = true -> F14 e -> F12 e.
Proof.
  intros Hl W HF rest Hs.
  destruct (ftok_class e W) as (_ & _ & H14). specialize (H14 Hl).
  destruct (pe_ftok e) as [tl E].
  eapply ev_ext.
  { intros r. rewrite E. cbn [app]. rewrite exp_f_other by (apply fclass_unop; exact H14). rewrite app_comm_cons, <- E. reflexivity. }
  eapply ev_bind. { apply HF. eapply stops_mono; [|exact Hs]. lia. }
  destruct rest as [|t ts]; [ev_now|]. apply stops_hd in Hs.
  destruct t as [p|k|s|n|s|b| |s]; try ev_now. destruct p; try ev_now. destruct o; try ev_now. discriminate Hs.
Qed.

Lemma F12_of_F13_unary o x : F13 (EUnary o x) -> F12 (EUnary o x).
Proof.
  intros HF rest Hs. cbn [pe app].
  eapply ev_ext. { intros r. rewrite (exp_f_op r _ o) by apply tok_unop_tok. reflexivity. }
  apply (HF rest). eapply stops_mono; [|exact Hs]. lia.
Qed.

(* ------------------------------------------------------------------ the binary levels *)

Lemma loop_op_conts L ain t o : loop_op L ain t = Some o -> conts L ain t = true.
Proof.
  intros H. apply loop_op_sound in H as (Hl & HL & Hin & ->).
  destruct o; cbn in Hl; subst L; cbn; try reflexivity; try lia.
  rewrite Hin; auto.
Qed.

Lemma bin_loop_stop r L ain e rest : stops L ain rest = true -> bin_loop_f r L ain e rest = Ok (RE e) rest.
Proof.
  intros H. destruct rest as [|t ts]; [reflexivity|]. apply stops_hd in H. unfold bin_loop_f.
  destruct (loop_op L ain t) eqn:E; [|reflexivity].
  apply loop_op_conts in E. congruence.
Qed.

Lemma Fbin12_of_F12 e : F12 e -> Fbin 12 e.
Proof.
  intros HF ain rest _ Hs. cbn [Nat.sub bin_f]. apply HF. rewrite <- (stops_ain 12 ain) by lia. exact Hs.
Qed.

Lemma Kbin_of_Fbin L e : 4 <= L <= 11 -> Fbin (S L) e -> Kbin L e.
Proof.
  intros HL HF ain rest v W Hs Hv.
  replace (12 - L) with (S (12 - S L)) by lia. cbn [bin_f].
  replace (12 - S (12 - S L)) with L by lia.
  eapply ev_bind. { apply HF; assumption. }
  apply ev_p_bin_loop. exact Hv.
Qed.

Lemma Fbin_of_Kbin L e : Kbin L e -> Fbin L e.
Proof.
  intros HK ain rest W Hs. apply HK; auto. { eapply stops_mono; [|exact Hs]. lia. }
  eapply ev_ext. { intros r. apply bin_loop_stop; exact Hs. } apply ev_const.
Qed.

Lemma bin_down e L0 : 4 <= L0 <= 12 -> Fbin L0 e ->
  forall d L, L0 = L + d -> 4 <= L -> Fbin L e /\ (L < L0 -> Kbin L e).
Proof.
  intros H0 HF. induction d; intros L E HL.
  - replace L with L0 by lia. split; auto. lia.
  - destruct (IHd (S L)) as [HF' _]; try lia.
    assert (HK : Kbin L e) by (apply Kbin_of_Fbin; [lia|exact HF']).
    split; auto. apply Fbin_of_Kbin; exact HK.
Qed.

Lemma Fbin_le e L0 L : 4 <= L <= L0 -> L0 <= 12 -> Fbin L0 e -> Fbin L e.
Proof. intros H1 H2 HF. destruct (bin_down e L0 ltac:(lia) HF (L0 - L) L ltac:(lia) ltac:(lia)) as [H _]. exact H. Qed.

Lemma Kbin_lt e L0 L : 4 <= L < L0 -> L0 <= 12 -> Fbin L0 e -> Kbin L e.
Proof. intros H1 H2 HF. destruct (bin_down e L0 ltac:(lia) HF (L0 - L) L ltac:(lia) ltac:(lia)) as [_ H]. apply H. lia. Qed.

(* ------------------------------------------------------------------ level 3: ShortCircuitExpression *)

Definition pv_ok (pv : prev) (e : expr) : bool :=
  match e with
  | EBin LAnd _ _ | EBin LOr _ _ => match pv with PrevCoalesce => false | _ => true end
  | EBin Coal _ _ => match pv with PrevLogical => false | _ => true end
  | _ => true
  end.

Definition pv_after (pv : prev) (e : expr) : prev :=
  match e with
  | EBin LAnd _ _ | EBin LOr _ _ => PrevLogical
  | EBin Coal _ _ => PrevCoalesce
  | _ => pv
  end.

Definition K3 (e : expr) : Prop :=
  forall ain pv rest v, wf true ain e = true -> pv_ok pv e = true -> stops 4 ain rest = true ->
    ev (fun r => sc_loop_f r ain (pv_after pv e) e rest) v -> ev (fun r => sc_f r ain pv (pe e ++ rest)) v.
Definition F3 (e : expr) : Prop :=
  forall ain pv rest, wf true ain e = true -> pv_ok pv e = true -> stops 3 ain rest = true ->
    ev (fun r => sc_f r ain pv (pe e ++ rest)) (Ok (RE e) rest).

Lemma sc_loop_stop r ain pv e rest : stops 3 ain rest = true -> sc_loop_f r ain pv e rest = Ok (RE e) rest.
Proof.
  intros H. destruct rest as [|t ts]; [reflexivity|]. apply stops_hd in H.
  destruct t as [p|k|s|n|s|b| |s]; try reflexivity. destruct p; try reflexivity. destruct o; try reflexivity; discriminate H.
Qed.

Lemma K3_of_Fbin4 e : 4 <= lvl e -> Fbin 4 e -> K3 e.
Proof.
  intros Hl HF ain pv rest v W _ Hs Hv. unfold sc_f.
  eapply ev_bind. { apply (HF ain rest W Hs). }
  assert (pv_after pv e = pv) as E.
  { destruct e; try reflexivity. destruct o; try reflexivity; cbn in Hl; lia. }
  rewrite E in Hv. exact Hv.
Qed.

Lemma F3_of_K3 e : K3 e -> F3 e.
Proof.
  intros HK ain pv rest W Hp Hs. apply HK; auto. { eapply stops_mono; [|exact Hs]. lia. }
  eapply ev_ext. { intros r. apply sc_loop_stop; exact Hs. } apply ev_const.
Qed.

(* wf of a binary node, split *)
Lemma wf_bin chk ain o l r : wf chk ain (EBin o l r) = true ->
  wf chk ain l = true /\ wf chk ain r = true /\
  match o with
  | Comma => (1 <=? lvl r)
  | LOr => ((4 <=? lvl l) || is_bin LAnd l) && ((4 <=? lvl r) || is_bin LAnd r || is_bin LOr r)
  | LAnd => ((4 <=? lvl l) || is_bin LAnd l) && (4 <=? lvl r)
  | Coal => ((4 <=? lvl l) || is_bin Coal l) && (4 <=? lvl r)
  | Exp => (14 <=? lvl l) && (12 <=? lvl r)
  | In => ain && (8 <=? lvl l) && (9 <=? lvl r)
  | _ => (binop_lvl o <=? lvl l) && (S (binop_lvl o) <=? lvl r)
  end = true.
Proof.
  cbn [wf]. intros H. apply andb_true_iff in H as [H H3]. apply andb_true_iff in H as [H1 H2]. auto.
Qed.

Lemma is_bin_inv o e : is_bin o e = true -> exists l r, e = EBin o l r.
Proof. destruct e; cbn; try discriminate. intros H. apply binop_beq_eq in H. subst. eauto. Qed.

Lemma K3_and l r : K3 l -> Fbin 4 r -> K3 (EBin LAnd l r).
Proof.
  intros Hl Hr ain pv rest v W Hp Hs Hv.
  apply wf_bin in W as (Wl & Wr & Hc). apply andb_true_iff in Hc as [Hc1 Hc2]. apply Nat.leb_le in Hc2.
  cbn [pe]. rewrite <- app_assoc. cbn [app].
  assert (pvl : pv_ok pv l = true).
  { apply orb_true_iff in Hc1 as [H|H].
    - apply Nat.leb_le in H. destruct l; try reflexivity. destruct o; try reflexivity; cbn in H; lia.
    - apply is_bin_inv in H as (a & b & ->). exact Hp. }
  apply (Hl ain pv); auto.
  assert (pva : pv_after pv l <> PrevCoalesce).
  { apply orb_true_iff in Hc1 as [H|H].
    - apply Nat.leb_le in H. destruct l; cbn; try (destruct pv; cbn in Hp; congruence).
      destruct o; cbn in H; try lia; cbn; destruct pv; cbn in Hp; congruence.
    - apply is_bin_inv in H as (a & b & ->). cbn. congruence. }
  eapply ev_ext.
  { intros r0. unfold sc_loop_f.
    instantiate (1 := fun r0 => do (x, r1) <- p_bin r0 4 ain (pe r ++ rest); do (rhs, r1) <- into_expr x r1;
                                  p_sc_loop r0 ain PrevLogical (EBin LAnd l rhs) r1).
    destruct (pv_after pv l); try reflexivity. congruence. }
  eapply ev_bind. { apply ev_p_bin. apply (Hr ain rest Wr Hs). }
  cbn [into_expr bind]. apply ev_p_sc_loop. exact Hv.
Qed.

Lemma K3_coal l r : K3 l -> Fbin 4 r -> K3 (EBin Coal l r).
Proof.
  intros Hl Hr ain pv rest v W Hp Hs Hv.
  apply wf_bin in W as (Wl & Wr & Hc). apply andb_true_iff in Hc as [Hc1 Hc2]. apply Nat.leb_le in Hc2.
  cbn [pe]. rewrite <- app_assoc. cbn [app].
  assert (pvl : pv_ok pv l = true).
  { apply orb_true_iff in Hc1 as [H|H].
    - apply Nat.leb_le in H. destruct l; try reflexivity. destruct o; try reflexivity; cbn in H; lia.
    - apply is_bin_inv in H as (a & b & ->). exact Hp. }
  apply (Hl ain pv); auto.
  assert (pva : pv_after pv l <> PrevLogical).
  { apply orb_true_iff in Hc1 as [H|H].
    - apply Nat.leb_le in H. destruct l; cbn; try (destruct pv; cbn in Hp; congruence).
      destruct o; cbn in H; try lia; cbn; destruct pv; cbn in Hp; congruence.
    - apply is_bin_inv in H as (a & b & ->). cbn. congruence. }
  eapply ev_ext.
  { intros r0. unfold sc_loop_f.
    instantiate (1 := fun r0 => do (x, r1) <- p_bin r0 4 ain (pe r ++ rest); do (rhs, r1) <- into_expr x r1;
                                  p_sc_loop r0 ain PrevCoalesce (EBin Coal l rhs) r1).
    destruct (pv_after pv l); try reflexivity. congruence. }
  eapply ev_bind. { apply ev_p_bin. apply (Hr ain rest Wr Hs). }
  cbn [into_expr bind]. apply ev_p_sc_loop. exact Hv.
Qed.

Lemma F3_or l r : K3 l -> F3 r -> F3 (EBin LOr l r).
Proof.
  intros Hl Hr ain pv rest W Hp Hs.
  apply wf_bin in W as (Wl & Wr & Hc). apply andb_true_iff in Hc as [Hc1 Hc2].
  cbn [pe]. rewrite <- app_assoc. cbn [app].
  assert (pvl : pv_ok pv l = true).
  { apply orb_true_iff in Hc1 as [H|H].
    - apply Nat.leb_le in H. destruct l; try reflexivity. destruct o; try reflexivity; cbn in H; lia.
    - apply is_bin_inv in H as (a & b & ->). exact Hp. }
  apply (Hl ain pv); auto.
  assert (pva : pv_after pv l <> PrevCoalesce).
  { apply orb_true_iff in Hc1 as [H|H].
    - apply Nat.leb_le in H. destruct l; cbn; try (destruct pv; cbn in Hp; congruence).
      destruct o; cbn in H; try lia; cbn; destruct pv; cbn in Hp; congruence.
    - apply is_bin_inv in H as (a & b & ->). cbn. congruence. }
  assert (pvr : pv_ok PrevLogical r = true).
  { apply orb_true_iff in Hc2 as [H|H]; [apply orb_true_iff in H as [H|H]|].
    - apply Nat.leb_le in H. destruct r; try reflexivity. destruct o; try reflexivity; cbn in H; lia.
    - apply is_bin_inv in H as (a & b & ->). reflexivity.
    - apply is_bin_inv in H as (a & b & ->). reflexivity. }
  eapply ev_ext.
  { intros r0. unfold sc_loop_f.
    instantiate (1 := fun r0 => do (x, r1) <- p_sc r0 ain PrevLogical (pe r ++ rest); do (rhs, r1) <- into_expr x r1;
                                  p_sc_loop r0 ain PrevLogical (EBin LOr l rhs) r1).
    destruct (pv_after pv l); try reflexivity. congruence. }
  eapply ev_bind. { apply ev_p_sc. apply (Hr ain PrevLogical rest Wr pvr Hs). }
  cbn [into_expr bind]. apply ev_p_sc_loop.
  eapply ev_ext. { intros r0. apply sc_loop_stop; exact Hs. } apply ev_const.
Qed.

(* ------------------------------------------------------------------ level 2: ConditionalExpression *)

Definition F2 (e : expr) : Prop :=
  forall ain rest, wf true ain e = true -> stops 2 ain rest = true ->
    ev (fun r => cond_f r ain (pe e ++ rest)) (Ok (RE e) rest).
Definition F2c (e : expr) : Prop :=
  forall ain rest, wf true ain e = true -> stops 1 ain rest = true ->
    ev (fun r => cond_f r ain (pe e ++ rest)) (Ok (RE e) rest).
Definition F1 (e : expr) : Prop :=
  forall ain rest, wf true ain e = true -> stops 1 ain rest = true ->
    ev (fun r => assign_f r ain (pe e ++ rest)) (Ok e rest).

Lemma pv_ok_none e : pv_ok PrevNone e = true.
Proof. destruct e; try reflexivity. destruct o; reflexivity. Qed.

Lemma F2_of_F3 e : F3 e -> F2 e.
Proof.
  intros HF ain rest W Hs. unfold cond_f.
  eapply ev_bind. { apply HF; auto. apply pv_ok_none. eapply stops_mono; [|exact Hs]. lia. }
  destruct rest as [|t ts]; [ev_now|]. apply stops_hd in Hs.
  destruct t as [p|k|s|n|s|b| |s]; try ev_now. destruct p; try ev_now; discriminate Hs.
Qed.

Lemma F2c_of_F2 e : F2 e -> F2c e.
Proof. intros H ain rest W Hs. apply H; auto. eapply stops_mono; [|exact Hs]. lia. Qed.

Lemma F2c_cond c t f : F3 c -> F1 t -> F1 f -> F2c (ECond c t f).
Proof.
  intros Hc Ht Hf ain rest W Hs.
  cbn [wf] in W. repeat (apply andb_true_iff in W as [W ?]).
  cbn [pe]. repeat rewrite <- app_assoc. cbn [app]. unfold cond_f.
  eapply ev_bind. { apply Hc; auto. apply pv_ok_none. }
  cbn beta iota.
  eapply ev_bind. { apply ev_p_assign. apply (Ht true (TP PColon :: pe f ++ rest)); auto. }
  cbn [expect_p punct_eqb bind].
  eapply ev_bind. { apply ev_p_assign. apply (Hf ain rest); auto. }
  apply ev_const.
Qed.

(* ------------------------------------------------------------------ level 1: AssignmentExpression *)

(* a printed expression never looks like `identifier =>` *)
Lemma no_id_arrow e : forall rest, stops 17 true rest = true ->
  match pe e ++ rest with TId _ :: TP PArrow :: _ => False | _ => True end.
Proof.
  induction e; intros rest Hs; cbn [pe print_params]; repeat rewrite <- app_assoc; cbn [app]; auto;
    try (apply IHe; reflexivity); try (apply IHe1; reflexivity).
  - (* EId *) apply stops17_arrow in Hs. destruct rest as [|[[]|[]| | | | | |] r']; auto.
  - (* EArrow *) unfold print_params. exact I.
  - (* EUpdate *) destruct prefix.
    + destruct inc; exact I.
    + rewrite <- app_assoc. apply IHe. destruct inc; reflexivity.
  - (* EUnary *) destruct o; exact I.
  - (* EBin *) apply IHe1. destruct o; reflexivity.
  - (* EAssign *) apply IHe1. destruct o; reflexivity.
Qed.

Lemma assign_f_other r ain ts : match ts with TId _ :: TP PArrow :: _ => False | _ => True end ->
  assign_f r ain ts =
  do (l, r0) <- cond_f r ain ts;
  match l with
  | RP ps =>
      match r0 with
      | TP PArrow :: r1 => do (b, r2) <- concise_f r ain r1; if nodupb ps then Ok (EArrow ps b) r2 else Err
      | _ => Err
      end
  | RE lhs =>
      match r0 with
      | TP PAssign :: r1 =>
          match as_simple lhs with
          | Some tg => do (rhs, r2) <- p_assign r ain r1; Ok (EAssign AAssign tg rhs) r2
          | None => Err
          end
      | TP (PAssignOp o) :: r1 =>
          if is_assign_binop o then
            match as_simple lhs with
            | Some tg => do (rhs, r2) <- p_assign r ain r1; Ok (EAssign (AOp o) tg rhs) r2
            | None => Err
            end
          else Err
      | _ => Ok lhs r0
      end
  end.
Proof.
  intros H. unfold assign_f.
  destruct ts as [|[p|k|s|n|s|b| |s] [|[p'|k'|s'|n'|s'|b'| |s'] ts']]; try reflexivity.
  destruct p'; try reflexivity. contradiction.
Qed.

Lemma F1_of_F2c e : F2c e -> F1 e.
Proof.
  intros HF ain rest W Hs.
  eapply ev_ext.
  { intros r. rewrite (assign_f_other r ain) by (apply no_id_arrow; eapply stops17; eauto). reflexivity. }
  eapply ev_bind. { apply HF; auto. }
  destruct rest as [|t ts]; [ev_now|]. apply stops_hd in Hs.
  destruct t as [p|k|s|n|s|b| |s]; try ev_now. destruct p; try ev_now; discriminate Hs.
Qed.

Lemma as_simple_simple x : is_simple x = true -> as_simple x = Some x.
Proof. destruct x; cbn; try discriminate; reflexivity. Qed.

Lemma F1_assign o l r : F2 l -> F1 r -> F1 (EAssign o l r).
Proof.
  intros Hl Hr ain rest W Hs.
  assert (Hna := no_id_arrow (EAssign o l r) rest (stops17 _ _ _ Hs)).
  cbn [wf] in W. repeat (apply andb_true_iff in W as [W ?]).
  eapply ev_ext. { intros r0. rewrite (assign_f_other r0 ain) by exact Hna. reflexivity. }
  cbn [pe]. rewrite <- app_assoc. cbn [app].
  eapply ev_bind.
  { apply Hl. { rewrite (wf_ain true l ain true); auto. pose proof (is_simple_lvl l W H2). lia. }
    destruct o; reflexivity. }
  cbn beta iota.
  destruct o as [|b]; cbn [assign_tok].
  - rewrite (as_simple_simple l W).
    eapply ev_bind. { apply ev_p_assign. apply Hr; auto. } apply ev_const.
  - rewrite H. rewrite (as_simple_simple l W).
    eapply ev_bind. { apply ev_p_assign. apply Hr; auto. } apply ev_const.
Qed.

(* ------------------------------------------------------------------ level 0: Expression (comma) *)

Definition K0 (e : expr) : Prop :=
  forall ain rest v, wf true ain e = true -> stops 1 ain rest = true ->
    ev (fun r => comma_loop_f r ain e rest) v -> ev (fun r => expr_f r ain (pe e ++ rest)) v.

Lemma K0_of_F1 e : F1 e -> K0 e.
Proof.
  intros HF ain rest v W Hs Hv. unfold expr_f.
  eapply ev_bind. { apply HF; auto. } exact Hv.
Qed.

Lemma comma_loop_stop r ain e rest : stops 0 ain rest = true -> comma_loop_f r ain e rest = Ok e rest.
Proof.
  intros H. destruct rest as [|t ts]; [reflexivity|]. apply stops_hd in H.
  destruct t as [p|k|s|n|s|b| |s]; try reflexivity. destruct p; try reflexivity; discriminate H.
Qed.

Lemma F0_of_K0 e : K0 e -> F0 e.
Proof.
  intros HK ain rest W Hs. apply HK; auto. { eapply stops_mono; [|exact Hs]. lia. }
  eapply ev_ext. { intros r. apply comma_loop_stop; exact Hs. } apply ev_const.
Qed.

Lemma K0_comma l r : K0 l -> F1 r -> K0 (EBin Comma l r).
Proof.
  intros Hl Hr ain rest v W Hs Hv.
  apply wf_bin in W as (Wl & Wr & Hc).
  cbn [pe]. rewrite <- app_assoc. cbn [app binop_tok].
  apply Hl; auto.
  destruct (pe_start r) as (t & tl & E & Ht). destruct (estart_not_close t Ht) as (Hc1 & _ & _ & _ & Hsp & _).
  eapply ev_ext.
  { intros r0. rewrite E. cbn [app]. unfold comma_loop_f.
    instantiate (1 := fun r0 => do (x, r1) <- p_assign r0 ain (t :: tl ++ rest); p_comma_loop r0 ain (EBin Comma l x) r1).
    destruct t as [p|k|s|n|s|b| |s]; try reflexivity. destruct p; try reflexivity; congruence. }
  eapply ev_bind. { apply ev_p_assign. rewrite app_comm_cons, <- E. apply Hr; auto. }
  apply ev_p_comma_loop. exact Hv.
Qed.

(* ------------------------------------------------------------------ argument lists *)

Fixpoint pargs (l : list expr) : list token :=
  match l with [] => [] | [x] => pe x | x :: r => pe x ++ [TP PComma] ++ pargs r end.
Fixpoint ptail (l : list expr) : list token :=
  match l with [] => [] | x :: r => TP PComma :: pe x ++ ptail r end.
Definition wfargs (l : list expr) : bool := forallb (fun x => (1 <=? lvl x) && wf true true x) l.

Lemma pargs_cons x l : pargs (x :: l) = pe x ++ ptail l.
Proof.
  revert x; induction l as [|y l IH]; intros x.
  - cbn. rewrite app_nil_r. reflexivity.
  - change (pargs (x :: y :: l)) with (pe x ++ [TP PComma] ++ pargs (y :: l)). rewrite IH. reflexivity.
Qed.

Lemma pe_call f args : pe (ECall f args) = pe f ++ [TP POpenParen] ++ pargs args ++ [TP PCloseParen].
Proof. reflexivity. Qed.
Lemma pe_new f args : pe (ENew f args) = [TK KNew] ++ pe f ++ [TP POpenParen] ++ pargs args ++ [TP PCloseParen].
Proof. reflexivity. Qed.
Lemma wf_call f args : wf true true (ECall f args) = (15 <=? lvl f) && wf true true f && wfargs args.
Proof. reflexivity. Qed.
Lemma wf_new f args : wf true true (ENew f args) = (16 <=? lvl f) && wf true true f && wfargs args.
Proof. reflexivity. Qed.

Lemma stops1_comma_close L ain r : 1 <= L -> stops L ain (TP PComma :: r) = true /\ stops L ain (TP PCloseParen :: r) = true.
Proof. intros H. split; cbn; auto. destruct L; [lia|reflexivity]. Qed.

Lemma args_tail_ok args rest : Forall F1 args -> wfargs args = true ->
  ev (fun r => args_loop_f r false (ptail args ++ TP PCloseParen :: rest)) (Ok args rest).
Proof.
  induction args as [|x l IH]; intros HF W.
  - ev_now.
  - inversion HF as [|? ? Hx Hl]; subst. cbn [wfargs forallb] in W. apply andb_true_iff in W as [Wx Wl].
    apply andb_true_iff in Wx as [Lx Wx].
    cbn [ptail]. rewrite <- app_comm_cons, <- app_assoc.
    destruct (pe_start x) as (t & tl & E & Ht). destruct (estart_not_close t Ht) as (Hc & _).
    eapply ev_ext.
    { intros r. unfold args_loop_f. rewrite E. cbn [app].
      instantiate (1 := fun r => do (a, r1) <- p_assign r true (t :: tl ++ ptail l ++ TP PCloseParen :: rest);
                                 do (l0, r2) <- p_args_loop r false r1; Ok (a :: l0) r2).
      destruct t as [p|k|s|n|s|b| |s]; try reflexivity. destruct p; try reflexivity; congruence. }
    eapply ev_bind.
    { apply ev_p_assign. rewrite app_comm_cons, <- E. apply Hx; auto.
      destruct l; cbn; reflexivity. }
    eapply ev_bind. { apply ev_p_args_loop. apply IH; auto. }
    apply ev_const.
Qed.

Lemma args_ok args rest : Forall F1 args -> wfargs args = true ->
  ev (fun r => args_open_f r (TP POpenParen :: pargs args ++ TP PCloseParen :: rest)) (Ok args rest).
Proof.
  intros HF W. unfold args_open_f. apply ev_p_args_loop.
  destruct args as [|x l]; [ev_now|].
  inversion HF as [|? ? Hx Hl]; subst. cbn [wfargs forallb] in W. apply andb_true_iff in W as [Wx Wl].
  apply andb_true_iff in Wx as [Lx Wx].
  rewrite pargs_cons, <- app_assoc.
  destruct (pe_start x) as (t & tl & E & Ht). destruct (estart_not_close t Ht) as (Hc & _ & _ & Hcm & _).
  eapply ev_ext.
  { intros r. unfold args_loop_f. rewrite E. cbn [app].
    instantiate (1 := fun r => do (a, r1) <- assign_f r true (t :: tl ++ ptail l ++ TP PCloseParen :: rest);
                               do (l0, r2) <- p_args_loop r false r1; Ok (a :: l0) r2).
    destruct t as [p|k|s|n|s|b| |s]; try reflexivity. destruct p; try reflexivity; congruence. }
  eapply ev_bind.
  { rewrite app_comm_cons, <- E. apply Hx; auto. destruct l; cbn; reflexivity. }
  eapply ev_bind. { apply ev_p_args_loop. apply args_tail_ok; auto. }
  apply ev_const.
Qed.

(* ------------------------------------------------------------------ levels 16 and 15: member / call chains *)

Lemma K16_member x s : K16 x -> K16 (EMember x s).
Proof.
  intros Hx rest v Hs Hv. cbn [pe]. rewrite <- app_assoc. cbn [app].
  apply Hx; [reflexivity|]. apply ev_p_member_loop. exact Hv.
Qed.

Lemma K16_index x i : K16 x -> F0 i -> wf true true i = true -> K16 (EIndex x i).
Proof.
  intros Hx Hi Wi rest v Hs Hv. cbn [pe]. repeat rewrite <- app_assoc. cbn [app].
  apply Hx; [reflexivity|]. unfold member_loop_f.
  eapply ev_bind. { apply ev_p_expr. apply (Hi true (TP PCloseBracket :: rest)); auto. }
  cbn [expect_p punct_eqb bind]. apply ev_p_member_loop. exact Hv.
Qed.

Lemma K16_new f args : F16 f -> Forall F1 args -> wfargs args = true -> K16 (ENew f args).
Proof.
  intros Hf Ha Wa rest v Hs Hv. rewrite pe_new. repeat rewrite <- app_assoc. cbn [app]. unfold member_f.
  eapply ev_bind. { apply ev_p_member. apply Hf. reflexivity. }
  cbn [into_expr bind].
  eapply ev_bind. { apply args_ok; auto. }
  exact Hv.
Qed.

Lemma K15_call_m f args : F16 f -> Forall F1 args -> wfargs args = true -> K15 (ECall f args).
Proof.
  intros Hf Ha Wa rest v Hs Hv. rewrite pe_call. repeat rewrite <- app_assoc. cbn [app]. unfold lhs_f.
  eapply ev_bind. { apply Hf. reflexivity. }
  cbn beta iota.
  eapply ev_bind. { apply args_ok; auto. }
  apply ev_p_call_loop. exact Hv.
Qed.

Lemma K15_call_c f args : K15 f -> Forall F1 args -> wfargs args = true -> K15 (ECall f args).
Proof.
  intros Hf Ha Wa rest v Hs Hv. rewrite pe_call. repeat rewrite <- app_assoc. cbn [app].
  apply Hf; [reflexivity|]. unfold call_loop_f.
  eapply ev_bind. { apply args_ok; auto. }
  apply ev_p_call_loop. exact Hv.
Qed.

Lemma K15_member x s : K15 x -> K15 (EMember x s).
Proof.
  intros Hx rest v Hs Hv. cbn [pe]. rewrite <- app_assoc. cbn [app].
  apply Hx; [reflexivity|]. apply ev_p_call_loop. exact Hv.
Qed.

Lemma K15_index x i : K15 x -> F0 i -> wf true true i = true -> K15 (EIndex x i).
Proof.
  intros Hx Hi Wi rest v Hs Hv. cbn [pe]. repeat rewrite <- app_assoc. cbn [app].
  apply Hx; [reflexivity|]. unfold call_loop_f.
  eapply ev_bind. { apply ev_p_expr. apply (Hi true (TP PCloseBracket :: rest)); auto. }
  cbn [expect_p punct_eqb bind]. apply ev_p_call_loop. exact Hv.
Qed.

(* ------------------------------------------------------------------ levels 14, 13, 12 *)

Lemma stops_13_14 ain rest : stops 13 ain rest = stops 14 ain rest.
Proof.
  destruct rest as [|t r]; [reflexivity|]. unfold stops. f_equal. unfold conts.
  destruct t as [p|k|s|n|s|b| |s]; try reflexivity.
  - destruct p; try reflexivity. cbn. destruct (is_punct_op o); [|reflexivity]. destruct o; reflexivity.
  - destruct k; reflexivity.
Qed.

Lemma F14_pre inc x : is_simple x = true -> F13 x -> F14 (EUpdate true inc x).
Proof.
  intros Hsx Hx rest Hs. cbn [pe].
  assert (E : forall r, update_f r (update_tok inc :: pe x ++ rest) =
     do (t, r1) <- p_unary r (pe x ++ rest); do (e, r1) <- into_expr t r1;
     match as_simple e with Some tg => Ok (RE (EUpdate true inc tg)) r1 | None => Err end).
  { intros r. destruct inc; reflexivity. }
  eapply ev_ext. { intros r. apply E. }
  eapply ev_bind. { apply ev_p_unary. apply Hx. rewrite stops_13_14. exact Hs. }
  cbn [into_expr bind]. rewrite (as_simple_simple x Hsx). apply ev_const.
Qed.

Lemma F14_post inc x : is_simple x = true -> wf true true x = true -> F15 x -> F14 (EUpdate false inc x).
Proof.
  intros Hsx Wx Hx rest Hs. cbn [pe]. rewrite <- app_assoc. cbn [app].
  pose proof (is_simple_lvl x Hsx Wx) as Hl.
  destruct (ftok_class x Wx) as (_ & H15 & _). specialize (H15 Hl).
  destruct (fclass_incdec _ H15) as [Hi Hd].
  destruct (pe_ftok x) as [tl E].
  eapply ev_ext.
  { intros r. rewrite E. cbn [app]. rewrite update_f_other by assumption. rewrite app_comm_cons, <- E. reflexivity. }
  eapply ev_bind. { apply Hx. destruct inc; reflexivity. }
  cbn beta iota. rewrite (as_simple_simple x Hsx). destruct inc; apply ev_const.
Qed.

Lemma F13_unary o x : F13 x -> F13 (EUnary o x).
Proof.
  intros Hx rest Hs. cbn [pe app].
  eapply ev_ext. { intros r. rewrite (unary_f_op r _ o) by apply tok_unop_tok. reflexivity. }
  eapply ev_bind. { apply ev_p_unary. apply Hx. exact Hs. }
  apply ev_const.
Qed.

Lemma F12_exp l r : 14 <= lvl l -> wf true true l = true -> F14 l -> F12 r -> F12 (EBin Exp l r).
Proof.
  intros Ll Wl Hl Hr rest Hs. cbn [pe]. rewrite <- app_assoc. cbn [app binop_tok].
  destruct (ftok_class l Wl) as (_ & _ & H14). specialize (H14 Ll).
  destruct (pe_ftok l) as [tl E].
  eapply ev_ext.
  { intros r0. rewrite E. cbn [app]. rewrite exp_f_other by (apply fclass_unop; exact H14). rewrite app_comm_cons, <- E. reflexivity. }
  eapply ev_bind. { apply Hl. reflexivity. }
  cbn beta iota.
  eapply ev_bind. { apply ev_p_exp. apply Hr. exact Hs. }
  apply ev_const.
Qed.

(* ------------------------------------------------------------------ a binary operator of the levels 4..11 *)

Lemma conts_own o ain : 4 <= binop_lvl o <= 11 -> conts (S (binop_lvl o)) ain (binop_tok o) = false.
Proof. destruct o; cbn; intros; try reflexivity; lia. Qed.

Lemma Kbin_bin o l r : 4 <= binop_lvl o <= 11 ->
  Kbin (binop_lvl o) l -> Fbin (S (binop_lvl o)) r -> Kbin (binop_lvl o) (EBin o l r).
Proof.
  intros HL Hl Hr ain rest v W Hs Hv.
  pose proof (wf_bin _ _ _ _ _ W) as (Wl & Wr & Hc).
  assert (Hin : o = In -> ain = true).
  { intros ->. apply andb_true_iff in Hc as [Hc _]. apply andb_true_iff in Hc as [Hc _]. exact Hc. }
  cbn [pe]. rewrite <- app_assoc. cbn [app].
  apply Hl; auto. { cbn. rewrite conts_own by exact HL. reflexivity. }
  unfold bin_loop_f. rewrite (loop_op_tok o ain HL Hin).
  eapply ev_bind. { apply ev_p_bin. apply (Hr ain rest Wr Hs). }
  cbn [into_expr bind]. apply ev_p_bin_loop. exact Hv.
Qed.

(* ------------------------------------------------------------------ everything that is known about one expression *)

Record Good (e : expr) : Prop := {
  g_K16 : 16 <= lvl e -> K16 e;
  g_K15 : lvl e = 15 -> K15 e;
  g_F15 : 15 <= lvl e -> F15 e;
  g_F14 : 14 <= lvl e -> F14 e;
  g_F13 : 13 <= lvl e -> F13 e;
  g_F12 : 12 <= lvl e -> F12 e;
  g_Fbin : forall L, 4 <= L <= 12 -> L <= lvl e -> Fbin L e;
  g_Kbin : forall L, 4 <= L <= 11 -> L <= lvl e -> Kbin L e;
  g_K3 : 3 <= lvl e -> is_bin LOr e = false -> K3 e;
  g_F3 : 3 <= lvl e -> F3 e;
  g_F2 : 3 <= lvl e -> F2 e;
  g_F2c : 2 <= lvl e -> F2c e;
  g_F1 : 1 <= lvl e -> F1 e;
  g_K0 : K0 e;
  g_F0 : F0 e;
}.

Lemma g_F16 e : Good e -> 16 <= lvl e -> F16 e.
Proof. intros G H. apply F16_of_K16. apply (g_K16 e G H). Qed.

(* the low part, from F1 (if lvl >= 1) and K0 *)
Lemma Good_low e :
  (16 <= lvl e -> K16 e) -> (lvl e = 15 -> K15 e) -> (15 <= lvl e -> F15 e) -> (14 <= lvl e -> F14 e) ->
  (13 <= lvl e -> F13 e) -> (12 <= lvl e -> F12 e) ->
  (forall L, 4 <= L <= 12 -> L <= lvl e -> Fbin L e) -> (forall L, 4 <= L <= 11 -> L <= lvl e -> Kbin L e) ->
  (3 <= lvl e -> is_bin LOr e = false -> K3 e) -> (3 <= lvl e -> F3 e) -> (2 <= lvl e -> F2c e) ->
  (1 <= lvl e -> F1 e) -> K0 e -> Good e.
Proof.
  intros. constructor; auto.
  - intros. apply F2_of_F3; auto.
  - apply F0_of_K0; auto.
Qed.

Lemma Good_from3 e :
  (16 <= lvl e -> K16 e) -> (lvl e = 15 -> K15 e) -> (15 <= lvl e -> F15 e) -> (14 <= lvl e -> F14 e) ->
  (13 <= lvl e -> F13 e) -> (12 <= lvl e -> F12 e) ->
  (forall L, 4 <= L <= 12 -> L <= lvl e -> Fbin L e) -> (forall L, 4 <= L <= 11 -> L <= lvl e -> Kbin L e) ->
  3 <= lvl e -> (is_bin LOr e = false -> K3 e) -> F3 e -> Good e.
Proof.
  intros. apply Good_low; auto.
  - intros. apply F2c_of_F2, F2_of_F3; auto.
  - intros. apply F1_of_F2c, F2c_of_F2, F2_of_F3; auto.
  - apply K0_of_F1, F1_of_F2c, F2c_of_F2, F2_of_F3; auto.
Qed.

Lemma Good_from_Fbin e L0 :
  (16 <= lvl e -> K16 e) -> (lvl e = 15 -> K15 e) -> (15 <= lvl e -> F15 e) -> (14 <= lvl e -> F14 e) ->
  (13 <= lvl e -> F13 e) -> (12 <= lvl e -> F12 e) ->
  4 <= L0 <= 12 -> L0 <= lvl e -> (lvl e <= 11 -> L0 = lvl e) -> (12 <= lvl e -> L0 = 12) ->
  Fbin L0 e -> (L0 <= 11 -> Kbin L0 e) -> Good e.
Proof.
  intros H16 H15 HF15 H14 H13 H12 HL0 Hle Hn1 Hn2 HF HK.
  assert (HFb : forall L, 4 <= L <= 12 -> L <= lvl e -> Fbin L e).
  { intros L HL Hl. apply (Fbin_le e L0 L); auto; lia. }
  assert (HKb : forall L, 4 <= L <= 11 -> L <= lvl e -> Kbin L e).
  { intros L HL Hl. destruct (Nat.eq_dec L L0) as [->|Hne]; [apply HK; lia|]. apply (Kbin_lt e L0 L); auto; lia. }
  assert (K : K3 e) by (apply K3_of_Fbin4; [lia|apply HFb; lia]).
  apply Good_from3; auto; try lia. apply F3_of_K3; auto.
Qed.

Lemma Good_from_F12 e :
  (16 <= lvl e -> K16 e) -> (lvl e = 15 -> K15 e) -> (15 <= lvl e -> F15 e) -> (14 <= lvl e -> F14 e) ->
  (13 <= lvl e -> F13 e) -> 12 <= lvl e -> F12 e -> Good e.
Proof.
  intros. apply (Good_from_Fbin e 12); auto; try lia. apply Fbin12_of_F12; auto.
Qed.

Lemma Good_from_F14 e : wf true true e = true ->
  (16 <= lvl e -> K16 e) -> (lvl e = 15 -> K15 e) -> (15 <= lvl e -> F15 e) -> 14 <= lvl e -> F14 e -> Good e.
Proof.
  intros W H16 H15 HF15 Hl HF.
  apply Good_from_F12; auto; try lia.
  - intros. apply F13_of_F14; auto.
  - apply F12_of_F14; auto.
Qed.

Lemma Good_from_F15 e : wf true true e = true ->
  (16 <= lvl e -> K16 e) -> (lvl e = 15 -> K15 e) -> 15 <= lvl e -> F15 e -> Good e.
Proof. intros. apply Good_from_F14; auto; try lia. apply F14_of_F15; auto. Qed.

Lemma Good_from_K16 e : wf true true e = true -> 16 <= lvl e -> K16 e -> Good e.
Proof.
  intros W Hl HK. apply Good_from_F15; auto; try lia. apply F15_of_F16, F16_of_K16; auto.
Qed.

Lemma Good_from_F17 e : wf true true e = true -> lvl e = 17 -> F17 e -> Good e.
Proof. intros W Hl HF. apply Good_from_K16; auto; try lia. apply K16_of_F17; auto. Qed.

Lemma Good_from_K15 e : wf true true e = true -> lvl e = 15 -> K15 e -> Good e.
Proof. intros W Hl HK. apply Good_from_F15; auto; try lia. apply F15_of_K15; auto. Qed.

Lemma Good_id s : Good (EId s).
Proof. apply Good_from_F17; auto. apply F17_id. Qed.

(* ------------------------------------------------------------------ formal parameters *)

Fixpoint pids (l : list string) : list token :=   (* `, a , b ...` *)
  match l with [] => [] | x :: r => TP PComma :: TId x :: pids r end.

Lemma print_params_cons x l : print_params (x :: l) = TP POpenParen :: TId x :: pids l ++ [TP PCloseParen].
Proof.
  unfold print_params. cbn [app]. f_equal.
  revert x; induction l as [|y l IH]; intros x; [reflexivity|].
  change (sep_by [TP PComma] (fun s => [TId s]) (x :: y :: l)) with
    ([TId x] ++ [TP PComma] ++ sep_by [TP PComma] (fun s => [TId s]) (y :: l)).
  cbn [app pids]. f_equal. f_equal. apply IH.
Qed.

Lemma params_loop_ok l : forall x n rest, List.length l < n ->
  params_loop n (TId x :: pids l ++ TP PCloseParen :: rest) = Ok (x :: l) rest.
Proof.
  induction l as [|y l IH]; intros x n rest Hn; destruct n; try (cbn in Hn; lia).
  - reflexivity.
  - cbn [pids app params_loop]. rewrite IH by (cbn in Hn; lia). reflexivity.
Qed.

Lemma pids_length l : List.length (pids l) = 2 * List.length l.
Proof. induction l; cbn [pids List.length]; lia. Qed.

Lemma params_ok ps rest : params_f (print_params ps ++ rest) = Ok ps rest.
Proof.
  destruct ps as [|x l]; [reflexivity|].
  rewrite print_params_cons. cbn [app]. rewrite <- app_assoc. cbn [app].
  unfold params_f. apply params_loop_ok. cbn [List.length]. rewrite app_length, pids_length. cbn [List.length]. lia.
Qed.

(* ------------------------------------------------------------------ statement lists (claims; proved in Proofs_Stmt) *)

Definition iend (rest : list token) : bool :=
  match rest with [] | TP PCloseBlock :: _ | TK KCase :: _ | TK KDefault :: _ => true | _ => false end.

Definition Fitems (aret : bool) (b : list stmt) : Prop :=
  forall rest, iend rest = true -> ev (fun r => items_f r aret (pitems b ++ rest)) (Ok b rest).

Lemma fbody_ok body rest : Fitems true body ->
  ev (fun r => fbody_f r (TP POpenBlock :: pitems body ++ TP PCloseBlock :: rest)) (Ok body rest).
Proof.
  intros H. unfold fbody_f.
  eapply ev_bind. { apply ev_p_items. apply H. reflexivity. }
  apply ev_const.
Qed.

Lemma block_ok aret body rest : Fitems aret body ->
  ev (fun r => block_f r aret (TP POpenBlock :: pitems body ++ TP PCloseBlock :: rest)) (Ok body rest).
Proof.
  intros H. unfold block_f.
  eapply ev_bind. { apply ev_p_items. apply H. reflexivity. }
  apply ev_const.
Qed.

Lemma pe_func name ps body :
  pe (EFunc name ps body) =
  [TK KFunction] ++ match name with Some s => [TId s] | None => [] end ++ print_params ps ++ [TP POpenBlock] ++ pitems body ++ [TP PCloseBlock].
Proof. reflexivity. Qed.

Lemma pe_arrow ps body :
  pe (EArrow ps body) = print_params ps ++ [TP PArrow] ++ [TP POpenBlock] ++ pitems body ++ [TP PCloseBlock].
Proof. reflexivity. Qed.

Lemma F17_func name ps body : Fitems true body -> F17 (EFunc name ps body).
Proof.
  intros Hb rest Hs. rewrite pe_func.
  assert (Hp : params_f (print_params ps ++ TP POpenBlock :: pitems body ++ TP PCloseBlock :: rest)
                 = Ok ps (TP POpenBlock :: pitems body ++ TP PCloseBlock :: rest)) by apply params_ok.
  destruct name as [s|]; repeat rewrite <- app_assoc; cbn [app].
  - unfold primary_f. rewrite Hp. cbn [bind].
    eapply ev_bind. { apply fbody_ok; auto. } apply ev_const.
  - eapply ev_ext.
    { intros r. unfold primary_f.
      instantiate (1 := fun r => do (ps0, r1) <- params_f (print_params ps ++ TP POpenBlock :: pitems body ++ TP PCloseBlock :: rest);
                                 do (b, r2) <- fbody_f r r1; Ok (RE (EFunc None ps0 b)) r2).
      destruct ps; reflexivity. }
    rewrite Hp. cbn [bind].
    eapply ev_bind. { apply fbody_ok; auto. } apply ev_const.
Qed.

(* ------------------------------------------------------------------ arrow functions *)

Fixpoint ctree (acc : expr) (l : list string) : expr :=
  match l with [] => acc | y :: r => ctree (EBin Comma acc (EId y)) r end.

Lemma to_params_ctree l : forall acc ps, to_params acc = Some ps -> to_params (ctree acc l) = Some (ps ++ l).
Proof.
  induction l as [|y l IH]; intros acc ps H; cbn [ctree].
  - rewrite app_nil_r; auto.
  - rewrite (IH _ (ps ++ [y])). { rewrite <- app_assoc. reflexivity. }
    cbn [to_params]. rewrite H. reflexivity.
Qed.

Lemma F1_id s : F1 (EId s).
Proof. apply (g_F1 _ (Good_id s)). cbn; lia. Qed.

Lemma ids_loop l : forall acc rest,
  ev (fun r => comma_loop_f r true acc (pids l ++ TP PCloseParen :: rest)) (Ok (ctree acc l) (TP PCloseParen :: rest)).
Proof.
  induction l as [|y l IH]; intros acc rest; [ev_now|].
  cbn [pids app ctree]. unfold comma_loop_f.
  eapply ev_bind.
  { apply ev_p_assign. apply (F1_id y true (pids l ++ TP PCloseParen :: rest)); [reflexivity|]. destruct l; reflexivity. }
  apply ev_p_comma_loop. apply IH.
Qed.

(* a parameter list result bubbles up unchanged from primary to the conditional level *)
Lemma rp_up r ain R ps r1 :
  primary_f r (TP POpenParen :: R) = Ok (RP ps) r1 -> cond_f r ain (TP POpenParen :: R) = Ok (RP ps) r1.
Proof.
  intros H.
  assert (Hm : member_f r (TP POpenParen :: R) = Ok (RP ps) r1).
  { rewrite member_f_other by discriminate. rewrite H. reflexivity. }
  assert (Hl : lhs_f r (TP POpenParen :: R) = Ok (RP ps) r1) by (unfold lhs_f; rewrite Hm; reflexivity).
  assert (Hu : update_f r (TP POpenParen :: R) = Ok (RP ps) r1).
  { rewrite update_f_other by discriminate. rewrite Hl. reflexivity. }
  assert (He : exp_f r (TP POpenParen :: R) = Ok (RP ps) r1).
  { rewrite exp_f_other by reflexivity. rewrite Hu. reflexivity. }
  assert (Hb : forall k, bin_f r k ain (TP POpenParen :: R) = Ok (RP ps) r1).
  { induction k; cbn [bin_f]; [exact He|]. rewrite IHk. reflexivity. }
  unfold cond_f, sc_f. rewrite Hb. reflexivity.
Qed.

Lemma F1_arrow ps body : nodupb ps = true -> Fitems true body -> F1 (EArrow ps body).
Proof.
  intros Hnd Hb ain rest _ Hs. rewrite pe_arrow. repeat rewrite <- app_assoc. cbn [app].
  set (R := TP PArrow :: TP POpenBlock :: pitems body ++ TP PCloseBlock :: rest).
  assert (Hprim : ev (fun r => primary_f r (print_params ps ++ R)) (Ok (RP ps) R)).
  { destruct ps as [|x l]; [ev_now|].
    rewrite print_params_cons. cbn [app]. rewrite <- app_assoc. cbn [app].
    unfold primary_f.
    eapply ev_bind.
    { apply ev_p_expr. unfold expr_f.
      eapply ev_bind. { apply (F1_id x true (pids l ++ TP PCloseParen :: R)); [reflexivity|]. destruct l; reflexivity. }
      apply ids_loop. }
    unfold R. cbn beta iota. rewrite (to_params_ctree l (EId x) [x]) by reflexivity. apply ev_const. }
  assert (Hcond : ev (fun r => cond_f r ain (print_params ps ++ R)) (Ok (RP ps) R)).
  { destruct Hprim as [n0 Hn0]. exists n0. intros n Hn. specialize (Hn0 n Hn). cbn beta in *.
    unfold print_params in *. cbn [app] in *. apply rp_up. exact Hn0. }
  eapply ev_ext.
  { intros r. rewrite (assign_f_other r ain); [reflexivity|]. unfold print_params. exact I. }
  eapply ev_bind. { exact Hcond. }
  unfold R. cbn beta iota. unfold concise_f.
  eapply ev_bind. { apply fbody_ok; auto. }
  rewrite Hnd. apply ev_const.
Qed.

(* ------------------------------------------------------------------ array and object literals *)

Fixpoint pelems (l : list (option expr)) : list token :=
  match l with
  | [] => []
  | Some x :: rest => pe x ++ match rest with [] => [] | _ => TP PComma :: pelems rest end
  | None :: rest => TP PComma :: pelems rest
  end.

Fixpoint wfelems (l : list (option expr)) : bool :=
  match l with
  | [] => true
  | Some x :: r => (1 <=? lvl x) && wf true true x && wfelems r
  | None :: r => wfelems r
  end.

Definition F1o (o : option expr) : Prop := match o with Some x => F1 x | None => True end.

Lemma pe_array es : pe (EArray es) = [TP POpenBracket] ++ pelems es ++ [TP PCloseBracket].
Proof. reflexivity. Qed.
Lemma wf_array es : wf true true (EArray es) = wfelems es.
Proof. reflexivity. Qed.

Lemma elems_ok es : forall rest, Forall F1o es -> wfelems es = true ->
  ev (fun r => elems_f r false (pelems es ++ TP PCloseBracket :: rest)) (Ok es rest).
Proof.
  induction es as [|[x|] l IH]; intros rest HF W.
  - ev_now.
  - inversion HF as [|? ? Hx Hl]; subst. cbn [F1o] in Hx.
    cbn [wfelems] in W. apply andb_true_iff in W as [W Wl]. apply andb_true_iff in W as [Lx Wx].
    cbn [pelems]. rewrite <- app_assoc.
    destruct (pe_start x) as (t & tl & E & Ht). destruct (estart_not_close t Ht) as (_ & Hb & _ & Hc & _).
    set (R := (match l with [] => [] | _ :: _ => TP PComma :: pelems l end) ++ TP PCloseBracket :: rest).
    eapply ev_ext.
    { intros r. unfold elems_f. rewrite E. cbn [app].
      instantiate (1 := fun r => do (e, r1) <- assign_f r true (t :: tl ++ R); do (es, r2) <- p_elems r true r1; Ok (Some e :: es) r2).
      destruct t as [p|k|s|n|s|b| |s]; try reflexivity. destruct p; try reflexivity; congruence. }
    eapply ev_bind.
    { rewrite app_comm_cons, <- E. apply Hx; auto. unfold R. destruct l; reflexivity. }
    eapply ev_bind; [|apply ev_const].
    apply ev_p_elems. unfold R. destruct l as [|y l'].
    + ev_now.
    + cbn [app]. unfold elems_f at 1. apply ev_p_elems. apply IH; auto.
  - inversion HF as [|? ? Hx Hl]; subst. cbn [wfelems] in W.
    cbn [pelems app]. unfold elems_f at 1.
    eapply ev_bind; [|apply ev_const]. apply ev_p_elems. apply IH; auto.
Qed.

Lemma F17_array es : Forall F1o es -> wfelems es = true -> F17 (EArray es).
Proof.
  intros HF W rest Hs. rewrite pe_array. repeat rewrite <- app_assoc. cbn [app]. unfold primary_f.
  eapply ev_bind. { apply ev_p_elems. apply elems_ok; auto. } apply ev_const.
Qed.

Fixpoint pprops (l : list prop) : list token :=
  match l with [] => [] | p :: rest => pprop p ++ [TP PComma] ++ pprops rest end.
Fixpoint wfprops (l : list prop) : bool :=
  match l with [] => true | p :: r => wfp true p && wfprops r end.

Definition Fprop (p : prop) : Prop :=
  match p with PShort _ => True | PKV _ v => F1 v | PComputed k v => F1 k /\ F1 v end.

Lemma pe_object ps : pe (EObject ps) = [TP POpenBlock] ++ pprops ps ++ [TP PCloseBlock].
Proof. reflexivity. Qed.
Lemma wf_object ps : wf true true (EObject ps) = wfprops ps.
Proof. reflexivity. Qed.

Lemma props_ok ps : forall rest, Forall Fprop ps -> wfprops ps = true ->
  ev (fun r => props_f r (pprops ps ++ TP PCloseBlock :: rest)) (Ok ps rest).
Proof.
  induction ps as [|p l IH]; intros rest HF W.
  - ev_now.
  - inversion HF as [|? ? Hp Hl]; subst. cbn [wfprops] in W. apply andb_true_iff in W as [Wp Wl].
    cbn [pprops]. repeat rewrite <- app_assoc. cbn [app].
    assert (Htail : ev (fun r => p_props r (pprops l ++ TP PCloseBlock :: rest)) (Ok l rest))
      by (apply ev_p_props; apply IH; auto).
    destruct p as [s|k v|k v]; cbn [pprop app Fprop wfp] in *.
    + unfold props_f. cbn [bind].
      eapply ev_bind; [exact Htail|apply ev_const].
    + apply andb_true_iff in Wp as [Lv Wv]. unfold props_f.
      eapply ev_bind.
      { eapply ev_bind. { apply ev_p_assign. apply Hp; auto. } apply ev_const. }
      cbn beta iota.
      eapply ev_bind; [exact Htail|apply ev_const].
    + destruct Hp as [Hk Hv]. repeat (apply andb_true_iff in Wp as [Wp ?]).
      repeat rewrite <- app_assoc. cbn [app]. unfold props_f.
      eapply ev_bind.
      { eapply ev_bind. { apply ev_p_assign. apply (Hk true (TP PCloseBracket :: TP PColon :: pe v ++ TP PComma :: pprops l ++ TP PCloseBlock :: rest)); auto. }
        cbn [expect_p punct_eqb bind].
        eapply ev_bind. { apply ev_p_assign. apply Hv; auto. }
        apply ev_const. }
      cbn beta iota.
      eapply ev_bind; [exact Htail|apply ev_const].
Qed.

Lemma F17_object ps : Forall Fprop ps -> wfprops ps = true -> F17 (EObject ps).
Proof.
  intros HF W rest Hs. rewrite pe_object. repeat rewrite <- app_assoc. cbn [app]. unfold primary_f.
  eapply ev_bind. { apply ev_p_props. apply props_ok; auto. } apply ev_const.
Qed.
