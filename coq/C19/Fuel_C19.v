(* C19 proofs, fuel: (M) a verdict other than out-of-fuel does not change when more fuel is given;
   (T) one unit of fuel per token (plus one) always suffices, i.e. the model parser is total. *)
From Coq Require Import List String NArith Bool Arith Lia.
From C19 Require Import Model_C19.
Import ListNotations.

(* ------------------------------------------------------------------ (M) monotonicity *)

Definition rle {A} (x y : res A) : Prop := x <> Fuel -> y = x.

Lemma rle_refl {A} (x : res A) : rle x x.
Proof. intros _. reflexivity. Qed.

Lemma rle_bind {A B} (x y : res A) (k1 k2 : A -> list token -> res B) :
  rle x y -> (forall a ts, rle (k1 a ts) (k2 a ts)) -> rle (bind x k1) (bind y k2).
Proof.
  intros Hx Hk H. destruct x as [a ts| |]; cbn [bind] in *.
  - rewrite (Hx ltac:(discriminate)). cbn [bind]. apply Hk. exact H.
  - rewrite (Hx ltac:(discriminate)). reflexivity.
  - congruence.
Qed.

Record ple (a b : parsers) : Prop := {
  le_expr : forall ain ts, rle (p_expr a ain ts) (p_expr b ain ts);
  le_assign : forall ain ts, rle (p_assign a ain ts) (p_assign b ain ts);
  le_comma_loop : forall ain e ts, rle (p_comma_loop a ain e ts) (p_comma_loop b ain e ts);
  le_sc : forall ain pv ts, rle (p_sc a ain pv ts) (p_sc b ain pv ts);
  le_sc_loop : forall ain pv e ts, rle (p_sc_loop a ain pv e ts) (p_sc_loop b ain pv e ts);
  le_bin : forall l ain ts, rle (p_bin a l ain ts) (p_bin b l ain ts);
  le_bin_loop : forall l ain e ts, rle (p_bin_loop a l ain e ts) (p_bin_loop b l ain e ts);
  le_exp : forall ts, rle (p_exp a ts) (p_exp b ts);
  le_unary : forall ts, rle (p_unary a ts) (p_unary b ts);
  le_member : forall ts, rle (p_member a ts) (p_member b ts);
  le_member_loop : forall e ts, rle (p_member_loop a e ts) (p_member_loop b e ts);
  le_call_loop : forall e ts, rle (p_call_loop a e ts) (p_call_loop b e ts);
  le_args_loop : forall f ts, rle (p_args_loop a f ts) (p_args_loop b f ts);
  le_elems : forall f ts, rle (p_elems a f ts) (p_elems b f ts);
  le_props : forall ts, rle (p_props a ts) (p_props b ts);
  le_stmt : forall r ts, rle (p_stmt a r ts) (p_stmt b r ts);
  le_items : forall r ts, rle (p_items a r ts) (p_items b r ts);
  le_decls : forall ain ts, rle (p_decls a ain ts) (p_decls b ain ts);
  le_cases : forall r ts, rle (p_cases a r ts) (p_cases b r ts);
}.

Section Mono.
Variables a b : parsers.
Hypothesis H : ple a b.

Create HintDb rle discriminated.
Hint Resolve rle_refl : rle.
Let h1 := le_expr a b H. Let h2 := le_assign a b H. Let h3 := le_comma_loop a b H. Let h4 := le_sc a b H.
Let h5 := le_sc_loop a b H. Let h6 := le_bin a b H. Let h7 := le_bin_loop a b H. Let h8 := le_exp a b H.
Let h9 := le_unary a b H. Let h10 := le_member a b H. Let h11 := le_member_loop a b H. Let h12 := le_call_loop a b H.
Let h13 := le_args_loop a b H. Let h14 := le_elems a b H. Let h15 := le_props a b H. Let h16 := le_stmt a b H.
Let h17 := le_items a b H. Let h18 := le_decls a b H. Let h19 := le_cases a b H.
Hint Resolve h1 h2 h3 h4 h5 h6 h7 h8 h9 h10 h11 h12 h13 h14 h15 h16 h17 h18 h19 : rle.

(* one step: same shape on both sides, only the record differs *)
Ltac rle_step :=
  first
  [ apply rle_refl
  | solve [auto with rle]
  | apply rle_bind; [ | intros ]
  | match goal with
    | |- rle (match ?s with _ => _ end) _ => destruct s
    | |- rle (if ?s then _ else _) _ => destruct s
    end ].
Ltac rle_auto := repeat rle_step.

Lemma fbody_mono ts : rle (fbody_f a ts) (fbody_f b ts).
Proof. unfold fbody_f. rle_auto. Qed.
Hint Resolve fbody_mono : rle.
Lemma block_mono r ts : rle (block_f a r ts) (block_f b r ts).
Proof. unfold block_f. rle_auto. Qed.
Hint Resolve block_mono : rle.
Lemma primary_mono ts : rle (primary_f a ts) (primary_f b ts).
Proof. unfold primary_f. rle_auto. Qed.
Hint Resolve primary_mono : rle.
Lemma args_open_mono ts : rle (args_open_f a ts) (args_open_f b ts).
Proof. unfold args_open_f. rle_auto. Qed.
Hint Resolve args_open_mono : rle.
Lemma member_loop_mono e ts : rle (member_loop_f a e ts) (member_loop_f b e ts).
Proof. unfold member_loop_f. rle_auto. Qed.
Hint Resolve member_loop_mono : rle.
Lemma member_mono ts : rle (member_f a ts) (member_f b ts).
Proof. unfold member_f. rle_auto. Qed.
Hint Resolve member_mono : rle.
Lemma call_loop_mono e ts : rle (call_loop_f a e ts) (call_loop_f b e ts).
Proof. unfold call_loop_f. rle_auto. Qed.
Hint Resolve call_loop_mono : rle.
Lemma lhs_mono ts : rle (lhs_f a ts) (lhs_f b ts).
Proof. unfold lhs_f. rle_auto. Qed.
Hint Resolve lhs_mono : rle.
Lemma update_mono ts : rle (update_f a ts) (update_f b ts).
Proof. unfold update_f. rle_auto. Qed.
Hint Resolve update_mono : rle.
Lemma unary_mono ts : rle (unary_f a ts) (unary_f b ts).
Proof. unfold unary_f. rle_auto. Qed.
Hint Resolve unary_mono : rle.
Lemma exp_mono ts : rle (exp_f a ts) (exp_f b ts).
Proof. unfold exp_f. rle_auto. Qed.
Hint Resolve exp_mono : rle.
Lemma bin_mono k : forall ain ts, rle (bin_f a k ain ts) (bin_f b k ain ts).
Proof. induction k; intros; cbn [bin_f]; rle_auto. Qed.
Hint Resolve bin_mono : rle.
Lemma bin_loop_mono l ain e ts : rle (bin_loop_f a l ain e ts) (bin_loop_f b l ain e ts).
Proof. unfold bin_loop_f. rle_auto. Qed.
Lemma bin_at_mono l ain ts : rle (bin_at_f a l ain ts) (bin_at_f b l ain ts).
Proof. unfold bin_at_f. rle_auto. Qed.
Lemma sc_loop_mono ain pv e ts : rle (sc_loop_f a ain pv e ts) (sc_loop_f b ain pv e ts).
Proof. unfold sc_loop_f. rle_auto. Qed.
Hint Resolve sc_loop_mono : rle.
Lemma sc_mono ain pv ts : rle (sc_f a ain pv ts) (sc_f b ain pv ts).
Proof. unfold sc_f. rle_auto. Qed.
Hint Resolve sc_mono : rle.
Lemma cond_mono ain ts : rle (cond_f a ain ts) (cond_f b ain ts).
Proof. unfold cond_f. rle_auto. Qed.
Hint Resolve cond_mono : rle.
Lemma concise_mono ain ts : rle (concise_f a ain ts) (concise_f b ain ts).
Proof. unfold concise_f. rle_auto. Qed.
Hint Resolve concise_mono : rle.
Lemma assign_mono ain ts : rle (assign_f a ain ts) (assign_f b ain ts).
Proof. unfold assign_f. rle_auto. Qed.
Hint Resolve assign_mono : rle.
Lemma comma_loop_mono ain e ts : rle (comma_loop_f a ain e ts) (comma_loop_f b ain e ts).
Proof. unfold comma_loop_f. rle_auto. Qed.
Hint Resolve comma_loop_mono : rle.
Lemma expr_mono ain ts : rle (expr_f a ain ts) (expr_f b ain ts).
Proof. unfold expr_f. rle_auto. Qed.
Hint Resolve expr_mono : rle.
Lemma elems_mono f ts : rle (elems_f a f ts) (elems_f b f ts).
Proof. unfold elems_f. rle_auto. Qed.
Lemma props_mono ts : rle (props_f a ts) (props_f b ts).
Proof. unfold props_f. rle_auto. Qed.
Lemma args_loop_mono f ts : rle (args_loop_f a f ts) (args_loop_f b f ts).
Proof. unfold args_loop_f. rle_auto. Qed.
Lemma decls_mono ain ts : rle (decls_f a ain ts) (decls_f b ain ts).
Proof. unfold decls_f. rle_auto. Qed.
Hint Resolve decls_mono : rle.
Lemma for_rest_mono r i ts : rle (for_rest_f a r i ts) (for_rest_f b r i ts).
Proof. unfold for_rest_f. rle_auto. Qed.
Hint Resolve for_rest_mono : rle.
Lemma for_inof_mono r h ts : rle (for_inof_f a r h ts) (for_inof_f b r h ts).
Proof. unfold for_inof_f. rle_auto. Qed.
Hint Resolve for_inof_mono : rle.
Lemma for_mono r ts : rle (for_f a r ts) (for_f b r ts).
Proof. unfold for_f. rle_auto. Qed.
Hint Resolve for_mono : rle.
Lemma cases_mono r ts : rle (cases_f a r ts) (cases_f b r ts).
Proof. unfold cases_f. rle_auto. Qed.
Lemma try_mono r ts : rle (try_f a r ts) (try_f b r ts).
Proof. unfold try_f. rle_auto. Qed.
Hint Resolve try_mono : rle.
Lemma stmt_mono r ts : rle (stmt_f a r ts) (stmt_f b r ts).
Proof. unfold stmt_f. rle_auto. Qed.
Hint Resolve stmt_mono : rle.
Lemma item_mono r ts : rle (item_f a r ts) (item_f b r ts).
Proof. unfold item_f. rle_auto. Qed.
Hint Resolve item_mono : rle.
Lemma items_mono r ts : rle (items_f a r ts) (items_f b r ts).
Proof. unfold items_f. rle_auto. Qed.

Lemma step_mono : ple (step a) (step b).
Proof.
  constructor; intros; cbn [step p_expr p_assign p_comma_loop p_sc p_sc_loop p_bin p_bin_loop p_exp p_unary p_member
    p_member_loop p_call_loop p_args_loop p_elems p_props p_stmt p_items p_decls p_cases];
    auto using expr_mono, assign_mono, comma_loop_mono, sc_mono, sc_loop_mono, bin_at_mono, bin_loop_mono, exp_mono,
      unary_mono, member_mono, member_loop_mono, call_loop_mono, args_loop_mono, elems_mono, props_mono, stmt_mono,
      items_mono, decls_mono, cases_mono.
Qed.

End Mono.

Lemma ple_nofuel b : ple no_fuel b.
Proof. constructor; intros; intros C; exfalso; apply C; reflexivity. Qed.

Lemma ple_refl a : ple a a.
Proof. constructor; intros; apply rle_refl. Qed.

Lemma parsers_mono n : forall m, n <= m -> ple (parsers_n n) (parsers_n m).
Proof.
  induction n; intros m Hm.
  - apply ple_nofuel.
  - destruct m; [lia|]. cbn [parsers_n]. apply step_mono. apply IHn. lia.
Qed.

Theorem parse_script_mono : forall n m ts, n <= m -> parse_script n ts <> Fuel -> parse_script m ts = parse_script n ts.
Proof.
  intros n m ts Hnm. unfold parse_script.
  assert (Hi := items_mono _ _ (parsers_mono n m Hnm) false ts).
  intros Hnf. destruct (items_f (parsers_n n) false ts) as [l r| |] eqn:E; cbn [bind] in *.
  - rewrite (Hi ltac:(discriminate)). reflexivity.
  - rewrite (Hi ltac:(discriminate)). reflexivity.
  - congruence.
Qed.

(* ------------------------------------------------------------------ (T) totality: fuel = number of tokens + 1 suffices *)

(* not out of fuel, and an Ok result leaves at most m tokens *)
Definition fine {A} (m : nat) (r : res A) : Prop :=
  r <> Fuel /\ forall a rest, r = Ok a rest -> List.length rest <= m.

Lemma fine_err {A} m : @fine A m Err.
Proof. split; [discriminate|intros; discriminate]. Qed.
Lemma fine_ok {A} m (a : A) rest : List.length rest <= m -> fine m (Ok a rest).
Proof. intros H. split; [discriminate|]. intros a' r' E. inversion E; subst; auto. Qed.
Lemma fine_weaken {A} m m' (r : res A) : fine m r -> m <= m' -> fine m' r.
Proof. intros [H1 H2] Hm. split; auto. intros a rest E. specialize (H2 a rest E). lia. Qed.
Lemma fine_bind {A B} m1 m2 (x : res A) (k : A -> list token -> res B) :
  fine m1 x -> (forall a r, List.length r <= m1 -> fine m2 (k a r)) -> fine m2 (bind x k).
Proof.
  intros [H1 H2] Hk. destruct x as [a r| |]; cbn [bind]; [|apply fine_err|congruence].
  apply Hk. apply (H2 a r eq_refl).
Qed.

Lemma expect_p_fine p ts : fine (List.length ts - 1) (expect_p p ts).
Proof.
  unfold expect_p. destruct ts as [|[q|k|s|n|s|b| |s] r]; try apply fine_err.
  destruct (punct_eqb p q); [apply fine_ok; cbn; lia|apply fine_err].
Qed.
Lemma expect_k_fine k ts : fine (List.length ts - 1) (expect_k k ts).
Proof.
  unfold expect_k. destruct ts as [|[q|k'|s|n|s|b| |s] r]; try apply fine_err.
  destruct (keyword_beq k k'); [apply fine_ok; cbn; lia|apply fine_err].
Qed.
Lemma expect_semi_fine ts : fine (List.length ts) (expect_semi ts).
Proof.
  unfold expect_semi. destruct ts as [|[q|k'|s|n|s|b| |s] r]; try apply fine_err; try (apply fine_ok; cbn; lia).
  destruct q; try apply fine_err; apply fine_ok; cbn; lia.
Qed.
Lemma into_expr_fine p ts : fine (List.length ts) (into_expr p ts).
Proof. destruct p; [apply fine_ok; lia|apply fine_err]. Qed.

Lemma params_loop_fine n : forall ts, fine (List.length ts - 1) (params_loop n ts).
Proof.
  induction n; intros ts; cbn [params_loop]; [apply fine_err|].
  destruct ts as [|[q|k'|s|n0|s|b| |s] r]; try apply fine_err.
  destruct r as [|[q|k'|s0|n0|s0|b| |s0] r']; try apply fine_err.
  destruct q; try apply fine_err.
  - apply fine_ok. cbn; lia.
  - eapply fine_bind; [apply IHn|]. intros a r0 Hr. apply fine_ok. cbn [List.length] in *. lia.
Qed.
Lemma params_fine ts : fine (List.length ts - 1) (params_f ts).
Proof.
  unfold params_f. destruct ts as [|[q|k'|s|n0|s|b| |s] r]; try apply fine_err.
  destruct q; try apply fine_err.
  destruct r as [|[q|k'|s0|n0|s0|b| |s0] r']; try (eapply fine_weaken; [apply params_loop_fine|cbn [List.length]; lia]).
  destruct q; try (eapply fine_weaken; [apply params_loop_fine|cbn [List.length]; lia]).
  apply fine_ok. cbn; lia.
Qed.

Record inv (n : nat) (p : parsers) : Prop := {
  iv_expr : forall ain ts, List.length ts < n -> fine (List.length ts - 1) (p_expr p ain ts);
  iv_assign : forall ain ts, List.length ts < n -> fine (List.length ts - 1) (p_assign p ain ts);
  iv_comma_loop : forall ain e ts, List.length ts < n -> fine (List.length ts) (p_comma_loop p ain e ts);
  iv_sc : forall ain pv ts, List.length ts < n -> fine (List.length ts - 1) (p_sc p ain pv ts);
  iv_sc_loop : forall ain pv e ts, List.length ts < n -> fine (List.length ts) (p_sc_loop p ain pv e ts);
  iv_bin : forall l ain ts, List.length ts < n -> fine (List.length ts - 1) (p_bin p l ain ts);
  iv_bin_loop : forall l ain e ts, List.length ts < n -> fine (List.length ts) (p_bin_loop p l ain e ts);
  iv_exp : forall ts, List.length ts < n -> fine (List.length ts - 1) (p_exp p ts);
  iv_unary : forall ts, List.length ts < n -> fine (List.length ts - 1) (p_unary p ts);
  iv_member : forall ts, List.length ts < n -> fine (List.length ts - 1) (p_member p ts);
  iv_member_loop : forall e ts, List.length ts < n -> fine (List.length ts) (p_member_loop p e ts);
  iv_call_loop : forall e ts, List.length ts < n -> fine (List.length ts) (p_call_loop p e ts);
  iv_args_loop : forall f ts, List.length ts < n -> fine (List.length ts - 1) (p_args_loop p f ts);
  iv_elems : forall f ts, List.length ts < n -> fine (List.length ts - 1) (p_elems p f ts);
  iv_props : forall ts, List.length ts < n -> fine (List.length ts - 1) (p_props p ts);
  iv_stmt : forall r ts, List.length ts < n -> fine (List.length ts - 1) (p_stmt p r ts);
  iv_items : forall r ts, List.length ts < n -> fine (List.length ts) (p_items p r ts);
  iv_decls : forall ain ts, List.length ts < n -> fine (List.length ts - 1) (p_decls p ain ts);
  iv_cases : forall r ts, List.length ts < n -> fine (List.length ts - 1) (p_cases p r ts);
}.

Section Total.
Variable n : nat.
Variable rec : parsers.
Hypothesis I : inv n rec.

Ltac len := cbn [List.length] in *; lia.

(* a call of a field of rec (needs an input shorter than n) or of an already treated body / helper *)
Ltac leaf0 :=
  first
  [ eapply (iv_expr n rec I) | eapply (iv_assign n rec I) | eapply (iv_comma_loop n rec I) | eapply (iv_sc n rec I)
  | eapply (iv_sc_loop n rec I) | eapply (iv_bin n rec I) | eapply (iv_bin_loop n rec I) | eapply (iv_exp n rec I)
  | eapply (iv_unary n rec I) | eapply (iv_member n rec I) | eapply (iv_member_loop n rec I) | eapply (iv_call_loop n rec I)
  | eapply (iv_args_loop n rec I) | eapply (iv_elems n rec I) | eapply (iv_props n rec I) | eapply (iv_stmt n rec I)
  | eapply (iv_items n rec I) | eapply (iv_decls n rec I) | eapply (iv_cases n rec I)
  | eapply expect_p_fine | eapply expect_k_fine | eapply expect_semi_fine | eapply into_expr_fine | eapply params_fine ].

Ltac fine_with leaf :=
  repeat first
  [ match goal with |- fine ?m Err => is_evar m; unify m 0; apply fine_err end
  | match goal with |- fine ?m (Ok _ ?r) => is_evar m; apply fine_ok; apply Nat.le_refl end
  | apply fine_err
  | apply fine_ok; len
  | match goal with |- fine _ (bind _ _) => eapply fine_bind; [ | intros ] end
  | match goal with |- fine ?m _ => is_evar m; leaf; len end
  | match goal with |- fine ?m (match ?s with _ => _ end) => tryif is_evar m then fail else destruct s end
  | match goal with |- fine ?m (if ?s then _ else _) => tryif is_evar m then fail else destruct s end
  | eapply fine_weaken; [ leaf; len | len ] ].

Lemma fbody_fine ts : List.length ts <= n -> fine (List.length ts - 1) (fbody_f rec ts).
Proof. intros Hn. unfold fbody_f. fine_with leaf0. Qed.
Lemma block_fine r ts : List.length ts <= n -> fine (List.length ts - 1) (block_f rec r ts).
Proof. intros Hn. unfold block_f. fine_with leaf0. Qed.
Ltac leaf1 := first [leaf0 | eapply fbody_fine | eapply block_fine].
Lemma primary_fine ts : List.length ts <= n -> fine (List.length ts - 1) (primary_f rec ts).
Proof. intros Hn. unfold primary_f. fine_with leaf1. Qed.
Lemma args_open_fine ts : List.length ts <= n -> fine (List.length ts - 1) (args_open_f rec ts).
Proof. intros Hn. unfold args_open_f. fine_with leaf1. Qed.
Ltac leaf2 := first [leaf1 | eapply primary_fine | eapply args_open_fine].
Lemma member_loop_fine e ts : List.length ts <= n -> fine (List.length ts) (member_loop_f rec e ts).
Proof. intros Hn. unfold member_loop_f. fine_with leaf2. Qed.
Ltac leaf3 := first [leaf2 | eapply member_loop_fine].
Lemma member_fine ts : List.length ts <= n -> fine (List.length ts - 1) (member_f rec ts).
Proof. intros Hn. unfold member_f. fine_with leaf3. Qed.
Lemma call_loop_fine e ts : List.length ts <= n -> fine (List.length ts) (call_loop_f rec e ts).
Proof. intros Hn. unfold call_loop_f. fine_with leaf3. Qed.
Ltac leaf4 := first [leaf3 | eapply member_fine | eapply call_loop_fine].
Lemma lhs_fine ts : List.length ts <= n -> fine (List.length ts - 1) (lhs_f rec ts).
Proof. intros Hn. unfold lhs_f. fine_with leaf4. Qed.
Ltac leaf5 := first [leaf4 | eapply lhs_fine].
Lemma update_fine ts : List.length ts <= n -> fine (List.length ts - 1) (update_f rec ts).
Proof. intros Hn. unfold update_f. fine_with leaf5. Qed.
Ltac leaf6 := first [leaf5 | eapply update_fine].
Lemma unary_fine ts : List.length ts <= n -> fine (List.length ts - 1) (unary_f rec ts).
Proof. intros Hn. unfold unary_f. fine_with leaf6. Qed.
Ltac leaf7 := first [leaf6 | eapply unary_fine].
Lemma exp_fine ts : List.length ts <= n -> fine (List.length ts - 1) (exp_f rec ts).
Proof. intros Hn. unfold exp_f. fine_with leaf7. Qed.
Ltac leaf8 := first [leaf7 | eapply exp_fine].
Lemma bin_nil k ain : bin_f rec k ain [] = Err.
Proof. induction k; cbn [bin_f]; [reflexivity|]. rewrite IHk. reflexivity. Qed.
Lemma bin_fine k : forall ain ts, List.length ts <= n -> fine (List.length ts - 1) (bin_f rec k ain ts).
Proof.
  induction k; intros ain ts Hn; cbn [bin_f]; [apply exp_fine; auto|].
  destruct ts as [|t ts']; [rewrite bin_nil; apply fine_err|].
  fine_with ltac:(first [leaf8 | eapply IHk]).
Qed.
Ltac leaf9 := first [leaf8 | eapply bin_fine].
Lemma bin_loop_fine l ain e ts : List.length ts <= n -> fine (List.length ts) (bin_loop_f rec l ain e ts).
Proof. intros Hn. unfold bin_loop_f. fine_with leaf9. Qed.
Lemma bin_at_fine l ain ts : List.length ts <= n -> fine (List.length ts - 1) (bin_at_f rec l ain ts).
Proof. intros Hn. unfold bin_at_f. apply bin_fine; auto. Qed.
Lemma sc_loop_fine ain pv e ts : List.length ts <= n -> fine (List.length ts) (sc_loop_f rec ain pv e ts).
Proof. intros Hn. unfold sc_loop_f. fine_with leaf9. Qed.
Ltac leaf10 := first [leaf9 | eapply sc_loop_fine].
Lemma sc_fine ain pv ts : List.length ts <= n -> fine (List.length ts - 1) (sc_f rec ain pv ts).
Proof. intros Hn. unfold sc_f. fine_with leaf10. Qed.
Ltac leaf11 := first [leaf10 | eapply sc_fine].
Lemma cond_fine ain ts : List.length ts <= n -> fine (List.length ts - 1) (cond_f rec ain ts).
Proof. intros Hn. unfold cond_f. fine_with leaf11. Qed.
Lemma concise_fine ain ts : List.length ts < n -> fine (List.length ts - 1) (concise_f rec ain ts).
Proof. intros Hn. unfold concise_f. fine_with leaf11. Qed.
Ltac leaf12 := first [leaf11 | eapply cond_fine | eapply concise_fine].
Lemma assign_fine ain ts : List.length ts <= n -> fine (List.length ts - 1) (assign_f rec ain ts).
Proof. intros Hn. unfold assign_f. fine_with leaf12. Qed.
Lemma comma_loop_fine ain e ts : List.length ts <= n -> fine (List.length ts) (comma_loop_f rec ain e ts).
Proof. intros Hn. unfold comma_loop_f. fine_with leaf12. Qed.
Ltac leaf13 := first [leaf12 | eapply assign_fine | eapply comma_loop_fine].
Lemma expr_fine ain ts : List.length ts <= n -> fine (List.length ts - 1) (expr_f rec ain ts).
Proof. intros Hn. unfold expr_f. fine_with leaf13. Qed.
Ltac leaf14 := first [leaf13 | eapply expr_fine].
Lemma elems_fine f ts : List.length ts <= n -> fine (List.length ts - 1) (elems_f rec f ts).
Proof. intros Hn. unfold elems_f. fine_with leaf14. Qed.
Lemma args_loop_fine f ts : List.length ts <= n -> fine (List.length ts - 1) (args_loop_f rec f ts).
Proof. intros Hn. unfold args_loop_f. fine_with leaf14. Qed.
Lemma decls_fine ain ts : List.length ts <= n -> fine (List.length ts - 1) (decls_f rec ain ts).
Proof. intros Hn. unfold decls_f. fine_with leaf14. Qed.
Ltac leaf15 := first [leaf14 | eapply decls_fine].

(* bodies whose binds have a `match` as first argument: the budget of that argument is given explicitly *)
Ltac fine_withb leaf B :=
  repeat first
  [ match goal with |- fine ?m Err => is_evar m; unify m 0; apply fine_err end
  | match goal with |- fine ?m (Ok _ ?r) => is_evar m; apply fine_ok; apply Nat.le_refl end
  | apply fine_err
  | apply fine_ok; len
  | match goal with |- fine _ (bind (match _ with _ => _ end) _) => eapply (fine_bind B); [ | intros ] end
  | match goal with |- fine _ (bind (bind _ _) _) => eapply (fine_bind B); [ | intros ] end
  | match goal with |- fine _ (bind _ _) => eapply fine_bind; [ | intros ] end
  | match goal with |- fine ?m _ => is_evar m; leaf; len end
  | match goal with |- fine ?m (match ?s with _ => _ end) => tryif is_evar m then fail else destruct s end
  | match goal with |- fine ?m (if ?s then _ else _) => tryif is_evar m then fail else destruct s end
  | eapply fine_weaken; [ leaf; len | len ] ].

Lemma props_fine ts : List.length ts <= n -> fine (List.length ts - 1) (props_f rec ts).
Proof.
  intros Hn. unfold props_f. destruct ts as [|t ts']; [apply fine_err|].
  fine_withb leaf15 (List.length ts').
Qed.
Lemma for_rest_fine r i ts : List.length ts < n -> fine (List.length ts - 1) (for_rest_f rec r i ts).
Proof.
  intros Hn. unfold for_rest_f. destruct ts as [|t ts']; [cbn [expect_p bind]; apply fine_err|].
  fine_withb leaf15 (List.length ts').
Qed.
Lemma for_inof_fine r h ts : List.length ts <= n -> fine (List.length ts - 1) (for_inof_f rec r h ts).
Proof. intros Hn. unfold for_inof_f. fine_with leaf15. Qed.
Ltac leaf16 := first [leaf15 | eapply for_rest_fine | eapply for_inof_fine].
Lemma for_fine r ts : List.length ts < n -> fine (List.length ts - 1) (for_f rec r ts).
Proof. intros Hn. unfold for_f. fine_with leaf16. Qed.
Lemma cases_fine r ts : List.length ts <= n -> fine (List.length ts - 1) (cases_f rec r ts).
Proof. intros Hn. unfold cases_f. fine_with leaf16. Qed.
Lemma try_fine r ts : List.length ts < n -> fine (List.length ts - 1) (try_f rec r ts).
Proof.
  intros Hn. unfold try_f.
  eapply fine_bind; [apply block_fine; lia|]. intros b0 r0 Hr0.
  fine_withb leaf16 (List.length r0).
Qed.
Ltac leaf17 := first [leaf16 | eapply for_fine | eapply try_fine].
Lemma stmt_fine r ts : List.length ts <= n -> fine (List.length ts - 1) (stmt_f rec r ts).
Proof. intros Hn. unfold stmt_f. fine_with leaf17. Qed.
Ltac leaf18 := first [leaf17 | eapply stmt_fine].
Lemma item_fine r ts : List.length ts <= n -> fine (List.length ts - 1) (item_f rec r ts).
Proof. intros Hn. unfold item_f. fine_with leaf18. Qed.
Ltac leaf19 := first [leaf18 | eapply item_fine].
Lemma items_fine r ts : List.length ts <= n -> fine (List.length ts) (items_f rec r ts).
Proof. intros Hn. unfold items_f. fine_with leaf19. Qed.

Lemma step_inv : inv (S n) (step rec).
Proof.
  constructor; intros; cbn [step p_expr p_assign p_comma_loop p_sc p_sc_loop p_bin p_bin_loop p_exp p_unary p_member
    p_member_loop p_call_loop p_args_loop p_elems p_props p_stmt p_items p_decls p_cases];
  first [ apply expr_fine | apply assign_fine | apply comma_loop_fine | apply sc_fine | apply sc_loop_fine | apply bin_at_fine
        | apply bin_loop_fine | apply exp_fine | apply unary_fine | apply member_fine | apply member_loop_fine
        | apply call_loop_fine | apply args_loop_fine | apply elems_fine | apply props_fine | apply stmt_fine
        | apply items_fine | apply decls_fine | apply cases_fine ]; lia.
Qed.

End Total.

Lemma inv_zero : inv 0 no_fuel.
Proof. constructor; intros; lia. Qed.

Lemma inv_n n : inv n (parsers_n n).
Proof. induction n; [apply inv_zero|]. cbn [parsers_n]. apply step_inv. exact IHn. Qed.

Theorem parse_script_total : forall ts, parse_script (fuel_for ts) ts <> Fuel.
Proof.
  intros ts. unfold parse_script, fuel_for.
  pose proof (items_fine _ _ (inv_n (S (List.length ts))) false ts ltac:(lia)) as [Hnf _].
  destruct (items_f (parsers_n (S (List.length ts))) false ts) as [l r| |]; cbn [bind]; try congruence.
  destruct r; discriminate.
Qed.
