(* C19 deepening, part 1: from tokens to text.  A model of the lexing of the token classes the printer emits
   (identifiers / keywords / literals words, punctuators with maximal munch, decimal integer literals, string literals
   with the escapes the repaired printer emits) under the goal symbol the parser uses after an expression
   (`/` is a division), the text of a token, and layouts = token texts separated by arbitrary (possibly empty)
   white space.  Executable definitions and basic facts; the theorems are in Deep_LexProofs_C19.v.

   Outside this model (lexing returns None): comments, regular expressions, templates, non-integer / non-decimal
   numeric literals, string escapes other than backslash-quote, backslash-backslash, backslash-n, backslash-r, the
   optional-chaining punctuator, private names, non-ASCII identifier characters.
   Characters are bytes (`ascii`); bytes >= 128 inside string literals are carried through unchanged. *)
From Coq Require Import List String Ascii NArith Bool Arith Lia DecimalString DecimalN DecimalPos Decimal.
From C19 Require Import Model_C19.
Import ListNotations.

Definition text := list ascii.
Definition T (s : string) : text := list_ascii_of_string s.

(* ------------------------------------------------------------------ character classes *)

Definition is_digit (c : ascii) : bool := (48 <=? nat_of_ascii c) && (nat_of_ascii c <=? 57).
Definition is_id_start (c : ascii) : bool :=
  let n := nat_of_ascii c in
  ((65 <=? n) && (n <=? 90)) || ((97 <=? n) && (n <=? 122)) || (n =? 95) || (n =? 36).
Definition is_id_part (c : ascii) : bool := is_id_start c || is_digit c.
Definition is_ws (c : ascii) : bool :=
  let n := nat_of_ascii c in (n =? 32) || (n =? 9) || (n =? 10) || (n =? 13).

Fixpoint span (f : ascii -> bool) (t : text) : text * text :=
  match t with
  | c :: r => if f c then let (a, b) := span f r in (c :: a, b) else ([], t)
  | [] => ([], [])
  end.

Fixpoint skip_ws (t : text) : text :=
  match t with c :: r => if is_ws c then skip_ws r else t | [] => [] end.

Fixpoint prefix (p t : text) : bool :=
  match p, t with
  | [], _ => true
  | a :: p', b :: t' => Ascii.eqb a b && prefix p' t'
  | _ :: _, [] => false
  end.

(* ------------------------------------------------------------------ punctuators *)

Definition binop_text (o : binop) : string :=
  match o with
  | Add => "+" | Sub => "-" | Mul => "*" | Div => "/" | Mod => "%" | Exp => "**" | Shl => "<<" | Shr => ">>" | UShr => ">>>"
  | Lt => "<" | Gt => ">" | Le => "<=" | Ge => ">=" | Eq => "==" | Ne => "!=" | SEq => "===" | SNe => "!=="
  | BitAnd => "&" | BitOr => "|" | BitXor => "^" | LAnd => "&&" | LOr => "||" | Coal => "??"
  | In => "in" | InstanceOf => "instanceof" | Comma => ","
  end%string.

Definition punct_text (p : punct) : string :=
  match p with
  | POpenParen => "(" | PCloseParen => ")" | POpenBracket => "[" | PCloseBracket => "]" | POpenBlock => "{" | PCloseBlock => "}"
  | PDot => "." | PSemicolon => ";" | PComma => "," | PColon => ":" | PQuestion => "?" | PArrow => "=>" | PSpread => "..."
  | PAssign => "=" | PInc => "++" | PDec => "--" | PNot => "!" | PNeg => "~"
  | POp o => binop_text o
  | PAssignOp o => binop_text o ++ "="
  end%string.

(* the punctuators that exist (the others are junk values of the type: POp In, PAssignOp Lt, ...) *)
Definition real_punct (p : punct) : bool :=
  match p with
  | POp o => is_punct_op o
  | PAssignOp o => is_assign_binop o
  | _ => true
  end.

Definition all_binops : list binop :=
  [Add; Sub; Mul; Div; Mod; Exp; Shl; Shr; UShr; Lt; Gt; Le; Ge; Eq; Ne; SEq; SNe; BitAnd; BitOr; BitXor; LAnd; LOr; Coal;
   In; InstanceOf; Comma].

Definition all_puncts : list punct :=
  filter real_punct
    ([POpenParen; PCloseParen; POpenBracket; PCloseBracket; POpenBlock; PCloseBlock; PDot; PSemicolon; PComma; PColon;
      PQuestion; PArrow; PSpread; PAssign; PInc; PDec; PNot; PNeg] ++ map POp all_binops ++ map PAssignOp all_binops).

(* the lexer's table: the punctuators, plus the character sequences that start something outside the model
   (a comment, an optional chain) and make the lexer give up *)
Definition table : list (text * option punct) :=
  map (fun p => (T (punct_text p), Some p)) all_puncts ++
  [(T "//", None); (T "/*", None); (T "?.", None)]%string.

Definition entries_of_len (k : nat) : list (text * option punct) :=
  filter (fun e => List.length (fst e) =? k) table.

Definition find_len (k : nat) (t : text) : option (text * option punct) :=
  find (fun e => prefix (fst e) t) (entries_of_len k).

(* maximal munch: the longest table entry that is a prefix of the text *)
Definition lex_punct (t : text) : option (punct * text) :=
  let pick := match find_len 4 t with Some e => Some e | None =>
              match find_len 3 t with Some e => Some e | None =>
              match find_len 2 t with Some e => Some e | None => find_len 1 t end end end in
  match pick with
  | Some (s, Some p) => Some (p, skipn (List.length s) t)
  | _ => None
  end.

(* would the character c, directly after punctuator p, be lexed into a longer entry? *)
Definition extends (s : text) (c : ascii) : bool :=
  existsb (fun e => prefix (s ++ [c]) (fst e)) table.

(* ------------------------------------------------------------------ words *)

Definition keyword_text (k : keyword) : string :=
  match k with
  | KThis => "this" | KFunction => "function" | KNew => "new" | KDelete => "delete" | KVoid => "void" | KTypeof => "typeof"
  | KIn => "in" | KInstanceof => "instanceof" | KVar => "var" | KLet => "let" | KConst => "const" | KIf => "if" | KElse => "else"
  | KDo => "do" | KWhile => "while" | KFor => "for" | KOf => "of" | KSwitch => "switch" | KCase => "case" | KDefault => "default"
  | KContinue => "continue" | KBreak => "break" | KReturn => "return" | KThrow => "throw" | KTry => "try" | KCatch => "catch"
  | KFinally => "finally" | KDebugger => "debugger"
  end%string.

Definition all_keywords : list keyword :=
  [KThis; KFunction; KNew; KDelete; KVoid; KTypeof; KIn; KInstanceof; KVar; KLet; KConst; KIf; KElse; KDo; KWhile; KFor; KOf;
   KSwitch; KCase; KDefault; KContinue; KBreak; KReturn; KThrow; KTry; KCatch; KFinally; KDebugger].

(* words boa's lexer turns into keyword tokens that the fragment does not have *)
Definition other_reserved : list string :=
  ["await"; "async"; "class"; "enum"; "export"; "extends"; "import"; "super"; "with"; "yield"; "implements"; "interface";
   "package"; "private"; "protected"; "public"; "static"; "using"]%string.

Definition classify (w : string) : token :=
  match find (fun k => String.eqb (keyword_text k) w) all_keywords with
  | Some k => TK k
  | None =>
      if String.eqb w "true" then TBool true
      else if String.eqb w "false" then TBool false
      else if String.eqb w "null" then TNull
      else if existsb (String.eqb w) other_reserved then TOther w
      else TId w
  end.

(* ------------------------------------------------------------------ numbers and strings *)

Definition num_text (n : N) : text := T (NilZero.string_of_uint (N.to_uint n)).

Definition quote : ascii := """"%char.
Definition bslash : ascii := "\"%char.
Definition lf : ascii := ascii_of_nat 10.
Definition cr : ascii := ascii_of_nat 13.

(* the escapes of the repaired printer (escape_string_units), on bytes *)
Fixpoint escape (s : text) : text :=
  match s with
  | [] => []
  | c :: r =>
      (if Ascii.eqb c quote then [bslash; quote]
       else if Ascii.eqb c bslash then [bslash; bslash]
       else if Ascii.eqb c lf then [bslash; "n"%char]
       else if Ascii.eqb c cr then [bslash; "r"%char]
       else [c]) ++ escape r
  end.

(* the body of a string literal after the opening quote: the cooked bytes and the text after the closing quote *)
Fixpoint lex_string (t : text) : option (text * text) :=
  match t with
  | [] => None
  | c :: r =>
      if Ascii.eqb c quote then Some ([], r)
      else if Ascii.eqb c bslash then
        match r with
        | e :: r' =>
            let cooked :=
              if Ascii.eqb e quote then Some quote else if Ascii.eqb e bslash then Some bslash
              else if Ascii.eqb e "n"%char then Some lf else if Ascii.eqb e "r"%char then Some cr else None in
            match cooked with
            | Some x => match lex_string r' with Some (s, rest) => Some (x :: s, rest) | None => None end
            | None => None
            end
        | [] => None
        end
      else if Ascii.eqb c lf || Ascii.eqb c cr then None
      else match lex_string r with Some (s, rest) => Some (c :: s, rest) | None => None end
  end.

(* ------------------------------------------------------------------ one token, all tokens *)

Definition lex_one (t : text) : option (token * text) :=
  match t with
  | [] => None
  | c :: r =>
      if is_id_start c then
        let (w, rest) := span is_id_part t in Some (classify (string_of_list_ascii w), rest)
      else if is_digit c then
        let (d, rest) := span is_digit t in
        match rest with
        | c2 :: _ => if is_id_part c2 || Ascii.eqb c2 "."%char then None
                     else option_map (fun u => (TNum (N.of_uint u), rest)) (NilZero.uint_of_string (string_of_list_ascii d))
        | [] => option_map (fun u => (TNum (N.of_uint u), rest)) (NilZero.uint_of_string (string_of_list_ascii d))
        end
      else if Ascii.eqb c quote then
        match lex_string r with Some (s, rest) => Some (TStr (string_of_list_ascii s), rest) | None => None end
      else if Ascii.eqb c "."%char && match r with d :: _ => is_digit d | [] => false end then None
      else match lex_punct t with Some (p, rest) => Some (TP p, rest) | None => None end
  end.

Fixpoint lex_n (fuel : nat) (t : text) : option (list token) :=
  match fuel with
  | O => None
  | S f =>
      match skip_ws t with
      | [] => Some []
      | t' =>
          match lex_one t' with
          | Some (tok, rest) => match lex_n f rest with Some l => Some (tok :: l) | None => None end
          | None => None
          end
      end
  end.

Definition lex (t : text) : option (list token) := lex_n (S (List.length t)) t.

(* ------------------------------------------------------------------ text of a token, layouts *)

Definition tok_text (t : token) : text :=
  match t with
  | TP p => T (punct_text p)
  | TK k => T (keyword_text k)
  | TId s => T s
  | TNum n => num_text n
  | TStr s => quote :: escape (T s) ++ [quote]
  | TBool true => T "true"
  | TBool false => T "false"
  | TNull => T "null"
  | TOther s => T s
  end.

(* tokens the printer can emit and the lexer gives back *)
Definition printable (t : token) : Prop :=
  match t with
  | TP p => real_punct p = true
  | TK _ | TNum _ | TStr _ | TBool _ | TNull => True
  | TId s => match T s with c :: _ => is_id_start c = true | [] => False end /\ forallb is_id_part (T s) = true /\ classify s = TId s
  | TOther _ => False
  end.

(* character c directly after token t would change how t is lexed *)
Definition glues (t : token) (c : ascii) : bool :=
  match t with
  | TP p => extends (T (punct_text p)) c || (match p with PDot => is_digit c | _ => false end)
  | TK _ | TId _ | TBool _ | TNull => is_id_part c
  | TNum _ => is_id_part c || Ascii.eqb c "."%char
  | TStr _ => false
  | TOther _ => true
  end.

(* two adjacent tokens need white space between them *)
Definition needs_sep (a b : token) : bool :=
  match tok_text b with c :: _ => glues a c | [] => false end.

(* a layout: every token preceded by white space (possibly none), plus trailing white space *)
Fixpoint render_ws (l : list (text * token)) (trail : text) : text :=
  match l with
  | [] => trail
  | (w, t) :: r => w ++ tok_text t ++ render_ws r trail
  end.

Definition all_ws (w : text) : bool := forallb is_ws w.

Fixpoint good_layout (prev : option token) (l : list (text * token)) : bool :=
  match l with
  | [] => true
  | (w, t) :: r =>
      all_ws w &&
      (match prev with Some p => negb (needs_sep p t) || negb (match w with [] => true | _ => false end) | None => true end) &&
      good_layout (Some t) r
  end.

(* the canonical rendering: one blank exactly where it is needed *)
Fixpoint layout_min (prev : option token) (ts : list token) : list (text * token) :=
  match ts with
  | [] => []
  | t :: r =>
      ((match prev with Some p => if needs_sep p t then [" "%char] else [] | None => [] end), t) :: layout_min (Some t) r
  end.

Definition render (ts : list token) : text := render_ws (layout_min None ts) [].

(* the printer's own spacing, pairwise approximation: a blank between any two tokens except after `(` `[` `.` `!`-less
   prefixes and before `)` `]` `,` `;` `.` and call / index brackets -- only used to show the theorem is not about
   the minimal rendering alone *)
Fixpoint layout_all (ts : list token) : list (text * token) :=
  match ts with [] => [] | t :: r => ([" "%char], t) :: layout_all r end.

Definition parse_text (t : text) : option (list stmt) :=
  match lex t with Some ts => parse_tokens ts | None => None end.
