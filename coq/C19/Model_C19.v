(* C19 model: tokens, a compact AST with explicit Parenthesized nodes (as boa's AST has), the token-level
   printer mirroring boa's ToInternedString/ToIndentedString (core/ast/src), and a fuelled recursive-descent /
   precedence-climbing parser on token lists transliterating core/parser/src/parser/expression and statement
   for the fragment.  Executable definitions only.

   Shape of the parser.  boa's parser is a family of mutually recursive functions.  Here every such function
   is a non-recursive *body* `X_f rec` over a record `rec : parsers` of "the same functions with one unit of
   fuel less" (open recursion); a call that happens before any token was consumed is a direct call of another
   body (same fuel), a call after at least one token was consumed goes through `rec`.  `parsers_n n` ties the
   knot by recursion on the fuel.  Results are `Ok a rest | Err | Fuel`; `Fuel` is never a verdict. *)
From Coq Require Import List String NArith Bool Arith.
Import ListNotations.

(* ------------------------------------------------------------------------------------------ tokens *)

Inductive binop :=
| Add | Sub | Mul | Div | Mod | Exp | Shl | Shr | UShr | Lt | Gt | Le | Ge | Eq | Ne | SEq | SNe
| BitAnd | BitOr | BitXor | LAnd | LOr | Coal | In | InstanceOf | Comma.

Inductive unop := UDelete | UVoid | UTypeof | UPlus | UMinus | UTilde | UNot.

Inductive assignop := AAssign | AOp (o : binop).

Inductive keyword :=
| KThis | KFunction | KNew | KDelete | KVoid | KTypeof | KIn | KInstanceof | KVar | KLet | KConst | KIf | KElse
| KDo | KWhile | KFor | KOf | KSwitch | KCase | KDefault | KContinue | KBreak | KReturn | KThrow | KTry | KCatch
| KFinally | KDebugger.

Inductive punct :=
| POpenParen | PCloseParen | POpenBracket | PCloseBracket | POpenBlock | PCloseBlock | PDot | PSemicolon
| PComma | PColon | PQuestion | PArrow | PSpread | PAssign | PInc | PDec | PNot | PNeg
| POp (o : binop)            (* punctuator binary operators; never In / InstanceOf / Comma *)
| PAssignOp (o : binop).     (* compound assignment punctuators *)

Inductive token :=
| TP (p : punct) | TK (k : keyword) | TId (s : string) | TNum (n : N) | TStr (s : string) | TBool (b : bool) | TNull
| TOther (s : string).       (* any token outside the fragment (class, async, templates, regex, ?. ...) *)

Definition binop_idx (o : binop) : nat :=
  match o with
  | Add => 0 | Sub => 1 | Mul => 2 | Div => 3 | Mod => 4 | Exp => 5 | Shl => 6 | Shr => 7 | UShr => 8 | Lt => 9
  | Gt => 10 | Le => 11 | Ge => 12 | Eq => 13 | Ne => 14 | SEq => 15 | SNe => 16 | BitAnd => 17 | BitOr => 18
  | BitXor => 19 | LAnd => 20 | LOr => 21 | Coal => 22 | In => 23 | InstanceOf => 24 | Comma => 25
  end.
Definition binop_beq (a b : binop) : bool := binop_idx a =? binop_idx b.

Definition keyword_idx (k : keyword) : nat :=
  match k with
  | KThis => 0 | KFunction => 1 | KNew => 2 | KDelete => 3 | KVoid => 4 | KTypeof => 5 | KIn => 6 | KInstanceof => 7
  | KVar => 8 | KLet => 9 | KConst => 10 | KIf => 11 | KElse => 12 | KDo => 13 | KWhile => 14 | KFor => 15 | KOf => 16
  | KSwitch => 17 | KCase => 18 | KDefault => 19 | KContinue => 20 | KBreak => 21 | KReturn => 22 | KThrow => 23
  | KTry => 24 | KCatch => 25 | KFinally => 26 | KDebugger => 27
  end.
Definition keyword_beq (a b : keyword) : bool := keyword_idx a =? keyword_idx b.

Definition punct_eqb (a b : punct) : bool :=
  match a, b with
  | POpenParen, POpenParen | PCloseParen, PCloseParen | POpenBracket, POpenBracket | PCloseBracket, PCloseBracket
  | POpenBlock, POpenBlock | PCloseBlock, PCloseBlock | PDot, PDot | PSemicolon, PSemicolon | PComma, PComma
  | PColon, PColon | PQuestion, PQuestion | PArrow, PArrow | PSpread, PSpread | PAssign, PAssign | PInc, PInc
  | PDec, PDec | PNot, PNot | PNeg, PNeg => true
  | POp x, POp y => binop_beq x y
  | PAssignOp x, PAssignOp y => binop_beq x y
  | _, _ => false
  end.

(* ------------------------------------------------------------------------------------------ AST *)

Inductive expr :=
| EThis | EId (s : string) | ENum (n : N) | EStr (s : string) | EBool (b : bool) | ENull
| EArray (es : list (option expr))
| EObject (ps : list prop)
| EParen (e : expr)
| EFunc (name : option string) (params : list string) (body : list stmt)
| EArrow (params : list string) (body : list stmt)
| EMember (e : expr) (name : string)
| EIndex (e i : expr)
| ECall (f : expr) (args : list expr)
| ENew (f : expr) (args : list expr)
| EUpdate (prefix inc : bool) (e : expr)
| EUnary (o : unop) (e : expr)
| EBin (o : binop) (l r : expr)
| ECond (c t f : expr)
| EAssign (o : assignop) (l r : expr)
with prop :=
| PShort (s : string)
| PKV (k : string) (v : expr)
| PComputed (k v : expr)
with stmt :=
| SBlock (b : list stmt)
| SVar (ds : list (string * option expr))
| SLet (ds : list (string * option expr))
| SConst (ds : list (string * option expr))
| SEmpty
| SExpr (e : expr)
| SIf (c : expr) (t : stmt) (f : option stmt)
| SDoWhile (b : stmt) (c : expr)
| SWhile (c : expr) (b : stmt)
| SFor (i : forinit) (c s : option expr) (b : stmt)
| SForIn (h : forhead) (e : expr) (b : stmt)
| SForOf (h : forhead) (e : expr) (b : stmt)
| SSwitch (e : expr) (cs : list (option expr * list stmt))
| SContinue (l : option string)
| SBreak (l : option string)
| SReturn (e : option expr)
| SLabelled (l : string) (s : stmt)
| SThrow (e : expr)
| STry (b : list stmt) (c : option (option string * list stmt)) (f : option (list stmt))
| SDebugger
| SFunDecl (name : string) (params : list string) (body : list stmt)
with forinit :=
| FINone | FIExpr (e : expr) | FIVar (ds : list (string * option expr)) | FILet (ds : list (string * option expr))
| FIConst (ds : list (string * option expr))
with forhead :=
| FHVar (s : string) | FHLet (s : string) | FHConst (s : string) | FHTarget (e : expr).

(* ------------------------------------------------------------------------------------------ operators *)

(* precedence levels, lowest first: 0 Expression (comma) 1 Assignment 2 Conditional 3 ShortCircuit 4 BitOr 5 BitXor
   6 BitAnd 7 Equality 8 Relational 9 Shift 10 Additive 11 Multiplicative 12 Exponentiation 13 Unary 14 Update
   15 Call (LeftHandSide) 16 Member 17 Primary *)
Definition binop_lvl (o : binop) : nat :=
  match o with
  | Comma => 0 | LOr | LAnd | Coal => 3 | BitOr => 4 | BitXor => 5 | BitAnd => 6
  | Eq | Ne | SEq | SNe => 7 | Lt | Gt | Le | Ge | In | InstanceOf => 8
  | Shl | Shr | UShr => 9 | Add | Sub => 10 | Mul | Div | Mod => 11 | Exp => 12
  end.

Definition is_punct_op (o : binop) : bool :=
  match o with In | InstanceOf | Comma => false | _ => true end.

Definition binop_tok (o : binop) : token :=
  match o with In => TK KIn | InstanceOf => TK KInstanceof | Comma => TP PComma | _ => TP (POp o) end.

Definition tok_binop (t : token) : option binop :=
  match t with
  | TK KIn => Some In | TK KInstanceof => Some InstanceOf | TP PComma => Some Comma
  | TP (POp o) => if is_punct_op o then Some o else None
  | _ => None
  end.

(* the operator a token denotes in the left-associative loop of level `lvl` (4..11) under allow_in = `ain`
   (the `expression!` macro and RelationalExpression of expression/mod.rs) *)
Definition loop_op (lvl : nat) (ain : bool) (t : token) : option binop :=
  match tok_binop t with
  | Some o =>
      if (binop_lvl o =? lvl) && (4 <=? lvl) && (lvl <=? 11) && (match o with In => ain | _ => true end)
      then Some o else None
  | None => None
  end.

(* AssignOp of boa: = += -= *= /= %= **= &= |= ^= <<= >>= >>>= &&= ||= ??= *)
Definition is_assign_binop (o : binop) : bool :=
  match o with
  | Add | Sub | Mul | Div | Mod | Exp | BitAnd | BitOr | BitXor | Shl | Shr | UShr | LAnd | LOr | Coal => true
  | _ => false
  end.

Definition assign_tok (a : assignop) : token :=
  match a with AAssign => TP PAssign | AOp o => TP (PAssignOp o) end.

Definition unop_tok (o : unop) : token :=
  match o with
  | UDelete => TK KDelete | UVoid => TK KVoid | UTypeof => TK KTypeof
  | UPlus => TP (POp Add) | UMinus => TP (POp Sub) | UTilde => TP PNeg | UNot => TP PNot
  end.

Definition tok_unop (t : token) : option unop :=
  match t with
  | TK KDelete => Some UDelete | TK KVoid => Some UVoid | TK KTypeof => Some UTypeof
  | TP (POp Add) => Some UPlus | TP (POp Sub) => Some UMinus | TP PNeg => Some UTilde | TP PNot => Some UNot
  | _ => None
  end.

Definition update_tok (inc : bool) : token := if inc then TP PInc else TP PDec.

(* ------------------------------------------------------------------------------------------ printer *)
(* One token list per node, in the order of boa's format strings; layout (blanks, newlines, indentation) is not
   part of the model. *)

Definition sep_by {A} (sep : list token) (f : A -> list token) : list A -> list token :=
  fix go (l : list A) : list token :=
    match l with
    | [] => []
    | [x] => f x
    | x :: rest => f x ++ sep ++ go rest
    end.

Definition print_params (ps : list string) : list token :=
  [TP POpenParen] ++ sep_by [TP PComma] (fun s => [TId s]) ps ++ [TP PCloseParen].

Fixpoint pe (e : expr) : list token :=
  match e with
  | EThis => [TK KThis]
  | EId s => [TId s]
  | ENum n => [TNum n]
  | EStr s => [TStr s]
  | EBool b => [TBool b]
  | ENull => [TNull]
  | EArray es =>
      [TP POpenBracket] ++
      (fix elems (l : list (option expr)) : list token :=
         match l with
         | [] => []
         | Some x :: rest => pe x ++ match rest with [] => [] | _ => TP PComma :: elems rest end
         | None :: rest => TP PComma :: elems rest
         end) es ++ [TP PCloseBracket]
  | EObject ps =>
      [TP POpenBlock] ++
      (fix props (l : list prop) : list token :=
         match l with
         | [] => []
         | p :: rest => pprop p ++ [TP PComma] ++ props rest
         end) ps ++ [TP PCloseBlock]
  | EParen x => [TP POpenParen] ++ pe x ++ [TP PCloseParen]
  | EFunc name ps body =>
      [TK KFunction] ++ match name with Some s => [TId s] | None => [] end ++ print_params ps ++
      [TP POpenBlock] ++ (fix items (l : list stmt) := match l with [] => [] | s :: r => ps1 s ++ items r end) body ++
      [TP PCloseBlock]
  | EArrow ps body =>
      print_params ps ++ [TP PArrow] ++
      [TP POpenBlock] ++ (fix items (l : list stmt) := match l with [] => [] | s :: r => ps1 s ++ items r end) body ++
      [TP PCloseBlock]
  | EMember x s => pe x ++ [TP PDot; TId s]
  | EIndex x i => pe x ++ [TP POpenBracket] ++ pe i ++ [TP PCloseBracket]
  | ECall f args =>
      pe f ++ [TP POpenParen] ++
      (fix go (l : list expr) := match l with [] => [] | [x] => pe x | x :: r => pe x ++ [TP PComma] ++ go r end) args ++
      [TP PCloseParen]
  | ENew f args =>
      [TK KNew] ++ pe f ++ [TP POpenParen] ++
      (fix go (l : list expr) := match l with [] => [] | [x] => pe x | x :: r => pe x ++ [TP PComma] ++ go r end) args ++
      [TP PCloseParen]
  | EUpdate prefix inc x => if prefix then update_tok inc :: pe x else pe x ++ [update_tok inc]
  | EUnary o x => unop_tok o :: pe x
  | EBin o l r => pe l ++ [binop_tok o] ++ pe r
  | ECond c t f => pe c ++ [TP PQuestion] ++ pe t ++ [TP PColon] ++ pe f
  | EAssign o l r => pe l ++ [assign_tok o] ++ pe r
  end
with pprop (p : prop) : list token :=
  match p with
  | PShort s => [TId s]
  | PKV k v => [TId k; TP PColon] ++ pe v
  | PComputed k v => [TP POpenBracket] ++ pe k ++ [TP PCloseBracket; TP PColon] ++ pe v
  end
with ps1 (s : stmt) : list token :=
  let items := fix items (l : list stmt) := match l with [] => [] | s :: r => ps1 s ++ items r end in
  let block := fun b => [TP POpenBlock] ++ items b ++ [TP PCloseBlock] in
  let decls := fix decls (l : list (string * option expr)) : list token :=
    match l with
    | [] => []
    | [(x, i)] => TId x :: match i with Some e => TP PAssign :: pe e | None => [] end
    | (x, i) :: r => TId x :: match i with Some e => TP PAssign :: pe e | None => [] end ++ [TP PComma] ++ decls r
    end in
  let oe := fun o : option expr => match o with Some e => pe e | None => [] end in
  match s with
  | SBlock b => block b
  | SVar ds => [TK KVar] ++ decls ds ++ [TP PSemicolon]
  | SLet ds => [TK KLet] ++ decls ds ++ [TP PSemicolon]
  | SConst ds => [TK KConst] ++ decls ds ++ [TP PSemicolon]
  | SEmpty => [TP PSemicolon]
  | SExpr e => pe e ++ [TP PSemicolon]
  | SIf c t f =>
      [TK KIf; TP POpenParen] ++ pe c ++ [TP PCloseParen] ++ ps1 t ++
      match f with Some x => [TK KElse] ++ ps1 x | None => [] end
  | SDoWhile b c => [TK KDo] ++ ps1 b ++ [TK KWhile; TP POpenParen] ++ pe c ++ [TP PCloseParen; TP PSemicolon]
  | SWhile c b => [TK KWhile; TP POpenParen] ++ pe c ++ [TP PCloseParen] ++ ps1 b
  | SFor i c st b =>
      [TK KFor; TP POpenParen] ++
      match i with
      | FINone => [] | FIExpr e => pe e | FIVar ds => TK KVar :: decls ds | FILet ds => TK KLet :: decls ds
      | FIConst ds => TK KConst :: decls ds
      end ++ [TP PSemicolon] ++ oe c ++ [TP PSemicolon] ++ oe st ++ [TP PCloseParen] ++ ps1 b
  | SForIn h e b =>
      [TK KFor; TP POpenParen] ++
      match h with FHVar x => [TK KVar; TId x] | FHLet x => [TK KLet; TId x] | FHConst x => [TK KConst; TId x]
                 | FHTarget t => pe t end ++ [TK KIn] ++ pe e ++ [TP PCloseParen] ++ ps1 b
  | SForOf h e b =>
      [TK KFor; TP POpenParen] ++
      match h with FHVar x => [TK KVar; TId x] | FHLet x => [TK KLet; TId x] | FHConst x => [TK KConst; TId x]
                 | FHTarget t => pe t end ++ [TK KOf] ++ pe e ++ [TP PCloseParen] ++ ps1 b
  | SSwitch e cs =>
      [TK KSwitch; TP POpenParen] ++ pe e ++ [TP PCloseParen; TP POpenBlock] ++
      (fix cases (l : list (option expr * list stmt)) : list token :=
         match l with
         | [] => []
         | (Some c, b) :: r => [TK KCase] ++ pe c ++ [TP PColon] ++ items b ++ cases r
         | (None, b) :: r => [TK KDefault; TP PColon] ++ items b ++ cases r
         end) cs ++ [TP PCloseBlock]
  | SContinue l => [TK KContinue] ++ match l with Some x => [TId x] | None => [] end ++ [TP PSemicolon]
  | SBreak l => [TK KBreak] ++ match l with Some x => [TId x] | None => [] end ++ [TP PSemicolon]
  | SReturn e => [TK KReturn] ++ oe e ++ [TP PSemicolon]
  | SLabelled l x => [TId l; TP PColon] ++ ps1 x
  | SThrow e => [TK KThrow] ++ pe e ++ [TP PSemicolon]
  | STry b c f =>
      [TK KTry] ++ block b ++
      match c with
      | Some (p, cb) => [TK KCatch] ++ match p with Some x => [TP POpenParen; TId x; TP PCloseParen] | None => [] end ++ block cb
      | None => []
      end ++
      match f with Some fb => [TK KFinally] ++ block fb | None => [] end
  | SDebugger => [TK KDebugger; TP PSemicolon]
  | SFunDecl name ps body => [TK KFunction; TId name] ++ print_params ps ++ block body
  end.

Fixpoint pitems (l : list stmt) : list token :=
  match l with [] => [] | s :: r => ps1 s ++ pitems r end.

Definition print_tokens (prog : list stmt) : list token := pitems prog.

(* ------------------------------------------------------------------------------------------ parser *)

Inductive res (A : Type) := Ok (a : A) (rest : list token) | Err | Fuel.
Arguments Ok {A} a rest.
Arguments Err {A}.
Arguments Fuel {A}.

Definition bind {A B} (r : res A) (k : A -> list token -> res B) : res B :=
  match r with Ok a ts => k a ts | Err => Err | Fuel => Fuel end.

Notation "'do' ( x , ts ) <- r ; k" := (bind r (fun x ts => k)) (at level 200, x name, ts name, r at level 100, k at level 200).

(* FormalParameterListOrExpression of fpl_or_exp.rs *)
Inductive pres := RE (e : expr) | RP (ps : list string).

Definition into_expr (p : pres) (ts : list token) : res expr :=
  match p with RE e => Ok e ts | RP _ => Err end.

Definition expect_p (p : punct) (ts : list token) : res unit :=
  match ts with TP q :: r => if punct_eqb p q then Ok tt r else Err | _ => Err end.

Definition expect_k (k : keyword) (ts : list token) : res unit :=
  match ts with TK q :: r => if keyword_beq k q then Ok tt r else Err | _ => Err end.

(* Cursor::expect_semicolon without line terminators: `;` is consumed, `}` and end of input are accepted *)
Definition expect_semi (ts : list token) : res unit :=
  match ts with
  | TP PSemicolon :: r => Ok tt r
  | TP PCloseBlock :: _ => Ok tt ts
  | [] => Ok tt []
  | _ => Err
  end.

(* update.rs as_simple / AssignTarget::from_expression_simple: identifiers and property accesses, through any
   number of parentheses (which are dropped) *)
Fixpoint as_simple (e : expr) : option expr :=
  match e with
  | EId _ | EMember _ _ | EIndex _ _ => Some e
  | EParen x => as_simple x
  | _ => None
  end.

(* expression_to_formal_parameters, identifiers only *)
Fixpoint to_params (e : expr) : option (list string) :=
  match e with
  | EId s => Some [s]
  | EBin Comma l r =>
      match to_params l, to_params r with Some a, Some b => Some (a ++ b) | _, _ => None end
  | _ => None
  end.

Fixpoint nodupb (l : list string) : bool :=
  match l with [] => true | x :: r => negb (existsb (String.eqb x) r) && nodupb r end.

Inductive prev := PrevNone | PrevLogical | PrevCoalesce.

Record parsers := {
  p_expr : bool -> list token -> res expr;                       (* Expression[In] *)
  p_assign : bool -> list token -> res expr;                     (* AssignmentExpression[In] *)
  p_comma_loop : bool -> expr -> list token -> res expr;
  p_sc : bool -> prev -> list token -> res pres;                 (* ShortCircuitExpression::with_previous *)
  p_sc_loop : bool -> prev -> expr -> list token -> res pres;
  p_bin : nat -> bool -> list token -> res pres;                 (* the expression! levels 4..11, then Exponentiation *)
  p_bin_loop : nat -> bool -> expr -> list token -> res pres;
  p_exp : list token -> res pres;
  p_unary : list token -> res pres;
  p_member : list token -> res pres;
  p_member_loop : expr -> list token -> res pres;
  p_call_loop : expr -> list token -> res pres;
  p_args_loop : bool -> list token -> res (list expr);           (* bool: no argument parsed yet *)
  p_elems : bool -> list token -> res (list (option expr));      (* bool: next_comma *)
  p_props : list token -> res (list prop);
  p_stmt : bool -> list token -> res stmt;                       (* Statement[Return] *)
  p_items : bool -> list token -> res (list stmt);               (* StatementList up to `}` / case / default / end *)
  p_decls : bool -> list token -> res (list (string * option expr));
  p_cases : bool -> list token -> res (list (option expr * list stmt));
}.

Section Bodies.
Variable rec : parsers.

(* FormalParameters: identifiers only *)
Fixpoint params_loop (fuel : nat) (ts : list token) : res (list string) :=
  match fuel with O => Err | S fuel =>
    match ts with
    | TId s :: TP PComma :: r => do (ps, r1) <- params_loop fuel r; Ok (s :: ps) r1
    | TId s :: TP PCloseParen :: r => Ok [s] r
    | _ => Err
    end
  end.

Definition params_f (ts : list token) : res (list string) :=
  match ts with
  | TP POpenParen :: TP PCloseParen :: r => Ok [] r
  | TP POpenParen :: r => params_loop (List.length r) r
  | _ => Err
  end.

(* FunctionBody: `{` StatementList `}` with allow_return *)
Definition fbody_f (ts : list token) : res (list stmt) :=
  match ts with
  | TP POpenBlock :: r => do (b, r1) <- p_items rec true r; do (_, r2) <- expect_p PCloseBlock r1; Ok b r2
  | _ => Err
  end.

Definition block_f (aret : bool) (ts : list token) : res (list stmt) :=
  match ts with
  | TP POpenBlock :: r => do (b, r1) <- p_items rec aret r; do (_, r2) <- expect_p PCloseBlock r1; Ok b r2
  | _ => Err
  end.

(* primary/mod.rs PrimaryExpression + CoverParenthesizedExpressionAndArrowParameterList *)
Definition primary_f (ts : list token) : res pres :=
  match ts with
  | TK KThis :: r => Ok (RE EThis) r
  | TK KFunction :: TId s :: r =>
      do (ps, r1) <- params_f r; do (b, r2) <- fbody_f r1; Ok (RE (EFunc (Some s) ps b)) r2
  | TK KFunction :: r =>
      do (ps, r1) <- params_f r; do (b, r2) <- fbody_f r1; Ok (RE (EFunc None ps b)) r2
  | TP POpenParen :: TP PCloseParen :: r =>
      match r with TP PArrow :: _ => Ok (RP []) r | _ => Err end
  | TP POpenParen :: r =>
      do (e, r1) <- p_expr rec true r;
      match r1 with
      | TP PCloseParen :: r2 =>
          match r2 with
          | TP PArrow :: _ => match to_params e with Some ps => Ok (RP ps) r2 | None => Err end
          | _ => Ok (RE (EParen e)) r2
          end
      | TP PComma :: TP PCloseParen :: r2 =>
          match r2 with
          | TP PArrow :: _ => match to_params e with Some ps => Ok (RP ps) r2 | None => Err end
          | _ => Err
          end
      | _ => Err
      end
  | TP POpenBracket :: r => do (es, r1) <- p_elems rec false r; Ok (RE (EArray es)) r1
  | TP POpenBlock :: r => do (ps, r1) <- p_props rec r; Ok (RE (EObject ps)) r1
  | TBool b :: r => Ok (RE (EBool b)) r
  | TNull :: r => Ok (RE ENull) r
  | TId s :: r => Ok (RE (EId s)) r
  | TStr s :: r => Ok (RE (EStr s)) r
  | TNum n :: r => Ok (RE (ENum n)) r
  | _ => Err
  end.

(* left_hand_side/arguments.rs *)
Definition args_open_f (ts : list token) : res (list expr) :=
  match ts with TP POpenParen :: r => p_args_loop rec true r | _ => Err end.

(* left_hand_side/member.rs *)
Definition member_loop_f (lhs : expr) (ts : list token) : res pres :=
  match ts with
  | TP PDot :: TId s :: r => p_member_loop rec (EMember lhs s) r
  | TP PDot :: _ => Err
  | TP POpenBracket :: r =>
      do (i, r1) <- p_expr rec true r; do (_, r2) <- expect_p PCloseBracket r1; p_member_loop rec (EIndex lhs i) r2
  | _ => Ok (RE lhs) ts
  end.

Definition member_f (ts : list token) : res pres :=
  match ts with
  | TK KNew :: r =>
      do (c, r1) <- p_member rec r;
      do (callee, r1) <- into_expr c r1;
      match r1 with
      | TP POpenParen :: _ => do (args, r2) <- args_open_f r1; member_loop_f (ENew callee args) r2
      | _ => member_loop_f (ENew callee []) r1
      end
  | _ =>
      do (p, r1) <- primary_f ts;
      match p with RP _ => Ok p r1 | RE e => member_loop_f e r1 end
  end.

(* left_hand_side/call.rs CallExpressionTail *)
Definition call_loop_f (lhs : expr) (ts : list token) : res pres :=
  match ts with
  | TP POpenParen :: _ => do (args, r1) <- args_open_f ts; p_call_loop rec (ECall lhs args) r1
  | TP PDot :: TId s :: r => p_call_loop rec (EMember lhs s) r
  | TP PDot :: _ => Err
  | TP POpenBracket :: r =>
      do (i, r1) <- p_expr rec true r; do (_, r2) <- expect_p PCloseBracket r1; p_call_loop rec (EIndex lhs i) r2
  | _ => Ok (RE lhs) ts
  end.

(* left_hand_side/mod.rs (no super / import / optional chains in the fragment) *)
Definition lhs_f (ts : list token) : res pres :=
  do (m, r) <- member_f ts;
  match m with
  | RP _ => Ok m r
  | RE e =>
      match r with
      | TP POpenParen :: _ => do (args, r1) <- args_open_f r; p_call_loop rec (ECall e args) r1
      | _ => Ok m r
      end
  end.

(* update.rs *)
Definition update_f (ts : list token) : res pres :=
  match ts with
  | TP PInc :: r =>
      do (t, r1) <- p_unary rec r; do (e, r1) <- into_expr t r1;
      match as_simple e with Some tg => Ok (RE (EUpdate true true tg)) r1 | None => Err end
  | TP PDec :: r =>
      do (t, r1) <- p_unary rec r; do (e, r1) <- into_expr t r1;
      match as_simple e with Some tg => Ok (RE (EUpdate true false tg)) r1 | None => Err end
  | _ =>
      do (l, r1) <- lhs_f ts;
      match l with
      | RP _ => Ok l r1
      | RE e =>
          match r1 with
          | TP PInc :: r2 => match as_simple e with Some tg => Ok (RE (EUpdate false true tg)) r2 | None => Err end
          | TP PDec :: r2 => match as_simple e with Some tg => Ok (RE (EUpdate false false tg)) r2 | None => Err end
          | _ => Ok l r1
          end
      end
  end.

(* unary.rs *)
Definition unary_f (ts : list token) : res pres :=
  match ts with
  | t :: r =>
      match tok_unop t with
      | Some o => do (x, r1) <- p_unary rec r; do (e, r1) <- into_expr x r1; Ok (RE (EUnary o e)) r1
      | None => update_f ts
      end
  | [] => Err
  end.

(* assignment/exponentiation.rs *)
Definition exp_f (ts : list token) : res pres :=
  match ts with
  | t :: _ =>
      match tok_unop t with
      | Some _ => unary_f ts
      | None =>
          do (l, r1) <- update_f ts;
          match l with
          | RP _ => Ok l r1
          | RE e =>
              match r1 with
              | TP (POp Exp) :: r2 => do (x, r3) <- p_exp rec r2; do (rhs, r3) <- into_expr x r3; Ok (RE (EBin Exp e rhs)) r3
              | _ => Ok l r1
              end
          end
      end
  | [] => Err
  end.

(* the expression! macro: level lvl = 4..11 parses level lvl+1 and loops; above 11 it is Exponentiation.
   `k` counts the levels still to descend (structural), lvl = 12 - k. *)
Fixpoint bin_f (k : nat) (ain : bool) (ts : list token) : res pres :=
  match k with
  | O => exp_f ts
  | S k' =>
      do (l, r) <- bin_f k' ain ts;
      match l with RP _ => Ok l r | RE e => p_bin_loop rec (12 - k) ain e r end
  end.

Definition bin_loop_f (lvl : nat) (ain : bool) (lhs : expr) (ts : list token) : res pres :=
  match ts with
  | t :: r =>
      match loop_op lvl ain t with
      | Some o =>
          do (x, r1) <- p_bin rec (S lvl) ain r; do (rhs, r1) <- into_expr x r1;
          p_bin_loop rec lvl ain (EBin o lhs rhs) r1
      | None => Ok (RE lhs) ts
      end
  | [] => Ok (RE lhs) []
  end.

(* entry used through rec after a token was consumed: level lvl (4..12) *)
Definition bin_at_f (lvl : nat) (ain : bool) (ts : list token) : res pres := bin_f (12 - lvl) ain ts.

(* ShortCircuitExpression (expression/mod.rs): `&&` and `??` take a BitwiseOR operand, `||` takes a whole
   ShortCircuitExpression with previous = Logical as its right operand *)
Definition sc_loop_f (ain : bool) (pv : prev) (cur : expr) (ts : list token) : res pres :=
  match ts with
  | TP (POp LAnd) :: r =>
      match pv with
      | PrevCoalesce => Err
      | _ => do (x, r1) <- p_bin rec 4 ain r; do (rhs, r1) <- into_expr x r1;
             p_sc_loop rec ain PrevLogical (EBin LAnd cur rhs) r1
      end
  | TP (POp LOr) :: r =>
      match pv with
      | PrevCoalesce => Err
      | _ => do (x, r1) <- p_sc rec ain PrevLogical r; do (rhs, r1) <- into_expr x r1;
             p_sc_loop rec ain PrevLogical (EBin LOr cur rhs) r1
      end
  | TP (POp Coal) :: r =>
      match pv with
      | PrevLogical => Err
      | _ => do (x, r1) <- p_bin rec 4 ain r; do (rhs, r1) <- into_expr x r1;
             p_sc_loop rec ain PrevCoalesce (EBin Coal cur rhs) r1
      end
  | _ => Ok (RE cur) ts
  end.

Definition sc_f (ain : bool) (pv : prev) (ts : list token) : res pres :=
  do (c, r) <- bin_f 8 ain ts;
  match c with RP _ => Ok c r | RE e => sc_loop_f ain pv e r end.

(* assignment/conditional.rs *)
Definition cond_f (ain : bool) (ts : list token) : res pres :=
  do (c, r) <- sc_f ain PrevNone ts;
  match c with
  | RP _ => Ok c r
  | RE e =>
      match r with
      | TP PQuestion :: r1 =>
          do (t, r2) <- p_assign rec true r1; do (_, r3) <- expect_p PColon r2;
          do (f, r4) <- p_assign rec ain r3; Ok (RE (ECond e t f)) r4
      | _ => Ok c r
      end
  end.

(* arrow_function.rs ConciseBody *)
Definition concise_f (ain : bool) (ts : list token) : res (list stmt) :=
  match ts with
  | TP POpenBlock :: _ => fbody_f ts
  | _ => do (e, r) <- p_assign rec ain ts; Ok [SReturn (Some e)] r
  end.

(* assignment/mod.rs *)
Definition assign_f (ain : bool) (ts : list token) : res expr :=
  match ts with
  | TId s :: TP PArrow :: r => do (b, r1) <- concise_f ain r; Ok (EArrow [s] b) r1
  | _ =>
      do (l, r) <- cond_f ain ts;
      match l with
      | RP ps =>
          match r with
          | TP PArrow :: r1 =>
              do (b, r2) <- concise_f ain r1; if nodupb ps then Ok (EArrow ps b) r2 else Err
          | _ => Err
          end
      | RE lhs =>
          match r with
          | TP PAssign :: r1 =>
              match as_simple lhs with
              | Some tg => do (rhs, r2) <- p_assign rec ain r1; Ok (EAssign AAssign tg rhs) r2
              | None => Err
              end
          | TP (PAssignOp o) :: r1 =>
              if is_assign_binop o then
                match as_simple lhs with
                | Some tg => do (rhs, r2) <- p_assign rec ain r1; Ok (EAssign (AOp o) tg rhs) r2
                | None => Err
                end
              else Err
          | _ => Ok lhs r
          end
      end
  end.

(* expression/mod.rs Expression: comma loop; a `,` followed by `)` or `...` is left to the caller *)
Definition comma_loop_f (ain : bool) (lhs : expr) (ts : list token) : res expr :=
  match ts with
  | TP PComma :: TP PCloseParen :: _ => Ok lhs ts
  | TP PComma :: TP PSpread :: _ => Ok lhs ts
  | TP PComma :: r => do (x, r1) <- p_assign rec ain r; p_comma_loop rec ain (EBin Comma lhs x) r1
  | _ => Ok lhs ts
  end.

Definition expr_f (ain : bool) (ts : list token) : res expr :=
  do (l, r) <- assign_f ain ts; comma_loop_f ain l r.

(* array_initializer/mod.rs: elision and next_comma state machine (no spread in the fragment) *)
Definition elems_f (next_comma : bool) (ts : list token) : res (list (option expr)) :=
  match ts with
  | TP PCloseBracket :: r => Ok [] r
  | TP PComma :: r =>
      if next_comma then p_elems rec false r
      else do (es, r1) <- p_elems rec false r; Ok (None :: es) r1
  | _ =>
      if next_comma then Err
      else do (e, r1) <- assign_f true ts; do (es, r2) <- p_elems rec true r1; Ok (Some e :: es) r2
  end.

(* object_initializer: identifier keys, shorthand, computed keys; `,` separated with optional trailing comma *)
Definition props_f (ts : list token) : res (list prop) :=
  match ts with
  | TP PCloseBlock :: r => Ok [] r
  | _ =>
      do (p, r1) <-
        match ts with
        | TId k :: TP PColon :: r => do (v, r1) <- p_assign rec true r; Ok (PKV k v) r1
        | TId k :: r => Ok (PShort k) r
        | TP POpenBracket :: r =>
            do (k, r1) <- p_assign rec true r; do (_, r2) <- expect_p PCloseBracket r1;
            do (_, r3) <- expect_p PColon r2; do (v, r4) <- p_assign rec true r3; Ok (PComputed k v) r4
        | _ => Err
        end;
      match r1 with
      | TP PComma :: r2 => do (ps, r3) <- p_props rec r2; Ok (p :: ps) r3
      | TP PCloseBlock :: r2 => Ok [p] r2
      | _ => Err
      end
  end.

(* left_hand_side/arguments.rs, the loop; an argument / element at the position where the loop body starts is
   parsed by a direct call (no token consumed yet), everything after a consumed token goes through rec *)
Definition args_loop_f (first : bool) (ts : list token) : res (list expr) :=
  match ts with
  | TP PCloseParen :: r => Ok [] r
  | TP PComma :: r =>
      if first then Err
      else match r with
           | TP PCloseParen :: r1 => Ok [] r1
           | _ => do (a, r1) <- p_assign rec true r; do (l, r2) <- p_args_loop rec false r1; Ok (a :: l) r2
           end
  | _ =>
      if first then do (a, r1) <- assign_f true ts; do (l, r2) <- p_args_loop rec false r1; Ok (a :: l) r2
      else Err
  end.

(* ---- statements *)

(* VariableDeclarationList / BindingList, identifier bindings *)
Definition decls_f (ain : bool) (ts : list token) : res (list (string * option expr)) :=
  match ts with
  | TId x :: TP PAssign :: r =>
      do (e, r1) <- p_assign rec ain r;
      match r1 with
      | TP PComma :: r2 => do (ds, r3) <- p_decls rec ain r2; Ok ((x, Some e) :: ds) r3
      | _ => Ok [(x, Some e)] r1
      end
  | TId x :: TP PComma :: r => do (ds, r1) <- p_decls rec ain r; Ok ((x, None) :: ds) r1
  | TId x :: r => Ok [(x, None)] r
  | _ => Err
  end.

Fixpoint all_init (ds : list (string * option expr)) : bool :=
  match ds with [] => true | (_, Some _) :: r => all_init r | (_, None) :: _ => false end.

Definition is_decl (s : stmt) : bool :=
  match s with SLet _ | SConst _ | SFunDecl _ _ _ => true | _ => false end.

(* for_statement.rs *)
Definition for_rest_f (aret : bool) (i : forinit) (ts : list token) : res stmt :=
  do (_, r) <- expect_p PSemicolon ts;
  do (c, r1) <-
    match r with
    | TP PSemicolon :: r1 => Ok None r1
    | _ => do (e, r1) <- p_expr rec true r; do (_, r2) <- expect_p PSemicolon r1; Ok (Some e) r2
    end;
  do (st, r2) <-
    match r1 with
    | TP PCloseParen :: r2 => Ok None r2
    | _ => do (e, r2) <- p_expr rec true r1; do (_, r3) <- expect_p PCloseParen r2; Ok (Some e) r3
    end;
  do (b, r3) <- p_stmt rec aret r2;
  Ok (SFor i c st b) r3.

Definition for_inof_f (aret : bool) (h : forhead) (ts : list token) : res stmt :=
  match ts with
  | TK KIn :: r =>
      do (e, r1) <- p_expr rec true r; do (_, r2) <- expect_p PCloseParen r1;
      do (b, r3) <- p_stmt rec aret r2; Ok (SForIn h e b) r3
  | TK KOf :: r =>
      do (e, r1) <- p_assign rec true r; do (_, r2) <- expect_p PCloseParen r1;
      do (b, r3) <- p_stmt rec aret r2; Ok (SForOf h e b) r3
  | _ => Err
  end.

Definition is_inof (ts : list token) : bool :=
  match ts with TK KIn :: _ | TK KOf :: _ => true | _ => false end.

Definition for_f (aret : bool) (ts : list token) : res stmt :=   (* after `for` `(` *)
  match ts with
  | TK KVar :: r =>
      do (ds, r1) <- decls_f false r;
      if is_inof r1 then
        match ds with [(x, None)] => for_inof_f aret (FHVar x) r1 | _ => Err end
      else for_rest_f aret (FIVar ds) r1
  | TK KLet :: r =>
      do (ds, r1) <- decls_f false r;
      if is_inof r1 then
        match ds with [(x, None)] => for_inof_f aret (FHLet x) r1 | _ => Err end
      else for_rest_f aret (FILet ds) r1
  | TK KConst :: r =>
      do (ds, r1) <- decls_f false r;
      if is_inof r1 then
        match ds with [(x, None)] => for_inof_f aret (FHConst x) r1 | _ => Err end
      else if all_init ds then for_rest_f aret (FIConst ds) r1 else Err
  | TP PSemicolon :: _ => for_rest_f aret FINone ts
  | _ =>
      do (e, r1) <- expr_f false ts;
      if is_inof r1 then
        match as_simple e with Some tg => for_inof_f aret (FHTarget tg) r1 | None => Err end
      else for_rest_f aret (FIExpr e) r1
  end.

(* switch/mod.rs CaseBlock *)
Definition cases_f (aret : bool) (ts : list token) : res (list (option expr * list stmt)) :=
  match ts with
  | TP PCloseBlock :: r => Ok [] r
  | TK KCase :: r =>
      do (e, r1) <- p_expr rec true r; do (_, r2) <- expect_p PColon r1;
      do (b, r3) <- p_items rec aret r2; do (cs, r4) <- p_cases rec aret r3; Ok ((Some e, b) :: cs) r4
  | TK KDefault :: TP PColon :: r =>
      do (b, r1) <- p_items rec aret r; do (cs, r2) <- p_cases rec aret r1; Ok ((None, b) :: cs) r2
  | _ => Err
  end.

Fixpoint count_default (cs : list (option expr * list stmt)) : nat :=
  match cs with [] => 0 | (None, _) :: r => S (count_default r) | _ :: r => count_default r end.

(* try_stm *)
Definition try_f (aret : bool) (ts : list token) : res stmt :=   (* after `try` *)
  do (b, r) <- block_f aret ts;
  do (c, r1) <-
    match r with
    | TK KCatch :: TP POpenParen :: TId x :: TP PCloseParen :: r1 =>
        do (cb, r2) <- block_f aret r1; Ok (Some (Some x, cb)) r2
    | TK KCatch :: r1 => do (cb, r2) <- block_f aret r1; Ok (Some (None, cb)) r2
    | _ => Ok None r
    end;
  do (f, r2) <-
    match r1 with
    | TK KFinally :: r2 => do (fb, r3) <- block_f aret r2; Ok (Some fb) r3
    | _ => Ok None r1
    end;
  match c, f with None, None => Err | _, _ => Ok (STry b c f) r2 end.

(* statement/mod.rs Statement::parse *)
Definition stmt_f (aret : bool) (ts : list token) : res stmt :=
  match ts with
  | TK KIf :: TP POpenParen :: r =>
      do (c, r1) <- p_expr rec true r; do (_, r2) <- expect_p PCloseParen r1;
      do (t, r3) <- p_stmt rec aret r2;
      match r3 with
      | TK KElse :: r4 => do (f, r5) <- p_stmt rec aret r4; Ok (SIf c t (Some f)) r5
      | _ => Ok (SIf c t None) r3
      end
  | TK KVar :: r => do (ds, r1) <- decls_f true r; do (_, r2) <- expect_semi r1; Ok (SVar ds) r2
  | TK KWhile :: TP POpenParen :: r =>
      do (c, r1) <- p_expr rec true r; do (_, r2) <- expect_p PCloseParen r1;
      do (b, r3) <- p_stmt rec aret r2; Ok (SWhile c b) r3
  | TK KDo :: r =>
      do (b, r1) <- p_stmt rec aret r; do (_, r2) <- expect_k KWhile r1; do (_, r3) <- expect_p POpenParen r2;
      do (c, r4) <- p_expr rec true r3; do (_, r5) <- expect_p PCloseParen r4;
      match r5 with TP PSemicolon :: r6 => Ok (SDoWhile b c) r6 | _ => Ok (SDoWhile b c) r5 end
  | TK KFor :: TP POpenParen :: r => for_f aret r
  | TK KReturn :: r =>
      if aret then
        match r with
        | TP PSemicolon :: r1 => Ok (SReturn None) r1
        | TP PCloseBlock :: _ => Ok (SReturn None) r
        | [] => Ok (SReturn None) []
        | _ => do (e, r1) <- p_expr rec true r; do (_, r2) <- expect_semi r1; Ok (SReturn (Some e)) r2
        end
      else Err
  | TK KBreak :: TId l :: r => do (_, r1) <- expect_semi r; Ok (SBreak (Some l)) r1
  | TK KBreak :: r => do (_, r1) <- expect_semi r; Ok (SBreak None) r1
  | TK KContinue :: TId l :: r => do (_, r1) <- expect_semi r; Ok (SContinue (Some l)) r1
  | TK KContinue :: r => do (_, r1) <- expect_semi r; Ok (SContinue None) r1
  | TK KTry :: r => try_f aret r
  | TK KThrow :: r => do (e, r1) <- p_expr rec true r; do (_, r2) <- expect_semi r1; Ok (SThrow e) r2
  | TK KSwitch :: TP POpenParen :: r =>
      do (e, r1) <- p_expr rec true r; do (_, r2) <- expect_p PCloseParen r1; do (_, r3) <- expect_p POpenBlock r2;
      do (cs, r4) <- p_cases rec aret r3;
      if count_default cs <=? 1 then Ok (SSwitch e cs) r4 else Err
  | TP POpenBlock :: _ => do (b, r1) <- block_f aret ts; Ok (SBlock b) r1
  | TP PSemicolon :: r => Ok SEmpty r
  | TId l :: TP PColon :: r =>
      (* labelled_stm: a labelled function declaration is outside the fragment *)
      match r with
      | TK KFunction :: _ => Err
      | _ => do (s, r1) <- p_stmt rec aret r; Ok (SLabelled l s) r1
      end
  | TK KDebugger :: r => do (_, r1) <- expect_semi r; Ok SDebugger r1
  | TK KFunction :: _ => Err                      (* ExpressionStatement lookahead restriction *)
  | TK KLet :: TP POpenBracket :: _ => Err
  | _ => do (e, r1) <- expr_f true ts; do (_, r2) <- expect_semi r1; Ok (SExpr e) r2
  end.

(* StatementListItem *)
Definition item_f (aret : bool) (ts : list token) : res stmt :=
  match ts with
  | TK KFunction :: TId name :: r =>
      do (ps, r1) <- params_f r; do (b, r2) <- fbody_f r1; Ok (SFunDecl name ps b) r2
  | TK KFunction :: _ => Err
  | TK KConst :: r =>
      do (ds, r1) <- decls_f true r; do (_, r2) <- expect_semi r1;
      if all_init ds then Ok (SConst ds) r2 else Err
  | TK KLet :: TId x :: r => do (ds, r1) <- decls_f true (TId x :: r); do (_, r2) <- expect_semi r1; Ok (SLet ds) r2
  | _ => stmt_f aret ts
  end.

(* StatementList: stops (without consuming) at `}`, `case`, `default` or the end of the input *)
Definition items_f (aret : bool) (ts : list token) : res (list stmt) :=
  match ts with
  | [] => Ok [] []
  | TP PCloseBlock :: _ | TK KCase :: _ | TK KDefault :: _ => Ok [] ts
  | _ => do (s, r) <- item_f aret ts; do (l, r1) <- p_items rec aret r; Ok (s :: l) r1
  end.

Definition step : parsers := {|
  p_expr := expr_f; p_assign := assign_f; p_comma_loop := comma_loop_f; p_sc := sc_f; p_sc_loop := sc_loop_f;
  p_bin := bin_at_f; p_bin_loop := bin_loop_f; p_exp := exp_f; p_unary := unary_f; p_member := member_f;
  p_member_loop := member_loop_f; p_call_loop := call_loop_f; p_args_loop := args_loop_f; p_elems := elems_f;
  p_props := props_f; p_stmt := stmt_f; p_items := items_f; p_decls := decls_f; p_cases := cases_f |}.

End Bodies.

Definition no_fuel : parsers := {|
  p_expr := fun _ _ => Fuel; p_assign := fun _ _ => Fuel; p_comma_loop := fun _ _ _ => Fuel; p_sc := fun _ _ _ => Fuel;
  p_sc_loop := fun _ _ _ _ => Fuel; p_bin := fun _ _ _ => Fuel; p_bin_loop := fun _ _ _ _ => Fuel; p_exp := fun _ => Fuel;
  p_unary := fun _ => Fuel; p_member := fun _ => Fuel; p_member_loop := fun _ _ => Fuel; p_call_loop := fun _ _ => Fuel;
  p_args_loop := fun _ _ => Fuel; p_elems := fun _ _ => Fuel; p_props := fun _ => Fuel; p_stmt := fun _ _ => Fuel;
  p_items := fun _ _ => Fuel; p_decls := fun _ _ => Fuel; p_cases := fun _ _ => Fuel |}.

Fixpoint parsers_n (n : nat) : parsers :=
  match n with O => no_fuel | S n' => step (parsers_n n') end.

(* ScriptBody: a statement list (no `return`) that must consume the whole input *)
Definition parse_script (n : nat) (ts : list token) : res (list stmt) :=
  do (l, r) <- items_f (parsers_n n) false ts;
  match r with [] => Ok l [] | _ => Err end.

(* the fuel used for a token list: one unit per token plus one *)
Definition fuel_for (ts : list token) : nat := S (List.length ts).

Definition parse_tokens (ts : list token) : option (list stmt) :=
  match parse_script (fuel_for ts) ts with Ok l _ => Some l | _ => None end.

(* ------------------------------------------------------------------------------------------ parser-shaped *)
(* `parser_shaped`: parenthesised exactly where the grammar requires it — the ASTs the parser returns. *)

Fixpoint lvl (e : expr) : nat :=
  match e with
  | EBin o _ _ => binop_lvl o
  | EAssign _ _ _ | EArrow _ _ => 1
  | ECond _ _ _ => 2
  | EUnary _ _ => 13
  | EUpdate _ _ _ => 14
  | ECall _ _ => 15
  | EMember x _ | EIndex x _ => if 16 <=? lvl x then 16 else 15
  | ENew _ _ => 16
  | _ => 17
  end.

Definition is_simple (e : expr) : bool :=
  match e with EId _ | EMember _ _ | EIndex _ _ => true | _ => false end.

Definition is_bin (o : binop) (e : expr) : bool :=
  match e with EBin o' _ _ => binop_beq o o' | _ => false end.

(* what an expression statement may start with (statement/mod.rs dispatch + ExpressionStatement lookahead):
   not `{`, `function`, a statement keyword, `;`, nor `identifier :` *)
Definition stmt_start_ok (ts : list token) : bool :=
  match ts with
  | TId _ :: TP PColon :: _ => false
  | TK k :: _ => match k with KThis | KNew | KDelete | KVoid | KTypeof => true | _ => false end
  | TP POpenBlock :: _ | TP PSemicolon :: _ => false
  | _ :: _ => true
  | [] => false
  end.

(* the statement ends in an `if` without `else`: a following `else` would attach to it *)
Fixpoint open_if (s : stmt) : bool :=
  match s with
  | SIf _ _ None => true
  | SIf _ _ (Some f) => open_if f
  | SWhile _ b | SFor _ _ _ b | SForIn _ _ b | SForOf _ _ b | SLabelled _ b => open_if b
  | _ => false
  end.

(* `chk` = also require that an expression statement does not start with `{` / `function` / a statement keyword
   (the ExpressionStatement lookahead restriction).  The parser output satisfies everything except this start
   condition: it drops the parentheses around assignment / update targets (`({}.x) = 1;`), see Props_C19. *)
Fixpoint wf (chk ain : bool) (e : expr) : bool :=
  match e with
  | EThis | EId _ | ENum _ | EStr _ | EBool _ | ENull => true
  | EArray es =>
      (fix go (l : list (option expr)) : bool :=
         match l with
         | [] => true
         | Some x :: r => (1 <=? lvl x) && wf chk true x && go r
         | None :: r => go r
         end) es
  | EObject ps => (fix go (l : list prop) : bool := match l with [] => true | p :: r => wfp chk p && go r end) ps
  | EParen x => wf chk true x
  | EFunc _ _ body => (fix go (l : list stmt) : bool := match l with [] => true | s :: r => wfs chk true s && go r end) body
  | EArrow ps body =>
      nodupb ps && (fix go (l : list stmt) : bool := match l with [] => true | s :: r => wfs chk true s && go r end) body
  | EMember x _ => (15 <=? lvl x) && wf chk true x
  | EIndex x i => (15 <=? lvl x) && wf chk true x && wf chk true i
  | ECall f args =>
      (15 <=? lvl f) && wf chk true f &&
      (fix go (l : list expr) : bool := match l with [] => true | x :: r => (1 <=? lvl x) && wf chk true x && go r end) args
  | ENew f args =>
      (16 <=? lvl f) && wf chk true f &&
      (fix go (l : list expr) : bool := match l with [] => true | x :: r => (1 <=? lvl x) && wf chk true x && go r end) args
  | EUpdate prefix _ x => is_simple x && wf chk true x
  | EUnary _ x => (13 <=? lvl x) && wf chk true x
  | EBin o l r =>
      wf chk ain l && wf chk ain r &&
      match o with
      | Comma => (1 <=? lvl r)                                  (* left: any expression *)
      | LOr => ((4 <=? lvl l) || is_bin LAnd l) && ((4 <=? lvl r) || is_bin LAnd r || is_bin LOr r)
      | LAnd => ((4 <=? lvl l) || is_bin LAnd l) && (4 <=? lvl r)
      | Coal => ((4 <=? lvl l) || is_bin Coal l) && (4 <=? lvl r)
      | Exp => (14 <=? lvl l) && (12 <=? lvl r)
      | In => ain && (8 <=? lvl l) && (9 <=? lvl r)
      | _ => (binop_lvl o <=? lvl l) && (S (binop_lvl o) <=? lvl r)
      end
  | ECond c t f => (3 <=? lvl c) && wf chk ain c && (1 <=? lvl t) && wf chk true t && (1 <=? lvl f) && wf chk ain f
  | EAssign o l r =>
      is_simple l && wf chk true l && (1 <=? lvl r) && wf chk ain r &&
      match o with AAssign => true | AOp b => is_assign_binop b end
  end
with wfp (chk : bool) (p : prop) : bool :=
  match p with
  | PShort _ => true
  | PKV _ v => (1 <=? lvl v) && wf chk true v
  | PComputed k v => (1 <=? lvl k) && wf chk true k && (1 <=? lvl v) && wf chk true v
  end
with wfs (chk aret : bool) (s : stmt) : bool :=
  let items := fix go (l : list stmt) : bool := match l with [] => true | x :: r => wfs chk aret x && go r end in
  let fitems := fix go (l : list stmt) : bool := match l with [] => true | x :: r => wfs chk true x && go r end in
  let decls := fun (ain : bool) => fix go (l : list (string * option expr)) : bool :=
    match l with
    | [] => true
    | (_, Some e) :: r => (1 <=? lvl e) && wf chk ain e && go r
    | (_, None) :: r => go r
    end in
  let nonempty := fun (l : list (string * option expr)) => match l with [] => false | _ => true end in
  let head := fun (h : forhead) =>
    match h with FHTarget t => is_simple t && wf chk true t | _ => true end in
  match s with
  | SBlock b => items b
  | SVar ds => nonempty ds && decls true ds
  | SLet ds => nonempty ds && decls true ds
  | SConst ds => nonempty ds && decls true ds && all_init ds
  | SEmpty => true
  | SExpr e => wf chk true e && (negb chk || stmt_start_ok (pe e ++ [TP PSemicolon]))
  | SIf c t f =>
      wf chk true c && wfs chk aret t && negb (is_decl t) &&
      match f with Some x => wfs chk aret x && negb (is_decl x) && negb (open_if t) | None => true end
  | SDoWhile b c => wfs chk aret b && negb (is_decl b) && wf chk true c
  | SWhile c b => wf chk true c && wfs chk aret b && negb (is_decl b)
  | SFor i c st b =>
      match i with
      | FINone => true
      | FIExpr e => wf chk false e
      | FIVar ds | FILet ds => nonempty ds && decls false ds
      | FIConst ds => nonempty ds && decls false ds && all_init ds
      end &&
      match c with Some e => wf chk true e | None => true end &&
      match st with Some e => wf chk true e | None => true end &&
      wfs chk aret b && negb (is_decl b)
  | SForIn h e b => head h && wf chk true e && wfs chk aret b && negb (is_decl b)
  | SForOf h e b => head h && (1 <=? lvl e) && wf chk true e && wfs chk aret b && negb (is_decl b)
  | SSwitch e cs =>
      wf chk true e && (count_default cs <=? 1) &&
      (fix go (l : list (option expr * list stmt)) : bool :=
         match l with
         | [] => true
         | (c, b) :: r => match c with Some x => wf chk true x | None => true end && items b && go r
         end) cs
  | SContinue _ | SBreak _ | SDebugger => true
  | SReturn e => aret && match e with Some x => wf chk true x | None => true end
  | SLabelled _ x => wfs chk aret x && negb (is_decl x)
  | SThrow e => wf chk true e
  | STry b c f =>
      items b &&
      match c with Some (_, cb) => items cb | None => true end &&
      match f with Some fb => items fb | None => true end &&
      match c, f with None, None => false | _, _ => true end
  | SFunDecl _ _ body => fitems body
  end.

Fixpoint wf_items (chk aret : bool) (l : list stmt) : bool :=
  match l with [] => true | s :: r => wfs chk aret s && wf_items chk aret r end.

(* the ASTs on which printing is proved to be inverted by parsing *)
Definition parser_shapedb (prog : list stmt) : bool := wf_items true false prog.
(* what the parser is proved to return *)
Definition shaped_coreb (prog : list stmt) : bool := wf_items false false prog.

Definition parser_shaped (prog : list stmt) : Prop := parser_shapedb prog = true.
Definition shaped_core (prog : list stmt) : Prop := shaped_coreb prog = true.
