(* Extraction of the executable C19 model (ExtrOcamlBasic only; nat/N/positive/string/ascii stay inductive).
   Output goes to ocaml/gen/ (git-ignored, created by vlib.coq_make); ocaml/C19/build.sh compiles it under
   ocaml/C19/_build/. *)
From Coq Require Import Extraction ExtrOcamlBasic.
From C19 Require Import Model_C19 Deep_Lex_C19 Deep_Text_C19.
Extraction Language OCaml.
Extraction "../ocaml/gen/c19_model.ml" print_tokens parse_tokens parse_script fuel_for parser_shapedb shaped_coreb
  lex render parse_text printable_progb needs_sep tok_text is_ws.
