(* C11 model: boa_string's JsStr / JsString operations, transliterated arm by arm from
   /repo/core/string/src/{str.rs,lib.rs,iter.rs,code_point.rs,builder.rs,common.rs,vtable/*}.

   A string is a view `Latin1 (bytes) | Utf16 (units)`; sequence, slice, static and builder strings
   are all views of these two (vtable `as_str` returns a JsStr in every kind), so the representation
   dependence of every operation is exactly its dependence on this variant.

   The second half of the file (`spec_*`) is the same operation on a plain list of code units,
   written without any reference to the representation.

   Definitions only: this file must keep compiling when a proof breaks.  Indices/lengths are `nat`
   (Rust usize), code units / bytes / scalar values are `N`. *)
From Coq Require Import NArith List Bool Arith.
Import ListNotations.
Local Open Scope N_scope.

(* ------------------------------------------------------------------------------------------- *)
(* representation                                                                                *)

Inductive repr : Type :=
| Latin1 (v : list N)      (* JsStrVariant::Latin1(&[u8])  *)
| Utf16 (v : list N).      (* JsStrVariant::Utf16(&[u16]) *)

Definition units (r : repr) : list N := match r with Latin1 v => v | Utf16 v => v end.

(* the type invariant of the two buffers: u8 / u16 elements *)
Definition wf (r : repr) : Prop :=
  match r with
  | Latin1 v => Forall (fun b => b < 256) v
  | Utf16 v => Forall (fun u => u < 65536) v
  end.
Definition wfb (r : repr) : bool :=
  match r with
  | Latin1 v => forallb (fun b => b <? 256) v
  | Utf16 v => forallb (fun u => u <? 65536) v
  end.

(* widening conversions of std; the numeric value is unchanged *)
Definition u16_from_u8 (b : N) : N := b.
Definition char_from_u8 (b : N) : N := b.
Definition u32_from_u16 (u : N) : N := u.

Definition EMPTY : repr := Latin1 [].            (* JsStr::EMPTY / StaticJsStrings::EMPTY_STRING *)

(* ------------------------------------------------------------------------------------------- *)
(* std building blocks, with the recursion shape of the std implementation                       *)

(* <[T] as PartialEq>::eq : length test, then element-wise (memcmp) *)
Fixpoint zip_all_eq (a b : list N) : bool :=          (* a.iter().zip(b).all(|(x,y)| x == y) : stops at the shorter *)
  match a, b with
  | x :: a', y :: b' => if x =? y then zip_all_eq a' b' else false
  | _, _ => true
  end.
Definition slice_eq (a b : list N) : bool :=
  if negb (Nat.eqb (length a) (length b)) then false else zip_all_eq a b.

(* Iterator::eq : both iterators advanced in lock step, unequal when one ends first *)
Fixpoint iter_eq (a b : list N) : bool :=
  match a, b with
  | [], [] => true
  | x :: a', y :: b' => if x =? y then iter_eq a' b' else false
  | _, _ => false
  end.

(* <[T] as Ord>::cmp : compare the common prefix (memcmp for u8), then the lengths *)
Fixpoint first_diff (a b : list N) : comparison :=    (* over a zip: first non-Equal element comparison *)
  match a, b with
  | x :: a', y :: b' => match x ?= y with Eq => first_diff a' b' | c => c end
  | _, _ => Eq
  end.
Definition slice_cmp (a b : list N) : comparison :=
  let l := Nat.min (length a) (length b) in
  match first_diff (firstn l a) (firstn l b) with
  | Eq => Nat.compare (length a) (length b)
  | c => c
  end.

(* Iterator::cmp *)
Fixpoint iter_cmp (a b : list N) : comparison :=
  match a, b with
  | [], [] => Eq
  | [], _ :: _ => Lt
  | _ :: _, [] => Gt
  | x :: a', y :: b' => match x ?= y with Eq => iter_cmp a' b' | c => c end
  end.

(* v[s..e] for s <= e <= len *)
Definition sub (v : list N) (s e : nat) : list N := firstn (e - s) (skipn s v).
(* <[T]>::get(s..e) *)
Definition slice_get_range (v : list N) (s e : nat) : option (list N) :=
  if (s <=? e)%nat && (e <=? length v)%nat then Some (sub v s e) else None.

(* <[T]>::windows(n), n > 0 *)
Fixpoint windows (n : nat) (v : list N) : list (list N) :=
  match v with
  | [] => []
  | _ :: t => if (n <=? length v)%nat then firstn n v :: windows n t else []
  end.

(* Iterator::position / rposition *)
Fixpoint position {A} (p : A -> bool) (l : list A) : option nat :=
  match l with
  | [] => None
  | x :: t => if p x then Some O else option_map S (position p t)
  end.
Fixpoint rposition {A} (p : A -> bool) (l : list A) : option nat :=
  match l with
  | [] => None
  | x :: t => match rposition p t with
              | Some i => Some (S i)
              | None => if p x then Some O else None
              end
  end.

(* UTF-16 *)
Definition is_surrogate (u : N) : bool := (55296 <=? u) && (u <=? 57343).       (* D800..DFFF *)
Definition is_low_surrogate (u : N) : bool := (56320 <=? u) && (u <=? 57343).   (* DC00..DFFF *)
Definition combine_surrogates (u u2 : N) : N := ((u mod 1024) * 1024 + (u2 mod 1024)) + 65536.

(* std::char::DecodeUtf16 run to the end: inl = Ok(char), inr = Err(unpaired surrogate) *)
Fixpoint decode_utf16 (l : list N) : list (N + N) :=
  match l with
  | [] => []
  | u :: t =>
      if negb (is_surrogate u) then inl u :: decode_utf16 t
      else if 56320 <=? u then inr u :: decode_utf16 t
      else match t with
           | [] => [inr u]
           | u2 :: t2 =>
               if negb (is_low_surrogate u2) then inr u :: decode_utf16 t     (* u2 is buffered and re-read *)
               else inl (combine_surrogates u u2) :: decode_utf16 t2
           end
  end.

(* a Rust `str`, seen as its sequence of Unicode scalar values *)
Definition valid_scalar (c : N) : bool := (c <? 1114112) && negb (is_surrogate c).
Definition valid_str (s : list N) : Prop := Forall (fun c => valid_scalar c = true) s.

(* char::encode_utf16 / str::encode_utf16 *)
Definition encode_utf16_char (c : N) : list N :=
  if c <? 65536 then [c]
  else let c' := c - 65536 in [55296 + c' / 1024; 56320 + c' mod 1024].
Definition encode_utf16 (s : list N) : list N := flat_map encode_utf16_char s.

(* str::as_bytes : the UTF-8 encoding *)
Definition encode_utf8_char (c : N) : list N :=
  if c <? 128 then [c]
  else if c <? 2048 then [192 + c / 64; 128 + c mod 64]
  else if c <? 65536 then [224 + c / 4096; 128 + (c / 64) mod 64; 128 + c mod 64]
  else [240 + c / 262144; 128 + (c / 4096) mod 64; 128 + (c / 64) mod 64; 128 + c mod 64].
Definition as_bytes (s : list N) : list N := flat_map encode_utf8_char s.

(* ------------------------------------------------------------------------------------------- *)
(* str.rs : JsStr                                                                                *)

Definition len (r : repr) : nat := match r with Latin1 d => length d | Utf16 d => length d end.
Definition is_empty (r : repr) : bool := Nat.eqb (len r) 0.
Definition is_latin1 (r : repr) : bool := match r with Latin1 _ => true | Utf16 _ => false end.
Definition as_latin1 (r : repr) : option (list N) := match r with Latin1 v => Some v | Utf16 _ => None end.

(* iter.rs : Iter *)
Definition iter (r : repr) : list N :=
  match r with
  | Latin1 s => map u16_from_u8 s
  | Utf16 s => s
  end.

Definition to_vec (r : repr) : list N :=
  match r with
  | Latin1 v => map u16_from_u8 v
  | Utf16 v => v
  end.

(* JsSliceIndex for usize *)
Definition get (r : repr) (index : nat) : option N :=
  match r with
  | Latin1 v => option_map u16_from_u8 (nth_error v index)
  | Utf16 v => nth_error v index
  end.

(* JsSliceIndex for Range / RangeTo / RangeFrom (start..end written out) *)
Definition get_range (r : repr) (s e : nat) : option repr :=
  match r with
  | Latin1 v => option_map Latin1 (slice_get_range v s e)
  | Utf16 v => option_map Utf16 (slice_get_range v s e)
  end.

(* impl PartialEq for JsStr *)
Definition eq (self other : repr) : bool :=
  match self, other with
  | Latin1 lhs, Latin1 rhs => slice_eq lhs rhs
  | Utf16 lhs, Utf16 rhs => slice_eq lhs rhs
  | _, _ =>
      if negb (Nat.eqb (len self) (len other)) then false
      else zip_all_eq (iter self) (iter other)
  end.

(* impl PartialEq<JsStr> for [u16]  (and PartialEq<JsString> for [u16]) *)
Definition u16s_eq (self : list N) (other : repr) : bool :=
  if negb (Nat.eqb (length self) (len other)) then false
  else zip_all_eq self (iter other).

(* impl Ord for JsStr *)
Definition cmp (self other : repr) : comparison :=
  match self, other with
  | Latin1 x, Latin1 y => slice_cmp x y
  | Utf16 x, Utf16 y => slice_cmp x y
  | _, _ => iter_cmp (iter self) (iter other)
  end.

(* impl Hash for JsStr : the sequence of Hasher calls *)
Inductive hword : Type := WUsize (n : nat) | WU16 (x : N).
Definition hash (r : repr) : list hword :=
  match r with
  | Latin1 s => WUsize (length s) :: map (fun elem => WU16 (u16_from_u8 elem)) s
  | Utf16 s => WUsize (length s) :: map (fun elem => WU16 elem) s
  end.

(* starts_with / ends_with; `expect` cannot fail behind the length test, the None arm is the panic *)
Definition starts_with (self needle : repr) : bool :=
  let n := len needle in
  (n <=? len self)%nat &&
  match get_range self 0 n with Some p => eq needle p | None => false end.
Definition ends_with (self needle : repr) : bool :=
  let m := len self in let n := len needle in
  (n <=? m)%nat &&
  match get_range self (m - n) m with Some p => eq needle p | None => false end.

(* iter.rs : Windows — windows of a Latin1 string are Latin1, of a Utf16 string Utf16 *)
Definition jwindows (r : repr) (size : nat) : list repr :=
  match r with
  | Latin1 v => map Latin1 (windows size v)
  | Utf16 v => map Utf16 (windows size v)
  end.

Definition index_of (self search_value : repr) (from_index : nat) : option nat :=
  let l := len self in
  if is_empty search_value then
    (if (from_index <=? l)%nat then Some from_index else None)
  else
    option_map (fun i => (i + from_index)%nat)
      (position (fun s => eq s search_value) (skipn from_index (jwindows self (len search_value)))).

(* code_point.rs *)
Inductive code_point : Type := Unicode (c : N) | UnpairedSurrogate (u : N).
Definition cp_of_decoded (d : N + N) : code_point :=
  match d with inl c => Unicode c | inr u => UnpairedSurrogate u end.

(* code_point_at; None = the `assert!(position < size)` panic *)
Definition code_point_at (r : repr) (position : nat) : option code_point :=
  let size := len r in
  if negb (position <? size)%nat then None else
  match r with
  | Latin1 v =>
      match nth_error v position with
      | Some b => Some (Unicode (char_from_u8 b))
      | None => None
      end
  | Utf16 v =>
      let cp := match slice_get_range v position (position + 1 + 1) with   (* v.get(position..=position+1) *)
                | Some s => s
                | None => sub v position (position + 1)                      (* &v[position..=position]    *)
                end in
      match decode_utf16 cp with
      | d :: _ => Some (cp_of_decoded d)
      | [] => None
      end
  end.

(* iter.rs : CodePointsIter *)
Definition code_points (r : repr) : list code_point :=
  match r with
  | Latin1 s => map (fun b => Unicode (char_from_u8 b)) s
  | Utf16 s => map cp_of_decoded (decode_utf16 s)
  end.

Definition contains (r : repr) (element : N) : bool :=
  match r with
  | Latin1 v => existsb (fun x => x =? element) v
  | Utf16 v => existsb (fun x => x =? u16_from_u8 element) v
  end.

(* String::from_utf16 : all-or-nothing *)
Fixpoint collect_ok (l : list (N + N)) : option (list N) :=
  match l with
  | [] => Some []
  | inl c :: t => option_map (cons c) (collect_ok t)
  | inr _ :: _ => None
  end.
Definition to_std_string (r : repr) : option (list N) :=
  match r with
  | Latin1 v => Some (map char_from_u8 v)
  | Utf16 v => collect_ok (decode_utf16 v)
  end.
(* code_points_lossy / to_std_string_lossy: "No need to optimize latin1" — one arm over iter() *)
Definition to_std_string_lossy (r : repr) : list N :=
  map (fun d => match d with inl c => c | inr _ => 65533 end) (decode_utf16 (iter r)).

(* impl PartialEq<str> for JsStr — the code after fixes.d/C11-eq-str.patch *)
Definition eq_str (self : repr) (other : list N) : bool :=
  iter_eq (iter self) (encode_utf16 other).

(* impl PartialEq<str> for JsStr — as written on the unpatched tree (kept: refuted in Proofs) *)
Definition eq_str_old (self : repr) (other : list N) : bool :=
  match self with
  | Latin1 v => slice_eq v (as_bytes other)
  | Utf16 v => zip_all_eq (encode_utf16 other) v
  end.

(* ------------------------------------------------------------------------------------------- *)
(* lib.rs : JsString                                                                             *)

(* is_trimmable_whitespace(char) *)
Definition is_trimmable_whitespace (c : N) : bool :=
  (c =? 9) || (c =? 11) || (c =? 12) || (c =? 32) || (c =? 160) || (c =? 65279) ||
  (c =? 5760) || ((8192 <=? c) && (c <=? 8202)) || (c =? 8239) || (c =? 8287) || (c =? 12288) ||
  (c =? 10) || (c =? 13) || (c =? 8232) || (c =? 8233).
(* is_trimmable_whitespace_latin1(u8) *)
Definition is_trimmable_whitespace_latin1 (c : N) : bool :=
  (c =? 9) || (c =? 11) || (c =? 12) || (c =? 32) || (c =? 160) || (c =? 10) || (c =? 13).
(* char::from_u32 *)
Definition char_from_u32 (x : N) : option N := if valid_scalar x then Some x else None.
(* !char::from_u32(u32::from(r)).is_some_and(is_trimmable_whitespace) *)
Definition not_ws_u16 (r : N) : bool :=
  negb (match char_from_u32 (u32_from_u16 r) with Some c => is_trimmable_whitespace c | None => false end).
Definition not_ws_latin1 (c : N) : bool := negb (is_trimmable_whitespace_latin1 c).

(* slice_unchecked(data, start, end) : SliceString::new takes as_str().get_unchecked(start..end) *)
Definition slice_unchecked (data : repr) (s e : nat) : repr :=
  match data with
  | Latin1 v => Latin1 (sub v s e)
  | Utf16 v => Utf16 (sub v s e)
  end.

Definition trim (self : repr) : repr :=
  match (match self with
         | Latin1 v =>
             match position not_ws_latin1 v with
             | None => None
             | Some s => Some (s, match rposition not_ws_latin1 v with Some e => e | None => s end)
             end
         | Utf16 v =>
             match position not_ws_u16 v with
             | None => None
             | Some s => Some (s, match rposition not_ws_u16 v with Some e => e | None => s end)
             end
         end) with
  | None => EMPTY
  | Some (s, e) => slice_unchecked self s (e + 1)
  end.

Definition trim_start (self : repr) : repr :=
  match (match self with
         | Latin1 v => position not_ws_latin1 v
         | Utf16 v => position not_ws_u16 v
         end) with
  | None => EMPTY
  | Some s => slice_unchecked self s (len self)
  end.

Definition trim_end (self : repr) : repr :=
  match (match self with
         | Latin1 v => rposition not_ws_latin1 v
         | Utf16 v => rposition not_ws_u16 v
         end) with
  | None => EMPTY
  | Some e => slice_unchecked self 0 (e + 1)
  end.

(* JsString::slice : clamps p2, EMPTY when p1 >= p2 *)
Definition slice (self : repr) (p1 p2 : nat) : repr :=
  let p2 := if (len self <? p2)%nat then len self else p2 in
  if (p2 <=? p1)%nat then EMPTY else slice_unchecked self p1 p2.

(* JsStringSliceIndex::get with the bounds already resolved to start/end *)
Definition string_get (self : repr) (s e : nat) : option repr :=
  if (len self <? e)%nat || (e <? s)%nat then None else Some (slice_unchecked self s e).

(* StaticJsStrings::get_string : lookup in a table of Latin1 statics by Hash + Eq of JsStr;
   a hit replaces the string by the static one.  The table is a parameter. *)
Fixpoint get_string (table : list (list N)) (s : repr) : option repr :=
  match table with
  | [] => None
  | t :: rest => if eq (Latin1 t) s then Some (Latin1 t) else get_string rest s
  end.

(* concat_array: Latin1 only when every part is Latin1; then canonicalised *)
Definition concat_array_raw (strings : list repr) : repr :=
  if forallb is_latin1 strings then
    Latin1 (flat_map (fun s => match s with Latin1 b => b | Utf16 _ => [] (* unreachable!() *) end) strings)
  else
    Utf16 (flat_map (fun s => match s with Latin1 b => map u16_from_u8 b | Utf16 u => u end) strings).
Definition concat_array (table : list (list N)) (strings : list repr) : repr :=
  let s := concat_array_raw strings in
  match get_string table s with Some c => c | None => s end.
Definition concat (table : list (list N)) (x y : repr) : repr := concat_array table [x; y].

(* From<&[u16]>, From<JsStr> *)
Definition from_js_str (table : list (list N)) (s : repr) : repr :=
  match get_string table s with Some c => c | None => s end.
Definition from_u16s (table : list (list N)) (s : list N) : repr := from_js_str table (Utf16 s).

(* From<&str> (other : scalar values of the str) *)
Definition from_str (table : list (list N)) (s : list N) : repr :=
  if forallb (fun c => c <? 128) s then                         (* s.is_ascii() *)
    from_js_str table (Latin1 (as_bytes s))
  else if forallb (fun c => c <=? 255) s then
    from_js_str table (Latin1 (map (fun c => c) s))             (* c as u8 *)
  else Utf16 (encode_utf16 s).

(* ------------------------------------------------------------------------------------------- *)
(* builder.rs                                                                                    *)

Definition builder_latin1_is_ascii (b : list N) : bool := forallb (fun c => c <? 128) b.   (* [u8]::is_ascii *)
Definition builder_utf16_is_ascii (b : list N) : bool := forallb (fun c => c <=? 127) b.
(* build_inner: empty -> JsString::default() *)
Definition build_inner_latin1 (b : list N) : repr := match b with [] => EMPTY | _ => Latin1 b end.
Definition build_inner_utf16 (b : list N) : repr := match b with [] => EMPTY | _ => Utf16 b end.
Definition latin1_builder_build (b : list N) : option repr :=
  if builder_latin1_is_ascii b then Some (build_inner_latin1 b) else None.

Inductive segment : Type :=
| SegStr (s : repr)          (* Segment::String / Segment::Str *)
| SegLatin1 (b : N)
| SegCodePoint (ch : N).
Definition seg_can_be_latin1 (s : segment) : bool :=
  match s with
  | SegStr s => is_latin1 s
  | SegLatin1 _ => true
  | SegCodePoint ch => ch <=? 255
  end.
Definition common_build_as_latin1 (segs : list segment) : repr :=
  build_inner_latin1 (flat_map (fun seg => match seg with
    | SegStr s => match as_latin1 s with Some b => b | None => [] (* unreachable!() *) end
    | SegLatin1 b => [b]
    | SegCodePoint ch => [ch mod 256]                           (* code_point as u8 *)
    end) segs).
Definition common_build_from_utf16 (segs : list segment) : repr :=
  build_inner_utf16 (flat_map (fun seg => match seg with
    | SegStr s => match s with Latin1 b => map u16_from_u8 b | Utf16 u => u end
    | SegLatin1 b => [u16_from_u8 b]
    | SegCodePoint ch => encode_utf16_char ch
    end) segs).
Definition common_build (segs : list segment) : repr :=
  match segs with
  | [] => EMPTY
  | _ => if forallb seg_can_be_latin1 segs then common_build_as_latin1 segs else common_build_from_utf16 segs
  end.
Definition seg_wf (s : segment) : Prop :=
  match s with
  | SegStr r => wf r
  | SegLatin1 b => b < 256
  | SegCodePoint ch => valid_scalar ch = true
  end.

(* ------------------------------------------------------------------------------------------- *)
(* SPEC: the same operations on a plain list of UTF-16 code units                                *)

Fixpoint list_eqb (a b : list N) : bool :=
  match a, b with
  | [], [] => true
  | x :: a', y :: b' => (x =? y) && list_eqb a' b'
  | _, _ => false
  end.

(* lexicographic order on code units, shorter prefix first *)
Fixpoint lex_cmp (a b : list N) : comparison :=
  match a, b with
  | [], [] => Eq
  | [], _ :: _ => Lt
  | _ :: _, [] => Gt
  | x :: a', y :: b' => match x ?= y with Eq => lex_cmp a' b' | c => c end
  end.

Definition spec_len (u : list N) : nat := length u.
Definition spec_get (u : list N) (i : nat) : option N := nth_error u i.
Definition spec_hash (u : list N) : list hword := WUsize (length u) :: map WU16 u.

Fixpoint prefixb (p u : list N) : bool :=        (* p is a prefix of u *)
  match p, u with
  | [], _ => true
  | x :: p', y :: u' => (x =? y) && prefixb p' u'
  | _ :: _, [] => false
  end.
Definition spec_starts_with (u n : list N) : bool := prefixb n u.
Definition spec_ends_with (u n : list N) : bool := prefixb (rev n) (rev u).

(* StringIndexOf: least i >= from with u[i .. i+|s|) = s *)
Fixpoint find_at (u s : list N) (i : nat) : option nat :=
  match u with
  | [] => None
  | _ :: u' => if prefixb s u then Some i else find_at u' s (S i)
  end.
Definition spec_index_of (u s : list N) (from : nat) : option nat :=
  match s with
  | [] => if (from <=? length u)%nat then Some from else None
  | _ :: _ => find_at (skipn from u) s from
  end.

(* ECMA-262 CodePointAt(string, position), steps 3-9 *)
Definition is_leading (u : N) : bool := (55296 <=? u) && (u <=? 56319).
Definition is_trailing (u : N) : bool := (56320 <=? u) && (u <=? 57343).
Definition spec_code_point_at (u : list N) (pos : nat) : option code_point :=
  match nth_error u pos with
  | None => None
  | Some first =>
      if negb (is_leading first) && negb (is_trailing first) then Some (Unicode first)
      else if is_trailing first then Some (UnpairedSurrogate first)
      else match nth_error u (S pos) with
           | None => Some (UnpairedSurrogate first)
           | Some second =>
               if negb (is_trailing second) then Some (UnpairedSurrogate first)
               else Some (Unicode ((first - 55296) * 1024 + (second - 56320) + 65536))
           end
  end.

(* StringToCodePoints: repeated CodePointAt, advancing by the code unit count *)
Fixpoint spec_code_points_fuel (fuel : nat) (u : list N) : list code_point :=
  match fuel with
  | O => []
  | S f =>
      match spec_code_point_at u 0 with
      | None => []
      | Some (Unicode c) => Unicode c :: spec_code_points_fuel f (skipn (if c <? 65536 then 1 else 2) u)
      | Some (UnpairedSurrogate s) => UnpairedSurrogate s :: spec_code_points_fuel f (skipn 1 u)
      end
  end.
Definition spec_code_points (u : list N) : list code_point := spec_code_points_fuel (length u) u.

Definition spec_contains (u : list N) (b : N) : bool := existsb (fun x => x =? b) u.

Fixpoint all_unicode (l : list code_point) : option (list N) :=
  match l with
  | [] => Some []
  | Unicode c :: t => option_map (cons c) (all_unicode t)
  | UnpairedSurrogate _ :: _ => None
  end.
Definition spec_to_std_string (u : list N) : option (list N) := all_unicode (spec_code_points u).

(* ECMA WhiteSpace + LineTerminator code units *)
Definition spec_ws (u : N) : bool := is_trimmable_whitespace u.
Fixpoint drop_ws (u : list N) : list N :=
  match u with
  | [] => []
  | x :: t => if spec_ws x then drop_ws t else u
  end.
Definition spec_trim_start (u : list N) : list N := drop_ws u.
Definition spec_trim_end (u : list N) : list N := rev (drop_ws (rev u)).
Definition spec_trim (u : list N) : list N := spec_trim_end (spec_trim_start u).

Definition spec_slice (u : list N) (p1 p2 : nat) : list N :=
  firstn (Nat.min p2 (length u) - p1) (skipn p1 u).
Definition spec_get_range (u : list N) (s e : nat) : option (list N) :=
  if (s <=? e)%nat && (e <=? length u)%nat then Some (firstn (e - s) (skipn s u)) else None.

Definition spec_eq_str (u : list N) (s : list N) : bool := list_eqb u (encode_utf16 s).

Definition seg_units (s : segment) : list N :=
  match s with
  | SegStr r => units r
  | SegLatin1 b => [b]
  | SegCodePoint ch => encode_utf16_char ch
  end.
