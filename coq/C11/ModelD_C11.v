(* C11 model, deepening round: the remaining representation-specialised operations of boa_string
   (str.rs to_number, display.rs JsStrDisplayEscaped, lib.rs to_std_string_with_surrogates /
   map_valid_segments, builder.rs CommonJsStringBuilder::build_from_latin1), transliterated as in
   Model_C11.v, followed by their plain code-unit specifications.  Definitions only. *)
From Coq Require Import NArith List Bool Arith.
From C11 Require Import Model_C11.
Import ListNotations.
Local Open Scope N_scope.

(* str.rs JsStr::to_number.  The only representation-specialised step is `self.to_std_string()`
   (Latin-1 arm: char::from per byte, UTF-16 arm: String::from_utf16); everything after it
   (trim_matches, the Infinity / 0b / 0o / 0x prefixes, fast_float2) works on the std String and is
   the parameter `string_numeric_value`.  `nan` is the `let Ok(string) = .. else { return f64::NAN }` arm. *)
Definition to_number {X : Type} (nan : X) (string_numeric_value : list N -> X) (r : repr) : X :=
  match to_std_string r with
  | None => nan
  | Some s => string_numeric_value s
  end.

(* display.rs: write!(f, "\\u{c:04X}") for a u16 *)
Definition hex_digit (d : N) : N := if d <? 10 then 48 + d else 55 + d.
Definition escape_u (c : N) : list N :=
  [92; 117; hex_digit ((c / 4096) mod 16); hex_digit ((c / 256) mod 16); hex_digit ((c / 16) mod 16); hex_digit (c mod 16)].
Definition esc_cp (c : code_point) : list N :=
  match c with
  | Unicode c => [c]                      (* f.write_char(c) *)
  | UnpairedSurrogate u => escape_u u
  end.
(* impl Display for JsStrDisplayEscaped (= to_std_string_escaped): the written chars *)
Definition display_escaped (r : repr) : list N :=
  match r with
  | Latin1 v => map char_from_u8 v                         (* v.iter().copied().map(char::from).try_for_each(write_char) *)
  | Utf16 _ => flat_map esc_cp (code_points r)             (* self.inner.code_points().try_for_each(..) *)
  end.

(* lib.rs to_std_string_with_surrogates: from_fn over a peekable code_points() *)
Fixpoint take_unicode (l : list code_point) : list N * list code_point :=     (* the `while let Some(cp) = iter.peek()..` loop *)
  match l with
  | Unicode c :: t => let (s, rest) := take_unicode t in (c :: s, rest)
  | _ => ([], l)
  end.
Fixpoint with_surrogates_fuel (fuel : nat) (l : list code_point) : list (list N + N) :=
  match fuel with
  | O => []
  | S f =>
      match l with
      | [] => []                                                               (* iter.next()? *)
      | UnpairedSurrogate s :: t => inr s :: with_surrogates_fuel f t          (* return Some(Err(surr)) *)
      | Unicode c :: t => let (s, rest) := take_unicode t in inl (c :: s) :: with_surrogates_fuel f rest
      end
  end.
Definition to_std_string_with_surrogates (r : repr) : list (list N + N) :=
  let l := code_points r in with_surrogates_fuel (length l) l.

(* lib.rs map_valid_segments(f): text.extend(f(string).encode_utf16()) / text.push(surr); Self::from(&text[..]) *)
Definition segment_units (f : list N -> list N) (p : list N + N) : list N :=
  match p with
  | inl s => encode_utf16 (f s)
  | inr u => [u]
  end.
Definition map_valid_segments (table : list (list N)) (f : list N -> list N) (r : repr) : repr :=
  from_u16s table (flat_map (segment_units f) (to_std_string_with_surrogates r)).

(* builder.rs CommonJsStringBuilder::build_from_latin1: `?` / `return None` leave at the first segment that does not fit *)
Fixpoint from_latin1_bytes (segs : list segment) : option (list N) :=
  match segs with
  | [] => Some []
  | seg :: t =>
      match (match seg with
             | SegStr s => as_latin1 s                                         (* s.as_latin1()? *)
             | SegLatin1 b => if b <=? 127 then Some [b] else None             (* b <= 0x7f *)
             | SegCodePoint ch => if ch <=? 255 then Some [ch] else None       (* u8::try_from(ch as u32) *)
             end) with
      | None => None
      | Some bs => option_map (app bs) (from_latin1_bytes t)
      end
  end.
Definition common_build_from_latin1 (segs : list segment) : option repr :=
  match from_latin1_bytes segs with
  | None => None
  | Some b => latin1_builder_build b                                           (* builder.build(): ASCII gate *)
  end.

(* ------------------------------------------------------------------------------------------- *)
(* SPEC on plain code units *)

Definition spec_to_number {X : Type} (nan : X) (snv : list N -> X) (u : list N) : X :=
  match spec_to_std_string u with None => nan | Some s => snv s end.
Definition spec_display_escaped (u : list N) : list N := flat_map esc_cp (spec_code_points u).
Definition spec_with_surrogates (u : list N) : list (list N + N) :=
  let l := spec_code_points u in with_surrogates_fuel (length l) l.
Definition spec_map_valid_segments (f : list N -> list N) (u : list N) : list N :=
  flat_map (segment_units f) (spec_with_surrogates u).
(* the code units a code point stands for *)
Definition cp_units (c : code_point) : list N :=
  match c with Unicode c => encode_utf16_char c | UnpairedSurrogate u => [u] end.
