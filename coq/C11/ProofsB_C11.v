(* C11 lemmas, part B: code points, std strings, trimming, slicing, constructors, comparison with
   Rust str, builders. *)
From Coq Require Import NArith List Bool Arith Lia.
From C11 Require Import Model_C11 Proofs_C11.
Import ListNotations.
Local Open Scope N_scope.

(* turn every boolean comparison on N in the goal into a Prop case split *)
Ltac nb :=
  repeat match goal with
         | |- context [N.leb ?a ?b] => destruct (N.leb_spec a b)
         | |- context [N.ltb ?a ?b] => destruct (N.ltb_spec a b)
         | |- context [N.eqb ?a ?b] => destruct (N.eqb_spec a b)
         end; cbn [negb andb orb]; try reflexivity; try discriminate; try lia.

Lemma Forall_firstn {A} (P : A -> Prop) n l : Forall P l -> Forall P (firstn n l).
Proof.
  intro H. revert n; induction H as [|x l Hx Hl IH]; intro n; destruct n; cbn [firstn]; constructor; auto.
Qed.
Lemma Forall_skipn {A} (P : A -> Prop) n l : Forall P l -> Forall P (skipn n l).
Proof.
  intro H. revert n; induction H as [|x l Hx Hl IH]; intro n; destruct n; cbn [skipn]; auto.
Qed.
Lemma Forall_sub P v s e : Forall P v -> Forall P (sub v s e).
Proof. intro H. unfold sub. apply Forall_firstn, Forall_skipn, H. Qed.

Lemma skipn_nth_cons {A} (v : list A) pos a : nth_error v pos = Some a -> skipn pos v = a :: skipn (S pos) v.
Proof.
  revert v; induction pos as [|pos IH]; intros [|x v] H; try discriminate.
  - cbn in H. injection H as ->. reflexivity.
  - cbn [nth_error] in H. cbn [skipn]. rewrite (IH v H). reflexivity.
Qed.

(* ------------------------------------------------------------------------------------------- *)
(* surrogates                                                                                    *)

Lemma not_surrogate_split u : is_surrogate u = false -> is_leading u = false /\ is_trailing u = false.
Proof. unfold is_surrogate, is_leading, is_trailing. split; revert H; nb. Qed.

Lemma surrogate_split u : is_surrogate u = true ->
  is_trailing u = (56320 <=? u) /\ is_leading u = negb (56320 <=? u).
Proof. unfold is_surrogate, is_leading, is_trailing. split; revert H; nb. Qed.

Lemma combine_spec u u2 : is_leading u = true -> is_trailing u2 = true ->
  combine_surrogates u u2 = (u - 55296) * 1024 + (u2 - 56320) + 65536.
Proof.
  unfold is_leading, is_trailing, combine_surrogates. intros H1 H2.
  apply andb_true_iff in H1, H2. destruct H1 as [A1 A2], H2 as [B1 B2].
  apply N.leb_le in A1, A2, B1, B2.
  assert (E1 : u mod 1024 = u - 55296) by (symmetry; apply (N.mod_unique u 1024 54); lia).
  assert (E2 : u2 mod 1024 = u2 - 56320) by (symmetry; apply (N.mod_unique u2 1024 55); lia).
  rewrite E1, E2. reflexivity.
Qed.

Lemma combine_big u u2 : is_leading u = true -> is_trailing u2 = true ->
  ((u - 55296) * 1024 + (u2 - 56320) + 65536 <? 65536) = false.
Proof. intros _ _. apply N.ltb_ge. lia. Qed.

Lemma small_not_surrogate b : b < 256 -> is_surrogate b = false.
Proof. unfold is_surrogate. intro H. nb. Qed.

(* ------------------------------------------------------------------------------------------- *)
(* code_point_at                                                                                 *)

Lemma decode_pair_head first rest :
  match decode_utf16 (first :: rest) with d :: _ => Some (cp_of_decoded d) | [] => None end =
  spec_code_point_at (first :: rest) 0.
Proof.
  unfold spec_code_point_at. cbn [nth_error decode_utf16].
  destruct (is_surrogate first) eqn:S1; cbn [negb].
  - destruct (surrogate_split _ S1) as [T L]. rewrite T, L.
    destruct (56320 <=? first) eqn:C; cbn [negb andb]; [reflexivity|].
    destruct rest as [|second rest']; [reflexivity|].
    change (is_low_surrogate second) with (is_trailing second).
    destruct (is_trailing second) eqn:T2; cbn [negb]; [|reflexivity].
    cbn [cp_of_decoded]. rewrite combine_spec; [reflexivity | rewrite L; try rewrite C; reflexivity | exact T2].
  - destruct (not_surrogate_split _ S1) as [L T]. rewrite L, T. reflexivity.
Qed.

Lemma decode_head_only first second rest :
  match decode_utf16 (first :: second :: rest) with d :: _ => Some (cp_of_decoded d) | [] => None end =
  match decode_utf16 [first; second] with d :: _ => Some (cp_of_decoded d) | [] => None end.
Proof.
  cbn [decode_utf16]. destruct (negb (is_surrogate first)); [reflexivity|].
  destruct (56320 <=? first); [reflexivity|]. destruct (negb (is_low_surrogate second)); reflexivity.
Qed.

(* code_point_at only looks at the suffix starting at the position *)
Lemma spec_code_point_at_suffix u pos :
  spec_code_point_at u pos = spec_code_point_at (skipn pos u) 0.
Proof.
  unfold spec_code_point_at.
  destruct (nth_error u pos) as [first|] eqn:N1.
  - destruct (nth_error u (S pos)) as [second|] eqn:N2.
    + rewrite (skipn_nth_cons _ _ _ N1), (skipn_nth_cons _ _ _ N2). reflexivity.
    + rewrite (skipn_nth_cons _ _ _ N1). apply nth_error_None in N2. rewrite (skipn_all2 u N2). reflexivity.
  - apply nth_error_None in N1. rewrite (skipn_all2 u N1). reflexivity.
Qed.

Lemma code_point_at_spec r pos : wf r -> code_point_at r pos = spec_code_point_at (units r) pos.
Proof.
  intro W. unfold code_point_at. rewrite len_units.
  destruct (pos <? length (units r))%nat eqn:E; cbn [negb].
  2:{ apply Nat.ltb_ge in E. unfold spec_code_point_at.
      rewrite (proj2 (nth_error_None (units r) pos) E). reflexivity. }
  apply Nat.ltb_lt in E.
  destruct (nth_error (units r) pos) as [first|] eqn:N1; [|apply nth_error_None in N1; lia].
  destruct r as [v|v]; cbn [units] in *.
  - rewrite N1. unfold spec_code_point_at. rewrite N1.
    assert (first < 256) as Hb by (eapply (proj1 (Forall_forall _ _) W), nth_error_In, N1).
    pose proof (small_not_surrogate _ Hb) as S1. destruct (not_surrogate_split _ S1) as [L T].
    rewrite L, T. reflexivity.
  - pose proof (spec_code_point_at_suffix v pos) as Hspec.
    rewrite Hspec. rewrite (skipn_nth_cons _ _ _ N1). rewrite <- decode_pair_head.
    unfold slice_get_range, sub.
    destruct ((pos <=? pos + 1 + 1)%nat && (pos + 1 + 1 <=? length v)%nat) eqn:G.
    + apply andb_true_iff in G. destruct G as [_ G]. apply Nat.leb_le in G.
      destruct (nth_error v (S pos)) as [second|] eqn:N2; [|apply nth_error_None in N2; lia].
      replace (pos + 1 + 1 - pos)%nat with 2%nat by lia.
      rewrite (skipn_nth_cons _ _ _ N1), (skipn_nth_cons _ _ _ N2). cbn [firstn].
      symmetry. apply decode_head_only.
    + replace (pos + 1 - pos)%nat with 1%nat by lia.
      rewrite (skipn_nth_cons _ _ _ N1). cbn [firstn].
      assert (length v <= S pos)%nat as Hl.
      { apply andb_false_iff in G. destruct G as [G|G]; [apply Nat.leb_gt in G | apply Nat.leb_gt in G]; lia. }
      rewrite (skipn_all2 v Hl). reflexivity.
Qed.

(* ------------------------------------------------------------------------------------------- *)
(* code_points                                                                                   *)

Lemma spec_cps_nil f : spec_code_points_fuel f [] = [].
Proof. destruct f; reflexivity. Qed.

Lemma decode_cps v : Forall (fun u => u < 65536) v ->
  forall fuel, (length v <= fuel)%nat ->
  spec_code_points_fuel fuel v = map cp_of_decoded (decode_utf16 v).
Proof.
  intros W fuel. revert v W. induction fuel as [|f IH]; intros v W Hl.
  - destruct v; [reflexivity | cbn in Hl; lia].
  - destruct v as [|u t]; [reflexivity|].
    inversion W as [|? ? Wu Wt]; subst.
    cbn [spec_code_points_fuel]. rewrite <- decode_pair_head.
    cbn [decode_utf16]. cbn [length] in Hl.
    destruct (is_surrogate u) eqn:S1; cbn [negb].
    + destruct (56320 <=? u) eqn:C.
      * cbn [cp_of_decoded map skipn]. f_equal. apply IH; [exact Wt | lia].
      * destruct t as [|u2 t2].
        -- cbn [cp_of_decoded map skipn]. rewrite spec_cps_nil. reflexivity.
        -- destruct (is_low_surrogate u2) eqn:T2; cbn [negb].
           ++ cbn [cp_of_decoded map]. destruct (surrogate_split _ S1) as [_ L].
              rewrite combine_spec; [| rewrite L; try rewrite C; reflexivity | exact T2].
              rewrite combine_big; [| rewrite L; try rewrite C; reflexivity | exact T2].
              cbn [skipn]. f_equal. inversion Wt; subst. apply IH; [assumption | cbn [length] in Hl; lia].
           ++ cbn [cp_of_decoded map skipn]. f_equal. apply IH; [exact Wt | lia].
    + cbn [cp_of_decoded map]. apply N.ltb_lt in Wu. rewrite Wu. cbn [skipn]. f_equal.
      apply IH; [exact Wt | lia].
Qed.

Lemma decode_small v : Forall (fun b => b < 256) v -> decode_utf16 v = map inl v.
Proof.
  induction 1 as [|b v Hb Hv IH]; [reflexivity|].
  cbn [decode_utf16 map]. rewrite (small_not_surrogate _ Hb). cbn [negb]. rewrite IH. reflexivity.
Qed.

Lemma small_is_u16 v : Forall (fun b => b < 256) v -> Forall (fun u => u < 65536) v.
Proof. apply Forall_impl. intros; lia. Qed.

Lemma code_points_spec r : wf r -> code_points r = spec_code_points (units r).
Proof.
  intro W. unfold spec_code_points. destruct r as [v|v]; cbn [code_points units wf] in *.
  - rewrite (decode_cps v (small_is_u16 v W) (length v) (le_n _)), (decode_small v W), map_map. reflexivity.
  - rewrite (decode_cps v W (length v) (le_n _)). reflexivity.
Qed.

Lemma contains_spec r b : contains r b = spec_contains (units r) b.
Proof. destruct r; reflexivity. Qed.

(* ------------------------------------------------------------------------------------------- *)
(* to_std_string                                                                                 *)

Lemma collect_all l : collect_ok l = all_unicode (map cp_of_decoded l).
Proof.
  induction l as [|[c|s] l IH]; [reflexivity| |reflexivity].
  cbn [collect_ok map cp_of_decoded all_unicode]. rewrite IH. reflexivity.
Qed.

Lemma all_unicode_map v : all_unicode (map (fun b => Unicode (char_from_u8 b)) v) = Some (map char_from_u8 v).
Proof.
  induction v as [|b v IH]; [reflexivity|]. cbn [map all_unicode]. rewrite IH. reflexivity.
Qed.

Lemma to_std_string_spec r : wf r -> to_std_string r = spec_to_std_string (units r).
Proof.
  intro W. unfold spec_to_std_string. rewrite <- (code_points_spec r W).
  destruct r as [v|v]; cbn [to_std_string code_points].
  - symmetry. apply all_unicode_map.
  - apply collect_all.
Qed.

Lemma to_std_string_lossy_units r1 r2 : units r1 = units r2 -> to_std_string_lossy r1 = to_std_string_lossy r2.
Proof. intro H. unfold to_std_string_lossy. rewrite !iter_units, H. reflexivity. Qed.

(* ------------------------------------------------------------------------------------------- *)
(* whitespace                                                                                    *)

Lemma ws_valid c : is_trimmable_whitespace c = true -> valid_scalar c = true.
Proof.
  unfold is_trimmable_whitespace. intro H.
  repeat match goal with
         | H : _ || _ = true |- _ => apply orb_true_iff in H; destruct H as [H|H]
         end;
    try (apply N.eqb_eq in H; subst c; reflexivity).
  apply andb_true_iff in H. destruct H as [H1 H2]. apply N.leb_le in H1, H2.
  unfold valid_scalar, is_surrogate. nb.
Qed.

Lemma ws_latin1_agree c : c < 256 -> is_trimmable_whitespace_latin1 c = is_trimmable_whitespace c.
Proof.
  intro H. unfold is_trimmable_whitespace_latin1, is_trimmable_whitespace.
  rewrite (proj2 (N.eqb_neq c 65279)) by lia. rewrite (proj2 (N.eqb_neq c 5760)) by lia.
  rewrite (proj2 (N.leb_gt 8192 c)) by lia. rewrite (proj2 (N.eqb_neq c 8239)) by lia.
  rewrite (proj2 (N.eqb_neq c 8287)) by lia. rewrite (proj2 (N.eqb_neq c 12288)) by lia.
  rewrite (proj2 (N.eqb_neq c 8232)) by lia. rewrite (proj2 (N.eqb_neq c 8233)) by lia.
  cbn [andb]. rewrite !orb_false_r. reflexivity.
Qed.

Definition nws (x : N) : bool := negb (spec_ws x).

Lemma not_ws_u16_spec c : not_ws_u16 c = nws c.
Proof.
  unfold not_ws_u16, nws, spec_ws, char_from_u32, u32_from_u16.
  destruct (valid_scalar c) eqn:V; [reflexivity|].
  destruct (is_trimmable_whitespace c) eqn:Wc; [apply ws_valid in Wc; congruence | reflexivity].
Qed.

Lemma not_ws_latin1_spec c : c < 256 -> not_ws_latin1 c = nws c.
Proof. intro H. unfold not_ws_latin1, nws, spec_ws. rewrite (ws_latin1_agree c H). reflexivity. Qed.

Lemma position_ext_in {A} (P : A -> Prop) (p q : A -> bool) l :
  Forall P l -> (forall x, P x -> p x = q x) -> position p l = position q l.
Proof.
  intros F H. induction F as [|x l Hx Hl IH]; [reflexivity|]. cbn [position]. rewrite (H x Hx), IH. reflexivity.
Qed.
Lemma rposition_ext_in {A} (P : A -> Prop) (p q : A -> bool) l :
  Forall P l -> (forall x, P x -> p x = q x) -> rposition p l = rposition q l.
Proof.
  intros F H. induction F as [|x l Hx Hl IH]; [reflexivity|]. cbn [rposition]. rewrite (H x Hx), IH. reflexivity.
Qed.

(* ------------------------------------------------------------------------------------------- *)
(* trimming on plain lists                                                                       *)

Lemma position_drop v :
  match position nws v with
  | Some s => drop_ws v = skipn s v /\ exists y rest, skipn s v = y :: rest /\ nws y = true
  | None => drop_ws v = []
  end.
Proof.
  induction v as [|x t IH]; [reflexivity|]. cbn [position drop_ws]. unfold nws at 1.
  destruct (spec_ws x) eqn:Wx; cbn [negb].
  - destruct (position nws t) as [s|]; cbn [option_map skipn]; exact IH.
  - cbn [skipn]. split; [reflexivity|]. exists x, t. split; [reflexivity|]. unfold nws. rewrite Wx. reflexivity.
Qed.

Lemma L_trim_start v : match position nws v with None => [] | Some s => skipn s v end = drop_ws v.
Proof. pose proof (position_drop v) as H. destruct (position nws v); [destruct H as [H _]|]; symmetry; exact H. Qed.

Lemma drop_ws_app a b : drop_ws (a ++ b) = match drop_ws a with [] => drop_ws b | _ :: _ => drop_ws a ++ b end.
Proof.
  induction a as [|x a IH]; [reflexivity|]. cbn [app drop_ws].
  destruct (spec_ws x); [exact IH | reflexivity].
Qed.

Lemma rposition_nonempty {A} (p : A -> bool) l e : rposition p l = Some e -> l <> [].
Proof. destruct l; [discriminate | discriminate]. Qed.

Lemma L_trim_end v :
  match rposition nws v with Some e => firstn (S e) v | None => [] end = rev (drop_ws (rev v)).
Proof.
  induction v as [|x t IH]; [reflexivity|].
  cbn [rposition rev]. rewrite drop_ws_app.
  destruct (rposition nws t) as [e|] eqn:R.
  - change (firstn (S (S e)) (x :: t)) with (x :: firstn (S e) t). rewrite IH.
    assert (Hne : drop_ws (rev t) <> []).
    { intro Z. rewrite Z in IH. cbn [rev] in IH. pose proof (rposition_nonempty _ _ _ R) as Hn.
      destruct t; [congruence | discriminate]. }
    destruct (drop_ws (rev t)) as [|d ds] eqn:D; [congruence|].
    rewrite rev_app_distr. reflexivity.
  - assert (Z : drop_ws (rev t) = []).
    { apply (f_equal (@rev N)) in IH. rewrite rev_involutive in IH. symmetry. exact IH. }
    rewrite Z. cbn [drop_ws]. unfold nws. destruct (spec_ws x); reflexivity.
Qed.

Lemma rposition_app {A} (p : A -> bool) a b :
  rposition p (a ++ b) = match rposition p b with Some i => Some (length a + i)%nat | None => rposition p a end.
Proof.
  induction a as [|x a IH]; cbn [app rposition length].
  - destruct (rposition p b); reflexivity.
  - rewrite IH. destruct (rposition p b); [reflexivity|]. reflexivity.
Qed.

Lemma rposition_firstn_none {A} (p : A -> bool) v s : position p v = Some s -> rposition p (firstn s v) = None.
Proof.
  revert s; induction v as [|x t IH]; intro s; [discriminate|]. cbn [position].
  destruct (p x) eqn:Px.
  - intro H. injection H as <-. reflexivity.
  - destruct (position p t) as [s'|]; cbn [option_map]; [|discriminate]. intro H. injection H as <-.
    cbn [firstn rposition]. rewrite (IH s' eq_refl), Px. reflexivity.
Qed.

Lemma rposition_head {A} (p : A -> bool) y rest : p y = true -> rposition p (y :: rest) <> None.
Proof. intro H. cbn [rposition]. destruct (rposition p rest); [discriminate | rewrite H; discriminate]. Qed.

Lemma L_trim v :
  match position nws v with
  | None => []
  | Some s => sub v s ((match rposition nws v with Some e => e | None => s end) + 1)
  end = spec_trim v.
Proof.
  unfold spec_trim, spec_trim_end, spec_trim_start.
  pose proof (position_drop v) as PD. pose proof (rposition_firstn_none nws v) as RF.
  destruct (position nws v) as [s|].
  - destruct PD as [D (y & rest & Sk & Py)]. specialize (RF s eq_refl).
    rewrite D. rewrite <- L_trim_end.
    assert (RV : rposition nws v =
                 match rposition nws (skipn s v) with Some i => Some (length (firstn s v) + i)%nat | None => None end).
    { rewrite <- (firstn_skipn s v) at 1. rewrite rposition_app, RF. reflexivity. }
    rewrite RV. clear RV.
    pose proof (rposition_head nws y rest Py) as NN. rewrite <- Sk in NN.
    destruct (rposition nws (skipn s v)) as [i|]; [|congruence].
    unfold sub. f_equal.
    assert (length (firstn s v) = s) as Hl.
    { apply firstn_length_le. assert (length (skipn s v) <> 0)%nat by (rewrite Sk; discriminate).
      rewrite skipn_length in H. lia. }
    rewrite Hl. lia.
  - rewrite PD. reflexivity.
Qed.

(* ------------------------------------------------------------------------------------------- *)
(* trim / trim_start / trim_end on representations                                               *)

Lemma positions_latin1 v : Forall (fun b => b < 256) v ->
  position not_ws_latin1 v = position nws v /\ rposition not_ws_latin1 v = rposition nws v.
Proof.
  intro W. split; [eapply position_ext_in | eapply rposition_ext_in]; try exact W; exact not_ws_latin1_spec.
Qed.
Lemma positions_u16 v :
  position not_ws_u16 v = position nws v /\ rposition not_ws_u16 v = rposition nws v.
Proof.
  split; [eapply (position_ext_in (fun _ => True)) | eapply (rposition_ext_in (fun _ => True))];
    try (intros; apply not_ws_u16_spec); apply Forall_forall; intros; exact I.
Qed.

Lemma trim_start_spec r : wf r -> units (trim_start r) = spec_trim_start (units r).
Proof.
  intro W. unfold spec_trim_start. rewrite <- L_trim_start. unfold trim_start.
  destruct r as [v|v]; cbn [units wf len] in *.
  - destruct (positions_latin1 v W) as [-> _]. destruct (position nws v) as [s|]; [|reflexivity].
    cbn [slice_unchecked units]. unfold sub. apply firstn_all2. rewrite skipn_length. lia.
  - destruct (positions_u16 v) as [-> _]. destruct (position nws v) as [s|]; [|reflexivity].
    cbn [slice_unchecked units]. unfold sub. apply firstn_all2. rewrite skipn_length. lia.
Qed.

Lemma trim_end_spec r : wf r -> units (trim_end r) = spec_trim_end (units r).
Proof.
  intro W. unfold spec_trim_end. rewrite <- L_trim_end. unfold trim_end.
  destruct r as [v|v]; cbn [units wf len] in *.
  - destruct (positions_latin1 v W) as [_ ->]. destruct (rposition nws v) as [e|]; [|reflexivity].
    cbn [slice_unchecked units]. unfold sub. rewrite Nat.sub_0_r, Nat.add_1_r. reflexivity.
  - destruct (positions_u16 v) as [_ ->]. destruct (rposition nws v) as [e|]; [|reflexivity].
    cbn [slice_unchecked units]. unfold sub. rewrite Nat.sub_0_r, Nat.add_1_r. reflexivity.
Qed.

Lemma trim_spec r : wf r -> units (trim r) = spec_trim (units r).
Proof.
  intro W. rewrite <- L_trim. unfold trim.
  destruct r as [v|v]; cbn [units wf len] in *.
  - destruct (positions_latin1 v W) as [-> ->]. destruct (position nws v) as [s|]; reflexivity.
  - destruct (positions_u16 v) as [-> ->]. destruct (position nws v) as [s|]; reflexivity.
Qed.

(* the trimmed string keeps the buffer kind of its source, or is the (Latin-1) empty constant *)
Lemma slice_unchecked_variant r s e : is_latin1 (slice_unchecked r s e) = is_latin1 r.
Proof. destruct r; reflexivity. Qed.
Lemma wf_slice_unchecked r s e : wf r -> wf (slice_unchecked r s e).
Proof. destruct r; cbn [wf slice_unchecked]; apply Forall_sub. Qed.
Lemma wf_EMPTY : wf EMPTY.
Proof. constructor. Qed.

Lemma wf_trim r : wf r -> wf (trim r) /\ wf (trim_start r) /\ wf (trim_end r).
Proof.
  intro W. unfold trim, trim_start, trim_end. repeat split.
  - destruct (match r with Latin1 v => _ | Utf16 v => _ end) as [[s e]|]; [apply wf_slice_unchecked, W | apply wf_EMPTY].
  - destruct (match r with Latin1 v => _ | Utf16 v => _ end); [apply wf_slice_unchecked, W | apply wf_EMPTY].
  - destruct (match r with Latin1 v => _ | Utf16 v => _ end); [apply wf_slice_unchecked, W | apply wf_EMPTY].
Qed.

(* ------------------------------------------------------------------------------------------- *)
(* slice / get                                                                                   *)

Lemma units_slice_unchecked r s e : units (slice_unchecked r s e) = sub (units r) s e.
Proof. destruct r; reflexivity. Qed.

Lemma slice_spec r p1 p2 : units (slice r p1 p2) = spec_slice (units r) p1 p2.
Proof.
  unfold slice, spec_slice. rewrite len_units.
  set (n := length (units r)).
  assert ((if (n <? p2)%nat then n else p2) = Nat.min p2 n) as ->.
  { destruct (n <? p2)%nat eqn:E; [apply Nat.ltb_lt in E | apply Nat.ltb_ge in E]; lia. }
  destruct (Nat.min p2 n <=? p1)%nat eqn:E.
  - apply Nat.leb_le in E. replace (Nat.min p2 n - p1)%nat with 0%nat by lia. reflexivity.
  - rewrite units_slice_unchecked. reflexivity.
Qed.

Lemma wf_slice r p1 p2 : wf r -> wf (slice r p1 p2).
Proof.
  intro W. unfold slice. destruct (_ <=? p1)%nat; [apply wf_EMPTY | apply wf_slice_unchecked, W].
Qed.

Lemma string_get_spec r s e : option_map units (string_get r s e) = spec_get_range (units r) s e.
Proof.
  unfold string_get, spec_get_range. rewrite len_units.
  destruct (length (units r) <? e)%nat eqn:A; destruct (e <? s)%nat eqn:B; cbn [orb];
    try apply Nat.ltb_lt in A; try apply Nat.ltb_lt in B; try apply Nat.ltb_ge in A; try apply Nat.ltb_ge in B.
  - replace (s <=? e)%nat with false by (symmetry; apply Nat.leb_gt; lia). reflexivity.
  - replace (e <=? length (units r))%nat with false by (symmetry; apply Nat.leb_gt; lia).
    rewrite andb_false_r. reflexivity.
  - replace (s <=? e)%nat with false by (symmetry; apply Nat.leb_gt; lia). reflexivity.
  - replace (s <=? e)%nat with true by (symmetry; apply Nat.leb_le; lia).
    replace (e <=? length (units r))%nat with true by (symmetry; apply Nat.leb_le; lia).
    cbn [andb option_map]. rewrite units_slice_unchecked. reflexivity.
Qed.

(* ------------------------------------------------------------------------------------------- *)
(* static-table canonicalisation, concat, From<&[u16]>, From<&str>                               *)

Lemma get_string_units table s c : get_string table s = Some c -> units c = units s /\ is_latin1 c = true.
Proof.
  induction table as [|t rest IH]; cbn [get_string]; [discriminate|].
  destruct (eq (Latin1 t) s) eqn:E.
  - intro H. injection H as <-. rewrite eq_spec in E. apply list_eqb_eq in E. split; [exact E | reflexivity].
  - exact IH.
Qed.

Lemma from_js_str_units table s : units (from_js_str table s) = units s.
Proof.
  unfold from_js_str. destruct (get_string table s) as [c|] eqn:G; [|reflexivity].
  apply get_string_units in G. apply G.
Qed.

Lemma get_string_in table s c : get_string table s = Some c -> exists t, In t table /\ c = Latin1 t.
Proof.
  induction table as [|t rest IH]; cbn [get_string]; [discriminate|].
  destruct (eq (Latin1 t) s).
  - intro H. injection H as <-. exists t. split; [left; reflexivity | reflexivity].
  - intro H. destruct (IH H) as (t' & I & E). exists t'. split; [right; exact I | exact E].
Qed.

(* RAW_STATICS holds byte strings *)
Definition table_wf (table : list (list N)) : Prop := Forall (fun t => Forall (fun b => b < 256) t) table.

Lemma from_js_str_wf table s : table_wf table -> wf s -> wf (from_js_str table s).
Proof.
  intros T W. unfold from_js_str. destruct (get_string table s) as [c|] eqn:G; [|exact W].
  apply get_string_in in G. destruct G as (t & I & ->). cbn [wf].
  exact (proj1 (Forall_forall _ _) T t I).
Qed.

Lemma from_u16s_units table s : units (from_u16s table s) = s.
Proof. apply from_js_str_units. Qed.

Lemma concat_raw_units rs : units (concat_array_raw rs) = flat_map units rs.
Proof.
  unfold concat_array_raw. destruct (forallb is_latin1 rs) eqn:A; cbn [units].
  - induction rs as [|r rs IH]; [reflexivity|]. cbn [forallb] in A. apply andb_true_iff in A.
    destruct A as [A1 A2]. cbn [flat_map]. rewrite (IH A2). destruct r; [reflexivity | discriminate].
  - clear A. induction rs as [|r rs IH]; [reflexivity|]. cbn [flat_map]. rewrite IH.
    destruct r; cbn [units]; rewrite ?map_u16_from_u8; reflexivity.
Qed.

Lemma concat_array_units table rs : units (concat_array table rs) = flat_map units rs.
Proof.
  unfold concat_array. destruct (get_string table _) as [c|] eqn:G.
  - apply get_string_units in G. destruct G as [-> _]. apply concat_raw_units.
  - apply concat_raw_units.
Qed.

Lemma concat_units table x y : units (concat table x y) = units x ++ units y.
Proof. unfold concat. rewrite concat_array_units. cbn [flat_map]. rewrite app_nil_r. reflexivity. Qed.

Lemma concat_raw_latin1 rs : is_latin1 (concat_array_raw rs) = forallb is_latin1 rs.
Proof. unfold concat_array_raw. destruct (forallb is_latin1 rs); reflexivity. Qed.

Lemma wf_concat_raw rs : Forall wf rs -> wf (concat_array_raw rs).
Proof.
  intro W. unfold concat_array_raw. destruct (forallb is_latin1 rs) eqn:A; cbn [wf].
  - induction W as [|r rs Wr Wrs IH]; [constructor|]. cbn [forallb] in A. apply andb_true_iff in A.
    destruct A as [A1 A2]. cbn [flat_map]. apply Forall_app. split; [|apply IH, A2].
    destruct r; [exact Wr | discriminate].
  - clear A. induction W as [|r rs Wr Wrs IH]; [constructor|]. cbn [flat_map]. apply Forall_app. split; [|exact IH].
    destruct r; cbn [wf] in Wr; rewrite ?map_u16_from_u8; [apply small_is_u16, Wr | exact Wr].
Qed.

Lemma ascii_utf8 s : forallb (fun c => c <? 128) s = true -> as_bytes s = s.
Proof.
  induction s as [|c s IH]; [reflexivity|]. cbn [forallb]. intro H. apply andb_true_iff in H. destruct H as [H1 H2].
  unfold as_bytes in *. cbn [flat_map]. rewrite (IH H2). unfold encode_utf8_char. rewrite H1. reflexivity.
Qed.

Lemma bmp_utf16 s : forallb (fun c => c <? 65536) s = true -> encode_utf16 s = s.
Proof.
  induction s as [|c s IH]; [reflexivity|]. cbn [forallb]. intro H. apply andb_true_iff in H. destruct H as [H1 H2].
  unfold encode_utf16 in *. cbn [flat_map]. rewrite (IH H2). unfold encode_utf16_char. rewrite H1. reflexivity.
Qed.

Lemma forallb_impl {A} (p q : A -> bool) l : (forall x, p x = true -> q x = true) -> forallb p l = true -> forallb q l = true.
Proof.
  intros H. induction l as [|x l IH]; [reflexivity|]. cbn [forallb]. intro E. apply andb_true_iff in E.
  destruct E as [E1 E2]. rewrite (H x E1), (IH E2). reflexivity.
Qed.

Lemma from_str_units table s : units (from_str table s) = encode_utf16 s.
Proof.
  unfold from_str. destruct (forallb (fun c => c <? 128) s) eqn:A.
  - rewrite from_js_str_units. cbn [units]. rewrite (ascii_utf8 s A). symmetry. apply bmp_utf16.
    revert A. apply forallb_impl. intros x H. apply N.ltb_lt in H. apply N.ltb_lt. lia.
  - destruct (forallb (fun c => c <=? 255) s) eqn:B; [|reflexivity].
    rewrite from_js_str_units. cbn [units]. rewrite map_id. symmetry. apply bmp_utf16.
    revert B. apply forallb_impl. intros x H. apply N.leb_le in H. apply N.ltb_lt. lia.
Qed.

(* From<&str> picks Latin-1 exactly when every scalar value is <= 0xFF (ignoring a static-table hit) *)
Lemma from_str_latin1 s : is_latin1 (from_str [] s) = forallb (fun c => c <=? 255) s.
Proof.
  unfold from_str, from_js_str. cbn [get_string]. destruct (forallb (fun c => c <? 128) s) eqn:A.
  - cbn [is_latin1]. symmetry. revert A. apply forallb_impl. intros x H. apply N.ltb_lt in H. apply N.leb_le. lia.
  - destruct (forallb (fun c => c <=? 255) s); reflexivity.
Qed.

(* ------------------------------------------------------------------------------------------- *)
(* comparison with a Rust str                                                                    *)

Lemma eq_str_spec r s : eq_str r s = spec_eq_str (units r) s.
Proof. unfold eq_str, spec_eq_str. rewrite iter_units. apply iter_eq_spec. Qed.

Lemma eq_str_repr_indep r1 r2 s : units r1 = units r2 -> eq_str r1 s = eq_str r2 s.
Proof. intro H. rewrite !eq_str_spec, H. reflexivity. Qed.

(* the code on the unpatched tree *)
Lemma eq_str_old_latin1_refuted :
  exists r s, wf r /\ valid_str s /\ eq_str_old r s <> spec_eq_str (units r) s.
Proof.
  exists (Latin1 [233]), [233]. split; [repeat constructor|]. split; [repeat constructor|]. vm_compute. discriminate.
Qed.

Lemma eq_str_old_latin1_refuted_false_positive :
  exists r s, wf r /\ valid_str s /\ eq_str_old r s = true /\ spec_eq_str (units r) s = false.
Proof.
  exists (Latin1 [195; 169]), [233]. split; [repeat constructor|]. split; [repeat constructor|]. vm_compute. split; reflexivity.
Qed.

Lemma eq_str_old_utf16_refuted :
  exists r s, wf r /\ valid_str s /\ eq_str_old r s = true /\ spec_eq_str (units r) s = false.
Proof.
  exists (Utf16 [97; 98; 960]), [97; 98]. split; [repeat constructor|]. split; [repeat constructor|]. vm_compute. split; reflexivity.
Qed.

Lemma eq_str_old_repr_dependent :
  exists r1 r2 s, wf r1 /\ wf r2 /\ valid_str s /\ units r1 = units r2 /\ eq_str_old r1 s <> eq_str_old r2 s.
Proof.
  exists (Latin1 [233]), (Utf16 [233]), [233]. repeat split; try (repeat constructor). vm_compute. discriminate.
Qed.

(* outside the two known classes the old code is right *)
Definition known_eq_str_class (r : repr) (s : list N) : Prop :=
  (is_latin1 r = true /\ forallb (fun c => c <? 128) s = false) \/
  (is_latin1 r = false /\ len r <> length (encode_utf16 s)).

Lemma eq_str_old_except_known r s : ~ known_eq_str_class r s -> eq_str_old r s = spec_eq_str (units r) s.
Proof.
  intro K. unfold spec_eq_str. destruct r as [v|v]; cbn [eq_str_old units].
  - destruct (forallb (fun c => c <? 128) s) eqn:A.
    + rewrite (ascii_utf8 s A), slice_eq_spec. f_equal. symmetry. apply bmp_utf16.
      revert A. apply forallb_impl. intros x H. apply N.ltb_lt in H. apply N.ltb_lt. lia.
    + exfalso. apply K. left. split; [reflexivity | exact A].
  - destruct (Nat.eq_dec (length v) (length (encode_utf16 s))) as [E|E].
    + rewrite zip_all_eq_same_len by (symmetry; exact E). apply list_eqb_sym.
    + exfalso. apply K. right. split; [reflexivity | exact E].
Qed.

(* ------------------------------------------------------------------------------------------- *)
(* builders                                                                                      *)

Lemma build_inner_latin1_units b : units (build_inner_latin1 b) = b.
Proof. destruct b; reflexivity. Qed.
Lemma build_inner_utf16_units b : units (build_inner_utf16 b) = b.
Proof. destruct b; reflexivity. Qed.

Lemma latin1_builder_build_spec b :
  latin1_builder_build b = if forallb (fun c => c <? 128) b then Some (build_inner_latin1 b) else None.
Proof. reflexivity. Qed.

Lemma builder_is_ascii_agree b : builder_latin1_is_ascii b = builder_utf16_is_ascii b.
Proof.
  unfold builder_latin1_is_ascii, builder_utf16_is_ascii. induction b as [|c b IH]; [reflexivity|].
  cbn [forallb]. rewrite IH. f_equal. nb.
Qed.

Lemma common_build_units segs : Forall seg_wf segs -> units (common_build segs) = flat_map seg_units segs.
Proof.
  intro W. unfold common_build. destruct segs as [|s0 segs0] eqn:Es; [reflexivity|]. rewrite <- Es in *. clear Es s0 segs0.
  destruct (forallb seg_can_be_latin1 segs) eqn:A.
  - unfold common_build_as_latin1. rewrite build_inner_latin1_units.
    induction W as [|s segs Ws Wsegs IH]; [reflexivity|]. cbn [forallb] in A. apply andb_true_iff in A.
    destruct A as [A1 A2]. cbn [flat_map]. rewrite (IH A2). f_equal.
    destruct s as [r|b|ch]; cbn [seg_units seg_can_be_latin1] in *.
    + destruct r; [reflexivity | discriminate].
    + reflexivity.
    + apply N.leb_le in A1. unfold encode_utf16_char. replace (ch <? 65536) with true by (symmetry; apply N.ltb_lt; lia).
      rewrite N.mod_small by lia. reflexivity.
  - unfold common_build_from_utf16. rewrite build_inner_utf16_units. clear A.
    induction W as [|s segs Ws Wsegs IH]; [reflexivity|]. cbn [flat_map]. rewrite IH. f_equal.
    destruct s as [r|b|ch]; cbn [seg_units]; [|reflexivity|reflexivity].
    destruct r; cbn [units]; rewrite ?map_u16_from_u8; reflexivity.
Qed.
