(* C11 lemmas: every representation-specialised arm of Model_C11 computes the plain code-unit
   operation (the spec_ functions) on `units`.  All statements are for lists of arbitrary length. *)
From Coq Require Import NArith List Bool Arith Lia.
From C11 Require Import Model_C11.
Import ListNotations.
Local Open Scope N_scope.

(* ------------------------------------------------------------------------------------------- *)
(* std building blocks                                                                           *)

Lemma map_u16_from_u8 v : map u16_from_u8 v = v.
Proof. unfold u16_from_u8. apply map_id. Qed.

Lemma iter_units r : iter r = units r.
Proof. destruct r; cbn [iter units]; [apply map_u16_from_u8 | reflexivity]. Qed.

Lemma len_units r : len r = length (units r).
Proof. destruct r; reflexivity. Qed.

Lemma list_eqb_eq a b : list_eqb a b = true <-> a = b.
Proof.
  revert b; induction a as [|x a IH]; destruct b as [|y b]; cbn [list_eqb]; split; intro H;
    try reflexivity; try discriminate.
  - apply andb_true_iff in H. destruct H as [H1 H2]. apply N.eqb_eq in H1. apply IH in H2. congruence.
  - injection H as -> ->. rewrite N.eqb_refl. cbn. apply IH. reflexivity.
Qed.

Lemma list_eqb_refl a : list_eqb a a = true.
Proof. apply list_eqb_eq. reflexivity. Qed.

Lemma list_eqb_sym a b : list_eqb a b = list_eqb b a.
Proof.
  apply eq_iff_eq_true. rewrite !list_eqb_eq. split; congruence.
Qed.

Lemma list_eqb_length a b : list_eqb a b = true -> length a = length b.
Proof. intro H. apply list_eqb_eq in H. congruence. Qed.

Lemma slice_eq_spec a b : slice_eq a b = list_eqb a b.
Proof.
  unfold slice_eq. revert b; induction a as [|x a IH]; destruct b as [|y b]; try reflexivity.
  cbn [length Nat.eqb zip_all_eq list_eqb]. destruct (x =? y); cbn [andb].
  - apply IH.
  - destruct (negb (Nat.eqb (length a) (length b))); reflexivity.
Qed.

Lemma zip_all_eq_same_len a b : length a = length b -> zip_all_eq a b = list_eqb a b.
Proof.
  intro H. rewrite <- slice_eq_spec. unfold slice_eq. rewrite H, Nat.eqb_refl. reflexivity.
Qed.

Lemma len_zip_spec a b :
  (if negb (Nat.eqb (length a) (length b)) then false else zip_all_eq a b) = list_eqb a b.
Proof. exact (slice_eq_spec a b). Qed.

Lemma iter_eq_spec a b : iter_eq a b = list_eqb a b.
Proof.
  revert b; induction a as [|x a IH]; destruct b as [|y b]; try reflexivity.
  all: cbn [iter_eq list_eqb]; destruct (x =? y); cbn [andb]; [apply IH | reflexivity].
Qed.

Lemma iter_cmp_spec a b : iter_cmp a b = lex_cmp a b.
Proof.
  revert b; induction a as [|x a IH]; destruct b as [|y b]; try reflexivity.
  all: cbn [iter_cmp lex_cmp]; destruct (x ?= y); [apply IH | reflexivity | reflexivity].
Qed.

Lemma slice_cmp_spec a b : slice_cmp a b = lex_cmp a b.
Proof.
  unfold slice_cmp. revert b; induction a as [|x a IH]; destruct b as [|y b]; try reflexivity.
  cbn [length Nat.min firstn first_diff lex_cmp Nat.compare].
  destruct (x ?= y); [apply IH | reflexivity | reflexivity].
Qed.

(* ------------------------------------------------------------------------------------------- *)
(* the lexicographic order is a total order consistent with equality                            *)

Lemma lex_cmp_eq a b : lex_cmp a b = Eq <-> a = b.
Proof.
  revert b; induction a as [|x a IH]; destruct b as [|y b]; cbn [lex_cmp]; split; intro H;
    try reflexivity; try discriminate.
  - destruct (x ?= y) eqn:E; try discriminate. apply N.compare_eq in E. apply IH in H. congruence.
  - injection H as -> ->. rewrite N.compare_refl. apply IH. reflexivity.
Qed.

Lemma lex_cmp_antisym a b : lex_cmp b a = CompOpp (lex_cmp a b).
Proof.
  revert b; induction a as [|x a IH]; destruct b as [|y b]; try reflexivity.
  cbn [lex_cmp]. rewrite (N.compare_antisym x y).
  destruct (x ?= y); cbn [CompOpp]; [apply IH | reflexivity | reflexivity].
Qed.

Lemma lex_cmp_trans a b c : lex_cmp a b = Lt -> lex_cmp b c = Lt -> lex_cmp a c = Lt.
Proof.
  revert b c; induction a as [|x a IH]; intros [|y b] [|z c]; cbn [lex_cmp]; try discriminate; try reflexivity.
  destruct (x ?= y) eqn:E1; destruct (y ?= z) eqn:E2; try discriminate; intros H1 H2.
  - apply N.compare_eq in E1, E2. subst. rewrite N.compare_refl. eapply IH; eassumption.
  - apply N.compare_eq in E1. subst. rewrite E2. reflexivity.
  - apply N.compare_eq in E2. subst. rewrite E1. reflexivity.
  - rewrite N.compare_lt_iff in *. assert (x < z) as H by lia. apply N.compare_lt_iff in H. rewrite H. reflexivity.
Qed.

(* characterisation: Lt means proper prefix, or a first differing unit that is smaller *)
Lemma lex_cmp_lt_iff a b :
  lex_cmp a b = Lt <->
  (exists t, t <> [] /\ b = a ++ t) \/
  (exists p x y ta tb, a = p ++ x :: ta /\ b = p ++ y :: tb /\ x < y).
Proof.
  revert b; induction a as [|x a IH]; intros [|y b]; cbn [lex_cmp].
  - split; [discriminate|]. intros [(t & Ht & E)|(p & x & y & ta & tb & E & _)].
    + cbn in E. congruence.
    + destruct p; discriminate.
  - split; [|reflexivity]. intros _. left. exists (y :: b). split; [discriminate|reflexivity].
  - split; [discriminate|]. intros [(t & Ht & E)|(p & x' & y & ta & tb & _ & E & _)].
    + discriminate.
    + destruct p; discriminate.
  - destruct (x ?= y) eqn:E.
    + apply N.compare_eq in E. subst y. rewrite IH. split.
      * intros [(t & Ht & ->)|(p & x' & y & ta & tb & -> & -> & L)].
        -- left. exists t. split; [assumption|reflexivity].
        -- right. exists (x :: p), x', y, ta, tb. repeat split; assumption.
      * intros [(t & Ht & Eb)|(p & x' & y & ta & tb & Ea & Eb & L)].
        -- left. exists t. split; [assumption|]. cbn in Eb. congruence.
        -- destruct p as [|q p]; cbn in Ea, Eb.
           ++ injection Ea as -> ->. injection Eb as -> ->. lia.
           ++ injection Ea as -> ->. injection Eb as ->. right. exists p, x', y, ta, tb. repeat split; assumption.
    + split; [|reflexivity]. intros _. right. exists [], x, y, a, b. apply N.compare_lt_iff in E. repeat split; assumption.
    + split; [discriminate|]. apply N.compare_gt_iff in E.
      intros [(t & Ht & Eb)|(p & x' & y' & ta & tb & Ea & Eb & L)].
      * cbn in Eb. injection Eb as -> _. lia.
      * destruct p as [|q p]; cbn in Ea, Eb.
        -- injection Ea as -> ->. injection Eb as -> ->. lia.
        -- injection Ea as -> ->. injection Eb as -> _. lia.
Qed.

(* ------------------------------------------------------------------------------------------- *)
(* len / iter / to_vec / get / eq / cmp / hash                                                   *)

Lemma to_vec_spec r : to_vec r = units r.
Proof. destruct r; cbn [to_vec units]; [apply map_u16_from_u8 | reflexivity]. Qed.

Lemma get_spec r i : get r i = spec_get (units r) i.
Proof.
  destruct r; cbn [get units]; unfold spec_get; [|reflexivity].
  destruct (nth_error v i); reflexivity.
Qed.

Lemma eq_spec r1 r2 : eq r1 r2 = list_eqb (units r1) (units r2).
Proof.
  destruct r1 as [a|a], r2 as [b|b]; cbn [eq units];
    try apply slice_eq_spec; cbn [len iter]; rewrite ?map_u16_from_u8; apply len_zip_spec.
Qed.

Lemma u16s_eq_spec u r : u16s_eq u r = list_eqb u (units r).
Proof. unfold u16s_eq. rewrite len_units, iter_units. apply len_zip_spec. Qed.

Lemma cmp_spec r1 r2 : cmp r1 r2 = lex_cmp (units r1) (units r2).
Proof.
  destruct r1 as [a|a], r2 as [b|b]; cbn [cmp units];
    try apply slice_cmp_spec; cbn [iter]; rewrite ?map_u16_from_u8; apply iter_cmp_spec.
Qed.

Lemma hash_spec r : hash r = spec_hash (units r).
Proof. destruct r; reflexivity. Qed.

Lemma spec_hash_inj u v : spec_hash u = spec_hash v -> u = v.
Proof.
  unfold spec_hash. intro H. injection H as _ H.
  revert v H; induction u as [|x u IH]; destruct v as [|y v]; cbn [map]; intro H; try discriminate; try reflexivity.
  injection H as -> H. f_equal. apply IH. exact H.
Qed.

Lemma cmp_eq_iff r1 r2 : cmp r1 r2 = Eq <-> eq r1 r2 = true.
Proof. rewrite cmp_spec, eq_spec, lex_cmp_eq, list_eqb_eq. reflexivity. Qed.

(* ------------------------------------------------------------------------------------------- *)
(* ranges, starts_with, ends_with                                                                *)

Lemma get_range_spec r s e :
  option_map units (get_range r s e) = spec_get_range (units r) s e.
Proof.
  destruct r; cbn [get_range units]; unfold slice_get_range, spec_get_range, sub;
    destruct ((s <=? e)%nat && (e <=? length v)%nat); reflexivity.
Qed.

Lemma get_range_variant r s e p : get_range r s e = Some p -> is_latin1 p = is_latin1 r.
Proof.
  destruct r; cbn [get_range]; unfold slice_get_range;
    destruct ((s <=? e)%nat && (e <=? length v)%nat); cbn [option_map]; intro H; try discriminate;
    injection H as <-; reflexivity.
Qed.

Lemma prefixb_spec p u : prefixb p u = true <-> exists t, u = p ++ t.
Proof.
  revert u; induction p as [|x p IH]; intro u; cbn [prefixb].
  - split; [intros _; exists u; reflexivity | reflexivity].
  - destruct u as [|y u].
    + split; [discriminate | intros [t H]; discriminate].
    + rewrite andb_true_iff, N.eqb_eq, IH. split.
      * intros [-> [t ->]]. exists t. reflexivity.
      * intros [t H]. cbn in H. injection H as -> ->. split; [reflexivity | exists t; reflexivity].
Qed.

Lemma prefixb_firstn n u :
  (length n <=? length u)%nat && list_eqb n (firstn (length n) u) = prefixb n u.
Proof.
  revert u; induction n as [|x n IH]; intro u.
  - cbn. reflexivity.
  - destruct u as [|y u]; [reflexivity|].
    cbn [length firstn list_eqb prefixb]. change (S (length n) <=? S (length u))%nat with (length n <=? length u)%nat.
    rewrite <- IH. destruct (x =? y); cbn [andb]; [reflexivity | apply andb_false_r].
Qed.

Lemma starts_with_spec s n : starts_with s n = spec_starts_with (units s) (units n).
Proof.
  unfold starts_with, spec_starts_with. rewrite <- prefixb_firstn, !len_units.
  destruct (length (units n) <=? length (units s))%nat eqn:E; [|reflexivity]. cbn [andb].
  pose proof (get_range_spec s 0 (length (units n))) as G. unfold spec_get_range in G.
  rewrite E in G. cbn [Nat.leb andb] in G. rewrite Nat.sub_0_r in G. cbn [skipn] in G.
  destruct (get_range s 0 (length (units n))) as [p|]; cbn [option_map] in G; [|discriminate].
  injection G as G. rewrite eq_spec, G. reflexivity.
Qed.

Lemma starts_with_no_panic s n :
  (len n <=? len s)%nat = true -> get_range s 0 (len n) <> None.
Proof.
  intros H E. pose proof (get_range_spec s 0 (len n)) as G. rewrite E in G. cbn [option_map] in G.
  unfold spec_get_range in G. rewrite <- len_units, H in G. discriminate.
Qed.

Lemma list_eqb_rev a b : list_eqb (rev a) (rev b) = list_eqb a b.
Proof.
  apply eq_iff_eq_true. rewrite !list_eqb_eq. split; [|congruence].
  intro H. rewrite <- (rev_involutive a), <- (rev_involutive b), H. reflexivity.
Qed.

Lemma ends_with_list n u :
  (length n <=? length u)%nat && list_eqb n (skipn (length u - length n) u) = prefixb (rev n) (rev u).
Proof.
  apply eq_iff_eq_true. rewrite andb_true_iff, Nat.leb_le, list_eqb_eq, prefixb_spec. split.
  - intros [L E]. remember (length u - length n)%nat as k eqn:Hk. clear Hk.
    exists (rev (firstn k u)). rewrite <- (firstn_skipn k u) at 1.
    rewrite rev_app_distr, <- E. reflexivity.
  - intros [t H]. apply (f_equal (@rev N)) in H. rewrite rev_involutive, rev_app_distr, rev_involutive in H.
    subst u. rewrite app_length. split; [lia|].
    replace (length (rev t) + length n - length n)%nat with (length (rev t)) by lia.
    rewrite skipn_app, skipn_all, Nat.sub_diag. reflexivity.
Qed.

Lemma ends_with_spec s n : ends_with s n = spec_ends_with (units s) (units n).
Proof.
  unfold ends_with, spec_ends_with. rewrite <- ends_with_list, !len_units.
  destruct (length (units n) <=? length (units s))%nat eqn:E; [|reflexivity]. cbn [andb].
  apply Nat.leb_le in E.
  pose proof (get_range_spec s (length (units s) - length (units n)) (length (units s))) as G.
  unfold spec_get_range in G.
  replace ((length (units s) - length (units n) <=? length (units s))%nat) with true in G
    by (symmetry; apply Nat.leb_le; lia).
  rewrite Nat.leb_refl in G. cbn [andb] in G.
  destruct (get_range s _ _) as [p|]; cbn [option_map] in G; [|discriminate].
  injection G as G. rewrite eq_spec, G. f_equal.
  apply firstn_all2. rewrite skipn_length. lia.
Qed.

(* ------------------------------------------------------------------------------------------- *)
(* index_of                                                                                      *)

Lemma windows_short k v : (length v < k)%nat -> windows k v = [].
Proof.
  destruct v as [|x t]; [reflexivity|]. intro H. cbn [windows].
  replace (k <=? length (x :: t))%nat with false; [reflexivity|].
  symmetry. apply Nat.leb_gt. exact H.
Qed.

Lemma windows_skipn k f v : skipn f (windows k v) = windows k (skipn f v).
Proof.
  revert v; induction f as [|f IH]; intro v; [reflexivity|].
  destruct v as [|x t]; [reflexivity|]. cbn [windows skipn].
  destruct (k <=? length (x :: t))%nat eqn:E.
  - cbn [skipn]. apply IH.
  - cbn [skipn]. symmetry. apply windows_short. apply Nat.leb_gt in E.
    pose proof (skipn_length f t). cbn [length] in E. lia.
Qed.

Lemma find_at_short u n i : (length u < length n)%nat -> find_at u n i = None.
Proof.
  revert i; induction u as [|x t IH]; intros i H; [reflexivity|]. cbn [find_at].
  rewrite <- prefixb_firstn. replace (length n <=? length (x :: t))%nat with false
    by (symmetry; apply Nat.leb_gt; exact H).
  cbn [andb]. apply IH. cbn [length] in H. lia.
Qed.

Lemma position_windows n u i : n <> [] ->
  option_map (fun j => (j + i)%nat) (position (fun w => list_eqb w n) (windows (length n) u)) = find_at u n i.
Proof.
  intro Hn. revert i; induction u as [|x t IH]; intro i; [reflexivity|].
  cbn [windows find_at]. rewrite <- prefixb_firstn.
  destruct (length n <=? length (x :: t))%nat eqn:E; cbn [andb].
  - cbn [position]. rewrite (list_eqb_sym (firstn _ _) n).
    destruct (list_eqb n (firstn (length n) (x :: t))); [reflexivity|].
    rewrite <- IH. destruct (position _ _); cbn [option_map]; [|reflexivity].
    f_equal. lia.
  - cbn [position option_map]. symmetry. apply find_at_short.
    apply Nat.leb_gt in E. cbn [length] in E. lia.
Qed.

Lemma position_map {A B} (f : A -> B) p l : position p (map f l) = position (fun x => p (f x)) l.
Proof. induction l as [|x l IH]; [reflexivity|]. cbn [map position]. rewrite IH. reflexivity. Qed.

Lemma position_ext {A} (p q : A -> bool) l : (forall x, p x = q x) -> position p l = position q l.
Proof. intro H. induction l as [|x l IH]; [reflexivity|]. cbn [position]. rewrite H, IH. reflexivity. Qed.

Lemma index_of_spec s n from : index_of s n from = spec_index_of (units s) (units n) from.
Proof.
  unfold index_of, spec_index_of, is_empty. rewrite !len_units.
  destruct (units n) as [|y n'] eqn:En; [reflexivity|].
  cbn [length Nat.eqb].
  assert (Hn : units n <> []) by (rewrite En; discriminate).
  rewrite <- En. rewrite <- (position_windows (units n) (skipn from (units s)) from Hn).
  rewrite <- windows_skipn. f_equal.
  replace (S (length n')) with (length (units n)) by (rewrite En; reflexivity).
  destruct s as [v|v]; cbn [jwindows units]; rewrite skipn_map, position_map; apply position_ext; intro w;
    rewrite eq_spec; reflexivity.
Qed.

(* what find_at finds: the least offset at which the needle matches *)
Lemma find_at_some u n i k : find_at u n i = Some k ->
  (i <= k)%nat /\ prefixb n (skipn (k - i) u) = true /\
  forall j, (i <= j < k)%nat -> prefixb n (skipn (j - i) u) = false.
Proof.
  revert i; induction u as [|x t IH]; intro i; cbn [find_at]; [discriminate|].
  destruct (prefixb n (x :: t)) eqn:P.
  - intro H. injection H as <-. rewrite Nat.sub_diag. cbn [skipn]. repeat split; [lia | exact P | intros; lia].
  - intro H. apply IH in H. destruct H as (L & M & Least). split; [lia|]. split.
    + replace (k - i)%nat with (S (k - S i)) by lia. exact M.
    + intros j Hj. destruct (Nat.eq_dec j i) as [->|Ne].
      * rewrite Nat.sub_diag. exact P.
      * replace (j - i)%nat with (S (j - S i)) by lia. cbn [skipn]. apply Least. lia.
Qed.

Lemma find_at_none u n i : n <> [] -> find_at u n i = None -> forall j, prefixb n (skipn j u) = false.
Proof.
  intro Hn. revert i; induction u as [|x t IH]; intros i H j.
  - rewrite skipn_nil. destruct n; [congruence | reflexivity].
  - cbn [find_at] in H. destruct (prefixb n (x :: t)) eqn:P; [discriminate|].
    destruct j; [exact P|]. cbn [skipn]. eapply IH. exact H.
Qed.

Lemma skipn_skipn {A} (x y : nat) (l : list A) : skipn x (skipn y l) = skipn (x + y) l.
Proof.
  revert l; induction y as [|y IH]; intro l.
  - rewrite Nat.add_0_r. reflexivity.
  - destruct l as [|a l]; [rewrite !skipn_nil; reflexivity|].
    rewrite Nat.add_succ_r. cbn [skipn]. apply IH.
Qed.

Lemma spec_index_of_some u s from k : s <> [] -> spec_index_of u s from = Some k ->
  (from <= k)%nat /\ prefixb s (skipn k u) = true /\
  forall j, (from <= j < k)%nat -> prefixb s (skipn j u) = false.
Proof.
  intros Hs H. unfold spec_index_of in H. destruct s as [|y s']; [congruence|].
  apply find_at_some in H. destruct H as (L & M & Least). split; [exact L|].
  rewrite skipn_skipn in M. replace (k - from + from)%nat with k in M by lia. split; [exact M|].
  intros j Hj. specialize (Least j Hj). rewrite skipn_skipn in Least.
  replace (j - from + from)%nat with j in Least by lia. exact Least.
Qed.

Lemma spec_index_of_none u s from : s <> [] -> spec_index_of u s from = None ->
  forall j, (from <= j)%nat -> prefixb s (skipn j u) = false.
Proof.
  intros Hs H j Hj. unfold spec_index_of in H. destruct s as [|y s']; [congruence|].
  pose proof (find_at_none _ _ _ Hs H (j - from)%nat) as F. rewrite skipn_skipn in F.
  replace (j - from + from)%nat with j in F by lia. exact F.
Qed.
