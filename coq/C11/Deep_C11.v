(* C11 lemmas, deepening round: the operations of ModelD_C11.v depend only on the code units. *)
From Coq Require Import NArith List Bool Arith Lia.
From C11 Require Import Model_C11 Proofs_C11 ProofsB_C11 ProofsC_C11 ModelD_C11.
Import ListNotations.
Local Open Scope N_scope.

Lemma to_number_spec {X} (nan : X) snv r : wf r -> to_number nan snv r = spec_to_number nan snv (units r).
Proof. intro W. unfold to_number, spec_to_number. rewrite (to_std_string_spec r W). reflexivity. Qed.

Lemma esc_latin1 v : flat_map esc_cp (map (fun b => Unicode (char_from_u8 b)) v) = map char_from_u8 v.
Proof. induction v as [|b v IH]; cbn [map flat_map esc_cp app]; [reflexivity | now rewrite IH]. Qed.

Lemma display_escaped_spec r : wf r -> display_escaped r = spec_display_escaped (units r).
Proof.
  intro W. unfold spec_display_escaped. rewrite <- (code_points_spec r W).
  destruct r as [v|v]; cbn [display_escaped code_points].
  - symmetry. apply esc_latin1.
  - reflexivity.
Qed.

Lemma with_surrogates_spec r : wf r -> to_std_string_with_surrogates r = spec_with_surrogates (units r).
Proof. intro W. unfold to_std_string_with_surrogates, spec_with_surrogates. rewrite (code_points_spec r W). reflexivity. Qed.

Lemma map_valid_segments_spec table f r : wf r ->
  units (map_valid_segments table f r) = spec_map_valid_segments f (units r).
Proof.
  intro W. unfold map_valid_segments, spec_map_valid_segments.
  rewrite from_u16s_units, (with_surrogates_spec r W). reflexivity.
Qed.

(* build_from_latin1 *)
Lemma from_latin1_bytes_units segs b : Forall seg_wf segs ->
  from_latin1_bytes segs = Some b -> b = flat_map seg_units segs /\ forallb seg_can_be_latin1 segs = true.
Proof.
  revert b. induction segs as [|seg t IH]; intros b W H; cbn [from_latin1_bytes] in H.
  - inversion H. split; reflexivity.
  - inversion W as [|? ? Wseg Wt]; subst.
    destruct seg as [s|x|ch]; cbn [flat_map seg_units forallb seg_can_be_latin1].
    + destruct s as [v|v]; cbn [as_latin1] in H; [|discriminate].
      destruct (from_latin1_bytes t) as [bt|] eqn:E; [|discriminate]. inversion H; subst.
      destruct (IH bt Wt eq_refl) as [-> ->]. split; reflexivity.
    + destruct (x <=? 127); [|discriminate].
      destruct (from_latin1_bytes t) as [bt|] eqn:E; [|discriminate]. inversion H; subst.
      destruct (IH bt Wt eq_refl) as [-> ->]. split; reflexivity.
    + destruct (ch <=? 255) eqn:L; [|discriminate].
      destruct (from_latin1_bytes t) as [bt|] eqn:E; [|discriminate]. inversion H; subst.
      destruct (IH bt Wt eq_refl) as [-> ->]. split; [|reflexivity].
      unfold encode_utf16_char. apply N.leb_le in L.
      destruct (ch <? 65536) eqn:B; [reflexivity|]. apply N.ltb_ge in B. lia.
Qed.

Lemma common_build_from_latin1_spec segs r : Forall seg_wf segs ->
  common_build_from_latin1 segs = Some r ->
  units r = flat_map seg_units segs /\ forallb (fun c => c <? 128) (flat_map seg_units segs) = true.
Proof.
  intros W H. unfold common_build_from_latin1 in H.
  destruct (from_latin1_bytes segs) as [b|] eqn:E; [|discriminate].
  destruct (from_latin1_bytes_units segs b W E) as [-> _].
  unfold latin1_builder_build in H.
  destruct (builder_latin1_is_ascii (flat_map seg_units segs)) eqn:A; [|discriminate].
  inversion H; subst. split; [apply build_inner_latin1_units | exact A].
Qed.

(* the two successful build paths agree on the code units *)
Lemma common_build_paths_agree segs r : Forall seg_wf segs ->
  common_build_from_latin1 segs = Some r -> units r = units (common_build segs).
Proof.
  intros W H. rewrite (common_build_units segs W). apply (common_build_from_latin1_spec segs r W H).
Qed.

Lemma indistinguishable_deep_lemma : forall r1 r2, wf r1 -> wf r2 -> units r1 = units r2 ->
  (forall (X : Type) (nan : X) snv, to_number nan snv r1 = to_number nan snv r2) /\
  display_escaped r1 = display_escaped r2 /\
  to_std_string_with_surrogates r1 = to_std_string_with_surrogates r2 /\
  (forall table f, units (map_valid_segments table f r1) = units (map_valid_segments table f r2)).
Proof.
  intros r1 r2 W1 W2 U. repeat split.
  - intros. rewrite !to_number_spec, U by assumption. reflexivity.
  - rewrite !display_escaped_spec, U by assumption. reflexivity.
  - rewrite !with_surrogates_spec, U by assumption. reflexivity.
  - intros. rewrite !map_valid_segments_spec, U by assumption. reflexivity.
Qed.

(* re-encoding the code points gives the code units back; hence map_valid_segments (identity) keeps the string *)
Lemma take_unicode_units l :
  flat_map cp_units l = encode_utf16 (fst (take_unicode l)) ++ flat_map cp_units (snd (take_unicode l)) /\
  (length (snd (take_unicode l)) <= length l)%nat.
Proof.
  induction l as [|c t IH]; cbn [take_unicode]; [split; reflexivity|].
  destruct c as [c|u]; [|split; [reflexivity | apply Nat.le_refl]].
  destruct (take_unicode t) as [s rest]. cbn [fst snd] in *. destruct IH as [IH L].
  cbn [flat_map cp_units encode_utf16]. rewrite IH, app_assoc. split; [reflexivity|]. cbn [length]. lia.
Qed.

Lemma with_surrogates_units fuel : forall l, (length l <= fuel)%nat ->
  flat_map (segment_units (fun s => s)) (with_surrogates_fuel fuel l) = flat_map cp_units l.
Proof.
  induction fuel as [|f IH]; intros l L.
  - destruct l; [reflexivity | cbn [length] in L; lia].
  - destruct l as [|c t]; [reflexivity|]. cbn [with_surrogates_fuel length] in *.
    destruct c as [c|u].
    + pose proof (take_unicode_units t) as [E Lr]. destruct (take_unicode t) as [s rest]. cbn [fst snd] in *.
      cbn [flat_map segment_units cp_units encode_utf16]. rewrite IH by lia. rewrite E, app_assoc. reflexivity.
    + cbn [flat_map segment_units cp_units]. rewrite IH by lia. reflexivity.
Qed.

Lemma pair_reencode first second : is_leading first = true -> is_trailing second = true ->
  encode_utf16_char ((first - 55296) * 1024 + (second - 56320) + 65536) = [first; second].
Proof.
  unfold is_leading, is_trailing. intros H1 H2.
  apply andb_true_iff in H1 as [A1 A2]. apply andb_true_iff in H2 as [B1 B2].
  apply N.leb_le in A1, A2, B1, B2.
  unfold encode_utf16_char.
  destruct ((first - 55296) * 1024 + (second - 56320) + 65536 <? 65536) eqn:C; [apply N.ltb_lt in C; lia|].
  replace ((first - 55296) * 1024 + (second - 56320) + 65536 - 65536) with ((second - 56320) + (first - 55296) * 1024) by lia.
  rewrite N.div_add by lia. rewrite N.mod_add by lia.
  rewrite N.div_small by lia. rewrite N.mod_small by lia.
  f_equal; [lia | f_equal; lia].
Qed.

Lemma cps_reencode fuel : forall u, Forall (fun x => x < 65536) u -> (length u <= fuel)%nat ->
  flat_map cp_units (spec_code_points_fuel fuel u) = u.
Proof.
  induction fuel as [|f IH]; intros u W L.
  - destruct u; [reflexivity | cbn [length] in L; lia].
  - destruct u as [|first rest]; [reflexivity|].
    inversion W as [|? ? Wf Wr]; subst. cbn [length] in L.
    cbn [spec_code_points_fuel]. unfold spec_code_point_at. cbn [nth_error].
    destruct (negb (is_leading first) && negb (is_trailing first)) eqn:NS.
    + assert (first <? 65536 = true) as -> by (apply N.ltb_lt; exact Wf).
      cbn [skipn flat_map cp_units]. rewrite IH by (try assumption; lia).
      unfold encode_utf16_char. assert (first <? 65536 = true) as -> by (apply N.ltb_lt; exact Wf). reflexivity.
    + destruct (is_trailing first) eqn:T.
      * cbn [skipn flat_map cp_units]. rewrite IH by (try assumption; lia). reflexivity.
      * assert (is_leading first = true) as Ld.
        { destruct (is_leading first); [reflexivity | cbn in NS; discriminate]. }
        destruct rest as [|second rest2]; cbn [nth_error].
        -- cbn [skipn flat_map cp_units]. rewrite IH by (try assumption; cbn; lia). reflexivity.
        -- destruct (is_trailing second) eqn:T2; cbn [negb].
           ++ inversion Wr as [|? ? Ws Wr2]; subst.
              destruct ((first - 55296) * 1024 + (second - 56320) + 65536 <? 65536) eqn:C.
              { apply N.ltb_lt in C. lia. }
              cbn [skipn flat_map cp_units]. rewrite IH by (try assumption; cbn [length] in *; lia).
              rewrite (pair_reencode first second Ld T2). reflexivity.
           ++ cbn [skipn flat_map cp_units]. rewrite IH by (try assumption; cbn [length] in *; lia). reflexivity.
Qed.

Lemma map_valid_segments_id table r : wf r -> units (map_valid_segments table (fun s => s) r) = units r.
Proof.
  intro W. rewrite (map_valid_segments_spec table _ r W).
  unfold spec_map_valid_segments, spec_with_surrogates.
  rewrite with_surrogates_units by apply Nat.le_refl.
  unfold spec_code_points. apply cps_reencode; [|apply Nat.le_refl].
  destruct r as [v|v]; cbn [wf units] in *; [apply small_is_u16; exact W | exact W].
Qed.

(* the composites that Props_C11.v pins *)
Lemma valid_segments_lemma : forall r, wf r ->
  to_std_string_with_surrogates r = spec_with_surrogates (units r) /\
  (forall table f, units (map_valid_segments table f r) = spec_map_valid_segments f (units r)) /\
  (forall table, units (map_valid_segments table (fun s => s) r) = units r).
Proof.
  intros r W. split; [exact (with_surrogates_spec r W) | split; intros].
  - exact (map_valid_segments_spec _ _ r W).
  - exact (map_valid_segments_id _ r W).
Qed.

Lemma build_from_latin1_lemma : forall segs r, Forall seg_wf segs -> common_build_from_latin1 segs = Some r ->
  units r = flat_map seg_units segs /\ forallb (fun c => c <? 128) (flat_map seg_units segs) = true /\
  units r = units (common_build segs).
Proof.
  intros segs r W H. destruct (common_build_from_latin1_spec segs r W H) as [A B].
  split; [exact A | split; [exact B | exact (common_build_paths_agree segs r W H)]].
Qed.
