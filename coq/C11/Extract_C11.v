(* Extraction of the executable C11 model for the correspondence check (ExtrOcamlBasic only: nat,
   positive, N stay the extracted inductive datatypes; no Extract Constant / Extract Inductive of
   our own).  coqc runs with /verif/coq as working directory (Makefile and ocaml/C11/build.sh alike); the
   output directory ocaml/gen/ is git-ignored and is created by vlib.coq_make / tools/setup.py / build.sh. *)
From Coq Require Import ExtrOcamlBasic.
From C11 Require Import Model_C11 Eval_C11.
Extraction Language OCaml.
Extraction "../ocaml/gen/c11model.ml" Eval_C11.case_eval.
