(* C11: evaluation glue used by checks/c11.py (vm_compute batches).  Encodes every modelled
   observation as a list of numbers in exactly the format harness/src/bin/strops.rs prints.
   Definitions only; nothing here is part of a theorem. *)
From Coq Require Import NArith List Bool Arith.
From C11 Require Import Model_C11 ModelD_C11.
Import ListNotations.
Local Open Scope N_scope.

Definition enc_bool (b : bool) : list N := [if b then 1 else 0].
Definition enc_nat (n : nat) : list N := [N.of_nat n].
Definition enc_units (u : list N) : list N := N.of_nat (length u) :: u.
Definition enc_opt_nat (o : option nat) : list N := match o with None => [0] | Some n => [1; N.of_nat n] end.
Definition enc_opt_unit (o : option N) : list N := match o with None => [0] | Some u => [1; u] end.
Definition enc_ord (c : comparison) : list N := [match c with Lt => 0 | Eq => 1 | Gt => 2 end].
Definition enc_cp (c : code_point) : list N := match c with Unicode c => [0; c] | UnpairedSurrogate u => [1; u] end.
Definition enc_opt_cp (o : option code_point) : list N := match o with None => [2] | Some c => enc_cp c end.
Definition enc_cps (l : list code_point) : list N := N.of_nat (length l) :: flat_map enc_cp l.
Definition enc_hash (h : list hword) : list N :=
  N.of_nat (length h) :: flat_map (fun w => match w with WUsize n => [0; N.of_nat n] | WU16 x => [1; x] end) h.
Definition enc_opt_scalars (o : option (list N)) : list N := match o with None => [0] | Some l => 1 :: enc_units l end.
Definition enc_flag (r : repr) : list N := [if is_latin1 r then 0 else 1].
Definition enc_opt_units (o : option repr) : list N := match o with None => [0] | Some r => 1 :: enc_units (units r) end.
Definition enc_opt_flag (o : option repr) : list N := match o with None => [3] | Some r => enc_flag r end.

Definition enc_surr (l : list (list N + N)) : list N :=
  N.of_nat (length l) :: flat_map (fun p => match p with inl s => 0 :: enc_units s | inr u => [1; u] end) l.

(* order = U_KEYS of checks/c11.py *)
Definition unary_obs (r : repr) (p1 p2 : nat) (b : N) : list (list N) :=
  [ enc_nat (len r); enc_bool (is_empty r); enc_units (to_vec r); enc_units (iter r); enc_hash (hash r);
    enc_opt_unit (get r p1); enc_opt_unit (get r p2);
    enc_opt_cp (code_point_at r p1); enc_opt_cp (code_point_at r p2); enc_cps (code_points r);
    enc_bool (contains r b);
    enc_units (units (trim r)); enc_flag (trim r);
    enc_units (units (trim_start r)); enc_flag (trim_start r);
    enc_units (units (trim_end r)); enc_flag (trim_end r);
    enc_units (units (slice r p1 p2)); enc_flag (slice r p1 p2);
    enc_opt_units (string_get r p1 p2); enc_opt_flag (string_get r p1 p2);
    enc_opt_units (get_range r p1 p2); enc_opt_flag (get_range r p1 p2);
    enc_opt_scalars (to_std_string r); enc_units (to_std_string_lossy r);
    enc_units (display_escaped r); enc_surr (to_std_string_with_surrogates r);
    enc_units (units (map_valid_segments [] (fun s => s) r)) ].

(* order = B_KEYS *)
Definition binary_obs (x y : repr) (from : nat) : list (list N) :=
  [ enc_bool (eq x y); enc_bool (u16s_eq (units x) y); enc_bool (u16s_eq (units y) x);
    enc_ord (cmp x y); enc_opt_nat (index_of x y from);
    enc_bool (starts_with x y); enc_bool (ends_with x y);
    enc_units (units (concat [] x y)); enc_flag (concat [] x y) ].

(* order = E_KEYS: patched code, unpatched code *)
Definition eqs_obs (x : repr) (s : option (list N)) : list (list N) :=
  match s with
  | None => []
  | Some s => [enc_bool (eq_str x s); enc_bool (eq_str_old x s)]
  end.

Definition lat (u : list N) : option repr := if forallb (fun x => x <? 256) u then Some (Latin1 u) else None.
Definition og {A} (o : option repr) (f : repr -> list A) : list A := match o with Some r => f r | None => [] end.

(* constructor encodings: From<&str> on the scalar values of a str, From<&[u16]> *)
Definition from_str_obs (s : option (list N)) : list (list N) :=
  match s with
  | None => []
  | Some s => [ enc_units (units (from_str [] s)); enc_flag (from_str [] s) ]
  end.
Definition from_u16s_obs (u : list N) : list (list N) :=
  [ enc_units (units (from_u16s [] u)); enc_flag (from_u16s [] u) ].

(* groups: unary L, U; binary LL, LU, UL, UU; eq_str L, U; From<&str> of A (sa = scalar values of A when A is
   well-formed UTF-16); From<&[u16]> of A *)
Definition case_eval (a b : list N) (sa s : option (list N)) (from p1 p2 : nat) (byte : N) : list (list (list N)) :=
  let la := lat a in let lb := lat b in let ua := Utf16 a in let ub := Utf16 b in
  [ og la (fun r => unary_obs r p1 p2 byte); unary_obs ua p1 p2 byte;
    og la (fun x => og lb (fun y => binary_obs x y from)); og la (fun x => binary_obs x ub from);
    og lb (fun y => binary_obs ua y from); binary_obs ua ub from;
    og la (fun r => eqs_obs r s); eqs_obs ua s;
    from_str_obs sa; from_u16s_obs a ].
