(* C11 lemmas, part C: the statements that Props_C11.v pins (composites of parts A and B). *)
From Coq Require Import NArith List Bool Arith Lia.
From C11 Require Import Model_C11 Proofs_C11 ProofsB_C11.
Import ListNotations.
Local Open Scope N_scope.

Lemma basic_lemma : forall r,
  len r = spec_len (units r) /\ is_empty r = Nat.eqb (length (units r)) 0 /\
  to_vec r = units r /\ iter r = units r /\ (forall i, get r i = spec_get (units r) i).
Proof.
  intro r. repeat split.
  - apply len_units.
  - unfold is_empty. rewrite len_units. reflexivity.
  - apply to_vec_spec.
  - apply iter_units.
  - intro i. apply get_spec.
Qed.

Lemma eq_lemma : forall r1 r2,
  eq r1 r2 = list_eqb (units r1) (units r2) /\ (eq r1 r2 = true <-> units r1 = units r2) /\
  (forall u, u16s_eq u r2 = list_eqb u (units r2)).
Proof.
  intros. repeat split.
  - apply eq_spec.
  - rewrite eq_spec. apply list_eqb_eq.
  - rewrite eq_spec. apply list_eqb_eq.
  - intro u. apply u16s_eq_spec.
Qed.

Lemma cmp_lemma : forall r1 r2, cmp r1 r2 = lex_cmp (units r1) (units r2).
Proof. exact cmp_spec. Qed.

Lemma cmp_total_order_lemma : forall r1 r2 r3,
  (cmp r1 r2 = Eq <-> eq r1 r2 = true) /\
  cmp r2 r1 = CompOpp (cmp r1 r2) /\
  (cmp r1 r2 = Lt -> cmp r2 r3 = Lt -> cmp r1 r3 = Lt).
Proof.
  intros. split; [apply cmp_eq_iff|]. rewrite !cmp_spec. split; [apply lex_cmp_antisym | apply lex_cmp_trans].
Qed.

Lemma hash_lemma : forall r1 r2,
  hash r1 = spec_hash (units r1) /\ (hash r1 = hash r2 <-> units r1 = units r2).
Proof.
  intros. split; [apply hash_spec|]. rewrite !hash_spec. split; [apply spec_hash_inj | congruence].
Qed.

Lemma spec_ends_with_iff u n : spec_ends_with u n = true <-> exists t, u = t ++ n.
Proof.
  unfold spec_ends_with. rewrite prefixb_spec. split.
  - intros [t H]. exists (rev t). apply (f_equal (@rev N)) in H.
    rewrite rev_involutive, rev_app_distr, rev_involutive in H. exact H.
  - intros [t ->]. exists (rev t). apply rev_app_distr.
Qed.

Lemma affix_lemma : forall s n,
  starts_with s n = spec_starts_with (units s) (units n) /\
  ends_with s n = spec_ends_with (units s) (units n) /\
  (spec_starts_with (units s) (units n) = true <-> exists t, units s = units n ++ t) /\
  (spec_ends_with (units s) (units n) = true <-> exists t, units s = t ++ units n).
Proof.
  intros. repeat split; try apply starts_with_spec; try apply ends_with_spec;
    try apply prefixb_spec; apply spec_ends_with_iff.
Qed.

Lemma index_of_lemma : forall s n from, index_of s n from = spec_index_of (units s) (units n) from.
Proof. exact index_of_spec. Qed.

Lemma index_of_least_lemma : forall u s from, s <> [] ->
  (forall k, spec_index_of u s from = Some k ->
     (from <= k)%nat /\ prefixb s (skipn k u) = true /\
     forall j, (from <= j < k)%nat -> prefixb s (skipn j u) = false) /\
  (spec_index_of u s from = None -> forall j, (from <= j)%nat -> prefixb s (skipn j u) = false).
Proof.
  intros u s from Hs. split; [intro k; apply spec_index_of_some, Hs | apply spec_index_of_none, Hs].
Qed.

Lemma code_point_lemma : forall r, wf r ->
  (forall pos, code_point_at r pos = spec_code_point_at (units r) pos) /\
  code_points r = spec_code_points (units r) /\
  (forall b, contains r b = spec_contains (units r) b).
Proof.
  intros r W. repeat split.
  - intro pos. apply code_point_at_spec, W.
  - apply code_points_spec, W.
  - intro b. apply contains_spec.
Qed.

Lemma std_string_lemma : forall r, wf r -> to_std_string r = spec_to_std_string (units r).
Proof. exact to_std_string_spec. Qed.

Lemma trim_lemma : forall r, wf r ->
  units (trim r) = spec_trim (units r) /\
  units (trim_start r) = spec_trim_start (units r) /\
  units (trim_end r) = spec_trim_end (units r) /\
  wf (trim r) /\ wf (trim_start r) /\ wf (trim_end r).
Proof.
  intros r W. split; [apply trim_spec, W|]. split; [apply trim_start_spec, W|].
  split; [apply trim_end_spec, W|]. apply wf_trim, W.
Qed.

Lemma slice_lemma : forall r,
  (forall p1 p2, units (slice r p1 p2) = spec_slice (units r) p1 p2) /\
  (forall s e, option_map units (string_get r s e) = spec_get_range (units r) s e) /\
  (forall s e, option_map units (get_range r s e) = spec_get_range (units r) s e) /\
  (forall p1 p2, wf r -> wf (slice r p1 p2)).
Proof.
  intro r. repeat split; intros.
  - apply slice_spec.
  - apply string_get_spec.
  - apply get_range_spec.
  - apply wf_slice. assumption.
Qed.

Lemma concat_lemma : forall table,
  (forall rs, units (concat_array table rs) = flat_map units rs) /\
  (forall x y, units (concat table x y) = units x ++ units y) /\
  (forall rs, is_latin1 (concat_array_raw rs) = forallb is_latin1 rs) /\
  (forall rs, Forall wf rs -> wf (concat_array_raw rs)).
Proof.
  intro table. repeat split; intros.
  - apply concat_array_units.
  - apply concat_units.
  - apply concat_raw_latin1.
  - apply wf_concat_raw. assumption.
Qed.

Lemma constructors_lemma : forall table,
  (forall s, units (from_str table s) = encode_utf16 s) /\
  (forall u, units (from_u16s table u) = u) /\
  (forall r, units (from_js_str table r) = units r) /\
  (forall s, is_latin1 (from_str [] s) = forallb (fun c => c <=? 255) s) /\
  (forall r, table_wf table -> wf r -> wf (from_js_str table r)).
Proof.
  intro table. repeat split; intros.
  - apply from_str_units.
  - apply from_u16s_units.
  - apply from_js_str_units.
  - apply from_str_latin1.
  - apply from_js_str_wf; assumption.
Qed.

Lemma eq_str_lemma : forall r s,
  eq_str r s = spec_eq_str (units r) s /\ (eq_str r s = true <-> units r = encode_utf16 s).
Proof.
  intros. split; [apply eq_str_spec|]. rewrite eq_str_spec. apply list_eqb_eq.
Qed.

Lemma builders_lemma :
  (forall b, units (build_inner_latin1 b) = b /\ units (build_inner_utf16 b) = b) /\
  (forall b, builder_latin1_is_ascii b = builder_utf16_is_ascii b) /\
  (forall b r, latin1_builder_build b = Some r -> units r = b /\ forallb (fun c => c <? 128) b = true) /\
  (forall segs, Forall seg_wf segs -> units (common_build segs) = flat_map seg_units segs).
Proof.
  split; [intro b; split; [apply build_inner_latin1_units | apply build_inner_utf16_units]|].
  split; [apply builder_is_ascii_agree|].
  split; [|intros segs W; apply common_build_units; exact W].
  intros b r H. unfold latin1_builder_build, builder_latin1_is_ascii in H.
  destruct (forallb (fun c => c <? 128) b); [|discriminate].
  injection H as <-. split; [apply build_inner_latin1_units | reflexivity].
Qed.

(* the property itself: two well-formed representations of the same code units cannot be told
   apart by any modelled operation, alone or against any third string *)
Lemma indistinguishable_lemma : forall r1 r2, wf r1 -> wf r2 -> units r1 = units r2 ->
  len r1 = len r2 /\ is_empty r1 = is_empty r2 /\ to_vec r1 = to_vec r2 /\ iter r1 = iter r2 /\
  hash r1 = hash r2 /\ eq r1 r2 = true /\ cmp r1 r2 = Eq /\
  (forall i, get r1 i = get r2 i) /\
  (forall i, code_point_at r1 i = code_point_at r2 i) /\
  code_points r1 = code_points r2 /\
  (forall b, contains r1 b = contains r2 b) /\
  to_std_string r1 = to_std_string r2 /\ to_std_string_lossy r1 = to_std_string_lossy r2 /\
  units (trim r1) = units (trim r2) /\ units (trim_start r1) = units (trim_start r2) /\
  units (trim_end r1) = units (trim_end r2) /\
  (forall p1 p2, units (slice r1 p1 p2) = units (slice r2 p1 p2)) /\
  (forall s e, option_map units (string_get r1 s e) = option_map units (string_get r2 s e)) /\
  (forall s, eq_str r1 s = eq_str r2 s) /\
  (forall u, u16s_eq u r1 = u16s_eq u r2) /\
  (forall o, eq r1 o = eq r2 o /\ eq o r1 = eq o r2 /\ cmp r1 o = cmp r2 o /\ cmp o r1 = cmp o r2 /\
             starts_with r1 o = starts_with r2 o /\ starts_with o r1 = starts_with o r2 /\
             ends_with r1 o = ends_with r2 o /\ ends_with o r1 = ends_with o r2 /\
             (forall f, index_of r1 o f = index_of r2 o f /\ index_of o r1 f = index_of o r2 f) /\
             (forall t, units (concat t r1 o) = units (concat t r2 o) /\
                        units (concat t o r1) = units (concat t o r2))).
Proof.
  intros r1 r2 W1 W2 U.
  split; [rewrite !len_units, U; reflexivity|].
  split; [unfold is_empty; rewrite !len_units, U; reflexivity|].
  split; [rewrite !to_vec_spec; exact U|].
  split; [rewrite !iter_units; exact U|].
  split; [rewrite !hash_spec, U; reflexivity|].
  split; [rewrite eq_spec, U; apply list_eqb_refl|].
  split; [rewrite cmp_spec, U; apply lex_cmp_eq; reflexivity|].
  split; [intro i; rewrite !get_spec, U; reflexivity|].
  split; [intro i; rewrite !code_point_at_spec, U by assumption; reflexivity|].
  split; [rewrite !code_points_spec, U by assumption; reflexivity|].
  split; [intro b; rewrite !contains_spec, U; reflexivity|].
  split; [rewrite !to_std_string_spec, U by assumption; reflexivity|].
  split; [apply to_std_string_lossy_units, U|].
  split; [rewrite !trim_spec, U by assumption; reflexivity|].
  split; [rewrite !trim_start_spec, U by assumption; reflexivity|].
  split; [rewrite !trim_end_spec, U by assumption; reflexivity|].
  split; [intros p1 p2; rewrite !slice_spec, U; reflexivity|].
  split; [intros s e; rewrite !string_get_spec, U; reflexivity|].
  split; [intro s; apply eq_str_repr_indep, U|].
  split; [intro u; rewrite !u16s_eq_spec, U; reflexivity|].
  intro o. rewrite !eq_spec, !cmp_spec, !starts_with_spec, !ends_with_spec, U.
  repeat (split; [reflexivity|]). split.
  - intro f. rewrite !index_of_spec, U. split; reflexivity.
  - intro t. rewrite !concat_units, U. split; reflexivity.
Qed.

(* Hash is consistent with Eq (the HashMap key contract), across representations, and conversely *)
Lemma hash_eq_consistent_lemma : forall r1 r2, eq r1 r2 = true <-> hash r1 = hash r2.
Proof.
  intros r1 r2.
  destruct (eq_lemma r1 r2) as (_ & E & _). destruct (hash_lemma r1 r2) as (_ & H).
  rewrite E, H. reflexivity.
Qed.
