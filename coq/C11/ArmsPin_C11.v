(* C11: the arm table regenerated from the Rust sources on this run (coq/Gen/StrArms.v, tools/gen_c11.py) is the table the
   model was written against (Arms_C11.expected_arms), and every operation in it is modelled. *)
From Coq Require Import NArith List String.
From Gen Require Import StrArms.
From C11 Require Import Arms_C11.
Import ListNotations.

Lemma arm_table_lemma : StrArms.arms = Arms_C11.expected_arms /\ all_modelled StrArms.arms = true.
Proof. split; vm_compute; reflexivity. Qed.
