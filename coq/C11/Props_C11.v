(* C11 property theorems: statements only, each closed by `exact`, pinned by `Check`, with its
   assumptions printed.  Model: coq/C11/Model_C11.v (transliteration of boa_string). *)
From Coq Require Import NArith List Bool Arith.
From C11 Require Import Model_C11 Proofs_C11 ProofsB_C11 ProofsC_C11 ModelD_C11 Deep_C11 Arms_C11 ArmsPin_C11.
From Gen Require StrArms.
Import ListNotations.
Local Open Scope N_scope.

(* len / is_empty / to_vec / iter / get of either buffer kind are the plain list operations on the code units *)
Theorem basic_repr_indep : forall r,
  len r = spec_len (units r) /\ is_empty r = Nat.eqb (length (units r)) 0 /\
  to_vec r = units r /\ iter r = units r /\ (forall i, get r i = spec_get (units r) i).
Proof. exact basic_lemma. Qed.
Check basic_repr_indep : forall r,
  len r = spec_len (units r) /\ is_empty r = Nat.eqb (length (units r)) 0 /\
  to_vec r = units r /\ iter r = units r /\ (forall i, get r i = spec_get (units r) i).
Print Assumptions basic_repr_indep.

(* equality of any two representations is equality of the code-unit lists (also [u16] == JsStr) *)
Theorem eq_repr_indep : forall r1 r2,
  eq r1 r2 = list_eqb (units r1) (units r2) /\ (eq r1 r2 = true <-> units r1 = units r2) /\
  (forall u, u16s_eq u r2 = list_eqb u (units r2)).
Proof. exact eq_lemma. Qed.
Check eq_repr_indep : forall r1 r2,
  eq r1 r2 = list_eqb (units r1) (units r2) /\ (eq r1 r2 = true <-> units r1 = units r2) /\
  (forall u, u16s_eq u r2 = list_eqb u (units r2)).
Print Assumptions eq_repr_indep.

(* Ord of any two representations is the lexicographic order of the code-unit lists *)
Theorem cmp_repr_indep : forall r1 r2, cmp r1 r2 = lex_cmp (units r1) (units r2).
Proof. exact cmp_lemma. Qed.
Check cmp_repr_indep : forall r1 r2, cmp r1 r2 = lex_cmp (units r1) (units r2).
Print Assumptions cmp_repr_indep.

(* ... which is a total order consistent with eq *)
Theorem cmp_total_order : forall r1 r2 r3,
  (cmp r1 r2 = Eq <-> eq r1 r2 = true) /\
  cmp r2 r1 = CompOpp (cmp r1 r2) /\
  (cmp r1 r2 = Lt -> cmp r2 r3 = Lt -> cmp r1 r3 = Lt).
Proof. exact cmp_total_order_lemma. Qed.
Check cmp_total_order : forall r1 r2 r3,
  (cmp r1 r2 = Eq <-> eq r1 r2 = true) /\
  cmp r2 r1 = CompOpp (cmp r1 r2) /\
  (cmp r1 r2 = Lt -> cmp r2 r3 = Lt -> cmp r1 r3 = Lt).
Print Assumptions cmp_total_order.

(* Hash feeds the hasher the same word sequence for both buffer kinds; equal word sequences iff equal code units *)
Theorem hash_repr_indep : forall r1 r2,
  hash r1 = spec_hash (units r1) /\ (hash r1 = hash r2 <-> units r1 = units r2).
Proof. exact hash_lemma. Qed.
Check hash_repr_indep : forall r1 r2,
  hash r1 = spec_hash (units r1) /\ (hash r1 = hash r2 <-> units r1 = units r2).
Print Assumptions hash_repr_indep.

(* Hash is consistent with Eq whatever the two representations (HashMap/property-key contract), and conversely *)
Theorem hash_eq_consistent : forall r1 r2, eq r1 r2 = true <-> hash r1 = hash r2.
Proof. exact hash_eq_consistent_lemma. Qed.
Check hash_eq_consistent : forall r1 r2, eq r1 r2 = true <-> hash r1 = hash r2.
Print Assumptions hash_eq_consistent.

(* starts_with / ends_with are prefix / suffix tests on the code units *)
Theorem affix_repr_indep : forall s n,
  starts_with s n = spec_starts_with (units s) (units n) /\
  ends_with s n = spec_ends_with (units s) (units n) /\
  (spec_starts_with (units s) (units n) = true <-> exists t, units s = units n ++ t) /\
  (spec_ends_with (units s) (units n) = true <-> exists t, units s = t ++ units n).
Proof. exact affix_lemma. Qed.
Check affix_repr_indep : forall s n,
  starts_with s n = spec_starts_with (units s) (units n) /\
  ends_with s n = spec_ends_with (units s) (units n) /\
  (spec_starts_with (units s) (units n) = true <-> exists t, units s = units n ++ t) /\
  (spec_ends_with (units s) (units n) = true <-> exists t, units s = t ++ units n).
Print Assumptions affix_repr_indep.

(* index_of is StringIndexOf on the code units *)
Theorem index_of_repr_indep : forall s n from, index_of s n from = spec_index_of (units s) (units n) from.
Proof. exact index_of_lemma. Qed.
Check index_of_repr_indep : forall s n from, index_of s n from = spec_index_of (units s) (units n) from.
Print Assumptions index_of_repr_indep.

(* ... and StringIndexOf returns the least matching offset >= from (None: no match at all) *)
Theorem index_of_least : forall u s from, s <> [] ->
  (forall k, spec_index_of u s from = Some k ->
     (from <= k)%nat /\ prefixb s (skipn k u) = true /\
     forall j, (from <= j < k)%nat -> prefixb s (skipn j u) = false) /\
  (spec_index_of u s from = None -> forall j, (from <= j)%nat -> prefixb s (skipn j u) = false).
Proof. exact index_of_least_lemma. Qed.
Check index_of_least : forall u s from, s <> [] ->
  (forall k, spec_index_of u s from = Some k ->
     (from <= k)%nat /\ prefixb s (skipn k u) = true /\
     forall j, (from <= j < k)%nat -> prefixb s (skipn j u) = false) /\
  (spec_index_of u s from = None -> forall j, (from <= j)%nat -> prefixb s (skipn j u) = false).
Print Assumptions index_of_least.

(* code_point_at (ECMA CodePointAt), code_points (StringToCodePoints), contains *)
Theorem code_point_repr_indep : forall r, wf r ->
  (forall pos, code_point_at r pos = spec_code_point_at (units r) pos) /\
  code_points r = spec_code_points (units r) /\
  (forall b, contains r b = spec_contains (units r) b).
Proof. exact code_point_lemma. Qed.
Check code_point_repr_indep : forall r, wf r ->
  (forall pos, code_point_at r pos = spec_code_point_at (units r) pos) /\
  code_points r = spec_code_points (units r) /\
  (forall b, contains r b = spec_contains (units r) b).
Print Assumptions code_point_repr_indep.

(* to_std_string succeeds exactly on well-formed UTF-16 and yields the scalar values *)
Theorem std_string_repr_indep : forall r, wf r -> to_std_string r = spec_to_std_string (units r).
Proof. exact std_string_lemma. Qed.
Check std_string_repr_indep : forall r, wf r -> to_std_string r = spec_to_std_string (units r).
Print Assumptions std_string_repr_indep.

(* trim / trim_start / trim_end strip ECMA WhiteSpace+LineTerminator code units, whatever the buffer kind *)
Theorem trim_repr_indep : forall r, wf r ->
  units (trim r) = spec_trim (units r) /\
  units (trim_start r) = spec_trim_start (units r) /\
  units (trim_end r) = spec_trim_end (units r) /\
  wf (trim r) /\ wf (trim_start r) /\ wf (trim_end r).
Proof. exact trim_lemma. Qed.
Check trim_repr_indep : forall r, wf r ->
  units (trim r) = spec_trim (units r) /\
  units (trim_start r) = spec_trim_start (units r) /\
  units (trim_end r) = spec_trim_end (units r) /\
  wf (trim r) /\ wf (trim_start r) /\ wf (trim_end r).
Print Assumptions trim_repr_indep.

(* slice (clamping), JsString::get(range), JsStr::get(range) *)
Theorem slice_repr_indep : forall r,
  (forall p1 p2, units (slice r p1 p2) = spec_slice (units r) p1 p2) /\
  (forall s e, option_map units (string_get r s e) = spec_get_range (units r) s e) /\
  (forall s e, option_map units (get_range r s e) = spec_get_range (units r) s e) /\
  (forall p1 p2, wf r -> wf (slice r p1 p2)).
Proof. exact slice_lemma. Qed.
Check slice_repr_indep : forall r,
  (forall p1 p2, units (slice r p1 p2) = spec_slice (units r) p1 p2) /\
  (forall s e, option_map units (string_get r s e) = spec_get_range (units r) s e) /\
  (forall s e, option_map units (get_range r s e) = spec_get_range (units r) s e) /\
  (forall p1 p2, wf r -> wf (slice r p1 p2)).
Print Assumptions slice_repr_indep.

(* concat / concat_array (with static-table canonicalisation) is list append; Latin-1 iff all parts are *)
Theorem concat_repr_indep : forall table,
  (forall rs, units (concat_array table rs) = flat_map units rs) /\
  (forall x y, units (concat table x y) = units x ++ units y) /\
  (forall rs, is_latin1 (concat_array_raw rs) = forallb is_latin1 rs) /\
  (forall rs, Forall wf rs -> wf (concat_array_raw rs)).
Proof. exact concat_lemma. Qed.
Check concat_repr_indep : forall table,
  (forall rs, units (concat_array table rs) = flat_map units rs) /\
  (forall x y, units (concat table x y) = units x ++ units y) /\
  (forall rs, is_latin1 (concat_array_raw rs) = forallb is_latin1 rs) /\
  (forall rs, Forall wf rs -> wf (concat_array_raw rs)).
Print Assumptions concat_repr_indep.

(* From<&str> yields encode_utf16 of the str, From<&[u16]> the slice itself; a static-table hit keeps the units *)
Theorem constructors : forall table,
  (forall s, units (from_str table s) = encode_utf16 s) /\
  (forall u, units (from_u16s table u) = u) /\
  (forall r, units (from_js_str table r) = units r) /\
  (forall s, is_latin1 (from_str [] s) = forallb (fun c => c <=? 255) s) /\
  (forall r, table_wf table -> wf r -> wf (from_js_str table r)).
Proof. exact constructors_lemma. Qed.
Check constructors : forall table,
  (forall s, units (from_str table s) = encode_utf16 s) /\
  (forall u, units (from_u16s table u) = u) /\
  (forall r, units (from_js_str table r) = units r) /\
  (forall s, is_latin1 (from_str [] s) = forallb (fun c => c <=? 255) s) /\
  (forall r, table_wf table -> wf r -> wf (from_js_str table r)).
Print Assumptions constructors.

(* comparison with a Rust str (patched code): equal iff the code units are the UTF-16 encoding of the str *)
Theorem eq_str_repr_indep : forall r s,
  eq_str r s = spec_eq_str (units r) s /\ (eq_str r s = true <-> units r = encode_utf16 s).
Proof. exact eq_str_lemma. Qed.
Check eq_str_repr_indep : forall r s,
  eq_str r s = spec_eq_str (units r) s /\ (eq_str r s = true <-> units r = encode_utf16 s).
Print Assumptions eq_str_repr_indep.

(* string builders: the built string has exactly the pushed units *)
Theorem builders : (forall b, units (build_inner_latin1 b) = b /\ units (build_inner_utf16 b) = b) /\
  (forall b, builder_latin1_is_ascii b = builder_utf16_is_ascii b) /\
  (forall b r, latin1_builder_build b = Some r -> units r = b /\ forallb (fun c => c <? 128) b = true) /\
  (forall segs, Forall seg_wf segs -> units (common_build segs) = flat_map seg_units segs).
Proof. exact builders_lemma. Qed.
Check builders : (forall b, units (build_inner_latin1 b) = b /\ units (build_inner_utf16 b) = b) /\
  (forall b, builder_latin1_is_ascii b = builder_utf16_is_ascii b) /\
  (forall b r, latin1_builder_build b = Some r -> units r = b /\ forallb (fun c => c <? 128) b = true) /\
  (forall segs, Forall seg_wf segs -> units (common_build segs) = flat_map seg_units segs).
Print Assumptions builders.

(* THE PROPERTY: same code units => no modelled operation tells two representations apart *)
Theorem indistinguishable : forall r1 r2, wf r1 -> wf r2 -> units r1 = units r2 ->
  len r1 = len r2 /\ is_empty r1 = is_empty r2 /\ to_vec r1 = to_vec r2 /\ iter r1 = iter r2 /\
  hash r1 = hash r2 /\ eq r1 r2 = true /\ cmp r1 r2 = Eq /\
  (forall i, get r1 i = get r2 i) /\
  (forall i, code_point_at r1 i = code_point_at r2 i) /\
  code_points r1 = code_points r2 /\
  (forall b, contains r1 b = contains r2 b) /\
  to_std_string r1 = to_std_string r2 /\ to_std_string_lossy r1 = to_std_string_lossy r2 /\
  units (trim r1) = units (trim r2) /\ units (trim_start r1) = units (trim_start r2) /\
  units (trim_end r1) = units (trim_end r2) /\
  (forall p1 p2, units (slice r1 p1 p2) = units (slice r2 p1 p2)) /\
  (forall s e, option_map units (string_get r1 s e) = option_map units (string_get r2 s e)) /\
  (forall s, eq_str r1 s = eq_str r2 s) /\
  (forall u, u16s_eq u r1 = u16s_eq u r2) /\
  (forall o, eq r1 o = eq r2 o /\ eq o r1 = eq o r2 /\ cmp r1 o = cmp r2 o /\ cmp o r1 = cmp o r2 /\
             starts_with r1 o = starts_with r2 o /\ starts_with o r1 = starts_with o r2 /\
             ends_with r1 o = ends_with r2 o /\ ends_with o r1 = ends_with o r2 /\
             (forall f, index_of r1 o f = index_of r2 o f /\ index_of o r1 f = index_of o r2 f) /\
             (forall t, units (concat t r1 o) = units (concat t r2 o) /\
                        units (concat t o r1) = units (concat t o r2))).
Proof. exact indistinguishable_lemma. Qed.
Check indistinguishable : forall r1 r2, wf r1 -> wf r2 -> units r1 = units r2 ->
  len r1 = len r2 /\ is_empty r1 = is_empty r2 /\ to_vec r1 = to_vec r2 /\ iter r1 = iter r2 /\
  hash r1 = hash r2 /\ eq r1 r2 = true /\ cmp r1 r2 = Eq /\
  (forall i, get r1 i = get r2 i) /\
  (forall i, code_point_at r1 i = code_point_at r2 i) /\
  code_points r1 = code_points r2 /\
  (forall b, contains r1 b = contains r2 b) /\
  to_std_string r1 = to_std_string r2 /\ to_std_string_lossy r1 = to_std_string_lossy r2 /\
  units (trim r1) = units (trim r2) /\ units (trim_start r1) = units (trim_start r2) /\
  units (trim_end r1) = units (trim_end r2) /\
  (forall p1 p2, units (slice r1 p1 p2) = units (slice r2 p1 p2)) /\
  (forall s e, option_map units (string_get r1 s e) = option_map units (string_get r2 s e)) /\
  (forall s, eq_str r1 s = eq_str r2 s) /\
  (forall u, u16s_eq u r1 = u16s_eq u r2) /\
  (forall o, eq r1 o = eq r2 o /\ eq o r1 = eq o r2 /\ cmp r1 o = cmp r2 o /\ cmp o r1 = cmp o r2 /\
             starts_with r1 o = starts_with r2 o /\ starts_with o r1 = starts_with o r2 /\
             ends_with r1 o = ends_with r2 o /\ ends_with o r1 = ends_with o r2 /\
             (forall f, index_of r1 o f = index_of r2 o f /\ index_of o r1 f = index_of o r2 f) /\
             (forall t, units (concat t r1 o) = units (concat t r2 o) /\
                        units (concat t o r1) = units (concat t o r2))).
Print Assumptions indistinguishable.

(* unpatched tree, Latin-1 arm: bytes compared with UTF-8 bytes (witness Latin1[0xE9] vs "\u00e9") *)
Theorem eq_str_unpatched_latin1_refuted : exists r s, wf r /\ valid_str s /\ eq_str_old r s <> spec_eq_str (units r) s.
Proof. exact eq_str_old_latin1_refuted. Qed.
Check eq_str_unpatched_latin1_refuted : exists r s, wf r /\ valid_str s /\ eq_str_old r s <> spec_eq_str (units r) s.
Print Assumptions eq_str_unpatched_latin1_refuted.

(* ... and it also accepts unequal strings (Latin1[0xC3,0xA9] == "\u00e9") *)
Theorem eq_str_unpatched_latin1_refuted_false_positive : exists r s, wf r /\ valid_str s /\ eq_str_old r s = true /\ spec_eq_str (units r) s = false.
Proof. exact eq_str_old_latin1_refuted_false_positive. Qed.
Check eq_str_unpatched_latin1_refuted_false_positive : exists r s, wf r /\ valid_str s /\ eq_str_old r s = true /\ spec_eq_str (units r) s = false.
Print Assumptions eq_str_unpatched_latin1_refuted_false_positive.

(* unpatched tree, UTF-16 arm: zip without length check (witness "ab\u03c0" == "ab") *)
Theorem eq_str_unpatched_utf16_refuted : exists r s, wf r /\ valid_str s /\ eq_str_old r s = true /\ spec_eq_str (units r) s = false.
Proof. exact eq_str_old_utf16_refuted. Qed.
Check eq_str_unpatched_utf16_refuted : exists r s, wf r /\ valid_str s /\ eq_str_old r s = true /\ spec_eq_str (units r) s = false.
Print Assumptions eq_str_unpatched_utf16_refuted.

(* unpatched tree: same code units, different answer *)
Theorem eq_str_unpatched_repr_dependent : exists r1 r2 s, wf r1 /\ wf r2 /\ valid_str s /\ units r1 = units r2 /\ eq_str_old r1 s <> eq_str_old r2 s.
Proof. exact eq_str_old_repr_dependent. Qed.
Check eq_str_unpatched_repr_dependent : exists r1 r2 s, wf r1 /\ wf r2 /\ valid_str s /\ units r1 = units r2 /\ eq_str_old r1 s <> eq_str_old r2 s.
Print Assumptions eq_str_unpatched_repr_dependent.

(* unpatched tree: outside the two known classes the old code agrees with the spec *)
Theorem eq_str_unpatched_except_known : forall r s, ~ known_eq_str_class r s -> eq_str_old r s = spec_eq_str (units r) s.
Proof. exact eq_str_old_except_known. Qed.
Check eq_str_unpatched_except_known : forall r s, ~ known_eq_str_class r s -> eq_str_old r s = spec_eq_str (units r) s.
Print Assumptions eq_str_unpatched_except_known.

(* Lt = proper prefix, or a smaller unit at the first difference *)
Theorem lex_cmp_characterisation : forall a b, lex_cmp a b = Lt <->
  (exists t, t <> [] /\ b = a ++ t) \/
  (exists p x y ta tb, a = p ++ x :: ta /\ b = p ++ y :: tb /\ x < y).
Proof. exact lex_cmp_lt_iff. Qed.
Check lex_cmp_characterisation : forall a b, lex_cmp a b = Lt <->
  (exists t, t <> [] /\ b = a ++ t) \/
  (exists p x y ta tb, a = p ++ x :: ta /\ b = p ++ y :: tb /\ x < y).
Print Assumptions lex_cmp_characterisation.

(* ---- deepening round ---- *)

(* TIE: the arm table regenerated from core/string/src/*.rs on this run (tools/gen_c11.py -> Gen/StrArms.v: every modelled
   function, each representation arm with a fingerprint of its tokens) equals the table the model was written against, and every
   operation in it has a model.  Any edit to a modelled arm breaks this theorem before the correspondence has to find an input. *)
Theorem arm_table_pinned : StrArms.arms = Arms_C11.expected_arms /\ all_modelled StrArms.arms = true.
Proof. exact arm_table_lemma. Qed.
Check arm_table_pinned : StrArms.arms = Arms_C11.expected_arms /\ all_modelled StrArms.arms = true.
Print Assumptions arm_table_pinned.

(* to_number: its only representation-specialised step is to_std_string; for ANY StringNumericValue function on the std String *)
Theorem to_number_repr_indep : forall (X : Type) (nan : X) (snv : list N -> X) r, wf r ->
  to_number nan snv r = spec_to_number nan snv (units r).
Proof. exact (@to_number_spec). Qed.
Check to_number_repr_indep : forall (X : Type) (nan : X) (snv : list N -> X) r, wf r ->
  to_number nan snv r = spec_to_number nan snv (units r).
Print Assumptions to_number_repr_indep.

(* Display for JsStrDisplayEscaped (to_std_string_escaped): the Latin-1 fast arm writes what the code-point arm would *)
Theorem display_escaped_repr_indep : forall r, wf r -> display_escaped r = spec_display_escaped (units r).
Proof. exact display_escaped_spec. Qed.
Check display_escaped_repr_indep : forall r, wf r -> display_escaped r = spec_display_escaped (units r).
Print Assumptions display_escaped_repr_indep.

(* to_std_string_with_surrogates / map_valid_segments depend only on the units; mapping with the identity gives the string back *)
Theorem valid_segments_repr_indep : forall r, wf r ->
  to_std_string_with_surrogates r = spec_with_surrogates (units r) /\
  (forall table f, units (map_valid_segments table f r) = spec_map_valid_segments f (units r)) /\
  (forall table, units (map_valid_segments table (fun s => s) r) = units r).
Proof. exact valid_segments_lemma. Qed.
Check valid_segments_repr_indep : forall r, wf r ->
  to_std_string_with_surrogates r = spec_with_surrogates (units r) /\
  (forall table f, units (map_valid_segments table f r) = spec_map_valid_segments f (units r)) /\
  (forall table, units (map_valid_segments table (fun s => s) r) = units r).
Print Assumptions valid_segments_repr_indep.

(* CommonJsStringBuilder::build_from_latin1: when it succeeds the string has the pushed units (all ASCII), as build() has *)
Theorem build_from_latin1_spec : forall segs r, Forall seg_wf segs -> common_build_from_latin1 segs = Some r ->
  units r = flat_map seg_units segs /\ forallb (fun c => c <? 128) (flat_map seg_units segs) = true /\
  units r = units (common_build segs).
Proof. exact build_from_latin1_lemma. Qed.
Check build_from_latin1_spec : forall segs r, Forall seg_wf segs -> common_build_from_latin1 segs = Some r ->
  units r = flat_map seg_units segs /\ forallb (fun c => c <? 128) (flat_map seg_units segs) = true /\
  units r = units (common_build segs).
Print Assumptions build_from_latin1_spec.

(* THE PROPERTY, continued: same code units => the newly modelled operations do not tell two representations apart either *)
Theorem indistinguishable_deep : forall r1 r2, wf r1 -> wf r2 -> units r1 = units r2 ->
  (forall (X : Type) (nan : X) snv, to_number nan snv r1 = to_number nan snv r2) /\
  display_escaped r1 = display_escaped r2 /\
  to_std_string_with_surrogates r1 = to_std_string_with_surrogates r2 /\
  (forall table f, units (map_valid_segments table f r1) = units (map_valid_segments table f r2)).
Proof. exact indistinguishable_deep_lemma. Qed.
Check indistinguishable_deep : forall r1 r2, wf r1 -> wf r2 -> units r1 = units r2 ->
  (forall (X : Type) (nan : X) snv, to_number nan snv r1 = to_number nan snv r2) /\
  display_escaped r1 = display_escaped r2 /\
  to_std_string_with_surrogates r1 = to_std_string_with_surrogates r2 /\
  (forall table f, units (map_valid_segments table f r1) = units (map_valid_segments table f r2)).
Print Assumptions indistinguishable_deep.

(* the hypotheses are satisfiable, and the two buffer kinds really are different values *)
Example wf_latin1_ex : wf (Latin1 [97; 233; 255]).
Proof. repeat constructor. Qed.
Example wf_utf16_ex : wf (Utf16 [97; 233; 960; 55357; 56832; 55296]).
Proof. repeat constructor. Qed.
Example same_units_different_repr : units (Latin1 [233]) = units (Utf16 [233]) /\ Latin1 [233] <> Utf16 [233].
Proof. split; [reflexivity | discriminate]. Qed.
Example known_class_inhabited : known_eq_str_class (Latin1 [233]) [233] /\ known_eq_str_class (Utf16 [97; 98; 960]) [97; 98].
Proof. split; [left | right]; split; try reflexivity; discriminate. Qed.
Example eq_str_fixed_on_witnesses :
  eq_str (Latin1 [233]) [233] = true /\ eq_str (Latin1 [195; 169]) [233] = false /\ eq_str (Utf16 [97; 98; 960]) [97; 98] = false.
Proof. vm_compute. repeat split. Qed.
