(* C16 deepening: promise jobs stay FIFO / at-most-once / all-on-Ok in the full run_jobs_async loop. *)
From Coq Require Import List Arith Bool Lia.
Import ListNotations.
From C16 Require Import Jobs DeepLoop_C16.

Section FullLoopProofs.
  Variable world : Type.
  Variable job : Type.
  Variable err : Type.
  Variable fut : Type.
  Variable now : world -> nat.
  Variable execk : job -> world -> world * list (fkind * job) * option err.
  Variable astart : job -> world -> world * list (fkind * job) * fut.
  Variable gpoll : list (nat * fut) -> world -> list (nat * fut) * world * list (fkind * job) * option err.
  Variable stop_requested : world -> bool.
  Variable clear_stop : world -> world.
  Variable cancelled : world -> nat -> bool.
  Variable between : world -> world.

  Notation fstate := (fstate world job fut).
  Notation effect := (effect world job fut).
  Notation mark := (mark world job fut).
  Notation frun := (frun world job err fut execk).
  Notation fbatch := (fbatch world job err fut execk).
  Notation start_all := (start_all world job fut astart).
  Notation run_due := (run_due world job err fut now execk cancelled).
  Notation poll_group := (poll_group world job err fut gpoll).
  Notation run_full := (run_full world job err fut now execk astart gpoll stop_requested clear_stop cancelled between).
  Notation after_exit_check := (after_exit_check world job err fut execk gpoll between).

  Fixpoint pentries (n : nat) (new : list (fkind * job)) : list (nat * job) :=
    match new with
    | [] => []
    | (FPromise, j) :: r => (n, j) :: pentries (S n) r
    | (_, _) :: r => pentries (S n) r
    end.

  Lemma enq_all_promise : forall new n p g a fr t plog,
    let '(p', _, _, _, _, plog') := enq_all job n new p g a fr t plog in
    p' = p ++ pentries n new /\ plog' = plog ++ pentries n new.
  Proof.
    induction new as [|[k j] r IH]; intros n p g a fr t plog; simpl.
    - now rewrite !app_nil_r.
    - destruct k.
      + specialize (IH (S n) (p ++ [(n, j)]) g a fr t (plog ++ [(n, j)])).
        destruct (enq_all job (S n) r (p ++ [(n, j)]) g a fr t (plog ++ [(n, j)])) as [[[[[p' g'] a'] fr'] t'] plog'].
        destruct IH as [A B]. rewrite A, B, <- !app_assoc. auto.
      + specialize (IH (S n) p (g ++ [(n, j)]) a fr t plog).
        destruct (enq_all job (S n) r p (g ++ [(n, j)]) a fr t plog) as [[[[[p' g'] a'] fr'] t'] plog']. exact IH.
      + specialize (IH (S n) p g a fr (insert_clock job key ((n, j), None) t) plog).
        destruct (enq_all job (S n) r p g a fr (insert_clock job key ((n, j), None) t) plog) as [[[[[p' g'] a'] fr'] t'] plog']. exact IH.
      + specialize (IH (S n) p g a fr (insert_clock job key ((n, j), Some len) t) plog).
        destruct (enq_all job (S n) r p g a fr (insert_clock job key ((n, j), Some len) t) plog) as [[[[[p' g'] a'] fr'] t'] plog']. exact IH.
      + specialize (IH (S n) p g (a ++ [(n, j)]) fr t plog).
        destruct (enq_all job (S n) r p g (a ++ [(n, j)]) fr t plog) as [[[[[p' g'] a'] fr'] t'] plog']. exact IH.
      + specialize (IH (S n) p g a (fr ++ [(n, j)]) t plog).
        destruct (enq_all job (S n) r p g a (fr ++ [(n, j)]) t plog) as [[[[[p' g'] a'] fr'] t'] plog']. exact IH.
  Qed.

  (* the invariant, with a promise batch in flight *)
  Definition finv (inflight : list (nat * job)) (s : fstate) : Prop :=
    fplog s = fpdone s ++ inflight ++ fp s.

  Lemma effect_inv : forall I w' new (s : fstate), finv I s -> finv I (effect w' new s).
  Proof.
    intros I w' new s H. unfold finv, DeepLoop_C16.effect in *.
    pose proof (enq_all_promise new (fnext s) (fp s) (fg s) (fa s) (ffr s) (ftm s) (fplog s)) as E.
    destruct (enq_all job (fnext s) new (fp s) (fg s) (fa s) (ffr s) (ftm s) (fplog s)) as [[[[[p' g'] a'] fr'] t'] plog'].
    destruct E as [A B]. simpl. rewrite A, B, H, <- !app_assoc. reflexivity.
  Qed.

  Lemma frun_other : forall I tj (s : fstate), finv I s -> finv I (fst (frun false tj s)).
  Proof.
    intros I tj s H. unfold DeepLoop_C16.frun. destruct (execk (snd tj) (fw s)) as [[w' new] oe]. simpl.
    pose proof (effect_inv I w' new s H) as E. unfold finv in *. simpl. exact E.
  Qed.

  Lemma frun_promise : forall rest tj (s : fstate), finv (tj :: rest) s -> finv rest (fst (frun true tj s)).
  Proof.
    intros rest tj s H. unfold DeepLoop_C16.frun. destruct (execk (snd tj) (fw s)) as [[w' new] oe]. simpl.
    pose proof (effect_inv (tj :: rest) w' new s H) as E. unfold finv in *. simpl in *. rewrite E, <- !app_assoc. reflexivity.
  Qed.

  Definition failed_post (s : fstate) : Prop := exists dropped, fplog s = fpdone s ++ dropped.

  Lemma fclear_post : forall I (s : fstate), finv I s -> failed_post (fclear world job fut s).
  Proof. intros I s H. exists (I ++ fp s). exact H. Qed.

  Lemma fbatch_promise : forall batch (s : fstate), finv batch s ->
    match fbatch true batch s with
    | inl s' => finv [] s'
    | inr (s', _) => failed_post s'
    end.
  Proof.
    induction batch as [|tj rest IH]; intros s H; simpl.
    - exact H.
    - pose proof (frun_promise rest tj s H) as R. destruct (frun true tj s) as [s1 oe]. simpl in R.
      destruct oe as [e|].
      + eapply fclear_post; exact R.
      + now apply IH.
  Qed.

  Lemma fbatch_other : forall batch (s : fstate), finv [] s ->
    match fbatch false batch s with
    | inl s' => finv [] s'
    | inr (s', _) => failed_post s'
    end.
  Proof.
    induction batch as [|tj rest IH]; intros s H; simpl.
    - exact H.
    - pose proof (frun_other [] tj s H) as R. destruct (frun false tj s) as [s1 oe]. simpl in R.
      destruct oe as [e|].
      + eapply fclear_post; exact R.
      + now apply IH.
  Qed.

  Lemma start_all_inv : forall tofr batch (s : fstate), finv [] s -> finv [] (start_all tofr batch s).
  Proof.
    induction batch as [|tj rest IH]; intros s H; simpl.
    - exact H.
    - destruct (astart (snd tj) (fw s)) as [[w' new] f]. apply IH.
      pose proof (effect_inv [] w' new s H) as E. unfold finv in *. simpl in *. exact E.
  Qed.

  Lemma run_due_inv : forall l (s : fstate), finv [] s ->
    match run_due l s with
    | inl s' => finv [] s'
    | inr (s', _) => failed_post s'
    end.
  Proof.
    induction l as [|[k [tj iv]] rest IH]; intros s H; simpl.
    - exact H.
    - destruct (cancelled (fw s) (fst tj)).
      + now apply IH.
      + pose proof (frun_other [] tj s H) as R. destruct (frun false tj s) as [s1 oe]. simpl in R.
        destruct oe as [e|].
        * eapply fclear_post; exact R.
        * destruct iv as [len|]; apply IH; exact R.
  Qed.

  Lemma poll_group_inv : forall fr (s : fstate), finv [] s -> finv [] (fst (poll_group fr s)).
  Proof.
    intros fr s H. unfold DeepLoop_C16.poll_group.
    destruct (gpoll (if fr then ffrgroup s else fgroup s) (fw s)) as [[[g' w'] new] oe].
    pose proof (effect_inv [] w' new s H) as E. unfold finv in *. simpl. exact E.
  Qed.

  Definition full_post (o : foutcome world job err fut) : Prop :=
    match o with
    | FFinished s' => fpdone s' = fplog s' /\ fp s' = []
    | FFailed s' _ => failed_post s'
    | FStopped s' => failed_post s'
    | FOutOfFuel s' => finv [] s'
    end.

  Lemma after_exit_check_post : forall (rec : fstate -> foutcome world job err fut),
    (forall s, finv [] s -> full_post (rec s)) ->
    forall s4, finv [] s4 -> full_post (after_exit_check rec s4).
  Proof.
    intros rec Hrec s4 H. unfold DeepLoop_C16.after_exit_check.
    pose proof (poll_group_inv false s4 H) as P. destruct (poll_group false s4) as [s5 oe]. simpl in P.
    destruct oe as [e|]; [simpl; eapply fclear_post; exact P|].
    assert (I5 : finv (fp s5) (take_fp world job fut s5)).
    { unfold finv in *. simpl. now rewrite app_nil_r. }
    pose proof (fbatch_promise (fp s5) _ I5) as B.
    destruct (fbatch true (fp s5) (take_fp world job fut s5)) as [s6|[s6 e6]]; [|exact B].
    assert (I6 : finv [] (take_fg world job fut s6)) by exact B.
    pose proof (fbatch_other (fg s6) _ I6) as B2.
    destruct (fbatch false (fg s6) (take_fg world job fut s6)) as [s7|[s7 e7]]; [|exact B2].
    apply Hrec. exact B2.
  Qed.

  Theorem full_loop_promise_fifo_lemma : forall fuel (s : fstate), finv [] s -> full_post (run_full fuel s).
  Proof.
    induction fuel; intros s H; simpl.
    - exact H.
    - destruct (stop_requested (fw s)).
      + simpl. exists (fp s). unfold finv in H. simpl in H. exact H.
      + set (s1 := start_all false (fa s) (take_fa world job fut s)).
        assert (I1 : finv [] s1) by (apply start_all_inv; exact H).
        set (s2 := start_all true (ffr s1) (take_ffr world job fut s1)).
        assert (I2 : finv [] s2) by (apply start_all_inv; exact I1).
        assert (I2' : finv [] (set_ftm world job fut (fkept world job cancelled (fw s2) (now (fw s2)) (ftm s2)) s2)) by exact I2.
        pose proof (run_due_inv (fdue job (now (fw s2)) (ftm s2)) _ I2') as D.
        destruct (run_due (fdue job (now (fw s2)) (ftm s2))
                          (set_ftm world job fut (fkept world job cancelled (fw s2) (now (fw s2)) (ftm s2)) s2)) as [s3|[s3 e3]]; [|exact D].
        destruct (fempty world job fut s3 && group_empty world job fut s3).
        * pose proof (poll_group_inv true s3 D) as P. destruct (poll_group true s3) as [s4 oe]. simpl in P.
          destruct oe as [e|]; [simpl; eapply fclear_post; exact P|].
          destruct (fempty world job fut s4) eqn:E.
          -- simpl. unfold DeepLoop_C16.fempty in E. destruct (fp s4) eqn:Ep; [|discriminate].
             unfold finv in P. rewrite Ep in P. simpl in P. rewrite app_nil_r in P. auto.
          -- apply after_exit_check_post; [exact IHfuel | exact P].
        * apply after_exit_check_post; [exact IHfuel | exact D].
  Qed.
End FullLoopProofs.
