(* C16, model A: proofs about the promise-job queue (definitions in Jobs.v). *)
From Coq Require Import List Arith Lia Bool.
Import ListNotations.
From C16 Require Import Jobs.

Section JobsProofs.
  Variable world : Type.
  Variable job : Type.
  Variable err : Type.
  Variable exec : job -> world -> world * list job * option err.

  Notation qstate := (qstate world job).
  Notation outcome := (outcome world job err).
  Notation run_entry := (run_entry world job err exec).
  Notation drain_fifo := (drain_fifo world job err exec).
  Notation run_batch := (run_batch world job err exec).
  Notation drain_batched := (drain_batched world job err exec).
  Notation drain_chunks := (drain_chunks world job err exec).
  Notation again := (again world job err).

  Lemma run_batch_cons : forall tj rest (s : qstate),
    run_batch (tj :: rest) s =
    (let '(s', oe) := run_entry tj (qq s) s in
     match oe with Some e => inr (clear s', e) | None => run_batch rest s' end).
  Proof. reflexivity. Qed.

  Lemma batched_S_cons : forall n (s : qstate) e l, qq s = e :: l ->
    drain_batched (S n) s =
    match run_batch (e :: l) (set_qq s []) with
    | inr (s', e0) => Failed s' e0
    | inl s' => drain_batched n s'
    end.
  Proof. intros n s e l H. cbn [Jobs.drain_batched]. rewrite H. reflexivity. Qed.

  Local Arguments Jobs.run_batch : simpl never.
  Local Arguments Jobs.run_entry : simpl never.

  (* ---------- small facts ---------- *)
  Lemma set_qq_id : forall s : qstate, set_qq s (qq s) = s.
  Proof. destruct s; reflexivity. Qed.

  Lemma set_qq_set_qq : forall (s : qstate) a b, set_qq (set_qq s a) b = set_qq s b.
  Proof. reflexivity. Qed.

  Lemma fifo_nil : forall n (s : qstate), qq s = [] -> drain_fifo n s = Finished s.
  Proof. intros n s H. destruct n; simpl; rewrite H; reflexivity. Qed.

  Lemma batched_nil : forall n (s : qstate), qq s = [] -> drain_batched n s = Finished s.
  Proof. intros n s H. destruct n; simpl; rewrite H; reflexivity. Qed.

  Lemma tag_length : forall (l : list job) n, length (tag n l) = length l.
  Proof. induction l; simpl; intros; [reflexivity | now rewrite IHl]. Qed.

  Lemma tag_fst : forall (l : list job) n, map fst (tag n l) = seq n (length l).
  Proof. induction l; simpl; intros; [reflexivity | now rewrite IHl]. Qed.

  Lemma tag_snd : forall (l : list job) n, map snd (tag n l) = l.
  Proof. induction l; simpl; intros; [reflexivity | now rewrite IHl]. Qed.

  (* run_entry reads everything but the queue from the state; the queue it extends is its argument *)
  Lemma run_entry_queue : forall tj q0 q (s : qstate) X,
    run_entry tj (q0 ++ q) (set_qq s X) =
    (let '(s', oe) := run_entry tj q s in (set_qq s' (q0 ++ qq s'), oe)).
  Proof.
    intros. unfold Jobs.run_entry. simpl.
    destruct (exec (snd tj) (qw s)) as [[w' new] oe]. simpl.
    unfold set_qq; simpl. now rewrite app_assoc.
  Qed.

  Lemma batched_n_fst : forall n (s : qstate) k,
    fst (drain_batched_n world job err exec n s k) = drain_batched n s.
  Proof.
    induction n; intros s k; simpl.
    - destruct (qq s); reflexivity.
    - destruct (qq s) as [|e l]; [reflexivity|].
      destruct (run_batch (e :: l) (set_qq s [])) as [s'|[s' e0]]; [apply IHn | reflexivity].
  Qed.

  (* ---------- fuel ---------- *)
  Lemma fifo_add : forall n m (s : qstate),
    drain_fifo (n + m) s =
    match drain_fifo n s with OutOfFuel s' => drain_fifo m s' | r => r end.
  Proof.
    induction n; intros m s.
    - simpl. destruct (qq s) as [|e l] eqn:E.
      + now apply fifo_nil.
      + reflexivity.
    - simpl. destruct (qq s) as [|e l] eqn:E; [reflexivity|].
      destruct (run_entry e l s) as [s' [e0|]]; [reflexivity|]. apply IHn.
  Qed.

  Lemma fifo_mono : forall n k (s : qstate),
    terminated (drain_fifo n s) -> drain_fifo (n + k) s = drain_fifo n s.
  Proof.
    intros n k s H. rewrite fifo_add. destruct (drain_fifo n s); simpl in *; tauto.
  Qed.

  Lemma fifo_mono_le : forall n n' (s : qstate),
    n <= n' -> terminated (drain_fifo n s) -> drain_fifo n' s = drain_fifo n s.
  Proof. intros. replace n' with (n + (n' - n)) by lia. now apply fifo_mono. Qed.

  Lemma batched_mono : forall n k (s : qstate),
    terminated (drain_batched n s) -> drain_batched (n + k) s = drain_batched n s.
  Proof.
    induction n; intros k s H.
    - simpl in *. destruct (qq s) as [|e l] eqn:E.
      + now apply batched_nil.
      + simpl in H. tauto.
    - simpl in *. destruct (qq s) as [|e l] eqn:E; [reflexivity|].
      destruct (run_batch (e :: l) (set_qq s [])) as [s'|[s' e0]]; [|reflexivity].
      now apply IHn.
  Qed.

  (* ---------- one batch = that many FIFO steps ---------- *)
  Lemma batch_fifo : forall batch (s : qstate),
    match run_batch batch s with
    | inl s' => forall k, drain_fifo (length batch + k) (set_qq s (batch ++ qq s)) = drain_fifo k s'
    | inr (s', e) => forall k, drain_fifo (length batch + k) (set_qq s (batch ++ qq s)) = Failed s' e
    end.
  Proof.
    induction batch as [|tj rest IH]; intros s.
    - cbn [Jobs.run_batch length app Nat.add]. intros k. now rewrite set_qq_id.
    - rewrite run_batch_cons.
      destruct (run_entry tj (qq s) s) as [s1 oe] eqn:E1.
      assert (Hstep : forall k, drain_fifo (length (tj :: rest) + k) (set_qq s ((tj :: rest) ++ qq s)) =
                                match oe with
                                | Some e => Failed (clear s1) e
                                | None => drain_fifo (length rest + k) (set_qq s1 (rest ++ qq s1))
                                end).
      { intros k. cbn [length Nat.add app Jobs.drain_fifo set_qq qq]. rewrite run_entry_queue, E1. destruct oe; reflexivity. }
      destruct oe as [e|].
      + intros k. rewrite Hstep. reflexivity.
      + specialize (IH s1). destruct (run_batch rest s1) as [s'|[s' e]].
        * intros k. rewrite Hstep. apply IH.
        * intros k. rewrite Hstep. apply IH.
  Qed.

  Lemma batch_fifo_take : forall batch (s : qstate), qq s = batch ->
    match run_batch batch (set_qq s []) with
    | inl s' => forall k, drain_fifo (length batch + k) s = drain_fifo k s'
    | inr (s', e) => forall k, drain_fifo (length batch + k) s = Failed s' e
    end.
  Proof.
    intros batch s H. pose proof (batch_fifo batch (set_qq s [])) as B.
    cbn [qq set_qq] in B. rewrite app_nil_r in B.
    replace (set_qq (set_qq s []) batch) with s in B; [exact B|].
    subst batch. destruct s; reflexivity.
  Qed.

  (* ---------- batched => FIFO ---------- *)
  Lemma batched_to_fifo : forall n (s : qstate),
    terminated (drain_batched n s) -> exists m, forall k, drain_fifo (m + k) s = drain_batched n s.
  Proof.
    induction n; intros s H.
    - simpl in *. destruct (qq s) as [|e l] eqn:E; [|simpl in H; tauto].
      exists 0. intros k. now apply fifo_nil.
    - simpl in *. destruct (qq s) as [|e l] eqn:E.
      + exists 0. intros k. now apply fifo_nil.
      + pose proof (batch_fifo_take (e :: l) s E) as B.
        destruct (run_batch (e :: l) (set_qq s [])) as [s'|[s' e0]].
        * destruct (IHn s' H) as [m Hm]. exists (length (e :: l) + m). intros k.
          rewrite <- Nat.add_assoc, B. apply Hm.
        * exists (length (e :: l)). intros k. apply B.
  Qed.

  (* ---------- FIFO => batched ---------- *)
  Lemma fifo_to_batched : forall m (s : qstate),
    terminated (drain_fifo m s) -> exists n, drain_batched n s = drain_fifo m s.
  Proof.
    induction m as [m IH] using lt_wf_ind. intros s H.
    destruct (qq s) as [|e l] eqn:E.
    - exists 0. rewrite fifo_nil, batched_nil; auto.
    - assert (Hm : 1 <= m).
      { destruct m; [|lia]. simpl in H. rewrite E in H. simpl in H. tauto. }
      pose proof (batch_fifo_take (e :: l) s E) as B.
      set (L := length (e :: l)) in *. assert (HL : 1 <= L) by (unfold L; simpl; lia).
      destruct (run_batch (e :: l) (set_qq s [])) as [s'|[s' e0]] eqn:RB.
      + assert (E1 : drain_fifo (Nat.max m L) s = drain_fifo m s) by (apply fifo_mono_le; [lia|exact H]).
        assert (E2 : drain_fifo (Nat.max m L) s = drain_fifo (Nat.max m L - L) s').
        { replace (Nat.max m L) with (L + (Nat.max m L - L)) at 1 by lia. apply B. }
        assert (T : terminated (drain_fifo (Nat.max m L - L) s')) by (rewrite <- E2, E1; exact H).
        destruct (IH (Nat.max m L - L) ltac:(lia) s' T) as [n Hn].
        exists (S n). simpl. rewrite E, RB, Hn, <- E2, E1. reflexivity.
      + assert (E0 : drain_fifo L s = Failed s' e0).
        { replace L with (L + 0) by lia. apply B. }
        assert (E1 : drain_fifo (Nat.max m L) s = drain_fifo m s) by (apply fifo_mono_le; [lia|exact H]).
        assert (E2 : drain_fifo (Nat.max m L) s = drain_fifo L s).
        { apply fifo_mono_le; [lia|]. rewrite E0. exact I. }
        exists 1. simpl. rewrite E, RB, <- E1, E2, E0. reflexivity.
  Qed.

  Theorem batched_eq_fifo_lemma : forall (s : qstate) n m,
    terminated (drain_batched n s) -> terminated (drain_fifo m s) ->
    drain_batched n s = drain_fifo m s.
  Proof.
    intros s n m Hb Hf. destruct (batched_to_fifo n s Hb) as [m0 Hm0].
    rewrite <- (fifo_mono_le m (Nat.max m m0) s ltac:(lia) Hf).
    replace (Nat.max m m0) with (m0 + (Nat.max m m0 - m0)) by lia. symmetry. apply Hm0.
  Qed.

  Theorem terminates_iff_lemma : forall s : qstate,
    (exists n, terminated (drain_batched n s)) <-> (exists m, terminated (drain_fifo m s)).
  Proof.
    intros s; split.
    - intros [n H]. destruct (batched_to_fifo n s H) as [m Hm]. exists (m + 0). now rewrite Hm.
    - intros [m H]. destruct (fifo_to_batched m s H) as [n Hn]. exists n. now rewrite Hn.
  Qed.

  Theorem fuel_irrelevant_lemma : forall (s : qstate) n n',
    terminated (drain_batched n s) -> terminated (drain_batched n' s) ->
    drain_batched n s = drain_batched n' s.
  Proof.
    intros s n n' H H'.
    destruct (Nat.le_ge_cases n n') as [L|L].
    - replace n' with (n + (n' - n)) by lia. symmetry. now apply batched_mono.
    - replace n with (n' + (n - n')) by lia. now apply batched_mono.
  Qed.

  (* ---------- each job exactly once, in enqueue order ---------- *)
  Definition wf (t0 : nat) (s : qstate) : Prop :=
    qlog s = qdone s ++ qq s /\
    map fst (qlog s) = seq t0 (length (qlog s)) /\
    qnext s = t0 + length (qlog s).

  Lemma init_wf : forall w t0 l, wf t0 (init w t0 l).
  Proof.
    intros. unfold wf, init; simpl. rewrite tag_fst, tag_length. auto.
  Qed.

  Lemma run_entry_wf : forall t0 (s : qstate) tj rest s' oe,
    wf t0 s -> qq s = tj :: rest -> run_entry tj rest s = (s', oe) -> wf t0 s'.
  Proof.
    intros t0 s tj rest s' oe (H1 & H2 & H3) E R. unfold Jobs.run_entry in R.
    destruct (exec (snd tj) (qw s)) as [[w' new] oe']. inversion R; subst; clear R.
    unfold wf; simpl. repeat split.
    - rewrite H1, E. rewrite <- !app_assoc. reflexivity.
    - rewrite map_app, H2, tag_fst, app_length, tag_length, seq_app, H3. reflexivity.
    - rewrite app_length, tag_length. lia.
  Qed.

  Definition once_post (t0 : nat) (o : outcome) : Prop :=
    match o with
    | Finished s' =>
        qq s' = [] /\ qdone s' = qlog s' /\ map fst (qdone s') = seq t0 (qnext s' - t0)
    | Failed s' _ =>
        qq s' = [] /\ (exists dropped, qlog s' = qdone s' ++ dropped) /\
        map fst (qlog s') = seq t0 (qnext s' - t0) /\ qdone s' <> []
    | OutOfFuel s' => wf t0 s'
    end.

  Lemma each_once_fifo : forall fuel t0 (s : qstate), wf t0 s -> once_post t0 (drain_fifo fuel s).
  Proof.
    induction fuel; intros t0 s W.
    - simpl. destruct (qq s) as [|e l] eqn:E; simpl; [|exact W].
      destruct W as (H1 & H2 & H3). rewrite E, app_nil_r in H1.
      split; [assumption|]. split; [now symmetry|]. rewrite <- H1, H2, H3. f_equal. lia.
    - simpl. destruct (qq s) as [|e l] eqn:E.
      + simpl. destruct W as (H1 & H2 & H3). rewrite E, app_nil_r in H1.
        split; [assumption|]. split; [now symmetry|]. rewrite <- H1, H2, H3. f_equal. lia.
      + destruct (run_entry e l s) as [s' oe] eqn:R.
        pose proof (run_entry_wf t0 s e l s' oe W E R) as W'.
        destruct oe as [e0|]; [|now apply IHfuel].
        simpl. destruct W' as (H1 & H2 & H3). repeat split.
        * exists (qq s'). exact H1.
        * rewrite H2, H3. f_equal. lia.
        * unfold Jobs.run_entry in R. destruct (exec (snd e) (qw s)) as [[w' new] oe'].
          inversion R; subst; simpl. intros C. apply app_eq_nil in C. destruct C; discriminate.
  Qed.

  Theorem each_once_lemma : forall n t0 (s : qstate), wf t0 s ->
    terminated (drain_batched n s) -> once_post t0 (drain_batched n s).
  Proof.
    intros n t0 s W T. destruct (batched_to_fifo n s T) as [m Hm].
    rewrite <- (Hm 0). now apply each_once_fifo.
  Qed.

  (* ---------- several calls ---------- *)
  Theorem chunks_eq_fifo : forall ks (s : qstate),
    drain_chunks ks s = drain_fifo (list_sum ks) s.
  Proof.
    induction ks as [|k ks IH]; intros s; simpl.
    - reflexivity.
    - rewrite fifo_add. destruct (drain_fifo k s); auto.
  Qed.

  Theorem split_drain_lemma : forall ks n (s : qstate),
    terminated (drain_chunks ks s) -> terminated (drain_batched n s) ->
    drain_chunks ks s = drain_batched n s.
  Proof.
    intros ks n s H1 H2. rewrite chunks_eq_fifo in *. symmetry. now apply batched_eq_fifo_lemma.
  Qed.

  Lemma batched_final_empty : forall n (s : qstate),
    match drain_batched n s with
    | Finished s' => qq s' = []
    | Failed s' _ => qq s' = []
    | OutOfFuel _ => True
    end.
  Proof.
    induction n; intros s; simpl.
    - destruct (qq s) as [|e l] eqn:E; simpl; auto.
    - destruct (qq s) as [|e l] eqn:E; simpl; auto.
      assert (B : forall batch (s0 : qstate), match run_batch batch s0 with inr (s', _) => qq s' = [] | inl _ => True end).
      { induction batch as [|a batch IHb]; intros s0.
        - exact I.
        - rewrite run_batch_cons. destruct (run_entry a (qq s0) s0) as [s1 [e1|]].
          + reflexivity.
          + apply IHb. }
      specialize (B (e :: l) (set_qq s [])).
      destruct (run_batch (e :: l) (set_qq s [])) as [s'|[s' e0]]; [apply IHn | exact B].
  Qed.

  Theorem drain_again_lemma : forall n m (s : qstate),
    terminated (drain_batched n s) ->
    again (drain_batched m) (drain_batched n s) = drain_batched n s.
  Proof.
    intros n m s T. pose proof (batched_final_empty n s) as F.
    destruct (drain_batched n s); simpl in *; try tauto.
    - now rewrite batched_nil.
    - now rewrite batched_nil.
  Qed.

  (* ---------- the error case ---------- *)
  Theorem error_case_lemma : forall n (s : qstate) s' e,
    drain_batched n s = Failed s' e ->
    qq s' = [] /\
    (exists m, forall k, drain_fifo (m + k) s = Failed s' e) /\
    (forall m, drain_batched m s' = Finished s').
  Proof.
    intros n s s' e H. pose proof (batched_final_empty n s) as F. rewrite H in F.
    split; [exact F|]. split.
    - assert (T : terminated (drain_batched n s)) by (rewrite H; exact I).
      destruct (batched_to_fifo n s T) as [m Hm]. exists m. intros k. now rewrite Hm.
    - intros m. now apply batched_nil.
  Qed.

End JobsProofs.

(* ================================================================================================ *)
(* The whole loop *)
Section LoopProofs.
  Variable world : Type.
  Variable job : Type.
  Variable err : Type.
  Variable now : world -> nat.
  Variable execk : job -> world -> world * list (kind * job) * option err.

  Notation lstate := (lstate world job).
  Notation lrun := (lrun world job err execk).
  Notation lbatch := (lbatch world job err execk).
  Notation run_loop := (run_loop world job err now execk).

  Fixpoint promise_entries (n : nat) (new : list (kind * job)) : list (nat * job) :=
    match new with
    | [] => []
    | (KPromise, j) :: r => (n, j) :: promise_entries (S n) r
    | (_, _) :: r => promise_entries (S n) r
    end.

  Lemma enqueue_all_promise : forall new n p g t plog,
    let '(p', _, _, plog') := enqueue_all n new p g t plog in
    p' = p ++ promise_entries n new /\ plog' = plog ++ promise_entries n new.
  Proof.
    induction new as [|[k j] r IH]; intros n p g t plog; simpl.
    - now rewrite !app_nil_r.
    - destruct k.
      + specialize (IH (S n) (p ++ [(n, j)]) g t (plog ++ [(n, j)])).
        destruct (enqueue_all (S n) r (p ++ [(n, j)]) g t (plog ++ [(n, j)])) as [[[p' g'] t'] plog'].
        destruct IH as [A B]. rewrite A, B, <- !app_assoc. auto.
      + specialize (IH (S n) p (g ++ [(n, j)]) t plog).
        destruct (enqueue_all (S n) r p (g ++ [(n, j)]) t plog) as [[[p' g'] t'] plog']. exact IH.
      + specialize (IH (S n) p g (insert_timer key (n, j) t) plog).
        destruct (enqueue_all (S n) r p g (insert_timer key (n, j) t) plog) as [[[p' g'] t'] plog']. exact IH.
  Qed.

  (* effect of one job on the ghost bookkeeping of promise jobs *)
  Lemma lrun_promise : forall isp tj (s : lstate),
    let '(s', _) := lrun isp tj s in
    exists X, lp s' = lp s ++ X /\ lplog s' = lplog s ++ X /\
              lpdone s' = (if isp then lpdone s ++ [tj] else lpdone s).
  Proof.
    intros. unfold Jobs.lrun. destruct (execk (snd tj) (lw s)) as [[w' new] oe].
    pose proof (enqueue_all_promise new (lnext s) (lp s) (lg s) (ltm s) (lplog s)) as E.
    destruct (enqueue_all (lnext s) new (lp s) (lg s) (ltm s) (lplog s)) as [[[p' g'] t'] plog'].
    destruct E as [A B]. exists (promise_entries (lnext s) new). simpl. auto.
  Qed.

  (* invariant with a batch in flight *)
  Definition linv (inflight : list (nat * job)) (s : lstate) : Prop :=
    lplog s = lpdone s ++ inflight ++ lp s.

  Lemma lbatch_promise : forall batch (s : lstate), linv batch s ->
    match lbatch true batch s with
    | inl s' => linv [] s'
    | inr (s', _) => exists dropped, lplog s' = lpdone s' ++ dropped
    end.
  Proof.
    induction batch as [|tj rest IH]; intros s I; simpl.
    - exact I.
    - pose proof (lrun_promise true tj s) as R. destruct (lrun true tj s) as [s1 oe].
      destruct R as (X & A & B & C).
      assert (I1 : linv rest s1).
      { unfold linv in *. rewrite B, C, I, A. simpl. rewrite <- !app_assoc. simpl. rewrite <- !app_assoc. reflexivity. }
      destruct oe as [e|].
      + exists (rest ++ lp s1). exact I1.
      + now apply IH.
  Qed.

  Lemma lbatch_other : forall batch (s : lstate), linv [] s ->
    match lbatch false batch s with
    | inl s' => linv [] s'
    | inr (s', _) => exists dropped, lplog s' = lpdone s' ++ dropped
    end.
  Proof.
    induction batch as [|tj rest IH]; intros s I; simpl.
    - exact I.
    - pose proof (lrun_promise false tj s) as R. destruct (lrun false tj s) as [s1 oe].
      destruct R as (X & A & B & C).
      assert (I1 : linv [] s1).
      { unfold linv in *. simpl in *. rewrite B, C, I, A. rewrite <- !app_assoc. reflexivity. }
      destruct oe as [e|].
      + exists (lp s1). exact I1.
      + now apply IH.
  Qed.

  Definition loop_post (o : loutcome world job err) : Prop :=
    match o with
    | LFinished s' => lpdone s' = lplog s' /\ lp s' = []
    | LFailed s' _ => exists dropped, lplog s' = lpdone s' ++ dropped
    | LOutOfFuel s' => linv [] s'
    end.

  Theorem loop_promise_fifo_lemma : forall fuel (s : lstate), linv [] s -> loop_post (run_loop fuel s).
  Proof.
    induction fuel; intros s I; simpl.
    - exact I.
    - assert (I0 : linv [] (take_t now s)) by exact I.
      pose proof (lbatch_other (due (now (lw s)) (ltm s)) _ I0) as B1.
      destruct (lbatch false (due (now (lw s)) (ltm s)) (take_t now s)) as [s1|[s1 e1]]; [|exact B1].
      destruct (lempty s1) eqn:E.
      + simpl. unfold lempty in E. destruct (lp s1) eqn:Ep; [|discriminate].
        unfold linv in B1. rewrite Ep in B1. simpl in B1. rewrite app_nil_r in B1. auto.
      + assert (I2 : linv (lp s1) (take_p s1)).
        { unfold linv in *. simpl in *. now rewrite app_nil_r. }
        pose proof (lbatch_promise (lp s1) _ I2) as B2.
        destruct (lbatch true (lp s1) (take_p s1)) as [s2|[s2 e2]]; [|exact B2].
        assert (I3 : linv [] (take_g s2)) by exact B2.
        pose proof (lbatch_other (lg s2) _ I3) as B3.
        destruct (lbatch false (lg s2) (take_g s2)) as [s3|[s3 e3]]; [|exact B3].
        now apply IHfuel.
  Qed.

  (* ---------- with promise jobs only, the loop is drain_batched ---------- *)
  Variable exec : job -> world -> world * list job * option err.
  Hypothesis execk_promise_only : forall j w,
    execk j w = (let '(w', new, oe) := exec j w in (w', map (fun x => (KPromise, x)) new, oe)).

  Notation drain_batched := (drain_batched world job err exec).
  Notation run_batch := (run_batch world job err exec).

  Definition proj (s : lstate) : qstate world job :=
    mkQ (lw s) (lp s) (lnext s) (lpdone s) (lplog s).

  Definition simple (s : lstate) : Prop := lg s = [] /\ ltm s = [] /\ lall s = lpdone s.

  Lemma enqueue_all_only_promise : forall (new : list job) n p g t plog,
    enqueue_all n (map (fun x => (KPromise, x)) new) p g t plog = (p ++ tag n new, g, t, plog ++ tag n new).
  Proof.
    induction new; intros; simpl.
    - now rewrite !app_nil_r.
    - rewrite IHnew, <- !app_assoc. reflexivity.
  Qed.

  Lemma lrun_simple : forall tj (s : lstate), simple s ->
    let '(s', oe) := lrun true tj s in
    simple s' /\ run_entry world job err exec tj (lp s) (proj s) = (proj s', oe).
  Proof.
    intros tj s (G & T & A). unfold Jobs.lrun, Jobs.run_entry. rewrite execk_promise_only. simpl.
    destruct (exec (snd tj) (lw s)) as [[w' new] oe]. rewrite enqueue_all_only_promise, map_length.
    split.
    - unfold simple; simpl. rewrite A. auto.
    - reflexivity.
  Qed.

  Lemma lbatch_simple : forall batch (s : lstate), simple s ->
    match lbatch true batch s, run_batch batch (proj s) with
    | inl s', inl q' => simple s' /\ proj s' = q'
    | inr (s', e), inr (q', e') => simple s' /\ proj s' = q' /\ e = e'
    | _, _ => False
    end.
  Proof.
    induction batch as [|tj rest IH]; intros s S; simpl.
    - auto.
    - pose proof (lrun_simple tj s S) as R. destruct (lrun true tj s) as [s1 oe].
      destruct R as [S1 R]. simpl qq. rewrite R. destruct oe as [e|].
      + repeat split; auto. destruct S1 as (G & T & A). unfold simple, lclear; simpl. auto.
      + now apply IH.
  Qed.

  Definition lproj (o : loutcome world job err) : outcome world job err :=
    match o with
    | LFinished s => Finished (proj s)
    | LFailed s e => Failed (proj s) e
    | LOutOfFuel s => OutOfFuel (proj s)
    end.

  Lemma loop_iter_simple : forall f w p nx pd pl,
    run_loop (S f) (mkL w p [] [] nx pd pl pd) =
    match p with
    | [] => LFinished (mkL w [] [] [] nx pd pl pd)
    | _ => match lbatch true p (mkL w [] [] [] nx pd pl pd) with
           | inr (s2, e) => LFailed s2 e
           | inl s2 => match lbatch false (lg s2) (take_g s2) with
                       | inr (s3, e) => LFailed s3 e
                       | inl s3 => run_loop f s3
                       end
           end
    end.
  Proof. intros. destruct p; reflexivity. Qed.

  Theorem loop_is_batched_lemma : forall n (s : lstate), simple s ->
    terminated (drain_batched n (proj s)) ->
    lproj (run_loop (S n) s) = drain_batched n (proj s).
  Proof.
    induction n; intros s S T.
    - destruct s as [w p g t nx pd pl al]. destruct S as (G & T0 & A). simpl in G, T0, A. subst g t al.
      rewrite loop_iter_simple.
      destruct p as [|e l]; [reflexivity | simpl in T; tauto].
    - destruct s as [w p g t nx pd pl al]. destruct S as (G & T0 & A). simpl in G, T0, A. subst g t al.
      rewrite loop_iter_simple.
      destruct p as [|e l]; [reflexivity|].
      assert (S0 : simple (mkL w [] [] [] nx pd pl pd)) by (unfold simple; simpl; auto).
      pose proof (lbatch_simple (e :: l) _ S0) as B.
      rewrite (batched_S_cons world job err exec n (proj (mkL w (e :: l) [] [] nx pd pl pd)) e l eq_refl) in *.
      change (set_qq (proj (mkL w (e :: l) [] [] nx pd pl pd)) []) with (proj (mkL w [] [] [] nx pd pl pd)) in *.
      destruct (lbatch true (e :: l) (mkL w [] [] [] nx pd pl pd)) as [s2|[s2 e2]];
        destruct (run_batch (e :: l) (proj (mkL w [] [] [] nx pd pl pd))) as [q2|[q2 e2']]; try tauto.
      + destruct B as [S2 P2]. subst q2.
        destruct s2 as [w2 p2 g2 t2 nx2 pd2 pl2 al2]. destruct S2 as (G2 & T2 & A2). simpl in G2, T2, A2. subst g2 t2 al2.
        cbn [lg take_g Jobs.lbatch lw lp ltm lnext lpdone lplog lall].
        apply IHn; [unfold simple; simpl; auto | exact T].
      + destruct B as (S2 & P2 & Ee). subst. reflexivity.
  Qed.

End LoopProofs.
