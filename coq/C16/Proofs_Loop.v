(* C16: the iteration-counting loop of LoopCase.v is Jobs.run_loop (so every theorem about run_loop speaks about
   the runs the correspondence executes), and the counter counts what it says. *)
From Coq Require Import List Arith Lia Bool.
Import ListNotations.
From C16 Require Import Jobs LoopCase.

Section LoopNProofs.
  Variable world : Type.
  Variable job : Type.
  Variable err : Type.
  Variable now : world -> nat.
  Variable execk : job -> world -> world * list (kind * job) * option err.

  Notation run_loop := (run_loop world job err now execk).
  Notation run_loop_n := (run_loop_n world job err now execk).
  Notation lbatch := (lbatch world job err execk).

  Lemma run_loop_n_fst : forall fuel s k, fst (run_loop_n fuel s k) = run_loop fuel s.
  Proof.
    induction fuel; intros s k; simpl; [reflexivity|].
    destruct (lbatch false (due (now (lw s)) (ltm s)) (take_t now s)) as [s1|[s1 e1]]; [|reflexivity].
    destruct (lempty s1); [reflexivity|].
    destruct (lbatch true (lp s1) (take_p s1)) as [s2|[s2 e2]]; [|reflexivity].
    destruct (lbatch false (lg s2) (take_g s2)) as [s3|[s3 e3]]; [|reflexivity].
    apply IHfuel.
  Qed.

  (* the counter: never more than the fuel; exactly the fuel when the fuel ran out; and a run that ended
     (Ok or Err) after c iterations ends the same way, with the same count, for every larger fuel *)
  Lemma run_loop_n_count : forall fuel s k,
    k <= snd (run_loop_n fuel s k) <= k + fuel /\
    (match fst (run_loop_n fuel s k) with LOutOfFuel _ => snd (run_loop_n fuel s k) = k + fuel | _ => True end).
  Proof.
    induction fuel; intros s k; simpl; [split; lia|].
    destruct (lbatch false (due (now (lw s)) (ltm s)) (take_t now s)) as [s1|[s1 e1]]; [|simpl; split; [lia|trivial]].
    destruct (lempty s1); [simpl; split; [lia|trivial]|].
    destruct (lbatch true (lp s1) (take_p s1)) as [s2|[s2 e2]]; [|simpl; split; [lia|trivial]].
    destruct (lbatch false (lg s2) (take_g s2)) as [s3|[s3 e3]]; [|simpl; split; [lia|trivial]].
    specialize (IHfuel s3 (S k)). destruct IHfuel as [A B]. split; [lia|].
    destruct (fst (run_loop_n fuel s3 (S k))); auto. lia.
  Qed.

  Lemma run_loop_n_mono : forall fuel s k extra,
    (match fst (run_loop_n fuel s k) with LOutOfFuel _ => False | _ => True end) ->
    run_loop_n (fuel + extra) s k = run_loop_n fuel s k.
  Proof.
    induction fuel; intros s k extra T; simpl in *; [tauto|].
    destruct (lbatch false (due (now (lw s)) (ltm s)) (take_t now s)) as [s1|[s1 e1]]; [|reflexivity].
    destruct (lempty s1); [reflexivity|].
    destruct (lbatch true (lp s1) (take_p s1)) as [s2|[s2 e2]]; [|reflexivity].
    destruct (lbatch false (lg s2) (take_g s2)) as [s3|[s3 e3]]; [|reflexivity].
    now apply IHfuel.
  Qed.
  Theorem loop_counter_lemma : forall fuel s k,
    fst (run_loop_n fuel s k) = run_loop fuel s /\
    k <= snd (run_loop_n fuel s k) <= k + fuel /\
    match run_loop fuel s with
    | LOutOfFuel _ => snd (run_loop_n fuel s k) = k + fuel
    | _ => forall extra, run_loop_n (fuel + extra) s k = run_loop_n fuel s k
    end.
  Proof.
    intros fuel s k. pose proof (run_loop_n_fst fuel s k) as F. pose proof (run_loop_n_count fuel s k) as [A B].
    split; [exact F|]. split; [exact A|]. rewrite <- F.
    destruct (fst (run_loop_n fuel s k)) eqn:E; try exact B;
      intros extra; apply run_loop_n_mono; rewrite E; exact I.
  Qed.
End LoopNProofs.
