(* C16, model A continued: the run_jobs_async loop of Jobs.v (a) with an iteration counter and (b) instantiated
   with a concrete behaviour table of native jobs, so that the loop itself -- promise, generic and timeout
   jobs, the `key < now` due test, the order promise batch -> generic batch, clear() on Err, the number of
   polls -- can be run side by side with SimpleJobExecutor::run_jobs_async (harness mode `jloop`).
   Definitions only (proofs: Proofs_Jobs.v / Proofs_Loop.v). *)
From Coq Require Import List Arith Bool.
Import ListNotations.
From C16 Require Import Jobs.

Section LoopN.
  Variable world : Type.
  Variable job : Type.
  Variable err : Type.
  Variable now : world -> nat.
  Variable execk : job -> world -> world * list (kind * job) * option err.

  (* Jobs.run_loop, also counting the iterations it started: every iteration ends in `yield_now().await`
     (the future returns Pending), in `break` or in `return Err`, so the count is the number of polls of the
     run_jobs_async future (harness: jpolls) *)
  Fixpoint run_loop_n (fuel : nat) (s : lstate world job) (k : nat) {struct fuel} : loutcome world job err * nat :=
    match fuel with
    | 0 => (LOutOfFuel s, k)
    | S f =>
      match lbatch world job err execk false (due (now (lw s)) (ltm s)) (take_t now s) with
      | inr (s1, e) => (LFailed s1 e, S k)
      | inl s1 =>
        if lempty s1 then (LFinished s1, S k)
        else
          match lbatch world job err execk true (lp s1) (take_p s1) with
          | inr (s2, e) => (LFailed s2 e, S k)
          | inl s2 =>
            match lbatch world job err execk false (lg s2) (take_g s2) with
            | inr (s3, e) => (LFailed s3 e, S k)
            | inl s3 => run_loop_n f s3 (S k)
            end
          end
      end
    end.
End LoopN.

(* ---------- a concrete family of behaviours: tables of native jobs ---------- *)
(* an enqueue request: (kind code, delay in ms, job id); kind code 0 = promise job, 1 = generic job,
   anything else = timeout job *)
Definition enq := (nat * nat * nat)%type.

(* what job i does when it runs: log its id, move the clock forward by b_adv ms, enqueue b_new in order,
   return Err iff b_err *)
Record beh : Type := mkB { b_adv : nat; b_err : bool; b_new : list enq }.

(* the world of these jobs: (the FixedClock in ms, the ids of the executed jobs in execution order) *)
Definition tworld := (nat * list nat)%type.
Definition tnow (w : tworld) : nat := fst w.

(* Job::TimeoutJob(t) => clock_jobs.entry(now + t.timeout()): the key is computed when enqueue_job runs *)
Definition mk_kind (clk : nat) (e : enq) : kind * nat :=
  let '(k, d, c) := e in
  (match k with 0 => KPromise | 1 => KGeneric | _ => KTimeout (clk + d) end, c).

Definition texec (tbl : list beh) (j : nat) (w : tworld) : tworld * list (kind * nat) * option unit :=
  match nth_error tbl j with
  | None => ((fst w, snd w ++ [j]), [], None)
  | Some b =>
    let clk := fst w + b_adv b in
    ((clk, snd w ++ [j]), map (mk_kind clk) (b_new b), if b_err b then Some tt else None)
  end.

(* the host enqueues `init` at clock 0 before the first run_jobs_async *)
Definition tinit (init : list enq) : lstate tworld nat :=
  let new := map (mk_kind 0) init in
  let '(p, g, t, plog) := enqueue_all 0 new [] [] [] [] in
  mkL (0, []) p g t (List.length new) [] plog [].

(* the host moves the clock while no run_jobs_async future exists *)
Definition bump (d : nat) (s : lstate tworld nat) : lstate tworld nat :=
  mkL (fst (lw s) + d, snd (lw s)) (lp s) (lg s) (ltm s) (lnext s) (lpdone s) (lplog s) (lall s).

Definition ocode (o : loutcome tworld nat unit) : nat :=
  match o with LFinished _ => 0 | LFailed _ _ => 1 | LOutOfFuel _ => 2 end.
Definition ostate (o : loutcome tworld nat unit) : lstate tworld nat :=
  match o with LFinished s => s | LFailed s _ => s | LOutOfFuel s => s end.

(* One case of the correspondence: poll run_jobs_async at most n times; if it is still Pending the host moves
   the clock forward by d ms and polls a fresh run_jobs_async at most m times.
   Result: ([result 1; polls 1; log length 1; result 2 (9 = no second phase); polls 2; number of promise jobs
   enqueued] ++ final log, the ghost list of executed (ticket, job id), the tickets of the executed promise jobs). *)
Definition loop_result (hd : list nat) (s : lstate tworld nat) : list nat * list (nat * nat) * list nat :=
  (hd ++ [List.length (lplog s)] ++ snd (lw s), lall s, map fst (lpdone s)).

Definition loop_case (tbl : list beh) (init : list enq) (n d m : nat) : list nat * list (nat * nat) * list nat :=
  let '(o1, k1) := run_loop_n tworld nat unit tnow (texec tbl) n (tinit init) 0 in
  let log1 := snd (lw (ostate o1)) in
  match o1 with
  | LOutOfFuel s =>
    let '(o2, k2) := run_loop_n tworld nat unit tnow (texec tbl) m (bump d s) 0 in
    loop_result [2; k1; List.length log1; ocode o2; k2] (ostate o2)
  | _ => loop_result [ocode o1; k1; List.length log1; 9; 0] (ostate o1)
  end.
