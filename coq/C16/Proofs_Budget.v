(* C16, model B: proofs about the instruction budget (definitions in Budget.v; the COST table in
   Gen/OpcodeCost.v is regenerated from the Rust sources on every run). *)
From Coq Require Import List Arith Lia Bool String.
Import ListNotations.
From C16 Require Import Budget.
From Gen Require Import OpcodeCost.

Section BudgetProofs.
  Variable st : Type.
  Variable result : Type.
  Variable opcode : Type.
  Variable fetch : st -> option opcode.
  Variable cost : opcode -> nat.
  Variable handler : opcode -> st -> flow st result.
  Variable handler_budget : opcode -> st -> nat -> flow st result * nat.
  Variable fallthrough : result.
  Variable between_polls : st -> st.

  (* the two assumptions of the property, explicit: *)
  (* (1) both dispatch tables run the same `operation`; the budget table only subtracts COST first
         (gen_c16.py checks the two macro templates token by token) *)
  Hypothesis handlers_agree : forall op s rb, handler_budget op s rb = (handler op s, rb - cost op).
  (* (2) the host executor does nothing to the context between two polls of the evaluation future *)
  Hypothesis nothing_between_polls : forall s, between_polls s = s.

  Notation run := (run st result opcode fetch handler fallthrough).
  Notation run_budget := (run_budget st result opcode fetch cost handler_budget fallthrough between_polls).

  Lemma budget_irrelevant_gen : forall b fuel rb s tr c,
    option_map (fun x => fst x) (run_budget b fuel rb s tr c) = run fuel s tr.
  Proof.
    induction fuel; intros rb s tr c; simpl; [reflexivity|].
    destruct (fetch s) as [op|]; [|reflexivity].
    rewrite handlers_agree. destruct (handler op s) as [s'|r]; [|reflexivity].
    destruct (rb - cost op =? 0).
    - rewrite nothing_between_polls. apply IHfuel.
    - apply IHfuel.
  Qed.

  Theorem budget_irrelevant_lemma : forall b fuel s,
    option_map (fun x => fst x) (eval_async st result opcode fetch cost handler_budget fallthrough between_polls b fuel s)
    = eval_sync st result opcode fetch handler fallthrough fuel s.
  Proof. intros. apply budget_irrelevant_gen. Qed.

  (* fuel irrelevance of the machine itself *)
  Lemma run_mono : forall fuel k s tr r, run fuel s tr = Some r -> run (fuel + k) s tr = Some r.
  Proof.
    induction fuel; intros k s tr r H; simpl in *; [discriminate|].
    destruct (fetch s) as [op|]; [|exact H].
    destruct (handler op s) as [s'|r']; [|exact H]. now apply IHfuel.
  Qed.

  Lemma run_budget_mono : forall b fuel k rb s tr c r,
    run_budget b fuel rb s tr c = Some r -> run_budget b (fuel + k) rb s tr c = Some r.
  Proof.
    induction fuel; intros k rb s tr c r H; simpl in *; [discriminate|].
    destruct (fetch s) as [op|]; [|exact H].
    destruct (handler_budget op s rb) as [fl rb']. destruct fl as [s'|r']; [|exact H].
    destruct (rb' =? 0); now apply IHfuel.
  Qed.

  (* ---------- how often it yields ---------- *)
  Section Bounds.
    Variable M : nat.
    Hypothesis cost_lo : forall s op, fetch s = Some op -> 1 <= cost op.
    Hypothesis cost_hi : forall s op, fetch s = Some op -> cost op <= M.

    Definition binv (b rb : nat) (c : counters) : Prop :=
      1 <= rb <= b /\
      c_yields c * b + (b - rb) <= c_cost c /\
      c_cost c <= c_yields c * (b + M - 1) + (b - rb) /\
      c_steps c <= c_cost c /\ c_cost c <= M * c_steps c.

    Definition bpost (b : nat) (c : counters) : Prop :=
      c_yields c * b <= c_cost c /\
      c_cost c <= (S (c_yields c)) * (b + M - 1) /\
      c_steps c <= c_cost c /\ c_cost c <= M * c_steps c.

    Lemma yields_bounds_gen : forall b fuel rb s tr c r tr' c',
      binv b rb c -> run_budget b fuel rb s tr c = Some (r, tr', c') -> bpost b c'.
    Proof.
      induction fuel; intros rb s tr c r tr' c' I H; simpl in H; [discriminate|].
      destruct I as (Hrb & I1 & I2 & I3 & I4).
      remember (b + M - 1) as K eqn:HK.
      assert (HK1 : b - rb <= K) by lia.
      destruct (fetch s) as [op|] eqn:F.
      - rewrite handlers_agree in H.
        pose proof (cost_lo s op F) as Lo. pose proof (cost_hi s op F) as Hi.
        destruct (handler op s) as [s'|r'].
        + destruct (rb - cost op =? 0) eqn:Z.
          * apply Nat.eqb_eq in Z. eapply IHfuel; [|exact H].
            unfold binv; simpl. rewrite <- HK. replace (b - b) with 0 by lia.
            assert (b - rb + cost op <= K) by lia.
            repeat split; try lia; rewrite ?Nat.mul_succ_r; lia.
          * apply Nat.eqb_neq in Z. eapply IHfuel; [|exact H].
            unfold binv; simpl. rewrite <- HK.
            repeat split; try lia; rewrite ?Nat.mul_succ_r; lia.
        + inversion H; subst c'; clear H. unfold bpost; simpl. rewrite <- HK.
          assert (b - rb + cost op <= K) by lia.
          repeat split; try lia; rewrite ?Nat.mul_succ_r; lia.
      - inversion H; subst c'; clear H. unfold bpost. rewrite <- HK.
        repeat split; try lia.
    Qed.

    Theorem yields_bounds_lemma : forall b fuel s r tr c, 1 <= b ->
      eval_async st result opcode fetch cost handler_budget fallthrough between_polls b fuel s = Some (r, tr, c) ->
      bpost b c.
    Proof.
      intros b fuel s r tr c Hb H. eapply yields_bounds_gen; [|exact H].
      unfold binv, zero; simpl. lia.
    Qed.
  End Bounds.

  (* budget 0: the future is Pending after every instruction that continues *)
  Lemma budget0_gen : forall fuel s tr c r tr' c',
    run_budget 0 fuel 0 s tr c = Some (r, tr', c') ->
    exists d, c_steps c' = c_steps c + d /\
              (c_yields c' = c_yields c + d \/ c_yields c' + 1 = c_yields c + d).
  Proof.
    induction fuel; intros s tr c r tr' c' H; simpl in H; [discriminate|].
    destruct (fetch s) as [op|].
    - rewrite handlers_agree in H. destruct (handler op s) as [s'|r'].
      + simpl in H. apply IHfuel in H. simpl in H. destruct H as (d & H1 & H2).
        exists (S d). split; lia.
      + inversion H; subst; simpl. exists 1. split; lia.
    - inversion H; subst. exists 0. split; lia.
  Qed.

  Theorem budget0_lemma : forall fuel s r tr c,
    eval_async st result opcode fetch cost handler_budget fallthrough between_polls 0 fuel s = Some (r, tr, c) ->
    c_yields c = c_steps c \/ c_yields c + 1 = c_steps c.
  Proof.
    intros fuel s r tr c H. apply budget0_gen in H. simpl in H. destruct H as (d & H1 & H2). lia.
  Qed.

End BudgetProofs.

(* ---------- facts about the regenerated COST table (finite: decided by computation) ---------- *)
Definition table_cost (op : nat) : nat :=
  match nth_error OPCODE_TABLE op with Some (_, c, _) => c | None => 0 end.
Definition table_reserved (op : nat) : bool :=
  match nth_error OPCODE_TABLE op with Some (_, _, r) => r | None => true end.
Definition table_max : nat := fold_right (fun e m => Nat.max (snd (fst e)) m) 0 OPCODE_TABLE.

Definition all_executable_cost_positive : bool :=
  forallb (fun e => match e with (_, c, r) => r || (1 <=? c) end) OPCODE_TABLE.
Definition all_reserved_cost_zero : bool :=
  forallb (fun e => match e with (_, c, r) => negb r || (c =? 0) end) OPCODE_TABLE.
Definition all_cost_le_max : bool :=
  forallb (fun e => match e with (_, c, _) => c <=? table_max end) OPCODE_TABLE.

Lemma table_256 : List.length OPCODE_TABLE = 256.
Proof. vm_compute. reflexivity. Qed.
Lemma table_positive : all_executable_cost_positive = true.
Proof. vm_compute. reflexivity. Qed.
Lemma table_reserved_zero : all_reserved_cost_zero = true /\ RESERVED_STRUCT_COST = 0.
Proof. vm_compute. split; reflexivity. Qed.
Lemma table_le_max : all_cost_le_max = true.
Proof. vm_compute. reflexivity. Qed.

Lemma forallb_nth : forall (A : Type) (f : A -> bool) l n x, forallb f l = true -> nth_error l n = Some x -> f x = true.
Proof.
  intros A f l n x H E. apply nth_error_In in E. rewrite forallb_forall in H. now apply H.
Qed.

(* every opcode byte that is not a Reserved mapping costs at least 1 and at most table_max:
   no instruction sequence that can actually execute is free, so no loop runs without yielding *)
Lemma table_cost_bounds : forall op, table_reserved op = false -> 1 <= table_cost op <= table_max.
Proof.
  intros op R. unfold table_cost, table_reserved in *.
  destruct (nth_error OPCODE_TABLE op) as [[[n c] r]|] eqn:E; [|discriminate].
  pose proof (forallb_nth _ _ _ _ _ table_positive E) as P. cbv beta iota in P.
  pose proof (forallb_nth _ _ _ _ _ table_le_max E) as Q. cbv beta iota in Q.
  subst r. rewrite orb_false_l in P. apply Nat.leb_le in P. apply Nat.leb_le in Q. lia.
Qed.

(* the opcodes that transfer control backwards or re-enter code all cost something (named so that a
   renamed or removed opcode breaks the proof instead of silently dropping out of the check) *)
Definition cost_of_name (n : string) : option nat :=
  match find (fun e => String.eqb (fst (fst e)) n) OPCODE_TABLE with Some (_, c, _) => Some c | None => None end.
Definition back_edge_names : list string :=
  ["Jump"; "JumpIfTrue"; "JumpIfFalse"; "JumpIfNotUndefined"; "JumpIfNullOrUndefined"; "JumpIfNotLessThan";
   "JumpIfNotLessThanOrEqual"; "JumpIfNotGreaterThan"; "JumpIfNotGreaterThanOrEqual"; "JumpIfNotEqual"; "JumpTable";
   "IncrementLoopIteration"; "Call"; "CallSpread"; "CallEval"; "CallEvalSpread"; "New"; "NewSpread"; "Return"; "Await";
   "Generator"; "GeneratorYield"; "AsyncGeneratorYield"; "Throw"; "ReThrow"; "Case"]%string.
Definition back_edges_cost_positive : bool :=
  forallb (fun n => match cost_of_name n with Some c => 1 <=? c | None => false end) back_edge_names.

Lemma back_edges_positive : back_edges_cost_positive = true.
Proof. vm_compute. reflexivity. Qed.

(* COST is a u8 *)
Lemma table_max_u8 : table_max <= 255.
Proof. apply Nat.leb_le. vm_compute. reflexivity. Qed.

(* ---------- the abstract machine instantiated with boa's opcode bytes and COST table ---------- *)
Section Boa.
  Variable st : Type.
  Variable result : Type.
  Variable fetch : st -> option nat.                 (* the opcode byte at pc *)
  Variable handler : nat -> st -> flow st result.
  Variable handler_budget : nat -> st -> nat -> flow st result * nat.
  Variable fallthrough : result.
  Variable between_polls : st -> st.
  Hypothesis handlers_agree : forall op s rb, handler_budget op s rb = (handler op s, rb - table_cost op).
  (* Reserved opcodes are never emitted by the bytecompiler (their operation is unreachable!()) *)
  Hypothesis never_reserved : forall s op, fetch s = Some op -> table_reserved op = false.

  Theorem boa_yields_lemma : forall b fuel s r tr c, 1 <= b ->
    eval_async st result nat fetch table_cost handler_budget fallthrough between_polls b fuel s = Some (r, tr, c) ->
    c_yields c * b <= table_max * c_steps c /\
    c_steps c <= S (c_yields c) * (b + table_max - 1).
  Proof.
    intros b fuel s r tr c Hb H.
    pose proof (yields_bounds_lemma st result nat fetch table_cost handler handler_budget fallthrough between_polls
                  handlers_agree table_max
                  (fun s op F => proj1 (table_cost_bounds op (never_reserved s op F)))
                  (fun s op F => proj2 (table_cost_bounds op (never_reserved s op F)))
                  b fuel s r tr c Hb H) as (A & B & C & D).
    split; lia.
  Qed.
End Boa.
