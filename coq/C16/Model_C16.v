(* C16: the executable definitions (no proofs): model A (job queue; LoopCase: the loop with a poll counter and table-driven native jobs), model B (instruction budget),
   model C (promise / await ordering semantics). *)
From C16 Require Export Jobs LoopCase Budget Promise.
