(* C16: the executable definitions (no proofs): model A (job queue), model B (instruction budget),
   model C (promise / await ordering semantics). *)
From C16 Require Export Jobs Budget Promise.
