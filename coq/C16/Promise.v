(* C16, model C: an executable semantics of promise-job ordering, written from ECMA-262 (27.2 Promise
   objects, 27.6 AsyncGenerator objects, 27.7 async functions, 9.5 jobs) -- NOT from boa.  It predicts the
   order of `print` calls of programs of a small language: promise chains, thenables, async functions,
   combinators, async generators driven by next / return / throw.
   Definitions only.

   Programs: a table of functions `function fN(a, b) { stmts }` / `async function fN(a, b) { stmts }` /
   `async function* fN(a, b) { stmts }` and a main statement list over global variables vN.
   gen/c16_gen.py prints the same AST as JavaScript and as a Gallina term. *)
From Coq Require Import List Arith Bool String DecimalString.
Import ListNotations.
From C16 Require Import Jobs.

Definition fid := nat.
Definition var := nat.

Inductive comb_kind : Type := KAll | KRace | KAllSettled | KAny.
Inductive rkind : Type := RNext | RReturn | RThrow.     (* AsyncGenerator.prototype.next / return / throw *)
(* what Get(p, "constructor") finds on a native promise p *)
Inductive ctorv : Type := CtPromise | CtSub | CtOther | CtUndef | CtNum.
Inductive gmode : Type := GProm | GOther | GThrow.
Inductive patch : Type :=
| PatGet (l : nat) (m : gmode)     (* own accessor: get constructor() { print("L<l> undefined"); return Promise / return Other / throw 41 } *)
| PatData (c : ctorv).             (* own data property: Promise, Sub, Other (a plain function), undefined, 5 *)

Inductive expr : Type :=
| EUndef
| ENum (n : nat)
| EVar (x : var)                          (* vX *)
| EArg (i : nat)                          (* a (0) or b (1) *)
| EFun (f : fid)                          (* fN *)
| EThenable (f : fid)                     (* ({k:"T", then: fN}) *)
| EThenGetter (f : fid)                   (* ({k:"G", get then() { return fN(); }}) *)
| EObj                                    (* ({k:"O"}) *)
| EResolve (e : expr)                     (* Promise.resolve(e) *)
| EReject (e : expr)                      (* Promise.reject(e) *)
| ENew (f : fid)                          (* new Promise(fN) *)
| EThen (p f r : expr)                    (* (p).then(f, r) *)
| ECatch (p r : expr)                     (* (p).catch(r) *)
| EFinally (p f : expr)                   (* (p).finally(f) *)
| EComb (k : comb_kind) (l : list expr)   (* Promise.all([...]) ... *)
| ECall (f a : expr)                      (* (f)(a) *)
| ENext (k : rkind) (g a : expr)          (* (g).next(a) / (g).return(a) / (g).throw(a) *)
| ESubResolve (e : expr)                  (* Sub.resolve(e)      with   class Sub extends Promise {} *)
| ESubNew (f : fid)                       (* new Sub(fN) *)
| EPatch (pt : patch) (e : expr).         (* pg(e, l, m) / pd(e, m): define an own "constructor" property on the promise e *)

Inductive stmt : Type :=
| SPrint (l : nat) (e : expr)             (* print("L<l> " + show(e)) *)
| SLet (x : var) (e : expr)               (* vX = e *)
| SExpr (e : expr)
| SReturn (e : expr)
| SThrow (e : expr)
| SAwait (x : var) (e : expr)             (* vX = await e *)
| SYield (x : var) (e : expr)             (* vX = yield e      (async generator bodies) *)
| SYieldStar (x : var) (e : expr)         (* vX = yield* e     (async generator bodies; e an async generator object) *)
| SForAwait (x git : var) (e : expr) (body : list stmt)
                                          (* for await (vX of (vGIT = e)) { body }   (async function bodies;
                                             body contains no return) *)
| STry (body : list stmt) (x : var) (handler : list stmt)    (* try { body } catch (e) { vX = e; handler } *)
| SHang.                                  (* for (;;) {}  -- exceeds the loop-iteration limit: an engine error *)

Inductive fkind : Type := FSync | FAsync | FAsyncGen.
Record fdef : Type := mkF { fkindof : fkind; fbody : list stmt }.
Record prog : Type := mkProg { pfuns : list fdef; pmain : list stmt }.

(* ---------- values ---------- *)
Inductive value : Type :=
| VUndef
| VNum (n : nat)
| VObj
| VProm (p : nat)
| VThenable (f : fid)
| VThenGetter (f : fid)
| VFun (c : callable)
| VArr (l : list value)
| VSettled (ok : bool) (v : value)
| VTypeError
| VAggErr (l : list value)
| VGen (g : nat)                          (* an async generator object *)
| VIter (v : value) (done : bool)         (* CreateIterResultObject *)
with callable : Type :=
| CUser (f : fid)
| CResolve (p flag : nat)                 (* promise resolve function, 27.2.1.3.2 *)
| CReject (p flag : nat)                  (* promise reject function, 27.2.1.3.1 *)
| CAwaitFul (k : nat)                     (* Await fulfilledClosure, 27.7.5.3 *)
| CAwaitRej (k : nat)
| CThenFinally (onf : value) (sub : bool) (* 27.2.5.3.1; sub: the species constructor C captured by the closure is Sub *)
| CCatchFinally (onf : value) (sub : bool)
| CValueThunk (v : value)
| CThrower (v : value)
| CAllElem (a i : nat)                    (* Promise.all resolve element function *)
| CSettledFul (a i : nat)
| CSettledRej (a i : nat)
| CAnyRej (a i : nat)
| CAGRetFul (g : nat)                     (* AsyncGeneratorAwaitReturn onFulfilled, 27.6.3.9 *)
| CAGRetRej (g : nat).

Inductive pstate : Type := Pending | Fulfilled (v : value) | Rejected (v : value).

Record cap : Type := mkCap { cprom : value; cres : callable; crej : callable }.
Record reaction : Type := mkR { rcap : option cap; rful : bool; rhandler : option callable }.
Record prom : Type := mkP { pst : pstate; pful : list reaction; prej : list reaction }.
(* where Get(p, "constructor") leads: the class the promise was constructed by (Promise or Sub: found on the prototype)
   unless an own property shadows it *)
Record pkind : Type := mkPK { psub : bool; ppatch : option patch }.

Inductive thenfn : Type := TNative | TCall (c : callable).   (* Promise.prototype.then, or a user then *)
Inductive job : Type :=
| JReact (r : reaction) (arg : value)                    (* NewPromiseReactionJob *)
| JThenable (p : nat) (thenable : value) (t : thenfn).   (* NewPromiseResolveThenableJob *)

Inductive frame : Type :=
| FSeq (rest : list stmt)
| FCatch (x : var) (handler : list stmt)
| FFor (x git : var) (body : list stmt).   (* inside the body of a for-await loop over the iterator held in vGIT *)
(* who owns a running body: a plain function, an async function (its promise capability), an async generator *)
Inductive actx : Type := ANone | AFun (c : cap) | AGen (g : nat).
(* what an Await was part of: `vX = await e`; the Await inside AsyncGeneratorYield (27.6.3.8 step 5) of `vX = yield e`;
   the Await of `return e` in an async generator / of a return resumption (AsyncGeneratorUnwrapYieldResumption) *)
Inductive kkind : Type :=
| KAwait (x : var) | KYield (x : var) | KRet
| KDeleg (x : var) (inner : nat) (isret : bool)   (* yield*: the Await of innerResult (15.5.5), inner.return path or not *)
| KDelegRet (x : var) (inner : nat)               (* yield*: AsyncGeneratorYield's own Await of a return resumption value
                                                     (AsyncGeneratorUnwrapYieldResumption) before it is forwarded *)
| KFor (x git : var) (body : list stmt)            (* for await: the Await of the next() result (14.7.5.7) *)
| KRethrow (e : value).                            (* AsyncIteratorClose(iterator, throw completion): Await of return() *)
Record kont : Type := mkK { kstmts : list stmt; kframes : list frame; kargs : list value; kctx : actx; kkindof : kkind }.
(* AsyncGeneratorRequest *)
Record request : Type := mkRq { rq_kind : rkind; rq_val : value; rq_cap : cap }.
Inductive agstate : Type := AGStart | AGYield | AGExec | AGDrain | AGDone.
Record agen : Type := mkAG {
  ag_state : agstate; ag_queue : list request; ag_fn : fid; ag_args : list value;
  ag_kont : option (list stmt * list frame * var * option nat) }.
  (* where `vX = yield` / `vX = yield*` is suspended; Some inner: delegating to that generator *)
Record comb : Type := mkComb { cvals : list value; cremaining : nat; ccap : cap; ccalled : list nat }.

Record state : Type := mkSt {
  proms : list prom;
  flags : list bool;                (* alreadyResolved records *)
  combs : list comb;
  pkinds : list pkind;              (* per promise: constructor information (default: plain %Promise% instance) *)
  konts : list (option kont);       (* suspended async function bodies; resumed at most once *)
  agens : list agen;                (* async generator objects *)
  store : list value;               (* global variables *)
  queue : list job;                 (* the job queue, HostEnqueuePromiseJob order *)
  out : list (nat * value)          (* the print trace *)
}.

Definition st0 : state := mkSt [] [] [] [] [] [] [] [] [].

Definition set_proms s x := mkSt x (flags s) (combs s) (pkinds s) (konts s) (agens s) (store s) (queue s) (out s).
Definition set_flags s x := mkSt (proms s) x (combs s) (pkinds s) (konts s) (agens s) (store s) (queue s) (out s).
Definition set_combs s x := mkSt (proms s) (flags s) x (pkinds s) (konts s) (agens s) (store s) (queue s) (out s).
Definition set_pkinds s x := mkSt (proms s) (flags s) (combs s) x (konts s) (agens s) (store s) (queue s) (out s).
Definition set_konts s x := mkSt (proms s) (flags s) (combs s) (pkinds s) x (agens s) (store s) (queue s) (out s).
Definition set_agens s x := mkSt (proms s) (flags s) (combs s) (pkinds s) (konts s) x (store s) (queue s) (out s).
Definition set_store s x := mkSt (proms s) (flags s) (combs s) (pkinds s) (konts s) (agens s) x (queue s) (out s).
Definition set_queue s x := mkSt (proms s) (flags s) (combs s) (pkinds s) (konts s) (agens s) (store s) x (out s).
Definition set_out s x := mkSt (proms s) (flags s) (combs s) (pkinds s) (konts s) (agens s) (store s) (queue s) x.

Fixpoint list_set {A : Type} (d : A) (l : list A) (n : nat) (x : A) : list A :=
  match n, l with
  | 0, [] => [x]
  | 0, _ :: r => x :: r
  | S n', [] => d :: list_set d [] n' x
  | S n', y :: r => y :: list_set d r n' x
  end.

Definition emit (l : nat) (v : value) (s : state) : state := set_out s (out s ++ [(l, v)]).
Definition enqueue (j : job) (s : state) : state := set_queue s (queue s ++ [j]).
Definition setvar (x : var) (v : value) (s : state) : state := set_store s (list_set VUndef (store s) x v).
Definition getvar (x : var) (s : state) : value := nth x (store s) VUndef.

Definition dummy_prom : prom := mkP Pending [] [].
Definition get_prom (p : nat) (s : state) : prom := nth p (proms s) dummy_prom.
Definition put_prom (p : nat) (x : prom) (s : state) : state := set_proms s (list_set dummy_prom (proms s) p x).

Definition dummy_agen : agen := mkAG AGDone [] 0 [] None.
Definition get_ag (g : nat) (s : state) : agen := nth g (agens s) dummy_agen.
Definition put_ag (g : nat) (a : agen) (s : state) : state := set_agens s (list_set dummy_agen (agens s) g a).
Definition set_ag_state (g : nat) (st : agstate) (s : state) : state :=
  let a := get_ag g s in put_ag g (mkAG st (ag_queue a) (ag_fn a) (ag_args a) (ag_kont a)) s.
Definition set_ag_kont (g : nat) (k : option (list stmt * list frame * var * option nat)) (s : state) : state :=
  let a := get_ag g s in put_ag g (mkAG (ag_state a) (ag_queue a) (ag_fn a) (ag_args a) k) s.
(* AsyncGeneratorEnqueue *)
Definition enqueue_req (g : nat) (r : request) (s : state) : state :=
  let a := get_ag g s in put_ag g (mkAG (ag_state a) (ag_queue a ++ [r]) (ag_fn a) (ag_args a) (ag_kont a)) s.

Definition new_prom (s : state) : nat * state :=
  (List.length (proms s), set_proms s (proms s ++ [dummy_prom])).
Definition new_flag (s : state) : nat * state :=
  (List.length (flags s), set_flags s (flags s ++ [false])).

(* CreateResolvingFunctions(promise) *)
Definition create_resolving (p : nat) (s : state) : callable * callable * state :=
  let '(fl, s1) := new_flag s in (CResolve p fl, CReject p fl, s1).

(* NewPromiseCapability(%Promise%) *)
Definition new_cap (s : state) : cap * state :=
  let '(p, s1) := new_prom s in
  let '(rs, rj, s2) := create_resolving p s1 in
  (mkCap (VProm p) rs rj, s2).

Definition std_kind : pkind := mkPK false None.
Definition get_kind (p : nat) (s : state) : pkind := nth p (pkinds s) std_kind.
Definition put_kind (p : nat) (k : pkind) (s : state) : state := set_pkinds s (list_set std_kind (pkinds s) p k).

(* NewPromiseCapability(C) for C = %Promise% (sub = false) or C = Sub (sub = true: Construct(Sub, « executor »), whose
   default derived constructor calls super(executor)) *)
Definition new_cap_c (sub : bool) (s : state) : cap * state :=
  let '(c, s1) := new_cap s in
  match cprom c with
  | VProm p => (c, if sub then put_kind p (mkPK true None) s1 else s1)
  | _ => (c, s1)
  end.

(* TriggerPromiseReactions *)
Fixpoint trigger (rs : list reaction) (arg : value) (s : state) : state :=
  match rs with
  | [] => s
  | r :: rest => trigger rest arg (enqueue (JReact r arg) s)
  end.

(* FulfillPromise / RejectPromise *)
Definition fulfill (p : nat) (v : value) (s : state) : state :=
  let pr := get_prom p s in
  trigger (pful pr) v (put_prom p (mkP (Fulfilled v) [] []) s).
Definition reject (p : nat) (v : value) (s : state) : state :=
  let pr := get_prom p s in
  trigger (prej pr) v (put_prom p (mkP (Rejected v) [] []) s).

Definition callable_of (v : value) : option callable :=
  match v with VFun c => Some c | _ => None end.

(* PerformPromiseThen(promise, onFulfilled, onRejected, resultCapability) *)
Definition perform_then (p : nat) (onf onr : option callable) (c : option cap) (s : state) : state :=
  let pr := get_prom p s in
  let fr := mkR c true onf in
  let rr := mkR c false onr in
  match pst pr with
  | Pending => put_prom p (mkP Pending (pful pr ++ [fr]) (prej pr ++ [rr])) s
  | Fulfilled v => enqueue (JReact fr v) s
  | Rejected v => enqueue (JReact rr v) s
  end.


(* ---------- results ---------- *)
Inductive res (A : Type) : Type :=
| Ok (a : A) (s : state)
| Thr (v : value) (s : state)       (* a JavaScript exception *)
| Abort (s : state)                 (* an engine error (runtime limit): not catchable, not a rejection *)
| NoFuel
| Stuck.                            (* outside the modelled fragment (e.g. await in a sync function) *)
Arguments Ok {A}. Arguments Thr {A}. Arguments Abort {A}. Arguments NoFuel {A}. Arguments Stuck {A}.

Definition bind {A B : Type} (r : res A) (k : A -> state -> res B) : res B :=
  match r with
  | Ok a s => k a s
  | Thr v s => Thr v s
  | Abort s => Abort s
  | NoFuel => NoFuel
  | Stuck => Stuck
  end.

(* Get(p, "constructor") on a native promise: observable when an accessor was installed *)
Definition get_ctor (p : nat) (s : state) : res ctorv :=
  let k := get_kind p s in
  match ppatch k with
  | Some (PatGet l m) =>
    let s1 := emit l VUndef s in
    match m with GProm => Ok CtPromise s1 | GOther => Ok CtOther s1 | GThrow => Thr (VNum 41) s1 end
  | Some (PatData c) => Ok c s
  | None => Ok (if psub k then CtSub else CtPromise) s
  end.

(* SpeciesConstructor(p, %Promise%), 7.3.22: true = Sub (Sub[@@species] is the inherited getter returning `this`),
   false = %Promise% (constructor undefined, or Other whose @@species is undefined); a non-object constructor: TypeError *)
Definition species (p : nat) (s : state) : res bool :=
  bind (get_ctor p s) (fun c s1 =>
    match c with
    | CtSub => Ok true s1
    | CtNum => Thr VTypeError s1
    | _ => Ok false s1
    end).

(* Promise.prototype.then on a native promise, 27.2.5.4 *)
Definition promise_then (p : nat) (onf onr : value) (s : state) : res value :=
  bind (species p s) (fun sub s1 =>
    let '(c, s2) := new_cap_c sub s1 in
    Ok (cprom c) (perform_then p (callable_of onf) (callable_of onr) (Some c) s2)).

Inductive completion : Type := CNormal | CReturn (v : value) | CThrow (v : value) | CSuspend.

Definition arg0 (args : list value) : value := nth 0 args VUndef.

Definition is_object (v : value) : bool :=
  match v with VUndef | VNum _ => false | _ => true end.

Section Open.
  (* the recursive knot: calling a function value with less fuel *)
  Variable callf : callable -> list value -> state -> res value.

  (* Get(resolution, "then"): None = not callable *)
  Definition get_then (v : value) (s : state) : res (option thenfn) :=
    match v with
    | VProm _ => Ok (Some TNative) s
    | VThenable f => Ok (Some (TCall (CUser f))) s
    | VThenGetter g =>
        bind (callf (CUser g) [] s) (fun t s1 =>
          match t with VFun c => Ok (Some (TCall c)) s1 | _ => Ok None s1 end)
    | _ => Ok None s
    end.

  (* Promise Resolve Functions, 27.2.1.3.2 *)
  Definition resolve_fn (p fl : nat) (v : value) (s : state) : res value :=
    if nth fl (flags s) true then Ok VUndef s
    else
      let s := set_flags s (list_set true (flags s) fl true) in
      match v with
      | VProm q => if q =? p then Ok VUndef (reject p VTypeError s) else
                   Ok VUndef (enqueue (JThenable p v TNative) s)
      | _ =>
        if negb (is_object v) then Ok VUndef (fulfill p v s)
        else
          match get_then v s with
          | Thr e s1 => Ok VUndef (reject p e s1)
          | Ok None s1 => Ok VUndef (fulfill p v s1)
          | Ok (Some t) s1 => Ok VUndef (enqueue (JThenable p v t) s1)
          | Abort s1 => Abort s1
          | NoFuel => NoFuel
          | Stuck => Stuck
          end
      end.

  Definition reject_fn (p fl : nat) (v : value) (s : state) : res value :=
    if nth fl (flags s) true then Ok VUndef s
    else Ok VUndef (reject p v (set_flags s (list_set true (flags s) fl true))).

  (* PromiseResolve(C, x), 27.2.4.7.1, for C = %Promise% (sub = false) or Sub (sub = true) *)
  Definition promise_resolve_c (sub : bool) (v : value) (s : state) : res value :=
    let wrap (s0 : state) : res value :=
      let '(c, s1) := new_cap_c sub s0 in
      bind (callf (cres c) [v] s1) (fun _ s2 => Ok (cprom c) s2) in
    match v with
    | VProm p =>
      (* 1. If IsPromise(x): xConstructor = ? Get(x, "constructor"); if SameValue(xConstructor, C) return x *)
      bind (get_ctor p s) (fun ct s1 =>
        match ct, sub with
        | CtPromise, false => Ok v s1
        | CtSub, true => Ok v s1
        | _, _ => wrap s1
        end)
    | _ => wrap s
    end.
  Definition promise_resolve (v : value) (s : state) : res value := promise_resolve_c false v s.

  (* Invoke(v, "then", « onf, onr ») *)
  Definition invoke_then (v onf onr : value) (s : state) : res value :=
    match v with
    | VProm p => promise_then p onf onr s
    | VThenable f => callf (CUser f) [onf; onr] s
    | VThenGetter g =>
        bind (callf (CUser g) [] s) (fun t s1 =>
          match t with VFun c => callf c [onf; onr] s1 | _ => Thr VTypeError s1 end)
    | _ => Thr VTypeError s
    end.

  (* thenFinally / catchFinally closures *)
  Definition finally_fn (onf : value) (sub : bool) (thunk : callable) (s : state) : res value :=
    match callable_of onf with
    | None => Thr VTypeError s
    | Some c =>
      bind (callf c [] s) (fun r s1 =>
      bind (promise_resolve_c sub r s1) (fun p s2 =>
        invoke_then p (VFun thunk) VUndef s2))
    end.

  (* element functions of the combinators *)
  Definition dummy_comb : comb := mkComb [] 0 (mkCap VUndef (CUser 0) (CUser 0)) [].
  Definition elem_fn (a i : nat) (entry : value) (use_reject : bool) (wrap : list value -> value) (s : state) : res value :=
    let c := nth a (combs s) dummy_comb in
    if existsb (Nat.eqb i) (ccalled c) then Ok VUndef s
    else
      let vals := list_set VUndef (cvals c) i entry in
      let rem := cremaining c - 1 in
      let s1 := set_combs s (list_set dummy_comb (combs s) a (mkComb vals rem (ccap c) (i :: ccalled c))) in
      if rem =? 0
      then bind (callf (if use_reject then crej (ccap c) else cres (ccap c)) [wrap vals] s1) (fun _ s2 => Ok VUndef s2)
      else Ok VUndef s1.

  (* PerformPromiseAll / Race / AllSettled / Any over an array of already evaluated elements *)
  Fixpoint comb_loop (k : comb_kind) (a : nat) (c : cap) (i : nat) (l : list value) (s : state) : res unit :=
    match l with
    | [] => Ok tt s
    | x :: rest =>
      (* nextPromise = Call(promiseResolve, C, x) *)
      bind (promise_resolve x s) (fun np s1 =>
        let cm := nth a (combs s1) dummy_comb in
        let s2 := set_combs s1 (list_set dummy_comb (combs s1) a
                    (mkComb (list_set VUndef (cvals cm) i VUndef) (S (cremaining cm)) (ccap cm) (ccalled cm))) in
        let '(onf, onr) :=
          match k with
          | KAll => (VFun (CAllElem a i), VFun (crej c))
          | KRace => (VFun (cres c), VFun (crej c))
          | KAllSettled => (VFun (CSettledFul a i), VFun (CSettledRej a i))
          | KAny => (VFun (cres c), VFun (CAnyRej a i))
          end in
        bind (invoke_then np onf onr s2) (fun _ s3 => comb_loop k a c (S i) rest s3))
    end.

  Definition combinator (k : comb_kind) (l : list value) (s : state) : res value :=
    let '(c, s1) := new_cap s in
    let a := List.length (combs s1) in
    let s2 := set_combs s1 (combs s1 ++ [mkComb [] 1 c []]) in
    match comb_loop k a c 0 l s2 with
    | Ok _ s3 =>
      match k with
      | KRace => Ok (cprom c) s3
      | _ =>
        let cm := nth a (combs s3) dummy_comb in
        let rem := cremaining cm - 1 in
        let s4 := set_combs s3 (list_set dummy_comb (combs s3) a (mkComb (cvals cm) rem (ccap cm) (ccalled cm))) in
        if rem =? 0 then
          match k with
          | KAny => bind (callf (crej c) [VAggErr (cvals cm)] s4) (fun _ s5 => Ok (cprom c) s5)
          | _ => bind (callf (cres c) [VArr (cvals cm)] s4) (fun _ s5 => Ok (cprom c) s5)
          end
        else Ok (cprom c) s4
      end
    | Thr e s3 => bind (callf (crej c) [e] s3) (fun _ s4 => Ok (cprom c) s4)    (* IfAbruptRejectPromise *)
    | Abort s3 => Abort s3
    | NoFuel => NoFuel
    | Stuck => Stuck
    end.

  (* the built-in function values *)
  Definition call_builtin (c : callable) (args : list value) (s : state) : res value :=
    let v := arg0 args in
    match c with
    | CResolve p fl => resolve_fn p fl v s
    | CReject p fl => reject_fn p fl v s
    | CThenFinally onf sub => finally_fn onf sub (CValueThunk v) s
    | CCatchFinally onf sub => finally_fn onf sub (CThrower v) s
    | CValueThunk x => Ok x s
    | CThrower x => Thr x s
    | CAllElem a i => elem_fn a i v false VArr s
    | CSettledFul a i => elem_fn a i (VSettled true v) false VArr s
    | CSettledRej a i => elem_fn a i (VSettled false v) false VArr s
    | CAnyRej a i => elem_fn a i v true VAggErr s
    | _ => Stuck
    end.

  (* what an async function body does when it completes (27.7.5.2 AsyncBlockStart) *)
  Definition finish_async (c : cap) (k : completion) (s : state) : res value :=
    match k with
    | CNormal => bind (callf (cres c) [VUndef] s) (fun _ s1 => Ok VUndef s1)
    | CReturn v => bind (callf (cres c) [v] s) (fun _ s1 => Ok VUndef s1)
    | CThrow v => bind (callf (crej c) [v] s) (fun _ s1 => Ok VUndef s1)
    | CSuspend => Ok VUndef s
    end.

  (* ---- async generators, 27.6.3 ---- *)
  (* AsyncGeneratorCompleteStep(generator, completion, done): the first request is removed and its promise settled.
     [c] = inl v: normal completion v; inr e: throw completion e *)
  Definition complete_step (g : nat) (c : value + value) (done : bool) (s : state) : res unit :=
    let a := get_ag g s in
    match ag_queue a with
    | [] => Stuck
    | r :: q' =>
      let s1 := put_ag g (mkAG (ag_state a) q' (ag_fn a) (ag_args a) (ag_kont a)) s in
      match c with
      | inl v => bind (callf (cres (rq_cap r)) [VIter v done] s1) (fun _ s2 => Ok tt s2)
      | inr e => bind (callf (crej (rq_cap r)) [e] s1) (fun _ s2 => Ok tt s2)
      end
    end.

  (* AsyncGeneratorDrainQueue, with AsyncGeneratorAwaitReturn inlined in the `return` arm; n: fuel *)
  Fixpoint drain (n : nat) (g : nat) (s : state) {struct n} : res unit :=
    match n with
    | 0 => NoFuel
    | S n' =>
      match ag_queue (get_ag g s) with
      | [] => Ok tt (set_ag_state g AGDone s)
      | r :: _ =>
        match rq_kind r with
        | RReturn =>
          (* AsyncGeneratorAwaitReturn: PromiseResolve(%Promise%, value), PerformPromiseThen(promise, onF, onR) *)
          match promise_resolve (rq_val r) (set_ag_state g AGDrain s) with
          | Ok (VProm p) s1 => Ok tt (perform_then p (Some (CAGRetFul g)) (Some (CAGRetRej g)) None s1)
          | Ok _ _ => Stuck
          | Thr e s1 => bind (complete_step g (inr e) true s1) (fun _ s2 => drain n' g s2)
          | Abort s1 => Abort s1
          | NoFuel => NoFuel
          | Stuck => Stuck
          end
        | RNext => bind (complete_step g (inl VUndef) true s) (fun _ s1 => drain n' g s1)
        | RThrow => bind (complete_step g (inr (rq_val r)) true s) (fun _ s1 => drain n' g s1)
        end
      end
    end.

  (* what happens when an async generator body completes (AsyncGeneratorStart steps g-l) *)
  Definition finish_gen (n : nat) (g : nat) (k : completion) (s : state) : res value :=
    match k with
    | CSuspend => Ok VUndef s
    | _ =>
      let c := match k with CReturn v => inl v | CThrow e => inr e | _ => inl VUndef end in
      bind (complete_step g c true (set_ag_state g AGDrain s)) (fun _ s1 =>
      bind (drain n g s1) (fun _ s2 => Ok VUndef s2))
    end.

  Definition finish (n : nat) (ctx : actx) (k : completion) (s : state) : res value :=
    match ctx with
    | AFun c => finish_async c k s
    | AGen g => finish_gen n g k s
    | ANone => Stuck
    end.

  (* the onFulfilled / onRejected closures of AsyncGeneratorAwaitReturn *)
  Definition await_return_settled (n : nat) (g : nat) (c : value + value) (s : state) : res value :=
    bind (complete_step g c true s) (fun _ s1 => bind (drain n g s1) (fun _ s2 => Ok VUndef s2)).

  (* a job *)
  Definition run_job (j : job) (s : state) : res unit :=
    match j with
    | JReact r arg =>
      let hres : res value :=
        match rhandler r with
        | None => if rful r then Ok arg s else Thr arg s
        | Some h => callf h [arg] s
        end in
      match hres, rcap r with
      | Ok v s1, Some c => bind (callf (cres c) [v] s1) (fun _ s2 => Ok tt s2)
      | Thr e s1, Some c => bind (callf (crej c) [e] s1) (fun _ s2 => Ok tt s2)
      | Ok _ s1, None => Ok tt s1
      | Thr _ s1, None => Ok tt s1
      | Abort s1, _ => Abort s1
      | NoFuel, _ => NoFuel
      | Stuck, _ => Stuck
      end
    | JThenable p thenable t =>
      let '(rs, rj, s1) := create_resolving p s in
      let r : res value :=
        match t, thenable with
        | TNative, VProm q => promise_then q (VFun rs) (VFun rj) s1
        | TNative, _ => Stuck
        | TCall c, _ => callf c [VFun rs; VFun rj] s1
        end in
      match r with
      | Ok _ s2 => Ok tt s2
      | Thr e s2 => bind (callf rj [e] s2) (fun _ s3 => Ok tt s3)
      | Abort s2 => Abort s2
      | NoFuel => NoFuel
      | Stuck => Stuck
      end
    end.
End Open.

(* unwinding a throw completion: the innermost enclosing catch, or a for-await loop whose iterator must be closed first *)
Inductive unwind : Type :=
| UNone
| UCatch (x : var) (h : list stmt) (fr : list frame)
| UClose (git : var) (fr : list frame).

Fixpoint find_catch (fr : list frame) : unwind :=
  match fr with
  | [] => UNone
  | FSeq _ :: r => find_catch r
  | FCatch x h :: r => UCatch x h r
  | FFor _ git _ :: r => UClose git r
  end.

Section Interp.
  Variable funs : list fdef.
  Definition dummy_fdef : fdef := mkF FSync [].

  Fixpoint call (fuel : nat) (c : callable) (args : list value) (s : state) {struct fuel} : res value :=
    match fuel with
    | 0 => NoFuel
    | S f =>
      match c with
      | CUser fn =>
        let d := nth fn funs dummy_fdef in
        match fkindof d with
        | FAsync =>
          (* 27.7.5.1 AsyncFunctionStart *)
          let '(cp, s1) := new_cap s in
          match exec f (fbody d) [] args (AFun cp) s1 with
          | Ok k s2 => bind (finish_async (call f) cp k s2) (fun _ s3 => Ok (cprom cp) s3)
          | Thr e s2 => Thr e s2
          | Abort s2 => Abort s2
          | NoFuel => NoFuel
          | Stuck => Stuck
          end
        | FAsyncGen =>
          (* calling an async generator function creates the object in state suspended-start *)
          let g := List.length (agens s) in
          Ok (VGen g) (set_agens s (agens s ++ [mkAG AGStart [] fn args None]))
        | FSync =>
          match exec f (fbody d) [] args ANone s with
          | Ok CNormal s1 => Ok VUndef s1
          | Ok (CReturn v) s1 => Ok v s1
          | Ok (CThrow v) s1 => Thr v s1
          | Ok CSuspend _ => Stuck
          | Thr e s1 => Thr e s1
          | Abort s1 => Abort s1
          | NoFuel => NoFuel
          | Stuck => Stuck
          end
        end
      | CAwaitFul k =>
        match nth k (konts s) None with
        | None => Stuck
        | Some kt =>
          let s1 := set_konts s (list_set None (konts s) k None) in
          let v := arg0 args in
          let r : res completion :=
            match kkindof kt with
            | KAwait x => exec f (kstmts kt) (kframes kt) (kargs kt) (kctx kt) (setvar x v s1)
            | KRet => Ok (CReturn v) s1
            | KYield x =>
              match kctx kt with
              | AGen g => after_yield f g v x None (kstmts kt) (kframes kt) (kargs kt) s1
              | _ => Stuck
              end
            | KDeleg x inner isret =>
              match kctx kt, v with
              | AGen g, VIter w true =>
                (* 15.5.5 step 7.c.viii: value = IteratorValue(innerReturnResult); if async, value = ? Await(value);
                   return completion *)
                if isret then await_at f KRet w [] (kframes kt) (kargs kt) (kctx kt) s1
                else exec f (kstmts kt) (kframes kt) (kargs kt) (kctx kt) (setvar x w s1)
              | AGen g, VIter w false => after_yield f g w x (Some inner) (kstmts kt) (kframes kt) (kargs kt) s1
              | _, _ => throw_at f VTypeError (kframes kt) (kargs kt) (kctx kt) s1
              end
            | KFor x git body =>
              match v with
              | VIter w false => exec f body (FFor x git body :: kframes kt) (kargs kt) (kctx kt) (setvar x w s1)
              | VIter _ true => exec f [] (kframes kt) (kargs kt) (kctx kt) s1
              | _ => throw_at f VTypeError (kframes kt) (kargs kt) (kctx kt) s1
              end
            | KRethrow e => throw_at f e (kframes kt) (kargs kt) (kctx kt) s1
            | KDelegRet x inner =>
              match kctx kt with
              | AGen g =>
                (* received = return completion with the awaited value: 7.c.iv-v *)
                bind (gen_request f RReturn inner v s1) (fun p s2 =>
                  await_at f (KDeleg x inner true) p (kstmts kt) (kframes kt) (kargs kt) (kctx kt) s2)
              | _ => Stuck
              end
            end in
          bind r (fun k s3 => finish (call f) f (kctx kt) k s3)
        end
      | CAwaitRej k =>
        match nth k (konts s) None with
        | None => Stuck
        | Some kt =>
          let s1 := set_konts s (list_set None (konts s) k None) in
          (* AsyncIteratorClose with a throw completion: the original exception wins over a rejected return() *)
          let e := match kkindof kt with KRethrow e0 => e0 | _ => arg0 args end in
          let r : res completion :=
            match kkindof kt, kctx kt with
            | KDelegRet x inner, AGen g =>
              (* the awaited return value rejected: AsyncGeneratorYield returns a throw completion, which yield*
                 forwards to the inner generator's throw (7.b) *)
              resumption f RThrow e x (Some inner) (kstmts kt) (kframes kt) (kargs kt) g s1
            | _, _ => throw_at f e (kframes kt) (kargs kt) (kctx kt) s1
            end in
          bind r (fun k s3 => finish (call f) f (kctx kt) k s3)
        end
      | CAGRetFul g => await_return_settled (call f) f g (inl (arg0 args)) s
      | CAGRetRej g => await_return_settled (call f) f g (inr (arg0 args)) s
      | _ => call_builtin (call f) c args s
      end
    end

  (* a throw completion at a point whose enclosing frames are [fr] *)
  with throw_at (fuel : nat) (e : value) (fr : list frame) (args : list value) (ac : actx) (s : state)
       {struct fuel} : res completion :=
    match fuel with
    | 0 => NoFuel
    | S f =>
      match find_catch fr with
      | UNone => Ok (CThrow e) s
      | UCatch x h fr' => exec f h fr' args ac (setvar x e s)
      | UClose git fr' =>
        (* 7.4.13 AsyncIteratorClose: innerResult = Call(return, iterator); Await(innerResult); rethrow *)
        match getvar git s with
        | VGen g' => bind (gen_request f RReturn g' VUndef s) (fun p s1 => await_at f (KRethrow e) p [] fr' args ac s1)
        | _ => Stuck
        end
      end
    end

  (* Await(v) with the continuation (kind, rest, fr): 27.7.5.3 *)
  with await_at (fuel : nat) (kind : kkind) (v : value) (rest : list stmt) (fr : list frame) (args : list value)
                (ac : actx) (s : state) {struct fuel} : res completion :=
    match fuel with
    | 0 => NoFuel
    | S f =>
      match promise_resolve (call f) v s with
      | Ok (VProm p) s2 =>
        let k := List.length (konts s2) in
        let s3 := set_konts s2 (konts s2 ++ [Some (mkK rest fr args ac kind)]) in
        Ok CSuspend (perform_then p (Some (CAwaitFul k)) (Some (CAwaitRej k)) None s3)
      | Ok _ _ => Stuck
      | Thr e1 s2 => throw_at f e1 fr args ac s2
      | Abort s2 => Abort s2
      | NoFuel => NoFuel
      | Stuck => Stuck
      end
    end

  (* AsyncGeneratorUnwrapYieldResumption at `vX = yield ...; rest` *)
  with resumption (fuel : nat) (rk : rkind) (v : value) (x : var) (deleg : option nat) (rest : list stmt) (fr : list frame)
                  (args : list value) (g : nat) (s : state) {struct fuel} : res completion :=
    match fuel with
    | 0 => NoFuel
    | S f =>
      match deleg with
      | Some inner =>
        (* 15.5.5 yield*: forward the request to the inner generator and await its result *)
        match rk with
        | RReturn => await_at f (KDelegRet x inner) v rest fr args (AGen g) s     (* AsyncGeneratorUnwrapYieldResumption *)
        | _ => bind (gen_request f rk inner v s) (fun p s1 => await_at f (KDeleg x inner false) p rest fr args (AGen g) s1)
        end
      | None =>
        match rk with
        | RNext => exec f rest fr args (AGen g) (setvar x v s)
        | RThrow => throw_at f v fr args (AGen g) s
        | RReturn => await_at f KRet v [] fr args (AGen g) s
        end
      end
    end

  (* AsyncGeneratorYield steps 9-14, after `Await(value)` gave [v] *)
  with after_yield (fuel : nat) (g : nat) (v : value) (x : var) (deleg : option nat) (rest : list stmt) (fr : list frame)
                   (args : list value) (s : state) {struct fuel} : res completion :=
    match fuel with
    | 0 => NoFuel
    | S f =>
      match complete_step (call f) g (inl v) false s with
      | Ok _ s1 =>
        match ag_queue (get_ag g s1) with
        | r :: _ => resumption f (rq_kind r) (rq_val r) x deleg rest fr args g s1
        | [] => Ok CSuspend (set_ag_kont g (Some (rest, fr, x, deleg)) (set_ag_state g AGYield s1))
        end
      | Thr e s1 => Thr e s1
      | Abort s1 => Abort s1
      | NoFuel => NoFuel
      | Stuck => Stuck
      end
    end

  (* AsyncGenerator.prototype.next / return / throw, 27.6.1.2-4 (AsyncGeneratorResume inlined) *)
  with gen_request (fuel : nat) (rk : rkind) (g : nat) (v : value) (s : state) {struct fuel} : res value :=
    match fuel with
    | 0 => NoFuel
    | S f =>
      let '(c, s1) := new_cap s in
      let a := get_ag g s1 in
      let resume (s2 : state) : res value :=
        match ag_state a with
        | AGStart =>
          let d := nth (ag_fn a) funs dummy_fdef in
          bind (exec f (fbody d) [] (ag_args a) (AGen g) (set_ag_state g AGExec s2)) (fun k s3 =>
          bind (finish_gen (call f) f g k s3) (fun _ s4 => Ok (cprom c) s4))
        | AGYield =>
          match ag_kont a with
          | None => Stuck
          | Some (rest, fr, x, deleg) =>
            bind (resumption f rk v x deleg rest fr (ag_args a) g (set_ag_kont g None (set_ag_state g AGExec s2))) (fun k s3 =>
            bind (finish_gen (call f) f g k s3) (fun _ s4 => Ok (cprom c) s4))
          end
        | _ => Ok (cprom c) s2
        end in
      match rk, ag_state a with
      | RNext, AGDone => bind (call f (cres c) [VIter VUndef true] s1) (fun _ s2 => Ok (cprom c) s2)
      | RNext, _ => resume (enqueue_req g (mkRq RNext v c) s1)
      | RReturn, (AGStart | AGDone) =>
        bind (drain (call f) f g (set_ag_state g AGDrain (enqueue_req g (mkRq RReturn v c) s1))) (fun _ s2 => Ok (cprom c) s2)
      | RReturn, _ => resume (enqueue_req g (mkRq RReturn v c) s1)
      | RThrow, (AGStart | AGDone) =>
        bind (call f (crej c) [v] (set_ag_state g AGDone s1)) (fun _ s2 => Ok (cprom c) s2)
      | RThrow, _ => resume (enqueue_req g (mkRq RThrow v c) s1)
      end
    end

  (* one iteration of ForIn/OfBodyEvaluation with iteratorKind async: nextResult = Await(Call(next, iterator)) *)
  with for_step (fuel : nat) (x git : var) (body : list stmt) (fr : list frame) (args : list value) (ac : actx) (s : state)
       {struct fuel} : res completion :=
    match fuel with
    | 0 => NoFuel
    | S f =>
      match getvar git s with
      | VGen g' => bind (gen_request f RNext g' VUndef s) (fun p s1 => await_at f (KFor x git body) p [] fr args ac s1)
      | _ => Stuck
      end
    end

  with exec (fuel : nat) (stmts : list stmt) (fr : list frame) (args : list value) (ac : actx) (s : state)
       {struct fuel} : res completion :=
    match fuel with
    | 0 => NoFuel
    | S f =>
      let ev (e : expr) (k : value -> state -> res completion) : res completion :=
        match eval f e args s with
        | Ok v s1 => k v s1
        | Thr e1 s1 => throw_at f e1 fr args ac s1
        | Abort s1 => Abort s1
        | NoFuel => NoFuel
        | Stuck => Stuck
        end in
      match stmts with
      | [] =>
        match fr with
        | [] => Ok CNormal s
        | FSeq rest :: fr' => exec f rest fr' args ac s
        | FCatch _ _ :: fr' => exec f [] fr' args ac s
        | FFor x git body :: fr' => for_step f x git body fr' args ac s
        end
      | st :: rest =>
        match st with
        | SPrint l e => ev e (fun v s1 => exec f rest fr args ac (emit l v s1))
        | SLet x e => ev e (fun v s1 => exec f rest fr args ac (setvar x v s1))
        | SExpr e => ev e (fun _ s1 => exec f rest fr args ac s1)
        | SReturn e =>
          match ac with
          | AGen _ => ev e (fun v s1 => await_at f KRet v [] fr args ac s1)     (* 14.10.1: return awaits in async generators *)
          | _ => ev e (fun v s1 => Ok (CReturn v) s1)
          end
        | SThrow e => ev e (fun v s1 => throw_at f v fr args ac s1)
        | STry body x h => exec f body (FCatch x h :: FSeq rest :: fr) args ac s
        | SHang => Abort s
        | SAwait x e =>
          match ac with
          | ANone => Stuck
          | _ => ev e (fun v s1 => await_at f (KAwait x) v rest fr args ac s1)
          end
        | SYield x e =>
          match ac with
          | AGen _ => ev e (fun v s1 => await_at f (KYield x) v rest fr args ac s1)   (* 15.5.5: AsyncGeneratorYield(? Await(value)) *)
          | _ => Stuck
          end
        | SYieldStar x e =>
          match ac with
          | AGen g =>
            ev e (fun v s1 =>
              match v with
              | VGen inner => resumption f RNext VUndef x (Some inner) rest fr args g s1    (* received = NormalCompletion(undefined) *)
              | _ => throw_at f VTypeError fr args ac s1                                      (* GetIterator: not iterable *)
              end)
          | _ => Stuck
          end
        | SForAwait x git e body =>
          match ac with
          | ANone => Stuck
          | _ =>
            ev e (fun v s1 =>
              match v with
              | VGen _ => for_step f x git body (FSeq rest :: fr) args ac (setvar git v s1)
              | _ => throw_at f VTypeError fr args ac (setvar git v s1)                      (* GetIterator(async): not iterable *)
              end)
          end
        end
      end
    end

  with eval (fuel : nat) (e : expr) (args : list value) (s : state) {struct fuel} : res value :=
    match fuel with
    | 0 => NoFuel
    | S f =>
      match e with
      | EUndef => Ok VUndef s
      | ENum n => Ok (VNum n) s
      | EVar x => Ok (getvar x s) s
      | EArg i => Ok (nth i args VUndef) s
      | EFun fn => Ok (VFun (CUser fn)) s
      | EThenable fn => Ok (VThenable fn) s
      | EThenGetter fn => Ok (VThenGetter fn) s
      | EObj => Ok VObj s
      | EResolve e1 => bind (eval f e1 args s) (fun v s1 => promise_resolve (call f) v s1)
      | EReject e1 =>
        bind (eval f e1 args s) (fun v s1 =>
          let '(c, s2) := new_cap s1 in
          bind (call f (crej c) [v] s2) (fun _ s3 => Ok (cprom c) s3))
      | ENew fn =>
        let '(p, s1) := new_prom s in
        let '(rs, rj, s2) := create_resolving p s1 in
        match call f (CUser fn) [VFun rs; VFun rj] s2 with
        | Ok _ s3 => Ok (VProm p) s3
        | Thr e1 s3 => bind (call f rj [e1] s3) (fun _ s4 => Ok (VProm p) s4)
        | Abort s3 => Abort s3
        | NoFuel => NoFuel
        | Stuck => Stuck
        end
      | EThen p a b =>
        bind (eval f p args s) (fun vp s1 =>
        bind (eval f a args s1) (fun va s2 =>
        bind (eval f b args s2) (fun vb s3 =>
          invoke_then (call f) vp va vb s3)))
      | ECatch p b =>
        bind (eval f p args s) (fun vp s1 =>
        bind (eval f b args s1) (fun vb s2 =>
          match vp with
          | VProm _ => invoke_then (call f) vp VUndef vb s2
          | _ => Thr VTypeError s2
          end))
      | EFinally p a =>
        bind (eval f p args s) (fun vp s1 =>
        bind (eval f a args s1) (fun va s2 =>
          match vp with
          | VProm p =>
            (* 27.2.5.3: C = ? SpeciesConstructor(promise, %Promise%) first, then Invoke(promise, "then", ...) *)
            bind (species p s2) (fun sub s3 =>
              match callable_of va with
              | Some _ => invoke_then (call f) vp (VFun (CThenFinally va sub)) (VFun (CCatchFinally va sub)) s3
              | None => invoke_then (call f) vp va va s3
              end)
          | _ => Thr VTypeError s2
          end))
      | EComb k l =>
        bind ((fix evl (l : list expr) (s : state) : res (list value) :=
                 match l with
                 | [] => Ok [] s
                 | x :: r => bind (eval f x args s) (fun v s1 => bind (evl r s1) (fun vs s2 => Ok (v :: vs) s2))
                 end) l s)
             (fun vs s1 => combinator (call f) k vs s1)
      | ECall a b =>
        bind (eval f a args s) (fun va s1 =>
        bind (eval f b args s1) (fun vb s2 =>
          match va with
          | VFun c => call f c [vb] s2
          | _ => Thr VTypeError s2
          end))
      | ESubResolve e1 => bind (eval f e1 args s) (fun v s1 => promise_resolve_c (call f) true v s1)
      | ESubNew fn =>
        let '(p, s1) := new_prom s in
        let s1 := put_kind p (mkPK true None) s1 in
        let '(rs, rj, s2) := create_resolving p s1 in
        match call f (CUser fn) [VFun rs; VFun rj] s2 with
        | Ok _ s3 => Ok (VProm p) s3
        | Thr e1 s3 => bind (call f rj [e1] s3) (fun _ s4 => Ok (VProm p) s4)
        | Abort s3 => Abort s3
        | NoFuel => NoFuel
        | Stuck => Stuck
        end
      | EPatch pt e1 =>
        bind (eval f e1 args s) (fun v s1 =>
          match v with
          | VProm p => Ok v (put_kind p (mkPK (psub (get_kind p s1)) (Some pt)) s1)
          | _ => Stuck
          end)
      | ENext rk a b =>
        bind (eval f a args s) (fun va s1 =>
          match va with
          | VUndef => Thr VTypeError s1          (* GetValue of the member reference throws before the argument is evaluated *)
          | _ =>
            bind (eval f b args s1) (fun vb s2 =>
              match va with
              | VGen g => gen_request f rk g vb s2
              | _ => Thr VTypeError s2           (* EvaluateCall: not callable, after ArgumentListEvaluation *)
              end)
          end)
      end
    end.

  (* One job as a behaviour in the sense of model A (Jobs.v): it runs on a world whose own queue field is
     empty and the jobs it enqueues are what it leaves there.  [jf] is the fuel of one job; a job that
     exceeds it is reported as an error (never compared).  An engine error (Abort) is the Err of model A. *)
  Inductive perr : Type := PAbort | PNoFuel | PStuck.

  Definition pexec (jf : nat) (j : job) (w : state) : state * list job * option perr :=
    match run_job (call jf) j w with
    | Ok _ s1 => (set_queue s1 [], queue s1, None)
    | Thr _ s1 => (set_queue s1 [], queue s1, None)      (* jobs never complete abruptly; not reached *)
    | Abort s1 => (set_queue s1 [], queue s1, Some PAbort)
    | NoFuel => (w, [], Some PNoFuel)
    | Stuck => (w, [], Some PStuck)
    end.
End Interp.

Inductive script_completion : Type := SCNormal | SCThrow (v : value) | SCAbort.

Record presult : Type := mkO {
  o_trace : list (nat * value); o_completion : script_completion; o_jobs : nat; o_batches : nat; o_aborted : bool }.

(* the state of model A after the script ran: the jobs it enqueued, tickets from 0 *)
Definition after_script (s : state) : qstate state job := init (set_queue s []) 0 (queue s).

(* Evaluate the script, then run the jobs in the specification's FIFO order (Jobs.drain_fifo).  The batch
   count of boa's executor for the same run comes from Jobs.drain_batched_n (Props: same outcome). *)
Definition run_prog (fuel : nat) (p : prog) : option presult :=
  let go (k : script_completion) (s : state) :=
    let q0 := after_script s in
    let nb := snd (drain_batched_n state job perr (pexec (pfuns p) fuel) fuel q0 0) in
    match drain_fifo state job perr (pexec (pfuns p) fuel) fuel q0 with
    | Finished q => Some (mkO (out (qw q)) k (List.length (qdone q)) nb false)
    | Failed q PAbort => Some (mkO (out (qw q)) k (List.length (qdone q)) nb true)
    | _ => None
    end in
  match exec (pfuns p) fuel (pmain p) [] [] ANone st0 with
  | Ok k s => go (match k with CThrow v => SCThrow v | _ => SCNormal end) s
  | Abort s => go SCAbort s
  | _ => None
  end.

(* ---------- rendering, the same as the JavaScript `show` of the generated programs ---------- *)
Local Open Scope string_scope.
Definition nat_str (n : nat) : string := NilEmpty.string_of_uint (Nat.to_uint n).

Fixpoint show (v : value) : string :=
  let fix go (first : bool) (l : list value) : string :=
    match l with
    | [] => ""
    | x :: r => (if first then "" else ",") ++ show x ++ go false r
    end in
  match v with
  | VUndef => "undefined"
  | VNum n => nat_str n
  | VObj => "O"
  | VProm _ => "P"
  | VThenable _ => "T"
  | VThenGetter _ => "G"
  | VFun _ => "F"
  | VArr l => "[" ++ go true l ++ "]"
  | VSettled true x => "fulfilled:" ++ show x
  | VSettled false x => "rejected:" ++ show x
  | VTypeError => "TypeError"
  | VAggErr l => "AggregateError[" ++ go true l ++ "]"
  | VGen _ => "AG"
  | VIter x d => show x ++ (if d then "!" else "")
  end.

Definition render (r : option presult) : list string :=
  match r with
  | None => ["FUEL"]
  | Some o =>
    (match o_completion o with SCNormal => "N" | SCThrow v => "T:" ++ show v | SCAbort => "A" end)
    :: (if o_aborted o then "J:abort" else "J:ok")
    :: ("jobs=" ++ nat_str (o_jobs o))
    :: ("batches=" ++ nat_str (o_batches o))
    :: map (fun lv => "L" ++ nat_str (fst lv) ++ " " ++ show (snd lv)) (o_trace o)
  end.
