(* C16 property theorems: statements only, each closed by `exact`, pinned by `Check`, with its
   assumptions printed.  Model A = Jobs.v (the promise-job queue of SimpleJobExecutor), model B = Budget.v
   over the COST table regenerated from the Rust sources (Gen/OpcodeCost.v), model C = Promise.v. *)
From Coq Require Import List Arith Lia Bool String.
Import ListNotations.
From C16 Require Import Model_C16 Proofs_Jobs Proofs_Loop Proofs_Budget Proofs_C16 DeepLoop_C16 DeepLoopProofs_C16 DeepLoopCase_C16 DeepLoopCaseProofs_C16.
From Gen Require Import OpcodeCost.

(* ================= model A: the job queue ================= *)

(* boa's batched drain (mem::take the queue, run the batch, repeat) and the specification's strict FIFO
   drain end in the same state: same world, same executed-job sequence (with tickets), same enqueue log,
   same error if a job failed -- for every behaviour table, queue length and job count *)
Theorem batched_eq_fifo : forall (world job err : Type) (exec : job -> world -> world * list job * option err)
    (s : qstate world job) (n m : nat),
  terminated (drain_batched world job err exec n s) -> terminated (drain_fifo world job err exec m s) ->
  drain_batched world job err exec n s = drain_fifo world job err exec m s.
Proof. exact batched_eq_fifo_lemma. Qed.
Check batched_eq_fifo : forall (world job err : Type) (exec : job -> world -> world * list job * option err)
    (s : qstate world job) (n m : nat),
  terminated (drain_batched world job err exec n s) -> terminated (drain_fifo world job err exec m s) ->
  drain_batched world job err exec n s = drain_fifo world job err exec m s.
Print Assumptions batched_eq_fifo.

(* one terminates iff the other does *)
Theorem batched_terminates_iff_fifo : forall (world job err : Type) (exec : job -> world -> world * list job * option err)
    (s : qstate world job),
  (exists n, terminated (drain_batched world job err exec n s)) <-> (exists m, terminated (drain_fifo world job err exec m s)).
Proof. exact terminates_iff_lemma. Qed.
Check batched_terminates_iff_fifo : forall (world job err : Type) (exec : job -> world -> world * list job * option err)
    (s : qstate world job),
  (exists n, terminated (drain_batched world job err exec n s)) <-> (exists m, terminated (drain_fifo world job err exec m s)).
Print Assumptions batched_terminates_iff_fifo.

(* the fuel of the model is irrelevant: any two sufficient amounts give the same outcome *)
Theorem batched_fuel_irrelevant : forall (world job err : Type) (exec : job -> world -> world * list job * option err)
    (s : qstate world job) (n n' : nat),
  terminated (drain_batched world job err exec n s) -> terminated (drain_batched world job err exec n' s) ->
  drain_batched world job err exec n s = drain_batched world job err exec n' s.
Proof. exact fuel_irrelevant_lemma. Qed.
Check batched_fuel_irrelevant : forall (world job err : Type) (exec : job -> world -> world * list job * option err)
    (s : qstate world job) (n n' : nat),
  terminated (drain_batched world job err exec n s) -> terminated (drain_batched world job err exec n' s) ->
  drain_batched world job err exec n s = drain_batched world job err exec n' s.
Print Assumptions batched_fuel_irrelevant.

(* Starting from a queue holding jobs l (tickets t0, t0+1, ...): when run_jobs returns Ok, the executed
   sequence IS the sequence of HostEnqueuePromiseJob calls (every job exactly once, in enqueue order, tickets
   t0 .. next-1 without gap or repetition); when it returns Err, the executed jobs are a prefix of that
   sequence ending with the failing job and the rest was dropped *)
Theorem each_once : forall (world job err : Type) (exec : job -> world -> world * list job * option err)
    (n : nat) (w : world) (t0 : nat) (l : list job),
  match drain_batched world job err exec n (init w t0 l) with
  | Finished s' => qq s' = [] /\ qdone s' = qlog s' /\ map fst (qdone s') = seq t0 (qnext s' - t0)
  | Failed s' _ => qq s' = [] /\ (exists dropped, qlog s' = qdone s' ++ dropped) /\
                   map fst (qlog s') = seq t0 (qnext s' - t0) /\ qdone s' <> []
  | OutOfFuel _ => True
  end.
Proof.
  intros world job err exec n w t0 l.
  pose proof (each_once_lemma world job err exec n t0 (init w t0 l) (init_wf world job w t0 l)) as H.
  destruct (drain_batched world job err exec n (init w t0 l)); simpl in *; auto.
Qed.
Check each_once : forall (world job err : Type) (exec : job -> world -> world * list job * option err)
    (n : nat) (w : world) (t0 : nat) (l : list job),
  match drain_batched world job err exec n (init w t0 l) with
  | Finished s' => qq s' = [] /\ qdone s' = qlog s' /\ map fst (qdone s') = seq t0 (qnext s' - t0)
  | Failed s' _ => qq s' = [] /\ (exists dropped, qlog s' = qdone s' ++ dropped) /\
                   map fst (qlog s') = seq t0 (qnext s' - t0) /\ qdone s' <> []
  | OutOfFuel _ => True
  end.
Print Assumptions each_once.

(* draining in several calls -- a host that runs k1 jobs, then k2, ... in strict FIFO order (harness mode
   split:k), nothing enqueued in between -- gives what one run_jobs call of boa's executor gives *)
Theorem split_drain : forall (world job err : Type) (exec : job -> world -> world * list job * option err)
    (ks : list nat) (n : nat) (s : qstate world job),
  terminated (drain_chunks world job err exec ks s) -> terminated (drain_batched world job err exec n s) ->
  drain_chunks world job err exec ks s = drain_batched world job err exec n s.
Proof. exact split_drain_lemma. Qed.
Check split_drain : forall (world job err : Type) (exec : job -> world -> world * list job * option err)
    (ks : list nat) (n : nat) (s : qstate world job),
  terminated (drain_chunks world job err exec ks s) -> terminated (drain_batched world job err exec n s) ->
  drain_chunks world job err exec ks s = drain_batched world job err exec n s.
Print Assumptions split_drain.

(* a further run_jobs call after one that returned (Ok or Err) changes nothing *)
Theorem drain_again : forall (world job err : Type) (exec : job -> world -> world * list job * option err)
    (n m : nat) (s : qstate world job),
  terminated (drain_batched world job err exec n s) ->
  again world job err (drain_batched world job err exec m) (drain_batched world job err exec n s)
  = drain_batched world job err exec n s.
Proof. exact drain_again_lemma. Qed.
Check drain_again : forall (world job err : Type) (exec : job -> world -> world * list job * option err)
    (n m : nat) (s : qstate world job),
  terminated (drain_batched world job err exec n s) ->
  again world job err (drain_batched world job err exec m) (drain_batched world job err exec n s)
  = drain_batched world job err exec n s.
Print Assumptions drain_again.

(* a failing job: the queue is cleared, the error is the one strict FIFO execution reports at the same
   point (same world, same executed prefix), and the executor is reusable (next call: Ok, nothing runs) *)
Theorem error_case : forall (world job err : Type) (exec : job -> world -> world * list job * option err)
    (n : nat) (s s' : qstate world job) (e : err),
  drain_batched world job err exec n s = Failed s' e ->
  qq s' = [] /\
  (exists m, forall k, drain_fifo world job err exec (m + k) s = Failed s' e) /\
  (forall m, drain_batched world job err exec m s' = Finished s').
Proof. exact error_case_lemma. Qed.
Check error_case : forall (world job err : Type) (exec : job -> world -> world * list job * option err)
    (n : nat) (s s' : qstate world job) (e : err),
  drain_batched world job err exec n s = Failed s' e ->
  qq s' = [] /\
  (exists m, forall k, drain_fifo world job err exec (m + k) s = Failed s' e) /\
  (forall m, drain_batched world job err exec m s' = Finished s').
Print Assumptions error_case.

(* the whole run_jobs_async loop with timeout and generic jobs interleaved (whatever they do, whatever
   the clock says): promise jobs still run in HostEnqueuePromiseJob order, each at most once, all of them
   when the loop returns Ok *)
Theorem loop_promise_fifo : forall (world job err : Type) (now : world -> nat)
    (execk : job -> world -> world * list (kind * job) * option err) (fuel : nat) (s : lstate world job),
  lplog s = lpdone s ++ lp s ->
  match run_loop world job err now execk fuel s with
  | LFinished s' => lpdone s' = lplog s' /\ lp s' = []
  | LFailed s' _ => exists dropped, lplog s' = lpdone s' ++ dropped
  | LOutOfFuel s' => lplog s' = lpdone s' ++ lp s'
  end.
Proof.
  intros world job err now execk fuel s H.
  pose proof (loop_promise_fifo_lemma world job err now execk fuel s H) as P.
  destruct (run_loop world job err now execk fuel s); exact P.
Qed.
Check loop_promise_fifo : forall (world job err : Type) (now : world -> nat)
    (execk : job -> world -> world * list (kind * job) * option err) (fuel : nat) (s : lstate world job),
  lplog s = lpdone s ++ lp s ->
  match run_loop world job err now execk fuel s with
  | LFinished s' => lpdone s' = lplog s' /\ lp s' = []
  | LFailed s' _ => exists dropped, lplog s' = lpdone s' ++ dropped
  | LOutOfFuel s' => lplog s' = lpdone s' ++ lp s'
  end.
Print Assumptions loop_promise_fifo.

(* with promise jobs only (what scripts without timers produce) the loop is exactly drain_batched *)
Theorem loop_is_batched : forall (world job err : Type) (now : world -> nat)
    (execk : job -> world -> world * list (kind * job) * option err)
    (exec : job -> world -> world * list job * option err),
  (forall j w, execk j w = (let '(w', new, oe) := exec j w in (w', map (fun x => (KPromise, x)) new, oe))) ->
  forall (n : nat) (s : lstate world job),
  lg s = [] /\ ltm s = [] /\ lall s = lpdone s ->
  terminated (drain_batched world job err exec n (proj world job s)) ->
  lproj world job err (run_loop world job err now execk (S n) s) = drain_batched world job err exec n (proj world job s).
Proof. exact loop_is_batched_lemma. Qed.
Check loop_is_batched : forall (world job err : Type) (now : world -> nat)
    (execk : job -> world -> world * list (kind * job) * option err)
    (exec : job -> world -> world * list job * option err),
  (forall j w, execk j w = (let '(w', new, oe) := exec j w in (w', map (fun x => (KPromise, x)) new, oe))) ->
  forall (n : nat) (s : lstate world job),
  lg s = [] /\ ltm s = [] /\ lall s = lpdone s ->
  terminated (drain_batched world job err exec n (proj world job s)) ->
  lproj world job err (run_loop world job err now execk (S n) s) = drain_batched world job err exec n (proj world job s).
Print Assumptions loop_is_batched.

(* the loop with a poll counter (LoopCase.run_loop_n, the function the correspondence executes against
   SimpleJobExecutor::run_jobs_async) is run_loop; its counter is the number of iterations started: at most the
   fuel, exactly the fuel when the run is still Pending; and a run that returned keeps its result and count for
   every larger poll limit *)
Theorem loop_counter : forall (world job err : Type) (now : world -> nat)
    (execk : job -> world -> world * list (kind * job) * option err) (fuel : nat) (s : lstate world job) (k : nat),
  fst (run_loop_n world job err now execk fuel s k) = run_loop world job err now execk fuel s /\
  k <= snd (run_loop_n world job err now execk fuel s k) <= k + fuel /\
  match run_loop world job err now execk fuel s with
  | LOutOfFuel _ => snd (run_loop_n world job err now execk fuel s k) = k + fuel
  | _ => forall extra, run_loop_n world job err now execk (fuel + extra) s k = run_loop_n world job err now execk fuel s k
  end.
Proof. exact loop_counter_lemma. Qed.
Check loop_counter : forall (world job err : Type) (now : world -> nat)
    (execk : job -> world -> world * list (kind * job) * option err) (fuel : nat) (s : lstate world job) (k : nat),
  fst (run_loop_n world job err now execk fuel s k) = run_loop world job err now execk fuel s /\
  k <= snd (run_loop_n world job err now execk fuel s k) <= k + fuel /\
  match run_loop world job err now execk fuel s with
  | LOutOfFuel _ => snd (run_loop_n world job err now execk fuel s k) = k + fuel
  | _ => forall extra, run_loop_n world job err now execk (fuel + extra) s k = run_loop_n world job err now execk fuel s k
  end.
Print Assumptions loop_counter.

(* ================= deepening: the full run_jobs_async loop ================= *)

(* DeepLoop_C16.run_full transliterates the whole loop: the stop flag, native async jobs and FinalizationRegistry
   clean-up jobs (started in queue order, their futures polled by two FutureGroups whose polling order and effects
   are arbitrary), timeout and interval jobs with cancellation and re-arming, promise jobs, generic jobs, and
   whatever other threads do to the world at each yield.  For EVERY behaviour of all of these: promise jobs run in
   HostEnqueuePromiseJob order, each at most once; all of them when the loop returns Ok by running dry; a prefix (the
   rest dropped by clear()) when a job or future fails or a stop was requested *)
Theorem full_loop_promise_fifo : forall (world job err fut : Type) (now : world -> nat)
    (execk : job -> world -> world * list (fkind * job) * option err)
    (astart : job -> world -> world * list (fkind * job) * fut)
    (gpoll : list (nat * fut) -> world -> list (nat * fut) * world * list (fkind * job) * option err)
    (stop_requested : world -> bool) (clear_stop : world -> world) (cancelled : world -> nat -> bool)
    (between : world -> world) (fuel : nat) (s : fstate world job fut),
  fplog s = fpdone s ++ fp s ->
  match run_full world job err fut now execk astart gpoll stop_requested clear_stop cancelled between fuel s with
  | FFinished s' => fpdone s' = fplog s' /\ fp s' = []
  | FFailed s' _ => exists dropped, fplog s' = fpdone s' ++ dropped
  | FStopped s' => exists dropped, fplog s' = fpdone s' ++ dropped
  | FOutOfFuel s' => fplog s' = fpdone s' ++ fp s'
  end.
Proof.
  intros world job err fut now execk astart gpoll stop_requested clear_stop cancelled between fuel s H.
  pose proof (full_loop_promise_fifo_lemma world job err fut now execk astart gpoll stop_requested clear_stop cancelled
                between fuel s) as P.
  unfold finv in P. specialize (P H).
  destruct (run_full world job err fut now execk astart gpoll stop_requested clear_stop cancelled between fuel s); exact P.
Qed.
Check full_loop_promise_fifo : forall (world job err fut : Type) (now : world -> nat)
    (execk : job -> world -> world * list (fkind * job) * option err)
    (astart : job -> world -> world * list (fkind * job) * fut)
    (gpoll : list (nat * fut) -> world -> list (nat * fut) * world * list (fkind * job) * option err)
    (stop_requested : world -> bool) (clear_stop : world -> world) (cancelled : world -> nat -> bool)
    (between : world -> world) (fuel : nat) (s : fstate world job fut),
  fplog s = fpdone s ++ fp s ->
  match run_full world job err fut now execk astart gpoll stop_requested clear_stop cancelled between fuel s with
  | FFinished s' => fpdone s' = fplog s' /\ fp s' = []
  | FFailed s' _ => exists dropped, fplog s' = fpdone s' ++ dropped
  | FStopped s' => exists dropped, fplog s' = fpdone s' ++ dropped
  | FOutOfFuel s' => fplog s' = fpdone s' ++ fp s'
  end.
Print Assumptions full_loop_promise_fifo.

(* the poll-counting variant that the `jloop` correspondence executes against SimpleJobExecutor::run_jobs_async
   (DeepLoopCase_C16.full_case: promise / generic / timeout / interval jobs, cancellation, stop) is run_full *)
Theorem full_loop_counted : forall (world job err fut : Type) (now : world -> nat)
    (execk : job -> world -> world * list (fkind * job) * option err)
    (astart : job -> world -> world * list (fkind * job) * fut)
    (gpoll : list (nat * fut) -> world -> list (nat * fut) * world * list (fkind * job) * option err)
    (stop_requested : world -> bool) (clear_stop : world -> world) (cancelled : world -> nat -> bool)
    (between : world -> world) (fuel : nat) (s : fstate world job fut) (k : nat),
  fst (run_full_n world job err fut now execk astart gpoll stop_requested clear_stop cancelled between fuel s k) =
  run_full world job err fut now execk astart gpoll stop_requested clear_stop cancelled between fuel s.
Proof. exact run_full_n_fst. Qed.
Check full_loop_counted : forall (world job err fut : Type) (now : world -> nat)
    (execk : job -> world -> world * list (fkind * job) * option err)
    (astart : job -> world -> world * list (fkind * job) * fut)
    (gpoll : list (nat * fut) -> world -> list (nat * fut) * world * list (fkind * job) * option err)
    (stop_requested : world -> bool) (clear_stop : world -> world) (cancelled : world -> nat -> bool)
    (between : world -> world) (fuel : nat) (s : fstate world job fut) (k : nat),
  fst (run_full_n world job err fut now execk astart gpoll stop_requested clear_stop cancelled between fuel s k) =
  run_full world job err fut now execk astart gpoll stop_requested clear_stop cancelled between fuel s.
Print Assumptions full_loop_counted.

(* ================= model B: the instruction budget ================= *)

(* for EVERY budget (0 included) and every fuel, the budgeted evaluator returns the same completion and
   executes the same instruction sequence as the synchronous one -- under the two stated assumptions *)
Theorem budget_irrelevant : forall (st result opcode : Type) (fetch : st -> option opcode) (cost : opcode -> nat)
    (handler : opcode -> st -> flow st result) (handler_budget : opcode -> st -> nat -> flow st result * nat)
    (fallthrough : result) (between_polls : st -> st),
  (forall op s rb, handler_budget op s rb = (handler op s, rb - cost op)) ->
  (forall s, between_polls s = s) ->
  forall (b fuel : nat) (s : st),
  option_map (fun x => fst x) (eval_async st result opcode fetch cost handler_budget fallthrough between_polls b fuel s)
  = eval_sync st result opcode fetch handler fallthrough fuel s.
Proof. exact budget_irrelevant_lemma. Qed.
Check budget_irrelevant : forall (st result opcode : Type) (fetch : st -> option opcode) (cost : opcode -> nat)
    (handler : opcode -> st -> flow st result) (handler_budget : opcode -> st -> nat -> flow st result * nat)
    (fallthrough : result) (between_polls : st -> st),
  (forall op s rb, handler_budget op s rb = (handler op s, rb - cost op)) ->
  (forall s, between_polls s = s) ->
  forall (b fuel : nat) (s : st),
  option_map (fun x => fst x) (eval_async st result opcode fetch cost handler_budget fallthrough between_polls b fuel s)
  = eval_sync st result opcode fetch handler fallthrough fuel s.
Print Assumptions budget_irrelevant.

(* how often it yields: with every executed COST in [1, M] and budget b >= 1,
     yields * b <= total cost <= (yields + 1) * (b + M - 1)   and   steps <= total cost <= M * steps *)
Theorem yields_bounds : forall (st result opcode : Type) (fetch : st -> option opcode) (cost : opcode -> nat)
    (handler : opcode -> st -> flow st result) (handler_budget : opcode -> st -> nat -> flow st result * nat)
    (fallthrough : result) (between_polls : st -> st),
  (forall op s rb, handler_budget op s rb = (handler op s, rb - cost op)) ->
  forall M : nat,
  (forall s op, fetch s = Some op -> 1 <= cost op) ->
  (forall s op, fetch s = Some op -> cost op <= M) ->
  forall (b fuel : nat) (s : st) (r : result) (tr : list opcode) (c : counters), 1 <= b ->
  eval_async st result opcode fetch cost handler_budget fallthrough between_polls b fuel s = Some (r, tr, c) ->
  c_yields c * b <= c_cost c /\ c_cost c <= S (c_yields c) * (b + M - 1) /\
  c_steps c <= c_cost c /\ c_cost c <= M * c_steps c.
Proof. exact yields_bounds_lemma. Qed.
Check yields_bounds : forall (st result opcode : Type) (fetch : st -> option opcode) (cost : opcode -> nat)
    (handler : opcode -> st -> flow st result) (handler_budget : opcode -> st -> nat -> flow st result * nat)
    (fallthrough : result) (between_polls : st -> st),
  (forall op s rb, handler_budget op s rb = (handler op s, rb - cost op)) ->
  forall M : nat,
  (forall s op, fetch s = Some op -> 1 <= cost op) ->
  (forall s op, fetch s = Some op -> cost op <= M) ->
  forall (b fuel : nat) (s : st) (r : result) (tr : list opcode) (c : counters), 1 <= b ->
  eval_async st result opcode fetch cost handler_budget fallthrough between_polls b fuel s = Some (r, tr, c) ->
  c_yields c * b <= c_cost c /\ c_cost c <= S (c_yields c) * (b + M - 1) /\
  c_steps c <= c_cost c /\ c_cost c <= M * c_steps c.
Print Assumptions yields_bounds.

(* budget 0: Pending after every instruction that continues (yields = steps, or steps - 1 when the last
   instruction broke out of the loop) *)
Theorem budget0_yields_every_step : forall (st result opcode : Type) (fetch : st -> option opcode) (cost : opcode -> nat)
    (handler : opcode -> st -> flow st result) (handler_budget : opcode -> st -> nat -> flow st result * nat)
    (fallthrough : result) (between_polls : st -> st),
  (forall op s rb, handler_budget op s rb = (handler op s, rb - cost op)) ->
  forall (fuel : nat) (s : st) (r : result) (tr : list opcode) (c : counters),
  eval_async st result opcode fetch cost handler_budget fallthrough between_polls 0 fuel s = Some (r, tr, c) ->
  c_yields c = c_steps c \/ c_yields c + 1 = c_steps c.
Proof. exact budget0_lemma. Qed.
Check budget0_yields_every_step : forall (st result opcode : Type) (fetch : st -> option opcode) (cost : opcode -> nat)
    (handler : opcode -> st -> flow st result) (handler_budget : opcode -> st -> nat -> flow st result * nat)
    (fallthrough : result) (between_polls : st -> st),
  (forall op s rb, handler_budget op s rb = (handler op s, rb - cost op)) ->
  forall (fuel : nat) (s : st) (r : result) (tr : list opcode) (c : counters),
  eval_async st result opcode fetch cost handler_budget fallthrough between_polls 0 fuel s = Some (r, tr, c) ->
  c_yields c = c_steps c \/ c_yields c + 1 = c_steps c.
Print Assumptions budget0_yields_every_step.

(* the COST table as it is in the source now (finite: 256 entries, decided by computation): every opcode
   byte is listed, every opcode that is not a `=> Reserved` mapping costs between 1 and table_max (the
   largest COST in the table, whatever it currently is; a u8), the reserved ones cost 0 (their operation is
   unreachable!()), and every opcode that jumps, calls, returns, awaits or yields is among the paying ones.
   Hence no executable cycle is free: a loop cannot run forever without the evaluator yielding. *)
Theorem opcode_costs :
  List.length OPCODE_TABLE = 256 /\
  (forall op, table_reserved op = false -> 1 <= table_cost op <= table_max) /\
  table_max <= 255 /\
  all_reserved_cost_zero = true /\ RESERVED_STRUCT_COST = 0 /\
  back_edges_cost_positive = true.
Proof.
  exact (conj table_256 (conj table_cost_bounds (conj table_max_u8
        (conj (proj1 table_reserved_zero) (conj (proj2 table_reserved_zero) back_edges_positive))))).
Qed.
Check opcode_costs :
  List.length OPCODE_TABLE = 256 /\
  (forall op, table_reserved op = false -> 1 <= table_cost op <= table_max) /\
  table_max <= 255 /\
  all_reserved_cost_zero = true /\ RESERVED_STRUCT_COST = 0 /\
  back_edges_cost_positive = true.
Print Assumptions opcode_costs.

(* the abstract machine instantiated with boa's opcode bytes and COST table: between two yields at most
   b + table_max - 1 instructions run, and there are at most table_max * steps / b yields *)
Theorem boa_yields : forall (st result : Type) (fetch : st -> option nat)
    (handler : nat -> st -> flow st result) (handler_budget : nat -> st -> nat -> flow st result * nat)
    (fallthrough : result) (between_polls : st -> st),
  (forall op s rb, handler_budget op s rb = (handler op s, rb - table_cost op)) ->
  (forall s op, fetch s = Some op -> table_reserved op = false) ->
  forall (b fuel : nat) (s : st) (r : result) (tr : list nat) (c : counters), 1 <= b ->
  eval_async st result nat fetch table_cost handler_budget fallthrough between_polls b fuel s = Some (r, tr, c) ->
  c_yields c * b <= table_max * c_steps c /\ c_steps c <= S (c_yields c) * (b + table_max - 1).
Proof. exact boa_yields_lemma. Qed.
Check boa_yields : forall (st result : Type) (fetch : st -> option nat)
    (handler : nat -> st -> flow st result) (handler_budget : nat -> st -> nat -> flow st result * nat)
    (fallthrough : result) (between_polls : st -> st),
  (forall op s rb, handler_budget op s rb = (handler op s, rb - table_cost op)) ->
  (forall s op, fetch s = Some op -> table_reserved op = false) ->
  forall (b fuel : nat) (s : st) (r : result) (tr : list nat) (c : counters), 1 <= b ->
  eval_async st result nat fetch table_cost handler_budget fallthrough between_polls b fuel s = Some (r, tr, c) ->
  c_yields c * b <= table_max * c_steps c /\ c_steps c <= S (c_yields c) * (b + table_max - 1).
Print Assumptions boa_yields.

(* ================= model C composed with model A ================= *)

(* the jobs of the promise semantics (reaction jobs, thenable jobs, await continuations -- for every
   program, after any script): boa's batched executor and the specification's FIFO order give the same
   print trace, heap and executed-job sequence *)
Theorem promise_jobs_batched_eq_fifo : forall (funs : list fdef) (jf : nat) (s : state) (n m : nat),
  terminated (drain_batched state job perr (pexec funs jf) n (after_script s)) ->
  terminated (drain_fifo state job perr (pexec funs jf) m (after_script s)) ->
  drain_batched state job perr (pexec funs jf) n (after_script s) =
  drain_fifo state job perr (pexec funs jf) m (after_script s).
Proof. exact promise_batched_eq_fifo_lemma. Qed.
Check promise_jobs_batched_eq_fifo : forall (funs : list fdef) (jf : nat) (s : state) (n m : nat),
  terminated (drain_batched state job perr (pexec funs jf) n (after_script s)) ->
  terminated (drain_fifo state job perr (pexec funs jf) m (after_script s)) ->
  drain_batched state job perr (pexec funs jf) n (after_script s) =
  drain_fifo state job perr (pexec funs jf) m (after_script s).
Print Assumptions promise_jobs_batched_eq_fifo.

(* ... and every promise job enqueued by the script or by another job runs exactly once, in enqueue order *)
Theorem promise_jobs_each_once : forall (funs : list fdef) (jf : nat) (s : state) (n : nat),
  match drain_batched state job perr (pexec funs jf) n (after_script s) with
  | Finished s' => qq s' = [] /\ qdone s' = qlog s' /\ map fst (qdone s') = seq 0 (qnext s' - 0)
  | Failed s' _ => qq s' = [] /\ (exists dropped, qlog s' = qdone s' ++ dropped) /\
                   map fst (qlog s') = seq 0 (qnext s' - 0) /\ qdone s' <> []
  | OutOfFuel _ => True
  end.
Proof. intros funs jf s n. exact (each_once state job perr (pexec funs jf) n (set_queue s []) 0 (queue s)). Qed.
Check promise_jobs_each_once : forall (funs : list fdef) (jf : nat) (s : state) (n : nat),
  match drain_batched state job perr (pexec funs jf) n (after_script s) with
  | Finished s' => qq s' = [] /\ qdone s' = qlog s' /\ map fst (qdone s') = seq 0 (qnext s' - 0)
  | Failed s' _ => qq s' = [] /\ (exists dropped, qlog s' = qdone s' ++ dropped) /\
                   map fst (qlog s') = seq 0 (qnext s' - 0) /\ qdone s' <> []
  | OutOfFuel _ => True
  end.
Print Assumptions promise_jobs_each_once.

(* the hypotheses are satisfiable / the definitions compute: a two-job example where the first job enqueues
   a third; batched and FIFO both run 0,1,2 *)
Example jobs_example :
  let exec := fun (j : nat) (w : list nat) => (w ++ [j], (if j =? 0 then [2] else []), @None unit) in
  drain_batched (list nat) nat unit exec 5 (init [] 0 [0; 1]) = drain_fifo (list nat) nat unit exec 5 (init [] 0 [0; 1]) /\
  match drain_fifo (list nat) nat unit exec 5 (init [] 0 [0; 1]) with Finished s => qw s = [0; 1; 2] | _ => False end.
Proof. vm_compute. split; reflexivity. Qed.

(* a failing job drops what is queued behind it *)
Example error_example :
  let exec := fun (j : nat) (w : list nat) => (w ++ [j], [], if j =? 1 then Some tt else None) in
  match drain_batched (list nat) nat unit exec 5 (init [] 0 [0; 1; 2]) with
  | Failed s _ => qw s = [0; 1] /\ qq s = []
  | _ => False
  end.
Proof. vm_compute. split; reflexivity. Qed.
