(* C16, model B: the instruction budget of the asynchronous evaluator.  Definitions only.

   Transliterated from /repo/core/engine/src/vm/mod.rs (tools/gen_c16.py refuses to regenerate
   Gen/OpcodeCost.v when these two loops or the two handler templates change shape):

     pub(crate) fn run(&mut self) -> CompletionRecord {
         while let Some(byte) = bytes.get(pc) {
             let opcode = Opcode::decode( *byte );
             match OPCODE_HANDLERS[opcode as usize](context, pc) {
                 ControlFlow::Continue(()) => {}
                 ControlFlow::Break(value) => return value,
             }
         }
         CompletionRecord::Throw(JsError::from_native(JsNativeError::error()))
     }
     pub(crate) async fn run_async_with_budget(&mut self, budget: u32) -> CompletionRecord {
         let mut runtime_budget: u32 = budget;
         while let Some(byte) = bytes.get(pc) {
             let opcode = Opcode::decode( *byte );
             match OPCODE_HANDLERS_BUDGET[opcode as usize](context, pc, &mut runtime_budget) {
                 ControlFlow::Continue(()) => {}
                 ControlFlow::Break(value) => return value,
             }
             if runtime_budget == 0 { runtime_budget = budget; yield_now().await; }
         }
         CompletionRecord::Throw(JsError::from_native(JsNativeError::error()))
     }
     fn handle_X(context, pc)                { decode; pc = next; X::operation(args, context) }
     fn handle_X_budget(context, pc, budget) { *budget = budget.saturating_sub(u32::from(X::COST)); decode; pc = next; X::operation(args, context) }

   runtime_budget never exceeds `budget` (a u32) and COST is a u8, so u32 saturating subtraction is
   truncated subtraction on nat. *)
From Coq Require Import List Arith Bool.
Import ListNotations.

Section Budget.
  Variable st : Type.           (* the Context: frames, value stack, heap, realm, job queues, ... *)
  Variable result : Type.       (* CompletionRecord *)
  Variable opcode : Type.

  Inductive flow : Type := Continue (s : st) | Break (r : result).

  Variable fetch : st -> option opcode.        (* bytes.get(pc) + Opcode::decode; None: pc is past the end *)
  Variable cost : opcode -> nat.               (* <X as Operation>::COST *)
  Variable handler : opcode -> st -> flow.                        (* OPCODE_HANDLERS[op] *)
  Variable handler_budget : opcode -> st -> nat -> flow * nat.    (* OPCODE_HANDLERS_BUDGET[op], with *budget *)
  Variable fallthrough : result.               (* Throw(JsNativeError::error()) after the loop *)
  Variable between_polls : st -> st.           (* what the host does to the context while the future is Pending *)

  (* Context::run *)
  Fixpoint run (fuel : nat) (s : st) (tr : list opcode) : option (result * list opcode) :=
    match fuel with
    | 0 => None
    | S f =>
      match fetch s with
      | None => Some (fallthrough, tr)
      | Some op =>
        match handler op s with
        | Continue s' => run f s' (tr ++ [op])
        | Break r => Some (r, tr ++ [op])
        end
      end
    end.

  Record counters : Type := mkC {
    c_yields : nat;      (* how often the future returned Pending *)
    c_cost : nat;        (* ghost: sum of COST of the executed instructions *)
    c_steps : nat        (* ghost: number of executed instructions *)
  }.

  (* Context::run_async_with_budget, polled until Ready *)
  Fixpoint run_budget (budget : nat) (fuel : nat) (rb : nat) (s : st) (tr : list opcode) (c : counters)
    : option (result * list opcode * counters) :=
    match fuel with
    | 0 => None
    | S f =>
      match fetch s with
      | None => Some (fallthrough, tr, c)
      | Some op =>
        let '(fl, rb') := handler_budget op s rb in
        let c' := mkC (c_yields c) (c_cost c + cost op) (S (c_steps c)) in
        match fl with
        | Break r => Some (r, tr ++ [op], c')
        | Continue s' =>
          if rb' =? 0
          then run_budget budget f budget (between_polls s') (tr ++ [op]) (mkC (S (c_yields c)) (c_cost c') (c_steps c'))
          else run_budget budget f rb' s' (tr ++ [op]) c'
        end
      end
    end.

  Definition zero : counters := mkC 0 0 0.

  (* Script::evaluate vs Script::evaluate_async_with_budget(b) once prepare_run has pushed the frame *)
  Definition eval_sync (fuel : nat) (s : st) := run fuel s [].
  Definition eval_async (b : nat) (fuel : nat) (s : st) := run_budget b fuel b s [] zero.

End Budget.

Arguments Continue {st result}.
Arguments Break {st result}.
