(* C16: model C composed with model A.  The promise semantics runs its jobs with Jobs.drain_fifo (the
   specification order); boa's executor runs them in batches (Jobs.drain_batched).  Instantiating the
   theorems of Proofs_Jobs.v with the behaviour `pexec` of promise jobs: same trace, same final heap,
   every job once. *)
From Coq Require Import List Arith Lia Bool.
Import ListNotations.
From C16 Require Import Jobs Promise Proofs_Jobs.

Lemma promise_batched_eq_fifo_lemma : forall (funs : list fdef) (jf : nat) (s : state) n m,
  terminated (drain_batched state job perr (pexec funs jf) n (after_script s)) ->
  terminated (drain_fifo state job perr (pexec funs jf) m (after_script s)) ->
  drain_batched state job perr (pexec funs jf) n (after_script s) =
  drain_fifo state job perr (pexec funs jf) m (after_script s).
Proof. intros. now apply batched_eq_fifo_lemma. Qed.

Lemma after_script_wf : forall s, wf state job 0 (after_script s).
Proof. intros. apply init_wf. Qed.

Lemma promise_each_once_lemma : forall (funs : list fdef) (jf : nat) (s : state) n,
  terminated (drain_batched state job perr (pexec funs jf) n (after_script s)) ->
  once_post state job perr 0 (drain_batched state job perr (pexec funs jf) n (after_script s)).
Proof. intros. apply each_once_lemma; [apply after_script_wf | assumption]. Qed.

(* the batch counter reported by run_prog belongs to the same run *)
Lemma run_prog_batches_lemma : forall (funs : list fdef) (jf fuel : nat) (s : state),
  fst (drain_batched_n state job perr (pexec funs jf) fuel (after_script s) 0) =
  drain_batched state job perr (pexec funs jf) fuel (after_script s).
Proof. intros. apply batched_n_fst. Qed.
