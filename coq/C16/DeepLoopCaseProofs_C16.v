(* C16 deepening: the counted loop the correspondence executes is run_full. *)
From Coq Require Import List Arith Bool Lia.
Import ListNotations.
From C16 Require Import Jobs DeepLoop_C16 DeepLoopCase_C16.

Section FullNProofs.
  Variable world : Type.
  Variable job : Type.
  Variable err : Type.
  Variable fut : Type.
  Variable now : world -> nat.
  Variable execk : job -> world -> world * list (fkind * job) * option err.
  Variable astart : job -> world -> world * list (fkind * job) * fut.
  Variable gpoll : list (nat * fut) -> world -> list (nat * fut) * world * list (fkind * job) * option err.
  Variable stop_requested : world -> bool.
  Variable clear_stop : world -> world.
  Variable cancelled : world -> nat -> bool.
  Variable between : world -> world.

  Notation run_full := (run_full world job err fut now execk astart gpoll stop_requested clear_stop cancelled between).
  Notation run_full_n := (run_full_n world job err fut now execk astart gpoll stop_requested clear_stop cancelled between).

  Lemma after_n_fst : forall (rec : fstate world job fut -> foutcome world job err fut)
      (recn : fstate world job fut -> nat -> foutcome world job err fut * nat),
    (forall s k, fst (recn s k) = rec s) ->
    forall s k, fst (after_exit_check_n world job err fut execk gpoll between recn s k) =
                after_exit_check world job err fut execk gpoll between rec s.
  Proof.
    intros rec recn H s k. unfold after_exit_check_n, after_exit_check.
    destruct (poll_group world job err fut gpoll false s) as [s5 oe].
    destruct oe; [reflexivity|].
    destruct (fbatch world job err fut execk true (fp s5) (take_fp world job fut s5)) as [s6|[s6 e6]]; [|reflexivity].
    destruct (fbatch world job err fut execk false (fg s6) (take_fg world job fut s6)) as [s7|[s7 e7]]; [|reflexivity].
    apply H.
  Qed.

  Theorem run_full_n_fst : forall fuel s k, fst (run_full_n fuel s k) = run_full fuel s.
  Proof.
    induction fuel; intros s k; simpl; [reflexivity|].
    destruct (stop_requested (fw s)); [reflexivity|].
    destruct (run_due world job err fut now execk cancelled _ _) as [s3|[s3 e3]]; [|reflexivity].
    destruct (fempty world job fut s3 && group_empty world job fut s3).
    - destruct (poll_group world job err fut gpoll true s3) as [s4 oe].
      destruct oe; [reflexivity|].
      destruct (fempty world job fut s4); [reflexivity|].
      apply after_n_fst. intros; apply IHfuel.
    - apply after_n_fst. intros; apply IHfuel.
  Qed.
End FullNProofs.
