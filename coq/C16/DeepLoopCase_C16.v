(* C16 deepening: run_full (a) with an iteration counter and (b) instantiated with a table of native jobs that can also
   be interval jobs, cancel clock jobs and request a stop -- the instance the `jloop` correspondence executes side by
   side with SimpleJobExecutor::run_jobs_async.  Definitions only. *)
From Coq Require Import List Arith Bool.
Import ListNotations.
From C16 Require Import Jobs LoopCase DeepLoop_C16.

Section FullN.
  Variable world : Type.
  Variable job : Type.
  Variable err : Type.
  Variable fut : Type.
  Variable now : world -> nat.
  Variable execk : job -> world -> world * list (fkind * job) * option err.
  Variable astart : job -> world -> world * list (fkind * job) * fut.
  Variable gpoll : list (nat * fut) -> world -> list (nat * fut) * world * list (fkind * job) * option err.
  Variable stop_requested : world -> bool.
  Variable clear_stop : world -> world.
  Variable cancelled : world -> nat -> bool.
  Variable between : world -> world.

  Definition after_exit_check_n (rec : fstate world job fut -> nat -> foutcome world job err fut * nat)
             (s4 : fstate world job fut) (k : nat) : foutcome world job err fut * nat :=
    let '(s5, oe) := poll_group world job err fut gpoll false s4 in
    match oe with
    | Some e => (FFailed (fclear world job fut s5) e, k)
    | None =>
      match fbatch world job err fut execk true (fp s5) (take_fp world job fut s5) with
      | inr (s6, e) => (FFailed s6 e, k)
      | inl s6 =>
        match fbatch world job err fut execk false (fg s6) (take_fg world job fut s6) with
        | inr (s7, e) => (FFailed s7 e, k)
        | inl s7 => rec (set_fw world job fut (between (fw s7)) s7) k
        end
      end
    end.

  (* run_full, also counting the iterations started (= polls of the future) *)
  Fixpoint run_full_n (fuel : nat) (s : fstate world job fut) (k : nat) {struct fuel} : foutcome world job err fut * nat :=
    match fuel with
    | 0 => (FOutOfFuel s, k)
    | S f =>
      if stop_requested (fw s) then (FStopped (fclear world job fut (set_fw world job fut (clear_stop (fw s)) s)), S k)
      else
        let s1 := start_all world job fut astart false (fa s) (take_fa world job fut s) in
        let s2 := start_all world job fut astart true (ffr s1) (take_ffr world job fut s1) in
        let t0 := now (fw s2) in
        match run_due world job err fut now execk cancelled (fdue job t0 (ftm s2))
                      (set_ftm world job fut (fkept world job cancelled (fw s2) t0 (ftm s2)) s2) with
        | inr (s3, e) => (FFailed s3 e, S k)
        | inl s3 =>
          if fempty world job fut s3 && group_empty world job fut s3 then
            let '(s4, oe) := poll_group world job err fut gpoll true s3 in
            match oe with
            | Some e => (FFailed (fclear world job fut s4) e, S k)
            | None => if fempty world job fut s4 then (FFinished s4, S k) else after_exit_check_n (run_full_n f) s4 (S k)
            end
          else after_exit_check_n (run_full_n f) s3 (S k)
        end
    end.
End FullN.

(* ---------- table-driven instance ---------- *)
(* enqueue request (kind, delay, job id): kind 0 promise, 1 generic, 2 timeout, 3 interval (delay = period) *)
(* behaviour of job i: log, move the clock by d_adv, cancel the clock jobs with the listed tickets, request a stop,
   enqueue, return Err *)
Record dbeh : Type := mkDB { d_adv : nat; d_err : bool; d_stop : bool; d_cancel : list nat; d_new : list enq }.

(* world: clock, stop flag, revoked tickets, log of executed job ids *)
Record dworld : Type := mkDW { dw_clock : nat; dw_stop : bool; dw_cancelled : list nat; dw_log : list nat }.

Definition dkind (clk : nat) (e : enq) : fkind * nat :=
  let '(k, d, c) := e in
  (match k with 0 => FPromise | 1 => FGeneric | 2 => FTimeout (clk + d) | _ => FInterval (clk + d) d end, c).

Definition dexec (tbl : list dbeh) (j : nat) (w : dworld) : dworld * list (fkind * nat) * option unit :=
  match nth_error tbl j with
  | None => (mkDW (dw_clock w) (dw_stop w) (dw_cancelled w) (dw_log w ++ [j]), [], None)
  | Some b =>
    let clk := dw_clock w + d_adv b in
    (mkDW clk (dw_stop w || d_stop b) (dw_cancelled w ++ d_cancel b) (dw_log w ++ [j]),
     map (dkind clk) (d_new b), if d_err b then Some tt else None)
  end.

Definition dstart (j : nat) (w : dworld) : dworld * list (fkind * nat) * unit := (w, [], tt).
Definition dgpoll (g : list (nat * unit)) (w : dworld) : list (nat * unit) * dworld * list (fkind * nat) * option unit :=
  (g, w, [], None).
Definition dcancelled (w : dworld) (t : nat) : bool := existsb (Nat.eqb t) (dw_cancelled w).
Definition dclear_stop (w : dworld) : dworld := mkDW (dw_clock w) false (dw_cancelled w) (dw_log w).

Definition dinit (init : list enq) : fstate dworld nat unit :=
  let new := map (dkind 0) init in
  let '(p, g, a, fr, t, plog) := enq_all nat 0 new [] [] [] [] [] [] in
  mkFS (mkDW 0 false [] []) p g a fr t [] [] (List.length new) [] plog [].

Definition dbump (d : nat) (s : fstate dworld nat unit) : fstate dworld nat unit :=
  let w := fw s in
  set_fw dworld nat unit (mkDW (dw_clock w + d) (dw_stop w) (dw_cancelled w) (dw_log w)) s.

Definition dcode (o : foutcome dworld nat unit unit) : nat :=
  match o with FFinished _ => 0 | FFailed _ _ => 1 | FOutOfFuel _ => 2 | FStopped _ => 3 end.
Definition dstate (o : foutcome dworld nat unit unit) : fstate dworld nat unit :=
  match o with FFinished s => s | FFailed s _ => s | FOutOfFuel s => s | FStopped s => s end.

Definition drun := run_full_n dworld nat unit unit dw_clock.

Definition full_result (hd : list nat) (s : fstate dworld nat unit) : list nat * list (nat * nat) * list nat :=
  (hd ++ [List.length (fplog s)] ++ dw_log (fw s), fall s, map fst (fpdone s)).

(* as LoopCase.loop_case: at most n polls; if still Pending the host moves the clock by d and polls a fresh future at
   most m times.  result codes: 0 Ok (ran dry), 1 Err, 2 still Pending, 3 Ok (stop requested), 9 no second phase *)
Definition full_case (tbl : list dbeh) (init : list enq) (n d m : nat) : list nat * list (nat * nat) * list nat :=
  let run := run_full_n dworld nat unit unit dw_clock (dexec tbl) dstart dgpoll dw_stop dclear_stop dcancelled (fun w => w) in
  let '(o1, k1) := run n (dinit init) 0 in
  let log1 := dw_log (fw (dstate o1)) in
  match o1 with
  | FOutOfFuel s =>
    let '(o2, k2) := run m (dbump d s) 0 in
    full_result [2; k1; List.length log1; dcode o2; k2] (dstate o2)
  | _ => full_result [dcode o1; k1; List.length log1; 9; 0] (dstate o1)
  end.
