(* C16 deepening: the FULL loop of SimpleJobExecutor::run_jobs_async (core/engine/src/job.rs), with every job kind it
   drains: promise jobs, generic jobs, timeout and interval jobs (with cancellation), native async jobs and
   FinalizationRegistry clean-up jobs (futures in two FutureGroups), and the stop flag.  Definitions only
   (proofs: DeepLoopProofs_C16.v).  One Gallina arm per statement of

     loop {
       if self.stop.load() { self.stop.store(false); self.clear(); return Ok(()) }
       for job in mem::take(async_jobs)                { group.insert(job.call(context)) }
       for job in mem::take(finalization_registry_jobs) { fr_group.insert(job.call(context)) }
       { let now = clock.now();
         let jobs_to_run = { let mut jobs_to_keep = clock_jobs.split_off(&now);
                             jobs_to_keep.retain(|_, jobs| { jobs.retain(|job| !job.cancelled()); !jobs.is_empty() });
                             mem::replace(clock_jobs, jobs_to_keep) };
         for jobs in jobs_to_run.into_values() { for job in jobs { if !job.cancelled() { match job {
             Timeout(job)  => if let Err(err) = job.call(ctx) { self.clear(); return Err(err) }
             Interval(job) => { let now = clock.now(); if let Err(err) = job.call(ctx) { self.clear(); return Err(err) }
                                clock_jobs.entry(now + job.interval()).or_default().push(Interval(job)) } } } } } }
       if self.is_empty() && group.is_empty() {
         match poll_once(fr_group.next()).flatten() { Some(Err(err)) => { self.clear(); return Err(err) }
                                                      _ if !self.is_empty() => {}   _ => break } }
       if let Some(Err(err)) = poll_once(group.next()).flatten() { self.clear(); return Err(err) }
       let jobs = mem::take(promise_jobs); for job in jobs { if let Err(err) = job.call(ctx) { self.clear(); return Err(err) } }
       let jobs = mem::take(generic_jobs); for job in jobs { if let Err(err) = job.call(ctx) { self.clear(); return Err(err) } }
       clear_kept_objects(); yield_now().await
     }

   is_empty() looks at promise_jobs, async_jobs, generic_jobs, clock_jobs (not at finalization_registry_jobs);
   clear() empties the same four (not the FinalizationRegistry queue, not the two groups).

   What is abstract (section variables; every theorem holds for every instance): the behaviour of a job callback
   (execk), what calling a NativeAsyncJob does before it hands back its future (astart), what one
   `poll_once(group.next())` does -- which in-flight futures the FutureGroup polls, in which order, what they do to the
   world, which jobs they enqueue, whether the first one that completes returned Err (gpoll) --, the clock (now), the
   stop flag and the cancellation tokens as functions of the world (jobs, and other threads between polls, may set
   them: `between` is applied to the world at every yield). *)
From Coq Require Import List Arith Bool.
Import ListNotations.
From C16 Require Import Jobs.

Section FullLoop.
  Variable world : Type.
  Variable job : Type.
  Variable err : Type.
  Variable fut : Type.                       (* an in-flight future of a NativeAsyncJob *)

  (* the Job enum.  The key of a clock job is `now + timeout` computed by enqueue_job; as in Jobs.v the behaviour that
     enqueues it reports the absolute key *)
  Inductive fkind : Type :=
  | FPromise | FGeneric | FTimeout (key : nat) | FInterval (key len : nat) | FAsync | FFinReg.

  Local Notation entry := (nat * job)%type.
  (* a clock job: (key, (ticket, job), Some len for an IntervalJob) *)
  Local Notation centry := (nat * (entry * option nat))%type.

  Variable now : world -> nat.
  Variable execk : job -> world -> world * list (fkind * job) * option err.
  Variable astart : job -> world -> world * list (fkind * job) * fut.
  Variable gpoll : list (nat * fut) -> world -> list (nat * fut) * world * list (fkind * job) * option err.
  Variable stop_requested : world -> bool.
  Variable clear_stop : world -> world.
  Variable cancelled : world -> nat -> bool.      (* the CancellationToken of the clock job with this ticket is revoked *)
  Variable between : world -> world.              (* what other threads / the host do while the future is Pending *)

  Record fstate : Type := mkFS {
    fw : world;
    fp : list entry;               (* promise_jobs *)
    fg : list entry;               (* generic_jobs *)
    fa : list entry;               (* async_jobs *)
    ffr : list entry;              (* finalization_registry_jobs *)
    ftm : list centry;             (* clock_jobs, sorted by (key, insertion) *)
    fgroup : list (nat * fut);     (* group *)
    ffrgroup : list (nat * fut);   (* fr_group *)
    fnext : nat;                   (* ghost: next ticket *)
    fpdone : list entry;           (* ghost: executed promise jobs, in execution order *)
    fplog : list entry;            (* ghost: promise jobs in HostEnqueuePromiseJob order *)
    fall : list entry              (* ghost: every job callback run / async job started, in order *)
  }.

  Fixpoint insert_clock (key : nat) (e : entry * option nat) (l : list centry) : list centry :=
    match l with
    | [] => [(key, e)]
    | (k, x) :: l' => if k <=? key then (k, x) :: insert_clock key e l' else (key, e) :: l
    end.

  (* enqueue_job for each produced job, in order; tickets n, n+1, ... *)
  Fixpoint enq_all (n : nat) (new : list (fkind * job)) (p g a fr : list entry) (t : list centry) (plog : list entry)
    : list entry * list entry * list entry * list entry * list centry * list entry :=
    match new with
    | [] => (p, g, a, fr, t, plog)
    | (FPromise, j) :: r => enq_all (S n) r (p ++ [(n, j)]) g a fr t (plog ++ [(n, j)])
    | (FGeneric, j) :: r => enq_all (S n) r p (g ++ [(n, j)]) a fr t plog
    | (FAsync, j) :: r => enq_all (S n) r p g (a ++ [(n, j)]) fr t plog
    | (FFinReg, j) :: r => enq_all (S n) r p g a (fr ++ [(n, j)]) t plog
    | (FTimeout key, j) :: r => enq_all (S n) r p g a fr (insert_clock key ((n, j), None) t) plog
    | (FInterval key len, j) :: r => enq_all (S n) r p g a fr (insert_clock key ((n, j), Some len) t) plog
    end.

  (* anything that runs against the context: the world changes and jobs are enqueued *)
  Definition effect (w' : world) (new : list (fkind * job)) (s : fstate) : fstate :=
    let '(p, g, a, fr, t, plog) := enq_all (fnext s) new (fp s) (fg s) (fa s) (ffr s) (ftm s) (fplog s) in
    mkFS w' p g a fr t (fgroup s) (ffrgroup s) (fnext s + length new) (fpdone s) plog (fall s).

  Definition mark (isp : bool) (tj : entry) (s : fstate) : fstate :=
    mkFS (fw s) (fp s) (fg s) (fa s) (ffr s) (ftm s) (fgroup s) (ffrgroup s) (fnext s)
         (if isp then fpdone s ++ [tj] else fpdone s) (fplog s) (fall s ++ [tj]).

  (* job.call(context) of a promise / generic / timeout / interval job *)
  Definition frun (isp : bool) (tj : entry) (s : fstate) : fstate * option err :=
    let '(w', new, oe) := execk (snd tj) (fw s) in (mark isp tj (effect w' new s), oe).

  (* self.clear() *)
  Definition fclear (s : fstate) : fstate :=
    mkFS (fw s) [] [] [] (ffr s) [] (fgroup s) (ffrgroup s) (fnext s) (fpdone s) (fplog s) (fall s).

  Fixpoint fbatch (isp : bool) (batch : list entry) (s : fstate) : fstate + (fstate * err) :=
    match batch with
    | [] => inl s
    | tj :: rest =>
      let '(s', oe) := frun isp tj s in
      match oe with
      | Some e => inr (fclear s', e)
      | None => fbatch isp rest s'
      end
    end.

  (* for job in mem::take(async_jobs) { group.insert(job.call(context)) }   (tofr = false)
     for job in mem::take(finalization_registry_jobs) { fr_group.insert(...) } (tofr = true) *)
  Definition push_fut (tofr : bool) (x : nat * fut) (s : fstate) : fstate :=
    mkFS (fw s) (fp s) (fg s) (fa s) (ffr s) (ftm s)
         (if tofr then fgroup s else fgroup s ++ [x]) (if tofr then ffrgroup s ++ [x] else ffrgroup s)
         (fnext s) (fpdone s) (fplog s) (fall s).

  Fixpoint start_all (tofr : bool) (batch : list entry) (s : fstate) : fstate :=
    match batch with
    | [] => s
    | tj :: rest =>
      let '(w', new, f) := astart (snd tj) (fw s) in
      start_all tofr rest (push_fut tofr (fst tj, f) (mark false tj (effect w' new s)))
    end.

  Definition take_fa (s : fstate) : fstate :=
    mkFS (fw s) (fp s) (fg s) [] (ffr s) (ftm s) (fgroup s) (ffrgroup s) (fnext s) (fpdone s) (fplog s) (fall s).
  Definition take_ffr (s : fstate) : fstate :=
    mkFS (fw s) (fp s) (fg s) (fa s) [] (ftm s) (fgroup s) (ffrgroup s) (fnext s) (fpdone s) (fplog s) (fall s).
  Definition take_fp (s : fstate) : fstate :=
    mkFS (fw s) [] (fg s) (fa s) (ffr s) (ftm s) (fgroup s) (ffrgroup s) (fnext s) (fpdone s) (fplog s) (fall s).
  Definition take_fg (s : fstate) : fstate :=
    mkFS (fw s) (fp s) [] (fa s) (ffr s) (ftm s) (fgroup s) (ffrgroup s) (fnext s) (fpdone s) (fplog s) (fall s).
  Definition set_ftm (t : list centry) (s : fstate) : fstate :=
    mkFS (fw s) (fp s) (fg s) (fa s) (ffr s) t (fgroup s) (ffrgroup s) (fnext s) (fpdone s) (fplog s) (fall s).
  Definition set_fw (w : world) (s : fstate) : fstate :=
    mkFS w (fp s) (fg s) (fa s) (ffr s) (ftm s) (fgroup s) (ffrgroup s) (fnext s) (fpdone s) (fplog s) (fall s).

  (* the clock jobs that are due (key < now) and the ones kept (key >= now and not cancelled at this moment) *)
  Definition fdue (t0 : nat) (l : list centry) : list centry := filter (fun ke => fst ke <? t0) l.
  Definition fkept (w : world) (t0 : nat) (l : list centry) : list centry :=
    filter (fun ke => negb (fst ke <? t0) && negb (cancelled w (fst (fst (snd ke))))) l.

  (* for jobs in jobs_to_run { for job in jobs { if !job.cancelled() { ... } } } *)
  Fixpoint run_due (l : list centry) (s : fstate) : fstate + (fstate * err) :=
    match l with
    | [] => inl s
    | (_, (tj, iv)) :: rest =>
      if cancelled (fw s) (fst tj) then run_due rest s
      else
        let now2 := now (fw s) in                      (* read before the call, used by the Interval arm only *)
        let '(s', oe) := frun false tj s in
        match oe with
        | Some e => inr (fclear s', e)
        | None =>
          match iv with
          | None => run_due rest s'
          | Some len => run_due rest (set_ftm (insert_clock (now2 + len) (tj, Some len) (ftm s')) s')
          end
        end
    end.

  (* poll_once(group.next()) / poll_once(fr_group.next()) *)
  Definition poll_group (fr : bool) (s : fstate) : fstate * option err :=
    let '(g', w', new, oe) := gpoll (if fr then ffrgroup s else fgroup s) (fw s) in
    let s1 := effect w' new s in
    (mkFS (fw s1) (fp s1) (fg s1) (fa s1) (ffr s1) (ftm s1)
          (if fr then fgroup s1 else g') (if fr then g' else ffrgroup s1)
          (fnext s1) (fpdone s1) (fplog s1) (fall s1), oe).

  Definition fempty (s : fstate) : bool :=
    match fp s, fa s, fg s, ftm s with [], [], [], [] => true | _, _, _, _ => false end.
  Definition group_empty (s : fstate) : bool := match fgroup s with [] => true | _ => false end.

  Inductive foutcome : Type :=
  | FFinished (s : fstate) | FFailed (s : fstate) (e : err) | FStopped (s : fstate) | FOutOfFuel (s : fstate).

  (* the tail of an iteration, from the group poll on *)
  Definition after_exit_check (rec : fstate -> foutcome) (s4 : fstate) : foutcome :=
    let '(s5, oe) := poll_group false s4 in
    match oe with
    | Some e => FFailed (fclear s5) e
    | None =>
      match fbatch true (fp s5) (take_fp s5) with
      | inr (s6, e) => FFailed s6 e
      | inl s6 =>
        match fbatch false (fg s6) (take_fg s6) with
        | inr (s7, e) => FFailed s7 e
        | inl s7 => rec (set_fw (between (fw s7)) s7)
        end
      end
    end.

  Fixpoint run_full (fuel : nat) (s : fstate) {struct fuel} : foutcome :=
    match fuel with
    | 0 => FOutOfFuel s
    | S f =>
      if stop_requested (fw s) then FStopped (fclear (set_fw (clear_stop (fw s)) s))
      else
        let s1 := start_all false (fa s) (take_fa s) in
        let s2 := start_all true (ffr s1) (take_ffr s1) in
        let t0 := now (fw s2) in
        match run_due (fdue t0 (ftm s2)) (set_ftm (fkept (fw s2) t0 (ftm s2)) s2) with
        | inr (s3, e) => FFailed s3 e
        | inl s3 =>
          if fempty s3 && group_empty s3 then
            let '(s4, oe) := poll_group true s3 in
            match oe with
            | Some e => FFailed (fclear s4) e
            | None => if fempty s4 then FFinished s4 else after_exit_check (run_full f) s4
            end
          else after_exit_check (run_full f) s3
        end
    end.
End FullLoop.

Arguments mkFS {world job fut}.
Arguments fw {world job fut}.
Arguments fp {world job fut}.
Arguments fg {world job fut}.
Arguments fa {world job fut}.
Arguments ffr {world job fut}.
Arguments ftm {world job fut}.
Arguments fgroup {world job fut}.
Arguments ffrgroup {world job fut}.
Arguments fnext {world job fut}.
Arguments fpdone {world job fut}.
Arguments fplog {world job fut}.
Arguments fall {world job fut}.
Arguments FFinished {world job err fut}.
Arguments FFailed {world job err fut}.
Arguments FStopped {world job err fut}.
Arguments FOutOfFuel {world job err fut}.
