(* C16, model A: the promise-job queue.  Definitions only (proofs: Proofs_Jobs.v).

   Transliterated from /repo/core/engine/src/job.rs, `impl JobExecutor for SimpleJobExecutor`:

     enqueue_job:   Job::PromiseJob(p) => self.promise_jobs.borrow_mut().push_back(p)
                    Job::GenericJob(g) => self.generic_jobs.borrow_mut().push_back(g)
                    Job::TimeoutJob(t) => clock_jobs.entry(now + t.timeout()).or_default().push(t)
     run_jobs_async: loop {
         (stop flag) (async jobs -> group) (FinalizationRegistry jobs -> fr_group)
         run every clock job whose key is < now, in key order then insertion order; Err => clear, return
         if self.is_empty() && group.is_empty() { ... break }
         (poll group once)
         let jobs = mem::take(&mut *self.promise_jobs.borrow_mut());
         for job in jobs { if let Err(err) = job.call(ctx) { self.clear(); return Err(err); } }
         let jobs = mem::take(&mut *self.generic_jobs.borrow_mut());
         for job in jobs { if let Err(err) = job.call(ctx) { self.clear(); return Err(err); } }
         clear_kept_objects; yield_now().await
     }
   and the specification (ECMA-262 9.5 HostEnqueuePromiseJob: "Jobs must run in the same order as
   the HostEnqueuePromiseJob invocations that scheduled them"): one queue, pop the front, run it,
   append what it enqueued, repeat.

   A job is an index into a behaviour table; `exec j w` is what running it does: the new world, the
   jobs it enqueued in HostEnqueuePromiseJob order, and whether the closure returned Err (in boa a
   promise job returns Err only for engine errors: runtime limits, panics converted to errors).
   exec is a section variable: every theorem holds for every behaviour table. *)
From Coq Require Import List Arith Bool.
Import ListNotations.

Section Jobs.
  Variable world : Type.
  Variable job : Type.
  Variable err : Type.
  Variable exec : job -> world -> world * list job * option err.

  (* A queue entry carries the ticket it got when it was enqueued (ghost: boa has no tickets; they
     make "each job exactly once, in enqueue order" statable when the same behaviour is enqueued twice). *)
  Local Notation entry := (nat * job)%type.

  Fixpoint tag (n : nat) (l : list job) : list entry :=
    match l with
    | [] => []
    | j :: l' => (n, j) :: tag (S n) l'
    end.

  Record qstate : Type := mkQ {
    qw : world;              (* everything the jobs can observe or change *)
    qq : list entry;         (* self.promise_jobs *)
    qnext : nat;             (* ghost: next ticket *)
    qdone : list entry;      (* ghost: executed jobs, in execution order *)
    qlog : list entry        (* ghost: every HostEnqueuePromiseJob so far, in call order *)
  }.

  Inductive outcome : Type :=
  | Finished (s : qstate)                 (* run_jobs returned Ok(()) *)
  | Failed (s : qstate) (e : err)         (* run_jobs returned Err(e) *)
  | OutOfFuel (s : qstate).               (* the model's fuel ran out first; never compared *)

  Definition terminated (o : outcome) : Prop :=
    match o with OutOfFuel _ => False | _ => True end.

  Definition set_qq (s : qstate) (q : list entry) : qstate :=
    mkQ (qw s) q (qnext s) (qdone s) (qlog s).

  (* self.clear(): the queues are emptied (pending jobs are dropped, never run) *)
  Definition clear (s : qstate) : qstate := set_qq s [].

  (* running entry (t,j) in state s whose promise queue currently is [q] *)
  Definition run_entry (tj : entry) (q : list entry) (s : qstate) : qstate * option err :=
    let '(w', new, oe) := exec (snd tj) (qw s) in
    (mkQ w' (q ++ tag (qnext s) new) (qnext s + length new) (qdone s ++ [tj]) (qlog s ++ tag (qnext s) new), oe).

  (* ---- specification: strict FIFO ------------------------------------------------------------- *)
  Fixpoint drain_fifo (fuel : nat) (s : qstate) {struct fuel} : outcome :=
    match qq s with
    | [] => Finished s
    | tj :: rest =>
      match fuel with
      | 0 => OutOfFuel s
      | S f =>
        let '(s', oe) := run_entry tj rest s in
        match oe with
        | Some e => Failed (clear s') e
        | None => drain_fifo f s'
        end
      end
    end.

  (* ---- what SimpleJobExecutor does with promise jobs: batches ---------------------------------- *)
  (* for job in jobs { if let Err(err) = job.call(..) { self.clear(); return Err(err); } }
     [qq s] is self.promise_jobs (refilled by the running jobs), [batch] the local `jobs`. *)
  Fixpoint run_batch (batch : list entry) (s : qstate) : qstate + (qstate * err) :=
    match batch with
    | [] => inl s
    | tj :: rest =>
      let '(s', oe) := run_entry tj (qq s) s in
      match oe with
      | Some e => inr (clear s', e)
      | None => run_batch rest s'
      end
    end.

  (* loop { if is_empty() { break }  let jobs = mem::take(promise_jobs);  for job in jobs {..} }
     fuel = number of batches *)
  Fixpoint drain_batched (fuel : nat) (s : qstate) {struct fuel} : outcome :=
    match qq s with
    | [] => Finished s
    | batch =>
      match fuel with
      | 0 => OutOfFuel s
      | S f =>
        match run_batch batch (set_qq s []) with
        | inr (s', e) => Failed s' e
        | inl s' => drain_batched f s'
        end
      end
    end.

  (* the same loop, also counting the batches it ran (= polls of run_jobs_async that returned Pending) *)
  Fixpoint drain_batched_n (fuel : nat) (s : qstate) (k : nat) {struct fuel} : outcome * nat :=
    match qq s with
    | [] => (Finished s, k)
    | batch =>
      match fuel with
      | 0 => (OutOfFuel s, k)
      | S f =>
        match run_batch batch (set_qq s []) with
        | inr (s', e) => (Failed s' e, S k)
        | inl s' => drain_batched_n f s' (S k)
        end
      end
    end.

  (* ---- draining in several calls ---------------------------------------------------------------- *)
  (* a host that calls a k-jobs-at-a-time FIFO drain repeatedly (harness mode split:<k>) *)
  Fixpoint drain_chunks (ks : list nat) (s : qstate) : outcome :=
    match ks with
    | [] => drain_fifo 0 s
    | k :: ks' =>
      match drain_fifo k s with
      | OutOfFuel s' => drain_chunks ks' s'
      | r => r
      end
    end.

  (* a second run_jobs call on what the first one left *)
  Definition again (run : qstate -> outcome) (o : outcome) : outcome :=
    match o with
    | Finished s => run s
    | Failed s e => match run s with Finished s' => Failed s' e | r => r end
    | OutOfFuel s => OutOfFuel s
    end.

  (* initial condition: tickets t0, t0+1, ... on the initially queued jobs, nothing executed yet *)
  Definition init (w : world) (t0 : nat) (l : list job) : qstate :=
    mkQ w (tag t0 l) (t0 + length l) [] (tag t0 l).

  (* ============================================================================================== *)
  (* The whole loop of run_jobs_async as far as it is deterministic: promise jobs, generic jobs,
     timeout jobs under a clock that is a function of the world.  Native async jobs and
     FinalizationRegistry clean-up jobs are futures polled by a FutureGroup: assumed absent
     (group.is_empty()), as is a `stop` request. *)

  (* KTimeout key: the job computed `now + timeout` itself when it called enqueue_job *)
  Inductive kind : Type := KPromise | KGeneric | KTimeout (key : nat).

  Variable now : world -> nat.
  Variable execk : job -> world -> world * list (kind * job) * option err.

  Record lstate : Type := mkL {
    lw : world;
    lp : list entry;                 (* promise_jobs *)
    lg : list entry;                 (* generic_jobs *)
    ltm : list (nat * entry);         (* clock_jobs: (due time, job), kept sorted by (time, insertion) *)
    lnext : nat;
    lpdone : list entry;             (* ghost: executed promise jobs in execution order *)
    lplog : list entry;              (* ghost: promise jobs in HostEnqueuePromiseJob order *)
    lall : list entry                (* ghost: every executed job of any kind, in execution order *)
  }.

  (* BTreeMap<JsInstant, Vec<_>>::entry(key).or_default().push(job): after every entry with a key <= key *)
  Fixpoint insert_timer (key : nat) (e : entry) (l : list (nat * entry)) : list (nat * entry) :=
    match l with
    | [] => [(key, e)]
    | (k, x) :: l' => if k <=? key then (k, x) :: insert_timer key e l' else (key, e) :: l
    end.

  (* enqueue_job for each produced job, in order; ticket n, n+1, ... *)
  Fixpoint enqueue_all (n : nat) (new : list (kind * job)) (p g : list entry) (t : list (nat * entry)) (plog : list entry)
    : list entry * list entry * list (nat * entry) * list entry :=
    match new with
    | [] => (p, g, t, plog)
    | (KPromise, j) :: r => enqueue_all (S n) r (p ++ [(n, j)]) g t (plog ++ [(n, j)])
    | (KGeneric, j) :: r => enqueue_all (S n) r p (g ++ [(n, j)]) t plog
    | (KTimeout d, j) :: r => enqueue_all (S n) r p g (insert_timer d (n, j) t) plog
    end.

  Definition lclear (s : lstate) : lstate :=
    mkL (lw s) [] [] [] (lnext s) (lpdone s) (lplog s) (lall s).

  (* run one job of any kind; [isp] says whether it is a promise job (ghost bookkeeping only) *)
  Definition lrun (isp : bool) (tj : entry) (s : lstate) : lstate * option err :=
    let '(w', new, oe) := execk (snd tj) (lw s) in
    let '(p, g, t, plog) := enqueue_all (lnext s) new (lp s) (lg s) (ltm s) (lplog s) in
    (mkL w' p g t (lnext s + length new) (if isp then lpdone s ++ [tj] else lpdone s) plog (lall s ++ [tj]), oe).

  Fixpoint lbatch (isp : bool) (batch : list entry) (s : lstate) : lstate + (lstate * err) :=
    match batch with
    | [] => inl s
    | tj :: rest =>
      let '(s', oe) := lrun isp tj s in
      match oe with
      | Some e => inr (lclear s', e)
      | None => lbatch isp rest s'
      end
    end.

  (* split_off(&now): keys < now are due.  The due jobs are removed from the map first
     (mem::replace), then run in order; `now` is read once per loop iteration. *)
  Definition due (t0 : nat) (l : list (nat * entry)) : list entry :=
    map snd (filter (fun ke => fst ke <? t0) l).
  Definition not_due (t0 : nat) (l : list (nat * entry)) : list (nat * entry) :=
    filter (fun ke => negb (fst ke <? t0)) l.

  Definition take_p (s : lstate) : lstate := mkL (lw s) [] (lg s) (ltm s) (lnext s) (lpdone s) (lplog s) (lall s).
  Definition take_g (s : lstate) : lstate := mkL (lw s) (lp s) [] (ltm s) (lnext s) (lpdone s) (lplog s) (lall s).
  Definition take_t (s : lstate) : lstate :=
    mkL (lw s) (lp s) (lg s) (not_due (now (lw s)) (ltm s)) (lnext s) (lpdone s) (lplog s) (lall s).

  Definition lempty (s : lstate) : bool :=
    match lp s, lg s, ltm s with [], [], [] => true | _, _, _ => false end.

  Inductive loutcome : Type :=
  | LFinished (s : lstate) | LFailed (s : lstate) (e : err) | LOutOfFuel (s : lstate).

  (* one iteration of `loop { ... }`; fuel = number of iterations *)
  Fixpoint run_loop (fuel : nat) (s : lstate) {struct fuel} : loutcome :=
    match fuel with
    | 0 => LOutOfFuel s
    | S f =>
      match lbatch false (due (now (lw s)) (ltm s)) (take_t s) with
      | inr (s1, e) => LFailed s1 e
      | inl s1 =>
        if lempty s1 then LFinished s1
        else
          match lbatch true (lp s1) (take_p s1) with
          | inr (s2, e) => LFailed s2 e
          | inl s2 =>
            match lbatch false (lg s2) (take_g s2) with
            | inr (s3, e) => LFailed s3 e
            | inl s3 => run_loop f s3
            end
          end
      end
    end.

  Definition lstate_of (s : lstate) : loutcome -> lstate := fun o =>
    match o with LFinished s' => s' | LFailed s' _ => s' | LOutOfFuel s' => s' end.

End Jobs.

Arguments mkQ {world job}.
Arguments qw {world job}.
Arguments qq {world job}.
Arguments qnext {world job}.
Arguments qdone {world job}.
Arguments qlog {world job}.
Arguments Finished {world job err}.
Arguments Failed {world job err}.
Arguments OutOfFuel {world job err}.
Arguments terminated {world job err}.
Arguments tag {job}.
Arguments init {world job}.
Arguments set_qq {world job}.
Arguments clear {world job}.
Arguments mkL {world job}.
Arguments lw {world job}.
Arguments lp {world job}.
Arguments lg {world job}.
Arguments ltm {world job}.
Arguments lnext {world job}.
Arguments lpdone {world job}.
Arguments lplog {world job}.
Arguments lall {world job}.
Arguments LFinished {world job err}.
Arguments LFailed {world job err}.
Arguments LOutOfFuel {world job err}.
Arguments lclear {world job}.
Arguments lempty {world job}.
Arguments take_p {world job}.
Arguments take_g {world job}.
Arguments take_t {world job}.
Arguments due {job}.
Arguments not_due {job}.
Arguments insert_timer {job}.
Arguments enqueue_all {job}.
