(* C08 deepening round: total work of one evaluation (all activations), native iteration loops. *)
From Coq Require Import List Arith Bool PeanoNat Lia.
From C08 Require Import Model_C08 Proofs_C08.
Import ListNotations.

(* number of iterations of Context::run executed before the machine returns to the host *)
Fixpoint total_steps (P : prog) (lim : limits) (chs : list nat) (s : state) : nat :=
  match chs with
  | [] => 0
  | ch :: chs' => 1 + match step P lim ch s with
                      | Running s' => total_steps P lim chs' s'
                      | Done _ _ => 0
                      end
  end.

(* T k = A + A^2 + ... + A^k *)
Fixpoint geo (A k : nat) : nat := match k with 0 => 0 | S k' => A * (1 + geo A k') end.

Definition callee_of (i : instr) : option nat :=
  match i with ICall c _ => Some c | IHost c _ _ => Some c | _ => None end.

(* every call instruction names a code block with at least one instruction *)
Definition calls_ok (P : prog) : Prop :=
  forall cd pc ins c, nth_error (c_ins (code_of P cd)) pc = Some ins -> callee_of ins = Some c ->
    0 < length (c_ins (code_of P c)).

Lemma geo_pow : forall A k, geo A k + 1 <= (A + 1) ^ k.
Proof.
  induction k as [|k IH]; [cbn; lia|].
  cbn [geo Nat.pow]. nia.
Qed.

Section Total.
Variable P : prog.
Variable lim : limits.
Variable RK : nat -> ranking.
Variable M : nat.
Hypothesis Hall : forall c, counters_cut_cycles (cfg_of (code_of P c)) (RK c) = true.
Hypothesis HM : forall c, length (c_ins (code_of P c)) <= M.
Hypothesis Hcalls : calls_ok P.

Let L := lim_loop lim.
Let A := (L + 2) * M.
Let Rm := lim_rec lim.
Let Bc (c : nat) := length (c_ins (code_of P c)).

Definition ph (f : frame) (pc : nat) : nat := phi P lim (f_code f) (RK (f_code f)) pc (f_loops f).
Definition wt (d : nat) : nat := 1 + geo A (Rm - d).
Definition potT (f : frame) : nat := ph f (f_pc f).
Definition potW (f : frame) : nat := ph f (f_pc f - 1) - 1.

Fixpoint PhiW (fs : list frame) : nat :=
  match fs with [] => 0 | g :: rest => potW g * wt (S (length rest)) + PhiW rest end.
Definition Phi (fs : list frame) : nat :=
  match fs with [] => 0 | f :: rest => potT f * wt (S (length rest)) + PhiW rest end.

Definition TopOK (f : frame) : Prop := f_pc f < Bc (f_code f) /\ f_loops f <= L + 1.
Definition Thrower (f : frame) : Prop :=
  exists i, f_pc f = S i /\ i < Bc (f_code f) /\ f_loops f <= L + 1 /\
    forall h, find_handler (code_of P (f_code f)) i = Some h ->
      h_end h < Bc (f_code f) /\ rk (RK (f_code f)) i < rk (RK (f_code f)) (h_end h).
Definition Caller (f : frame) : Prop :=
  exists i, f_pc f = S i /\ is_call (nth_error (c_ins (code_of P (f_code f))) i) /\ f_loops f <= L + 1.
Definition GI (fs : list frame) : Prop :=
  match fs with [] => True | f :: rest => TopOK f /\ Forall Caller rest end.

Lemma ph_le : forall f pc pc', pc' < Bc (f_code f) ->
  rk (RK (f_code f)) pc < rk (RK (f_code f)) pc' -> ph f pc' + 1 <= ph f pc.
Proof.
  intros f pc pc' Hlt Hrk. unfold ph, phi.
  pose proof (rank_lt_B P lim (f_code f) (RK (f_code f)) (Hall _) pc' Hlt) as Hb. fold (Bc (f_code f)) in Hb.
  generalize ((lim_loop lim + 1 - f_loops f) * length (c_ins (code_of P (f_code f)))).
  unfold Bc in *. intros; lia.
Qed.

Lemma ph_set_pc : forall f q pc, ph (set_pc f q) pc = ph f pc.
Proof. now destruct f. Qed.

Lemma ph_bound : forall f pc, ph f pc <= (L + 2) * Bc (f_code f).
Proof.
  intros f pc. unfold ph, phi, Bc, L. set (B := length (c_ins (code_of P (f_code f)))).
  assert ((lim_loop lim + 1 - f_loops f) * B <= (lim_loop lim + 1) * B) by (apply Nat.mul_le_mono_r; lia).
  replace ((lim_loop lim + 2) * B) with ((lim_loop lim + 1) * B + B) by nia. lia.
Qed.

Lemma caller_thrower : forall g, Caller g -> Thrower g.
Proof.
  intros g (i & Hpc & Hc & Hl). exists i.
  destruct (call_succ P (f_code g) (RK _) (Hall _) i Hc) as [[H1 H2] H3].
  split; [exact Hpc|]. split; [unfold Bc; lia|]. split; [exact Hl|].
  intros h0 Hh. apply H3. now left.
Qed.

(* a waiting frame becomes the top frame again *)
Lemma resume_caller : forall g pc',
  Caller g ->
  (pc' = f_pc g \/ exists h, pc' = h_end h /\
     (find_handler (code_of P (f_code g)) (f_pc g) = Some h \/
      find_handler (code_of P (f_code g)) (f_pc g - 1) = Some h)) ->
  TopOK (set_pc g pc') /\ potT (set_pc g pc') <= potW g.
Proof.
  intros g pc' (i & Hpc & Hc & Hl) Hpc'.
  destruct (call_succ P (f_code g) (RK _) (Hall _) i Hc) as [[H1 H2] H3].
  assert (Hgood : pc' < Bc (f_code g) /\ rk (RK (f_code g)) i < rk (RK (f_code g)) pc').
  { destruct Hpc' as [->|[h [-> Hf]]].
    - rewrite Hpc. split; [exact H1|exact H2].
    - apply H3. rewrite Hpc in Hf. replace (S i - 1) with i in Hf by lia. tauto. }
  destruct Hgood as [Hlt Hrk]. split.
  - split; [destruct g; exact Hlt | destruct g; exact Hl].
  - unfold potT, potW. rewrite ph_set_pc. replace (f_pc (set_pc g pc')) with pc' by (now destruct g).
    rewrite Hpc. replace (S i - 1) with i by lia. pose proof (ph_le g i pc' Hlt Hrk). lia.
Qed.

Lemma resume_thrower : forall g h,
  Thrower g -> find_handler (code_of P (f_code g)) (f_pc g - 1) = Some h ->
  TopOK (set_pc g (h_end h)) /\ potT (set_pc g (h_end h)) <= potW g.
Proof.
  intros g h0 (i & Hpc & Hi & Hl & Hh) Hf. rename h0 into h. rewrite Hpc in Hf. replace (S i - 1) with i in Hf by lia.
  destruct (Hh h Hf) as [Hlt Hrk]. split.
  - split; [destruct g; exact Hlt | destruct g; exact Hl].
  - unfold potT, potW. rewrite ph_set_pc. replace (f_pc (set_pc g (h_end h))) with (h_end h) by (now destruct g).
    rewrite Hpc. replace (S i - 1) with i by lia. pose proof (ph_le g i (h_end h) Hlt Hrk). lia.
Qed.

Lemma PhiW_suffix : forall pre below, PhiW below <= PhiW (pre ++ below).
Proof. induction pre as [|p pre IH]; intros below; cbn [app PhiW]; [lia|]. specialize (IH below). lia. Qed.

Lemma Phi_le_PhiW_resume : forall g below pc',
  Caller g ->
  (pc' = f_pc g \/ exists h, pc' = h_end h /\
     (find_handler (code_of P (f_code g)) (f_pc g) = Some h \/
      find_handler (code_of P (f_code g)) (f_pc g - 1) = Some h)) ->
  Forall Caller below ->
  GI (set_pc g pc' :: below) /\ Phi (set_pc g pc' :: below) <= PhiW (g :: below).
Proof.
  intros g below pc' Hc Hpc' Hb. destruct (resume_caller g pc' Hc Hpc') as [Ht Hp]. split.
  - split; assumption.
  - cbn [Phi PhiW]. apply Nat.add_le_mono_r. apply Nat.mul_le_mono_r. exact Hp.
Qed.

Lemma unwind_throw_Phi : forall fs own host stack fs' h' s',
  (match fs with [] => True | g :: rest => Thrower g /\ (own = false -> Caller g) /\ Forall Caller rest end) ->
  unwind_throw P own fs host stack = UCaught fs' h' s' ->
  GI fs' /\ Phi fs' <= PhiW fs.
Proof.
  induction fs as [|g rest IH]; intros own host stack fs' h' s' Hinv H; [cbn in H; discriminate|].
  destruct Hinv as (Hthr & Hcal & Hrest). cbn [unwind_throw] in H.
  destruct (find_handler (code_of P (f_code g)) (if own then f_pc g - 1 else f_pc g)) as [h|] eqn:E.
  - inversion H; subst fs' h' s'. destruct own.
    + destruct (resume_thrower g h Hthr E) as [Ht Hp]. split; [split; assumption|].
      cbn [Phi PhiW]. apply Nat.add_le_mono_r. apply Nat.mul_le_mono_r. exact Hp.
    + apply Phi_le_PhiW_resume; auto. right. exists h. split; [reflexivity|now left].
  - assert (Hnext : forall own', match rest with [] => True | g0 :: r0 => Thrower g0 /\ (own' = false -> Caller g0) /\ Forall Caller r0 end).
    { intros own'. destruct rest as [|g0 r0]; [exact I|]. inversion Hrest; subst.
      repeat split; auto. now apply caller_thrower. }
    assert (Hle : PhiW rest <= PhiW (g :: rest)) by (cbn [PhiW]; lia).
    destruct (f_exit g).
    + destruct rest as [|g0 r0]; [discriminate|].
      destruct (IH true _ _ _ _ _ (Hnext true) H) as [HG HP]. split; [exact HG|lia].
    + destruct (IH false _ _ _ _ _ (Hnext false) H) as [HG HP]. split; [exact HG|lia].
Qed.

Lemma raise_throw_Phi : forall f1 rest host stack log s',
  Thrower f1 -> Forall Caller rest ->
  raise_throw P (f1 :: rest) host stack log = Running s' ->
  GI (st_frames s') /\ Phi (st_frames s') <= PhiW (f1 :: rest).
Proof.
  intros f1 rest host stack log s' Ht Hr H. unfold raise_throw in H.
  destruct (unwind_throw P true (f1 :: rest) host stack) as [fs' h' st'|] eqn:E; [|discriminate].
  destruct fs' as [|x xs]; [discriminate|]. inversion H; subst s'. cbn [st_frames].
  eapply unwind_throw_Phi; [|exact E]. repeat split; auto. discriminate.
Qed.

Lemma raise_engine_Phi : forall k f1 rest host stack log s',
  Forall Caller rest ->
  raise_engine k (f1 :: rest) host stack log = Running s' ->
  GI (st_frames s') /\ Phi (st_frames s') <= PhiW rest.
Proof.
  intros k f1 rest host stack log s' Hr H.
  destruct (raise_engine_shape _ _ _ _ _ _ _ H) as [pre Hp].
  destruct (st_frames s') as [|g below] eqn:Hs; [split; [exact I|cbn; lia]|].
  rewrite Hp in Hr. apply Forall_app in Hr as [_ Hr].
  pose proof (Forall_inv Hr) as Hg. pose proof (Forall_inv_tail Hr) as Hb.
  destruct (Phi_le_PhiW_resume g below (f_pc g) Hg (or_introl eq_refl) Hb) as [HG HP].
  replace (set_pc g (f_pc g)) with g in * by (now destruct g).
  split; [exact HG|]. rewrite Hp. pose proof (PhiW_suffix pre (g :: below)). lia.
Qed.

Lemma wt_pos : forall d, 1 <= wt d.
Proof. intros. unfold wt. lia. Qed.

Lemma wt_succ : forall n, n < Rm -> wt n = 1 + A * wt (S n).
Proof.
  intros n Hn. unfold wt. destruct (Rm - n) as [|k] eqn:E; [lia|].
  replace (Rm - S n) with k by lia. cbn [geo]. lia.
Qed.

Lemma check_none_rec : forall n host stack, check_limits lim n host stack = None -> n < Rm.
Proof.
  intros n host stack H. unfold check_limits in H. fold Rm in H.
  destruct (Rm <=? n + host) eqn:E; [discriminate|]. apply Nat.leb_gt in E. lia.
Qed.

Lemma potT_pos : forall f, TopOK f -> 1 <= potT f.
Proof. intros f [Hpc _]. unfold potT, ph. apply phi_pos; [apply Hall|exact Hpc]. Qed.

Lemma potT_bound : forall f, potT f <= A.
Proof.
  intros f. unfold potT. eapply Nat.le_trans; [apply ph_bound|]. unfold A. apply Nat.mul_le_mono_l. apply HM.
Qed.

(* the frame that just executed the instruction at pc, seen as a waiting frame *)
Lemma potW_advanced : forall f, potW (set_pc f (S (f_pc f))) = potT f - 1.
Proof. intros f. unfold potW, potT. rewrite ph_set_pc. destruct f; cbn. now rewrite Nat.sub_0_r. Qed.

Lemma PhiW_advanced : forall f rest, TopOK f ->
  PhiW (set_pc f (S (f_pc f)) :: rest) + wt (S (length rest)) = Phi (f :: rest).
Proof.
  intros f rest Ht. cbn [PhiW Phi]. rewrite potW_advanced. pose proof (potT_pos f Ht).
  generalize dependent (potT f). intros p Hp. generalize (wt (S (length rest))). intros w.
  destruct p as [|p]; [lia|]. cbn. rewrite Nat.sub_0_r. lia.
Qed.

Lemma move_Phi : forall f rest q, TopOK f -> Forall Caller rest ->
  q < Bc (f_code f) -> rk (RK (f_code f)) (f_pc f) < rk (RK (f_code f)) q ->
  GI (set_pc f q :: rest) /\ Phi (set_pc f q :: rest) + 1 <= Phi (f :: rest).
Proof.
  intros f rest q [Hpc Hl] Hr Hq Hrk. split.
  - split; [split; destruct f; assumption|exact Hr].
  - cbn [Phi]. unfold potT. rewrite ph_set_pc. replace (f_pc (set_pc f q)) with q by (now destruct f).
    pose proof (ph_le f (f_pc f) q Hq Hrk). pose proof (wt_pos (S (length rest))).
    generalize dependent (ph f q). generalize dependent (ph f (f_pc f)).
    generalize dependent (wt (S (length rest))). intros; nia.
Qed.

Lemma thrower_advanced : forall f ins, TopOK f ->
  nth_error (c_ins (code_of P (f_code f))) (f_pc f) = Some ins ->
  (forall h, find_handler (code_of P (f_code f)) (f_pc f) = Some h ->
     In (h_end h) (n_succ (node_of (code_of P (f_code f)) (f_pc f) ins))) ->
  n_cut (node_of (code_of P (f_code f)) (f_pc f) ins) = false ->
  Thrower (set_pc f (S (f_pc f))).
Proof.
  intros f ins [Hpc Hl] Hins Hh Hcut. exists (f_pc f).
  split; [now destruct f|]. split; [destruct f; exact Hpc|]. split; [destruct f; exact Hl|].
  replace (f_code (set_pc f (S (f_pc f)))) with (f_code f) by (now destruct f).
  intros h Hf. destruct (ins_succ P (f_code f) (RK _) (Hall _) _ ins _ Hins (Hh h Hf)) as [Ha [Hb|Hb]].
  - congruence.
  - split; [exact Ha|exact Hb].
Qed.

Lemma caller_advanced : forall f, TopOK f ->
  is_call (nth_error (c_ins (code_of P (f_code f))) (f_pc f)) -> Caller (set_pc f (S (f_pc f))).
Proof.
  intros f [Hpc Hl] Hc. exists (f_pc f). destruct f; cbn in *. auto.
Qed.

Lemma push_Phi : forall f rest c' ex fp pol,
  TopOK f -> Forall Caller rest ->
  is_call (nth_error (c_ins (code_of P (f_code f))) (f_pc f)) ->
  0 < Bc c' -> S (length rest) < Rm ->
  GI (new_frame c' ex fp pol :: set_pc f (S (f_pc f)) :: rest) /\
  Phi (new_frame c' ex fp pol :: set_pc f (S (f_pc f)) :: rest) + 1 <= Phi (f :: rest).
Proof.
  intros f rest c' ex fp pol Ht Hr Hc Hne Hd. split.
  - split; [split; cbn; [exact Hne|lia]|]. constructor; [now apply caller_advanced|exact Hr].
  - rewrite <- (PhiW_advanced f rest Ht). cbn [Phi length].
    pose proof (potT_bound (new_frame c' ex fp pol)) as Hb.
    rewrite (wt_succ _ Hd).
    generalize dependent (potT (new_frame c' ex fp pol)). intros p Hp.
    generalize (PhiW (set_pc f (S (f_pc f)) :: rest)). intros X.
    generalize (wt (S (S (length rest)))). intros w. nia.
Qed.

Lemma below_Phi : forall f rest, TopOK f -> PhiW rest + 1 <= Phi (f :: rest).
Proof.
  intros f rest Ht. cbn [Phi]. pose proof (potT_pos f Ht). pose proof (wt_pos (S (length rest))).
  generalize dependent (potT f). generalize dependent (wt (S (length rest))). intros; nia.
Qed.

Lemma step_Phi : forall ch s s', GI (st_frames s) -> step P lim ch s = Running s' ->
  GI (st_frames s') /\ Phi (st_frames s') + 1 <= Phi (st_frames s).
Proof.
  intros ch s s' HG H. unfold step in H.
  destruct (st_frames s) as [|f rest] eqn:Hfs; [discriminate|]. destruct HG as [Ht Hr].
  destruct (nth_error (c_ins (code_of P (f_code f))) (f_pc f)) as [ins|] eqn:Hins; [|discriminate].
  pose proof (ins_succ P (f_code f) (RK _) (Hall _) (f_pc f) ins) as Hsucc.
  specialize (fun q => Hsucc q Hins).
  pose proof (PhiW_advanced f rest Ht) as Hadv. pose proof (wt_pos (S (length rest))) as Hw.
  assert (ENG : forall k st lg, raise_engine k (set_pc f (S (f_pc f)) :: rest) (st_host s) st lg = Running s' ->
            GI (st_frames s') /\ Phi (st_frames s') + 1 <= Phi (f :: rest)).
  { intros k st lg He. destruct (raise_engine_Phi _ _ _ _ _ _ _ Hr He) as [G1 G2].
    split; [exact G1|]. pose proof (below_Phi f rest Ht). lia. }
  assert (THR : forall lg, Thrower (set_pc f (S (f_pc f))) ->
            raise_throw P (set_pc f (S (f_pc f)) :: rest) (st_host s) (st_stack s) lg = Running s' ->
            GI (st_frames s') /\ Phi (st_frames s') + 1 <= Phi (f :: rest)).
  { intros lg Hth He. destruct (raise_throw_Phi _ _ _ _ _ _ Hth Hr He) as [G1 G2]. split; [exact G1|lia]. }
  destruct ins as [throws succs| |callee argc|callee argc pol| |]; cbn [node_of n_succ n_cut] in Hsucc.
  - (* IOp *)
    destruct (throws && (ch =? 0)) eqn:Ethr.
    + apply andb_true_iff in Ethr as [-> _]. eapply THR; [|exact H].
      eapply thrower_advanced; eauto. intros h Hf. cbn. apply in_or_app. right. unfold hand. rewrite Hf. now left.
    + destruct succs as [|s0 ss] eqn:Hss; [discriminate|]. rewrite <- Hss in *.
      inversion H; subst s'; cbn [st_frames].
      assert (Hin : In (nth (ch mod length succs) succs 0) succs).
      { apply nth_In. apply Nat.mod_upper_bound. rewrite Hss. discriminate. }
      destruct (Hsucc _ (in_or_app _ _ _ (or_introl Hin))) as [Hx [Hy|Hy]]; [discriminate|].
      now apply move_Phi.
  - (* ICounter *)
    destruct (lim_loop lim <? f_loops f) eqn:Hlim; [eapply ENG; exact H|].
    apply Nat.ltb_ge in Hlim. inversion H; subst s'; cbn [st_frames].
    destruct (Hsucc (S (f_pc f)) (or_introl eq_refl)) as [Hx _]. destruct Ht as [Hpc Hl]. split.
    + split; [split; destruct f; cbn in *; [exact Hx|fold L; unfold L; lia]|exact Hr].
    + cbn [Phi]. unfold potT, ph, phi. destruct f as [cd pc loops ex fp pol]. cbn [set_loops set_pc f_code f_pc f_loops] in *.
      pose proof (rank_lt_B P lim cd (RK cd) (Hall _) _ Hx) as R1.
      pose proof (rank_lt_B P lim cd (RK cd) (Hall _) _ Hpc) as R2.
      unfold Bc in *. set (B := length (c_ins (code_of P cd))) in *.
      replace (lim_loop lim + 1 - loops) with (S (lim_loop lim - loops)) by lia.
      replace (lim_loop lim + 1 - S loops) with (lim_loop lim - loops) by lia.
      cbn [Nat.mul]. generalize dependent (wt (S (length rest))). intros w Hadv Hw.
      generalize ((lim_loop lim - loops) * B). intros X.
      generalize dependent (rk (RK cd) (S pc)). generalize dependent (rk (RK cd) pc). intros; nia.
  - (* ICall *)
    assert (Hc : is_call (nth_error (c_ins (code_of P (f_code f))) (f_pc f))) by (now rewrite Hins).
    destruct (check_limits lim _ _ _) eqn:Echk; [eapply ENG; exact H|].
    inversion H; subst s'; cbn [st_frames]. apply push_Phi; auto.
    + exact (Hcalls _ _ _ callee Hins eq_refl).
    + apply check_none_rec in Echk. cbn [length] in Echk. exact Echk.
  - (* IHost *)
    assert (Hc : is_call (nth_error (c_ins (code_of P (f_code f))) (f_pc f))) by (now rewrite Hins).
    destruct (check_limits lim _ _ (st_stack s)) eqn:Echk1; [eapply ENG; exact H|].
    destruct (check_limits lim _ _ (st_stack s + 2 + argc)) eqn:Echk2.
    + destruct pol; [eapply ENG; exact H|].
      inversion H; subst s'; cbn [st_frames].
      destruct (call_succ P (f_code f) (RK _) (Hall _) _ Hc) as [[Hx Hy] _]. now apply move_Phi.
    + inversion H; subst s'; cbn [st_frames]. apply push_Phi; auto.
      * exact (Hcalls _ _ _ callee Hins eq_refl).
      * apply check_none_rec in Echk2. cbn [length] in Echk2. exact Echk2.
  - (* IThrow *)
    eapply THR; [|exact H]. eapply thrower_advanced; eauto.
    intros h Hf. cbn. unfold hand. rewrite Hf. now left.
  - (* IReturn *)
    assert (RET : forall h st lg, Running (mkState rest h st lg) = Running s' -> rest <> [] ->
              GI (st_frames s') /\ Phi (st_frames s') + 1 <= Phi (f :: rest)).
    { intros h st lg He Hne. inversion He; subst s'; cbn [st_frames].
      destruct rest as [|g below]; [congruence|].
      pose proof (Forall_inv Hr) as Hg. pose proof (Forall_inv_tail Hr) as Hb.
      destruct (Phi_le_PhiW_resume g below (f_pc g) Hg (or_introl eq_refl) Hb) as [G1 G2].
      replace (set_pc g (f_pc g)) with g in * by (now destruct g).
      split; [exact G1|]. pose proof (below_Phi f (g :: below) Ht). lia. }
    destruct (f_exit f); destruct rest as [|g rs]; try discriminate; eapply RET; try exact H; discriminate.
Qed.

Theorem total_steps_Phi : forall chs s, GI (st_frames s) -> total_steps P lim chs s <= Phi (st_frames s) + 1.
Proof.
  induction chs as [|ch chs IH]; intros s HG; [cbn; lia|]. cbn [total_steps].
  destruct (step P lim ch s) as [s'|c s'] eqn:E.
  - destruct (step_Phi ch s s' HG E) as [G1 G2]. specialize (IH s' G1). lia.
  - lia.
Qed.

Lemma Phi_single : forall f, Phi [f] <= geo A (S (Rm - 1)).
Proof.
  intros f. cbn [Phi PhiW length geo]. unfold wt. pose proof (potT_bound f).
  rewrite Nat.add_0_r. apply Nat.mul_le_mono_r. exact H.
Qed.

End Total.

Theorem total_work_bounded_l : forall P lim RK M chs s f,
  (forall c, counters_cut_cycles (cfg_of (code_of P c)) (RK c) = true) ->
  (forall c, length (c_ins (code_of P c)) <= M) ->
  calls_ok P ->
  st_frames s = [f] -> f_pc f < length (c_ins (code_of P (f_code f))) -> f_loops f <= lim_loop lim + 1 ->
  total_steps P lim chs s <= ((lim_loop lim + 2) * M + 1) ^ (S (lim_rec lim - 1)).
Proof.
  intros P lim RK M chs s f Hall HM Hcalls Hfs Hpc Hl.
  assert (HG : GI P lim (st_frames s)). { rewrite Hfs. split; [split; assumption|constructor]. }
  pose proof (total_steps_Phi P lim RK M Hall HM Hcalls chs s HG) as H1.
  rewrite Hfs in H1. pose proof (Phi_single P lim RK M HM f) as H2.
  pose proof (geo_pow ((lim_loop lim + 2) * M) (S (lim_rec lim - 1))) as H3. lia.
Qed.

(* ------------------------------------------------------------------------------------------ *)
(* native iteration loops (spread, Array.from, new Set(it), ...): a builtin that steps a user iterator.
   Seen from the activation that called the builtin, one step is "charge the counter (patched engine only);
   call next() through JsObject::call; stop or step again".  The patch fixes.d/C08-native-iteration-limit.patch
   makes IteratorRecord::step run IncrementLoopIteration::operation on the running frame, i.e. the charged shape. *)

Definition native_iter_code (charged : bool) (next : nat) : code :=
  if charged then mkCode [ICounter; IHost next 0 Propagate; IOp false [0; 3]; IReturn] [] 1
  else mkCode [IHost next 0 Propagate; IOp false [0; 2]; IReturn] [] 1.

Definition native_iter_ranking : ranking := [2; 0; 1; 3].

Lemma native_iter_check : forall next,
  counters_cut_cycles (cfg_of (native_iter_code true next)) native_iter_ranking = true.
Proof. intros. reflexivity. Qed.

Lemma native_iter_uncharged_rejected : forall next r,
  counters_cut_cycles (cfg_of (native_iter_code false next)) r = false.
Proof.
  intros next r. apply (plain_cycle_rejected_l _ r [1] 0); cbn.
  - split; [|split; [|auto]]; eexists; (split; [reflexivity|cbn; auto]).
  - intros x [<-|[<-|[]]]; reflexivity.
Qed.

Theorem native_iteration_bounded_l : forall P lim cid next chs s f rest,
  code_of P cid = native_iter_code true next ->
  st_frames s = f :: rest -> f_code f = cid -> f_loops f = 0 -> f_pc f < 4 ->
  own_steps P lim (length (st_frames s)) chs s <= (lim_loop lim + 2) * 4.
Proof.
  intros P lim cid next chs s f rest Hcode Hfs Hc Hl Hpc.
  pose proof (activation_bounded_l P lim native_iter_ranking chs s f rest Hfs) as H.
  rewrite Hc, Hcode in H. apply H; auto; try apply native_iter_check.
Qed.

(* without the charge no limit triple with room for one callback stops the loop *)
Definition ni_prog : prog := [native_iter_code false 1; mkCode [IReturn] [] 0].
Definition ni_frame : frame := mkFrame 0 0 0 true 0 Propagate.
Definition ni_state (log : list event) : state := mkState [ni_frame] 0 0 log.

Lemma ni_round : forall lim, 2 <= lim_rec lim -> 3 <= lim_stack lim ->
  forall log, exists log', forall chs,
    own_steps ni_prog lim 1 (2 :: 2 :: 2 :: chs) (ni_state log) = 2 + own_steps ni_prog lim 1 chs (ni_state log').
Proof.
  intros lim HR HS log.
  assert (C0 : check_limits lim 1 0 0 = None).
  { unfold check_limits. destruct (lim_rec lim <=? 1 + 0) eqn:E1; [apply Nat.leb_le in E1; lia|].
    destruct (lim_stack lim <=? 0) eqn:E2; [apply Nat.leb_le in E2; lia|reflexivity]. }
  assert (C2 : check_limits lim 1 0 2 = None).
  { unfold check_limits. destruct (lim_rec lim <=? 1 + 0) eqn:E1; [apply Nat.leb_le in E1; lia|].
    destruct (lim_stack lim <=? 2) eqn:E2; [apply Nat.leb_le in E2; lia|reflexivity]. }
  eexists. intros chs.
  cbn [own_steps ni_state st_frames length Nat.ltb Nat.leb Nat.eqb].
  unfold step at 1. cbn [ni_state st_frames ni_frame f_code f_pc code_of ni_prog nth native_iter_code c_ins nth_error
                          st_host st_stack length Nat.add]. rewrite C0. cbn [Nat.add]. rewrite C2.
  cbn [own_steps st_frames length Nat.ltb Nat.leb Nat.eqb].
  unfold step at 1. cbn [st_frames new_frame f_code f_pc code_of ni_prog nth c_ins nth_error f_exit f_fp st_host st_stack
                          set_pc Nat.sub length].
  cbn [own_steps st_frames length Nat.ltb Nat.leb Nat.eqb].
  unfold step at 1. cbn [st_frames set_pc f_code f_pc code_of ni_prog nth native_iter_code c_ins nth_error andb
                          length Nat.modulo Nat.divmod fst snd Nat.sub st_host st_stack st_log f_loops f_exit f_fp f_pol].
  reflexivity.
Qed.

Theorem native_iteration_unbounded_without_charge_l : forall lim n,
  2 <= lim_rec lim -> 3 <= lim_stack lim ->
  exists chs, n <= own_steps ni_prog lim 1 chs (ni_state []).
Proof.
  intros lim n HR HS.
  assert (G : forall k log, exists chs, 2 * k <= own_steps ni_prog lim 1 chs (ni_state log)).
  { induction k as [|k IH]; intros log; [exists []; cbn; lia|].
    destruct (ni_round lim HR HS log) as [log' Hr]. destruct (IH log') as [chs Hc].
    exists (2 :: 2 :: 2 :: chs). rewrite Hr. lia. }
  destruct (G n []) as [chs Hc]. exists chs. lia.
Qed.
