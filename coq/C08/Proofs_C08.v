(* C08 — lemmas.  Part 1: the CFG check.  Part 2: the abstract VM. *)
From Coq Require Import List Arith Bool PeanoNat Lia.
From C08 Require Import Model_C08.
Import ListNotations.

(* ------------------------------------------------------------------------------------------ *)
(* Part 1                                                                                      *)

Lemma nodes_ok_spec : forall n r g i0,
  nodes_ok n r i0 g = true ->
  forall k nd, nth_error g k = Some nd ->
    rk r (i0 + k) < n /\
    forall s, In s (n_succ nd) -> s < n /\ (n_cut nd = true \/ rk r (i0 + k) < rk r s).
Proof.
  induction g as [|x g IH]; intros i0 H k nd Hk.
  - destruct k; discriminate.
  - cbn [nodes_ok] in H. apply andb_true_iff in H as [H H3]. apply andb_true_iff in H as [H1 H2].
    destruct k as [|k].
    + cbn in Hk. inversion Hk; subst x. rewrite Nat.add_0_r. split.
      * now apply Nat.ltb_lt.
      * intros s Hs. rewrite forallb_forall in H2. specialize (H2 s Hs).
        unfold edge_ok in H2. apply andb_true_iff in H2 as [Ha Hb]. split.
        -- now apply Nat.ltb_lt.
        -- apply orb_true_iff in Hb as [Hb|Hb]; [now left | right; now apply Nat.ltb_lt].
    + cbn in Hk. replace (i0 + S k) with (S i0 + k) by lia. now apply IH.
Qed.

Lemma check_spec : forall g r, counters_cut_cycles g r = true ->
  forall i nd, nth_error g i = Some nd ->
    rk r i < length g /\
    forall s, In s (n_succ nd) -> s < length g /\ (n_cut nd = true \/ rk r i < rk r s).
Proof.
  intros g r H i nd Hi. exact (nodes_ok_spec _ _ _ 0 H i nd Hi).
Qed.

Lemma check_edge : forall g r, counters_cut_cycles g r = true ->
  forall i j, edge g i j -> is_cut g i = false -> rk r i < rk r j /\ j < length g.
Proof.
  intros g r H i j [nd [Hn Hj]] Hc. unfold is_cut in Hc. rewrite Hn in Hc.
  destruct (check_spec g r H i nd Hn) as [_ Hs]. destruct (Hs j Hj) as [Hlt [Hcut|Hr]].
  - congruence.
  - split; assumption.
Qed.

Lemma check_rank : forall g r, counters_cut_cycles g r = true ->
  forall i, i < length g -> rk r i < length g.
Proof.
  intros g r H i Hi. destruct (nth_error g i) as [nd|] eqn:E.
  - exact (proj1 (check_spec g r H i nd E)).
  - apply nth_error_None in E. lia.
Qed.

Lemma cut_sound_rank : forall g r, counters_cut_cycles g r = true ->
  forall l i, walk g (i :: l) ->
    (forall x, In x (i :: l) -> x < length g /\ is_cut g x = false) ->
    length (i :: l) + rk r i <= length g.
Proof.
  intros g r H l. induction l as [|j l IH]; intros i Hw Hall.
  - cbn [length]. destruct (Hall i (or_introl eq_refl)) as [Hi _].
    pose proof (check_rank g r H i Hi). lia.
  - destruct Hw as [He Hw]. destruct (Hall i (or_introl eq_refl)) as [_ Hc].
    destruct (check_edge g r H i j He Hc) as [Hr _].
    assert (length (j :: l) + rk r j <= length g).
    { apply IH; [exact Hw|]. intros x Hx. apply Hall. now right. }
    cbn [length] in *. lia.
Qed.

Lemma cut_sound_l : forall g r, counters_cut_cycles g r = true ->
  forall l, walk g l -> (forall x, In x l -> x < length g /\ is_cut g x = false) ->
  length l <= length g.
Proof.
  intros g r H l Hw Hall. destruct l as [|i l]; [cbn; lia|].
  pose proof (cut_sound_rank g r H l i Hw Hall). lia.
Qed.

(* any walk: cut nodes (counters, suspension points) are the only way to gain length *)
Lemma walk_bounded_rank : forall g r, counters_cut_cycles g r = true ->
  forall l i, walk g (i :: l) -> (forall x, In x (i :: l) -> x < length g) ->
    length (i :: l) + rk r i <= (count_cut g (i :: l) + 1) * length g.
Proof.
  intros g r H l. induction l as [|j l IH]; intros i Hw Hall.
  - pose proof (check_rank g r H i (Hall i (or_introl eq_refl))) as Hri.
    change (length [i]) with 1.
    generalize dependent (count_cut g [i]). generalize dependent (rk r i).
    generalize (length g). intros B x Hx c. nia.
  - destruct Hw as [He Hw].
    assert (IHj : length (j :: l) + rk r j <= (count_cut g (j :: l) + 1) * length g).
    { apply IH; [exact Hw|]. intros x Hx. apply Hall. now right. }
    pose proof (check_rank g r H i (Hall i (or_introl eq_refl))) as Hri.
    assert (Hcc : count_cut g (i :: j :: l) = (if is_cut g i then 1 else 0) + count_cut g (j :: l)).
    { unfold count_cut. cbn [filter]. destruct (is_cut g i); reflexivity. }
    rewrite Hcc. change (length (i :: j :: l)) with (S (length (j :: l))).
    destruct (is_cut g i) eqn:Hc.
    + generalize dependent (count_cut g (j :: l)). generalize dependent (length (j :: l)).
      generalize dependent (rk r i). generalize dependent (rk r j). generalize (length g).
      intros. nia.
    + destruct (check_edge g r H i j He Hc) as [Hr _].
      generalize dependent (count_cut g (j :: l)). generalize dependent (length (j :: l)).
      generalize dependent (rk r i). generalize dependent (rk r j). generalize (length g).
      intros. nia.
Qed.

Lemma walk_bounded_l : forall g r, counters_cut_cycles g r = true ->
  forall l, walk g l -> (forall x, In x l -> x < length g) ->
  length l <= (count_cut g l + 1) * length g.
Proof.
  intros g r H l Hw Hall. destruct l as [|i l]; [cbn; lia|].
  pose proof (walk_bounded_rank g r H l i Hw Hall). lia.
Qed.

(* a ranking exists iff ... (only the easy direction is needed: a graph with a counter-free cycle has none) *)
Lemma no_ranking_for_plain_cycle : forall g r i,
  edge g i i -> is_cut g i = false -> counters_cut_cycles g r = false.
Proof.
  intros g r i He Hc. destruct (counters_cut_cycles g r) eqn:E; [|reflexivity].
  destruct (check_edge g r E i i He Hc). lia.
Qed.

(* ------------------------------------------------------------------------------------------ *)
(* Part 2: structure of the unwinding functions                                                *)

Lemma unwind_engine_suffix : forall fs host stack fs' h' s' b,
  unwind_engine fs host stack = (fs', h', s', b) ->
  exists pre, fs = pre ++ fs' /\ (fs <> [] -> pre <> []).
Proof.
  induction fs as [|f rest IH]; intros host stack fs' h' s' b H.
  - cbn in H. inversion H; subst. exists []. split; [reflexivity|congruence].
  - cbn [unwind_engine] in H. destruct (f_exit f).
    + destruct rest as [|g rs].
      * inversion H; subst. exists [f]. split; [reflexivity|discriminate].
      * destruct (f_pol f).
        -- apply IH in H as [pre [Hp _]]. exists (f :: pre). split; [cbn; now rewrite <- Hp|discriminate].
        -- inversion H; subst. exists [f]. split; [reflexivity|discriminate].
    + apply IH in H as [pre [Hp _]]. exists (f :: pre). split; [cbn; now rewrite <- Hp|discriminate].
Qed.

Lemma unwind_engine_not_swallowed : forall fs host stack fs' h' s',
  unwind_engine fs host stack = (fs', h', s', false) -> fs' = [].
Proof.
  induction fs as [|f rest IH]; intros host stack fs' h' s' H.
  - cbn in H. now inversion H.
  - cbn [unwind_engine] in H. destruct (f_exit f).
    + destruct rest as [|g rs]; [now inversion H|].
      destruct (f_pol f); [eapply IH; eauto | inversion H].
    + eapply IH; eauto.
Qed.

Lemma unwind_engine_propagate : forall fs host stack,
  forallb frame_propagates fs = true ->
  exists h' s', unwind_engine fs host stack = ([], h', s', false).
Proof.
  induction fs as [|f rest IH]; intros host stack Hp.
  - cbn. eauto.
  - cbn [forallb] in Hp. apply andb_true_iff in Hp as [Hf Hr]. cbn [unwind_engine].
    destruct (f_exit f).
    + destruct rest as [|g rs]; [eauto|].
      unfold frame_propagates in Hf. destruct (f_pol f); [|discriminate]. now apply IH.
    + now apply IH.
Qed.

Section Throw.
Variable P : prog.

Lemma unwind_throw_shape : forall fs own host stack fs' h' s',
  unwind_throw P own fs host stack = UCaught fs' h' s' ->
  exists pre f below h,
    fs = pre ++ f :: below /\ fs' = set_pc f (h_end h) :: below /\
    (find_handler (code_of P (f_code f)) (f_pc f) = Some h \/
     find_handler (code_of P (f_code f)) (f_pc f - 1) = Some h).
Proof.
  induction fs as [|f rest IH]; intros own host stack fs' h' s' H.
  - cbn in H. discriminate.
  - cbn [unwind_throw] in H.
    destruct (find_handler (code_of P (f_code f)) (if own then f_pc f - 1 else f_pc f)) as [h|] eqn:E.
    + inversion H; subst. exists [], f, rest, h. split; [reflexivity|]. split; [reflexivity|].
      destruct own; [now right | now left].
    + destruct (f_exit f).
      * destruct rest as [|g rs]; [discriminate|].
        apply IH in H as (pre & f0 & below & h & Ha & Hb & Hc).
        exists (f :: pre), f0, below, h. split; [cbn; now rewrite <- Ha|]. now split.
      * apply IH in H as (pre & f0 & below & h & Ha & Hb & Hc).
        exists (f :: pre), f0, below, h. split; [cbn; now rewrite <- Ha|]. now split.
Qed.

Lemma unwind_throw_len : forall fs own host stack fs' h' s',
  unwind_throw P own fs host stack = UCaught fs' h' s' -> length fs' <= length fs.
Proof.
  intros fs own host stack fs' h' s' H.
  apply unwind_throw_shape in H as (pre & f & below & h & Ha & Hb & _). subst.
  rewrite app_length. cbn. lia.
Qed.
End Throw.

(* frames counted from the bottom: depth d >= 1 *)
Definition at_depth (d : nat) (fs : list frame) : option frame := nth_error (rev fs) (d - 1).

Lemma at_depth_app : forall d pre fs, 1 <= d <= length fs -> at_depth d (pre ++ fs) = at_depth d fs.
Proof.
  intros d pre fs Hd. unfold at_depth. rewrite rev_app_distr.
  apply nth_error_app1. rewrite rev_length. lia.
Qed.

Lemma at_depth_top : forall d f rest, S (length rest) = d -> at_depth d (f :: rest) = Some f.
Proof.
  intros d f rest Hd. unfold at_depth. cbn [rev].
  rewrite nth_error_app2; rewrite rev_length; [|lia].
  replace (d - 1 - length rest) with 0 by lia. reflexivity.
Qed.

Lemma at_depth_cons : forall d f rest, 1 <= d <= length rest -> at_depth d (f :: rest) = at_depth d rest.
Proof. intros d f rest Hd. exact (at_depth_app d [f] rest Hd). Qed.

(* ------------------------------------------------------------------------------------------ *)
(* cfg_of                                                                                      *)

Lemma nodes_from_length : forall c l i, length (nodes_from c i l) = length l.
Proof. induction l; intros; cbn; [reflexivity | now rewrite IHl]. Qed.

Lemma nodes_from_nth : forall c l i0 k ins,
  nth_error l k = Some ins -> nth_error (nodes_from c i0 l) k = Some (node_of c (i0 + k) ins).
Proof.
  induction l as [|x l IH]; intros i0 k ins H; destruct k; try discriminate.
  - cbn in *. inversion H. now rewrite Nat.add_0_r.
  - cbn in *. replace (i0 + S k) with (S i0 + k) by lia. now apply IH.
Qed.

Lemma cfg_of_length : forall c, length (cfg_of c) = length (c_ins c).
Proof. intros. apply nodes_from_length. Qed.

Lemma cfg_of_nth : forall c i ins, nth_error (c_ins c) i = Some ins ->
  nth_error (cfg_of c) i = Some (node_of c i ins).
Proof. intros. exact (nodes_from_nth c (c_ins c) 0 i ins H). Qed.

Section Activation.
Variable P : prog.
Variable lim : limits.
Variable cid : nat.
Variable r : ranking.
Let c := code_of P cid.
Let B := length (c_ins c).
Let L := lim_loop lim.
Hypothesis Hcheck : counters_cut_cycles (cfg_of c) r = true.

Lemma ins_rank : forall i ins, nth_error (c_ins c) i = Some ins -> rk r i < B.
Proof.
  intros i ins H. pose proof (check_spec _ _ Hcheck i _ (cfg_of_nth c i ins H)) as [Hr _].
  now rewrite cfg_of_length in Hr.
Qed.

Lemma ins_succ : forall i ins s, nth_error (c_ins c) i = Some ins ->
  In s (n_succ (node_of c i ins)) ->
  s < B /\ (n_cut (node_of c i ins) = true \/ rk r i < rk r s).
Proof.
  intros i ins s H Hs. pose proof (check_spec _ _ Hcheck i _ (cfg_of_nth c i ins H)) as [_ Hx].
  specialize (Hx s Hs). now rewrite cfg_of_length in Hx.
Qed.

Lemma rank_lt_B : forall i, i < B -> rk r i < B.
Proof.
  intros i Hi. destruct (nth_error (c_ins c) i) eqn:E.
  - eapply ins_rank; eauto.
  - apply nth_error_None in E. unfold B in Hi. lia.
Qed.

Definition is_call (o : option instr) : Prop :=
  match o with Some (ICall _ _) | Some (IHost _ _ _) => True | _ => False end.

(* successors of a call node *)
Lemma call_succ : forall i, is_call (nth_error (c_ins c) i) ->
  (S i < B /\ rk r i < rk r (S i)) /\
  (forall h, find_handler c i = Some h \/ find_handler c (S i) = Some h ->
             h_end h < B /\ rk r i < rk r (h_end h)).
Proof.
  intros i Hc. destruct (nth_error (c_ins c) i) as [ins|] eqn:E; [|contradiction].
  assert (Hn : n_cut (node_of c i ins) = false /\
               n_succ (node_of c i ins) = S i :: hand c i ++ hand c (S i)).
  { destruct ins; try contradiction; cbn; auto. }
  destruct Hn as [Hcut Hsucc]. split.
  - destruct (ins_succ i ins (S i) E) as [Ha [Hb|Hb]]; try (rewrite Hsucc; now left); [congruence|auto].
  - intros h Hh.
    assert (Hin : In (h_end h) (n_succ (node_of c i ins))).
    { rewrite Hsucc. right. apply in_or_app. unfold hand.
      destruct Hh as [Hh|Hh]; rewrite Hh; [left|right]; now left. }
    destruct (ins_succ i ins _ E Hin) as [Ha [Hb|Hb]]; [congruence|auto].
Qed.

Definition phi (pc loops : nat) : nat := (L + 1 - loops) * B + (B - rk r pc).

Definition pot (d : nat) (fs : list frame) : nat :=
  match at_depth d fs with
  | None => 0
  | Some f => if length fs =? d then phi (f_pc f) (f_loops f)
              else phi (f_pc f - 1) (f_loops f) - 1
  end.

Definition Inv (d : nat) (fs : list frame) : Prop :=
  1 <= d <= length fs /\
  exists f, at_depth d fs = Some f /\ f_code f = cid /\ f_loops f <= L + 1 /\
    (length fs = d -> f_pc f < B) /\
    (d < length fs -> exists i, f_pc f = S i /\ is_call (nth_error (c_ins c) i)).

(* the waiting frame becomes the top frame again: pc unchanged (return, swallowed error) or a handler *)
Lemma resume_ok : forall d f below pc',
  S (length below) = d -> f_code f = cid -> f_loops f <= L + 1 ->
  (exists i, f_pc f = S i /\ is_call (nth_error (c_ins c) i)) ->
  (pc' = f_pc f \/ exists h, pc' = h_end h /\
      (find_handler c (f_pc f) = Some h \/ find_handler c (f_pc f - 1) = Some h)) ->
  Inv d (set_pc f pc' :: below) /\
  pot d (set_pc f pc' :: below) <= phi (f_pc f - 1) (f_loops f) - 1.
Proof.
  intros d f below pc' Hd Hc Hl [i [Hpc Hcall]] Hpc'.
  destruct (call_succ i Hcall) as [[Hs1 Hs2] Hh].
  assert (Hgood : pc' < B /\ rk r i < rk r pc').
  { destruct Hpc' as [->|[h [-> Hf]]].
    - rewrite Hpc. auto.
    - apply Hh. rewrite Hpc in Hf. replace (S i - 1) with i in Hf by lia. tauto. }
  destruct Hgood as [Hlt Hrk]. split.
  - split; [cbn [length]; lia|]. exists (set_pc f pc'). split; [now apply at_depth_top|].
    cbn [set_pc f_code f_loops f_pc]. split; [exact Hc|]. split; [exact Hl|]. split.
    + intros _. exact Hlt.
    + intros Hgt. cbn [length] in Hgt. lia.
  - unfold pot. rewrite (at_depth_top d _ below Hd). cbn [length]. rewrite Hd, Nat.eqb_refl.
    cbn [set_pc f_pc f_loops]. rewrite Hpc. replace (S i - 1) with i by lia.
    unfold phi. pose proof (rank_lt_B pc' Hlt). lia.
Qed.

Lemma set_pc_id : forall f, set_pc f (f_pc f) = f.
Proof. now destruct f. Qed.

(* shape of the frame list after one step, seen from below the top frame *)
Lemma raise_throw_shape : forall f1 rest host stack log s',
  raise_throw P (f1 :: rest) host stack log = Running s' ->
  (exists pre, st_frames s' = pre ++ rest /\ pre <> []) \/
  (exists pre f below h, rest = pre ++ f :: below /\ st_frames s' = set_pc f (h_end h) :: below /\
     (find_handler (code_of P (f_code f)) (f_pc f) = Some h \/
      find_handler (code_of P (f_code f)) (f_pc f - 1) = Some h)).
Proof.
  intros f1 rest host stack log s' H. unfold raise_throw in H.
  destruct (unwind_throw P true (f1 :: rest) host stack) as [fs' h' st'|] eqn:E; [|discriminate].
  apply unwind_throw_shape in E as (pre & f & below & h & Ha & Hb & Hc).
  destruct fs' as [|x xs]; [discriminate|]. inversion H; subst s'; cbn [st_frames].
  destruct pre as [|p pre].
  - cbn in Ha. inversion Ha; subst. left. exists [set_pc f (h_end h)]. split; [now rewrite Hb|discriminate].
  - cbn in Ha. inversion Ha; subst. right. exists pre, f, below, h. auto.
Qed.

Lemma raise_engine_shape : forall k f1 rest host stack log s',
  raise_engine k (f1 :: rest) host stack log = Running s' ->
  exists pre, rest = pre ++ st_frames s'.
Proof.
  intros k f1 rest host stack log s' H. unfold raise_engine in H.
  destruct (unwind_engine (f1 :: rest) host stack) as [[[fs' h'] st'] b] eqn:E.
  destruct b; [|discriminate]. inversion H; subst s'; cbn [st_frames].
  apply unwind_engine_suffix in E as [pre [Ha Hb]].
  destruct pre as [|p pre]; [exfalso; apply Hb; [discriminate|reflexivity]|].
  cbn in Ha. inversion Ha. now exists pre.
Qed.

Lemma step_shape : forall ch s top rest s',
  st_frames s = top :: rest -> step P lim ch s = Running s' ->
  (exists pre, st_frames s' = pre ++ rest /\ pre <> []) \/
  (exists pre, rest = pre ++ st_frames s') \/
  (exists pre f below h, rest = pre ++ f :: below /\ st_frames s' = set_pc f (h_end h) :: below /\
     (find_handler (code_of P (f_code f)) (f_pc f) = Some h \/
      find_handler (code_of P (f_code f)) (f_pc f - 1) = Some h)).
Proof.
  intros ch s top rest s' Hfs H. unfold step in H. rewrite Hfs in H.
  destruct (nth_error (c_ins (code_of P (f_code top))) (f_pc top)) as [ins|]; [|discriminate].
  assert (T : forall o, raise_throw P (set_pc top (S (f_pc top)) :: rest) (st_host s) (st_stack s) o = Running s' ->
     (exists pre, st_frames s' = pre ++ rest /\ pre <> []) \/
     (exists pre, rest = pre ++ st_frames s') \/
     (exists pre f below h, rest = pre ++ f :: below /\ st_frames s' = set_pc f (h_end h) :: below /\
       (find_handler (code_of P (f_code f)) (f_pc f) = Some h \/
        find_handler (code_of P (f_code f)) (f_pc f - 1) = Some h))).
  { intros o Ho. apply raise_throw_shape in Ho as [Ho|Ho]; [now left | right; now right]. }
  assert (E : forall k st o, raise_engine k (set_pc top (S (f_pc top)) :: rest) (st_host s) st o = Running s' ->
     (exists pre, st_frames s' = pre ++ rest /\ pre <> []) \/
     (exists pre, rest = pre ++ st_frames s') \/
     (exists pre f below h, rest = pre ++ f :: below /\ st_frames s' = set_pc f (h_end h) :: below /\
       (find_handler (code_of P (f_code f)) (f_pc f) = Some h \/
        find_handler (code_of P (f_code f)) (f_pc f - 1) = Some h))).
  { intros k st o Ho. apply raise_engine_shape in Ho. right. now left. }
  destruct ins as [throws succs| |callee argc|callee argc pol| |].
  - destruct (throws && (ch =? 0)); [eapply T; eauto|].
    destruct succs; [discriminate|]. inversion H; subst s'; cbn [st_frames].
    left. eexists [_]. split; [reflexivity|discriminate].
  - destruct (lim_loop lim <? f_loops top); [eapply E; eauto|].
    inversion H; subst s'; cbn [st_frames]. left. eexists [_]. split; [reflexivity|discriminate].
  - destruct (check_limits lim _ _ _); [eapply E; eauto|].
    inversion H; subst s'; cbn [st_frames]. left. eexists [_; _]. split; [reflexivity|discriminate].
  - destruct (check_limits lim _ _ (st_stack s)); [eapply E; eauto|].
    destruct (check_limits lim _ _ _).
    + destruct pol; [eapply E; eauto|].
      inversion H; subst s'; cbn [st_frames]. left. eexists [_]. split; [reflexivity|discriminate].
    + inversion H; subst s'; cbn [st_frames]. left. eexists [_; _]. split; [reflexivity|discriminate].
  - eapply T; eauto.
  - destruct (f_exit top); destruct rest as [|g rs]; try discriminate;
      inversion H; subst s'; cbn [st_frames]; right; left; now exists [].
Qed.

Lemma pot_waiting : forall d fs f, at_depth d fs = Some f -> d < length fs ->
  pot d fs = phi (f_pc f - 1) (f_loops f) - 1.
Proof.
  intros d fs f Ha Hd. unfold pot. rewrite Ha.
  destruct (length fs =? d) eqn:E; [apply Nat.eqb_eq in E; lia | reflexivity].
Qed.

Definition step_goal (d : nat) (own : nat) (fs : list frame) (o : outcome) : Prop :=
  match o with
  | Running s' => length (st_frames s') < d \/
                  (Inv d (st_frames s') /\ pot d (st_frames s') + own <= pot d fs)
  | Done _ _ => True
  end.

(* a frame list that still contains the waiting frame unchanged, above it at least one frame *)
Lemma keep_waiting : forall d fs fs' f,
  Inv d fs -> d < length fs -> at_depth d fs = Some f ->
  at_depth d fs' = Some f -> d < length fs' ->
  Inv d fs' /\ pot d fs' + 0 <= pot d fs.
Proof.
  intros d fs fs' f [Hd [f0 [Ha [Hc [Hl [_ Hw]]]]]] Hlen Hf Hf' Hlen'.
  rewrite Hf in Ha. inversion Ha; subst f0. split.
  - split; [lia|]. exists f. repeat split; auto. intros; lia.
  - rewrite (pot_waiting d fs f Hf Hlen), (pot_waiting d fs' f Hf' Hlen'). lia.
Qed.

Lemma step_waiting : forall d s ch, Inv d (st_frames s) -> d < length (st_frames s) ->
  step_goal d 0 (st_frames s) (step P lim ch s).
Proof.
  intros d s ch HInv Hlen. destruct (step P lim ch s) as [s'|] eqn:Hs; [|exact I].
  unfold step_goal. destruct (st_frames s) as [|top rest] eqn:Hfs; [cbn in Hlen; lia|].
  cbn [length] in Hlen.
  pose proof HInv as [Hd [f [Ha [Hc [Hl [_ Hw]]]]]].
  assert (Har : at_depth d rest = Some f) by (rewrite <- Ha; symmetry; apply at_depth_cons; lia).
  specialize (Hw ltac:(cbn [length]; lia)).
  destruct (step_shape ch s top rest s' Hfs Hs) as [[pre [Hp Hne]]|[[pre Hp]|(pre & f0 & below & h & Hp & Hq & Hh)]].
  - right. eapply keep_waiting; eauto; try (cbn [length]; lia).
    + rewrite Hp. rewrite at_depth_app; [exact Har|lia].
    + rewrite Hp, app_length. destruct pre; [congruence|cbn [length]; lia].
  - destruct (Nat.lt_ge_cases (length (st_frames s')) d) as [Hlt|Hge]; [now left|right].
    assert (Ha' : at_depth d (st_frames s') = Some f).
    { rewrite <- Har, Hp. symmetry. apply at_depth_app. lia. }
    destruct (Nat.eq_dec (length (st_frames s')) d) as [Heq|Hneq].
    + destruct (st_frames s') as [|x below] eqn:Hx; [cbn in Heq; lia|]. cbn [length] in Heq.
      rewrite (at_depth_top d x below Heq) in Ha'. inversion Ha'; subst x.
      rewrite <- (set_pc_id f).
      destruct (resume_ok d f below (f_pc f) Heq Hc Hl Hw (or_introl eq_refl)) as [HI HP].
      split; [exact HI|]. rewrite (pot_waiting d (top :: rest) f Ha) by (cbn [length]; lia). lia.
    + eapply keep_waiting; eauto; try (cbn [length]; lia).
  - rewrite Hq. cbn [length].
    destruct (Nat.lt_ge_cases (S (length below)) d) as [Hlt|Hge]; [now left|right].
    destruct (Nat.eq_dec (S (length below)) d) as [Heq|Hneq].
    + assert (f0 = f).
      { rewrite Hp in Har. rewrite at_depth_app in Har by (cbn [length]; lia).
        rewrite (at_depth_top d f0 below Heq) in Har. now inversion Har. }
      subst f0. rewrite Hc in Hh. fold c in Hh.
      destruct (resume_ok d f below (h_end h) Heq Hc Hl Hw) as [HI HP].
      { right. exists h. split; [reflexivity|exact Hh]. }
      split; [exact HI|]. rewrite (pot_waiting d (top :: rest) f Ha) by (cbn [length]; lia). lia.
    + eapply keep_waiting; eauto; try (cbn [length]; lia).
      rewrite at_depth_cons by lia.
      rewrite <- Har, Hp. replace (pre ++ f0 :: below) with ((pre ++ [f0]) ++ below) by (now rewrite <- app_assoc).
      symmetry. apply at_depth_app. lia.
Qed.

Lemma phi_pos : forall pc loops, pc < B -> 1 <= phi pc loops.
Proof. intros pc loops H. unfold phi. pose proof (rank_lt_B pc H). generalize ((L + 1 - loops) * B). intros; lia. Qed.

Lemma pot_top : forall d f rest, S (length rest) = d ->
  pot d (f :: rest) = phi (f_pc f) (f_loops f).
Proof.
  intros d f rest Hd. unfold pot. rewrite (at_depth_top d f rest Hd). cbn [length].
  now rewrite Hd, Nat.eqb_refl.
Qed.

(* our frame stays on top and moves along a non-cut edge *)
Lemma own_move : forall d f rest pc',
  S (length rest) = d -> f_code f = cid -> f_loops f <= L + 1 ->
  pc' < B -> rk r (f_pc f) < rk r pc' ->
  Inv d (set_pc f pc' :: rest) /\ pot d (set_pc f pc' :: rest) + 1 <= pot d (f :: rest).
Proof.
  intros d f rest pc' Hd Hc Hl Hlt Hrk. split.
  - split; [cbn [length]; lia|]. exists (set_pc f pc'). split; [now apply at_depth_top|].
    cbn [set_pc f_code f_loops f_pc]. split; [exact Hc|]. split; [exact Hl|]. split.
    + intros _. exact Hlt.
    + intros Hgt. cbn [length] in Hgt. lia.
  - rewrite !pot_top by assumption. cbn [set_pc f_pc f_loops]. unfold phi.
    pose proof (rank_lt_B pc' Hlt). generalize ((L + 1 - f_loops f) * B). intros; lia.
Qed.

Definition dead_goal (d : nat) (o : outcome) : Prop :=
  match o with Running s' => length (st_frames s') < d | Done _ _ => True end.

Lemma dead_step_goal : forall d own fs o, dead_goal d o -> step_goal d own fs o.
Proof. intros d own fs [s'|] H; [now left | exact I]. Qed.

Lemma dead_throw : forall d f1 rest host stack log,
  S (length rest) = d ->
  find_handler (code_of P (f_code f1)) (f_pc f1 - 1) = None ->
  dead_goal d (raise_throw P (f1 :: rest) host stack log).
Proof.
  intros d f1 rest host stack log Hd Hn. unfold raise_throw. cbn [unwind_throw]. rewrite Hn.
  assert (G : forall own h st, match unwind_throw P own rest h st with
     | UCaught fs' host' stack' =>
         match fs' with
         | f :: _ => dead_goal d (Running (mkState fs' host' stack' (log ++ [EvCatch (length fs') (f_code f) (f_pc f)])))
         | [] => True end
     | UDone _ _ _ => True end).
  { intros own h st. destruct (unwind_throw P own rest h st) as [fs' h' st'|] eqn:E; [|exact I].
    destruct fs' as [|x xs]; [exact I|]. apply unwind_throw_len in E. cbn [dead_goal st_frames]. lia. }
  destruct (f_exit f1).
  - destruct rest as [|g rs]; [exact I|].
    specialize (G true (host - 1) (f_fp f1)).
    destruct (unwind_throw P true (g :: rs) (host - 1) (f_fp f1)) as [fs' h' st'|]; [|exact I].
    destruct fs'; [exact I|exact G].
  - specialize (G false host stack).
    destruct (unwind_throw P false rest host stack) as [fs' h' st'|]; [|exact I].
    destruct fs'; [exact I|exact G].
Qed.

Lemma dead_engine : forall d k f1 rest host stack log,
  S (length rest) = d ->
  dead_goal d (raise_engine k (f1 :: rest) host stack log).
Proof.
  intros d k f1 rest host stack log Hd.
  destruct (raise_engine k (f1 :: rest) host stack log) as [s'|] eqn:E; [|exact I].
  apply raise_engine_shape in E as [pre Hp]. cbn [dead_goal]. rewrite Hp, app_length in Hd. lia.
Qed.

(* a throw raised by our own frame: caught by one of our handlers (an edge of the CFG) or the frame dies *)
Lemma own_throw : forall d f rest host stack log,
  S (length rest) = d -> f_code f = cid -> f_loops f <= L + 1 ->
  (forall h, find_handler c (f_pc f) = Some h -> h_end h < B /\ rk r (f_pc f) < rk r (h_end h)) ->
  step_goal d 1 (f :: rest) (raise_throw P (set_pc f (S (f_pc f)) :: rest) host stack log).
Proof.
  intros d f rest host stack log Hd Hc Hl Hh.
  destruct (find_handler c (f_pc f)) as [h|] eqn:E.
  - unfold raise_throw. cbn [unwind_throw set_pc f_pc f_code]. rewrite Hc. fold c.
    replace (S (f_pc f) - 1) with (f_pc f) by lia. rewrite E.
    destruct (Hh h eq_refl) as [Hlt Hrk]. right. cbn [st_frames].
    assert (X : set_pc (set_pc f (S (f_pc f))) (h_end h) = set_pc f (h_end h)) by (now destruct f).
    rewrite X. now apply own_move.
  - apply dead_step_goal. apply dead_throw; [exact Hd|].
    cbn [set_pc f_pc f_code]. rewrite Hc. fold c.
    replace (S (f_pc f) - 1) with (f_pc f) by lia. exact E.
Qed.

(* our frame pushes a callee and waits at the call *)
Lemma own_call : forall d f rest g,
  S (length rest) = d -> f_code f = cid -> f_loops f <= L + 1 -> f_pc f < B ->
  is_call (nth_error (c_ins c) (f_pc f)) ->
  Inv d (g :: set_pc f (S (f_pc f)) :: rest) /\
  pot d (g :: set_pc f (S (f_pc f)) :: rest) + 1 <= pot d (f :: rest).
Proof.
  intros d f rest g Hd Hc Hl Hlt Hcall.
  assert (Ha : at_depth d (g :: set_pc f (S (f_pc f)) :: rest) = Some (set_pc f (S (f_pc f)))).
  { rewrite at_depth_cons by (cbn [length]; lia). now apply at_depth_top. }
  split.
  - split; [cbn [length]; lia|]. exists (set_pc f (S (f_pc f))). split; [exact Ha|].
    cbn [set_pc f_code f_loops f_pc]. split; [exact Hc|]. split; [exact Hl|]. split.
    + intros Heq. cbn [length] in Heq. lia.
    + intros _. exists (f_pc f). split; [reflexivity|exact Hcall].
  - rewrite (pot_waiting d _ _ Ha) by (cbn [length]; lia). rewrite pot_top by assumption.
    cbn [set_pc f_pc f_loops]. replace (S (f_pc f) - 1) with (f_pc f) by lia.
    pose proof (phi_pos (f_pc f) (f_loops f) Hlt). lia.
Qed.

Lemma step_own : forall d s ch, Inv d (st_frames s) -> length (st_frames s) = d ->
  step_goal d 1 (st_frames s) (step P lim ch s) /\ 1 <= pot d (st_frames s).
Proof.
  intros d s ch HInv Hlen.
  destruct (st_frames s) as [|f rest] eqn:Hfs; [destruct HInv as [[? ?] _]; cbn in *; lia|].
  cbn [length] in Hlen.
  destruct HInv as [Hd [f0 [Ha [Hc [Hl [Hpc _]]]]]].
  rewrite (at_depth_top d f rest Hlen) in Ha. inversion Ha; subst f0. clear Ha.
  specialize (Hpc ltac:(cbn [length]; lia)).
  split; [|rewrite pot_top by assumption; now apply phi_pos].
  unfold step. rewrite Hfs. rewrite Hc. fold c.
  destruct (nth_error (c_ins c) (f_pc f)) as [ins|] eqn:Hins; [|exact I].
  pose proof (ins_succ (f_pc f) ins) as Hsucc. specialize (fun s0 => Hsucc s0 Hins).
  destruct ins as [throws succs| |callee argc|callee argc pol| |]; cbn [node_of n_succ n_cut] in Hsucc.
  - (* IOp *)
    destruct (throws && (ch =? 0)) eqn:Ht.
    + apply andb_true_iff in Ht as [Ht _]. subst throws.
      apply own_throw; auto. intros h Hh.
      assert (Hin : In (h_end h) (succs ++ hand c (f_pc f))).
      { apply in_or_app. right. unfold hand. rewrite Hh. now left. }
      destruct (Hsucc (h_end h) Hin) as [Hx [Hy|Hy]]; [discriminate|auto].
    + destruct succs as [|s0 ss] eqn:Hss; [exact I|]. rewrite <- Hss in *.
      assert (Hin : In (nth (ch mod length succs) succs 0) succs).
      { apply nth_In. apply Nat.mod_upper_bound. rewrite Hss. discriminate. }
      destruct (Hsucc _ (in_or_app _ _ _ (or_introl Hin))) as [Hx [Hy|Hy]]; [discriminate|].
      right. cbn [st_frames]. now apply own_move.
  - (* ICounter *)
    destruct (lim_loop lim <? f_loops f) eqn:Hlim.
    + apply dead_step_goal. now apply dead_engine.
    + apply Nat.ltb_ge in Hlim. fold L in Hlim.
      destruct (Hsucc (S (f_pc f)) (or_introl eq_refl)) as [Hx _].
      right. cbn [st_frames]. split.
      * split; [cbn [length]; lia|]. eexists. split; [now apply at_depth_top|].
        cbn [set_pc set_loops f_code f_loops f_pc]. split; [exact Hc|]. split; [lia|]. split.
        -- intros _. exact Hx.
        -- intros Hgt. cbn [length] in Hgt. lia.
      * rewrite !pot_top by assumption. cbn [set_pc set_loops f_pc f_loops]. unfold phi.
        pose proof (rank_lt_B _ Hx). pose proof (rank_lt_B _ Hpc).
        replace (L + 1 - f_loops f) with (S (L - f_loops f)) by lia.
        replace (L + 1 - S (f_loops f)) with (L - f_loops f) by lia.
        cbn [Nat.mul]. generalize ((L - f_loops f) * B). intros; lia.
  - (* ICall *)
    destruct (check_limits lim _ _ _).
    + apply dead_step_goal. now apply dead_engine.
    + right. cbn [st_frames]. apply own_call; auto. now rewrite Hins.
  - (* IHost *)
    assert (Hcall : is_call (nth_error (c_ins c) (f_pc f))) by (now rewrite Hins).
    destruct (check_limits lim _ _ (st_stack s)).
    + apply dead_step_goal. now apply dead_engine.
    + destruct (check_limits lim _ _ _).
      * destruct pol.
        -- apply dead_step_goal. now apply dead_engine.
        -- right. cbn [st_frames]. destruct (call_succ _ Hcall) as [[Hx Hy] _]. now apply own_move.
      * right. cbn [st_frames]. apply own_call; auto.
  - (* IThrow *)
    apply own_throw; auto. intros h Hh.
    assert (Hin : In (h_end h) (hand c (f_pc f))) by (unfold hand; rewrite Hh; now left).
    destruct (Hsucc (h_end h) Hin) as [Hx [Hy|Hy]]; [discriminate|auto].
  - (* IReturn *)
    destruct (f_exit f); destruct rest as [|g rs]; try exact I; left; cbn [st_frames length] in *; lia.
Qed.

Theorem own_steps_pot : forall chs d s, Inv d (st_frames s) ->
  own_steps P lim d chs s <= pot d (st_frames s).
Proof.
  induction chs as [|ch chs IH]; intros d s HInv; [cbn; lia|].
  cbn [own_steps].
  destruct (length (st_frames s) <? d) eqn:Hlt; [lia|]. apply Nat.ltb_ge in Hlt.
  destruct (length (st_frames s) =? d) eqn:Heq.
  - apply Nat.eqb_eq in Heq. destruct (step_own d s ch HInv Heq) as [G Hpos].
    destruct (step P lim ch s) as [s'|]; [|lia].
    destruct G as [G|[HI HP]].
    + destruct chs; cbn [own_steps]; [lia|]. apply Nat.ltb_lt in G. rewrite G. lia.
    + specialize (IH d s' HI). lia.
  - apply Nat.eqb_neq in Heq. pose proof (step_waiting d s ch HInv ltac:(lia)) as G.
    destruct (step P lim ch s) as [s'|]; [|lia].
    destruct G as [G|[HI HP]].
    + destruct chs; cbn [own_steps]; [lia|]. apply Nat.ltb_lt in G. rewrite G. lia.
    + specialize (IH d s' HI). lia.
Qed.

End Activation.

Theorem activation_bounded_l : forall P lim r chs s f rest,
  st_frames s = f :: rest ->
  counters_cut_cycles (cfg_of (code_of P (f_code f))) r = true ->
  f_loops f = 0 -> f_pc f < length (c_ins (code_of P (f_code f))) ->
  own_steps P lim (length (st_frames s)) chs s
    <= (lim_loop lim + 2) * length (c_ins (code_of P (f_code f))).
Proof.
  intros P lim r chs s f rest Hfs Hcheck Hl Hpc.
  assert (HInv : Inv P lim (f_code f) (length (st_frames s)) (st_frames s)).
  { rewrite Hfs. split; [cbn [length]; lia|]. exists f. split; [now apply at_depth_top|].
    split; [reflexivity|]. split; [lia|]. split; [intros _; exact Hpc|intros; lia]. }
  pose proof (own_steps_pot P lim (f_code f) r Hcheck chs _ s HInv) as H.
  eapply Nat.le_trans; [exact H|].
  rewrite Hfs. rewrite pot_top by reflexivity. unfold phi. rewrite Hl.
  set (B := length (c_ins (code_of P (f_code f)))).
  replace (lim_loop lim + 1 - 0) with (lim_loop lim + 1) by lia.
  replace (lim_loop lim + 2) with (S (lim_loop lim + 1)) by lia. cbn [Nat.mul].
  generalize ((lim_loop lim + 1) * B). intros; lia.
Qed.

(* ------------------------------------------------------------------------------------------ *)
(* the log only grows; limits matter only through the three comparisons                        *)

Lemma no_limit_app : forall a b, no_limit (a ++ b) = no_limit a && no_limit b.
Proof. intros. unfold no_limit. apply forallb_app. Qed.

Definition extends (s : state) (o : outcome) : Prop :=
  exists evs, st_log (out_state o) = st_log s ++ evs.

Lemma raise_engine_log : forall k fs h st log,
  exists evs, st_log (out_state (raise_engine k fs h st log)) = log ++ EvLimit k :: evs.
Proof.
  intros. unfold raise_engine. destruct (unwind_engine fs h st) as [[[fs' h'] st'] b].
  destruct b; cbn; eauto.
Qed.

Lemma raise_throw_log : forall P fs h st log,
  exists evs, st_log (out_state (raise_throw P fs h st log)) = log ++ evs /\ no_limit evs = true.
Proof.
  intros. unfold raise_throw. destruct (unwind_throw P true fs h st) as [fs' h' st'|c h' st'].
  - destruct fs'; cbn; [exists []|eexists]; split; try reflexivity; now rewrite app_nil_r.
  - cbn. exists []. now rewrite app_nil_r.
Qed.

Lemma step_extends : forall P lim ch s, extends s (step P lim ch s).
Proof.
  intros P lim ch s. unfold extends, step.
  destruct (st_frames s) as [|f rest]; [exists []; cbn; now rewrite app_nil_r|].
  destruct (nth_error _ _) as [ins|]; [|exists []; cbn; now rewrite app_nil_r].
  assert (E : forall k fs h st e, exists evs,
     st_log (out_state (raise_engine k fs h st (st_log s ++ [e]))) = st_log s ++ evs).
  { intros. destruct (raise_engine_log k fs h st (st_log s ++ [e])) as [evs Hx].
    rewrite Hx, <- app_assoc. eauto. }
  assert (T : forall fs h st e, exists evs,
     st_log (out_state (raise_throw P fs h st (st_log s ++ [e]))) = st_log s ++ evs).
  { intros. destruct (raise_throw_log P fs h st (st_log s ++ [e])) as [evs [Hx _]].
    rewrite Hx, <- app_assoc. eauto. }
  destruct ins as [throws succs| |callee argc|callee argc pol| |].
  - destruct (throws && (ch =? 0)); [apply T|]. destruct succs; cbn; eauto.
  - destruct (lim_loop lim <? f_loops f); [apply E|cbn; eauto].
  - destruct (check_limits _ _ _ _); [apply E|cbn; eauto].
  - destruct (check_limits _ _ _ (st_stack s)); [apply E|].
    destruct (check_limits _ _ _ _); [|cbn; eauto].
    destruct pol; [apply E|]. cbn. rewrite <- app_assoc. eauto.
  - apply T.
  - destruct (f_exit f); destruct rest; cbn; eauto.
Qed.

Lemma run_extends : forall P lim chs s, extends s (run P lim chs s).
Proof.
  induction chs as [|ch chs IH]; intros s.
  - exists []. cbn. now rewrite app_nil_r.
  - cbn [run]. pose proof (step_extends P lim ch s) as [e1 H1].
    destruct (step P lim ch s) as [s'|c s'] eqn:E.
    + destruct (IH s') as [e2 H2]. exists (e1 ++ e2). rewrite H2. cbn in H1. rewrite H1. now rewrite app_assoc.
    + exists e1. exact H1.
Qed.

Lemma check_limits_mono : forall lim lim' n h st, lim_le lim lim' ->
  check_limits lim n h st = None -> check_limits lim' n h st = None.
Proof.
  intros lim lim' n h st (H1 & H2 & H3). unfold check_limits.
  destruct (lim_rec lim <=? n + h) eqn:A; [discriminate|].
  destruct (lim_stack lim <=? st) eqn:C; [discriminate|]. intros _.
  apply Nat.leb_gt in A. apply Nat.leb_gt in C.
  assert (lim_rec lim' <=? n + h = false) as -> by (apply Nat.leb_gt; lia).
  assert (lim_stack lim' <=? st = false) as -> by (apply Nat.leb_gt; lia). reflexivity.
Qed.

Lemma raise_engine_limit : forall k fs h st log,
  no_limit (st_log (out_state (raise_engine k fs h st log))) = false.
Proof.
  intros. destruct (raise_engine_log k fs h st log) as [evs H]. rewrite H.
  rewrite no_limit_app. cbn. apply andb_false_r.
Qed.

Lemma step_mono : forall P lim lim' ch s, lim_le lim lim' ->
  no_limit (st_log (out_state (step P lim ch s))) = true ->
  step P lim' ch s = step P lim ch s.
Proof.
  intros P lim lim' ch s Hle. unfold step.
  destruct (st_frames s) as [|f rest]; [reflexivity|].
  destruct (nth_error _ _) as [ins|]; [|reflexivity].
  destruct ins as [throws succs| |callee argc|callee argc pol| |]; try reflexivity.
  - destruct (lim_loop lim <? f_loops f) eqn:A.
    + intros H. now rewrite raise_engine_limit in H.
    + intros _. apply Nat.ltb_ge in A. destruct Hle as [H1 _].
      assert (lim_loop lim' <? f_loops f = false) as -> by (apply Nat.ltb_ge; lia). reflexivity.
  - destruct (check_limits lim _ _ _) eqn:A.
    + intros H. now rewrite raise_engine_limit in H.
    + intros _. now rewrite (check_limits_mono lim lim' _ _ _ Hle A).
  - destruct (check_limits lim _ _ (st_stack s)) eqn:A.
    + intros H. now rewrite raise_engine_limit in H.
    + rewrite (check_limits_mono lim lim' _ _ _ Hle A).
      destruct (check_limits lim _ _ (st_stack s + 2 + argc)) eqn:A2.
      * destruct pol; intros H; [now rewrite raise_engine_limit in H|].
        cbn in H. rewrite !no_limit_app in H. cbn in H. rewrite !andb_false_r in H. discriminate.
      * intros _. now rewrite (check_limits_mono lim lim' _ _ _ Hle A2).
Qed.

Theorem under_limit_unaffected_l : forall P lim lim' chs s, lim_le lim lim' ->
  no_limit (st_log (out_state (run P lim chs s))) = true ->
  run P lim' chs s = run P lim chs s.
Proof.
  intros P lim lim' chs. induction chs as [|ch chs IH]; intros s Hle H; [reflexivity|].
  cbn [run] in *. destruct (step P lim ch s) as [s'|c s'] eqn:E.
  - assert (Hs : no_limit (st_log (out_state (step P lim ch s))) = true).
    { rewrite E. cbn. destruct (run_extends P lim chs s') as [evs Hx]. rewrite Hx in H.
      rewrite no_limit_app in H. now apply andb_true_iff in H as [H _]. }
    rewrite (step_mono P lim lim' ch s Hle Hs), E. now apply IH.
  - assert (Hs : no_limit (st_log (out_state (step P lim ch s))) = true) by (now rewrite E).
    now rewrite (step_mono P lim lim' ch s Hle Hs), E.
Qed.

(* ------------------------------------------------------------------------------------------ *)
(* engine errors are final when every native on the chain propagates them                      *)

Definition final_ok (s : state) (o : outcome) : Prop :=
  exists evs, st_log (out_state o) = st_log s ++ evs /\
    ((no_limit evs = true /\ (forall k s', o <> Done (CLimit k) s') /\
      match o with Running s' => forallb frame_propagates (st_frames s') = true | Done _ _ => True end)
     \/ (exists k pre s', o = Done (CLimit k) s' /\ evs = pre ++ [EvLimit k] /\
                          no_limit pre = true /\ st_frames s' = [])).

Lemma prog_prop_ins : forall P cd pc ins, prog_propagates P = true ->
  nth_error (c_ins (code_of P cd)) pc = Some ins -> instr_propagates ins = true.
Proof.
  intros P cd pc ins HP H. unfold code_of in H.
  destruct (nth_in_or_default cd P empty_code) as [Hin|Hd].
  - unfold prog_propagates in HP. rewrite forallb_forall in HP. specialize (HP _ Hin).
    rewrite forallb_forall in HP. apply HP. eapply nth_error_In; eauto.
  - rewrite Hd in H. destruct pc; discriminate.
Qed.

Lemma set_pc_prop : forall f pc, frame_propagates (set_pc f pc) = frame_propagates f.
Proof. now destruct f. Qed.

Lemma raise_engine_final : forall k fs h st s d cd pc,
  forallb frame_propagates fs = true ->
  final_ok s (raise_engine k fs h st (st_log s ++ [EvExec d cd pc])).
Proof.
  intros k fs h st s d cd pc Hp. unfold raise_engine.
  destruct (unwind_engine_propagate fs h st Hp) as [h' [st' ->]].
  exists ([EvExec d cd pc] ++ [EvLimit k]). cbn [out_state st_log]. split; [now rewrite <- app_assoc|].
  right. exists k, [EvExec d cd pc], (mkState [] h' st' ((st_log s ++ [EvExec d cd pc]) ++ [EvLimit k])).
  repeat split.
Qed.

Lemma unwind_throw_prop : forall P own fs h st fs' h' st',
  forallb frame_propagates fs = true ->
  unwind_throw P own fs h st = UCaught fs' h' st' -> forallb frame_propagates fs' = true.
Proof.
  intros P own fs h st fs' h' st' Hp H.
  apply unwind_throw_shape in H as (pre & f & below & hh & Ha & Hb & _). subst.
  rewrite forallb_app in Hp. apply andb_true_iff in Hp as [_ Hp]. cbn [forallb] in *.
  now rewrite set_pc_prop.
Qed.

Lemma raise_throw_final : forall P fs h st s d cd pc,
  forallb frame_propagates fs = true ->
  final_ok s (raise_throw P fs h st (st_log s ++ [EvExec d cd pc])).
Proof.
  intros P fs h st s d cd pc Hp. unfold raise_throw.
  destruct (unwind_throw P true fs h st) as [fs' h' st'|c h' st'] eqn:E.
  - pose proof (unwind_throw_prop _ _ _ _ _ _ _ _ Hp E) as Hp'.
    destruct fs' as [|f xs]; cbn [out_state st_log].
    + exists [EvExec d cd pc]. split; [reflexivity|]. left. repeat split. intros; discriminate.
    + eexists ([EvExec d cd pc] ++ [_]). split; [now rewrite <- app_assoc|]. left.
      repeat split; [intros; discriminate|exact Hp'].
  - exists [EvExec d cd pc]. cbn [out_state st_log]. split; [reflexivity|]. left. repeat split.
    intros k s' Hx. inversion Hx; subst c.
    (* unwind_throw never yields a limit completion *)
    clear -E. revert E. generalize true at 1. generalize h st. induction fs as [|f rest IH]; intros h0 st0 own E.
    + cbn in E. discriminate.
    + cbn [unwind_throw] in E. destruct (find_handler _ _); [discriminate|].
      destruct (f_exit f); [destruct rest; [discriminate|]|]; eapply IH; eauto.
Qed.

Lemma step_final : forall P lim ch s, prog_propagates P = true ->
  forallb frame_propagates (st_frames s) = true -> final_ok s (step P lim ch s).
Proof.
  intros P lim ch s HP Hfr. unfold step.
  assert (Z : forall c, (forall k, c <> CLimit k) -> final_ok s (Done c s)).
  { intros c Hc. exists []. cbn. split; [now rewrite app_nil_r|]. left. repeat split.
    intros k s' Hx. inversion Hx. eapply Hc; eauto. }
  destruct (st_frames s) as [|f rest] eqn:Hfs; [apply Z; discriminate|].
  destruct (nth_error _ _) as [ins|] eqn:Hins; [|apply Z; discriminate].
  pose proof (prog_prop_ins _ _ _ _ HP Hins) as Hi.
  cbn [forallb] in Hfr. apply andb_true_iff in Hfr as [Hf Hrest].
  assert (Hf1 : forallb frame_propagates (set_pc f (S (f_pc f)) :: rest) = true).
  { cbn [forallb]. now rewrite set_pc_prop, Hf, Hrest. }
  assert (R : forall fs h st, forallb frame_propagates fs = true ->
     final_ok s (Running (mkState fs h st (st_log s ++ [EvExec (length (f :: rest)) (f_code f) (f_pc f)])))).
  { intros fs h st Hp. eexists [_]. cbn. split; [reflexivity|]. left. repeat split; [intros; discriminate|exact Hp]. }
  assert (D : forall c fs h st, (forall k, c <> CLimit k) ->
     final_ok s (Done c (mkState fs h st (st_log s ++ [EvExec (length (f :: rest)) (f_code f) (f_pc f)])))).
  { intros c fs h st Hc. eexists [_]. cbn. split; [reflexivity|]. left. repeat split.
    intros k s' Hx. inversion Hx. eapply Hc; eauto. }
  destruct ins as [throws succs| |callee argc|callee argc pol| |].
  - destruct (throws && (ch =? 0)); [now apply raise_throw_final|].
    destruct succs; [apply D; discriminate|]. apply R. cbn [forallb]. now rewrite set_pc_prop, Hf, Hrest.
  - destruct (lim_loop lim <? f_loops f); [now apply raise_engine_final|].
    apply R. cbn [forallb]. replace (frame_propagates (set_loops _ _)) with (frame_propagates f) by (now destruct f).
    now rewrite Hf, Hrest.
  - destruct (check_limits _ _ _ _); [now apply raise_engine_final|].
    apply R. cbn [forallb] in *. now rewrite Hf1.
  - destruct (check_limits _ _ _ (st_stack s)); [now apply raise_engine_final|].
    destruct pol; [|discriminate].
    destruct (check_limits _ _ _ _); [now apply raise_engine_final|].
    apply R. cbn [forallb] in *. now rewrite Hf1.
  - now apply raise_throw_final.
  - destruct (f_exit f); destruct rest as [|g rs]; try (apply D; discriminate); apply R; exact Hrest.
Qed.

Theorem run_final : forall P lim chs s, prog_propagates P = true ->
  forallb frame_propagates (st_frames s) = true -> final_ok s (run P lim chs s).
Proof.
  intros P lim chs. induction chs as [|ch chs IH]; intros s HP Hfr.
  - exists []. cbn. split; [now rewrite app_nil_r|]. left. repeat split; [intros; discriminate|exact Hfr].
  - cbn [run]. pose proof (step_final P lim ch s HP Hfr) as [e1 [H1 Hc]].
    destruct (step P lim ch s) as [s'|c s'] eqn:E.
    + destruct Hc as [(Hn & _ & Hp')|(k & pre & s0 & Hx & _)]; [|discriminate].
      destruct (IH s' HP Hp') as [e2 [H2 Hc2]]. cbn [out_state] in H1.
      exists (e1 ++ e2). split; [rewrite H2, H1; now rewrite app_assoc|].
      destruct Hc2 as [(Hn2 & Hd2 & Hp2)|(k & pre & s0 & Hx & Hev & Hpre & Hfs)].
      * left. repeat split; [rewrite no_limit_app; now rewrite Hn, Hn2|exact Hd2|exact Hp2].
      * right. exists k, (e1 ++ pre), s0. repeat split; auto.
        -- rewrite Hev. now rewrite app_assoc.
        -- rewrite no_limit_app. now rewrite Hn, Hpre.
    + exists e1. split; [exact H1|exact Hc].
Qed.

(* ------------------------------------------------------------------------------------------ *)
(* completeness direction of the check: a counter-free cycle admits no ranking                 *)

Lemma walk_last_rank : forall g r, counters_cut_cycles g r = true ->
  forall l i j, walk g (i :: l ++ [j]) -> (forall x, In x (i :: l) -> is_cut g x = false) ->
  rk r i < rk r j.
Proof.
  intros g r H l. induction l as [|k l IH]; intros i j Hw Hall.
  - cbn in Hw. destruct Hw as [He _]. exact (proj1 (check_edge g r H i j He (Hall i (or_introl eq_refl)))).
  - cbn [app] in Hw. destruct Hw as [He Hw].
    pose proof (proj1 (check_edge g r H i k He (Hall i (or_introl eq_refl)))) as H1.
    assert (H2 : rk r k < rk r j). { apply IH; [exact Hw|]. intros x Hx. apply Hall. now right. }
    lia.
Qed.

Lemma plain_cycle_rejected_l : forall g r l i,
  walk g (i :: l ++ [i]) -> (forall x, In x (i :: l) -> is_cut g x = false) ->
  counters_cut_cycles g r = false.
Proof.
  intros g r l i Hw Hall. destruct (counters_cut_cycles g r) eqn:E; [|reflexivity].
  pose proof (walk_last_rank g r E l i i Hw Hall). lia.
Qed.

Lemma swallow_refuted_l :
  exists chs pre post,
    st_log (out_state (run (demo_prog Swallow) demo_lim chs demo_state))
      = pre ++ EvLimit KLoop :: EvSwallow :: EvExec 1 0 1 :: post.
Proof.
  exists (repeat 1 10), [EvExec 1 0 0; EvExec 2 1 0; EvExec 2 1 1; EvExec 2 1 0; EvExec 2 1 1;
                         EvExec 2 1 0; EvExec 2 1 1; EvExec 2 1 0], [EvExec 1 0 2].
  vm_compute. reflexivity.
Qed.
