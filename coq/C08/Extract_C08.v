(* Extraction of the certified CFG check and of the abstract VM (ExtrOcamlBasic only; nat stays inductive).
   Output goes to ocaml/C08/_build/ (git-ignored). coqc runs with /verif/coq as working directory. *)
From Coq Require Import List Arith Extraction ExtrOcamlBasic.
From C08 Require Import Model_C08.
Extraction Language OCaml.
Extraction "../ocaml/C08/_build/c08_model.ml" counters_cut_cycles cfg_of run own_steps out_state demo_prog.
