(* C08 — runtime limits: executable definitions only.

   Part 1 (Cfg): control-flow graph of one compiled code block and the certified check
   [counters_cut_cycles]: every edge whose source is not a cut node (IncrementLoopIteration; for
   generator/async bodies also a suspension point) strictly increases a supplied rank.

   Part 2 (Limits): an abstract VM transliterating the limit mechanism of
     core/engine/src/vm/mod.rs            (run loop, handle_error incl. the uncatchable branch,
                                           handle_throw, handle_return, handle_exception_at,
                                           check_runtime_limits)
     core/engine/src/vm/opcode/iteration/loop_ops.rs   (IncrementLoopIteration)
     core/engine/src/builtins/function/mod.rs          (function_call: check_runtime_limits, push_frame)
     core/engine/src/native_function/mod.rs            (native_function_call: check_runtime_limits)
     core/engine/src/object/operations.rs              (JsObject::call: exit_early, host_call_depth)
   Data is abstracted away: branch outcomes and "does this instruction throw" are resolved by a
   choice oracle, so a statement proved for all choice lists holds for all data. *)
From Coq Require Import List Arith Bool PeanoNat.
Import ListNotations.

(* ------------------------------------------------------------------------------------------ *)
(* Part 1: Cfg                                                                                 *)

(* vertex = position in the list *)
Record node := mkNode { n_cut : bool; n_succ : list nat }.
Definition cfg := list node.
Definition ranking := list nat.

Definition rk (r : ranking) (i : nat) : nat := nth i r 0.

Definition edge_ok (n : nat) (r : ranking) (cut : bool) (i s : nat) : bool :=
  (s <? n) && (cut || (rk r i <? rk r s)).

Fixpoint nodes_ok (n : nat) (r : ranking) (i : nat) (g : cfg) : bool :=
  match g with
  | [] => true
  | nd :: g' =>
      (rk r i <? n) && forallb (edge_ok n r (n_cut nd) i) (n_succ nd) && nodes_ok n r (S i) g'
  end.

(* the certified check *)
Definition counters_cut_cycles (g : cfg) (r : ranking) : bool := nodes_ok (length g) r 0 g.

Definition is_cut (g : cfg) (i : nat) : bool :=
  match nth_error g i with Some nd => n_cut nd | None => false end.

Definition edge (g : cfg) (i j : nat) : Prop :=
  exists nd, nth_error g i = Some nd /\ In j (n_succ nd).

Fixpoint walk (g : cfg) (l : list nat) : Prop :=
  match l with
  | [] => True
  | i :: l' => match l' with [] => True | j :: _ => edge g i j end /\ walk g l'
  end.

Definition count_cut (g : cfg) (l : list nat) : nat := length (filter (is_cut g) l).

(* ------------------------------------------------------------------------------------------ *)
(* Part 2: Limits                                                                              *)

(* what a native builtin does with an engine error coming out of the JS function it called *)
Inductive policy := Propagate | Swallow.

Inductive instr :=
| IOp (throws : bool) (succs : list nat)   (* any ordinary instruction: may raise a catchable error, continues at one of succs *)
| ICounter                                  (* IncrementLoopIteration *)
| ICall (callee argc : nat)                 (* Call/New/... of an ordinary function: same run loop, no exit_early *)
| IHost (callee argc : nat) (pol : policy)  (* call of a native builtin that re-enters through JsObject::call (getter, callback, trap, ...) *)
| IThrow
| IReturn.

(* Handler{start,end}: contains(pc) = start <= pc < end, landing pc = end *)
Record handler := mkHandler { h_start : nat; h_end : nat }.

Record code := mkCode { c_ins : list instr; c_handlers : list handler; c_regs : nat }.
Definition prog := list code.

Definition empty_code : code := mkCode [] [] 0.
Definition code_of (P : prog) (c : nat) : code := nth c P empty_code.

Record limits := mkLimits { lim_loop : nat; lim_rec : nat; lim_stack : nat }.

Record frame := mkFrame {
  f_code : nat;
  f_pc : nat;
  f_loops : nat;      (* CallFrame.loop_iteration_count *)
  f_exit : bool;      (* CallFrameFlags::EXIT_EARLY *)
  f_fp : nat;         (* value-stack length this frame is truncated to *)
  f_pol : policy      (* policy of the native that entered this frame through JsObject::call (exit frames only) *)
}.

Inductive kind := KLoop | KRec | KStack.
Inductive completion := CReturn | CThrow | CLimit (k : kind) | CStuck.
Inductive event :=
| EvExec (depth cd pc : nat)        (* an instruction was executed *)
| EvCatch (depth cd target : nat)   (* handle_exception_at found a handler (catch or finally block entered) *)
| EvLimit (k : kind)                (* an engine RuntimeLimitError was raised *)
| EvSwallow.                        (* a native builtin turned the engine error into a normal completion *)

Record state := mkState {
  st_frames : list frame;   (* top first; the dummy frame at index 0 of the Rust vector is not represented *)
  st_host : nat;            (* vm.host_call_depth *)
  st_stack : nat;           (* vm.stack.len() *)
  st_log : list event
}.

Inductive outcome := Running (s : state) | Done (c : completion) (s : state).

Definition set_pc (f : frame) (pc : nat) : frame :=
  mkFrame (f_code f) pc (f_loops f) (f_exit f) (f_fp f) (f_pol f).
Definition set_loops (f : frame) (n : nat) : frame :=
  mkFrame (f_code f) (f_pc f) n (f_exit f) (f_fp f) (f_pol f).

Definition h_contains (pc : nat) (h : handler) : bool := (h_start h <=? pc) && (pc <? h_end h).

(* CodeBlock::find_handler: innermost = last in the table *)
Definition find_handler (c : code) (pc : nat) : option handler :=
  find (h_contains pc) (rev (c_handlers c)).

(* Context::check_runtime_limits; nframes = vm.frames.len() - 1 *)
Definition check_limits (lim : limits) (nframes host stack : nat) : option kind :=
  if lim_rec lim <=? nframes + host then Some KRec
  else if lim_stack lim <=? stack then Some KStack
  else None.

(* handle_error, `!err.is_catchable()` branch, followed by what the Rust callers of `run` do:
   pop frames up to the first EXIT_EARLY one (stack truncated to the last popped frame);
   `run` returns Err to JsObject::call, which pops the exit frame and decrements host_call_depth;
   the native builtin gets Err: a well-behaved one propagates it with `?`, so the Call opcode of the
   frame below fails with the same engine error and handle_error runs again there.
   Result: (frames left, host depth, stack length, swallowed?) *)
Fixpoint unwind_engine (fs : list frame) (host stack : nat) : list frame * nat * nat * bool :=
  match fs with
  | [] => ([], host, stack, false)
  | f :: rest =>
      if f_exit f then
        match rest with
        | [] => ([], host, stack, false)
        | _ :: _ =>
            match f_pol f with
            | Swallow => (rest, host - 1, stack, true)
            | Propagate => unwind_engine rest (host - 1) stack
            end
        end
      else unwind_engine rest host (f_fp f)
  end.

Inductive uresult :=
| UCaught (fs : list frame) (host stack : nat)
| UDone (c : completion) (host stack : nat).

(* catchable error.  own = true: handle_error/Throw in the frame that raised it (handler lookup at
   pc - 1, handle_throw's first branch truncates the stack when the frame is EXIT_EARLY);
   own = false: the caller walk of handle_throw (lookup at the caller's pc, no truncation).
   Crossing an exit frame = JsObject::call epilogue, then the error surfaces from the Call opcode of
   the frame below (own = true again). *)
Fixpoint unwind_throw (P : prog) (own : bool) (fs : list frame) (host stack : nat) : uresult :=
  match fs with
  | [] => UDone CStuck host stack
  | f :: rest =>
      let look := if own then f_pc f - 1 else f_pc f in
      match find_handler (code_of P (f_code f)) look with
      | Some h => UCaught (set_pc f (h_end h) :: rest) host stack
      | None =>
          if f_exit f then
            let stack' := if own then f_fp f else stack in
            match rest with
            | [] => UDone CThrow host stack'
            | _ :: _ => unwind_throw P true rest (host - 1) stack'
            end
          else unwind_throw P false rest host stack
      end
  end.

Definition raise_engine (k : kind) (fs : list frame) (host stack : nat) (log : list event) : outcome :=
  match unwind_engine fs host stack with
  | (fs', host', stack', true) => Running (mkState fs' host' stack' (log ++ [EvLimit k; EvSwallow]))
  | (fs', host', stack', false) => Done (CLimit k) (mkState fs' host' stack' (log ++ [EvLimit k]))
  end.

Definition raise_throw (P : prog) (fs : list frame) (host stack : nat) (log : list event) : outcome :=
  match unwind_throw P true fs host stack with
  | UCaught fs' host' stack' =>
      match fs' with
      | f :: _ => Running (mkState fs' host' stack' (log ++ [EvCatch (length fs') (f_code f) (f_pc f)]))
      | [] => Done CStuck (mkState fs' host' stack' log)
      end
  | UDone c host' stack' => Done c (mkState [] host' stack' log)
  end.

Definition new_frame (callee : nat) (exit : bool) (fp : nat) (pol : policy) : frame :=
  mkFrame callee 0 0 exit fp pol.

(* one iteration of Context::run *)
Definition step (P : prog) (lim : limits) (ch : nat) (s : state) : outcome :=
  match st_frames s with
  | [] => Done CStuck s
  | f :: rest =>
      match nth_error (c_ins (code_of P (f_code f))) (f_pc f) with
      | None => Done CStuck s
      | Some ins =>
          let d := length (st_frames s) in
          let host := st_host s in
          let stack := st_stack s in
          let f1 := set_pc f (S (f_pc f)) in
          let log := st_log s ++ [EvExec d (f_code f) (f_pc f)] in
          match ins with
          | IOp throws succs =>
              if throws && (ch =? 0) then raise_throw P (f1 :: rest) host stack log
              else match succs with
                   | [] => Done CStuck (mkState (f1 :: rest) host stack log)
                   | _ :: _ => Running (mkState (set_pc f (nth (ch mod length succs) succs 0) :: rest) host stack log)
                   end
          | ICounter =>
              (* previous_iteration_count > max -> error, else count + 1 *)
              if lim_loop lim <? f_loops f then raise_engine KLoop (f1 :: rest) host stack log
              else Running (mkState (set_loops f1 (S (f_loops f)) :: rest) host stack log)
          | ICall callee argc =>
              (* this, func and the arguments are on the stack when function_call checks the limits *)
              let stack1 := stack + 2 + argc in
              match check_limits lim d host stack1 with
              | Some k => raise_engine k (f1 :: rest) host stack1 log
              | None =>
                  Running (mkState (new_frame callee false stack Propagate :: f1 :: rest) host
                                   (stack1 + c_regs (code_of P callee)) log)
              end
          | IHost callee argc pol =>
              (* native_function_call pops its arguments and checks; the builtin then calls
                 JsObject::call: push this/func/args, function_call checks again, push_frame,
                 set_exit_early, host_call_depth += 1 *)
              let stack1 := stack + 2 + argc in
              let fail k st :=
                match pol with
                | Propagate => raise_engine k (f1 :: rest) host st log
                | Swallow => Running (mkState (f1 :: rest) host st (log ++ [EvLimit k; EvSwallow]))
                end in
              match check_limits lim d host stack with
              | Some k => raise_engine k (f1 :: rest) host stack log
              | None =>
                  match check_limits lim d host stack1 with
                  | Some k => fail k stack1
                  | None =>
                      Running (mkState (new_frame callee true stack pol :: f1 :: rest) (S host)
                                       (stack1 + c_regs (code_of P callee)) log)
                  end
              end
          | IThrow => raise_throw P (f1 :: rest) host stack log
          | IReturn =>
              (* handle_return: truncate to the frame; EXIT_EARLY -> run returns to JsObject::call *)
              if f_exit f then
                match rest with
                | [] => Done CReturn (mkState [] host (f_fp f) log)
                | _ :: _ => Running (mkState rest (host - 1) (f_fp f) log)
                end
              else
                match rest with
                | [] => Done CReturn (mkState [] host (f_fp f) log)
                | _ :: _ => Running (mkState rest host (f_fp f) log)
                end
          end
      end
  end.

Fixpoint run (P : prog) (lim : limits) (chs : list nat) (s : state) : outcome :=
  match chs with
  | [] => Running s
  | ch :: chs' =>
      match step P lim ch s with
      | Running s' => run P lim chs' s'
      | d => d
      end
  end.

Definition out_state (o : outcome) : state := match o with Running s => s | Done _ s => s end.

(* number of instructions the activation at depth d executes, counted until it dies *)
Fixpoint own_steps (P : prog) (lim : limits) (d : nat) (chs : list nat) (s : state) : nat :=
  match chs with
  | [] => 0
  | ch :: chs' =>
      if length (st_frames s) <? d then 0
      else (if length (st_frames s) =? d then 1 else 0) +
           match step P lim ch s with
           | Running s' => own_steps P lim d chs' s'
           | Done _ _ => 0
           end
  end.

(* ---- the CFG of a model code block (the same successor rule the dump reader applies to real blocks) *)
Definition hand (c : code) (pc : nat) : list nat :=
  match find_handler c pc with Some h => [h_end h] | None => [] end.

Definition node_of (c : code) (i : nat) (ins : instr) : node :=
  match ins with
  | IOp throws succs => mkNode false (succs ++ (if throws then hand c i else []))
  | ICounter => mkNode true [S i]
  | ICall _ _ => mkNode false (S i :: hand c i ++ hand c (S i))
  | IHost _ _ _ => mkNode false (S i :: hand c i ++ hand c (S i))
  | IThrow => mkNode false (hand c i)
  | IReturn => mkNode false []
  end.

Fixpoint nodes_from (c : code) (i : nat) (l : list instr) : cfg :=
  match l with
  | [] => []
  | ins :: l' => node_of c i ins :: nodes_from c (S i) l'
  end.

Definition cfg_of (c : code) : cfg := nodes_from c 0 (c_ins c).

(* ---- policies *)
Definition instr_propagates (i : instr) : bool :=
  match i with IHost _ _ Swallow => false | _ => true end.
Definition prog_propagates (P : prog) : bool :=
  forallb (fun c => forallb instr_propagates (c_ins c)) P.
Definition frame_propagates (f : frame) : bool :=
  match f_pol f with Propagate => true | Swallow => false end.

Definition is_limit (e : event) : bool := match e with EvLimit _ => true | _ => false end.
Definition no_limit (l : list event) : bool := forallb (fun e => negb (is_limit e)) l.

Definition lim_le (a b : limits) : Prop :=
  lim_loop a <= lim_loop b /\ lim_rec a <= lim_rec b /\ lim_stack a <= lim_stack b.

(* a small program used by Props (hypotheses satisfiable, Swallow refutation):
   code 0: host entry   0: IHost 1 (pol)   1: IOp [2]   2: IReturn
   code 1: callback     0: ICounter  1: IOp [0]        (while(true){})  *)
Definition demo_prog (pol : policy) : prog :=
  [ mkCode [IHost 1 0 pol; IOp false [2]; IReturn] [mkHandler 0 1] 1;
    mkCode [ICounter; IOp false [0]] [] 0 ].
Definition demo_state : state := mkState [new_frame 0 true 0 Propagate] 0 0 [].
Definition demo_lim : limits := mkLimits 2 16 1000.
