(* C08 — pinned property theorems.  Only: Theorem / exact lemma / Check pin / Print Assumptions (+ Examples). *)
From Coq Require Import List Arith Bool.
From C08 Require Import Model_C08 Proofs_C08 Deep_C08.
Import ListNotations.

(* the check is sound: a walk that avoids cut nodes (IncrementLoopIteration) has at most |g| vertices *)
Theorem cut_sound : forall g r, counters_cut_cycles g r = true ->
  forall l, walk g l -> (forall x, In x l -> x < length g /\ is_cut g x = false) ->
  length l <= length g.
Proof. exact cut_sound_l. Qed.
Check cut_sound : forall g r, counters_cut_cycles g r = true ->
  forall l, walk g l -> (forall x, In x l -> x < length g /\ is_cut g x = false) ->
  length l <= length g.
Print Assumptions cut_sound.

(* any walk: its length is bounded by the number of cut nodes it visits *)
Theorem walk_bounded : forall g r, counters_cut_cycles g r = true ->
  forall l, walk g l -> (forall x, In x l -> x < length g) ->
  length l <= (count_cut g l + 1) * length g.
Proof. exact walk_bounded_l. Qed.
Check walk_bounded : forall g r, counters_cut_cycles g r = true ->
  forall l, walk g l -> (forall x, In x l -> x < length g) ->
  length l <= (count_cut g l + 1) * length g.
Print Assumptions walk_bounded.

(* the check is not vacuous: a cycle without a cut node has no ranking *)
Theorem plain_cycle_rejected : forall g r l i,
  walk g (i :: l ++ [i]) -> (forall x, In x (i :: l) -> is_cut g x = false) ->
  counters_cut_cycles g r = false.
Proof. exact plain_cycle_rejected_l. Qed.
Check plain_cycle_rejected : forall g r l i,
  walk g (i :: l ++ [i]) -> (forall x, In x (i :: l) -> is_cut g x = false) ->
  counters_cut_cycles g r = false.
Print Assumptions plain_cycle_rejected.

(* an activation whose code passes the check executes at most (L+2)*|code| of its own instructions,
   for every program around it, every limit triple, every choice sequence (all data), whatever its
   callees do, until it returns, is unwound or dies with RuntimeLimitError *)
Theorem activation_bounded : forall P lim r chs s f rest,
  st_frames s = f :: rest ->
  counters_cut_cycles (cfg_of (code_of P (f_code f))) r = true ->
  f_loops f = 0 -> f_pc f < length (c_ins (code_of P (f_code f))) ->
  own_steps P lim (length (st_frames s)) chs s
    <= (lim_loop lim + 2) * length (c_ins (code_of P (f_code f))).
Proof. exact activation_bounded_l. Qed.
Check activation_bounded : forall P lim r chs s f rest,
  st_frames s = f :: rest ->
  counters_cut_cycles (cfg_of (code_of P (f_code f))) r = true ->
  f_loops f = 0 -> f_pc f < length (c_ins (code_of P (f_code f))) ->
  own_steps P lim (length (st_frames s)) chs s
    <= (lim_loop lim + 2) * length (c_ins (code_of P (f_code f))).
Print Assumptions activation_bounded.

(* the uncatchable branch of handle_error, from any depth, through any number of native re-entry
   boundaries that propagate errors: every frame is popped, nothing is swallowed *)
Theorem uncatchable_unwinds_frames : forall fs host stack,
  forallb frame_propagates fs = true ->
  exists h' s', unwind_engine fs host stack = ([], h', s', false).
Proof. exact unwind_engine_propagate. Qed.
Check uncatchable_unwinds_frames : forall fs host stack,
  forallb frame_propagates fs = true ->
  exists h' s', unwind_engine fs host stack = ([], h', s', false).
Print Assumptions uncatchable_unwinds_frames.

(* run level: either no limit error was raised, or the run ended with CLimit k reported to the host,
   the EvLimit event is the last event of the log (no handler entered, no finally block run, no
   further instruction executed after the limit point) and no frame is left *)
Theorem uncatchable_unwinds : forall P lim chs s, prog_propagates P = true ->
  forallb frame_propagates (st_frames s) = true -> final_ok s (run P lim chs s).
Proof. exact run_final. Qed.
Check uncatchable_unwinds : forall P lim chs s, prog_propagates P = true ->
  forallb frame_propagates (st_frames s) = true ->
  exists evs, st_log (out_state (run P lim chs s)) = st_log s ++ evs /\
    ((no_limit evs = true /\ (forall k s', run P lim chs s <> Done (CLimit k) s') /\
      match run P lim chs s with
      | Running s' => forallb frame_propagates (st_frames s') = true
      | Done _ _ => True end)
     \/ (exists k pre s', run P lim chs s = Done (CLimit k) s' /\ evs = pre ++ [EvLimit k] /\
                          no_limit pre = true /\ st_frames s' = [])).
Print Assumptions uncatchable_unwinds.

(* the hypothesis on natives is needed: one builtin that swallows the engine error lets the chain go on *)
Theorem swallow_refuted :
  exists chs pre post,
    st_log (out_state (run (demo_prog Swallow) demo_lim chs demo_state))
      = pre ++ EvLimit KLoop :: EvSwallow :: EvExec 1 0 1 :: post.
Proof. exact swallow_refuted_l. Qed.
Check swallow_refuted :
  exists chs pre post,
    st_log (out_state (run (demo_prog Swallow) demo_lim chs demo_state))
      = pre ++ EvLimit KLoop :: EvSwallow :: EvExec 1 0 1 :: post.
Print Assumptions swallow_refuted.

(* a run in which no limit fires is identical under every larger limit triple (in particular unlimited) *)
Theorem under_limit_unaffected : forall P lim lim' chs s, lim_le lim lim' ->
  no_limit (st_log (out_state (run P lim chs s))) = true ->
  run P lim' chs s = run P lim chs s.
Proof. exact under_limit_unaffected_l. Qed.
Check under_limit_unaffected : forall P lim lim' chs s, lim_le lim lim' ->
  no_limit (st_log (out_state (run P lim chs s))) = true ->
  run P lim' chs s = run P lim chs s.
Print Assumptions under_limit_unaffected.

(* ---- deepening round ---- *)

(* total work of one evaluation/job: if every code block passes the check (ranking family RK), blocks have at most M
   instructions and every call names a non-empty block, then the whole run - all activations, any tree of callees, any
   choice sequence, unwinding included - executes fewer than ((L+2)*M + 1)^max(1,R) iterations of Context::run before it
   returns to the host *)
Theorem total_work_bounded : forall P lim RK M chs s f,
  (forall c, counters_cut_cycles (cfg_of (code_of P c)) (RK c) = true) ->
  (forall c, length (c_ins (code_of P c)) <= M) ->
  calls_ok P ->
  st_frames s = [f] -> f_pc f < length (c_ins (code_of P (f_code f))) -> f_loops f <= lim_loop lim + 1 ->
  total_steps P lim chs s <= ((lim_loop lim + 2) * M + 1) ^ (S (lim_rec lim - 1)).
Proof. exact total_work_bounded_l. Qed.
Check total_work_bounded : forall P lim RK M chs s f,
  (forall c, counters_cut_cycles (cfg_of (code_of P c)) (RK c) = true) ->
  (forall c, length (c_ins (code_of P c)) <= M) ->
  calls_ok P ->
  st_frames s = [f] -> f_pc f < length (c_ins (code_of P (f_code f))) -> f_loops f <= lim_loop lim + 1 ->
  total_steps P lim chs s <= ((lim_loop lim + 2) * M + 1) ^ (S (lim_rec lim - 1)).
Print Assumptions total_work_bounded.

(* a native iteration loop that charges the caller's loop counter per step (patched IteratorRecord::step) is bounded like
   a bytecode loop, in any program and for any callee behaviour *)
Theorem native_iteration_bounded : forall P lim cid next chs s f rest,
  code_of P cid = native_iter_code true next ->
  st_frames s = f :: rest -> f_code f = cid -> f_loops f = 0 -> f_pc f < 4 ->
  own_steps P lim (length (st_frames s)) chs s <= (lim_loop lim + 2) * 4.
Proof. exact native_iteration_bounded_l. Qed.
Check native_iteration_bounded : forall P lim cid next chs s f rest,
  code_of P cid = native_iter_code true next ->
  st_frames s = f :: rest -> f_code f = cid -> f_loops f = 0 -> f_pc f < 4 ->
  own_steps P lim (length (st_frames s)) chs s <= (lim_loop lim + 2) * 4.
Print Assumptions native_iteration_bounded.

(* the uncharged loop (the tree as found: known finding native-iteration-not-counted) is stopped by no limit triple that
   leaves room for one callback: the activation executes arbitrarily many instructions, whatever the loop limit *)
Theorem native_iteration_unbounded_without_charge : forall lim n,
  2 <= lim_rec lim -> 3 <= lim_stack lim ->
  exists chs, n <= own_steps ni_prog lim 1 chs (ni_state []).
Proof. exact native_iteration_unbounded_without_charge_l. Qed.
Check native_iteration_unbounded_without_charge : forall lim n,
  2 <= lim_rec lim -> 3 <= lim_stack lim ->
  exists chs, n <= own_steps ni_prog lim 1 chs (ni_state []).
Print Assumptions native_iteration_unbounded_without_charge.

(* hypotheses are satisfiable *)
Example demo_check : counters_cut_cycles (cfg_of (code_of (demo_prog Propagate) 1)) [1; 0] = true.
Proof. reflexivity. Qed.
Example demo_check0 : counters_cut_cycles (cfg_of (code_of (demo_prog Propagate) 0)) [0; 1; 2] = true.
Proof. reflexivity. Qed.
Example demo_limit : exists s',
  run (demo_prog Propagate) demo_lim (repeat 1 10) demo_state = Done (CLimit KLoop) s' /\ st_frames s' = [].
Proof. eexists. split; vm_compute; reflexivity. Qed.
Example demo_plain_loop_rejected : forall r, counters_cut_cycles [mkNode false [1]; mkNode false [0]] r = false.
Proof. intros r. apply (plain_cycle_rejected _ r [1] 0); cbn; [repeat split; eexists; split; try reflexivity; now left|].
  intros x [<-|[<-|[]]]; reflexivity. Qed.

Example demo_total_work : forall chs,
  total_steps (demo_prog Propagate) demo_lim chs demo_state <= ((2 + 2) * 3 + 1) ^ 16.
Proof.
  intros chs.
  apply (total_work_bounded (demo_prog Propagate) demo_lim
           (fun c => match c with 0 => [0; 1; 2] | 1 => [1; 0] | _ => [] end) 3 chs demo_state
           (new_frame 0 true 0 Propagate)).
  - intros [|[|[|c]]]; reflexivity.
  - intros [|[|[|c]]]; cbn; auto.
  - intros cd pc ins c Hn Hc. unfold code_of in *.
    destruct cd as [|[|[|cd]]]; cbn in Hn |- *.
    + destruct pc as [|[|[|pc]]]; cbn in Hn; try (destruct pc; discriminate); inversion Hn; subst; cbn in Hc; try discriminate.
      inversion Hc; subst; cbn; auto.
    + destruct pc as [|[|pc]]; cbn in Hn; try (destruct pc; discriminate); inversion Hn; subst; cbn in Hc; discriminate.
    + destruct pc; cbn in Hn; discriminate.
    + destruct cd; destruct pc; cbn in Hn; discriminate.
  - reflexivity.
  - cbn. auto.
  - cbn. auto.
Qed.
