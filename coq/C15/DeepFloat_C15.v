(* C15 deepening: the Float32 / Float16 element conversions (encode_float = `value as f32`, float16::f16::from_f64).
   (1) the rounding step is round-to-nearest, ties-to-even, for every significand and shift (this one step serves the
       normal range, the subnormal range -- where the unit in the last place is pinned at emin - M -- and the carry into
       the next binade);
   (2) every representable value is encoded exactly: encode (decode fields) = fields, for every format (M, E), normal and
       subnormal, so rounding is the identity on the target format; NaN -> canonical NaN, infinities -> infinities;
   (3) binary16, finite sweeps (2^16 and 2^15 cases, stated bounds): every bit pattern round-trips; for every pair of
       adjacent finite binary16 values the exact midpoint goes to the one with even significand, and the values one
       binary64-expressible step below / above the midpoint go to the nearer neighbour; overflow threshold 65520. *)
From Coq Require Import ZArith List Bool Lia.
From C15 Require Import DeepCopy_C15 Model_C15 Proofs_C15.
Import ListNotations.
Local Open Scope Z_scope.

(* ---- (1) the rounding step ---- *)
Lemma rshift_rne_spec m d : 0 <= m -> 0 < d ->
  let q := rshift_rne m d in
  2 * Z.abs (q * 2 ^ d - m) <= 2 ^ d /\
  (2 * Z.abs (q * 2 ^ d - m) = 2 ^ d -> Z.even q = true) /\
  (m mod 2 ^ d = 0 -> q * 2 ^ d = m).
Proof.
  intros Hm Hd. cbv zeta. unfold rshift_rne.
  assert (P : 0 < 2 ^ (d - 1)) by (apply Z.pow_pos_nonneg; lia).
  assert (E : 2 ^ d = 2 * 2 ^ (d - 1)).
  { replace d with (1 + (d - 1)) at 1 by lia. rewrite Z.pow_add_r by lia. reflexivity. }
  pose proof (Z.div_mod m (2 ^ d) ltac:(lia)) as DM.
  pose proof (Z.mod_pos_bound m (2 ^ d) ltac:(lia)) as MB.
  set (q := m / 2 ^ d) in *. set (r := m mod 2 ^ d) in *. set (h := 2 ^ (d - 1)) in *.
  clearbody q r h.
  destruct (Z.ltb_spec h r) as [L | L]; cbn [orb].
  - repeat split; intros; try lia.
  - destruct (Z.eqb_spec r h) as [-> | N]; cbn [andb].
    + destruct (Z.odd q) eqn:O.
      * repeat split; intros; try lia. rewrite Z.even_add, <- Z.negb_odd, O. reflexivity.
      * repeat split; intros; try lia. rewrite <- Z.negb_odd, O. reflexivity.
    + repeat split; intros; try lia.
Qed.

(* ---- (2) exactness on representable values ---- *)
Definition signbit_of (M E : Z) (neg : bool) : Z := if neg then 2 ^ (M + E) else 0.

Lemma log2_normal M frac : 0 < M -> 0 <= frac < 2 ^ M -> Z.log2 (frac + 2 ^ M) = M.
Proof.
  intros HM Hf. apply Z.log2_unique; [lia|]. rewrite Z.pow_succ_r by lia. lia.
Qed.

Lemma encode_normal M E neg be frac : 0 < M -> 1 < E -> 0 <= frac < 2 ^ M -> 1 <= be < 2 ^ E - 1 ->
  encode_float M E (FFin neg (frac + 2 ^ M) (be - (2 ^ (E - 1) - 1) - M)) = signbit_of M E neg + (be * 2 ^ M + frac).
Proof.
  intros HM HE Hf Hb. unfold encode_float, signbit_of, inf_bits.
  assert (P : 0 < 2 ^ M) by (apply Z.pow_pos_nonneg; lia).
  destruct (Z.eqb_spec (frac + 2 ^ M) 0); [lia|].
  cbv zeta. rewrite (log2_normal M frac HM Hf).
  set (bias := 2 ^ (E - 1) - 1).
  replace (M + (be - bias - M)) with (be - bias) by lia.
  destruct (Z.ltb_spec (be - bias) (1 - bias)); [lia|].
  replace (be - bias - M) with (be - bias - M) by lia.
  destruct (Z.leb_spec (be - bias - M) (be - bias - M)); [|lia].
  rewrite Z.sub_diag. rewrite Z.pow_0_r, Z.mul_1_r.
  replace ((be - bias + bias - 1) * 2 ^ M + (frac + 2 ^ M)) with (be * 2 ^ M + frac) by lia.
  destruct (Z.leb_spec ((2 ^ E - 1) * 2 ^ M) (be * 2 ^ M + frac)); [nia|].
  destruct neg; reflexivity.
Qed.

Lemma encode_subnormal M E neg frac : 0 < M -> 1 < E -> 0 <= frac < 2 ^ M ->
  encode_float M E (FFin neg frac (1 - (2 ^ (E - 1) - 1) - M)) = signbit_of M E neg + frac.
Proof.
  intros HM HE Hf. unfold encode_float, signbit_of, inf_bits.
  assert (P : 0 < 2 ^ M) by (apply Z.pow_pos_nonneg; lia).
  assert (PE : 2 <= 2 ^ E) by (change 2 with (2 ^ 1) at 1; apply Z.pow_le_mono_r; lia).
  destruct (Z.eqb_spec frac 0) as [-> | N]; [destruct neg; lia|].
  cbv zeta. set (bias := 2 ^ (E - 1) - 1).
  assert (LG : Z.log2 frac < M) by (apply Z.log2_lt_pow2; lia).
  destruct (Z.ltb_spec (Z.log2 frac + (1 - bias - M)) (1 - bias)); [|lia].
  destruct (Z.leb_spec (1 - bias - M) (1 - bias - M)); [|lia].
  rewrite Z.sub_diag, Z.pow_0_r, Z.mul_1_r.
  destruct (Z.leb_spec ((2 ^ E - 1) * 2 ^ M) frac); [nia|].
  destruct neg; reflexivity.
Qed.

Lemma encode_special M E : encode_float M E FNaN = nan_bits M E /\
  encode_float M E (FInf false) = inf_bits M E /\ encode_float M E (FInf true) = 2 ^ (M + E) + inf_bits M E.
Proof. repeat split; reflexivity. Qed.

(* ---- (3) binary16 sweeps ---- *)
Fixpoint all_below (n : nat) (b : Z) (f : Z -> bool) : bool :=
  match n with
  | O => f b
  | S n' => all_below n' b f && all_below n' (b + 2 ^ Z.of_nat n') f
  end.
Lemma all_below_spec n : forall b f, all_below n b f = true -> forall x, b <= x < b + 2 ^ Z.of_nat n -> f x = true.
Proof.
  induction n as [| n IH]; intros b f H x Hx.
  - cbn in *. replace x with b by lia. exact H.
  - cbn [all_below] in H. apply andb_prop in H. destruct H as [H1 H2].
    rewrite Nat2Z.inj_succ, Z.pow_succ_r in Hx by lia.
    destruct (Z_lt_le_dec x (b + 2 ^ Z.of_nat n)).
    + apply (IH b f H1). lia.
    + apply (IH _ f H2). lia.
Qed.

Definition is_nan16 (b : Z) : bool := match decode_float 10 5 b with FNaN => true | _ => false end.
(* every binary16 pattern that is not a NaN is reproduced; every NaN gives the canonical NaN *)
Definition f16_roundtrip_ok (b : Z) : bool :=
  if is_nan16 b then encode_float 10 5 (decode_float 10 5 b) =? nan_bits 10 5
  else encode_float 10 5 (decode_float 10 5 b) =? b.
Lemma f16_roundtrip_sweep : all_below 16 0 f16_roundtrip_ok = true.
Proof. vm_compute. reflexivity. Qed.

(* magnitude pattern b (0 <= b < 0x7c00, finite) and its successor b+1 (finite or +inf): value(b) = m*2^e;
   the midpoint is (2m+1)*2^(e-1); one binary64-expressible step around it: (2^40 (2m+1) -+ 1) * 2^(e-41) *)
Definition f16_mid_ok (b : Z) : bool :=
  if 31744 <=? b then true else
  match decode_float 10 5 b with
  | FFin _ m e =>
      let even_one := if Z.even b then b else b + 1 in
      (encode_float 10 5 (FFin false (2 * m + 1) (e - 1)) =? even_one) &&
      (encode_float 10 5 (FFin false (2 ^ 40 * (2 * m + 1) - 1) (e - 41)) =? b) &&
      (encode_float 10 5 (FFin false (2 ^ 40 * (2 * m + 1) + 1) (e - 41)) =? b + 1) &&
      (encode_float 10 5 (FFin true (2 * m + 1) (e - 1)) =? 32768 + even_one)
  | _ => false
  end.
Lemma f16_midpoint_sweep : all_below 15 0 f16_mid_ok = true.
Proof. vm_compute. reflexivity. Qed.

(* ---- (4) the general case: what encode_float produces for an arbitrary finite non-zero value ---- *)
(* bounds of the rounded significand: m has exactly M + d + 1 bits *)
Lemma rshift_rne_bounds m d M : 0 <= M -> 0 < d -> 2 ^ (M + d) <= m < 2 ^ (M + d + 1) ->
  2 ^ M <= rshift_rne m d <= 2 ^ (M + 1).
Proof.
  intros HM Hd Hm. unfold rshift_rne.
  assert (P : 0 < 2 ^ d) by (apply Z.pow_pos_nonneg; lia).
  assert (PM : 0 < 2 ^ M) by (apply Z.pow_pos_nonneg; lia).
  rewrite Z.pow_add_r in Hm by lia. rewrite (Z.pow_add_r 2 (M + d) 1) in Hm by lia.
  rewrite (Z.pow_add_r 2 M d) in Hm by lia. rewrite Z.pow_add_r by lia. change (2 ^ 1) with 2 in *.
  assert (Q : 2 ^ M <= m / 2 ^ d < 2 ^ M * 2).
  { split; [apply Z.div_le_lower_bound; lia | apply Z.div_lt_upper_bound; lia]. }
  destruct ((2 ^ (d - 1) <? m mod 2 ^ d) || (m mod 2 ^ d =? 2 ^ (d - 1)) && Z.odd (m / 2 ^ d)); lia.
Qed.

(* normal result range, rounding needed (the value has more than M + 1 significant bits):
   the bit pattern is sign | (ex + bias) | sig - 2^M  with sig the nearest-even rounding of m / 2^(ex - M - e)
   (rshift_rne_spec), or, when the rounding carries (sig = 2^(M+1)), sign | (ex + bias + 1) | 0; in both cases the
   encoded value is sig * 2^(ex - M); a pattern at or above the infinity pattern becomes infinity *)
Lemma encode_rounds_normal M E neg m e : 0 < M -> 1 < E -> 0 < m ->
  let bias := 2 ^ (E - 1) - 1 in
  let ex := Z.log2 m + e in
  1 - bias <= ex -> e < ex - M ->
  let sig := rshift_rne m (ex - M - e) in
  let mag := (ex + bias - 1) * 2 ^ M + sig in
  encode_float M E (FFin neg m e) = signbit_of M E neg + (if inf_bits M E <=? mag then inf_bits M E else mag) /\
  2 ^ M <= sig <= 2 ^ (M + 1) /\
  mag = (ex + bias) * 2 ^ M + (sig - 2 ^ M) /\
  (sig = 2 ^ (M + 1) -> mag = (ex + bias + 1) * 2 ^ M).
Proof.
  intros HM HE Hm bias ex Hex Hr sig mag.
  assert (PM : 0 < 2 ^ M) by (apply Z.pow_pos_nonneg; lia).
  split; [|split; [|split]].
  - unfold encode_float, signbit_of. destruct (Z.eqb_spec m 0); [lia|]. cbv zeta.
    fold bias. fold ex.
    destruct (Z.ltb_spec ex (1 - bias)); [lia|].
    destruct (Z.leb_spec (ex - M) e); [lia|].
    fold sig. fold mag. destruct neg; reflexivity.
  - unfold sig. apply rshift_rne_bounds; try lia.
    pose proof (Z.log2_spec m Hm) as [L1 L2].
    replace (M + (ex - M - e)) with (Z.log2 m) by (unfold ex; lia).
    replace (Z.log2 m + 1) with (Z.succ (Z.log2 m)) by lia. lia.
  - unfold mag. lia.
  - intros S. unfold mag. rewrite S. rewrite Z.pow_add_r by lia. change (2 ^ 1) with 2. lia.
Qed.

(* subnormal result range (ex < emin): the last place is pinned at emin - M; the pattern is the rounded significand
   itself: sign | 0 | sig, and sig = 2^M is exactly the smallest normal value sign | 1 | 0 *)
Lemma encode_rounds_subnormal M E neg m e : 0 < M -> 1 < E -> 0 < m ->
  let bias := 2 ^ (E - 1) - 1 in
  let ex := Z.log2 m + e in
  ex < 1 - bias -> e < 1 - bias - M ->
  let sig := rshift_rne m (1 - bias - M - e) in
  encode_float M E (FFin neg m e) = signbit_of M E neg + sig /\ 0 <= sig <= 2 ^ M.
Proof.
  intros HM HE Hm bias ex Hex Hr sig.
  assert (PM : 0 < 2 ^ M) by (apply Z.pow_pos_nonneg; lia).
  assert (PE : 2 <= 2 ^ E) by (change 2 with (2 ^ 1) at 1; apply Z.pow_le_mono_r; lia).
  set (d := 1 - bias - M - e) in *.
  assert (Hd : 0 < d) by (unfold d; lia).
  assert (P : 0 < 2 ^ d) by (apply Z.pow_pos_nonneg; lia).
  assert (B : 0 <= sig <= 2 ^ M).
  { unfold sig, rshift_rne.
    pose proof (Z.log2_spec m Hm) as [L1 L2].
    assert (m < 2 ^ (M + d)).
    { apply Z.lt_le_trans with (2 ^ Z.succ (Z.log2 m)); [exact L2|]. apply Z.pow_le_mono_r; [lia|]. unfold d, ex in *. lia. }
    rewrite Z.pow_add_r in H by lia.
    assert (0 <= m / 2 ^ d < 2 ^ M) by (split; [apply Z.div_pos; lia | apply Z.div_lt_upper_bound; lia]).
    destruct ((2 ^ (d - 1) <? m mod 2 ^ d) || (m mod 2 ^ d =? 2 ^ (d - 1)) && Z.odd (m / 2 ^ d)); lia. }
  split; [|exact B].
  unfold encode_float, signbit_of. destruct (Z.eqb_spec m 0); [lia|]. cbv zeta.
  fold bias. fold ex.
  destruct (Z.ltb_spec ex (1 - bias)); [|lia].
  destruct (Z.leb_spec (1 - bias - M) e); [lia|].
  fold d. fold sig. unfold inf_bits.
  destruct (Z.leb_spec ((2 ^ E - 1) * 2 ^ M) sig); [nia|].
  destruct neg; reflexivity.
Qed.
