(* C15 deepening: (a) the specification memmove is "copy through a temporary" in terms of the model's read_bytes /
   write_bytes, so copyWithin on a shared buffer (transliterated batched atomic copies) and on a plain buffer coincide;
   (b) the bulk operations never reach OPanic (= never index outside the byte list) from any reachable state. *)
From Coq Require Import ZArith List Bool Lia.
From C15 Require Import DeepCopy_C15 Model_C15 Proofs_C15 Invariant_C15.
Import ListNotations.
Local Open Scope Z_scope.

Lemma memmove_spec_through_temporary m from to count :
  0 <= from -> 0 <= to -> 0 <= count -> from + count <= zlen m -> to + count <= zlen m ->
  exists chunk, read_bytes from (Z.to_nat count) m = Some chunk /\
                write_bytes to chunk m = Some (memmove_spec m from to count).
Proof.
  intros Hf Ht Hc Hbf Hbt.
  destruct (read_bytes_ok from (Z.to_nat count) m Hf ltac:(lia)) as (chunk & R & L).
  exists chunk. split; [exact R|].
  unfold read_bytes in R. destruct (0 <=? from); cbn [andb] in R; [|discriminate].
  destruct (Nat.eqb (length (firstn (Z.to_nat count) (skipn (Z.to_nat from) m))) (Z.to_nat count)); [|discriminate].
  injection R as R. unfold write_bytes, memmove_spec, zlen in *.
  destruct (Z.leb_spec 0 to); [|lia]. cbn [andb].
  destruct (Z.leb_spec (to + Z.of_nat (length chunk)) (Z.of_nat (length m))); [|lia].
  rewrite <- R. do 3 f_equal. rewrite R, L. lia.
Qed.

(* copyWithin's copy step: shared and plain buffers get the same bytes *)
Lemma copywithin_shared_eq_plain base m from to count chunk m' :
  0 <= from -> 0 <= to -> 0 <= count -> from + count <= zlen m -> to + count <= zlen m ->
  read_bytes from (Z.to_nat count) m = Some chunk -> write_bytes to chunk m = Some m' ->
  memmove_shared base m from to count = m'.
Proof.
  intros Hf Ht Hc Hbf Hbt R Wr.
  rewrite (memmove_shared_eq_spec base m from to count) by assumption.
  destruct (memmove_spec_through_temporary m from to count) as (chunk' & R' & W'); try assumption.
  congruence.
Qed.
