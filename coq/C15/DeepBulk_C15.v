(* C15 deepening: (a) the specification memmove is "copy through a temporary" in terms of the model's read_bytes /
   write_bytes, so copyWithin on a shared buffer (transliterated batched atomic copies) and on a plain buffer coincide;
   (b) the bulk operations never reach OPanic (= never index outside the byte list) from any reachable state. *)
From Coq Require Import ZArith List Bool Lia.
From C15 Require Import DeepCopy_C15 Model_C15 Proofs_C15 Invariant_C15.
Import ListNotations.
Local Open Scope Z_scope.

Lemma memmove_spec_through_temporary m from to count :
  0 <= from -> 0 <= to -> 0 <= count -> from + count <= zlen m -> to + count <= zlen m ->
  exists chunk, read_bytes from (Z.to_nat count) m = Some chunk /\
                write_bytes to chunk m = Some (memmove_spec m from to count).
Proof.
  intros Hf Ht Hc Hbf Hbt.
  destruct (read_bytes_ok from (Z.to_nat count) m Hf ltac:(lia)) as (chunk & R & L).
  exists chunk. split; [exact R|].
  unfold read_bytes in R. destruct (0 <=? from); cbn [andb] in R; [|discriminate].
  destruct (Nat.eqb (length (firstn (Z.to_nat count) (skipn (Z.to_nat from) m))) (Z.to_nat count)); [|discriminate].
  injection R as R. unfold write_bytes, memmove_spec, zlen in *.
  destruct (Z.leb_spec 0 to); [|lia]. cbn [andb].
  rewrite L. rewrite Z2Nat.id by lia.
  destruct (Z.leb_spec (to + count) (Z.of_nat (length m))); [|lia].
  rewrite <- R. do 4 f_equal. lia.
Qed.

(* copyWithin's copy step: shared and plain buffers get the same bytes *)
Lemma copywithin_shared_eq_plain base m from to count chunk m' :
  0 <= from -> 0 <= to -> 0 <= count -> from + count <= zlen m -> to + count <= zlen m ->
  read_bytes from (Z.to_nat count) m = Some chunk -> write_bytes to chunk m = Some m' ->
  memmove_shared base m from to count = m'.
Proof.
  intros Hf Ht Hc Hbf Hbt R Wr.
  rewrite (memmove_shared_eq_spec base m from to count) by assumption.
  destruct (memmove_spec_through_temporary m from to count) as (chunk' & R' & W'); try assumption.
  congruence.
Qed.

(* ------------------------------------------------------------------------------------------ *)
(* bulk operations never reach OPanic *)

Lemma thrown_np {A} s (r : res A) k :
  (forall a, r = Ok a -> snd (k a) <> OPanic) -> snd (thrown s r k) <> OPanic.
Proof. intros H. unfold thrown. destruct r; [apply H; reflexivity | cbn; discriminate]. Qed.

Ltac np_step :=
  repeat first
    [ discriminate
    | note_mid
    | apply thrown_np; intros ? ?
    | match goal with
      | |- snd (_, _) <> OPanic => cbn [snd]
      | |- snd (match ?x with _ => _ end) <> OPanic => destruct x eqn:?
      | |- snd (if ?x then _ else _) <> OPanic => destruct x eqn:?
      end ].

Lemma set_many_some c t v ks : forall s, wf_state s -> wf_tarr t -> set_many c s t ks v <> Ok None.
Proof.
  induction ks as [| k r IH]; intros s W T; cbn [set_many]; [discriminate|].
  destruct (set_element c s t (idx_of_Z k) v) as [[s1|]|] eqn:E; cbn [bind]; try discriminate.
  - apply IH; [eapply wf_set_element; eauto | exact T].
  - exfalso. eapply wf_set_element_some; eauto.
Qed.

Lemma set_list_some c t vs : forall s k, wf_state s -> wf_tarr t -> set_list c s t k vs <> Ok None.
Proof.
  induction vs as [| v r IH]; intros s k W T; cbn [set_list]; [discriminate|].
  destruct (set_element c s t (idx_of_Z k) v) as [[s1|]|] eqn:E; cbn [bind]; try discriminate.
  - apply IH; [eapply wf_set_element; eauto | exact T].
  - exfalso. eapply wf_set_element_some; eauto.
Qed.

Lemma u64_idx x sz off : 0 <= x <= LIM -> 0 < sz <= 8 -> 0 <= off <= LIM ->
  u64 (u64 (x * sz) + off) = x * sz + off /\ u64 (x * sz) = x * sz.
Proof.
  intros Hx Hs Ho.
  assert (E : u64 (x * sz) = x * sz).
  { apply u64_small. unfold LIM in *. change (2 ^ 64) with (2 ^ 53 * 2048). change (2 ^ 53) with 9007199254740992 in *. nia. }
  split; [|exact E]. rewrite E. apply u64_small.
  unfold LIM in *. change (2 ^ 64) with (2 ^ 53 * 2048). change (2 ^ 53) with 9007199254740992 in *. nia.
Qed.

(* a validated view: its buffer is attached, the cached length is the byte list's length, the view fits *)
Lemma ta_validate_data s t bl l : wf_state s -> wf_tarr t -> ta_validate s t = Ok bl -> buf_data s (t_buf t) = Some l ->
  bl = zlen l /\ 0 <= ta_length t bl /\ t_off t + ta_length t bl * esize (t_kind t) <= zlen l /\ 0 <= t_off t <= LIM /\ zlen l <= LIM.
Proof.
  intros W T V D. unfold ta_validate in V. rewrite D in V.
  destruct (ta_oob t (zlen l)) eqn:O; [discriminate|]. injection V as <-.
  pose proof (wf_buf_data _ _ _ W D) as B. pose proof (zlen_bounds l) as B0.
  pose proof (ta_length_bound t (zlen l) T (conj B0 (lim_lt_64 _ B)) O) as [L0 L1].
  pose proof (esize_pos (t_kind t)). destruct T as [T0 _].
  repeat split; try assumption; try lia; try nia.
Qed.

Lemma ta_validate_attached s t bl : ta_validate s t = Ok bl -> exists l, buf_data s (t_buf t) = Some l.
Proof. unfold ta_validate. destruct (buf_data s (t_buf t)) as [l|]; [eauto | discriminate]. Qed.

Lemma get_buf_new_buf_fresh s d bf : get_buf (new_buf s d bf) (fresh_id s) = Some bf.
Proof. unfold get_buf, new_buf, fresh_id. cbn [bufs]. rewrite app_nth2 by lia. rewrite Nat.sub_diag. reflexivity. Qed.

Lemma get_buf_new_buf_old s d bf id x : get_buf s id = Some x -> get_buf (new_buf s d bf) id = Some x.
Proof.
  unfold get_buf, new_buf. cbn [bufs]. intros E.
  destruct (Nat.lt_ge_cases id (length (bufs s))) as [L | L].
  - rewrite app_nth1 by exact L. exact E.
  - rewrite nth_overflow in E by exact L. discriminate.
Qed.

Lemma alloc_ta_data s db k n s' t' : alloc_ta s db k n = Ok (s', t') ->
  buf_data s' (t_buf t') = Some (zeros (u64 (esize k * n))) /\
  (forall id l, buf_data s id = Some l -> buf_data s' id = Some l).
Proof.
  unfold alloc_ta. destruct (MAX_BUFFER_SIZE <? u64 (esize k * n)); [discriminate|].
  intros E. injection E as <- <-. split.
  - unfold buf_data. cbn [t_buf]. rewrite get_buf_new_buf_fresh. reflexivity.
  - intros id l. unfold buf_data. destruct (get_buf s id) as [x|] eqn:G; [|discriminate].
    rewrite (get_buf_new_buf_old _ _ _ _ _ G). auto.
Qed.

Ltac u64_clean :=
  repeat match goal with
  | H : context[u64 (u64 (?x * ?sz) + ?off)] |- _ =>
      rewrite (proj1 (u64_idx x sz off ltac:(lia) ltac:(lia) ltac:(lia))) in H
  | H : context[u64 (?x * ?sz)] |- _ =>
      rewrite (proj2 (u64_idx x sz 0 ltac:(lia) ltac:(lia) ltac:(unfold LIM; lia))) in H
  end.

Lemma kind_eqb_eq a b : kind_eqb a b = true -> a = b.
Proof. destruct a, b; cbn; intros; try discriminate; reflexivity. Qed.

Lemma ta_read_some t j data : wf_tarr t -> 0 <= j -> 0 <= t_off t <= LIM -> zlen data <= LIM ->
  t_off t + (j + 1) * esize (t_kind t) <= zlen data -> ta_read t j data <> None.
Proof.
  intros T Hj Ho Hz Hb. unfold ta_read, ta_byte_index. pose proof (esize_pos (t_kind t)) as S.
  assert (J : 0 <= j <= LIM) by nia.
  rewrite (proj1 (u64_idx j (esize (t_kind t)) (t_off t) J S Ho)).
  destruct (read_bytes_ok (j * esize (t_kind t) + t_off t) (nsize (t_kind t)) data) as (bs & E & _).
  - nia.
  - rewrite nsize_esize. lia.
  - rewrite E. discriminate.
Qed.

Lemma cast_loop_some c st k data n : forall i acc p,
  (forall j, i <= j < i + Z.of_nat n -> ta_read st j data <> None) ->
  cast_loop c st k data n i acc p <> None.
Proof.
  induction n as [| n IH]; intros i acc p H; cbn [cast_loop]; [discriminate|].
  destruct (ta_read st i data) as [bits|] eqn:R; [|exfalso; apply (H i); [lia | exact R]].
  destruct (cast_elem c (t_kind st) k bits); apply IH; intros j Hj; apply H; lia.
Qed.

Section NeverPanic.
Variable c : cfg.
Variable s : state.
Hypothesis W : wf_state s.

Lemma np_Fill v x st en m : snd (step c s (Fill v x st en m)) <> OPanic.
Proof.
  cbn [step]. np_step; facts.
  match goal with E : set_many _ ?s1 ?t _ _ = Ok None, W1 : wf_state ?s1, T : wf_tarr ?t |- _ =>
    exfalso; exact (set_many_some _ _ _ _ _ W1 T E) end.
Qed.

Lemma np_SetArr v xs off : snd (step c s (SetArr v xs off)) <> OPanic.
Proof.
  cbn [step]. np_step; facts.
  match goal with E : set_list _ s ?t _ _ = Ok None, T : wf_tarr ?t |- _ =>
    exfalso; exact (set_list_some _ _ _ _ _ W T E) end.
Qed.

Lemma np_Subarray d v st en : snd (step c s (Subarray d v st en)) <> OPanic.
Proof. cbn [step]. np_step. Qed.

Lemma np_CopyWithin v tg st en m : snd (step c s (CopyWithin v tg st en m)) <> OPanic.
Proof.
  cbn [step]. np_step; facts; facts2.
  all: match goal with
       | V : ta_validate ?s1 ?t = Ok ?bl, D : buf_data ?s1 (t_buf ?t) = Some ?l, W1 : wf_state ?s1, T : wf_tarr ?t |- _ =>
           destruct (ta_validate_data _ _ _ _ W1 T V D) as (-> & L0 & L1 & O1 & Z1)
       | V : ta_validate ?s1 ?t = Ok ?bl, D : buf_data ?s1 (t_buf ?t) = None |- _ =>
           destruct (ta_validate_attached _ _ _ V) as [? ?]; congruence
       end.
  all: pose proof (esize_pos (t_kind t)) as S.
  all: match goal with H : (_ || _) = false |- _ => apply orb_false_elim in H; destruct H as [Q1 Q2]; apply Z.leb_gt in Q1; apply Z.leb_gt in Q2 end.
  all: match goal with H : (0 <? ?cnt) = true |- _ => apply Z.ltb_lt in H; set (cn := cnt) in * end.
  all: assert (Hcn : 0 < cn <= LIM) by (unfold cn in *; destruct ((a1 <=? a3) && (a0 <=? ta_length t a)); lia).
  all: clearbody cn.
  all: u64_clean.
  - (* the write cannot fail after a successful read *)
    match goal with R : read_bytes _ ?n _ = Some ?l0, Wr : write_bytes ?to ?l0 ?l = None |- _ =>
      pose proof (read_bytes_length _ _ _ _ R) as RL;
      destruct (write_bytes_ok to l0 l) as [x Hx]; [lia | rewrite RL; lia | congruence] end.
  - (* the read cannot fail *)
    match goal with R : read_bytes ?from ?n ?l = None |- _ =>
      destruct (read_bytes_ok from n l) as (x & Hx & _); [lia | lia | congruence] end.
Qed.

Lemma np_Slice d db v st en m : snd (step c s (Slice d db v st en m)) <> OPanic.
Proof.
  cbn [step]. np_step; facts; facts2.
  all: match goal with E : alloc_ta ?s1 _ _ ?n = Ok (?s', ?t'), W1 : wf_state ?s1 |- _ =>
         let B := fresh "B" in assert (B : 0 <= n <= LIM) by lia;
         destruct (wf_alloc_ta _ _ _ _ _ _ W1 B E) as (W' & T' & _);
         destruct (alloc_ta_data _ _ _ _ _ _ E) as (ND & OLD);
         assert (W3 : wf_state (put_view s' d (Some (VTA t')))) by (apply wf_put_view; assumption)
       end.
  all: repeat match goal with H : context[buf_data (put_view ?s' ?dd ?x) ?id] |- _ => change (buf_data (put_view s' dd x) id) with (buf_data s' id) in H end.
  all: try (match goal with V : ta_validate ?s1 ?t = Ok ?bl, D : buf_data _ (t_buf ?t) = None |- _ =>
             destruct (ta_validate_attached _ _ _ V) as [? HH];
             change (buf_data (put_view s0 d (Some (VTA t0))) (t_buf t)) with (buf_data s0 (t_buf t)) in HH; congruence end).
  all: try congruence.
  all: match goal with
       | V : ta_validate ?s3 ?t = Ok ?bl, D : buf_data ?s0 (t_buf ?t) = Some ?l, T : wf_tarr ?t |- _ =>
           destruct (ta_validate_data s3 t bl l W3 T V D) as (-> & L0 & L1 & O1 & Z1)
       end.
  all: pose proof (esize_pos (t_kind t)) as S.
  all: repeat match goal with H : (_ =? 0) = false |- _ => apply Z.eqb_neq in H end.
  all: u64_clean.
  - match goal with R : read_bytes _ ?n _ = Some ?l0, Wr : write_bytes 0 ?l0 ?l1 = None |- _ =>
      pose proof (read_bytes_length _ _ _ _ R) as RL;
      destruct (write_bytes_ok 0 l0 l1) as [x Hx]; [lia | | congruence] end.
    rewrite RL. rewrite ND in *. match goal with H : Some _ = Some l1 |- _ => injection H as <- end.
    rewrite zlen_zeros by apply u64_nonneg.
    rewrite (Z.mul_comm (esize (t_kind t)) (Z.max 0 (a2 - a0))).
    rewrite (proj2 (u64_idx (Z.max 0 (a2 - a0)) (esize (t_kind t)) 0 ltac:(lia) ltac:(lia) ltac:(unfold LIM; lia))).
    nia.
  - match goal with R : read_bytes ?from ?n ?l = None |- _ =>
      destruct (read_bytes_ok from n l) as (x & Hx & _); [lia | nia | congruence] end.
Qed.

Lemma np_MkTAFrom d db k src : snd (step c s (MkTAFrom d db k src)) <> OPanic.
Proof.
  cbn [step]. np_step; facts.
  all: try (match goal with V : ta_validate s ?t = Ok ?bl, D : buf_data s (t_buf ?t) = None |- _ =>
              destruct (ta_validate_attached _ _ _ V) as [? ?]; congruence end).
  all: match goal with
       | V : ta_validate s ?t = Ok ?bl, D : buf_data s (t_buf ?t) = Some ?l, T : wf_tarr ?t |- _ =>
           destruct (ta_validate_data _ _ _ _ W T V D) as (-> & L0 & L1 & O1 & Z1)
       end.
  all: pose proof (esize_pos (t_kind t)) as S.
  - (* same element type: the clone reads length * size bytes from the view's offset *)
    match goal with K : kind_eqb k (t_kind t) = true |- _ => apply kind_eqb_eq in K; subst k end.
    match goal with R : read_bytes ?from ?n ?l = None |- _ =>
      destruct (read_bytes_ok from n l) as (x & Hx & _); [lia | | congruence] end.
    rewrite (Z.mul_comm (esize (t_kind t))).
    rewrite (proj2 (u64_idx (ta_length t (zlen l)) (esize (t_kind t)) 0 ltac:(lia) ltac:(lia) ltac:(unfold LIM; lia))).
    lia.
  - (* different element type: every element read is inside the byte list *)
    exfalso. match goal with E : cast_loop _ _ _ _ _ _ _ _ = None |- _ => revert E end.
    apply cast_loop_some. intros j Hj. apply ta_read_some; try assumption; try lia. nia.
Qed.

End NeverPanic.
