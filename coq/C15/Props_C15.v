(* C15 property theorems: statements only, each closed by `exact`, pinned by `Check`, with its
   assumptions printed.  Definitions: Model_C15.v (transliterated from the Rust), lemmas: Proofs_C15.v *)
From Coq Require Import ZArith List Bool Lia.
From C15 Require Import Model_C15 Proofs_C15 Invariant_C15.
Import ListNotations.
Local Open Scope Z_scope.

(* ---- conversions -------------------------------------------------------------------------- *)

(* the bit-twiddling f64_to_int32 (conversions.rs) is ToInt32 = truncate, mod 2^32, re-centred,
   for every double (NaN and infinities give 0) *)
Theorem f64_to_int32_spec : forall d, wf_dbl d -> f64_to_int32 d = ToIntN_spec 32 (fval_of_dbl d).
Proof. exact f64_to_int32_spec_lemma. Qed.
Check f64_to_int32_spec : forall d, wf_dbl d -> f64_to_int32 d = ToIntN_spec 32 (fval_of_dbl d).
Print Assumptions f64_to_int32_spec.

(* its shift/mask core on an arbitrary significand < 2^53 and an arbitrary (unbounded) exponent *)
Theorem f64_to_int32_core_spec : forall s m e, 0 <= m < 2 ^ 53 ->
  f64_to_int32_core s m e = ToIntN_spec 32 (FFin s m e).
Proof. exact core_spec. Qed.
Check f64_to_int32_core_spec : forall s m e, 0 <= m < 2 ^ 53 ->
  f64_to_int32_core s m e = ToIntN_spec 32 (FFin s m e).
Print Assumptions f64_to_int32_core_spec.

(* ToUint8Clamp on every finite value of any magnitude, NaN and the infinities *)
Theorem to_uint8_clamp_spec : forall x, wf_fval x -> to_uint8_clamp x = ToUint8Clamp_spec x.
Proof. exact to_uint8_clamp_spec_lemma. Qed.
Check to_uint8_clamp_spec : forall x, wf_fval x -> to_uint8_clamp x = ToUint8Clamp_spec x.
Print Assumptions to_uint8_clamp_spec.

(* conv_spec for the conversion table of fixes.d/C15-narrow-conv.patch: all seven integer element
   types, every double *)
Theorem conv_spec : forall k d, wf_dbl d -> is_int_kind k = true ->
  conv_fixed k d = conv_spec_fn k (fval_of_dbl d).
Proof. exact conv_fixed_spec_lemma. Qed.
Check conv_spec : forall k d, wf_dbl d -> is_int_kind k = true ->
  conv_fixed k d = conv_spec_fn k (fval_of_dbl d).
Print Assumptions conv_spec.

(* the table of the tree as found agrees with the specification exactly where `as i64` does not
   saturate ... *)
Theorem conv_old_spec_in_range : forall k d, wf_dbl d -> is_int_kind k = true ->
  - 2 ^ 63 <= truncate (fval_of_dbl d) < 2 ^ 63 ->
  conv_old k d = conv_spec_fn k (fval_of_dbl d).
Proof. exact conv_old_in_range_lemma. Qed.
Check conv_old_spec_in_range : forall k d, wf_dbl d -> is_int_kind k = true ->
  - 2 ^ 63 <= truncate (fval_of_dbl d) < 2 ^ 63 ->
  conv_old k d = conv_spec_fn k (fval_of_dbl d).
Print Assumptions conv_old_spec_in_range.

(* ... the narrow conversions of the old table on abstract values of unbounded magnitude *)
Theorem to_intN_old_spec_in_range : forall n x, 0 < n -> - 2 ^ 63 <= truncate x < 2 ^ 63 ->
  to_intN_old n x = ToIntN_spec n x /\ to_uintN_old n x = ToUintN_spec n x.
Proof. intros n x Hn Hr. split; [exact (to_intN_old_in_range n x Hn Hr) | exact (to_uintN_old_in_range n x Hn Hr)]. Qed.
Check to_intN_old_spec_in_range : forall n x, 0 < n -> - 2 ^ 63 <= truncate x < 2 ^ 63 ->
  to_intN_old n x = ToIntN_spec n x /\ to_uintN_old n x = ToUintN_spec n x.
Print Assumptions to_intN_old_spec_in_range.

(* ... and is refuted beyond it: 3.5e38 (bits 0x47F074F8C4D3CD7B, a multiple of 2^75) must give 0 *)
Theorem to_uint8_refuted : exists d, wf_dbl d /\ conv_old Uint8 d <> conv_spec_fn Uint8 (fval_of_dbl d).
Proof. exists D_3_5e38. split; [apply dbl_of_bits_wf; lia|]. destruct to_uint8_refuted_lemma as [-> ->]. lia. Qed.
Check to_uint8_refuted : exists d, wf_dbl d /\ conv_old Uint8 d <> conv_spec_fn Uint8 (fval_of_dbl d).
Print Assumptions to_uint8_refuted.

Theorem to_int8_refuted : exists d, wf_dbl d /\ conv_old Int8 d <> conv_spec_fn Int8 (fval_of_dbl d).
Proof. exists D_3_5e38. split; [apply dbl_of_bits_wf; lia|]. destruct to_int8_refuted_lemma as [-> ->]. lia. Qed.
Check to_int8_refuted : exists d, wf_dbl d /\ conv_old Int8 d <> conv_spec_fn Int8 (fval_of_dbl d).
Print Assumptions to_int8_refuted.

Theorem to_uint16_refuted : exists d, wf_dbl d /\ conv_old Uint16 d <> conv_spec_fn Uint16 (fval_of_dbl d).
Proof. exists D_3_5e38. split; [apply dbl_of_bits_wf; lia|]. destruct to_uint16_refuted_lemma as [-> ->]. lia. Qed.
Check to_uint16_refuted : exists d, wf_dbl d /\ conv_old Uint16 d <> conv_spec_fn Uint16 (fval_of_dbl d).
Print Assumptions to_uint16_refuted.

Theorem to_int16_refuted : exists d, wf_dbl d /\ conv_old Int16 d <> conv_spec_fn Int16 (fval_of_dbl d).
Proof. exists D_3_5e38. split; [apply dbl_of_bits_wf; lia|]. destruct to_int16_refuted_lemma as [-> ->]. lia. Qed.
Check to_int16_refuted : exists d, wf_dbl d /\ conv_old Int16 d <> conv_spec_fn Int16 (fval_of_dbl d).
Print Assumptions to_int16_refuted.

(* TypedArrayElement::cast of the tree as found (typed array constructed from a typed array):
   239 -> Int8 gives 127 (spec -17); 0.5 -> Uint8Clamped gives 1 (spec 0) *)
Theorem cast_old_refuted :
  (exists d, wf_dbl d /\ cast_old Int8 d <> conv_spec_fn Int8 (fval_of_dbl d)) /\
  (exists d, wf_dbl d /\ cast_old Uint8C d <> conv_spec_fn Uint8C (fval_of_dbl d)).
Proof.
  split.
  - exists D_239. split; [apply dbl_of_bits_wf; lia|]. destruct cast_int8_refuted_lemma as [-> ->]. lia.
  - exists D_half. split; [apply dbl_of_bits_wf; lia|]. destruct cast_clamp_refuted_lemma as [-> ->]. lia.
Qed.
Check cast_old_refuted :
  (exists d, wf_dbl d /\ cast_old Int8 d <> conv_spec_fn Int8 (fval_of_dbl d)) /\
  (exists d, wf_dbl d /\ cast_old Uint8C d <> conv_spec_fn Uint8C (fval_of_dbl d)).
Print Assumptions cast_old_refuted.

(* ---- bounds ------------------------------------------------------------------------------- *)

(* an index accepted by validate_index addresses size bytes inside the *current* buffer, whatever
   the view geometry (fixed or length-tracking) and whatever the current buffer length is (so after
   any resize history); the u64 byte-index computation does not wrap *)
Theorem in_bounds : forall t x buflen j, wf_tarr t -> 0 <= buflen < 2 ^ 64 ->
  validate_index t x buflen = Some j ->
  0 <= j < ta_length t buflen /\
  t_off t + (j + 1) * esize (t_kind t) <= buflen /\
  ta_byte_index t j = t_off t + j * esize (t_kind t).
Proof. exact in_bounds_lemma. Qed.
Check in_bounds : forall t x buflen j, wf_tarr t -> 0 <= buflen < 2 ^ 64 ->
  validate_index t x buflen = Some j ->
  0 <= j < ta_length t buflen /\
  t_off t + (j + 1) * esize (t_kind t) <= buflen /\
  ta_byte_index t j = t_off t + j * esize (t_kind t).
Print Assumptions in_bounds.

Theorem in_bounds_u64 : forall t i buflen j, wf_tarr t -> 0 <= buflen < 2 ^ 64 -> 0 <= i ->
  validate_index_u64 t i buflen = Some j ->
  j = i /\ t_off t + (j + 1) * esize (t_kind t) <= buflen.
Proof. exact in_bounds_u64_lemma. Qed.
Check in_bounds_u64 : forall t i buflen j, wf_tarr t -> 0 <= buflen < 2 ^ 64 -> 0 <= i ->
  validate_index_u64 t i buflen = Some j ->
  j = i /\ t_off t + (j + 1) * esize (t_kind t) <= buflen.
Print Assumptions in_bounds_u64.

(* every geometry the TypedArray(buffer, offset, length) constructor (also used by subarray) can
   produce is well formed *)
Theorem constructed_views_wf : forall s k b off len t,
  (forall d, buf_data s b = Some d -> zlen d < 2 ^ 64) ->
  init_from_buffer s k b off len = Ok t -> wf_tarr t.
Proof. exact init_from_buffer_wf. Qed.
Check constructed_views_wf : forall s k b off len t,
  (forall d, buf_data s b = Some d -> zlen d < 2 ^ 64) ->
  init_from_buffer s k b off len = Ok t -> wf_tarr t.
Print Assumptions constructed_views_wf.

(* DataView: an accepted request index addresses size bytes inside the current buffer and inside
   the view *)
Theorem dv_in_bounds : forall v gi size buflen bi, wf_dview v -> 0 <= buflen < 2 ^ 64 ->
  0 <= gi < 2 ^ 53 -> 0 < size <= 8 ->
  dv_check v gi size buflen = Ok bi ->
  bi = v_off v + gi /\ v_off v <= bi /\ bi + size <= buflen /\
  match v_blen v with Some l => bi + size <= v_off v + l | None => True end.
Proof. exact dv_in_bounds_lemma. Qed.
Check dv_in_bounds : forall v gi size buflen bi, wf_dview v -> 0 <= buflen < 2 ^ 64 ->
  0 <= gi < 2 ^ 53 -> 0 < size <= 8 ->
  dv_check v gi size buflen = Ok bi ->
  bi = v_off v + gi /\ v_off v <= bi /\ bi + size <= buflen /\
  match v_blen v with Some l => bi + size <= v_off v + l | None => True end.
Print Assumptions dv_in_bounds.

(* the element read of typed_array_get_element never leaves the byte list (no `expect` panic) *)
Theorem get_never_out_of_buffer : forall t x data, wf_tarr t -> zlen data < 2 ^ 64 ->
  ta_get_elem t x data <> None.
Proof. exact ta_get_no_panic. Qed.
Check get_never_out_of_buffer : forall t x data, wf_tarr t -> zlen data < 2 ^ 64 ->
  ta_get_elem t x data <> None.
Print Assumptions get_never_out_of_buffer.

(* ---- histories ----------------------------------------------------------------------------- *)

(* the invariant: after ANY sequence of operations (buffer creation / resize / transfer / slice / detach, view
   creation, element and DataView access, fill / copyWithin / set / subarray / slice / with, with resizes and
   detaches hidden in argument conversions), under either conversion table, every view has well-formed geometry
   and every byte list is at most 2^53 long *)
Theorem history_invariant : forall c ops, wf_state (final_state c init_state ops).
Proof. intros c ops. apply history_wf. exact wf_init. Qed.
Check history_invariant : forall c ops, wf_state (final_state c init_state ops).
Print Assumptions history_invariant.

Theorem step_preserves_invariant : forall c s o, wf_state s -> wf_state (fst (step c s o)).
Proof. exact step_wf. Qed.
Check step_preserves_invariant : forall c s o, wf_state s -> wf_state (fst (step c s o)).
Print Assumptions step_preserves_invariant.

(* so, in the state reached by any history, an index accepted for a typed array addresses bytes inside the current
   byte list of its buffer, the read succeeds and the write succeeds without changing the length *)
Theorem history_access_in_bounds : forall c ops v t d x j,
  get_view (final_state c init_state ops) v = Some (VTA t) ->
  buf_data (final_state c init_state ops) (t_buf t) = Some d ->
  validate_index t x (zlen d) = Some j ->
  0 <= j < ta_length t (zlen d) /\
  t_off t + (j + 1) * esize (t_kind t) <= zlen d /\
  ta_get_elem t x d <> None /\
  forall bits, exists d', ta_set_elem t x bits d = Some d' /\ length d' = length d.
Proof. intros c ops v t d x j. apply reachable_access_in_bounds, history_invariant. Qed.
Check history_access_in_bounds : forall c ops v t d x j,
  get_view (final_state c init_state ops) v = Some (VTA t) ->
  buf_data (final_state c init_state ops) (t_buf t) = Some d ->
  validate_index t x (zlen d) = Some j ->
  0 <= j < ta_length t (zlen d) /\
  t_off t + (j + 1) * esize (t_kind t) <= zlen d /\
  ta_get_elem t x d <> None /\
  forall bits, exists d', ta_set_elem t x bits d = Some d' /\ length d' = length d.
Print Assumptions history_access_in_bounds.

Theorem history_dv_access_in_bounds : forall c ops v dv d gi size bi,
  get_view (final_state c init_state ops) v = Some (VDV dv) ->
  buf_data (final_state c init_state ops) (v_buf dv) = Some d ->
  0 <= gi <= MAX_SAFE -> 0 < size <= 8 ->
  dv_check dv gi size (zlen d) = Ok bi ->
  bi = v_off dv + gi /\ v_off dv <= bi /\ bi + size <= zlen d.
Proof. intros c ops v dv d gi size bi. apply reachable_dv_access_in_bounds, history_invariant. Qed.
Check history_dv_access_in_bounds : forall c ops v dv d gi size bi,
  get_view (final_state c init_state ops) v = Some (VDV dv) ->
  buf_data (final_state c init_state ops) (v_buf dv) = Some d ->
  0 <= gi <= MAX_SAFE -> 0 < size <= 8 ->
  dv_check dv gi size (zlen d) = Ok bi ->
  bi = v_off dv + gi /\ v_off dv <= bi /\ bi + size <= zlen d.
Print Assumptions history_dv_access_in_bounds.

(* element get / set after any history (the set possibly resizing or detaching the buffer from inside the value's
   valueOf) never reaches a state in which the Rust code would index outside the byte list *)
Theorem history_element_access_never_panics : forall c ops v i x m,
  snd (step c (final_state c init_state ops) (Get v i)) <> OPanic /\
  snd (step c (final_state c init_state ops) (SetE v i x m)) <> OPanic.
Proof. intros. split; [apply get_never_panics | apply set_never_panics]; apply history_invariant. Qed.
Check history_element_access_never_panics : forall c ops v i x m,
  snd (step c (final_state c init_state ops) (Get v i)) <> OPanic /\
  snd (step c (final_state c init_state ops) (SetE v i x m)) <> OPanic.
Print Assumptions history_element_access_never_panics.

(* ---- byte model ---------------------------------------------------------------------------- *)

(* set then get at a valid index returns the stored element bits, keeps the length and changes no
   byte outside [offset + j*size, offset + (j+1)*size) *)
Theorem get_set_roundtrip_bits : forall t x bits data, wf_tarr t -> zlen data < 2 ^ 64 ->
  elem_range (t_kind t) bits ->
  forall j, validate_index t x (zlen data) = Some j ->
  exists data',
    ta_set_elem t x bits data = Some data' /\
    ta_get_elem t x data' = Some (Some bits) /\
    length data' = length data /\
    forall p, (Z.of_nat p < t_off t + j * esize (t_kind t) \/
               t_off t + (j + 1) * esize (t_kind t) <= Z.of_nat p) -> nth p data' 0 = nth p data 0.
Proof. exact get_set_roundtrip_lemma. Qed.
Check get_set_roundtrip_bits : forall t x bits data, wf_tarr t -> zlen data < 2 ^ 64 ->
  elem_range (t_kind t) bits ->
  forall j, validate_index t x (zlen data) = Some j ->
  exists data',
    ta_set_elem t x bits data = Some data' /\
    ta_get_elem t x data' = Some (Some bits) /\
    length data' = length data /\
    forall p, (Z.of_nat p < t_off t + j * esize (t_kind t) \/
               t_off t + (j + 1) * esize (t_kind t) <= Z.of_nat p) -> nth p data' 0 = nth p data 0.
Print Assumptions get_set_roundtrip_bits.

(* integer kinds: the bits stored for a Number (patched table) are in range and read back as the
   specified conversion of the Number; with get_set_roundtrip_bits: get after set returns ToT_spec *)
Theorem get_set_roundtrip : forall c k b, narrow_fixed c = true -> is_int_kind k = true -> 0 <= b ->
  elem_range k (num_to_elem c k b) /\
  elem_to_js k (num_to_elem c k b) = JNum (f64_of_Z (conv_spec_fn k (fval_of_bits b))).
Proof.
  intros c k b C K Hb. destruct (num_to_elem_spec c k b C K Hb) as [R E].
  split; [exact R|]. rewrite elem_to_js_int by exact K. rewrite E. reflexivity.
Qed.
Check get_set_roundtrip : forall c k b, narrow_fixed c = true -> is_int_kind k = true -> 0 <= b ->
  elem_range k (num_to_elem c k b) /\
  elem_to_js k (num_to_elem c k b) = JNum (f64_of_Z (conv_spec_fn k (fval_of_bits b))).
Print Assumptions get_set_roundtrip.

Theorem get_set_roundtrip_bigint : forall c k z bits, is_big k = true -> js_to_elem c k (JBig z) = Ok bits ->
  elem_range k bits /\
  elem_to_js k bits = JBig (match k with BigInt64 => ToBigInt64_spec z | _ => ToBigUint64_spec z end).
Proof. exact big_to_elem_spec. Qed.
Check get_set_roundtrip_bigint : forall c k z bits, is_big k = true -> js_to_elem c k (JBig z) = Ok bits ->
  elem_range k bits /\
  elem_to_js k bits = JBig (match k with BigInt64 => ToBigInt64_spec z | _ => ToBigUint64_spec z end).
Print Assumptions get_set_roundtrip_bigint.

(* an index that is not valid (non-integral, -0, negative, >= length, view out of bounds after a
   shrink) reads undefined and writes nothing *)
Theorem oob_is_undefined_or_noop : forall t x bits data, validate_index t x (zlen data) = None ->
  ta_get_elem t x data = Some None /\ ta_set_elem t x bits data = Some data.
Proof. exact oob_lemma. Qed.
Check oob_is_undefined_or_noop : forall t x bits data, validate_index t x (zlen data) = None ->
  ta_get_elem t x data = Some None /\ ta_set_elem t x bits data = Some data.
Print Assumptions oob_is_undefined_or_noop.

(* a detached buffer: every element read is undefined, every element write leaves the state alone *)
Theorem detached_is_undefined_or_noop : forall c s t x v, buf_data s (t_buf t) = None ->
  get_element s t x = Some JUndef /\
  (forall bits, js_to_elem c (t_kind t) v = Ok bits -> set_element c s t x v = Ok (Some s)).
Proof.
  intros c s t x v D. unfold get_element, set_element. rewrite D. split; [reflexivity|].
  intros bits E. rewrite E. reflexivity.
Qed.
Check detached_is_undefined_or_noop : forall c s t x v, buf_data s (t_buf t) = None ->
  get_element s t x = Some JUndef /\
  (forall bits, js_to_elem c (t_kind t) v = Ok bits -> set_element c s t x v = Ok (Some s)).
Print Assumptions detached_is_undefined_or_noop.

(* ---- endianness ---------------------------------------------------------------------------- *)

Theorem endianness_involution : forall n v, 0 <= v < 256 ^ Z.of_nat n ->
  bswap n (bswap n v) = v /\ bytes_le n (bswap n v) = rev (bytes_le n v).
Proof. intros n v H. split; [exact (bswap_involutive_lemma n v H) | exact (bswap_bytes n v)]. Qed.
Check endianness_involution : forall n v, 0 <= v < 256 ^ Z.of_nat n ->
  bswap n (bswap n v) = v /\ bytes_le n (bswap n v) = rev (bytes_le n v).
Print Assumptions endianness_involution.

(* DataView set then get under the same endianness returns the value, touching only its bytes *)
Theorem dv_get_set_roundtrip : forall k le bi bits data data', 0 <= bits < 256 ^ esize k ->
  dv_write k le bi bits data = Some data' ->
  dv_read k le bi data' = Some bits /\ length data' = length data /\
  forall p, (p < Z.to_nat bi \/ Z.to_nat bi + nsize k <= p)%nat -> nth p data' 0 = nth p data 0.
Proof. exact dv_roundtrip_lemma. Qed.
Check dv_get_set_roundtrip : forall k le bi bits data data', 0 <= bits < 256 ^ esize k ->
  dv_write k le bi bits data = Some data' ->
  dv_read k le bi data' = Some bits /\ length data' = length data /\
  forall p, (p < Z.to_nat bi \/ Z.to_nat bi + nsize k <= p)%nat -> nth p data' 0 = nth p data 0.
Print Assumptions dv_get_set_roundtrip.

(* hypotheses are satisfiable *)
Example wf_example : wf_tarr (TArr 0 Int16 2 None None) /\ wf_dbl D_3_5e38 /\
  validate_index (TArr 0 Int16 2 None None) (FFin false 1 1) 8 = Some 2.
Proof.
  split; [|split].
  - unfold wf_tarr. cbn. lia.
  - apply dbl_of_bits_wf. unfold D_3_5e38. lia.
  - vm_compute. reflexivity.
Qed.
