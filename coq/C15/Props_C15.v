(* C15 property theorems: statements only, each closed by `exact`, pinned by `Check`, with its
   assumptions printed.  Definitions: Model_C15.v (transliterated from the Rust), lemmas: Proofs_C15.v *)
From Coq Require Import ZArith List Bool Lia.
From C15 Require Import DeepCopy_C15 Model_C15 Proofs_C15 Invariant_C15 DeepBulk_C15 DeepFloat_C15.
Import ListNotations.
Local Open Scope Z_scope.

(* ---- conversions -------------------------------------------------------------------------- *)

(* the bit-twiddling f64_to_int32 (conversions.rs) is ToInt32 = truncate, mod 2^32, re-centred,
   for every double (NaN and infinities give 0) *)
Theorem f64_to_int32_spec : forall d, wf_dbl d -> f64_to_int32 d = ToIntN_spec 32 (fval_of_dbl d).
Proof. exact f64_to_int32_spec_lemma. Qed.
Check f64_to_int32_spec : forall d, wf_dbl d -> f64_to_int32 d = ToIntN_spec 32 (fval_of_dbl d).
Print Assumptions f64_to_int32_spec.

(* its shift/mask core on an arbitrary significand < 2^53 and an arbitrary (unbounded) exponent *)
Theorem f64_to_int32_core_spec : forall s m e, 0 <= m < 2 ^ 53 ->
  f64_to_int32_core s m e = ToIntN_spec 32 (FFin s m e).
Proof. exact core_spec. Qed.
Check f64_to_int32_core_spec : forall s m e, 0 <= m < 2 ^ 53 ->
  f64_to_int32_core s m e = ToIntN_spec 32 (FFin s m e).
Print Assumptions f64_to_int32_core_spec.

(* ToUint8Clamp on every finite value of any magnitude, NaN and the infinities *)
Theorem to_uint8_clamp_spec : forall x, wf_fval x -> to_uint8_clamp x = ToUint8Clamp_spec x.
Proof. exact to_uint8_clamp_spec_lemma. Qed.
Check to_uint8_clamp_spec : forall x, wf_fval x -> to_uint8_clamp x = ToUint8Clamp_spec x.
Print Assumptions to_uint8_clamp_spec.

(* conv_spec for the conversion table of fixes.d/C15-narrow-conv.patch: all seven integer element
   types, every double *)
Theorem conv_spec : forall k d, wf_dbl d -> is_int_kind k = true ->
  conv_fixed k d = conv_spec_fn k (fval_of_dbl d).
Proof. exact conv_fixed_spec_lemma. Qed.
Check conv_spec : forall k d, wf_dbl d -> is_int_kind k = true ->
  conv_fixed k d = conv_spec_fn k (fval_of_dbl d).
Print Assumptions conv_spec.

(* the table of the tree as found agrees with the specification exactly where `as i64` does not
   saturate ... *)
Theorem conv_old_spec_in_range : forall k d, wf_dbl d -> is_int_kind k = true ->
  - 2 ^ 63 <= truncate (fval_of_dbl d) < 2 ^ 63 ->
  conv_old k d = conv_spec_fn k (fval_of_dbl d).
Proof. exact conv_old_in_range_lemma. Qed.
Check conv_old_spec_in_range : forall k d, wf_dbl d -> is_int_kind k = true ->
  - 2 ^ 63 <= truncate (fval_of_dbl d) < 2 ^ 63 ->
  conv_old k d = conv_spec_fn k (fval_of_dbl d).
Print Assumptions conv_old_spec_in_range.

(* ... the narrow conversions of the old table on abstract values of unbounded magnitude *)
Theorem to_intN_old_spec_in_range : forall n x, 0 < n -> - 2 ^ 63 <= truncate x < 2 ^ 63 ->
  to_intN_old n x = ToIntN_spec n x /\ to_uintN_old n x = ToUintN_spec n x.
Proof. intros n x Hn Hr. split; [exact (to_intN_old_in_range n x Hn Hr) | exact (to_uintN_old_in_range n x Hn Hr)]. Qed.
Check to_intN_old_spec_in_range : forall n x, 0 < n -> - 2 ^ 63 <= truncate x < 2 ^ 63 ->
  to_intN_old n x = ToIntN_spec n x /\ to_uintN_old n x = ToUintN_spec n x.
Print Assumptions to_intN_old_spec_in_range.

(* ... and is refuted beyond it: 3.5e38 (bits 0x47F074F8C4D3CD7B, a multiple of 2^75) must give 0 *)
Theorem to_uint8_refuted : exists d, wf_dbl d /\ conv_old Uint8 d <> conv_spec_fn Uint8 (fval_of_dbl d).
Proof. exists D_3_5e38. split; [apply dbl_of_bits_wf; lia|]. destruct to_uint8_refuted_lemma as [-> ->]. lia. Qed.
Check to_uint8_refuted : exists d, wf_dbl d /\ conv_old Uint8 d <> conv_spec_fn Uint8 (fval_of_dbl d).
Print Assumptions to_uint8_refuted.

Theorem to_int8_refuted : exists d, wf_dbl d /\ conv_old Int8 d <> conv_spec_fn Int8 (fval_of_dbl d).
Proof. exists D_3_5e38. split; [apply dbl_of_bits_wf; lia|]. destruct to_int8_refuted_lemma as [-> ->]. lia. Qed.
Check to_int8_refuted : exists d, wf_dbl d /\ conv_old Int8 d <> conv_spec_fn Int8 (fval_of_dbl d).
Print Assumptions to_int8_refuted.

Theorem to_uint16_refuted : exists d, wf_dbl d /\ conv_old Uint16 d <> conv_spec_fn Uint16 (fval_of_dbl d).
Proof. exists D_3_5e38. split; [apply dbl_of_bits_wf; lia|]. destruct to_uint16_refuted_lemma as [-> ->]. lia. Qed.
Check to_uint16_refuted : exists d, wf_dbl d /\ conv_old Uint16 d <> conv_spec_fn Uint16 (fval_of_dbl d).
Print Assumptions to_uint16_refuted.

Theorem to_int16_refuted : exists d, wf_dbl d /\ conv_old Int16 d <> conv_spec_fn Int16 (fval_of_dbl d).
Proof. exists D_3_5e38. split; [apply dbl_of_bits_wf; lia|]. destruct to_int16_refuted_lemma as [-> ->]. lia. Qed.
Check to_int16_refuted : exists d, wf_dbl d /\ conv_old Int16 d <> conv_spec_fn Int16 (fval_of_dbl d).
Print Assumptions to_int16_refuted.

(* TypedArrayElement::cast of the tree as found (typed array constructed from a typed array):
   239 -> Int8 gives 127 (spec -17); 0.5 -> Uint8Clamped gives 1 (spec 0) *)
Theorem cast_old_refuted :
  (exists d, wf_dbl d /\ cast_old Int8 d <> conv_spec_fn Int8 (fval_of_dbl d)) /\
  (exists d, wf_dbl d /\ cast_old Uint8C d <> conv_spec_fn Uint8C (fval_of_dbl d)).
Proof.
  split.
  - exists D_239. split; [apply dbl_of_bits_wf; lia|]. destruct cast_int8_refuted_lemma as [-> ->]. lia.
  - exists D_half. split; [apply dbl_of_bits_wf; lia|]. destruct cast_clamp_refuted_lemma as [-> ->]. lia.
Qed.
Check cast_old_refuted :
  (exists d, wf_dbl d /\ cast_old Int8 d <> conv_spec_fn Int8 (fval_of_dbl d)) /\
  (exists d, wf_dbl d /\ cast_old Uint8C d <> conv_spec_fn Uint8C (fval_of_dbl d)).
Print Assumptions cast_old_refuted.

(* ---- bounds ------------------------------------------------------------------------------- *)

(* an index accepted by validate_index addresses size bytes inside the *current* buffer, whatever
   the view geometry (fixed or length-tracking) and whatever the current buffer length is (so after
   any resize history); the u64 byte-index computation does not wrap *)
Theorem in_bounds : forall t x buflen j, wf_tarr t -> 0 <= buflen < 2 ^ 64 ->
  validate_index t x buflen = Some j ->
  0 <= j < ta_length t buflen /\
  t_off t + (j + 1) * esize (t_kind t) <= buflen /\
  ta_byte_index t j = t_off t + j * esize (t_kind t).
Proof. exact in_bounds_lemma. Qed.
Check in_bounds : forall t x buflen j, wf_tarr t -> 0 <= buflen < 2 ^ 64 ->
  validate_index t x buflen = Some j ->
  0 <= j < ta_length t buflen /\
  t_off t + (j + 1) * esize (t_kind t) <= buflen /\
  ta_byte_index t j = t_off t + j * esize (t_kind t).
Print Assumptions in_bounds.

Theorem in_bounds_u64 : forall t i buflen j, wf_tarr t -> 0 <= buflen < 2 ^ 64 -> 0 <= i ->
  validate_index_u64 t i buflen = Some j ->
  j = i /\ t_off t + (j + 1) * esize (t_kind t) <= buflen.
Proof. exact in_bounds_u64_lemma. Qed.
Check in_bounds_u64 : forall t i buflen j, wf_tarr t -> 0 <= buflen < 2 ^ 64 -> 0 <= i ->
  validate_index_u64 t i buflen = Some j ->
  j = i /\ t_off t + (j + 1) * esize (t_kind t) <= buflen.
Print Assumptions in_bounds_u64.

(* every geometry the TypedArray(buffer, offset, length) constructor (also used by subarray) can
   produce is well formed *)
Theorem constructed_views_wf : forall s k b off len t,
  (forall d, buf_data s b = Some d -> zlen d < 2 ^ 64) ->
  init_from_buffer s k b off len = Ok t -> wf_tarr t.
Proof. exact init_from_buffer_wf. Qed.
Check constructed_views_wf : forall s k b off len t,
  (forall d, buf_data s b = Some d -> zlen d < 2 ^ 64) ->
  init_from_buffer s k b off len = Ok t -> wf_tarr t.
Print Assumptions constructed_views_wf.

(* DataView: an accepted request index addresses size bytes inside the current buffer and inside
   the view *)
Theorem dv_in_bounds : forall v gi size buflen bi, wf_dview v -> 0 <= buflen < 2 ^ 64 ->
  0 <= gi < 2 ^ 53 -> 0 < size <= 8 ->
  dv_check v gi size buflen = Ok bi ->
  bi = v_off v + gi /\ v_off v <= bi /\ bi + size <= buflen /\
  match v_blen v with Some l => bi + size <= v_off v + l | None => True end.
Proof. exact dv_in_bounds_lemma. Qed.
Check dv_in_bounds : forall v gi size buflen bi, wf_dview v -> 0 <= buflen < 2 ^ 64 ->
  0 <= gi < 2 ^ 53 -> 0 < size <= 8 ->
  dv_check v gi size buflen = Ok bi ->
  bi = v_off v + gi /\ v_off v <= bi /\ bi + size <= buflen /\
  match v_blen v with Some l => bi + size <= v_off v + l | None => True end.
Print Assumptions dv_in_bounds.

(* the element read of typed_array_get_element never leaves the byte list (no `expect` panic) *)
Theorem get_never_out_of_buffer : forall t x data, wf_tarr t -> zlen data < 2 ^ 64 ->
  ta_get_elem t x data <> None.
Proof. exact ta_get_no_panic. Qed.
Check get_never_out_of_buffer : forall t x data, wf_tarr t -> zlen data < 2 ^ 64 ->
  ta_get_elem t x data <> None.
Print Assumptions get_never_out_of_buffer.

(* ---- histories ----------------------------------------------------------------------------- *)

(* the invariant: after ANY sequence of operations (buffer creation / resize / transfer / slice / detach, view
   creation, element and DataView access, fill / copyWithin / set / subarray / slice / with, with resizes and
   detaches hidden in argument conversions), under either conversion table, every view has well-formed geometry
   and every byte list is at most 2^53 long *)
Theorem history_invariant : forall c ops, wf_state (final_state c init_state ops).
Proof. intros c ops. apply history_wf. exact wf_init. Qed.
Check history_invariant : forall c ops, wf_state (final_state c init_state ops).
Print Assumptions history_invariant.

Theorem step_preserves_invariant : forall c s o, wf_state s -> wf_state (fst (step c s o)).
Proof. exact step_wf. Qed.
Check step_preserves_invariant : forall c s o, wf_state s -> wf_state (fst (step c s o)).
Print Assumptions step_preserves_invariant.

(* so, in the state reached by any history, an index accepted for a typed array addresses bytes inside the current
   byte list of its buffer, the read succeeds and the write succeeds without changing the length *)
Theorem history_access_in_bounds : forall c ops v t d x j,
  get_view (final_state c init_state ops) v = Some (VTA t) ->
  buf_data (final_state c init_state ops) (t_buf t) = Some d ->
  validate_index t x (zlen d) = Some j ->
  0 <= j < ta_length t (zlen d) /\
  t_off t + (j + 1) * esize (t_kind t) <= zlen d /\
  ta_get_elem t x d <> None /\
  forall bits, exists d', ta_set_elem t x bits d = Some d' /\ length d' = length d.
Proof. intros c ops v t d x j. apply reachable_access_in_bounds, history_invariant. Qed.
Check history_access_in_bounds : forall c ops v t d x j,
  get_view (final_state c init_state ops) v = Some (VTA t) ->
  buf_data (final_state c init_state ops) (t_buf t) = Some d ->
  validate_index t x (zlen d) = Some j ->
  0 <= j < ta_length t (zlen d) /\
  t_off t + (j + 1) * esize (t_kind t) <= zlen d /\
  ta_get_elem t x d <> None /\
  forall bits, exists d', ta_set_elem t x bits d = Some d' /\ length d' = length d.
Print Assumptions history_access_in_bounds.

Theorem history_dv_access_in_bounds : forall c ops v dv d gi size bi,
  get_view (final_state c init_state ops) v = Some (VDV dv) ->
  buf_data (final_state c init_state ops) (v_buf dv) = Some d ->
  0 <= gi <= MAX_SAFE -> 0 < size <= 8 ->
  dv_check dv gi size (zlen d) = Ok bi ->
  bi = v_off dv + gi /\ v_off dv <= bi /\ bi + size <= zlen d.
Proof. intros c ops v dv d gi size bi. apply reachable_dv_access_in_bounds, history_invariant. Qed.
Check history_dv_access_in_bounds : forall c ops v dv d gi size bi,
  get_view (final_state c init_state ops) v = Some (VDV dv) ->
  buf_data (final_state c init_state ops) (v_buf dv) = Some d ->
  0 <= gi <= MAX_SAFE -> 0 < size <= 8 ->
  dv_check dv gi size (zlen d) = Ok bi ->
  bi = v_off dv + gi /\ v_off dv <= bi /\ bi + size <= zlen d.
Print Assumptions history_dv_access_in_bounds.

(* element get / set after any history (the set possibly resizing or detaching the buffer from inside the value's
   valueOf) never reaches a state in which the Rust code would index outside the byte list *)
Theorem history_element_access_never_panics : forall c ops v i x m,
  snd (step c (final_state c init_state ops) (Get v i)) <> OPanic /\
  snd (step c (final_state c init_state ops) (SetE v i x m)) <> OPanic.
Proof. intros. split; [apply get_never_panics | apply set_never_panics]; apply history_invariant. Qed.
Check history_element_access_never_panics : forall c ops v i x m,
  snd (step c (final_state c init_state ops) (Get v i)) <> OPanic /\
  snd (step c (final_state c init_state ops) (SetE v i x m)) <> OPanic.
Print Assumptions history_element_access_never_panics.

(* ---- deepening round: shared-memory copies, bulk operations ---------------------------------- *)

(* boa's memmove on a SharedArrayBuffer (utils.rs: direction by src < dest, then head bytes / aligned AtomicU64 words /
   tail bytes, forward or backward, byte loop when the two addresses differ mod 8) is the specification memmove
   -- copy as if through a temporary -- for EVERY base address (alignment class), from, to (overlap either way) and
   count in bounds.  Iterating the aligned words of the backward copy forward falsifies it (DeepCopy_C15,
   Example forward_when_src_below_dest_is_wrong) *)
Theorem memmove_model_eq_spec : forall base buf from to count,
  0 <= from -> 0 <= to -> 0 <= count -> from + count <= zlen buf -> to + count <= zlen buf ->
  memmove_shared base buf from to count = memmove_spec buf from to count.
Proof. exact memmove_shared_eq_spec. Qed.
Check memmove_model_eq_spec : forall base buf from to count,
  0 <= from -> 0 <= to -> 0 <= count -> from + count <= zlen buf -> to + count <= zlen buf ->
  memmove_shared base buf from to count = memmove_spec buf from to count.
Print Assumptions memmove_model_eq_spec.

(* ... and the specification memmove is read_bytes followed by write_bytes: copyWithin stores the same bytes into a
   shared buffer (batched atomic copies) and into a plain one (ptr::copy) *)
Theorem copywithin_shared_eq_plain : forall base m from to count chunk m',
  0 <= from -> 0 <= to -> 0 <= count -> from + count <= zlen m -> to + count <= zlen m ->
  read_bytes from (Z.to_nat count) m = Some chunk -> write_bytes to chunk m = Some m' ->
  memmove_shared base m from to count = m'.
Proof. exact DeepBulk_C15.copywithin_shared_eq_plain. Qed.
Check copywithin_shared_eq_plain : forall base m from to count chunk m',
  0 <= from -> 0 <= to -> 0 <= count -> from + count <= zlen m -> to + count <= zlen m ->
  read_bytes from (Z.to_nat count) m = Some chunk -> write_bytes to chunk m = Some m' ->
  memmove_shared base m from to count = m'.
Print Assumptions copywithin_shared_eq_plain.

(* copyWithin, slice, fill, set-from-array-like, subarray and the typed-array-from-typed-array constructor, executed in the
   state reached by ANY history -- with any
   resize or detach of the buffer from inside the `end` argument's valueOf -- never index outside a byte list.
   For slice this is the re-validation after argument coercion: the count is re-clamped against the CURRENT length.
   Partial: set-from-typed-array and with are not covered (they need the element-type agreement of source and target
   and a byte-length field consistent with the array length, which wf_tarr does not record) *)
Theorem bulk_ops_never_panic_partial : forall c ops v d db x tg st en m xs off k src,
  let s := final_state c init_state ops in
  snd (step c s (CopyWithin v tg st en m)) <> OPanic /\
  snd (step c s (Slice d db v st en m)) <> OPanic /\
  snd (step c s (Fill v x st en m)) <> OPanic /\
  snd (step c s (SetArr v xs off)) <> OPanic /\
  snd (step c s (Subarray d v st en)) <> OPanic /\
  snd (step c s (MkTAFrom d db k src)) <> OPanic.
Proof.
  intros c ops v d db x tg st en m xs off k src s.
  pose proof (history_invariant c ops) as W. fold s in W.
  repeat split.
  - apply np_CopyWithin; exact W.
  - apply np_Slice; exact W.
  - apply np_Fill; exact W.
  - apply np_SetArr; exact W.
  - apply np_Subarray; exact W.
  - apply np_MkTAFrom; exact W.
Qed.
Check bulk_ops_never_panic_partial : forall c ops v d db x tg st en m xs off k src,
  let s := final_state c init_state ops in
  snd (step c s (CopyWithin v tg st en m)) <> OPanic /\
  snd (step c s (Slice d db v st en m)) <> OPanic /\
  snd (step c s (Fill v x st en m)) <> OPanic /\
  snd (step c s (SetArr v xs off)) <> OPanic /\
  snd (step c s (Subarray d v st en)) <> OPanic /\
  snd (step c s (MkTAFrom d db k src)) <> OPanic.
Print Assumptions bulk_ops_never_panic_partial.

(* ---- deepening round: Float32 / Float16 element conversions ------------------------------- *)

(* the rounding step of encode_float (used in the normal range, in the subnormal range where the last place is pinned,
   and for the carry into the next binade) is round-to-nearest, ties-to-even, and exact when nothing is shifted out:
   for every significand m and shift d *)
Theorem float_rounding_step_nearest_even : forall m d, 0 <= m -> 0 < d ->
  let q := rshift_rne m d in
  2 * Z.abs (q * 2 ^ d - m) <= 2 ^ d /\
  (2 * Z.abs (q * 2 ^ d - m) = 2 ^ d -> Z.even q = true) /\
  (m mod 2 ^ d = 0 -> q * 2 ^ d = m).
Proof. exact rshift_rne_spec. Qed.
Check float_rounding_step_nearest_even : forall m d, 0 <= m -> 0 < d ->
  let q := rshift_rne m d in
  2 * Z.abs (q * 2 ^ d - m) <= 2 ^ d /\
  (2 * Z.abs (q * 2 ^ d - m) = 2 ^ d -> Z.even q = true) /\
  (m mod 2 ^ d = 0 -> q * 2 ^ d = m).
Print Assumptions float_rounding_step_nearest_even.

(* every value representable in the target format (any significand width M, exponent width E: binary32 = 23, 8;
   binary16 = 10, 5), normal or subnormal, either sign, is encoded to exactly its own bit fields; NaN gives the canonical
   NaN and the infinities the infinities *)
Theorem float_encode_exact_on_representable : forall M E neg be frac,
  0 < M -> 1 < E -> 0 <= frac < 2 ^ M ->
  (1 <= be < 2 ^ E - 1 ->
   encode_float M E (FFin neg (frac + 2 ^ M) (be - (2 ^ (E - 1) - 1) - M)) = signbit_of M E neg + (be * 2 ^ M + frac)) /\
  encode_float M E (FFin neg frac (1 - (2 ^ (E - 1) - 1) - M)) = signbit_of M E neg + frac /\
  encode_float M E FNaN = nan_bits M E /\
  encode_float M E (FInf false) = inf_bits M E /\ encode_float M E (FInf true) = 2 ^ (M + E) + inf_bits M E.
Proof.
  intros M E neg be frac HM HE Hf. split; [intros Hb; apply encode_normal; assumption|].
  split; [apply encode_subnormal; assumption | apply encode_special].
Qed.
Check float_encode_exact_on_representable : forall M E neg be frac,
  0 < M -> 1 < E -> 0 <= frac < 2 ^ M ->
  (1 <= be < 2 ^ E - 1 ->
   encode_float M E (FFin neg (frac + 2 ^ M) (be - (2 ^ (E - 1) - 1) - M)) = signbit_of M E neg + (be * 2 ^ M + frac)) /\
  encode_float M E (FFin neg frac (1 - (2 ^ (E - 1) - 1) - M)) = signbit_of M E neg + frac /\
  encode_float M E FNaN = nan_bits M E /\
  encode_float M E (FInf false) = inf_bits M E /\ encode_float M E (FInf true) = 2 ^ (M + E) + inf_bits M E.
Print Assumptions float_encode_exact_on_representable.

(* binary16, all 2^16 bit patterns (finite sweep): decode then encode is the identity, NaNs give the canonical NaN *)
Theorem float16_roundtrip_all_patterns : forall b, 0 <= b < 2 ^ 16 -> f16_roundtrip_ok b = true.
Proof. intros b Hb. apply (all_below_spec 16 0 _ f16_roundtrip_sweep). exact Hb. Qed.
Check float16_roundtrip_all_patterns : forall b, 0 <= b < 2 ^ 16 -> f16_roundtrip_ok b = true.
Print Assumptions float16_roundtrip_all_patterns.

(* binary16, all 2^15 magnitudes (finite sweep): the exact midpoint between a finite value and its successor (the
   successor of 65504 being infinity, i.e. the overflow threshold 65520) goes to the one with the even pattern, either
   sign; the doubles 2^-41 ulp-parts below / above the midpoint go to the lower / upper neighbour *)
Theorem float16_midpoints_ties_to_even : forall b, 0 <= b < 2 ^ 15 -> f16_mid_ok b = true.
Proof. intros b Hb. apply (all_below_spec 15 0 _ f16_midpoint_sweep). exact Hb. Qed.
Check float16_midpoints_ties_to_even : forall b, 0 <= b < 2 ^ 15 -> f16_mid_ok b = true.
Print Assumptions float16_midpoints_ties_to_even.

(* the general case, any format (M, E), any finite non-zero value m * 2^e of any magnitude.  Normal result range with bits
   to round off: the pattern is sign | ex + bias | sig - 2^M where sig = rshift_rne m (ex - M - e) is the nearest-even
   rounding (float_rounding_step_nearest_even) of the significand to M + 1 bits; a carry (sig = 2^(M+1)) lands on
   sign | ex + bias + 1 | 0; both encode the value sig * 2^(ex - M); a pattern at or above the infinity pattern gives
   infinity (overflow is decided after rounding) *)
Theorem float_encode_rounds_normal : forall M E neg m e, 0 < M -> 1 < E -> 0 < m ->
  let bias := 2 ^ (E - 1) - 1 in
  let ex := Z.log2 m + e in
  1 - bias <= ex -> e < ex - M ->
  let sig := rshift_rne m (ex - M - e) in
  let mag := (ex + bias - 1) * 2 ^ M + sig in
  encode_float M E (FFin neg m e) = signbit_of M E neg + (if inf_bits M E <=? mag then inf_bits M E else mag) /\
  2 ^ M <= sig <= 2 ^ (M + 1) /\
  mag = (ex + bias) * 2 ^ M + (sig - 2 ^ M) /\
  (sig = 2 ^ (M + 1) -> mag = (ex + bias + 1) * 2 ^ M).
Proof. exact encode_rounds_normal. Qed.
Check float_encode_rounds_normal : forall M E neg m e, 0 < M -> 1 < E -> 0 < m ->
  let bias := 2 ^ (E - 1) - 1 in
  let ex := Z.log2 m + e in
  1 - bias <= ex -> e < ex - M ->
  let sig := rshift_rne m (ex - M - e) in
  let mag := (ex + bias - 1) * 2 ^ M + sig in
  encode_float M E (FFin neg m e) = signbit_of M E neg + (if inf_bits M E <=? mag then inf_bits M E else mag) /\
  2 ^ M <= sig <= 2 ^ (M + 1) /\
  mag = (ex + bias) * 2 ^ M + (sig - 2 ^ M) /\
  (sig = 2 ^ (M + 1) -> mag = (ex + bias + 1) * 2 ^ M).
Print Assumptions float_encode_rounds_normal.

(* subnormal result range: the last place is pinned at emin - M, the pattern is sign | 0 | sig with sig the nearest-even
   rounding at that place; sig = 2^M is the smallest normal value sign | 1 | 0; values below half the smallest subnormal
   round to (signed) zero *)
Theorem float_encode_rounds_subnormal : forall M E neg m e, 0 < M -> 1 < E -> 0 < m ->
  let bias := 2 ^ (E - 1) - 1 in
  let ex := Z.log2 m + e in
  ex < 1 - bias -> e < 1 - bias - M ->
  let sig := rshift_rne m (1 - bias - M - e) in
  encode_float M E (FFin neg m e) = signbit_of M E neg + sig /\ 0 <= sig <= 2 ^ M.
Proof. exact encode_rounds_subnormal. Qed.
Check float_encode_rounds_subnormal : forall M E neg m e, 0 < M -> 1 < E -> 0 < m ->
  let bias := 2 ^ (E - 1) - 1 in
  let ex := Z.log2 m + e in
  ex < 1 - bias -> e < 1 - bias - M ->
  let sig := rshift_rne m (1 - bias - M - e) in
  encode_float M E (FFin neg m e) = signbit_of M E neg + sig /\ 0 <= sig <= 2 ^ M.
Print Assumptions float_encode_rounds_subnormal.

(* ---- byte model ---------------------------------------------------------------------------- *)

(* set then get at a valid index returns the stored element bits, keeps the length and changes no
   byte outside [offset + j*size, offset + (j+1)*size) *)
Theorem get_set_roundtrip_bits : forall t x bits data, wf_tarr t -> zlen data < 2 ^ 64 ->
  elem_range (t_kind t) bits ->
  forall j, validate_index t x (zlen data) = Some j ->
  exists data',
    ta_set_elem t x bits data = Some data' /\
    ta_get_elem t x data' = Some (Some bits) /\
    length data' = length data /\
    forall p, (Z.of_nat p < t_off t + j * esize (t_kind t) \/
               t_off t + (j + 1) * esize (t_kind t) <= Z.of_nat p) -> nth p data' 0 = nth p data 0.
Proof. exact get_set_roundtrip_lemma. Qed.
Check get_set_roundtrip_bits : forall t x bits data, wf_tarr t -> zlen data < 2 ^ 64 ->
  elem_range (t_kind t) bits ->
  forall j, validate_index t x (zlen data) = Some j ->
  exists data',
    ta_set_elem t x bits data = Some data' /\
    ta_get_elem t x data' = Some (Some bits) /\
    length data' = length data /\
    forall p, (Z.of_nat p < t_off t + j * esize (t_kind t) \/
               t_off t + (j + 1) * esize (t_kind t) <= Z.of_nat p) -> nth p data' 0 = nth p data 0.
Print Assumptions get_set_roundtrip_bits.

(* integer kinds: the bits stored for a Number (patched table) are in range and read back as the
   specified conversion of the Number; with get_set_roundtrip_bits: get after set returns ToT_spec *)
Theorem get_set_roundtrip : forall c k b, narrow_fixed c = true -> is_int_kind k = true -> 0 <= b ->
  elem_range k (num_to_elem c k b) /\
  elem_to_js k (num_to_elem c k b) = JNum (f64_of_Z (conv_spec_fn k (fval_of_bits b))).
Proof.
  intros c k b C K Hb. destruct (num_to_elem_spec c k b C K Hb) as [R E].
  split; [exact R|]. rewrite elem_to_js_int by exact K. rewrite E. reflexivity.
Qed.
Check get_set_roundtrip : forall c k b, narrow_fixed c = true -> is_int_kind k = true -> 0 <= b ->
  elem_range k (num_to_elem c k b) /\
  elem_to_js k (num_to_elem c k b) = JNum (f64_of_Z (conv_spec_fn k (fval_of_bits b))).
Print Assumptions get_set_roundtrip.

Theorem get_set_roundtrip_bigint : forall c k z bits, is_big k = true -> js_to_elem c k (JBig z) = Ok bits ->
  elem_range k bits /\
  elem_to_js k bits = JBig (match k with BigInt64 => ToBigInt64_spec z | _ => ToBigUint64_spec z end).
Proof. exact big_to_elem_spec. Qed.
Check get_set_roundtrip_bigint : forall c k z bits, is_big k = true -> js_to_elem c k (JBig z) = Ok bits ->
  elem_range k bits /\
  elem_to_js k bits = JBig (match k with BigInt64 => ToBigInt64_spec z | _ => ToBigUint64_spec z end).
Print Assumptions get_set_roundtrip_bigint.

(* an index that is not valid (non-integral, -0, negative, >= length, view out of bounds after a
   shrink) reads undefined and writes nothing *)
Theorem oob_is_undefined_or_noop : forall t x bits data, validate_index t x (zlen data) = None ->
  ta_get_elem t x data = Some None /\ ta_set_elem t x bits data = Some data.
Proof. exact oob_lemma. Qed.
Check oob_is_undefined_or_noop : forall t x bits data, validate_index t x (zlen data) = None ->
  ta_get_elem t x data = Some None /\ ta_set_elem t x bits data = Some data.
Print Assumptions oob_is_undefined_or_noop.

(* a detached buffer: every element read is undefined, every element write leaves the state alone *)
Theorem detached_is_undefined_or_noop : forall c s t x v, buf_data s (t_buf t) = None ->
  get_element s t x = Some JUndef /\
  (forall bits, js_to_elem c (t_kind t) v = Ok bits -> set_element c s t x v = Ok (Some s)).
Proof.
  intros c s t x v D. unfold get_element, set_element. rewrite D. split; [reflexivity|].
  intros bits E. rewrite E. reflexivity.
Qed.
Check detached_is_undefined_or_noop : forall c s t x v, buf_data s (t_buf t) = None ->
  get_element s t x = Some JUndef /\
  (forall bits, js_to_elem c (t_kind t) v = Ok bits -> set_element c s t x v = Ok (Some s)).
Print Assumptions detached_is_undefined_or_noop.

(* ---- endianness ---------------------------------------------------------------------------- *)

Theorem endianness_involution : forall n v, 0 <= v < 256 ^ Z.of_nat n ->
  bswap n (bswap n v) = v /\ bytes_le n (bswap n v) = rev (bytes_le n v).
Proof. intros n v H. split; [exact (bswap_involutive_lemma n v H) | exact (bswap_bytes n v)]. Qed.
Check endianness_involution : forall n v, 0 <= v < 256 ^ Z.of_nat n ->
  bswap n (bswap n v) = v /\ bytes_le n (bswap n v) = rev (bytes_le n v).
Print Assumptions endianness_involution.

(* DataView set then get under the same endianness returns the value, touching only its bytes *)
Theorem dv_get_set_roundtrip : forall k le bi bits data data', 0 <= bits < 256 ^ esize k ->
  dv_write k le bi bits data = Some data' ->
  dv_read k le bi data' = Some bits /\ length data' = length data /\
  forall p, (p < Z.to_nat bi \/ Z.to_nat bi + nsize k <= p)%nat -> nth p data' 0 = nth p data 0.
Proof. exact dv_roundtrip_lemma. Qed.
Check dv_get_set_roundtrip : forall k le bi bits data data', 0 <= bits < 256 ^ esize k ->
  dv_write k le bi bits data = Some data' ->
  dv_read k le bi data' = Some bits /\ length data' = length data /\
  forall p, (p < Z.to_nat bi \/ Z.to_nat bi + nsize k <= p)%nat -> nth p data' 0 = nth p data 0.
Print Assumptions dv_get_set_roundtrip.

(* hypotheses are satisfiable *)
Example wf_example : wf_tarr (TArr 0 Int16 2 None None) /\ wf_dbl D_3_5e38 /\
  validate_index (TArr 0 Int16 2 None None) (FFin false 1 1) 8 = Some 2.
Proof.
  split; [|split].
  - unfold wf_tarr. cbn. lia.
  - apply dbl_of_bits_wf. unfold D_3_5e38. lia.
  - vm_compute. reflexivity.
Qed.
