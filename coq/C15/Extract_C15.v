(* Extraction of the executable model for the correspondence check.  ExtrOcamlBasic only.
   The output directory ocaml/C15/_build/ (git-ignored) must exist: checks/c15.py and ocaml/C15/build.sh create it. *)
From Coq Require Import ZArith List.
From Coq Require Extraction.
From Coq Require Import ExtrOcamlBasic.
From C15 Require Import Model_C15.
Extraction Language OCaml.
Set Extraction Optimize.
Extraction "../ocaml/C15/_build/c15_model.ml" step init_state observe f64_is_nan Z.add Z.mul Z.opp Z.of_nat
  conv_old conv_fixed cast_old conv_spec_fn dbl_of_bits fval_of_dbl.
