(* C15 model: typed arrays, array buffers and DataViews as plain byte lists.
   Executable definitions only (no proofs) -- transliterated from
     core/engine/src/builtins/typed_array/{object.rs,builtin.rs,mod.rs,element/mod.rs}
     core/engine/src/builtins/array_buffer/{mod.rs,shared.rs,utils.rs}
     core/engine/src/builtins/dataview/mod.rs
     core/engine/src/value/{mod.rs,integer.rs}   (to_int8 ... to_big_uint64, to_index, IntegerOrInfinity)
     core/engine/src/builtins/number/conversions.rs (f64_to_int32)
     core/engine/src/builtins/array/mod.rs (get_relative_start / get_relative_end)
   Rust semantics are explicit: u64 arithmetic wraps (mod 2^64), `as i64` from f64 saturates,
   `%` is the truncated remainder (Z.rem), `as u8/i8/u16/i16/i32` between integers wraps. *)
From Coq Require Import ZArith List Bool.
From C15 Require Import DeepCopy_C15.
Import ListNotations.
Local Open Scope Z_scope.

(* ------------------------------------------------------------------------------------------ *)
(* Numbers.  A finite value is (-1)^neg * m * 2^e with m >= 0 (any magnitude).                  *)

Inductive fval := FNaN | FInf (neg : bool) | FFin (neg : bool) (m e : Z).

Definition sgn (neg : bool) : Z := if neg then -1 else 1.
(* floor(|x|) *)
Definition trunc_mag (m e : Z) : Z := if 0 <=? e then m * 2 ^ e else m / 2 ^ (- e).
(* the integer whose sign is the sign of x and whose magnitude is floor(|x|); 0 for NaN, +-Inf *)
Definition truncate (x : fval) : Z :=
  match x with FFin s m e => sgn s * trunc_mag m e | _ => 0 end.
Definition is_zero (x : fval) : bool := match x with FFin _ m _ => m =? 0 | _ => false end.
Definition is_integral (m e : Z) : bool := (0 <=? e) || (m mod 2 ^ (- e) =? 0).
(* exact comparison of the real value of FFin s m e with the integer n *)
Definition fin_cmp_int (s : bool) (m e n : Z) : comparison :=
  if 0 <=? e then (sgn s * m * 2 ^ e) ?= n else (sgn s * m) ?= (n * 2 ^ (- e)).

(* ECMA-262 7.1.6 - 7.1.11: modular conversions of a Number *)
Definition recenter (n z : Z) : Z := if z >=? 2 ^ (n - 1) then z - 2 ^ n else z.
Definition ToUintN_spec (n : Z) (x : fval) : Z := (truncate x) mod 2 ^ n.
Definition ToIntN_spec (n : Z) (x : fval) : Z := recenter n ((truncate x) mod 2 ^ n).
(* 7.1.12 ToUint8Clamp: clamp to [0,255], round half to even *)
Definition ToUint8Clamp_spec (x : fval) : Z :=
  match x with
  | FNaN => 0
  | FInf neg => if neg then 0 else 255
  | FFin true _ _ => 0
  | FFin false m e =>
      let t2 := trunc_mag (2 * m) e in                 (* floor(2x) *)
      if 510 <=? t2 then 255 else
      let half := if 0 <=? e then false
                  else ((2 * m) mod 2 ^ (- e) =? 0) && Z.odd ((2 * m) / 2 ^ (- e)) in
      if half then (let f := t2 / 2 in if Z.even f then f else f + 1) else (t2 + 1) / 2
  end.
(* 7.1.15 / 7.1.16 *)
Definition ToBigInt64_spec (z : Z) : Z := recenter 64 (z mod 2 ^ 64).
Definition ToBigUint64_spec (z : Z) : Z := z mod 2 ^ 64.

(* Rust integer casts *)
Definition wrap_u (n z : Z) : Z := z mod 2 ^ n.
Definition wrap_i (n z : Z) : Z := recenter n (z mod 2 ^ n).
Definition sat (lo hi z : Z) : Z := Z.max lo (Z.min hi z).
Definition sat_i64 (z : Z) : Z := sat (- 2 ^ 63) (2 ^ 63 - 1) z.
Definition u64 (z : Z) : Z := z mod 2 ^ 64.

(* --- value/mod.rs on this tree: `number.abs().floor().copysign(number) as i64`, `% 2^n`, wrapping cast --- *)
Definition int_of_number_old (x : fval) : Z := sat_i64 (truncate x).
Definition to_intN_old (n : Z) (x : fval) : Z :=
  match x with
  | FNaN | FInf _ => 0
  | FFin _ _ _ =>
      if is_zero x then 0 else
      let r := Z.rem (int_of_number_old x) (2 ^ n) in
      if r >=? 2 ^ (n - 1) then wrap_i n (r - 2 ^ n) else wrap_i n r
  end.
Definition to_uintN_old (n : Z) (x : fval) : Z :=
  match x with
  | FNaN | FInf _ => 0
  | FFin _ _ _ => if is_zero x then 0 else wrap_u n (Z.rem (int_of_number_old x) (2 ^ n))
  end.

(* to_uint8_clamp, transliterated *)
Definition to_uint8_clamp (x : fval) : Z :=
  match x with
  | FNaN => 0
  | FInf neg => if neg then 0 else 255
  | FFin s m e =>
      match fin_cmp_int s m e 0 with Lt | Eq => 0 | Gt =>          (* number <= 0.0 *)
      match fin_cmp_int s m e 255 with Gt | Eq => 255 | Lt =>      (* number >= 255.0 *)
        let f := trunc_mag m e in                                  (* number.floor() *)
        match fin_cmp_int s (2 * m) e (2 * f + 1) with
        | Gt => f + 1                                              (* f + 0.5 < number *)
        | Lt => f                                                  (* number < f + 0.5 *)
        | Eq => if Z.odd f then f + 1 else f
        end end end
  end.

(* --- doubles as bit fields --- *)
Record dbl := Dbl { d_neg : bool; d_be : Z; d_frac : Z }.
Definition wf_dbl (d : dbl) : Prop := 0 <= d_be d < 2048 /\ 0 <= d_frac d < 2 ^ 52.
Definition dbl_of_bits (b : Z) : dbl :=
  Dbl (Z.testbit b 63) (Z.land (Z.shiftr b 52) 2047) (Z.land b (2 ^ 52 - 1)).
Definition fval_of_dbl (d : dbl) : fval :=
  if d_be d =? 2047 then (if d_frac d =? 0 then FInf (d_neg d) else FNaN)
  else if d_be d =? 0 then FFin (d_neg d) (d_frac d) (-1074)
  else FFin (d_neg d) (d_frac d + 2 ^ 52) (d_be d - 1075).

(* --- number/conversions.rs f64_to_int32 --- *)
Definition f64_exponent (d : dbl) : Z := if d_be d =? 0 then -1074 else d_be d - 1075.
Definition f64_significand (d : dbl) : Z := if d_be d =? 0 then d_frac d else d_frac d + 2 ^ 52.
Definition f64_to_int32_core (neg : bool) (m e : Z) : Z :=
  if e <? 0 then
    if e <=? -53 then 0 else wrap_i 32 (sgn neg * Z.shiftr m (- e))
  else
    if 31 <? e then 0 else wrap_i 32 (sgn neg * Z.land (u64 (Z.shiftl m e)) 4294967295).
(* the fast path: finite, inside [i32::MIN, i32::MAX], and `f64::from(number as i32) == number` *)
Definition fast_i32 (x : fval) : option Z :=
  match x with
  | FFin s m e =>
      match fin_cmp_int s m e 2147483647, fin_cmp_int s m e (-2147483648) with
      | Gt, _ | _, Lt => None
      | _, _ => let i := sgn s * trunc_mag m e in
                match fin_cmp_int s m e i with Eq => Some i | _ => None end
      end
  | _ => None
  end.
Definition f64_to_int32 (d : dbl) : Z :=
  match fast_i32 (fval_of_dbl d) with
  | Some i => i
  | None => f64_to_int32_core (d_neg d) (f64_significand d) (f64_exponent d)
  end.
Definition f64_to_uint32 (d : dbl) : Z := wrap_u 32 (f64_to_int32 d).

(* --- typed_array/mod.rs to_element_f64 on this tree: `value as iN` (saturating, NaN -> 0) --- *)
Definition cast_int_old (lo hi : Z) (x : fval) : Z :=
  match x with
  | FNaN => 0
  | FInf neg => if neg then lo else hi
  | FFin _ _ _ => sat lo hi (truncate x)
  end.
(* `value.clamp(0.0, 255.0).round() as u8`: round half away from zero *)
Definition cast_clamp_old (x : fval) : Z :=
  match x with
  | FNaN => 0
  | FInf neg => if neg then 0 else 255
  | FFin s m e =>
      match fin_cmp_int s m e 0 with Lt | Eq => 0 | Gt =>
      match fin_cmp_int s m e 255 with Gt | Eq => 255 | Lt => (trunc_mag (2 * m) e + 1) / 2 end end
  end.

(* ------------------------------------------------------------------------------------------ *)
(* Element kinds *)

Inductive kind := Int8 | Uint8 | Uint8C | Int16 | Uint16 | Int32 | Uint32 | BigInt64 | BigUint64
                | Float16 | Float32 | Float64.
Definition esize (k : kind) : Z :=
  match k with
  | Int8 | Uint8 | Uint8C => 1
  | Int16 | Uint16 | Float16 => 2
  | Int32 | Uint32 | Float32 => 4
  | BigInt64 | BigUint64 | Float64 => 8
  end.
Definition is_big (k : kind) : bool := match k with BigInt64 | BigUint64 => true | _ => false end.
Definition kind_eqb (a b : kind) : bool :=
  match a, b with
  | Int8, Int8 | Uint8, Uint8 | Uint8C, Uint8C | Int16, Int16 | Uint16, Uint16 | Int32, Int32
  | Uint32, Uint32 | BigInt64, BigInt64 | BigUint64, BigUint64 | Float16, Float16
  | Float32, Float32 | Float64, Float64 => true
  | _, _ => false
  end.

(* which conversion code /repo has: the tree as found (false) or with fixes.d/C15-narrow-conv.patch (true) *)
Record cfg := Cfg { narrow_fixed : bool; cast_fixed : bool;
                    (* SharedArrayBuffer.prototype.slice compares the *addresses* of the two data blocks (shared.rs, step 18);
                       every zero-sized block has the same dangling address, so slicing an empty shared buffer throws
                       (false = tree as found, true = fixes.d/C15-sab-empty-slice.patch: identity of the blocks) *)
                    sab_slice_fixed : bool }.

(* the signed/unsigned element value produced by JsValue::to_int8 ... to_u32 / to_uint8_clamp *)
Definition conv_old (k : kind) (d : dbl) : Z :=
  let x := fval_of_dbl d in
  match k with
  | Int8 => to_intN_old 8 x
  | Uint8 => to_uintN_old 8 x
  | Uint8C => to_uint8_clamp x
  | Int16 => to_intN_old 16 x
  | Uint16 => to_uintN_old 16 x
  | Int32 => f64_to_int32 d
  | Uint32 => f64_to_uint32 d
  | _ => 0
  end.
(* after the patch: everything narrow goes through f64_to_int32 and a wrapping integer cast *)
Definition conv_fixed (k : kind) (d : dbl) : Z :=
  match k with
  | Int8 => wrap_i 8 (f64_to_int32 d)
  | Uint8 => wrap_u 8 (f64_to_int32 d)
  | Uint8C => to_uint8_clamp (fval_of_dbl d)
  | Int16 => wrap_i 16 (f64_to_int32 d)
  | Uint16 => wrap_u 16 (f64_to_int32 d)
  | Int32 => f64_to_int32 d
  | Uint32 => f64_to_uint32 d
  | _ => 0
  end.
Definition conv (c : cfg) (k : kind) (d : dbl) : Z :=
  if narrow_fixed c then conv_fixed k d else conv_old k d.
(* TypedArrayElement::cast for Number kinds (constructor from another typed array) *)
Definition cast_old (k : kind) (d : dbl) : Z :=
  let x := fval_of_dbl d in
  match k with
  | Int8 => cast_int_old (-128) 127 x
  | Uint8 => cast_int_old 0 255 x
  | Uint8C => cast_clamp_old x
  | Int16 => cast_int_old (-32768) 32767 x
  | Uint16 => cast_int_old 0 65535 x
  | Int32 => cast_int_old (-2147483648) 2147483647 x
  | Uint32 => cast_int_old 0 4294967295 x
  | _ => 0
  end.
Definition cast (c : cfg) (k : kind) (d : dbl) : Z :=
  if cast_fixed c then conv_fixed k d else cast_old k d.
(* the specification of the same table *)
Definition conv_spec_fn (k : kind) (x : fval) : Z :=
  match k with
  | Int8 => ToIntN_spec 8 x
  | Uint8 => ToUintN_spec 8 x
  | Uint8C => ToUint8Clamp_spec x
  | Int16 => ToIntN_spec 16 x
  | Uint16 => ToUintN_spec 16 x
  | Int32 => ToIntN_spec 32 x
  | Uint32 => ToUintN_spec 32 x
  | _ => 0
  end.
Definition is_int_kind (k : kind) : bool :=
  match k with Int8 | Uint8 | Uint8C | Int16 | Uint16 | Int32 | Uint32 => true | _ => false end.

(* ------------------------------------------------------------------------------------------ *)
(* IEEE encodings (binary16/32/64): decode exactly, encode with round-to-nearest-even.
   Used for Float16/Float32/Float64 elements and to turn integers into Number bit patterns.
   No theorem is stated about rounding: it is tied to the code by correspondence only. *)

Definition decode_float (M E bits : Z) : fval :=
  let frac := bits mod 2 ^ M in
  let be := (bits / 2 ^ M) mod 2 ^ E in
  let neg := Z.odd (bits / 2 ^ (M + E)) in
  let bias := 2 ^ (E - 1) - 1 in
  if be =? 2 ^ E - 1 then (if frac =? 0 then FInf neg else FNaN)
  else if be =? 0 then FFin neg frac (1 - bias - M)
  else FFin neg (frac + 2 ^ M) (be - bias - M).
Definition nan_bits (M E : Z) : Z := (2 ^ E - 1) * 2 ^ M + 2 ^ (M - 1).
Definition inf_bits (M E : Z) : Z := (2 ^ E - 1) * 2 ^ M.
Definition rshift_rne (m d : Z) : Z :=            (* m / 2^d rounded to nearest, ties to even; d > 0 *)
  let q := m / 2 ^ d in
  let r := m mod 2 ^ d in
  let h := 2 ^ (d - 1) in
  if (h <? r) || ((r =? h) && Z.odd q) then q + 1 else q.
Definition encode_float (M E : Z) (x : fval) : Z :=
  let signbit neg := if neg : bool then 2 ^ (M + E) else 0 in
  match x with
  | FNaN => nan_bits M E
  | FInf neg => signbit neg + inf_bits M E
  | FFin neg m e =>
      if m =? 0 then signbit neg else
      let bias := 2 ^ (E - 1) - 1 in
      let emin := 1 - bias in
      let ex := Z.log2 m + e in                       (* 2^ex <= value < 2^(ex+1) *)
      let q := (if ex <? emin then emin else ex) - M in   (* exponent of one unit in the last place *)
      let sig := if q <=? e then m * 2 ^ (e - q) else rshift_rne m (q - e) in
      let mag := if ex <? emin then sig else (ex + bias - 1) * 2 ^ M + sig in
      signbit neg + (if inf_bits M E <=? mag then inf_bits M E else mag)
  end.
Definition f64_of_fval := encode_float 52 11.
Definition f64_of_Z (z : Z) : Z := f64_of_fval (FFin (z <? 0) (Z.abs z) 0).
Definition CANON_NAN : Z := nan_bits 52 11.       (* 0x7FF8_0000_0000_0000 *)
Definition f64_is_nan (b : Z) : bool :=
  let d := dbl_of_bits b in (d_be d =? 2047) && negb (d_frac d =? 0).
(* JsValue::from(f64) in the NaN-boxed representation keeps every double except NaNs, which become
   the canonical NaN *)
Definition canon_num (b : Z) : Z := if f64_is_nan b then CANON_NAN else b.

(* ------------------------------------------------------------------------------------------ *)
(* JS values crossing the API *)

Inductive jsval := JNum (bits : Z) | JBig (z : Z) | JUndef.
Inductive err := TypeError | RangeError.
Inductive res (A : Type) := Ok (a : A) | Err (e : err).
Arguments Ok {A} a.
Arguments Err {A} e.
Definition bind {A B} (r : res A) (f : A -> res B) : res B :=
  match r with Ok a => f a | Err e => Err e end.
Notation "'do' x <- r ; k" := (bind r (fun x => k)) (at level 200, x pattern, r at level 100, k at level 200).

Definition to_number (v : jsval) : res Z :=        (* bits of the Number; a JsValue never carries a NaN payload *)
  match v with JNum b => Ok (canon_num b) | JUndef => Ok CANON_NAN | JBig _ => Err TypeError end.
Definition to_bigint (v : jsval) : res Z :=
  match v with JBig z => Ok z | _ => Err TypeError end.

(* IntegerOrInfinity::from(f64): `as i64` saturates *)
Inductive ioi := PInf | NInf | Int (i : Z).
Definition ioi_of (b : Z) : ioi :=
  match fval_of_dbl (dbl_of_bits b) with
  | FNaN => Int 0
  | FInf neg => if neg then NInf else PInf
  | FFin s m e as x => if m =? 0 then Int 0 else Int (sat_i64 (truncate x))
  end.
Definition to_ioi (v : jsval) : res ioi := do b <- to_number v; Ok (ioi_of b).
Definition MAX_SAFE : Z := 2 ^ 53 - 1.
(* JsValue::to_index *)
Definition to_index (v : jsval) : res Z :=
  match v with
  | JUndef => Ok 0
  | _ => do i <- to_ioi v;
         match i with
         | Int z => let c := sat 0 MAX_SAFE z in if z =? c then Ok c else Err RangeError
         | _ => Err RangeError
         end
  end.
(* Array::get_relative_start / get_relative_end *)
Definition rel_of_ioi (i : ioi) (len : Z) : Z :=
  match i with
  | NInf => 0
  | Int z => if z <? 0 then (if 0 <=? len + z then len + z else 0) else Z.min z len
  | PInf => len
  end.
Definition relative_start (v : jsval) (len : Z) : res Z := do i <- to_ioi v; Ok (rel_of_ioi i len).
Definition relative_end (v : jsval) (len : Z) : res Z :=
  match v with JUndef => Ok len | _ => do i <- to_ioi v; Ok (rel_of_ioi i len) end.

(* ------------------------------------------------------------------------------------------ *)
(* Bytes *)

Fixpoint bytes_le (n : nat) (v : Z) : list Z :=
  match n with O => [] | S n' => (v mod 256) :: bytes_le n' (v / 256) end.
Fixpoint of_bytes_le (bs : list Z) : Z :=
  match bs with [] => 0 | b :: r => b + 256 * of_bytes_le r end.
(* byte swap of an n-byte value (u16/u32/u64::to_be on a little-endian host) *)
Definition bswap (n : nat) (v : Z) : Z := of_bytes_le (rev (bytes_le n v)).

Definition read_bytes (off : Z) (n : nat) (data : list Z) : option (list Z) :=
  let r := firstn n (skipn (Z.to_nat off) data) in
  if (0 <=? off) && (Nat.eqb (length r) n) then Some r else None.
Definition write_bytes (off : Z) (bs : list Z) (data : list Z) : option (list Z) :=
  if (0 <=? off) && (off + Z.of_nat (length bs) <=? Z.of_nat (length data))
  then Some (firstn (Z.to_nat off) data ++ bs ++ skipn (Z.to_nat off + length bs) data)
  else None.
Definition nsize (k : kind) : nat := Z.to_nat (esize k).
Definition zlen {A} (l : list A) : Z := Z.of_nat (length l).

(* raw element bits -> JS value (GetValueFromBuffer + From<TypedArrayElement> for JsValue) *)
Definition elem_to_js (k : kind) (bits : Z) : jsval :=
  match k with
  | Int8 => JNum (f64_of_Z (recenter 8 bits))
  | Int16 => JNum (f64_of_Z (recenter 16 bits))
  | Int32 => JNum (f64_of_Z (recenter 32 bits))
  | Uint8 | Uint8C | Uint16 | Uint32 => JNum (f64_of_Z bits)
  | BigInt64 => JBig (recenter 64 bits)
  | BigUint64 => JBig bits
  | Float16 => JNum (f64_of_fval (decode_float 10 5 bits))
  | Float32 => JNum (f64_of_fval (decode_float 23 8 bits))
  | Float64 => JNum (canon_num bits)
  end.
(* Number bits -> raw element bits, through `conv` for the integer kinds *)
Definition num_to_elem (c : cfg) (k : kind) (b : Z) : Z :=
  match k with
  | Float64 => b
  | Float32 => encode_float 23 8 (fval_of_dbl (dbl_of_bits b))
  | Float16 => encode_float 10 5 (fval_of_dbl (dbl_of_bits b))
  | _ => (conv c k (dbl_of_bits b)) mod 2 ^ (8 * esize k)
  end.
(* TypedArrayKind::get_element: JS value -> raw element bits *)
Definition js_to_elem (c : cfg) (k : kind) (v : jsval) : res Z :=
  match k with
  | BigInt64 => do z <- to_bigint v; Ok ((ToBigInt64_spec z) mod 2 ^ 64)
  | BigUint64 => do z <- to_bigint v; Ok (ToBigUint64_spec z)
  | _ => do b <- to_number v; Ok (num_to_elem c k b)
  end.
(* TypedArrayElement::cast: raw element bits of kind `src` -> raw element bits of kind `dst`
   (same content type); None = the result depends on a NaN payload (not compared) *)
Definition float_kind (k : kind) : bool := match k with Float16 | Float32 | Float64 => true | _ => false end.
Definition elem_f64_bits (k : kind) (bits : Z) : Z :=   (* TypedArrayElement::as_f64, payload kept *)
  match elem_to_js k bits with JNum b => b | _ => 0 end.
Definition cast_elem (c : cfg) (src dst : kind) (bits : Z) : option Z :=
  if is_big dst then Some bits          (* i64 <-> u64: same bits *)
  else
    let payload_nan :=
      match src with
      | Float64 => f64_is_nan bits && negb (bits =? CANON_NAN)
      | Float32 => (match decode_float 23 8 bits with FNaN => true | _ => false end) && negb (bits =? nan_bits 23 8)
      | Float16 => (match decode_float 10 5 bits with FNaN => true | _ => false end) && negb (bits =? nan_bits 10 5)
      | _ => false
      end in
    if payload_nan && float_kind dst then None else
    let b := elem_f64_bits src bits in
    match dst with
    | Float64 => Some b
    | Float32 => Some (encode_float 23 8 (fval_of_dbl (dbl_of_bits b)))
    | Float16 => Some (encode_float 10 5 (fval_of_dbl (dbl_of_bits b)))
    | _ => Some ((cast c dst (dbl_of_bits b)) mod 2 ^ (8 * esize dst))
    end.

(* ------------------------------------------------------------------------------------------ *)
(* View geometry: typed_array/object.rs *)

Record tarr := TArr { t_buf : nat; t_kind : kind; t_off : Z; t_blen : option Z; t_alen : option Z }.
Record dview := DView { v_buf : nat; v_off : Z; v_blen : option Z }.

(* TypedArray::is_out_of_bounds *)
Definition ta_oob (t : tarr) (buflen : Z) : bool :=
  let byte_end := match t_alen t with
                  | None => buflen
                  | Some l => u64 (t_off t + u64 (l * esize (t_kind t)))
                  end in
  (buflen <? t_off t) || (buflen <? byte_end).
(* TypedArray::array_length (caller has checked !is_out_of_bounds) *)
Definition ta_length (t : tarr) (buflen : Z) : Z :=
  match t_alen t with
  | Some l => l
  | None => u64 (buflen - t_off t) / esize (t_kind t)
  end.
(* TypedArray::byte_length *)
Definition ta_byte_length (t : tarr) (buflen : Z) : Z :=
  if ta_oob t buflen then 0 else
  let l := ta_length t buflen in
  if l =? 0 then 0 else
  match t_blen t with Some b => b | None => u64 (l * esize (t_kind t)) end.
(* TypedArray::validate_index *)
Definition validate_index (t : tarr) (x : fval) (buflen : Z) : option Z :=
  match x with
  | FNaN | FInf _ => None
  | FFin s m e =>
      if negb (is_integral m e) then None                 (* index.fract() != 0.0 *)
      else if s && (m =? 0) then None                     (* -0 *)
      else if ta_oob t buflen then None
      else let length := ta_length t buflen in
           let i := truncate x in
           if (i <? 0) || (length <=? i) then None else Some i
  end.
(* TypedArray::validate_index_u64 *)
Definition validate_index_u64 (t : tarr) (i : Z) (buflen : Z) : option Z :=
  if ta_oob t buflen then None
  else if ta_length t buflen <=? i then None else Some i.

(* DataView::is_out_of_bounds / byte_length *)
Definition dv_oob (v : dview) (buflen : Z) : bool :=
  let byte_end := match v_blen v with None => buflen | Some l => u64 (l + v_off v) end in
  (buflen <? v_off v) || (buflen <? byte_end).
Definition dv_byte_length (v : dview) (buflen : Z) : Z :=
  match v_blen v with Some l => l | None => u64 (buflen - v_off v) end.
(* the bounds check of get_view_value / set_view_value: Some buffer index, or the error *)
Definition dv_check (v : dview) (get_index : Z) (size : Z) (buflen : Z) : res Z :=
  if dv_oob v buflen then Err TypeError
  else if dv_byte_length v buflen <? u64 (get_index + size) then Err RangeError
  else Ok (u64 (get_index + v_off v)).

(* element access on a byte list *)
Definition ta_byte_index (t : tarr) (i : Z) : Z := u64 (u64 (i * esize (t_kind t)) + t_off t).
Definition ta_read (t : tarr) (i : Z) (data : list Z) : option Z :=
  option_map of_bytes_le (read_bytes (ta_byte_index t i) (nsize (t_kind t)) data).
Definition ta_write (t : tarr) (i : Z) (bits : Z) (data : list Z) : option (list Z) :=
  write_bytes (ta_byte_index t i) (bytes_le (nsize (t_kind t)) bits) data.
(* typed_array_get_element on an attached buffer: None = undefined *)
Definition ta_get_elem (t : tarr) (x : fval) (data : list Z) : option (option Z) :=
  match validate_index t x (zlen data) with
  | None => Some None
  | Some i => match ta_read t i data with Some b => Some (Some b) | None => None (* panic *) end
  end.
(* the store half of typed_array_set_element on an attached buffer *)
Definition ta_set_elem (t : tarr) (x : fval) (bits : Z) (data : list Z) : option (list Z) :=
  match validate_index t x (zlen data) with
  | None => Some data
  | Some i => ta_write t i bits data
  end.
(* DataView element access: bits are the value's own bits; big-endian = byte-swapped store *)
Definition dv_read (k : kind) (le : bool) (bi : Z) (data : list Z) : option Z :=
  match read_bytes bi (nsize k) data with
  | Some bs => let v := of_bytes_le bs in Some (if le then v else bswap (nsize k) v)
  | None => None
  end.
Definition dv_write (k : kind) (le : bool) (bi : Z) (bits : Z) (data : list Z) : option (list Z) :=
  write_bytes bi (bytes_le (nsize k) (if le then bits else bswap (nsize k) bits)) data.

(* ------------------------------------------------------------------------------------------ *)
(* The history machine *)

Record buffer := Buf { b_data : option (list Z); b_max : option Z; b_shared : bool }.
Inductive view := VTA (t : tarr) | VDV (v : dview).
(* `bufs` is the heap of buffer objects, indexed by identity (an id is never reused: a view keeps its
   buffer when the harness slot that named it is overwritten); `bslots` maps the harness slots B[i]
   to identities; `views` are the harness slots V[i] (a view value is immutable geometry + buffer id) *)
Record state := St { bufs : list (option buffer); bslots : list (option nat);
                     views : list (option view); poisoned : bool }.

Definition MAX_BUFFER_SIZE : Z := 1610612736.    (* HostHooks::max_buffer_size default *)

Fixpoint set_nth {A} (n : nat) (a : option A) (l : list (option A)) : list (option A) :=
  match n, l with
  | O, _ :: r => a :: r
  | O, [] => [a]
  | S n', x :: r => x :: set_nth n' a r
  | S n', [] => None :: set_nth n' a []
  end.
Definition get_buf (s : state) (b : nat) : option buffer := nth b (bufs s) None.
Definition get_view (s : state) (v : nat) : option view := nth v (views s) None.
Definition put_buf (s : state) (b : nat) (x : option buffer) : state :=
  St (set_nth b x (bufs s)) (bslots s) (views s) (poisoned s).
Definition put_view (s : state) (v : nat) (x : option view) : state :=
  St (bufs s) (bslots s) (set_nth v x (views s)) (poisoned s).
(* slot -> identity, and `B[d] = <a new buffer object>` *)
Definition slot_id (s : state) (b : nat) : option nat := nth b (bslots s) None.
Definition fresh_id (s : state) : nat := length (bufs s).
Definition new_buf (s : state) (d : nat) (bf : buffer) : state :=
  St (bufs s ++ [Some bf]) (set_nth d (Some (fresh_id s)) (bslots s)) (views s) (poisoned s).
Definition set_data (s : state) (b : nat) (d : list Z) : state :=
  match get_buf s b with
  | Some bf => put_buf s b (Some (Buf (Some d) (b_max bf) (b_shared bf)))
  | None => s
  end.
Definition buf_data (s : state) (b : nat) : option (list Z) :=
  match get_buf s b with Some bf => b_data bf | None => None end.
Definition buf_fixed (s : state) (b : nat) : bool :=
  match get_buf s b with Some bf => match b_max bf with None => true | Some _ => false end | None => true end.

Definition zeros (n : Z) : list Z := repeat 0 (Z.to_nat n).
Definition resize_list (d : list Z) (n : Z) : list Z :=
  firstn (Z.to_nat n) d ++ zeros (n - Z.min n (zlen d)).

(* what one op returns *)
Inductive out :=
| OSkip                      (* a slot named by the op is empty: nothing done *)
| ODone                      (* completed, result undefined / the new object *)
| OVal (v : jsval)           (* completed with a value *)
| OThrow (e : err)
| OPanic.                    (* the model reached a state in which the Rust code would panic *)

(* side effect run from inside an argument's valueOf *)
Inductive mid := NoMid | MidResize (b : nat) (n : Z) | MidDetach (b : nat).

(* ArrayBuffer::resize / SharedArrayBuffer::grow with an already converted length *)
Definition do_resize (s : state) (b : nat) (n : Z) : res state :=
  match get_buf s b with
  | None => Ok s
  | Some bf =>
      if b_shared bf then
        match b_max bf, b_data bf with
        | Some mx, Some d =>
            if mx <? n then Err RangeError
            else if n <? zlen d then Err RangeError
            else Ok (put_buf s b (Some (Buf (Some (resize_list d n)) (b_max bf) true)))
        | _, _ => Err TypeError
        end
      else
        match b_max bf with
        | None => Err TypeError
        | Some mx =>
            match b_data bf with
            | None => Err TypeError
            | Some d => if mx <? n then Err RangeError
                        else Ok (put_buf s b (Some (Buf (Some (resize_list d n)) (b_max bf) false)))
            end
        end
  end.
Definition do_detach (s : state) (b : nat) : state :=
  match get_buf s b with
  | Some bf => if b_shared bf then s else put_buf s b (Some (Buf None (b_max bf) false))
  | None => s
  end.
Definition run_mid (s : state) (m : mid) : res state :=
  match m with
  | NoMid => Ok s
  | MidResize b n =>                    (* B[b].resize(n) / .grow(n): n goes through ToIndex first *)
      match slot_id s b with
      | Some id =>
          match get_buf s id with
          | Some bf =>
              if b_shared bf && match b_max bf with None => true | _ => false end then Err TypeError
              else if (n <? 0) || (MAX_SAFE <? n) then Err RangeError else do_resize s id n
          | None => Ok s
          end
      | None => Ok s
      end
  | MidDetach b => match slot_id s b with Some id => Ok (do_detach s id) | None => Ok s end
  end.

(* InitializeTypedArrayFromArrayBuffer with converted offset / length *)
Definition init_from_buffer (s : state) (k : kind) (b : nat) (off : jsval) (len : jsval) : res tarr :=
  let size := esize k in
  do offset <- to_index off;
  if negb (offset mod size =? 0) then Err RangeError else
  do new_length <- (match len with JUndef => Ok None | _ => do l <- to_index len; Ok (Some l) end);
  match buf_data s b with
  | None => Err TypeError
  | Some d =>
      let blen := zlen d in
      match new_length with
      | Some l =>
          let nb := u64 (l * size) in
          if blen <? u64 (offset + nb) then Err RangeError
          else Ok (TArr b k offset (Some nb) (Some l))
      | None =>
          if negb (buf_fixed s b) then
            if blen <? offset then Err RangeError else Ok (TArr b k offset None None)
          else
            if negb (blen mod size =? 0) then Err RangeError
            else if blen <? offset then Err RangeError
            else let nb := blen - offset in Ok (TArr b k offset (Some nb) (Some (nb / size)))
      end
  end.

(* allocate a fresh zeroed fixed-length ArrayBuffer in slot db and a full view on it *)
Definition alloc_ta (s : state) (db : nat) (k : kind) (n : Z) : res (state * tarr) :=
  let bl := u64 (esize k * n) in
  if MAX_BUFFER_SIZE <? bl then Err RangeError else
  Ok (new_buf s db (Buf (Some (zeros bl)) None false), TArr (fresh_id s) k 0 (Some bl) (Some n)).

(* TypedArray::validate: Some (buffer length) or TypeError *)
Definition ta_validate (s : state) (t : tarr) : res Z :=
  match buf_data s (t_buf t) with
  | None => Err TypeError
  | Some d => if ta_oob t (zlen d) then Err TypeError else Ok (zlen d)
  end.

Definition fval_of_bits (b : Z) : fval := fval_of_dbl (dbl_of_bits b).

(* `obj.set(k, value)` / typed_array_set_element with a primitive value: convert, then store *)
Definition set_element (c : cfg) (s : state) (t : tarr) (idx : fval) (v : jsval) : res (option state) :=
  do bits <- js_to_elem c (t_kind t) v;
  match buf_data s (t_buf t) with
  | None => Ok (Some s)
  | Some d => match ta_set_elem t idx bits d with
              | Some d' => Ok (Some (set_data s (t_buf t) d'))
              | None => Ok None
              end
  end.
Definition idx_of_Z (i : Z) : fval := FFin false i 0.
(* `obj.get(k)` *)
Definition get_element (s : state) (t : tarr) (idx : fval) : option jsval :=
  match buf_data s (t_buf t) with
  | None => Some JUndef
  | Some d => match ta_get_elem t idx d with
              | Some None => Some JUndef
              | Some (Some b) => Some (elem_to_js (t_kind t) b)
              | None => None
              end
  end.

Fixpoint seqZ (start : Z) (n : nat) : list Z :=
  match n with O => [] | S n' => start :: seqZ (start + 1) n' end.

(* for k in from..to: target.set(k, value) *)
Fixpoint set_many (c : cfg) (s : state) (t : tarr) (ks : list Z) (v : jsval) : res (option state) :=
  match ks with
  | [] => Ok (Some s)
  | k :: r => do o <- set_element c s t (idx_of_Z k) v;
              match o with Some s' => set_many c s' t r v | None => Ok None end
  end.
Fixpoint set_list (c : cfg) (s : state) (t : tarr) (k : Z) (vs : list jsval) : res (option state) :=
  match vs with
  | [] => Ok (Some s)
  | v :: r => do o <- set_element c s t (idx_of_Z k) v;
              match o with Some s' => set_list c s' t (k + 1) r | None => Ok None end
  end.

(* SetTypedArrayFromArrayLike stores element by element: when element i throws, elements before it stay stored *)
Fixpoint set_list_prefix (c : cfg) (t : tarr) (s0 : state) (k : Z) (vs : list jsval) : state :=
  match vs with
  | [] => s0
  | x :: r => match set_element c s0 t (idx_of_Z k) x with
              | Ok (Some s1) => set_list_prefix c t s1 (k + 1) r
              | _ => s0
              end
  end.
(* InitializeTypedArrayFromTypedArray, different element types: read, TypedArrayElement::cast, append *)
Fixpoint cast_loop (c : cfg) (st : tarr) (k : kind) (data : list Z) (n : nat) (i : Z) (acc : list Z) (poison : bool)
  : option (list Z * bool) :=
  match n with
  | O => Some (acc, poison)
  | S n' =>
      match ta_read st i data with
      | None => None
      | Some bits =>
          match cast_elem c (t_kind st) k bits with
          | Some b' => cast_loop c st k data n' (i + 1) (acc ++ bytes_le (nsize k) b') poison
          | None => cast_loop c st k data n' (i + 1) (acc ++ bytes_le (nsize k) 0) true
          end
      end
  end.
(* SetTypedArrayFromTypedArray, different element types: GetValueFromBuffer, get_element, SetValueInBuffer *)
Fixpoint set_conv_loop (c : cfg) (sk tk : kind) (sbytes : list Z) (n : nat) (si ti : Z) (td : list Z) : option (list Z) :=
  match n with
  | O => Some td
  | S n' =>
      match read_bytes si (nsize sk) sbytes with
      | None => None
      | Some bs =>
          match js_to_elem c tk (elem_to_js sk (of_bytes_le bs)) with
          | Err _ => None
          | Ok bits =>
              match write_bytes ti (bytes_le (nsize tk) bits) td with
              | Some td' => set_conv_loop c sk tk sbytes n' (si + esize sk) (ti + esize tk) td'
              | None => None
              end
          end
      end
  end.
(* %TypedArray%.prototype.with: copy element by element into the new array, replacing index ai *)
Fixpoint with_loop (c : cfg) (t nt : tarr) (ai : Z) (value : jsval) (n : nat) (j : Z) (st0 : state) : option state :=
  match n with
  | O => Some st0
  | S n' =>
      let val := if j =? ai then Some value else get_element st0 t (idx_of_Z j) in
      match val with
      | None => None
      | Some vv => match set_element c st0 nt (idx_of_Z j) vv with
                   | Ok (Some st1) => with_loop c t nt ai value n' (j + 1) st1
                   | _ => None
                   end
      end
  end.

(* property keys used by OGet/OSet: a Number (ToString then CanonicalNumericIndexString gives the
   same number back, -0 becoming +0) or the string "-0" *)
Inductive key := KNum (bits : Z) | KNegZero.
Definition key_index (k : key) : fval :=
  match k with
  | KNegZero => FFin true 0 0
  | KNum b => match fval_of_bits b with FFin _ 0 e => FFin false 0 e | x => x end
  end.

Inductive op :=
| NewBuf (d : nat) (shared : bool) (len : jsval) (max : option jsval)
| Resize (b : nat) (n : jsval)
| Transfer (d b : nat) (to_fixed : bool) (n : jsval)
| Detach (b : nat)
| BufSlice (d b : nat) (st en : jsval)
| MkTA (d : nat) (k : kind) (b : nat) (off len : jsval)
| MkTALen (d db : nat) (k : kind) (n : jsval)
| MkTAFrom (d db : nat) (k : kind) (src : nat)
| MkDV (d b : nat) (off len : jsval)
| Get (v : nat) (i : key)
| SetE (v : nat) (i : key) (x : jsval) (m : mid)
| DvGet (v : nat) (k : kind) (off : jsval) (le : bool)
| DvSet (v : nat) (k : kind) (off : jsval) (x : jsval) (le : bool) (m : mid)
| Fill (v : nat) (x st en : jsval) (m : mid)
| CopyWithin (v : nat) (tg st en : jsval) (m : mid)
| SetTA (v src : nat) (off : jsval)
| SetArr (v : nat) (xs : list jsval) (off : jsval)
| Subarray (d v : nat) (st en : jsval)
| Slice (d db v : nat) (st en : jsval) (m : mid)
| At (v : nat) (i : jsval)
| With (d db v : nat) (i x : jsval).

Definition thrown {A} (s : state) (r : res A) (k : A -> state * out) : state * out :=
  match r with Ok a => k a | Err e => (s, OThrow e) end.

(* a mid effect hangs on a Number argument's valueOf; an `undefined` argument has none *)
Definition arg_mid (a : jsval) (m : mid) : mid := match a with JUndef => NoMid | _ => m end.

Definition step (c : cfg) (s : state) (o : op) : state * out :=
  match o with
  | NewBuf d shared len max =>
      thrown s (to_index len) (fun n =>
      thrown s (match max with None => Ok None | Some mv => match mv with JUndef => Ok None | _ => do m <- to_index mv; Ok (Some m) end end) (fun mx =>
      match mx with
      | Some m => if m <? n then (s, OThrow RangeError)
                  else if MAX_BUFFER_SIZE <? m then (s, OThrow RangeError)
                  else (new_buf s d (Buf (Some (zeros n)) (Some m) shared), ODone)
      | None => if MAX_BUFFER_SIZE <? n then (s, OThrow RangeError)
                else (new_buf s d (Buf (Some (zeros n)) None shared), ODone)
      end))
  | Resize b0 nv =>
      match slot_id s b0 with None => (s, OSkip) | Some b =>
      match get_buf s b with
      | None => (s, OSkip)
      | Some bf =>
          if b_shared bf && match b_max bf with None => true | _ => false end then (s, OThrow TypeError)
          else thrown s (to_index nv) (fun n => thrown s (do_resize s b n) (fun s' => (s', ODone)))
      end end
  | Transfer d b0 to_fixed nv =>
      match slot_id s b0 with None => (s, OSkip) | Some b =>
      match get_buf s b with
      | None => (s, OSkip)
      | Some bf =>
          if b_shared bf then (s, OThrow TypeError) else
          thrown s (match nv with
                    | JUndef => Ok (match b_data bf with Some dt => zlen dt | None => 0 end)
                    | _ => to_index nv end) (fun n =>
          match b_data bf with
          | None => (s, OThrow TypeError)
          | Some dt =>
              let new_max := if to_fixed then None else b_max bf in
              match new_max with
              | Some mx => if mx <? n then (s, OThrow RangeError)
                           else (new_buf (do_detach s b) d (Buf (Some (resize_list dt n)) new_max false), ODone)
              | None => (new_buf (do_detach s b) d (Buf (Some (resize_list dt n)) None false), ODone)
              end
          end)
      end end
  | Detach b0 =>
      match slot_id s b0 with None => (s, OSkip) | Some b =>
      match get_buf s b with
      | None => (s, OSkip)
      | Some bf => if b_shared bf then (s, OThrow TypeError) else (do_detach s b, ODone)
      end end
  | BufSlice d b0 st en =>
      match slot_id s b0 with None => (s, OSkip) | Some b =>
      match get_buf s b with
      | None => (s, OSkip)
      | Some bf =>
          match b_data bf with
          | None => (s, OThrow TypeError)
          | Some dt =>
              let len := zlen dt in
              thrown s (relative_start st len) (fun first =>
              thrown s (relative_end en len) (fun final =>
              let new_len := Z.max 0 (final - first) in
              let chunk := firstn (Z.to_nat new_len) (skipn (Z.to_nat first) dt) in
              (* allocation size of the source block: maxByteLength for a growable shared buffer *)
              let alloc_len := match b_max bf with Some m => m | None => len end in
              if b_shared bf && negb (sab_slice_fixed c) && (alloc_len =? 0) && (new_len =? 0)
              then (s, OThrow TypeError)
              else (new_buf s d (Buf (Some chunk) None (b_shared bf)), ODone)))
          end
      end end
  | MkTA d k b0 off len =>
      match slot_id s b0 with None => (s, OSkip) | Some b =>
      match get_buf s b with
      | None => (s, OSkip)
      | Some _ => thrown s (init_from_buffer s k b off len) (fun t => (put_view s d (Some (VTA t)), ODone))
      end end
  | MkTALen d db k nv =>
      thrown s (to_index nv) (fun n =>
      thrown s (alloc_ta s db k n) (fun '(s', t) => (put_view s' d (Some (VTA t)), ODone)))
  | MkTAFrom d db k src =>
      match get_view s src with
      | Some (VTA st) =>
          thrown s (ta_validate s st) (fun blen =>
          match buf_data s (t_buf st) with
          | None => (s, OPanic)
          | Some data =>
              let elen := ta_length st blen in
              let bl := u64 (esize k * elen) in
              if kind_eqb k (t_kind st) then
                match read_bytes (t_off st) (Z.to_nat bl) data with
                | Some chunk =>
                    (* SliceRef::clone -> ArrayBuffer::allocate -> create_byte_data_block *)
                    if MAX_BUFFER_SIZE <? bl then (s, OThrow RangeError) else
                    (put_view (new_buf s db (Buf (Some chunk) None false)) d
                       (Some (VTA (TArr (fresh_id s) k 0 (Some bl) (Some elen)))), ODone)
                | None => (s, OPanic)
                end
              else if MAX_BUFFER_SIZE <? bl then (s, OThrow RangeError)     (* ArrayBuffer::allocate comes first *)
              else if negb (Bool.eqb (is_big k) (is_big (t_kind st))) then (s, OThrow TypeError)
              else
                match cast_loop c st k data (Z.to_nat elen) 0 [] false with
                | None => (s, OPanic)
                | Some (bytes, poison) =>
                    let s1 := new_buf s db (Buf (Some bytes) None false) in
                    let s2 := put_view s1 d (Some (VTA (TArr (fresh_id s) k 0 (Some bl) (Some elen)))) in
                    (St (bufs s2) (bslots s2) (views s2) (poisoned s2 || poison), ODone)
                end
          end)
      | _ => (s, OSkip)
      end
  | MkDV d b0 off len =>
      match slot_id s b0 with None => (s, OSkip) | Some b =>
      match get_buf s b with
      | None => (s, OSkip)
      | Some bf =>
          thrown s (to_index off) (fun offset =>
          match b_data bf with
          | None => (s, OThrow TypeError)
          | Some dt =>
              let blen := zlen dt in
              if blen <? offset then (s, OThrow RangeError) else
              match len with
              | JUndef =>
                  let vl := if buf_fixed s b then Some (blen - offset) else None in
                  (put_view s d (Some (VDV (DView b offset vl))), ODone)
              | _ =>
                  thrown s (to_index len) (fun l =>
                  if blen <? u64 (offset + l) then (s, OThrow RangeError)
                  else (put_view s d (Some (VDV (DView b offset (Some l)))), ODone))
              end
          end)
      end end
  | Get v i =>
      match get_view s v with
      | Some (VTA t) =>
          match get_element s t (key_index i) with
          | Some r => (s, OVal r)
          | None => (s, OPanic)
          end
      | _ => (s, OSkip)
      end
  | SetE v i x m =>
      match get_view s v with
      | Some (VTA t) =>
          thrown s (run_mid s (match x with JUndef => NoMid | _ => m end)) (fun s1 =>
          thrown s1 (set_element c s1 t (key_index i) x) (fun o =>
          match o with Some s2 => (s2, ODone) | None => (s1, OPanic) end))
      | _ => (s, OSkip)
      end
  | DvGet v k off le =>
      match get_view s v with
      | Some (VDV dv) =>
          thrown s (to_index off) (fun gi =>
          match buf_data s (v_buf dv) with
          | None => (s, OThrow TypeError)
          | Some dt =>
              thrown s (dv_check dv gi (esize k) (zlen dt)) (fun bi =>
              match dv_read k le bi dt with
              | Some bits => (s, OVal (elem_to_js k bits))
              | None => (s, OPanic)
              end)
          end)
      | _ => (s, OSkip)
      end
  | DvSet v k off x le m =>
      match get_view s v with
      | Some (VDV dv) =>
          thrown s (to_index off) (fun gi =>
          thrown s (run_mid s (match x with JUndef => NoMid | _ => m end)) (fun s1 =>
          thrown s1 (js_to_elem c k x) (fun bits =>
          match buf_data s1 (v_buf dv) with
          | None => (s1, OThrow TypeError)
          | Some dt =>
              thrown s1 (dv_check dv gi (esize k) (zlen dt)) (fun bi =>
              match dv_write k le bi bits dt with
              | Some dt' => (set_data s1 (v_buf dv) dt', ODone)
              | None => (s1, OPanic)
              end)
          end)))
      | _ => (s, OSkip)
      end
  | Fill v x st en m =>
      match get_view s v with
      | Some (VTA t) =>
          thrown s (ta_validate s t) (fun blen =>
          let len := ta_length t blen in
          thrown s (if is_big (t_kind t) then do z <- to_bigint x; Ok (JBig z)
                    else do b <- to_number x; Ok (JNum b)) (fun value =>
          thrown s (relative_start st len) (fun start_index =>
          thrown s (run_mid s (arg_mid en m)) (fun s1 =>
          thrown s1 (relative_end en len) (fun end_index =>
          thrown s1 (ta_validate s1 t) (fun blen1 =>
          let len1 := ta_length t blen1 in
          let end_index := Z.min end_index len1 in
          thrown s1 (set_many c s1 t (seqZ start_index (Z.to_nat (end_index - start_index))) value) (fun o =>
          match o with Some s2 => (s2, ODone) | None => (s1, OPanic) end)))))))
      | _ => (s, OSkip)
      end
  | CopyWithin v tg st en m =>
      match get_view s v with
      | Some (VTA t) =>
          thrown s (ta_validate s t) (fun blen =>
          let len := ta_length t blen in
          thrown s (relative_start tg len) (fun to =>
          thrown s (relative_start st len) (fun from =>
          thrown s (run_mid s (arg_mid en m)) (fun s1 =>
          thrown s1 (relative_end en len) (fun final =>
          let count := if (from <=? final) && (to <=? len) then Z.min (final - from) (len - to) else 0 in
          if 0 <? count then
            thrown s1 (ta_validate s1 t) (fun blen1 =>
            match buf_data s1 (t_buf t) with
            | None => (s1, OPanic)
            | Some dt =>
                let len1 := ta_length t blen1 in
                let size := esize (t_kind t) in
                let limit := u64 (u64 (len1 * size) + t_off t) in
                let to_bi := u64 (u64 (to * size) + t_off t) in
                let from_bi := u64 (u64 (from * size) + t_off t) in
                let count_bytes := u64 (count * size) in
                if (limit <=? to_bi) || (limit <=? from_bi) then (s1, ODone) else
                let count_bytes := Z.min count_bytes (Z.min (limit - to_bi) (limit - from_bi)) in
                match read_bytes from_bi (Z.to_nat count_bytes) dt with
                | Some chunk =>
                    match write_bytes to_bi chunk dt with
                    | Some dt' =>
                        (* utils.rs memmove: ptr::copy on a plain buffer; on a shared buffer the batched atomic copies,
                           direction chosen by src < dest (DeepCopy_C15.memmove_shared; base address taken 8-aligned) *)
                        let shared := match get_buf s1 (t_buf t) with Some bf => b_shared bf | None => false end in
                        (set_data s1 (t_buf t) (if shared then memmove_shared 0 dt from_bi to_bi count_bytes else dt'), ODone)
                    | None => (s1, OPanic)
                    end
                | None => (s1, OPanic)
                end
            end)
          else (s1, ODone))))))
      | _ => (s, OSkip)
      end
  | SetTA v src off =>
      match get_view s v, get_view s src with
      | Some (VTA tgt), Some (VTA srt) =>
          thrown s (to_ioi off) (fun oi =>
          match oi with
          | NInf => (s, OThrow RangeError)
          | Int z => if z <? 0 then (s, OThrow RangeError) else
              (* target / source validation, then the remaining checks *)
              thrown s (ta_validate s tgt) (fun tblen =>
              let target_length := ta_length tgt tblen in
              thrown s (ta_validate s srt) (fun sblen =>
              let src_length := ta_length srt sblen in
              let tk := t_kind tgt in let sk := t_kind srt in
              let src_byte_length := ta_byte_length srt sblen in
              if target_length <? u64 (src_length + z) then (s, OThrow RangeError)
              else if negb (Bool.eqb (is_big tk) (is_big sk)) then (s, OThrow TypeError)
              else
                match buf_data s (t_buf srt), buf_data s (t_buf tgt) with
                | Some sdata, Some tdata =>
                    (* same buffer: the source range is cloned first *)
                    let same := Nat.eqb (t_buf srt) (t_buf tgt) in
                    let src_view :=
                      if same then
                        option_map (fun ch => (ch, 0)) (read_bytes (t_off srt) (Z.to_nat src_byte_length) sdata)
                      else Some (sdata, t_off srt) in
                    match src_view with
                    | None => (s, OPanic)
                    | Some (sbytes, src_byte_index) =>
                        let target_byte_index := u64 (u64 (z * esize tk) + t_off tgt) in
                        if kind_eqb sk tk then
                          let byte_count := u64 (esize tk * src_length) in
                          match read_bytes src_byte_index (Z.to_nat byte_count) sbytes with
                          | Some chunk =>
                              match write_bytes target_byte_index chunk tdata with
                              | Some td' => (set_data s (t_buf tgt) td', ODone)
                              | None => (s, OPanic)
                              end
                          | None => (s, OPanic)
                          end
                        else
                          match set_conv_loop c sk tk sbytes (Z.to_nat src_length) src_byte_index target_byte_index tdata with
                          | Some td' => (set_data s (t_buf tgt) td', ODone)
                          | None => (s, OPanic)
                          end
                    end
                | _, _ => (s, OPanic)
                end))
          | PInf =>
              thrown s (ta_validate s tgt) (fun _ =>
              thrown s (ta_validate s srt) (fun _ => (s, OThrow RangeError)))
          end)
      | _, _ => (s, OSkip)
      end
  | SetArr v xs off =>
      match get_view s v with
      | Some (VTA t) =>
          thrown s (to_ioi off) (fun oi =>
          match oi with
          | NInf => (s, OThrow RangeError)
          | Int z => if z <? 0 then (s, OThrow RangeError) else
              thrown s (ta_validate s t) (fun blen =>
              let target_length := ta_length t blen in
              if target_length <? u64 (zlen xs + z) then (s, OThrow RangeError) else
              match set_list c s t z xs with
              | Ok (Some s') => (s', ODone)
              | Ok None => (s, OPanic)
              | Err e =>
                  (* elements before the failing one have been stored: replay the prefix *)
                  (set_list_prefix c t s z xs, OThrow e)
              end)
          | PInf => thrown s (ta_validate s t) (fun _ => (s, OThrow RangeError))
          end)
      | _ => (s, OSkip)
      end
  | Subarray d v st en =>
      match get_view s v with
      | Some (VTA t) =>
          let src_len := match buf_data s (t_buf t) with
                         | Some dt => if ta_oob t (zlen dt) then 0 else ta_length t (zlen dt)
                         | None => 0 end in
          let size := esize (t_kind t) in
          thrown s (relative_start st src_len) (fun start_index =>
          let begin := u64 (t_off t + u64 (start_index * size)) in
          match t_alen t, en with
          | None, JUndef =>
              thrown s (init_from_buffer s (t_kind t) (t_buf t) (JNum (f64_of_Z begin)) JUndef) (fun nt =>
              thrown s (ta_validate s nt) (fun _ => (put_view s d (Some (VTA nt)), ODone)))
          | _, _ =>
              thrown s (relative_end en src_len) (fun end_index =>
              let new_len := Z.max 0 (end_index - start_index) in
              thrown s (init_from_buffer s (t_kind t) (t_buf t) (JNum (f64_of_Z begin)) (JNum (f64_of_Z new_len))) (fun nt =>
              thrown s (ta_validate s nt) (fun _ => (put_view s d (Some (VTA nt)), ODone))))
          end)
      | _ => (s, OSkip)
      end
  | Slice d db v st en m =>
      match get_view s v with
      | Some (VTA t) =>
          thrown s (ta_validate s t) (fun blen =>
          let src_len := ta_length t blen in
          let k := t_kind t in
          thrown s (relative_start st src_len) (fun start_index =>
          thrown s (run_mid s (arg_mid en m)) (fun s1 =>
          thrown s1 (relative_end en src_len) (fun end_index =>
          let count := Z.max 0 (end_index - start_index) in
          thrown s1 (alloc_ta s1 db k count) (fun '(s2, nt) =>
          let nid := t_buf nt in
          let s3 := put_view s2 d (Some (VTA nt)) in
          if count =? 0 then (s3, ODone) else
          (* a TypeError here is thrown out of `slice`: the new array is never seen by the caller *)
          match ta_validate s3 t with Err e => (s1, OThrow e) | Ok blen1 =>
          let end_index := Z.min end_index (ta_length t blen1) in
          let count := Z.max 0 (end_index - start_index) in
          if count =? 0 then (s3, ODone) else
          match buf_data s3 (t_buf t) with
          | None => (s3, OPanic)
          | Some dt =>
              let byte_count := count * esize k in
              let src_bi := u64 (u64 (start_index * esize k) + t_off t) in
              match read_bytes src_bi (Z.to_nat byte_count) dt with
              | Some chunk =>
                  match buf_data s3 nid with
                  | Some nd => match write_bytes 0 chunk nd with
                               | Some nd' => (set_data s3 nid nd', ODone)
                               | None => (s3, OPanic)
                               end
                  | None => (s3, OPanic)
                  end
              | None => (s3, OPanic)
              end
          end end)))))
      | _ => (s, OSkip)
      end
  | At v i =>
      match get_view s v with
      | Some (VTA t) =>
          thrown s (ta_validate s t) (fun blen =>
          let len := ta_length t blen in
          thrown s (to_ioi i) (fun ri =>
          match ri with
          | PInf | NInf => (s, OVal JUndef)
          | Int z =>
              let k := if 0 <=? z then z else len + z in
              if (k <? 0) || (len <=? k) then (s, OVal JUndef) else
              match get_element s t (idx_of_Z k) with
              | Some r => (s, OVal r)
              | None => (s, OPanic)
              end
          end))
      | _ => (s, OSkip)
      end
  | With d db v i x =>
      match get_view s v with
      | Some (VTA t) =>
          thrown s (ta_validate s t) (fun blen =>
          let len := ta_length t blen in
          let k := t_kind t in
          thrown s (to_ioi i) (fun ri =>
          thrown s (if is_big k then do z <- to_bigint x; Ok (JBig z)
                    else do b <- to_number x; Ok (JNum b)) (fun value =>
          match ri with
          | PInf | NInf => (s, OThrow RangeError)
          | Int z =>
              let rel := if 0 <=? z then Some z else (if 0 <=? len + z then Some (len + z) else None) in
              let actual := match rel, buf_data s (t_buf t) with
                            | Some r, Some dt => validate_index_u64 t r (zlen dt)
                            | _, _ => None end in
              match actual with
              | None => (s, OThrow RangeError)
              | Some ai =>
                  thrown s (alloc_ta s db k len) (fun '(s1, nt) =>
                  match with_loop c t nt ai value (Z.to_nat len) 0 s1 with
                  | Some s2 => (put_view s2 d (Some (VTA nt)), ODone)
                  | None => (s, OPanic)
                  end)
              end
          end)))
      | _ => (s, OSkip)
      end
  end.

(* the observation printed after every op: every buffer's bytes and every view's geometry as seen
   through the accessors (length / byteLength / byteOffset; DataView accessors throw when out of
   bounds) *)
Inductive vobs :=
| VNone
| VTAObs (len blen off : Z)
| VDVObs (r : option (Z * Z)).    (* None: byteLength / byteOffset throw TypeError *)
Definition obs_view (s : state) (v : option view) : vobs :=
  match v with
  | None => VNone
  | Some (VTA t) =>
      match buf_data s (t_buf t) with
      | None => VTAObs 0 0 0
      | Some dt =>
          let bl := zlen dt in
          if ta_oob t bl then VTAObs 0 0 0
          else VTAObs (ta_length t bl) (ta_byte_length t bl) (t_off t)
      end
  | Some (VDV dv) =>
      match buf_data s (v_buf dv) with
      | None => VDVObs None
      | Some dt => if dv_oob dv (zlen dt) then VDVObs None
                   else VDVObs (Some (dv_byte_length dv (zlen dt), v_off dv))
      end
  end.
Inductive bobs := BNone | BDetached | BBytes (d : list Z) (max : option Z).
Definition obs_buf (b : option buffer) : bobs :=
  match b with
  | None => BNone
  | Some bf => match b_data bf with None => BDetached | Some d => BBytes d (b_max bf) end
  end.
Definition observe (s : state) : list bobs * list vobs * bool :=
  (map (fun o => match o with None => BNone | Some id => obs_buf (get_buf s id) end) (bslots s),
   map (obs_view s) (views s), poisoned s).

Definition init_state : state := St [] [] [] false.
Fixpoint run (c : cfg) (s : state) (ops : list op) : list (out * (list bobs * list vobs * bool)) :=
  match ops with
  | [] => []
  | o :: r => let '(s', res) := step c s o in (res, observe s') :: run c s' r
  end.
