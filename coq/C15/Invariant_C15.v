(* C15: the history invariant.  Every state reachable by `step` from `init_state` -- through any sequence of
   buffer creation / resize / transfer / slice / detach, view creation, element and DataView access, bulk
   operation, with resizes and detaches hidden inside argument conversions -- has only well-formed view
   geometry and byte lists no longer than 2^53; so the per-access bounds theorems of Proofs_C15 apply after
   every history. *)
From Coq Require Import ZArith List Bool Lia.
From C15 Require Import DeepCopy_C15 Model_C15 Proofs_C15.
Import ListNotations.
Local Open Scope Z_scope.

Definition LIM : Z := 2 ^ 53.
Arguments LIM : simpl never.

Definition wf_buf (bf : buffer) : Prop :=
  match b_data bf with Some d => zlen d <= LIM | None => True end.
Definition wf_view (w : view) : Prop :=
  match w with VTA t => wf_tarr t | VDV d => wf_dview d end.
Definition opt {A} (P : A -> Prop) (o : option A) : Prop := match o with Some a => P a | None => True end.
Definition wf_state (s : state) : Prop :=
  Forall (opt wf_buf) (bufs s) /\ Forall (opt wf_view) (views s).

(* ---- lists ---- *)
Lemma Forall_set_nth {A} (P : A -> Prop) n a l :
  Forall (opt P) l -> opt P a -> Forall (opt P) (set_nth n a l).
Proof.
  intros Hl Ha. revert l Hl. induction n as [| n IH]; intros l Hl.
  - destruct l; cbn; [repeat constructor; exact Ha|]. inversion Hl; subst. constructor; assumption.
  - destruct l; cbn.
    + constructor; [exact I|]. apply IH. constructor.
    + inversion Hl; subst. constructor; [assumption|]. apply IH. assumption.
Qed.

Lemma Forall_nth_opt {A} (P : A -> Prop) l n a :
  Forall (opt P) l -> nth n l None = Some a -> P a.
Proof.
  intros Hl. revert n. induction Hl as [| x l Hx Hl IH]; intros n E.
  - destruct n; discriminate.
  - destruct n; cbn in E.
    + subst x. exact Hx.
    + eapply IH; eauto.
Qed.

(* ---- state updates ---- *)
Lemma wf_get_buf s id bf : wf_state s -> get_buf s id = Some bf -> wf_buf bf.
Proof. intros [H _] E. eapply (Forall_nth_opt wf_buf); eauto. Qed.

Lemma wf_get_view s v w : wf_state s -> get_view s v = Some w -> wf_view w.
Proof. intros [_ H] E. eapply (Forall_nth_opt wf_view); eauto. Qed.

Lemma wf_buf_data s id d : wf_state s -> buf_data s id = Some d -> zlen d <= LIM.
Proof.
  intros W. unfold buf_data. destruct (get_buf s id) as [bf|] eqn:E; [|discriminate].
  intros D. pose proof (wf_get_buf _ _ _ W E) as B. unfold wf_buf in B. rewrite D in B. exact B.
Qed.

Lemma wf_put_buf s b x : wf_state s -> opt wf_buf x -> wf_state (put_buf s b x).
Proof. intros [H1 H2] Hx. split; cbn; [apply Forall_set_nth; assumption | assumption]. Qed.

Lemma wf_new_buf s d bf : wf_state s -> wf_buf bf -> wf_state (new_buf s d bf).
Proof.
  intros [H1 H2] Hx. split; cbn; [|assumption].
  apply Forall_app. split; [assumption | repeat constructor; exact Hx].
Qed.

Lemma wf_put_view s v x : wf_state s -> opt wf_view x -> wf_state (put_view s v x).
Proof. intros [H1 H2] Hx. split; cbn; [assumption | apply Forall_set_nth; assumption]. Qed.

Lemma wf_set_data s b d : wf_state s -> zlen d <= LIM -> wf_state (set_data s b d).
Proof.
  intros W Hd. unfold set_data. destruct (get_buf s b); [|exact W].
  apply wf_put_buf; [exact W|]. unfold opt, wf_buf. cbn [b_data]. exact Hd.
Qed.

Lemma wf_poison s p : wf_state s -> wf_state (St (bufs s) (bslots s) (views s) p).
Proof. intros [H1 H2]. split; assumption. Qed.

(* ---- lengths ---- *)
Lemma zlen_zeros n : 0 <= n -> zlen (zeros n) = n.
Proof. intros. unfold zlen, zeros. rewrite repeat_length. lia. Qed.

Lemma zlen_resize_list d n : 0 <= n -> zlen (resize_list d n) = n.
Proof.
  intros Hn. unfold resize_list, zlen, zeros. rewrite app_length, firstn_length, repeat_length. lia.
Qed.

Lemma to_index_lim v n : to_index v = Ok n -> 0 <= n <= LIM.
Proof. intros E. apply to_index_range in E. unfold MAX_SAFE, LIM in *. lia. Qed.

Lemma MAXB_LIM : MAX_BUFFER_SIZE <= LIM.
Proof. unfold MAX_BUFFER_SIZE, LIM. change (2 ^ 53) with 9007199254740992. lia. Qed.

Lemma u64_nonneg z : 0 <= u64 z.
Proof. unfold u64. apply Z.mod_pos_bound. reflexivity. Qed.

(* ---- resize / detach / mid ---- *)
Lemma wf_do_resize s b n s' : wf_state s -> 0 <= n <= LIM -> do_resize s b n = Ok s' -> wf_state s'.
Proof.
  intros W Hn. unfold do_resize.
  destruct (get_buf s b) as [bf|]; [|intros E; injection E as <-; exact W].
  destruct (b_shared bf).
  - destruct (b_max bf) as [mx|]; [|discriminate]. destruct (b_data bf) as [d|]; [|discriminate].
    destruct (mx <? n); [discriminate|]. destruct (n <? zlen d); [discriminate|].
    intros E; injection E as <-. apply wf_put_buf; [exact W|]. unfold opt, wf_buf. cbn [b_data].
    rewrite zlen_resize_list; lia.
  - destruct (b_max bf) as [mx|]; [|discriminate]. destruct (b_data bf) as [d|]; [|discriminate].
    destruct (mx <? n); [discriminate|].
    intros E; injection E as <-. apply wf_put_buf; [exact W|]. unfold opt, wf_buf. cbn [b_data].
    rewrite zlen_resize_list; lia.
Qed.

Lemma wf_do_detach s b : wf_state s -> wf_state (do_detach s b).
Proof.
  intros W. unfold do_detach. destruct (get_buf s b) as [bf|]; [|exact W].
  destruct (b_shared bf); [exact W|]. apply wf_put_buf; [exact W | unfold opt, wf_buf; cbn [b_data]; exact I].
Qed.

Lemma wf_run_mid s m s' : wf_state s -> run_mid s m = Ok s' -> wf_state s'.
Proof.
  intros W. destruct m as [| b n | b]; cbn [run_mid].
  - intros E; injection E as <-; exact W.
  - destruct (slot_id s b) as [id|]; [|intros E; injection E as <-; exact W].
    destruct (get_buf s id) as [bf|]; [|intros E; injection E as <-; exact W].
    destruct (b_shared bf && match b_max bf with None => true | Some _ => false end); [discriminate|].
    destruct ((n <? 0) || (MAX_SAFE <? n)) eqn:R; [discriminate|].
    apply orb_false_elim in R. destruct R as [R1 R2]. apply Z.ltb_ge in R1. apply Z.ltb_ge in R2.
    apply wf_do_resize; [exact W|]. unfold MAX_SAFE, LIM in *. lia.
  - destruct (slot_id s b) as [id|]; intros E; injection E as <-; [apply wf_do_detach|]; exact W.
Qed.

(* ---- element stores keep the length ---- *)
Lemma ta_set_elem_length t x bits d d' : ta_set_elem t x bits d = Some d' -> length d' = length d.
Proof.
  unfold ta_set_elem. destruct (validate_index t x (zlen d)) as [i|].
  - unfold ta_write. apply write_bytes_length.
  - intros E; injection E as <-; reflexivity.
Qed.

Lemma wf_set_element c s t idx v s' : wf_state s -> set_element c s t idx v = Ok (Some s') -> wf_state s'.
Proof.
  intros W. unfold set_element.
  destruct (js_to_elem c (t_kind t) v) as [bits|]; cbn [bind]; [|discriminate].
  destruct (buf_data s (t_buf t)) as [d|] eqn:D; [|intros E; injection E as <-; exact W].
  destruct (ta_set_elem t idx bits d) as [d'|] eqn:S; [|discriminate].
  intros E; injection E as <-. apply wf_set_data; [exact W|].
  apply ta_set_elem_length in S. pose proof (wf_buf_data _ _ _ W D). unfold zlen in *. lia.
Qed.

Lemma wf_set_many c t v ks : forall s s', wf_state s -> set_many c s t ks v = Ok (Some s') -> wf_state s'.
Proof.
  induction ks as [| k r IH]; intros s s' W; cbn [set_many].
  - intros E; injection E as <-; exact W.
  - destruct (set_element c s t (idx_of_Z k) v) as [[s1|]|] eqn:E1; cbn [bind]; try discriminate.
    apply IH. eapply wf_set_element; eauto.
Qed.

Lemma wf_set_list c t vs : forall s k s', wf_state s -> set_list c s t k vs = Ok (Some s') -> wf_state s'.
Proof.
  induction vs as [| v r IH]; intros s k s' W; cbn [set_list].
  - intros E; injection E as <-; exact W.
  - destruct (set_element c s t (idx_of_Z k) v) as [[s1|]|] eqn:E1; cbn [bind]; try discriminate.
    apply IH. eapply wf_set_element; eauto.
Qed.

(* ---- geometry produced by the constructors ---- *)
Lemma wf_init_from_buffer s k b off len t : wf_state s -> init_from_buffer s k b off len = Ok t -> wf_tarr t.
Proof.
  intros W. apply init_from_buffer_wf. intros d D. pose proof (wf_buf_data _ _ _ W D).
  unfold LIM in *. change (2 ^ 64) with (2 ^ 53 * 2048). change (2 ^ 53) with 9007199254740992 in *. lia.
Qed.

Lemma wf_alloc_ta s db k n s' t : wf_state s -> 0 <= n <= LIM -> alloc_ta s db k n = Ok (s', t) ->
  wf_state s' /\ wf_tarr t /\ t_buf t = fresh_id s.
Proof.
  intros W Hn. unfold alloc_ta. destruct (MAX_BUFFER_SIZE <? u64 (esize k * n)) eqn:M; [discriminate|].
  apply Z.ltb_ge in M. intros E; injection E as <- <-. pose proof (esize_pos k) as S. pose proof MAXB_LIM.
  split; [|split; [|reflexivity]].
  - apply wf_new_buf; [exact W|]. unfold wf_buf. cbn [b_data]. rewrite zlen_zeros by apply u64_nonneg. lia.
  - unfold wf_tarr. cbn [t_off t_alen t_kind]. split; [lia|]. split; [lia|].
    unfold LIM in *. change (2 ^ 64) with (2 ^ 53 * 2048). change (2 ^ 53) with 9007199254740992 in *. nia.
Qed.

Lemma rel_of_ioi_range i len : 0 <= len -> 0 <= rel_of_ioi i len <= len.
Proof.
  intros H. destruct i as [| | z]; cbn; try lia.
  destruct (z <? 0) eqn:N.
  - destruct (0 <=? len + z) eqn:P; [apply Z.leb_le in P; apply Z.ltb_lt in N; lia | lia].
  - apply Z.ltb_ge in N. lia.
Qed.

Lemma relative_start_range v len r : 0 <= len -> relative_start v len = Ok r -> 0 <= r <= len.
Proof.
  intros H. unfold relative_start. destruct (to_ioi v) as [i|]; cbn [bind]; [|discriminate].
  intros E; injection E as <-. apply rel_of_ioi_range; exact H.
Qed.

Lemma relative_end_range v len r : 0 <= len -> relative_end v len = Ok r -> 0 <= r <= len.
Proof.
  intros H. unfold relative_end. destruct v.
  - destruct (to_ioi (JNum bits)) as [i|]; cbn [bind]; [|discriminate]. intros E; injection E as <-. apply rel_of_ioi_range; exact H.
  - destruct (to_ioi (JBig z)) as [i|]; cbn [bind]; [|discriminate]. intros E; injection E as <-. apply rel_of_ioi_range; exact H.
  - intros E; injection E as <-. lia.
Qed.

(* a validated typed array: its length is bounded by the buffer length *)
Lemma ta_validate_len s t blen : wf_state s -> wf_tarr t -> ta_validate s t = Ok blen ->
  0 <= ta_length t blen <= LIM /\ 0 <= blen <= LIM.
Proof.
  intros W T. unfold ta_validate. destruct (buf_data s (t_buf t)) as [d|] eqn:D; [|discriminate].
  destruct (ta_oob t (zlen d)) eqn:O; [discriminate|]. intros E; injection E as <-.
  pose proof (wf_buf_data _ _ _ W D) as B. pose proof (zlen_bounds d) as B0.
  assert (B64 : 0 <= zlen d < 2 ^ 64).
  { unfold LIM in *. change (2 ^ 64) with (2 ^ 53 * 2048). change (2 ^ 53) with 9007199254740992 in *. lia. }
  pose proof (ta_length_bound t (zlen d) T B64 O) as [L0 L1].
  pose proof (esize_pos (t_kind t)) as S. destruct T as [T0 _].
  split; [|lia]. split; [exact L0|]. nia.
Qed.

(* ---- the loops of the bulk operations ---- *)
Lemma wf_set_list_prefix c t vs : forall s k, wf_state s -> wf_state (set_list_prefix c t s k vs).
Proof.
  induction vs as [| v r IH]; intros s k W; cbn [set_list_prefix]; [exact W|].
  destruct (set_element c s t (idx_of_Z k) v) as [[s1|]|] eqn:E; try exact W.
  apply IH. eapply wf_set_element; eauto.
Qed.

Lemma cast_loop_length c st k data n : forall i acc p l q,
  cast_loop c st k data n i acc p = Some (l, q) -> length l = (length acc + n * nsize k)%nat.
Proof.
  induction n as [| n IH]; intros i acc p l q; cbn [cast_loop].
  - intros E; injection E as <- <-. lia.
  - destruct (ta_read st i data) as [bits|]; [|discriminate].
    destruct (cast_elem c (t_kind st) k bits); intros E; apply IH in E;
      rewrite app_length, bytes_le_length in E; lia.
Qed.

Lemma set_conv_loop_length c sk tk sbytes n : forall si ti td td',
  set_conv_loop c sk tk sbytes n si ti td = Some td' -> length td' = length td.
Proof.
  induction n as [| n IH]; intros si ti td td'; cbn [set_conv_loop].
  - intros E; injection E as <-; reflexivity.
  - destruct (read_bytes si (nsize sk) sbytes) as [bs|]; [|discriminate].
    destruct (js_to_elem c tk (elem_to_js sk (of_bytes_le bs))) as [bits|]; [|discriminate].
    destruct (write_bytes ti (bytes_le (nsize tk) bits) td) as [td1|] eqn:Wr; [|discriminate].
    intros E. apply IH in E. apply write_bytes_length in Wr. lia.
Qed.

Lemma wf_with_loop c t nt ai value n : forall j s s',
  wf_state s -> with_loop c t nt ai value n j s = Some s' -> wf_state s'.
Proof.
  induction n as [| n IH]; intros j s s' W; cbn [with_loop].
  - intros E; injection E as <-; exact W.
  - cbv zeta. destruct (if j =? ai then Some value else get_element s t (idx_of_Z j)) as [vv|]; [|discriminate].
    destruct (set_element c s nt (idx_of_Z j) vv) as [[s1|]|] eqn:E1; try discriminate.
    apply IH. eapply wf_set_element; eauto.
Qed.

(* ---- one step ---- *)
Lemma thrown_wf {A} s (r : res A) k : wf_state s ->
  (forall a, r = Ok a -> wf_state (fst (k a))) -> wf_state (fst (thrown s r k)).
Proof. intros W H. unfold thrown. destruct r; [apply H; reflexivity | exact W]. Qed.

Ltac note_mid :=
  match goal with
  | E : run_mid ?s ?m = Ok ?s1, W : wf_state ?s |- _ =>
      lazymatch goal with
      | _ : wf_state s1 |- _ => fail
      | _ => assert (wf_state s1) by (exact (wf_run_mid s m s1 W E))
      end
  end.

Ltac wf_step :=
  repeat first
    [ assumption
    | note_mid
    | apply thrown_wf; [assumption | intros ? ?]
    | match goal with
      | |- wf_state (fst (_, _)) => cbn [fst]
      | |- wf_state (fst (match ?x with _ => _ end)) => destruct x eqn:?
      | |- wf_state (fst (if ?x then _ else _)) => destruct x eqn:?
      end ].

(* facts implied by the equations that wf_step leaves in the context *)
Ltac facts :=
  repeat match goal with
  | E : to_index _ = Ok ?a |- _ =>
      lazymatch goal with _ : 0 <= a <= LIM |- _ => fail | _ => pose proof (to_index_lim _ _ E) end
  | E : buf_data ?s ?b = Some ?d, W : wf_state ?s |- _ =>
      lazymatch goal with _ : zlen d <= LIM |- _ => fail | _ => pose proof (wf_buf_data _ _ _ W E) end
  | E : get_view ?s ?v = Some (VTA ?t), W : wf_state ?s |- _ =>
      lazymatch goal with _ : wf_tarr t |- _ => fail | _ => pose proof (wf_get_view _ _ _ W E : wf_tarr t) end
  | E : get_view ?s ?v = Some (VDV ?t), W : wf_state ?s |- _ =>
      lazymatch goal with _ : wf_dview t |- _ => fail | _ => pose proof (wf_get_view _ _ _ W E : wf_dview t) end
  | E : ta_validate ?s ?t = Ok ?bl, W : wf_state ?s, T : wf_tarr ?t |- _ =>
      lazymatch goal with _ : 0 <= bl <= LIM |- _ => fail | _ => pose proof (ta_validate_len _ _ _ W T E) as [? ?] end
  end.

Lemma wf_buf_of_data s id bf d : wf_state s -> get_buf s id = Some bf -> b_data bf = Some d -> zlen d <= LIM.
Proof. intros W E D. pose proof (wf_get_buf _ _ _ W E) as B. unfold wf_buf in B. rewrite D in B. exact B. Qed.

Lemma zlen_firstn_le {A} n (l : list A) : zlen (firstn n l) <= zlen l.
Proof. unfold zlen. rewrite firstn_length. lia. Qed.
Lemma zlen_skipn_le {A} n (l : list A) : zlen (skipn n l) <= zlen l.
Proof. unfold zlen. rewrite skipn_length. lia. Qed.

Section Step.
Variable c : cfg.
Variable s : state.
Hypothesis W : wf_state s.

Lemma wf_NewBuf d sh len mx : wf_state (fst (step c s (NewBuf d sh len mx))).
Proof.
  cbn [step]. wf_step; facts; apply wf_new_buf; try assumption; unfold wf_buf; cbn [b_data];
    rewrite zlen_zeros by lia; lia.
Qed.

Lemma wf_Resize b nv : wf_state (fst (step c s (Resize b nv))).
Proof.
  cbn [step]. wf_step; facts.
  eapply wf_do_resize; [exact W | | eassumption]. assumption.
Qed.

Lemma wf_Transfer d b fx nv : wf_state (fst (step c s (Transfer d b fx nv))).
Proof.
  cbn [step]. wf_step.
  all: apply wf_new_buf; [apply wf_do_detach; exact W|]; unfold wf_buf; cbn [b_data].
  all: match goal with D : b_data ?bf = Some ?l, G : get_buf s _ = Some ?bf |- _ => pose proof (wf_buf_of_data _ _ _ _ W G D) end.
  all: match goal with
       | E : _ = Ok ?a |- zlen (resize_list _ ?a) <= _ =>
           assert (0 <= a <= LIM) by
             (destruct nv; [apply to_index_lim in E; exact E | apply to_index_lim in E; exact E |
                            injection E as <-; match goal with |- 0 <= zlen ?l <= _ => pose proof (zlen_bounds l); lia end])
       end.
  all: rewrite zlen_resize_list by lia; lia.
Qed.

Lemma wf_Detach b : wf_state (fst (step c s (Detach b))).
Proof. cbn [step]. wf_step. apply wf_do_detach; exact W. Qed.

Lemma wf_BufSlice d b st en : wf_state (fst (step c s (BufSlice d b st en))).
Proof.
  cbn [step]. wf_step.
  apply wf_new_buf; [exact W|]. unfold wf_buf; cbn [b_data].
  match goal with D : b_data ?bf = Some ?l, G : get_buf s _ = Some ?bf |- _ => pose proof (wf_buf_of_data _ _ _ _ W G D) end.
  match goal with |- zlen (firstn ?n (skipn ?m ?l)) <= _ => pose proof (zlen_firstn_le n (skipn m l)); pose proof (zlen_skipn_le m l) end.
  lia.
Qed.

Lemma wf_MkTA d k b off len : wf_state (fst (step c s (MkTA d k b off len))).
Proof.
  cbn [step]. wf_step. apply wf_put_view; [exact W|]. cbn [opt wf_view]. eapply wf_init_from_buffer; eauto.
Qed.

Lemma wf_MkTALen d db k nv : wf_state (fst (step c s (MkTALen d db k nv))).
Proof.
  cbn [step]. wf_step; facts.
  match goal with E : alloc_ta s db k ?n = Ok (?s', ?t), B : 0 <= ?n <= LIM |- _ => destruct (wf_alloc_ta _ _ _ _ _ _ W B E) as (W' & T & _) end.
  apply wf_put_view; [exact W' | exact T].
Qed.

Lemma wf_MkDV d b off len : wf_state (fst (step c s (MkDV d b off len))).
Proof.
  cbn [step]. wf_step; facts.
  all: match goal with D : b_data ?bf = Some ?l, G : get_buf s _ = Some ?bf |- _ => pose proof (wf_buf_of_data _ _ _ _ W G D); pose proof (zlen_bounds l) end.
  all: apply wf_put_view; [exact W|]; cbn [opt wf_view]; unfold wf_dview; cbn [v_off v_blen].
  all: repeat match goal with H : (_ <? _) = false |- _ => apply Z.ltb_ge in H end.
  all: unfold LIM in *; change (2 ^ 64) with (2 ^ 53 * 2048); change (2 ^ 53) with 9007199254740992 in *.
  - lia.
  - destruct (buf_fixed s _); lia.
Qed.

Lemma wf_Get v i : wf_state (fst (step c s (Get v i))).
Proof. cbn [step]. wf_step. Qed.

Lemma wf_At v i : wf_state (fst (step c s (At v i))).
Proof. cbn [step]. wf_step. Qed.

Lemma wf_DvGet v k off le : wf_state (fst (step c s (DvGet v k off le))).
Proof. cbn [step]. wf_step. Qed.

Lemma wf_SetE v i x m : wf_state (fst (step c s (SetE v i x m))).
Proof. cbn [step]. wf_step. eapply wf_set_element; [|eassumption]. assumption. Qed.

Lemma wf_DvSet v k off x le m : wf_state (fst (step c s (DvSet v k off x le m))).
Proof.
  cbn [step]. wf_step; facts.
  apply wf_set_data; [assumption|].
  match goal with Wr : dv_write _ _ _ _ ?l = Some ?l' |- _ => unfold dv_write in Wr; apply write_bytes_length in Wr end.
  unfold zlen in *. lia.
Qed.

End Step.

Section Step2.
Variable c : cfg.
Variable s : state.
Hypothesis W : wf_state s.

Lemma wf_Fill v x st en m : wf_state (fst (step c s (Fill v x st en m))).
Proof. cbn [step]. wf_step. eapply wf_set_many; [|eassumption]. assumption. Qed.

Lemma wf_SetArr v xs off : wf_state (fst (step c s (SetArr v xs off))).
Proof.
  cbn [step]. wf_step.
  - eapply wf_set_list; [|eassumption]. assumption.
  - apply wf_set_list_prefix. assumption.
Qed.

Lemma wf_Subarray d v st en : wf_state (fst (step c s (Subarray d v st en))).
Proof.
  cbn [step]. wf_step.
  all: apply wf_put_view; [exact W|]; cbn [opt wf_view]; eapply wf_init_from_buffer; eauto.
Qed.

Lemma wf_CopyWithin v tg st en m : wf_state (fst (step c s (CopyWithin v tg st en m))).
Proof.
  cbn [step]. wf_step; facts.
  apply wf_set_data; [assumption|].
  match goal with Wr : write_bytes _ _ ?l = Some ?l' |- _ => apply write_bytes_length in Wr end.
  match goal with |- zlen (if ?b then _ else _) <= _ => destruct b end.
  - unfold zlen in *. rewrite DeepCopy_C15.memmove_shared_length. lia.
  - unfold zlen in *. lia.
Qed.

Lemma wf_SetTA v src off : wf_state (fst (step c s (SetTA v src off))).
Proof.
  cbn [step]. wf_step; facts.
  all: apply wf_set_data; [assumption|].
  all: try match goal with Wr : write_bytes _ _ ?l = Some ?l' |- _ => apply write_bytes_length in Wr end.
  all: try match goal with Wr : set_conv_loop _ _ _ _ _ _ _ ?l = Some ?l' |- _ => apply set_conv_loop_length in Wr end.
  all: unfold zlen in *; lia.
Qed.

End Step2.

Ltac facts2 :=
  repeat match goal with
  | E : relative_end _ ?len = Ok ?r, B : 0 <= ?len <= LIM |- _ =>
      lazymatch goal with _ : 0 <= r <= len |- _ => fail | _ => pose proof (relative_end_range _ _ _ (proj1 B) E) end
  | E : relative_start _ ?len = Ok ?r, B : 0 <= ?len <= LIM |- _ =>
      lazymatch goal with _ : 0 <= r <= len |- _ => fail | _ => pose proof (relative_start_range _ _ _ (proj1 B) E) end
  end.

Lemma read_bytes_length off n data r : read_bytes off n data = Some r -> length r = n.
Proof.
  unfold read_bytes. destruct (0 <=? off); cbn [andb]; [|discriminate].
  destruct (Nat.eqb_spec (length (firstn n (skipn (Z.to_nat off) data))) n); [|discriminate].
  intros E; injection E as <-; assumption.
Qed.

Lemma wf_full_view id k n : 0 <= n <= LIM -> wf_tarr (TArr id k 0 (Some (u64 (esize k * n))) (Some n)).
Proof.
  intros Hn. pose proof (esize_pos k). unfold wf_tarr. cbn [t_off t_alen t_kind].
  split; [lia|]. split; [lia|].
  unfold LIM in *. change (2 ^ 64) with (2 ^ 53 * 2048). change (2 ^ 53) with 9007199254740992 in *. nia.
Qed.

Lemma u64_esize_small k n : 0 <= n <= LIM -> u64 (esize k * n) = esize k * n.
Proof.
  intros Hn. pose proof (esize_pos k). apply u64_small.
  unfold LIM in *. change (2 ^ 64) with (2 ^ 53 * 2048). change (2 ^ 53) with 9007199254740992 in *. nia.
Qed.

Section Step3.
Variable c : cfg.
Variable s : state.
Hypothesis W : wf_state s.

Lemma wf_Slice d db v st en m : wf_state (fst (step c s (Slice d db v st en m))).
Proof.
  cbn [step]. wf_step; facts; facts2.
  all: match goal with E : alloc_ta ?s1 _ _ ?n = Ok (?s', ?t'), W1 : wf_state ?s1 |- _ =>
         let B := fresh "B" in assert (B : 0 <= n <= LIM) by lia;
         destruct (wf_alloc_ta _ _ _ _ _ _ W1 B E) as (W' & T' & _);
         assert (W3 : wf_state (put_view s' d (Some (VTA t')))) by (apply wf_put_view; assumption)
       end.
  all: try exact W3.
  apply wf_set_data; [exact W3|]. facts.
  match goal with Wr : write_bytes _ _ ?l = Some ?l' |- _ => apply write_bytes_length in Wr end.
  unfold zlen in *. lia.
Qed.

Lemma wf_With d db v i x : wf_state (fst (step c s (With d db v i x))).
Proof.
  cbn [step]. wf_step; facts.
  match goal with E : alloc_ta s _ _ ?n = Ok (?s', ?t'), B : 0 <= ?n <= LIM |- _ =>
    destruct (wf_alloc_ta _ _ _ _ _ _ W B E) as (W' & T' & _) end.
  match goal with L : with_loop _ _ _ _ _ _ _ ?s0 = Some ?s1 |- _ => pose proof (wf_with_loop _ _ _ _ _ _ _ _ _ W' L) end.
  apply wf_put_view; assumption.
Qed.

Lemma wf_MkTAFrom d db k src : wf_state (fst (step c s (MkTAFrom d db k src))).
Proof.
  cbn [step]. wf_step; facts.
  - apply wf_put_view; [apply wf_new_buf; [exact W|] | cbn [opt wf_view]; apply wf_full_view; assumption].
    unfold wf_buf. cbn [b_data].
    match goal with R : read_bytes _ _ _ = Some ?l0 |- _ => apply read_bytes_length in R end.
    match goal with M : (MAX_BUFFER_SIZE <? _) = false |- _ => apply Z.ltb_ge in M end.
    pose proof MAXB_LIM. pose proof (u64_nonneg (esize k * ta_length t a)). unfold zlen. lia.
  - match goal with |- wf_state {| bufs := bufs ?X; bslots := _; views := _; poisoned := ?p |} =>
      change (wf_state (St (bufs X) (bslots X) (views X) p)); apply wf_poison end.
    apply wf_put_view; [apply wf_new_buf; [exact W|] | cbn [opt wf_view]; apply wf_full_view; assumption].
    unfold wf_buf. cbn [b_data].
    match goal with R : cast_loop _ _ _ _ _ _ _ _ = Some (?l0, _) |- _ => apply cast_loop_length in R end.
    match goal with M : (MAX_BUFFER_SIZE <? _) = false |- _ => apply Z.ltb_ge in M; rewrite u64_esize_small in M by assumption end.
    pose proof MAXB_LIM. pose proof (nsize_esize k). unfold zlen. cbn [length] in *. nia.
Qed.

End Step3.

(* ---- every step, every history ---- *)
Theorem step_wf c s o : wf_state s -> wf_state (fst (step c s o)).
Proof.
  intros W. destruct o.
  - apply wf_NewBuf; exact W.
  - apply wf_Resize; exact W.
  - apply wf_Transfer; exact W.
  - apply wf_Detach; exact W.
  - apply wf_BufSlice; exact W.
  - apply wf_MkTA; exact W.
  - apply wf_MkTALen; exact W.
  - apply wf_MkTAFrom; exact W.
  - apply wf_MkDV; exact W.
  - apply wf_Get; exact W.
  - apply wf_SetE; exact W.
  - apply wf_DvGet; exact W.
  - apply wf_DvSet; exact W.
  - apply wf_Fill; exact W.
  - apply wf_CopyWithin; exact W.
  - apply wf_SetTA; exact W.
  - apply wf_SetArr; exact W.
  - apply wf_Subarray; exact W.
  - apply wf_Slice; exact W.
  - apply wf_At; exact W.
  - apply wf_With; exact W.
Qed.

Fixpoint final_state (c : cfg) (s : state) (ops : list op) : state :=
  match ops with [] => s | o :: r => final_state c (fst (step c s o)) r end.

Lemma wf_init : wf_state init_state.
Proof. split; constructor. Qed.

Lemma history_wf c ops : forall s, wf_state s -> wf_state (final_state c s ops).
Proof. induction ops as [| o r IH]; intros s W; cbn [final_state]; [exact W | apply IH, step_wf, W]. Qed.

(* ---- consequences for the accesses made in a reachable state ---- *)
Lemma lim_lt_64 z : z <= LIM -> z < 2 ^ 64.
Proof. unfold LIM. change (2 ^ 64) with (2 ^ 53 * 2048). change (2 ^ 53) with 9007199254740992. lia. Qed.

Lemma reachable_access_in_bounds s v t d x j : wf_state s ->
  get_view s v = Some (VTA t) -> buf_data s (t_buf t) = Some d ->
  validate_index t x (zlen d) = Some j ->
  0 <= j < ta_length t (zlen d) /\
  t_off t + (j + 1) * esize (t_kind t) <= zlen d /\
  ta_get_elem t x d <> None /\
  forall bits, exists d', ta_set_elem t x bits d = Some d' /\ length d' = length d.
Proof.
  intros W V D I.
  pose proof (wf_get_view _ _ _ W V : wf_tarr t) as T.
  pose proof (lim_lt_64 _ (wf_buf_data _ _ _ W D)) as B.
  pose proof (in_bounds_lemma t x (zlen d) j T (conj (zlen_bounds d) B) I) as (I1 & I2 & I3).
  split; [exact I1|]. split; [exact I2|]. split; [apply ta_get_no_panic; assumption|].
  intros bits. unfold ta_set_elem. rewrite I. unfold ta_write. rewrite I3.
  destruct T as [T0 _]. pose proof (esize_pos (t_kind t)).
  destruct (write_bytes_ok (t_off t + j * esize (t_kind t)) (bytes_le (nsize (t_kind t)) bits) d) as (d' & E).
  - assert (0 <= j * esize (t_kind t)) by (apply Z.mul_nonneg_nonneg; lia). lia.
  - rewrite bytes_le_length, nsize_esize. lia.
  - exists d'. split; [exact E | eapply write_bytes_length; eauto].
Qed.

Lemma reachable_dv_access_in_bounds s v dv d gi size bi : wf_state s ->
  get_view s v = Some (VDV dv) -> buf_data s (v_buf dv) = Some d ->
  0 <= gi <= MAX_SAFE -> 0 < size <= 8 ->
  dv_check dv gi size (zlen d) = Ok bi ->
  bi = v_off dv + gi /\ v_off dv <= bi /\ bi + size <= zlen d.
Proof.
  intros W V D G S C.
  pose proof (wf_get_view _ _ _ W V : wf_dview dv) as T.
  pose proof (lim_lt_64 _ (wf_buf_data _ _ _ W D)) as B.
  assert (G' : 0 <= gi < 2 ^ 53) by (unfold MAX_SAFE in G; lia).
  pose proof (dv_in_bounds_lemma dv gi size (zlen d) bi T (conj (zlen_bounds d) B) G' S C) as (A1 & A2 & A3 & _).
  auto.
Qed.

(* the element accesses of a reachable state never reach a state in which the Rust code would index outside the
   byte list (the model's OPanic) *)
Lemma wf_get_element_some s t idx : wf_state s -> wf_tarr t -> get_element s t idx <> None.
Proof.
  intros W T. unfold get_element. destruct (buf_data s (t_buf t)) as [d|] eqn:D; [|discriminate].
  pose proof (lim_lt_64 _ (wf_buf_data _ _ _ W D)) as B.
  pose proof (ta_get_no_panic t idx d T B) as N.
  destruct (ta_get_elem t idx d) as [[b|]|]; congruence.
Qed.

Lemma wf_set_element_some c s t idx v : wf_state s -> wf_tarr t -> set_element c s t idx v <> Ok None.
Proof.
  intros W T. unfold set_element. destruct (js_to_elem c (t_kind t) v) as [bits|]; cbn [bind]; [|discriminate].
  destruct (buf_data s (t_buf t)) as [d|] eqn:D; [|discriminate].
  pose proof (lim_lt_64 _ (wf_buf_data _ _ _ W D)) as B.
  unfold ta_set_elem. destruct (validate_index t idx (zlen d)) as [j|] eqn:I; [|discriminate].
  pose proof (in_bounds_lemma t idx (zlen d) j T (conj (zlen_bounds d) B) I) as (I1 & I2 & I3).
  unfold ta_write. rewrite I3. destruct T as [T0 _]. pose proof (esize_pos (t_kind t)).
  destruct (write_bytes_ok (t_off t + j * esize (t_kind t)) (bytes_le (nsize (t_kind t)) bits) d) as (d' & E).
  - assert (0 <= j * esize (t_kind t)) by (apply Z.mul_nonneg_nonneg; lia). lia.
  - rewrite bytes_le_length, nsize_esize. lia.
  - rewrite E. discriminate.
Qed.

Lemma get_never_panics c s v i : wf_state s -> snd (step c s (Get v i)) <> OPanic.
Proof.
  intros W. cbn [step]. destruct (get_view s v) as [[t|dv]|] eqn:V; cbn [snd]; try discriminate.
  pose proof (wf_get_view _ _ _ W V : wf_tarr t) as T.
  pose proof (wf_get_element_some s t (key_index i) W T) as N.
  destruct (get_element s t (key_index i)); [discriminate | congruence].
Qed.

Lemma set_never_panics c s v i x m : wf_state s -> snd (step c s (SetE v i x m)) <> OPanic.
Proof.
  intros W. cbn [step]. destruct (get_view s v) as [[t|dv]|] eqn:V; cbn [snd]; try discriminate.
  pose proof (wf_get_view _ _ _ W V : wf_tarr t) as T.
  unfold thrown.
  destruct (run_mid s match x with JUndef => NoMid | _ => m end) as [s1|] eqn:M; [|discriminate].
  pose proof (wf_run_mid _ _ _ W M) as W1.
  pose proof (wf_set_element_some c s1 t (key_index i) x W1 T) as N.
  destruct (set_element c s1 t (key_index i) x) as [[s2|]|]; cbn [snd]; try discriminate. congruence.
Qed.
