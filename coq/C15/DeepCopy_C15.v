(* C15 deepening: the shared-memory copy routines of core/engine/src/builtins/array_buffer/utils.rs
   (compute_batch_offsets, batched_atomic_copy_forward / _backward = copy_shared_to_shared(_backwards),
   memmove's direction choice), transliterated on a byte list with explicit sequential loads and stores:
   a byte loop stores one AtomicU8 at a time, a word loop loads 8 bytes (one AtomicU64) and then stores them.
   `base` is the address of byte 0 of the buffer: the alignment case split uses (base + index) mod 8.
   Definitions first (executable, used by Model_C15.step for copyWithin on shared buffers), then the proof
   that for EVERY base / from / to / count in bounds the result is the specification memmove. *)
From Coq Require Import ZArith List Bool Lia.
Import ListNotations.
Local Open Scope Z_scope.

Definition zlen' {A} (l : list A) : Z := Z.of_nat (length l).
Definition getb (m : list Z) (p : Z) : Z := nth (Z.to_nat p) m 0.
(* one relaxed AtomicU8 store *)
Definition setb (m : list Z) (p v : Z) : list Z :=
  if (0 <=? p) && (p <? zlen' m) then firstn (Z.to_nat p) m ++ v :: skipn (S (Z.to_nat p)) m else m.

(* for i in 0..n { dest[i].store(src[i].load()) } *)
Fixpoint bytes_fwd (m : list Z) (s d : Z) (n : nat) : list Z :=
  match n with O => m | S n' => bytes_fwd (setb m d (getb m s)) (s + 1) (d + 1) n' end.
(* for i in (0..n).rev() { dest[i].store(src[i].load()) } *)
Fixpoint bytes_bwd (m : list Z) (s d : Z) (n : nat) : list Z :=
  match n with O => m | S n' => bytes_bwd (setb m (d + Z.of_nat n') (getb m (s + Z.of_nat n'))) s d n' end.

Fixpoint load_list (m : list Z) (s : Z) (n : nat) : list Z :=
  match n with O => [] | S n' => getb m s :: load_list m (s + 1) n' end.
Fixpoint store_list (m : list Z) (d : Z) (vs : list Z) : list Z :=
  match vs with [] => m | v :: r => store_list (setb m d v) (d + 1) r end.
(* one AtomicU64 load followed by one AtomicU64 store: the 8 bytes are read before any of them is written *)
Definition word_copy (m : list Z) (s d : Z) : list Z := store_list m d (load_list m s 8).
(* for i in 0..chunks *)
Fixpoint words_fwd (m : list Z) (s d : Z) (n : nat) : list Z :=
  match n with O => m | S n' => words_fwd (word_copy m s d) (s + 8) (d + 8) n' end.
(* for i in (0..chunks).rev() *)
Fixpoint words_bwd (m : list Z) (s d : Z) (n : nat) : list Z :=
  match n with O => m | S n' => words_bwd (word_copy m (s + 8 * Z.of_nat n') (d + 8 * Z.of_nat n')) s d n' end.

Definition BATCH : Z := 8.
(* compute_batch_offsets(ptr_addr, count) -> (head, chunks, tail) *)
Definition batch_offsets (addr count : Z) : Z * Z * Z :=
  let misalign := addr mod BATCH in
  let head := if misalign =? 0 then 0 else Z.min (BATCH - misalign) count in
  let remaining := count - head in
  (head, remaining / BATCH, remaining mod BATCH).

(* batched_atomic_copy_forward(src = base+s, dest = base+d, count) *)
Definition batched_forward (base : Z) (m : list Z) (s d count : Z) : list Z :=
  if count =? 0 then m else
  if negb ((base + s) mod BATCH =? (base + d) mod BATCH) then bytes_fwd m s d (Z.to_nat count) else
  let '(head, chunks, tail) := batch_offsets (base + d) count in
  if chunks =? 0 then bytes_fwd m s d (Z.to_nat count) else
  let m1 := bytes_fwd m s d (Z.to_nat head) in
  let m2 := words_fwd m1 (s + head) (d + head) (Z.to_nat chunks) in
  let tail_start := head + chunks * BATCH in
  bytes_fwd m2 (s + tail_start) (d + tail_start) (Z.to_nat tail).

(* batched_atomic_copy_backward *)
Definition batched_backward (base : Z) (m : list Z) (s d count : Z) : list Z :=
  if count =? 0 then m else
  if negb ((base + s) mod BATCH =? (base + d) mod BATCH) then bytes_bwd m s d (Z.to_nat count) else
  let '(head, chunks, tail) := batch_offsets (base + d) count in
  if chunks =? 0 then bytes_bwd m s d (Z.to_nat count) else
  let tail_start := head + chunks * BATCH in
  let m1 := bytes_bwd m (s + tail_start) (d + tail_start) (Z.to_nat tail) in
  let m2 := words_bwd m1 (s + head) (d + head) (Z.to_nat chunks) in
  bytes_bwd m2 s d (Z.to_nat head).

(* memmove(ptr, from, to, count), BytesMutPtr::AtomicBytes arm: `if src < dest { backwards } else { forwards }` *)
Definition memmove_shared (base : Z) (m : list Z) (from to count : Z) : list Z :=
  if from <? to then batched_backward base m from to count else batched_forward base m from to count.

(* the specification: copy as if through a temporary *)
Definition memmove_spec (m : list Z) (from to count : Z) : list Z :=
  firstn (Z.to_nat to) m ++ firstn (Z.to_nat count) (skipn (Z.to_nat from) m) ++ skipn (Z.to_nat (to + count)) m.

(* ------------------------------------------------------------------------------------------ *)
(* proofs *)

Lemma setb_length m p v : length (setb m p v) = length m.
Proof.
  unfold setb, zlen'. destruct (Z.leb_spec 0 p); cbn [andb]; [|reflexivity].
  destruct (Z.ltb_spec p (Z.of_nat (length m))); [|reflexivity].
  rewrite app_length, firstn_length. cbn [length]. rewrite skipn_length. lia.
Qed.

Lemma nth_skipn_Z (l : list Z) k i : nth i (skipn k l) 0 = nth (k + i) l 0.
Proof. revert l. induction k; intros l; cbn; auto. destruct l; cbn; auto. destruct i; reflexivity. Qed.
Lemma nth_firstn_Z (l : list Z) : forall k i, (i < k)%nat -> nth i (firstn k l) 0 = nth i l 0.
Proof. induction l; intros k i H; destruct k; cbn; try lia; destruct i; auto. apply IHl. lia. Qed.

Lemma getb_setb m p v q : 0 <= p < zlen' m -> 0 <= q ->
  getb (setb m p v) q = if q =? p then v else getb m q.
Proof.
  intros Hp Hq. unfold setb, getb, zlen' in *.
  destruct (Z.leb_spec 0 p); [|lia]. destruct (Z.ltb_spec p (Z.of_nat (length m))); [|lia]. cbn [andb].
  assert (L : length (firstn (Z.to_nat p) m) = Z.to_nat p) by (rewrite firstn_length; lia).
  destruct (Z.eqb_spec q p) as [-> | N].
  - rewrite app_nth2 by lia. rewrite L, Nat.sub_diag. reflexivity.
  - destruct (Z_lt_le_dec q p).
    + rewrite app_nth1 by lia. apply nth_firstn_Z. lia.
    + rewrite app_nth2 by lia. rewrite L.
      replace (Z.to_nat q - Z.to_nat p)%nat with (S (Z.to_nat q - Z.to_nat p - 1)) by lia. cbn [nth].
      rewrite nth_skipn_Z. f_equal. lia.
Qed.

(* `copied m m' s d n`: m' is m with the n bytes at d replaced by the bytes m had at s *)
Definition copied (m m' : list Z) (s d n : Z) : Prop :=
  length m' = length m /\
  forall p, 0 <= p -> getb m' p = if (d <=? p) && (p <? d + n) then getb m (p - d + s) else getb m p.

Lemma copied_zero m s d : copied m m s d 0.
Proof. split; [reflexivity|]. intros p _. destruct (Z.leb_spec d p); destruct (Z.ltb_spec p (d + 0)); cbn; try reflexivity; lia. Qed.

(* one store *)
Lemma copied_byte m s d : 0 <= d < zlen' m -> 0 <= s -> copied m (setb m d (getb m s)) s d 1.
Proof.
  intros Hd Hs. split; [apply setb_length|]. intros p Hp. rewrite getb_setb by assumption.
  destruct (Z.eqb_spec p d) as [-> | N].
  - destruct (Z.leb_spec d d); [|lia]. destruct (Z.ltb_spec d (d + 1)); [|lia]. cbn. f_equal. lia.
  - destruct (Z.leb_spec d p); destruct (Z.ltb_spec p (d + 1)); cbn; try reflexivity. lia.
Qed.

Ltac cmp_cases :=
  repeat match goal with
  | |- context[Z.leb ?a ?b] => destruct (Z.leb_spec a b)
  | |- context[Z.ltb ?a ?b] => destruct (Z.ltb_spec a b)
  end; cbn [andb].

(* forward composition: first [0,a), then [a,a+b), reads never see earlier writes when d <= s *)
Lemma copied_fwd m m1 m2 s d a b : 0 <= a -> 0 <= b -> d <= s -> 0 <= d ->
  copied m m1 s d a -> copied m1 m2 (s + a) (d + a) b -> copied m m2 s d (a + b).
Proof.
  intros Ha Hb Hds Hd [L1 C1] [L2 C2]. split; [congruence|]. intros p Hp.
  rewrite C2 by assumption.
  destruct (Z.leb_spec (d + a) p); destruct (Z.ltb_spec p (d + a + b)); cbn [andb];
    rewrite C1 by lia; cmp_cases; try lia; try reflexivity; f_equal; lia.
Qed.

(* backward composition: first [a,a+b), then [0,a), when s <= d *)
Lemma copied_bwd m m1 m2 s d a b : 0 <= a -> 0 <= b -> s <= d -> 0 <= s ->
  copied m m1 (s + a) (d + a) b -> copied m1 m2 s d a -> copied m m2 s d (a + b).
Proof.
  intros Ha Hb Hsd Hs [L1 C1] [L2 C2]. split; [congruence|]. intros p Hp.
  rewrite C2 by assumption.
  destruct (Z.leb_spec d p); destruct (Z.ltb_spec p (d + a)); cbn [andb];
    rewrite C1 by lia; cmp_cases; try lia; try reflexivity; f_equal; lia.
Qed.

Lemma copied_len m m' s d n : copied m m' s d n -> zlen' m' = zlen' m.
Proof. intros [L _]. unfold zlen'. congruence. Qed.

(* byte loops *)
Lemma bytes_fwd_copied n : forall m s d, 0 <= d -> d <= s -> s + Z.of_nat n <= zlen' m ->
  copied m (bytes_fwd m s d n) s d (Z.of_nat n).
Proof.
  induction n as [| n IH]; intros m s d Hd Hds Hb; cbn [bytes_fwd].
  - apply copied_zero.
  - replace (Z.of_nat (S n)) with (1 + Z.of_nat n) by lia.
    assert (C1 : copied m (setb m d (getb m s)) s d 1) by (apply copied_byte; lia).
    eapply (copied_fwd m _ _ s d 1 (Z.of_nat n)); try lia; [exact C1|].
    apply IH; try lia. rewrite (copied_len _ _ _ _ _ C1). lia.
Qed.

Lemma bytes_bwd_copied n : forall m s d, 0 <= s -> s <= d -> d + Z.of_nat n <= zlen' m ->
  copied m (bytes_bwd m s d n) s d (Z.of_nat n).
Proof.
  induction n as [| n IH]; intros m s d Hs Hsd Hb; cbn [bytes_bwd].
  - apply copied_zero.
  - replace (Z.of_nat (S n)) with (Z.of_nat n + 1) by lia.
    assert (C1 : copied m (setb m (d + Z.of_nat n) (getb m (s + Z.of_nat n))) (s + Z.of_nat n) (d + Z.of_nat n) 1)
      by (apply copied_byte; lia).
    eapply (copied_bwd m _ _ s d (Z.of_nat n) 1); try lia; [exact C1|].
    apply IH; try lia. rewrite (copied_len _ _ _ _ _ C1). lia.
Qed.

(* one word: all loads precede all stores, so no condition on s and d *)
Lemma getb_load_list n : forall m s k, (k < n)%nat -> 0 <= s -> nth k (load_list m s n) 0 = getb m (s + Z.of_nat k).
Proof.
  induction n as [| n IH]; intros m s k Hk Hs; [lia|]. cbn [load_list]. destruct k; cbn [nth].
  - f_equal. lia.
  - rewrite IH by lia. f_equal. lia.
Qed.

Lemma load_list_length m s n : length (load_list m s n) = n.
Proof. revert s; induction n; intros; cbn; auto. Qed.

Lemma store_list_spec vs : forall m d, 0 <= d -> d + zlen' vs <= zlen' m ->
  length (store_list m d vs) = length m /\
  forall p, 0 <= p -> getb (store_list m d vs) p =
    if (d <=? p) && (p <? d + zlen' vs) then nth (Z.to_nat (p - d)) vs 0 else getb m p.
Proof.
  induction vs as [| v r IH]; intros m d Hd Hb; cbn [store_list].
  - split; [reflexivity|]. intros p Hp. unfold zlen'. cbn [length].
    destruct (Z.leb_spec d p); destruct (Z.ltb_spec p (d + Z.of_nat 0)); cbn [andb]; try reflexivity. lia.
  - unfold zlen' in *. cbn [length] in *.
    destruct (IH (setb m d v) (d + 1)) as [L G]; [lia | rewrite setb_length; lia |].
    split; [rewrite L; apply setb_length|]. intros p Hp. rewrite G by assumption.
    destruct (Z.leb_spec (d + 1) p); destruct (Z.ltb_spec p (d + 1 + Z.of_nat (length r))); cbn [andb].
    + destruct (Z.leb_spec d p); destruct (Z.ltb_spec p (d + Z.of_nat (S (length r)))); cbn [andb]; try lia.
      replace (Z.to_nat (p - d)) with (S (Z.to_nat (p - (d + 1)))) by lia. reflexivity.
    + rewrite getb_setb by (unfold zlen'; lia).
      destruct (Z.eqb_spec p d); [lia|].
      destruct (Z.leb_spec d p); destruct (Z.ltb_spec p (d + Z.of_nat (S (length r)))); cbn [andb]; try lia; reflexivity.
    + rewrite getb_setb by (unfold zlen'; lia).
      destruct (Z.eqb_spec p d) as [-> | N].
      * destruct (Z.leb_spec d d); destruct (Z.ltb_spec d (d + Z.of_nat (S (length r)))); cbn [andb]; try lia.
        rewrite Z.sub_diag. reflexivity.
      * destruct (Z.leb_spec d p); destruct (Z.ltb_spec p (d + Z.of_nat (S (length r)))); cbn [andb]; try lia; reflexivity.
    + lia.
Qed.

Lemma word_copied m s d : 0 <= s -> 0 <= d -> d + 8 <= zlen' m -> copied m (word_copy m s d) s d 8.
Proof.
  intros Hs Hd Hb. unfold word_copy.
  destruct (store_list_spec (load_list m s 8) m d Hd) as [L G].
  { unfold zlen'. rewrite load_list_length. exact Hb. }
  split; [exact L|]. intros p Hp. rewrite G by assumption. unfold zlen'. rewrite load_list_length.
  change (Z.of_nat 8) with 8.
  destruct (Z.leb_spec d p); destruct (Z.ltb_spec p (d + 8)); cbn [andb]; try reflexivity.
  rewrite getb_load_list by lia. f_equal. lia.
Qed.

Lemma words_fwd_copied n : forall m s d, 0 <= d -> d <= s -> s + 8 * Z.of_nat n <= zlen' m ->
  copied m (words_fwd m s d n) s d (8 * Z.of_nat n).
Proof.
  induction n as [| n IH]; intros m s d Hd Hds Hb; cbn [words_fwd].
  - apply copied_zero.
  - replace (8 * Z.of_nat (S n)) with (8 + 8 * Z.of_nat n) by lia.
    assert (C1 : copied m (word_copy m s d) s d 8) by (apply word_copied; lia).
    eapply (copied_fwd m _ _ s d 8 (8 * Z.of_nat n)); try lia; [exact C1|].
    apply IH; try lia. rewrite (copied_len _ _ _ _ _ C1). lia.
Qed.

Lemma words_bwd_copied n : forall m s d, 0 <= s -> s <= d -> d + 8 * Z.of_nat n <= zlen' m ->
  copied m (words_bwd m s d n) s d (8 * Z.of_nat n).
Proof.
  induction n as [| n IH]; intros m s d Hs Hsd Hb; cbn [words_bwd].
  - apply copied_zero.
  - replace (8 * Z.of_nat (S n)) with (8 * Z.of_nat n + 8) by lia.
    assert (C1 : copied m (word_copy m (s + 8 * Z.of_nat n) (d + 8 * Z.of_nat n)) (s + 8 * Z.of_nat n) (d + 8 * Z.of_nat n) 8)
      by (apply word_copied; lia).
    eapply (copied_bwd m _ _ s d (8 * Z.of_nat n) 8); try lia; [exact C1|].
    apply IH; try lia. rewrite (copied_len _ _ _ _ _ C1). lia.
Qed.

Lemma bytes_fwd_Z m s d n : 0 <= n -> 0 <= d -> d <= s -> s + n <= zlen' m ->
  copied m (bytes_fwd m s d (Z.to_nat n)) s d n.
Proof. intros. pose proof (bytes_fwd_copied (Z.to_nat n) m s d) as P. rewrite Z2Nat.id in P by lia. apply P; lia. Qed.
Lemma bytes_bwd_Z m s d n : 0 <= n -> 0 <= s -> s <= d -> d + n <= zlen' m ->
  copied m (bytes_bwd m s d (Z.to_nat n)) s d n.
Proof. intros. pose proof (bytes_bwd_copied (Z.to_nat n) m s d) as P. rewrite Z2Nat.id in P by lia. apply P; lia. Qed.
Lemma words_fwd_Z m s d n : 0 <= n -> 0 <= d -> d <= s -> s + n * 8 <= zlen' m ->
  copied m (words_fwd m s d (Z.to_nat n)) s d (n * 8).
Proof.
  intros. pose proof (words_fwd_copied (Z.to_nat n) m s d) as P. rewrite Z2Nat.id in P by lia.
  replace (n * 8) with (8 * n) by lia. apply P; lia.
Qed.
Lemma words_bwd_Z m s d n : 0 <= n -> 0 <= s -> s <= d -> d + n * 8 <= zlen' m ->
  copied m (words_bwd m s d (Z.to_nat n)) s d (n * 8).
Proof.
  intros. pose proof (words_bwd_copied (Z.to_nat n) m s d) as P. rewrite Z2Nat.id in P by lia.
  replace (n * 8) with (8 * n) by lia. apply P; lia.
Qed.

(* head + 8*chunks + tail = count, all non-negative *)
Lemma batch_offsets_sum addr count head chunks tail : 0 <= count ->
  batch_offsets addr count = (head, chunks, tail) ->
  0 <= head /\ 0 <= chunks /\ 0 <= tail /\ head + chunks * 8 + tail = count.
Proof.
  intros Hc E.
  assert (Eh : head = if addr mod 8 =? 0 then 0 else Z.min (8 - addr mod 8) count)
    by (apply (f_equal (fun t => fst (fst t))) in E; exact (eq_sym E)).
  assert (Ec : chunks = (count - (if addr mod 8 =? 0 then 0 else Z.min (8 - addr mod 8) count)) / 8)
    by (apply (f_equal (fun t => snd (fst t))) in E; exact (eq_sym E)).
  assert (Et : tail = (count - (if addr mod 8 =? 0 then 0 else Z.min (8 - addr mod 8) count)) mod 8)
    by (apply (f_equal (fun t => snd t)) in E; exact (eq_sym E)).
  rewrite <- Eh in Ec, Et. clear E.
  pose proof (Z.mod_pos_bound addr 8 ltac:(lia)) as Hm.
  assert (Hh : 0 <= head <= count) by (rewrite Eh; destruct (addr mod 8 =? 0); lia).
  clear Eh.
  pose proof (Z.div_mod (count - head) 8 ltac:(lia)) as Hdm.
  pose proof (Z.mod_pos_bound (count - head) 8 ltac:(lia)) as Hmb.
  assert (Hq : 0 <= (count - head) / 8) by (apply Z.div_pos; lia).
  rewrite <- Ec in Hdm, Hq. rewrite <- Et in Hdm, Hmb. clear Ec Et. lia.
Qed.

Lemma batched_forward_copied base m s d count : 0 <= d -> d <= s -> 0 <= count -> s + count <= zlen' m ->
  copied m (batched_forward base m s d count) s d count.
Proof.
  intros Hd Hds Hc Hb. unfold batched_forward.
  destruct (Z.eqb_spec count 0) as [-> | N]; [apply copied_zero|].
  assert (BY : copied m (bytes_fwd m s d (Z.to_nat count)) s d count) by (apply bytes_fwd_Z; lia).
  destruct (negb ((base + s) mod BATCH =? (base + d) mod BATCH)); [exact BY|].
  destruct (batch_offsets (base + d) count) as [[head chunks] tail] eqn:E.
  destruct (batch_offsets_sum _ _ _ _ _ Hc E) as (H0 & H1 & H2 & H3).
  destruct (chunks =? 0); [exact BY|]. unfold BATCH. cbv zeta.
  assert (C1 : copied m (bytes_fwd m s d (Z.to_nat head)) s d head) by (apply bytes_fwd_Z; lia).
  pose proof (copied_len _ _ _ _ _ C1) as L1.
  assert (C2 : copied (bytes_fwd m s d (Z.to_nat head))
                 (words_fwd (bytes_fwd m s d (Z.to_nat head)) (s + head) (d + head) (Z.to_nat chunks))
                 (s + head) (d + head) (chunks * 8)) by (apply words_fwd_Z; lia).
  assert (C12 := copied_fwd _ _ _ s d head (chunks * 8) H0 ltac:(lia) Hds Hd C1 C2).
  pose proof (copied_len _ _ _ _ _ C12) as L12.
  match goal with |- copied m ?X s d count => assert (G : copied m X s d ((head + chunks * 8) + tail)) end.
  { eapply copied_fwd; [| | | | exact C12 |]; try lia. apply bytes_fwd_Z; lia. }
  rewrite H3 in G. exact G.
Qed.

Lemma batched_backward_copied base m s d count : 0 <= s -> s <= d -> 0 <= count -> d + count <= zlen' m ->
  copied m (batched_backward base m s d count) s d count.
Proof.
  intros Hs Hsd Hc Hb. unfold batched_backward.
  destruct (Z.eqb_spec count 0) as [-> | N]; [apply copied_zero|].
  assert (BY : copied m (bytes_bwd m s d (Z.to_nat count)) s d count) by (apply bytes_bwd_Z; lia).
  destruct (negb ((base + s) mod BATCH =? (base + d) mod BATCH)); [exact BY|].
  destruct (batch_offsets (base + d) count) as [[head chunks] tail] eqn:E.
  destruct (batch_offsets_sum _ _ _ _ _ Hc E) as (H0 & H1 & H2 & H3).
  destruct (chunks =? 0); [exact BY|]. unfold BATCH. cbv zeta.
  remember (head + chunks * 8) as ts eqn:Ets.
  assert (C1 : copied m (bytes_bwd m (s + ts) (d + ts) (Z.to_nat tail)) (s + ts) (d + ts) tail) by (apply bytes_bwd_Z; lia).
  pose proof (copied_len _ _ _ _ _ C1) as L1.
  remember (bytes_bwd m (s + ts) (d + ts) (Z.to_nat tail)) as m1 eqn:Em1.
  assert (C2 : copied m1 (words_bwd m1 (s + head) (d + head) (Z.to_nat chunks)) (s + head) (d + head) (chunks * 8))
    by (apply words_bwd_Z; lia).
  remember (words_bwd m1 (s + head) (d + head) (Z.to_nat chunks)) as m2 eqn:Em2.
  assert (C1' : copied m m1 (s + head + chunks * 8) (d + head + chunks * 8) tail).
  { replace (s + head + chunks * 8) with (s + ts) by lia. replace (d + head + chunks * 8) with (d + ts) by lia. exact C1. }
  assert (C12 := copied_bwd m m1 m2 (s + head) (d + head) (chunks * 8) tail ltac:(lia) H2 ltac:(lia) ltac:(lia) C1' C2).
  pose proof (copied_len _ _ _ _ _ C12) as L12.
  match goal with |- copied m ?X s d count => assert (G : copied m X s d (head + (chunks * 8 + tail))) end.
  { eapply (copied_bwd m m2 _ s d head (chunks * 8 + tail)); try lia; [exact C12|]. apply bytes_bwd_Z; lia. }
  replace (head + (chunks * 8 + tail)) with count in G by lia. exact G.
Qed.

(* the specification, pointwise *)
Lemma spec_copied m from to count : 0 <= from -> 0 <= to -> 0 <= count ->
  from + count <= zlen' m -> to + count <= zlen' m ->
  copied m (memmove_spec m from to count) from to count.
Proof.
  intros Hf Ht Hc Hbf Hbt. unfold memmove_spec, zlen' in *.
  assert (L1 : length (firstn (Z.to_nat to) m) = Z.to_nat to) by (rewrite firstn_length; lia).
  assert (L2 : length (firstn (Z.to_nat count) (skipn (Z.to_nat from) m)) = Z.to_nat count)
    by (rewrite firstn_length, skipn_length; lia).
  pose proof nth_skipn_Z as G. pose proof nth_firstn_Z as F.
  split.
  - rewrite !app_length, L1, L2, skipn_length. lia.
  - intros p Hp. unfold getb.
    destruct (Z.leb_spec to p); destruct (Z.ltb_spec p (to + count)); cbn [andb].
    + rewrite app_nth2 by lia. rewrite L1. rewrite app_nth1 by lia. rewrite F by lia. rewrite G. f_equal. lia.
    + rewrite app_nth2 by lia. rewrite L1. rewrite app_nth2 by lia. rewrite L2, G. f_equal. lia.
    + rewrite app_nth1 by lia. apply F. lia.
    + lia.
Qed.

Lemma copied_unique m a b s d n : copied m a s d n -> copied m b s d n -> a = b.
Proof.
  intros [La Ca] [Lb Cb]. apply (nth_ext a b 0 0); [congruence|]. intros k _.
  specialize (Ca (Z.of_nat k) ltac:(lia)). specialize (Cb (Z.of_nat k) ltac:(lia)).
  unfold getb in Ca, Cb. rewrite Nat2Z.id in Ca, Cb. congruence.
Qed.

(* the theorem: for every base address (alignment class), every from / to (overlap in either direction, or none)
   and every count in bounds, boa's shared-memory memmove is the specification memmove *)
Theorem memmove_shared_eq_spec base m from to count :
  0 <= from -> 0 <= to -> 0 <= count -> from + count <= zlen' m -> to + count <= zlen' m ->
  memmove_shared base m from to count = memmove_spec m from to count.
Proof.
  intros Hf Ht Hc Hbf Hbt. apply (copied_unique m _ _ from to count); [|apply spec_copied; assumption].
  unfold memmove_shared. destruct (Z.ltb_spec from to).
  - apply batched_backward_copied; lia.
  - apply batched_forward_copied; lia.
Qed.

(* the direction matters: copying FORWARD to the right with a distance that is a multiple of 8 (the aligned word loop
   running forward) loses data -- the counterexample that the direction choice and the backward word order exist for *)
Example forward_when_src_below_dest_is_wrong :
  batched_forward 0 [1;2;3;4;5;6;7;8;9;10;11;12;13;14;15;16;17;18;19;20;21;22;23;24] 0 8 16
  <> memmove_spec [1;2;3;4;5;6;7;8;9;10;11;12;13;14;15;16;17;18;19;20;21;22;23;24] 0 8 16.
Proof. vm_compute. discriminate. Qed.

(* every routine only stores into existing bytes: the length never changes, whatever the arguments *)
Lemma bytes_fwd_length n : forall m s d, length (bytes_fwd m s d n) = length m.
Proof. induction n; intros; cbn [bytes_fwd]; [reflexivity|]. rewrite IHn. apply setb_length. Qed.
Lemma bytes_bwd_length n : forall m s d, length (bytes_bwd m s d n) = length m.
Proof. induction n; intros; cbn [bytes_bwd]; [reflexivity|]. rewrite IHn. apply setb_length. Qed.
Lemma store_list_length vs : forall m d, length (store_list m d vs) = length m.
Proof. induction vs; intros; cbn [store_list]; [reflexivity|]. rewrite IHvs. apply setb_length. Qed.
Lemma words_fwd_length n : forall m s d, length (words_fwd m s d n) = length m.
Proof. induction n; intros; cbn [words_fwd]; [reflexivity|]. rewrite IHn. apply store_list_length. Qed.
Lemma words_bwd_length n : forall m s d, length (words_bwd m s d n) = length m.
Proof. induction n; intros; cbn [words_bwd]; [reflexivity|]. rewrite IHn. apply store_list_length. Qed.

Lemma memmove_shared_length base m from to count : length (memmove_shared base m from to count) = length m.
Proof.
  unfold memmove_shared, batched_backward, batched_forward.
  destruct (from <? to); destruct (count =? 0); try reflexivity;
    destruct (negb ((base + from) mod BATCH =? (base + to) mod BATCH));
    try apply bytes_fwd_length; try apply bytes_bwd_length;
    destruct (batch_offsets (base + to) count) as [[head chunks] tail]; destruct (chunks =? 0);
    try apply bytes_fwd_length; try apply bytes_bwd_length; cbv zeta.
  - rewrite bytes_bwd_length, words_bwd_length, bytes_bwd_length. reflexivity.
  - rewrite bytes_fwd_length, words_fwd_length, bytes_fwd_length. reflexivity.
Qed.
